(* Bits.v — bitmap commands specified on the big-endian bit array of a string
   (redisBits.go, bitMath.go, dataStoreCommands.go: bitfieldWrite, changeBits, invertBits). *)
From RE Require Import Base Resp State Exec.
From Coq Require Import String.
From Coq Require Import List.
Open Scope string_scope.
Open Scope list_scope.
Open Scope Z_scope.

(* ---------- bytes <-> bits, most significant bit first ---------- *)
Definition byte_bits (b : byte) : list bool :=
  map (fun i => N.testbit b i) [7%N; 6%N; 5%N; 4%N; 3%N; 2%N; 1%N; 0%N].

Definition bits_of (bs : bytes) : list bool := flat_map byte_bits bs.

(* value of a bit string read as an unsigned binary numeral, MSB first *)
Definition bits_val (l : list bool) : Z :=
  fold_left (fun acc (b : bool) => 2 * acc + (if b then 1 else 0)) l 0.

Fixpoint bytes_of_bits (fuel : nat) (l : list bool) : bytes :=
  match fuel with
  | O => []
  | S f =>
    match l with
    | [] => []
    | _ => Z.to_N (bits_val (firstn 8 (l ++ repeatN false 7))) :: bytes_of_bits f (skipn 8 l)
    end
  end.
Definition pack (l : list bool) : bytes := bytes_of_bits (S (length l)) l.

(* w-bit big-endian image of the integer v (two's complement: v mod 2^w) *)
Fixpoint val_bits (w : nat) (v : Z) : list bool :=
  match w with
  | O => []
  | S w' => Z.testbit v (Z.of_nat w') :: val_bits w' v
  end.

Definition bit_at (bs : bytes) (i : Z) : bool :=
  if (i <? 0) || (8 * Zlen bs <=? i) then false else nth (Z.to_nat i) (bits_of bs) false.

(* zero-extend to at least n bytes *)
Definition extend (bs : bytes) (n : nat) : bytes := bs ++ repeatN 0%N (n - length bs).

(* the w bits starting at bit offset off, reading zeros beyond the end *)
Definition field_bits (bs : bytes) (off : Z) (w : nat) : list bool :=
  map (fun j => bit_at bs (off + Z.of_nat j)) (seq 0 w).

Definition field_unsigned (bs : bytes) (off : Z) (w : nat) : Z := bits_val (field_bits bs off w).
Definition to_signed (w : nat) (u : Z) : Z :=
  if Z.testbit u (Z.of_nat w - 1) then u - 2 ^ Z.of_nat w else u.
Definition field_signed (bs : bytes) (off : Z) (w : nat) : Z := to_signed w (field_unsigned bs off w).

(* write the low w bits of v at bit offset off; the string is long enough *)
Definition write_bits (bs : bytes) (off : Z) (w : nat) (v : Z) : bytes :=
  let all := bits_of bs in
  let o := Z.to_nat off in
  pack (firstn o all ++ val_bits w v ++ skipn (o + w) all).

Definition str_key (now : Z) (d : db) (k : bytes) : option (option (bytes * option Z)) :=
  match lookup now d k with
  | Some e => match str_of e with Some b => Some (Some (b, e_exp e)) | None => None end
  | None => Some None
  end.

Definition max_bit_off : Z := 4294967296.   (* 2^32: Redis limit on bit offsets (512 MB strings) *)
Definition biterr : resp := err "ERR bit offset is not an integer or out of range".

Definition cmd_getbit (now : Z) (d : db) (args : list bytes) : res :=
  match args with
  | [k; o] =>
    match parse_i64 o with
    | Some off =>
      if (off <? 0) || (max_bit_off <=? off) then (d, biterr) else
      match str_key now d k with
      | None => (d, wrongtype)
      | Some None => (d, RInt 0)
      | Some (Some (b, _)) => (d, RInt (if bit_at b off then 1 else 0))
      end
    | None => (d, argerr)
    end
  | _ => (d, argerr)
  end.

Definition cmd_setbit (now : Z) (d : db) (args : list bytes) : res :=
  match args with
  | [k; o; v] =>
    match parse_i64 o, parse_i64 v with
    | Some off, Some v =>
      if (off <? 0) || (max_bit_off <=? off) then (d, biterr) else
      if negb ((v =? 0) || (v =? 1)) then (d, err "ERR bit is not an integer or out of range") else
      match str_key now d k with
      | None => (d, wrongtype)
      | Some cur =>
        let '(b, exp) := match cur with Some (b, e) => (b, e) | None => ([], None) end in
        let b' := extend b (Z.to_nat (off / 8 + 1)) in
        (put d k (VStr (write_bits b' off 1 v)) exp, RInt (if bit_at b off then 1 else 0))
      end
    | _, _ => (d, argerr)
    end
  | _ => (d, argerr)
  end.

(* Redis range normalisation shared by BITCOUNT and BITPOS; None = empty range *)
Definition norm_range (tot start stop : Z) : option (Z * Z) :=
  if (start <? 0) && (stop <? 0) && (stop <? start) then None else
  let start := if start <? 0 then tot + start else start in
  let stop := if stop <? 0 then tot + stop else stop in
  let start := if start <? 0 then 0 else start in
  let stop := if stop <? 0 then 0 else stop in
  let stop := if tot <=? stop then tot - 1 else stop in
  if stop <? start then None else Some (start, stop).

Definition count_true (l : list bool) : Z := Zlen (filter (fun b => b) l).

Definition unit_kw (u : bytes) : option bool :=   (* true = BIT *)
  if is_kw u "BIT" then Some true else if is_kw u "BYTE" then Some false else None.

Definition cmd_bitcount (now : Z) (d : db) (args : list bytes) : res :=
  match args with
  | k :: rest =>
    let rng : option (option (Z * Z * bool)) :=
      match rest with
      | [] => Some None
      | [s; e] => match parse_i64 s, parse_i64 e with Some s, Some e => Some (Some (s, e, false)) | _, _ => None end
      | [s; e; u] => match parse_i64 s, parse_i64 e, unit_kw u with
                     | Some s, Some e, Some bit => Some (Some (s, e, bit)) | _, _, _ => None end
      | _ => None
      end in
    match rng with
    | None => (d, argerr)
    | Some rng =>
      match str_key now d k with
      | None => (d, wrongtype)
      | Some None => (d, RInt 0)
      | Some (Some (b, _)) =>
        match rng with
        | None => (d, RInt (count_true (bits_of b)))
        | Some (s, e, bit) =>
          let tot := if bit then 8 * Zlen b else Zlen b in
          match norm_range tot s e with
          | None => (d, RInt 0)
          | Some (s, e) =>
            let '(s, e) := if bit then (s, e) else (8 * s, 8 * e + 7) in
            (d, RInt (count_true (slice (bits_of b) s e)))
          end
        end
      end
    end
  | _ => (d, argerr)
  end.

Fixpoint find_bit (l : list bool) (b : bool) (pos : Z) : option Z :=
  match l with
  | [] => None
  | x :: r => if Bool.eqb x b then Some pos else find_bit r b (pos + 1)
  end.

Definition cmd_bitpos (now : Z) (d : db) (args : list bytes) : res :=
  match args with
  | k :: bv :: rest =>
    match parse_i64 bv with
    | Some bitv =>
      let rng : option (Z * option Z * bool) :=
        match rest with
        | [] => Some (0, None, false)
        | [s] => match parse_i64 s with Some s => Some (s, None, false) | None => None end
        | [s; e] => match parse_i64 s, parse_i64 e with Some s, Some e => Some (s, Some e, false) | _, _ => None end
        | [s; e; u] => match parse_i64 s, parse_i64 e, unit_kw u with
                       | Some s, Some e, Some bit => Some (s, Some e, bit) | _, _, _ => None end
        | _ => None
        end in
      match rng with
      | None => (d, argerr)
      | Some (s, eo, bit) =>
        if negb ((bitv =? 0) || (bitv =? 1)) then (d, err "ERR The bit argument must be 1 or 0.") else
        match str_key now d k with
        | None => (d, wrongtype)
        | Some None => (d, RInt (if bitv =? 1 then -1 else 0))
        | Some (Some (b, _)) =>
          let tot := if bit then 8 * Zlen b else Zlen b in
          let e := match eo with Some e => e | None => -1 end in
          match norm_range tot s e with
          | None => (d, RInt (-1))
          | Some (s, e) =>
            let '(s, e) := if bit then (s, e) else (8 * s, 8 * e + 7) in
            match find_bit (slice (bits_of b) s e) (bitv =? 1) s with
            | Some p => (d, RInt p)
            | None =>
              (* looking for a clear bit with no explicit end: the string is taken as
                 padded with zeros on the right *)
              if (bitv =? 0) && (match eo with None => true | Some _ => false end)
              then (d, RInt (8 * Zlen b)) else (d, RInt (-1))
            end
          end
        end
      end
    | None => (d, argerr)
    end
  | _ => (d, argerr)
  end.

(* BITOP *)
Definition byte_op (f : bool -> bool -> bool) (a b : byte) : byte :=
  Z.to_N (bits_val (map (fun xy => f (fst xy) (snd xy)) (combine (byte_bits a) (byte_bits b)))).

Definition bytes_op (f : bool -> bool -> bool) (n : nat) (a b : bytes) : bytes :=
  map (fun xy => byte_op f (fst xy) (snd xy)) (combine (extend a n) (extend b n)).

Fixpoint str_operands (now : Z) (d : db) (ks : list bytes) : option (list bytes) :=
  match ks with
  | [] => Some []
  | k :: r =>
    match str_key now d k, str_operands now d r with
    | Some cur, Some rest => Some (match cur with Some (b, _) => b | None => [] end :: rest)
    | _, _ => None
    end
  end.

Definition store_str_or_del (d : db) (k : bytes) (b : bytes) : db :=
  match b with
  | [] => match aget (d_map d) k with Some _ => del d k | None => d end
  | _ => put d k (VStr b) None
  end.

Definition cmd_bitop (now : Z) (d : db) (args : list bytes) : res :=
  match args with
  | op :: dst :: (_ :: _) as srcs =>
    let f : option (option (bool -> bool -> bool)) :=
      if is_kw op "AND" then Some (Some andb) else
      if is_kw op "OR" then Some (Some orb) else
      if is_kw op "XOR" then Some (Some xorb) else
      if is_kw op "NOT" then Some None else None in
    match f with
    | None => (d, syntaxerr)
    | Some f =>
      match f, srcs with
      | None, _ :: _ :: _ => (d, err "ERR BITOP NOT must be called with a single source key.")
      | _, _ =>
        match str_operands now d srcs with
        | None => (d, wrongtype)
        | Some ops =>
          let n := fold_left Nat.max (map (@length byte) ops) O in
          let r := match f, ops with
                   | None, [a] => map (fun x => (255 - x)%N) a
                   | Some g, a :: rest => fold_left (bytes_op g n) rest (extend a n)
                   | _, _ => []
                   end in
          (store_str_or_del d dst r, RInt (Zlen r))
        end
      end
    end
  | _ => (d, argerr)
  end.

(* ---------- BITFIELD ---------- *)
Inductive oflow := OWrap | OSat | OFail.
Inductive bfop :=
| BGet (sg : bool) (w : nat) (off : Z)
| BSet (sg : bool) (w : nat) (off : Z) (v : Z)
| BIncr (sg : bool) (w : nat) (off : Z) (v : Z)
| BOver (o : oflow).

(* iN 1..64, uN 1..63 *)
Definition parse_type (t : bytes) : option (bool * nat) :=
  match t with
  | c :: ds =>
    let sg := if N.eqb (lower_byte c) 105%N then Some true else if N.eqb (lower_byte c) 117%N then Some false else None in
    match sg, parse_udec ds with
    | Some sg, Some w =>
      if (1 <=? w)%N && (w <=? (if sg then 64 else 63))%N then Some (sg, N.to_nat w) else None
    | _, _ => None
    end
  | [] => None
  end.

Definition parse_off (o : bytes) (w : nat) : option Z :=
  match o with
  | 35%N :: ds => match parse_udec ds with Some n => Some (Z.of_N n * Z.of_nat w) | None => None end
  | _ => match parse_i64 o with Some z => if z <? 0 then None else Some z | None => None end
  end.

Inductive bfparse := BfOk (ops : list bfop) | BfErr (r : resp).

Fixpoint parse_bf (fuel : nat) (args : list bytes) : bfparse :=
  match fuel with
  | O => BfErr argerr
  | S f =>
    match args with
    | [] => BfOk []
    | a :: r =>
      let next (op : bfop) (rest : list bytes) :=
        match parse_bf f rest with BfOk ops => BfOk (op :: ops) | e => e end in
      if is_kw a "GET" then
        match r with
        | t :: o :: rest =>
          match parse_type t with
          | Some (sg, w) => match parse_off o w with
                            | Some off => if max_bit_off <=? off + Z.of_nat w - 1 then BfErr biterr else next (BGet sg w off) rest
                            | None => BfErr biterr end
          | None => BfErr (err "ERR Invalid bitfield type. Use something like i16 u8. Note that u64 is not supported but i64 is.")
          end
        | _ => BfErr argerr
        end
      else if is_kw a "SET" || is_kw a "INCRBY" then
        match r with
        | t :: o :: v :: rest =>
          match parse_type t with
          | Some (sg, w) =>
            match parse_off o w with
            | Some off =>
              if max_bit_off <=? off + Z.of_nat w - 1 then BfErr biterr else
              match parse_i64 v with
              | Some v => next (if is_kw a "SET" then BSet sg w off v else BIncr sg w off v) rest
              | None => BfErr notint
              end
            | None => BfErr biterr
            end
          | None => BfErr (err "ERR Invalid bitfield type. Use something like i16 u8. Note that u64 is not supported but i64 is.")
          end
        | _ => BfErr argerr
        end
      else if is_kw a "OVERFLOW" then
        match r with
        | p :: rest =>
          if is_kw p "WRAP" then next (BOver OWrap) rest else
          if is_kw p "SAT" then next (BOver OSat) rest else
          if is_kw p "FAIL" then next (BOver OFail) rest else BfErr (err "ERR Invalid OVERFLOW type specified")
        | _ => BfErr argerr
        end
      else BfErr argerr
    end
  end.

(* the integer a w-bit field of the given signedness stores for ideal value r under policy o;
   None = FAIL and out of range *)
Definition fit (sg : bool) (w : nat) (o : oflow) (r : Z) : option Z :=
  let W := Z.of_nat w in
  let lo := if sg then - 2 ^ (W - 1) else 0 in
  let hi := if sg then 2 ^ (W - 1) - 1 else 2 ^ W - 1 in
  if (lo <=? r) && (r <=? hi) then Some r else
  match o with
  | OFail => None
  | OSat => Some (if r <? lo then lo else hi)
  | OWrap => let m := r mod 2 ^ W in Some (if sg then to_signed w m else m)
  end.

Definition field_read (sg : bool) (bs : bytes) (off : Z) (w : nat) : Z :=
  if sg then field_signed bs off w else field_unsigned bs off w.

(* one pass over the operations; [bs] is already long enough for every write *)
Fixpoint run_bf (ops : list bfop) (bs : bytes) (o : oflow) (changed : bool) : bytes * list resp * bool :=
  match ops with
  | [] => (bs, [], changed)
  | op :: r =>
    match op with
    | BOver o' => run_bf r bs o' changed
    | BGet sg w off =>
      let '(bs', rs, ch) := run_bf r bs o changed in (bs', RInt (field_read sg bs off w) :: rs, ch)
    | BSet sg w off v =>
      let old := field_read sg bs off w in
      (* an unsigned SET takes the value as an unsigned 64-bit number *)
      let ideal := if sg then v else v mod 2 ^ 64 in
      match fit sg w o ideal with
      | Some nv => let '(bs', rs, ch) := run_bf r (write_bits bs off w nv) o true in (bs', RInt old :: rs, ch)
      | None => let '(bs', rs, ch) := run_bf r bs o changed in (bs', RNil :: rs, ch)
      end
    | BIncr sg w off v =>
      let old := field_read sg bs off w in
      match fit sg w o (old + v) with
      | Some nv => let '(bs', rs, ch) := run_bf r (write_bits bs off w nv) o true in (bs', RInt nv :: rs, ch)
      | None => let '(bs', rs, ch) := run_bf r bs o changed in (bs', RNil :: rs, ch)
      end
    end
  end.

Definition bf_need (ops : list bfop) : Z :=
  fold_left (fun m op => match op with
                         | BSet _ w off _ | BIncr _ w off _ => Z.max m ((off + Z.of_nat w - 1) / 8 + 1)
                         | _ => m end) ops 0.

Definition cmd_bitfield (ro : bool) (now : Z) (d : db) (args : list bytes) : res :=
  match args with
  | k :: rest =>
    match parse_bf (S (length rest)) rest with
    | BfErr e => (d, e)
    | BfOk ops =>
      if ro && existsb (fun op => match op with BGet _ _ _ => false | _ => true end) ops
      then (d, err "ERR BITFIELD_RO only supports the GET subcommand") else
      match str_key now d k with
      | None => (d, wrongtype)
      | Some cur =>
        let '(b, exp) := match cur with Some (b, e) => (b, e) | None => ([], None) end in
        let b0 := extend b (Z.to_nat (bf_need ops)) in
        let '(b', rs, ch) := run_bf ops b0 OWrap false in
        (if ch then put d k (VStr b') exp else d, RArr rs)
      end
    end
  | _ => (d, argerr)
  end.
