(* PropC13.v — C13: no sequence of client bytes can make the request parser or the
   connection read loop reach a panic site; a parsed value consumes at least one byte
   and never more than the buffer holds. *)
From RE Require Import Base RespParse.
From Coq Require Import String List Lia Arith.
Open Scope string_scope.
Open Scope list_scope.
Open Scope nat_scope.

(* ---------- the compiled deep matches on byte constants, as boolean tests ---------- *)
Lemma crlf_match3 (A : Type) (x y : option N) (a b d : A) :
  match x, y with Some 13%N, Some 10%N => a | Some _, Some _ => b | _, _ => d end =
  match x, y with
  | Some u, Some v => if N.eqb u 13 && N.eqb v 10 then a else b
  | _, _ => d end.
Proof.
  destruct x as [[|p]|]; destruct y as [[|q]|]; try reflexivity;
  do 4 (try destruct p as [p|p|]; try reflexivity);
  do 4 (try destruct q as [q|q|]; try reflexivity).
Qed.

Lemma crlf_match2 (A : Type) (x y : option N) (a b : A) :
  match x, y with Some 13%N, Some 10%N => a | _, _ => b end =
  match x, y with
  | Some u, Some v => if N.eqb u 13 && N.eqb v 10 then a else b
  | _, _ => b end.
Proof.
  destruct x as [[|p]|]; destruct y as [[|q]|]; try reflexivity;
  do 4 (try destruct p as [p|p|]; try reflexivity);
  do 4 (try destruct q as [q|q|]; try reflexivity).
Qed.

Lemma find_crlf_S fuel c p :
  find_crlf (S fuel) c p =
  if Nat.leb (length c) (S p) then None
  else match at_ c p, at_ c (S p) with
       | Some u, Some v => if N.eqb u 13 && N.eqb v 10 then Some (p + 2) else find_crlf fuel c (S p)
       | _, _ => find_crlf fuel c (S p)
       end.
Proof. cbn [find_crlf]. rewrite crlf_match2. reflexivity. Qed.

Lemma peek_bulk_eq c pos len :
  peek_bulk c pos len =
  if Nat.ltb (length c) (pos + len + 2) then Invalid
  else match at_ c (pos + len), at_ c (pos + len + 1) with
       | Some u, Some v =>
           if N.eqb u 13 && N.eqb v 10 then Done (PBulk (sub c pos (pos + len))) (pos + len + 2)
           else Invalid
       | _, _ => Panic "peekBulkLine: index out of range"
       end.
Proof. unfold peek_bulk. rewrite crlf_match3. reflexivity. Qed.

Lemma at_Some c i : i < length c -> exists x, at_ c i = Some x.
Proof.
  intro H. unfold at_. destruct (nth_error c i) eqn:E; [eauto|].
  apply nth_error_None in E. lia.
Qed.

(* ---------- findNextLine stays inside the buffer ---------- *)
Lemma find_crlf_bounds fuel : forall c p q,
  find_crlf fuel c p = Some q -> p + 2 <= q <= length c.
Proof.
  induction fuel as [|f IH]; intros c p q H; [discriminate|].
  rewrite find_crlf_S in H.
  destruct (Nat.leb (length c) (S p)) eqn:El; [discriminate|].
  apply Nat.leb_gt in El.
  assert (Hrec : find_crlf f c (S p) = Some q -> p + 2 <= q <= length c).
  { intro Hr. apply IH in Hr. lia. }
  destruct (at_ c p) as [u|]; [|auto].
  destruct (at_ c (S p)) as [v|]; [|auto].
  destruct (N.eqb u 13 && N.eqb v 10); [|auto].
  injection H as <-. lia.
Qed.

(* ---------- peekBulkLine: the bounds check protects both index operations ---------- *)
Lemma peek_bulk_no_panic c pos len s : peek_bulk c pos len <> Panic s.
Proof.
  rewrite peek_bulk_eq.
  destruct (Nat.ltb (length c) (pos + len + 2)) eqn:El; [discriminate|].
  apply Nat.ltb_ge in El.
  destruct (at_Some c (pos + len)) as [u Hu]; [lia|].
  destruct (at_Some c (pos + len + 1)) as [v Hv]; [lia|].
  rewrite Hu, Hv. destruct (N.eqb u 13 && N.eqb v 10); discriminate.
Qed.

Lemma peek_bulk_done c pos len v n :
  peek_bulk c pos len = Done v n ->
  n = pos + len + 2 /\ n <= length c /\ v = PBulk (sub c pos (pos + len)).
Proof.
  rewrite peek_bulk_eq.
  destruct (Nat.ltb (length c) (pos + len + 2)) eqn:El; [discriminate|].
  apply Nat.ltb_ge in El.
  destruct (at_ c (pos + len)) as [u|]; [|discriminate].
  destruct (at_ c (pos + len + 1)) as [w|]; [|discriminate].
  destruct (N.eqb u 13 && N.eqb w 10); [|discriminate].
  intro H. injection H as <- <-. auto.
Qed.

(* ---------- parse_seq inherits both properties from the element parser ---------- *)
Lemma parse_seq_no_panic (P : bytes -> nat -> presult) :
  (forall c pos s, P c pos <> Panic s) ->
  forall n c pos s, parse_seq P n c pos <> inr (Panic s).
Proof.
  intros HP n. induction n as [|n IH]; intros c pos s; cbn [parse_seq]; [discriminate|].
  destruct (P c pos) as [v p| | |site] eqn:E; try discriminate.
  - destruct (parse_seq P n c p) as [[[vs p']|]|r] eqn:E2; try discriminate.
    rewrite <- E2. apply IH.
  - intro H. injection H as ->. exact (HP _ _ _ E).
Qed.

Lemma parse_seq_not_done (P : bytes -> nat -> presult) :
  forall n c pos v p, parse_seq P n c pos <> inr (Done v p).
Proof.
  induction n as [|n IH]; intros c pos v p; cbn [parse_seq]; [discriminate|].
  destruct (P c pos) as [v0 p0| | |site] eqn:E; try discriminate.
  destruct (parse_seq P n c p0) as [[[vs p']|]|r] eqn:E2; try discriminate.
  rewrite <- E2. apply IH.
Qed.

Lemma parse_seq_progress (P : bytes -> nat -> presult) c :
  (forall pos v n, P c pos = Done v n -> pos < n <= length c) ->
  forall n pos vs p', parse_seq P n c pos = inl (Some (vs, p')) ->
  pos <= p' /\ (pos <= length c -> p' <= length c) /\ length vs = n.
Proof.
  intros HP n. induction n as [|n IH]; intros pos vs p'; cbn [parse_seq].
  - intro H. injection H as <- <-. cbn. lia.
  - destruct (P c pos) as [v0 p0| | |site] eqn:E; try discriminate.
    destruct (parse_seq P n c p0) as [[[vs0 p0']|]|r] eqn:E2; try discriminate.
    intro H. injection H as <- <-.
    apply HP in E. apply IH in E2. cbn [length]. lia.
Qed.

(* one unfolding of the deserializer *)
Lemma parse_at_S f c pos :
  parse_at (S f) c pos =
    match find_crlf (S (length c)) c pos with
    | None => Invalid
    | Some nxt =>
      let line := sub c pos (nxt - 2) in
      match line with
      | [] => Invalid
      | t :: body =>
        if N.eqb t 43%N then Done (PSimple body) nxt
        else if N.eqb t 45%N then Done (PErr body) nxt
        else if N.eqb t 58%N then
          match parse_i64 body with Some z => Done (PInt z) nxt | None => Invalid end
        else if N.eqb t 36%N then
          if bytes_eqb body (s2b "?") then Unsupported else
          match get_count c body with
          | None => Invalid
          | Some n => if (n <? 0)%Z then Done PNil nxt else peek_bulk c nxt (Z.to_nat n)
          end
        else if N.eqb t 42%N then
          if bytes_eqb body (s2b "?") then Unsupported else
          match get_count c body with
          | None => Invalid
          | Some n =>
            if (n <? 0)%Z then Done PNil nxt else
            match parse_seq (parse_at f) (Z.to_nat n) c nxt with
            | inl (Some (vs, p)) => Done (PArr vs) p
            | inl None => Invalid
            | inr r => r
            end
          end
        else if N.eqb t 37%N then
          if bytes_eqb body (s2b "?") then Unsupported else
          match get_count c body with
          | None => Invalid
          | Some n =>
            if (n <? 0)%Z then Invalid else
            match parse_seq (parse_at f) (2 * Z.to_nat n) c nxt with
            | inl (Some (vs, p)) => if keys_ok vs then Done (PMap (pairs_up vs)) p else Invalid
            | inl None => Invalid
            | inr r => r
            end
          end
        else if N.eqb t 126%N then
          if bytes_eqb body (s2b "?") then Unsupported else
          match get_count c body with
          | None => Invalid
          | Some n =>
            if (n <? 0)%Z then Invalid else
            match parse_seq (parse_at f) (Z.to_nat n) c nxt with
            | inl (Some (vs, p)) =>
              if forallb (fun v => hashable (normalize_key v)) vs then Done (PSet (map normalize_key vs)) p else Invalid
            | inl None => Invalid
            | inr r => r
            end
          end
        else if bytes_eqb line (s2b "#t") then Done (PBool true) nxt
        else if bytes_eqb line (s2b "#f") then Done (PBool false) nxt
        else if bytes_eqb line (s2b "_") then Done PNull nxt
        else if existsb (N.eqb t) [44; 40; 61; 33; 124; 62]%N then Unsupported
        else Invalid
      end
    end.
Proof. reflexivity. Qed.

Ltac split_body :=
  repeat match goal with
  | |- (if ?b then _ else _) <> _ => destruct b eqn:?
  | |- (match ?x with _ => _ end) <> _ => destruct x eqn:?
  | |- (if ?b then _ else _) = _ -> _ => destruct b eqn:?
  | |- (match ?x with _ => _ end) = _ -> _ => destruct x eqn:?
  | |- (let (_, _) := ?x in _) <> _ => destruct x eqn:?
  | |- (let (_, _) := ?x in _) = _ -> _ => destruct x eqn:?
  end.

(* ---------- 1. the deserializer never reaches a panic site ---------- *)
Theorem C13_parse_at_total : forall fuel c pos s, parse_at fuel c pos <> Panic s.
Proof.
  induction fuel as [|f IH]; intros c pos s; [discriminate|].
  rewrite parse_at_S. cbv zeta.
  split_body; try discriminate; try apply peek_bulk_no_panic;
    match goal with
    | H : parse_seq _ _ _ _ = inr ?r |- ?r <> Panic ?s =>
        intro Hr; rewrite Hr in H; exact (parse_seq_no_panic _ IH _ _ _ _ H)
    end.
Qed.

Theorem C13_parse_total : forall c, (forall s, parse c <> Panic s).
Proof. intros c s. apply C13_parse_at_total. Qed.
Print Assumptions C13_parse_total.

(* malformed input, absurd length, RESP3 types, truncated bulk: outcomes are Invalid /
   Unsupported / Done, never Panic *)
Example C13_parse_total_ex :
  parse (s2b "$9223372036854775807" ++ [13;10]%N) = Invalid /\
  parse (s2b "*2" ++ [13;10]%N ++ s2b "$3" ++ [13;10]%N ++ s2b "ab") = Invalid /\
  parse (s2b "$1" ++ [13;10]%N ++ s2b "abc") = Invalid /\
  parse ([13;10]%N) = Invalid /\
  parse (s2b ",1.5" ++ [13;10]%N) = Unsupported /\
  parse (s2b "*1" ++ [13;10]%N ++ s2b "%1" ++ [13;10]%N ++ s2b "+a" ++ [13;10]%N ++ s2b ":7" ++ [13;10]%N)
    = Done (PArr [PMap [(PBulk (s2b "a"), PInt 7)]]) 16.
Proof. vm_compute. repeat split; reflexivity. Qed.

(* ---------- 3. progress: a parsed value consumes >= 1 byte, <= the buffer ---------- *)
Theorem C13_parse_at_progress : forall fuel c pos v n,
  parse_at fuel c pos = Done v n -> pos < n <= length c.
Proof.
  induction fuel as [|f IH]; intros c pos v n; [discriminate|].
  rewrite parse_at_S. cbv zeta.
  destruct (find_crlf (S (length c)) c pos) as [nxt|] eqn:Ef; [|discriminate].
  apply find_crlf_bounds in Ef.
  assert (HP : forall pos v n, parse_at f c pos = Done v n -> pos < n <= length c)
    by (intros; eapply IH; eauto).
  split_body; try discriminate;
    try (intro Hd; injection Hd as <- <-; lia);
    try (intro Hd; apply peek_bulk_done in Hd; lia);
    try (intro Hd; injection Hd as <- <-;
         match goal with H : parse_seq _ _ _ _ = inl _ |- _ =>
           apply (parse_seq_progress _ _ HP) in H; lia end);
    try (intro Hd; subst;
         match goal with H : parse_seq _ _ _ _ = inr (Done _ _) |- _ =>
           exfalso; exact (parse_seq_not_done _ _ _ _ _ _ H) end).
Qed.

Theorem C13_parse_progress : forall c v n, parse c = Done v n -> 0 < n <= length c.
Proof. intros c v n H. apply C13_parse_at_progress in H. exact H. Qed.
Print Assumptions C13_parse_progress.

Example C13_parse_progress_ex :
  parse (s2b "*1" ++ [13;10]%N ++ s2b "$0" ++ [13;10;13;10]%N ++ s2b "junk") = Done (PArr [PBulk []]) 10.
Proof. vm_compute. reflexivity. Qed.

(* ---------- 2. the connection loop never panics ---------- *)
Lemma drain_never_panics : forall fuel inb, snd (drain fuel inb) = false.
Proof.
  induction fuel as [|f IH]; intros inb; cbn [drain]; [reflexivity|].
  destruct (parse inb) as [v n| | |site] eqn:E; try reflexivity.
  - destruct n as [|n]; [reflexivity|].
    specialize (IH (skipn (S n) inb)).
    destruct (drain f (skipn (S n) inb)) as [[vs rest] p]. exact IH.
  - exfalso. exact (C13_parse_total _ _ E).
Qed.

Theorem C13_conn_never_panics : forall chunks inb, snd (conn_run chunks inb) = false.
Proof.
  induction chunks as [|ch r IH]; intros inb; cbn [conn_run]; [reflexivity|].
  pose proof (drain_never_panics (S (length (inb ++ ch))) (inb ++ ch)) as Hd.
  destruct (drain (S (length (inb ++ ch))) (inb ++ ch)) as [[vs rest] p].
  cbn [snd] in Hd. subst p.
  specialize (IH rest). destruct (conn_run r rest) as [[vs' rest'] p']. exact IH.
Qed.
Print Assumptions C13_conn_never_panics.

(* the loop terminates by consuming input: every dispatched value removed >= 1 byte,
   so the number of values dispatched from a buffer is bounded by its length and the
   fuel [S (length buf)] used by [conn_run] is never exhausted with a complete command pending *)
Lemma drain_consumes : forall fuel inb vs rest p,
  drain fuel inb = (vs, rest, p) -> length vs + length rest <= length inb.
Proof.
  induction fuel as [|f IH]; intros inb vs rest p; cbn [drain].
  - intro H. injection H as <- <- <-. cbn. lia.
  - destruct (parse inb) as [v n| | |site] eqn:E;
      try (intro H; injection H as <- <- <-; cbn; lia).
    destruct n as [|n]; [intro H; injection H as <- <- <-; cbn; lia|].
    destruct (drain f (skipn (S n) inb)) as [[vs0 rest0] p0] eqn:Ed.
    intro H. injection H as <- <- <-.
    apply IH in Ed. apply C13_parse_progress in E.
    rewrite skipn_length in Ed. cbn [length]. lia.
Qed.

(* with the fuel conn_run supplies, drain stops only because no further complete
   value is available: what is left in the buffer does not parse to a (non-empty) value *)
Theorem C13_drain_complete : forall fuel inb vs rest p,
  length inb < fuel -> drain fuel inb = (vs, rest, p) ->
  forall v n, parse rest = Done v n -> False.
Proof.
  induction fuel as [|f IH]; intros inb vs rest p Hf; [lia|].
  cbn [drain].
  destruct (parse inb) as [v n| | |site] eqn:E;
    try (intro H; injection H as <- <- <-; intros v' n' H'; congruence).
  destruct n as [|n].
  - apply C13_parse_progress in E. lia.
  - destruct (drain f (skipn (S n) inb)) as [[vs0 rest0] p0] eqn:Ed.
    intro H. injection H as <- <- <-.
    eapply IH; [|exact Ed]. rewrite skipn_length.
    apply C13_parse_progress in E. lia.
Qed.
Print Assumptions C13_drain_complete.

Example C13_conn_ex :
  conn_run [s2b "*1" ++ [13;10]%N ++ s2b "$4" ++ [13;10]%N ++ s2b "PI";
            s2b "NG" ++ [13;10]%N ++ s2b "*9999999999999999999999" ++ [13;10]%N] []
  = ([PArr [PBulk (s2b "PING")]], s2b "*9999999999999999999999" ++ [13;10]%N, false).
Proof. vm_compute. reflexivity. Qed.

(* Observation (not a panic, but relevant to "every well-formed command receives exactly one
   reply"): a malformed line at the HEAD of the buffer (blank line, inline command, "$?")
   is reported as Invalid / Unsupported = "wait for more bytes" and is never discarded, so the
   connection dispatches nothing from then on and the buffer only grows; clientCxn.go
   (parseCommand -> length 0 -> Read -> append) behaves the same way.  Well-formed commands
   sent after such a line get no reply. *)
Example C13_malformed_head_wedges :
  conn_run [[13;10]%N ++ enc_cmd [s2b "PING"]; enc_cmd [s2b "PING"]] []
  = ([], [13;10]%N ++ enc_cmd [s2b "PING"] ++ enc_cmd [s2b "PING"], false)
  /\ fst (fst (conn_run [s2b "PING" ++ [13;10]%N; enc_cmd [s2b "PING"]] [])) = [].
Proof. vm_compute. split; reflexivity. Qed.
