(* PropC17.v — the SCAN guarantee for the cursor walk [scan_call] of Dict.v
   (dictScanUnlocked over the one-item-per-bucket dictionary of redisDict.go). *)
From RE Require Import Base Dict.
From Coq Require Import Lia.
Open Scope N_scope.

(* ================================================================== *)
(** * 1. Bit reversal                                                   *)
(* ================================================================== *)

Lemma rev_bits_testbit : forall n x acc i,
  N.testbit (rev_bits n x acc) i =
  if i <? N.of_nat n then N.testbit x (N.of_nat n - 1 - i) else N.testbit acc (i - N.of_nat n).
Proof.
  induction n as [|n IH]; intros x acc i.
  - cbn [rev_bits]. change (N.of_nat 0) with 0.
    destruct (i <? 0) eqn:E; [apply N.ltb_lt in E; lia|]. now rewrite N.sub_0_r.
  - cbn [rev_bits]. rewrite IH. rewrite Nat2N.inj_succ.
    destruct (i <? N.of_nat n) eqn:E1.
    + apply N.ltb_lt in E1.
      assert (E2 : i <? N.succ (N.of_nat n) = true) by (apply N.ltb_lt; lia).
      rewrite E2. rewrite N.div2_bits. f_equal; lia.
    + apply N.ltb_ge in E1.
      rewrite <- (N.bit0_mod x).
      destruct (i <? N.succ (N.of_nat n)) eqn:E2.
      * apply N.ltb_lt in E2. assert (Hi : i = N.of_nat n) by lia. subst i.
        rewrite N.sub_diag. rewrite N.testbit_0_r. f_equal; lia.
      * apply N.ltb_ge in E2.
        replace (i - N.of_nat n) with (N.succ (i - N.succ (N.of_nat n))) by lia.
        now rewrite N.testbit_succ_r.
Qed.

Lemma two32 : 4294967296 = 2 ^ 32.
Proof. reflexivity. Qed.

Lemma rev32_testbit x i :
  N.testbit (rev32 x) i = if i <? 32 then N.testbit x (31 - i) else false.
Proof.
  unfold rev32. rewrite rev_bits_testbit. change (N.of_nat 32) with 32.
  destruct (i <? 32) eqn:E.
  - apply N.ltb_lt in E. rewrite two32. rewrite N.mod_pow2_bits_low by lia. f_equal; lia.
  - apply N.bits_0.
Qed.

Lemma small_of_bits a n : (forall i, n <= i -> N.testbit a i = false) -> a < 2 ^ n.
Proof.
  intro H. assert (E : a mod 2 ^ n = a).
  { apply N.bits_inj. intro i. destruct (N.lt_ge_cases i n) as [L|G].
    - now apply N.mod_pow2_bits_low.
    - rewrite N.mod_pow2_bits_high by assumption. symmetry. now apply H. }
  rewrite <- E. apply N.mod_lt. apply N.pow_nonzero. discriminate.
Qed.

Lemma rev32_lt x : rev32 x < 4294967296.
Proof.
  rewrite two32. apply small_of_bits. intros i Hi. rewrite rev32_testbit.
  destruct (i <? 32) eqn:E; [apply N.ltb_lt in E; lia | reflexivity].
Qed.

Lemma rev32_mod x : rev32 (x mod 4294967296) = rev32 x.
Proof. unfold rev32. now rewrite N.mod_mod by discriminate. Qed.

(* involution on [0, 2^32) *)
Lemma rev32_rev32 x : rev32 (rev32 x) = x mod 4294967296.
Proof.
  apply N.bits_inj. intro i. rewrite rev32_testbit. rewrite two32.
  destruct (i <? 32) eqn:E.
  - apply N.ltb_lt in E. rewrite rev32_testbit.
    assert (E2 : 31 - i <? 32 = true) by (apply N.ltb_lt; lia). rewrite E2.
    rewrite N.mod_pow2_bits_low by assumption. f_equal; lia.
  - apply N.ltb_ge in E. now rewrite N.mod_pow2_bits_high.
Qed.

Lemma rev32_invol x : x < 4294967296 -> rev32 (rev32 x) = x.
Proof. intro H. rewrite rev32_rev32. now apply N.mod_small. Qed.

Lemma rev32_0 : rev32 0 = 0.
Proof. reflexivity. Qed.

Lemma rev32_inj x y : x < 4294967296 -> y < 4294967296 -> rev32 x = rev32 y -> x = y.
Proof. intros Hx Hy E. rewrite <- (rev32_invol x Hx), <- (rev32_invol y Hy). now rewrite E. Qed.

(* the stride of a table of 2^k slots *)
Definition S_ (k : nat) : N := pow2 (32 - k).

Lemma pow2_pos k : 0 < pow2 k.
Proof. unfold pow2. apply N.neq_0_lt_0. apply N.pow_nonzero. discriminate. Qed.

Lemma pow2_S_ k : (k <= 32)%nat -> pow2 k * S_ k = 4294967296.
Proof.
  intro H. unfold S_, pow2. rewrite <- N.pow_add_r. rewrite two32. f_equal; lia.
Qed.

(* keeping the low k bits and shifting them to the top, then reversing = the top k bits of the
   reversal, i.e. the slot [pos / S] *)
Lemma rev32_low_shift x k : (k <= 32)%nat ->
  rev32 ((x mod pow2 k) * pow2 (32 - k)) = rev32 x / pow2 (32 - k).
Proof.
  intro Hk. unfold pow2. apply N.bits_inj. intro i.
  rewrite N.div_pow2_bits. rewrite !rev32_testbit.
  replace (N.of_nat (32 - k)) with (32 - N.of_nat k) by lia.
  set (K := N.of_nat k). assert (HK : K <= 32) by lia. clearbody K.
  destruct (i <? 32) eqn:E.
  - apply N.ltb_lt in E.
    destruct (N.lt_ge_cases i K) as [L|G].
    + assert (E2 : i + (32 - K) <? 32 = true) by (apply N.ltb_lt; lia). rewrite E2.
      rewrite N.mul_pow2_bits_high by lia.
      rewrite N.mod_pow2_bits_low by lia. f_equal; lia.
    + assert (E2 : i + (32 - K) <? 32 = false) by (apply N.ltb_ge; lia). rewrite E2.
      apply N.mul_pow2_bits_low. lia.
  - apply N.ltb_ge in E.
    assert (E2 : i + (32 - K) <? 32 = false) by (apply N.ltb_ge; lia). now rewrite E2.
Qed.

(* reducing the wire cursor modulo the table size rounds its position DOWN to a slot boundary *)
Lemma rev32_mod_pow2 x k : (k <= 32)%nat ->
  rev32 (x mod pow2 k) = rev32 x / S_ k * S_ k.
Proof.
  intro Hk. unfold S_, pow2. apply N.bits_inj. intro i.
  replace (N.of_nat (32 - k)) with (32 - N.of_nat k) by lia.
  set (K := N.of_nat k). assert (HK : K <= 32) by lia. clearbody K.
  rewrite rev32_testbit.
  destruct (N.lt_ge_cases i (32 - K)) as [L|G].
  - rewrite N.mul_pow2_bits_low by assumption.
    assert (E : i <? 32 = true) by (apply N.ltb_lt; lia). rewrite E.
    apply N.mod_pow2_bits_high. lia.
  - rewrite N.mul_pow2_bits_high by assumption. rewrite N.div_pow2_bits.
    replace (i - (32 - K) + (32 - K)) with i by lia. rewrite rev32_testbit.
    destruct (i <? 32) eqn:E; [|reflexivity]. apply N.ltb_lt in E.
    apply N.mod_pow2_bits_low. lia.
Qed.

(* ================================================================== *)
(** * 2. Positions, slots, well-formed tables                           *)
(* ================================================================== *)

(* the position of a hash in the iteration order: the bit reversal of its low 32 bits *)
Definition pos (h : N) : N := rev32 (h mod 4294967296).

Lemma pos_rev32 h : pos h = rev32 h.
Proof. apply rev32_mod. Qed.

Lemma pos_lt h : pos h < 4294967296.
Proof. apply rev32_lt. Qed.

Lemma S_pos k : 0 < S_ k.
Proof. apply pow2_pos. Qed.

Lemma div_range a s i j : 0 < s -> i * s <= a < j * s -> i <= a / s < j.
Proof.
  intros Hs [H1 H2]. split.
  - apply N.div_le_lower_bound; lia.
  - apply N.div_lt_upper_bound; lia.
Qed.

Lemma div_range_inv a s : 0 < s -> a / s * s <= a < (a / s + 1) * s.
Proof.
  intro Hs. pose proof (N.div_mod a s ltac:(lia)) as E.
  pose proof (N.mod_lt a s ltac:(lia)) as L.
  set (q := a / s) in *. set (r := a mod s) in *. clearbody q r. nia.
Qed.

(* the key lemma: the slot of a hash is the slot containing its position *)
Lemma hash_to_index_pos h k : (k <= 32)%nat -> hash_to_index h k = pos h / S_ k.
Proof. intro Hk. unfold hash_to_index, S_. rewrite pos_rev32. now apply rev32_low_shift. Qed.

Lemma slot_of_pos_lt p k : (k <= 32)%nat -> p < 4294967296 -> p / S_ k < pow2 k.
Proof.
  intros Hk Hp. apply N.div_lt_upper_bound.
  - pose proof (S_pos k). lia.
  - rewrite N.mul_comm, pow2_S_; assumption.
Qed.

Lemma hash_to_index_lt h k : (k <= 32)%nat -> hash_to_index h k < pow2 k.
Proof. intro Hk. rewrite hash_to_index_pos by assumption. apply slot_of_pos_lt; [assumption | apply pos_lt]. Qed.

Definition wf_dict {V} (d : dict V) : Prop :=
  length (d_slots d) = N.to_nat (pow2 (d_log d)) /\
  (4 <= d_log d <= 32)%nat /\
  forall i it, slot d i = Some it -> hash_to_index (it_hash it) (d_log d) = i.

(* [c] read as a position; the returned cursor 0 means "finished" = position 2^32 *)
Definition cur_pos (c : N) : N := if c =? 0 then 4294967296 else rev32 c.

(* ================================================================== *)
(** * 3. One call                                                       *)
(* ================================================================== *)

Lemma next_occupied_spec {V} (d : dict V) : forall fuel i,
  i <= pow2 (d_log d) -> pow2 (d_log d) <= N.of_nat fuel + i ->
  i <= next_occupied fuel d i <= pow2 (d_log d) /\
  (forall m, i <= m < next_occupied fuel d i -> slot d m = None) /\
  (next_occupied fuel d i < pow2 (d_log d) -> slot d (next_occupied fuel d i) <> None).
Proof.
  induction fuel as [|f IH]; intros i Hi Hf.
  - cbn [next_occupied]. split; [lia|]. split; [intros m Hm; lia | intro; lia].
  - cbn [next_occupied]. destruct (pow2 (d_log d) <=? i) eqn:E.
    + apply N.leb_le in E. split; [lia|]. split; [intros m Hm; lia | intro; lia].
    + apply N.leb_gt in E. destruct (slot d i) as [it|] eqn:Es.
      * split; [lia|]. split; [intros m Hm; lia |]. intros _. rewrite Es. discriminate.
      * destruct (IH (i + 1)) as (A & B & C); try lia.
        split; [lia|]. split; [|assumption].
        intros m Hm. destruct (N.eq_dec m i) as [->|Hne]; [assumption|]. apply B. lia.
Qed.

Ltac split_all := repeat match goal with |- _ /\ _ => split end.

Definition visit {V} (d : dict V) (keep : item V -> bool) (index : N) (count : nat) (acc : list (item V)) :=
  match slot d index with
  | Some it => if keep it then (it :: acc, Nat.pred count) else (acc, count)
  | None => (acc, count)
  end.

Lemma scan_loop_step {V} f (d : dict V) keep c n acc :
  scan_loop (S f) d keep c (S n) acc =
  let k := d_log d in
  let index := rev32 (c * pow2 (32 - k) mod 4294967296) in
  let nxt := next_occupied (N.to_nat (pow2 k)) d (index + 1) in
  let cursor' := rev32 (nxt * pow2 (32 - k) mod 4294967296) in
  if N.eqb cursor' 0 then (0, rev (fst (visit d keep index (S n) acc)))
  else scan_loop f d keep cursor' (snd (visit d keep index (S n) acc)) (fst (visit d keep index (S n) acc)).
Proof.
  cbn [scan_loop]. unfold visit. cbv zeta.
  destruct (slot d (rev32 (c * pow2 (32 - d_log d) mod 4294967296))) as [it|];
    [destruct (keep it)|]; reflexivity.
Qed.

Lemma visit_spec {V} (d : dict V) keep i count acc :
  (forall x, In x (fst (visit d keep i count acc)) <-> In x acc \/ (slot d i = Some x /\ keep x = true)) /\
  (Nat.pred count <= snd (visit d keep i count acc))%nat.
Proof.
  unfold visit. destruct (slot d i) as [it|] eqn:Es; [destruct (keep it) eqn:Ek|]; cbn [fst snd]; split; try lia.
  - intro x. cbn [In]. split.
    + intros [<-|H]; [right; split; [reflexivity|assumption] | now left].
    + intros [H|[H1 H2]]; [now right | left; congruence].
  - intro x. split; [now left|]. intros [H|[H1 H2]]; [assumption|]. congruence.
  - intro x. split; [now left|]. intros [H|[H1 H2]]; [assumption|]. discriminate.
Qed.

(* index computed inside the loop from a cursor whose position is exactly the start of slot i *)
Lemma loop_index c k i : (k <= 32)%nat -> i < pow2 k -> rev32 c = i * S_ k ->
  rev32 (c * pow2 (32 - k) mod 4294967296) = i.
Proof.
  intros Hk Hi Hc. rewrite <- (pow2_S_ k Hk). unfold S_.
  rewrite N.mul_mod_distr_r.
  2:{ pose proof (pow2_pos k); lia. } 2:{ pose proof (pow2_pos (32 - k)); lia. }
  rewrite rev32_low_shift by assumption. fold (S_ k). rewrite Hc.
  apply N.div_mul. pose proof (S_pos k). lia.
Qed.

Lemma scan_loop_spec {V} (d : dict V) keep : (d_log d <= 32)%nat ->
  forall fuel c count acc c' out i,
  i < pow2 (d_log d) -> rev32 c = i * S_ (d_log d) ->
  scan_loop fuel d keep c count acc = (c', out) ->
  exists j, i <= j <= pow2 (d_log d) /\
    (j = pow2 (d_log d) -> c' = 0) /\
    (j < pow2 (d_log d) -> rev32 c' = j * S_ (d_log d)) /\
    (i < j < pow2 (d_log d) -> slot d j <> None) /\
    ((1 <= fuel)%nat -> (1 <= count)%nat -> i < j) /\
    (pow2 (d_log d) - i <= N.of_nat fuel -> pow2 (d_log d) - i <= N.of_nat count -> j = pow2 (d_log d)) /\
    (forall it, In it out <-> In it acc \/ exists m, i <= m < j /\ slot d m = Some it /\ keep it = true).
Proof.
  intro Hk. set (k := d_log d) in *.
  assert (HS : 0 < S_ k) by apply S_pos.
  assert (HKS : pow2 k * S_ k = 4294967296) by (apply pow2_S_; assumption).
  assert (Base : forall c acc c' out i, i < pow2 k -> rev32 c = i * S_ k ->
     (c, rev acc) = (c', out) -> forall fuel count, (fuel = 0 \/ count = 0)%nat ->
     exists j, i <= j <= pow2 k /\ (j = pow2 k -> c' = 0) /\ (j < pow2 k -> rev32 c' = j * S_ k) /\
      (i < j < pow2 k -> slot d j <> None) /\
      ((1 <= fuel)%nat -> (1 <= count)%nat -> i < j) /\
      (pow2 k - i <= N.of_nat fuel -> pow2 k - i <= N.of_nat count -> j = pow2 k) /\
      (forall it, In it out <-> In it acc \/ exists m, i <= m < j /\ slot d m = Some it /\ keep it = true)).
  { intros c acc c' out i Hi Hc E fuel count H0. inversion E; subst c' out. exists i.
    split_all; try (intros; lia). split.
    - intro H. rewrite <- in_rev in H. now left.
    - intros [H|(m & Hm & _)]; [now rewrite <- in_rev | lia]. }
  induction fuel as [|f IH]; intros c count acc c' out i Hi Hc E.
  - cbn [scan_loop] in E. eapply Base; eauto.
  - destruct count as [|n].
    + cbn [scan_loop] in E. eapply Base; eauto.
    + rewrite scan_loop_step in E. cbv zeta in E. fold k in E.
      rewrite (loop_index c k i Hk Hi Hc) in E.
      destruct (visit_spec d keep i (S n) acc) as [Vin Vcnt].
      set (acc1 := fst (visit d keep i (S n) acc)) in *.
      set (cnt1 := snd (visit d keep i (S n) acc)) in *.
      cbn [Nat.pred] in Vcnt.
      destruct (next_occupied_spec d (N.to_nat (pow2 k)) (i + 1)) as (N1 & N2 & N3).
      { fold k. lia. } { fold k. rewrite N2Nat.id. lia. }
      fold k in N1, N2, N3.
      set (nxt := next_occupied (N.to_nat (pow2 k)) d (i + 1)) in *.
      destruct (N.eq_dec nxt (pow2 k)) as [Efin|Hnf].
      * (* finished *)
        rewrite Efin in E. unfold S_ in HKS. rewrite HKS in E.
        rewrite N.mod_same in E by discriminate. rewrite rev32_0 in E. cbn [N.eqb] in E.
        inversion E; subst c' out. exists (pow2 k).
        split_all; try (intros; lia). split.
        -- intro H. rewrite <- in_rev in H. apply Vin in H. destruct H as [H|[H1 H2]]; [now left|].
           right. exists i. repeat split; try lia; assumption.
        -- intros [H|(m & Hm & Hs & Hkp)].
           ++ rewrite <- in_rev. apply Vin. now left.
           ++ rewrite <- in_rev. apply Vin. right.
              destruct (N.eq_dec m i) as [->|Hne]; [split; assumption|].
              rewrite N2 in Hs by lia. discriminate.
      * assert (Hlt : nxt < pow2 k) by lia.
        assert (Hsm : nxt * pow2 (32 - k) < 4294967296).
        { fold (S_ k). rewrite <- HKS. apply N.mul_lt_mono_pos_r; assumption. }
        rewrite N.mod_small in E by assumption. fold (S_ k) in E, Hsm.
        set (c1 := rev32 (nxt * S_ k)) in *.
        assert (Hc1 : rev32 c1 = nxt * S_ k) by (apply rev32_invol; assumption).
        assert (Hnz : c1 <> 0).
        { intro Z. rewrite Z, rev32_0 in Hc1. nia. }
        apply N.eqb_neq in Hnz. rewrite Hnz in E.
        destruct (IH c1 cnt1 acc1 c' out nxt Hlt Hc1 E) as (j & J1 & J2 & J3 & J4 & J5 & J6 & J7).
        exists j. split_all; try (intros; lia); try assumption.
        2: split.
        -- intros [_ Hj]. destruct (N.eq_dec j nxt) as [->|Hne]; [now apply N3|]. apply J4. lia.
        -- intro H. apply J7 in H. destruct H as [H|(m & Hm & Hs & Hkp)].
           ++ apply Vin in H. destruct H as [H|[H1 H2]]; [now left|].
              right. exists i. repeat split; try lia; assumption.
           ++ right. exists m. repeat split; try lia; assumption.
        -- intros [H|(m & Hm & Hs & Hkp)].
           ++ apply J7. left. apply Vin. now left.
           ++ apply J7. destruct (N.eq_dec m i) as [->|Hne].
              ** left. apply Vin. right. split; assumption.
              ** destruct (N.lt_ge_cases m nxt) as [L|G].
                 --- rewrite N2 in Hs by lia. discriminate.
                 --- right. exists m. repeat split; try lia; assumption.
Qed.

(* One call, in slot space.  [i0] is the slot containing the position of the incoming cursor;
   the call visits exactly the slots [i0, j) and returns the cursor of position j * S
   (cursor 0 when j = 2^k). *)
Lemma scan_call_spec {V} (d : dict V) keep c count c' out :
  (d_log d <= 32)%nat -> (1 <= count)%nat ->
  scan_call d keep c count = (c', out) ->
  exists j, rev32 c / S_ (d_log d) < j <= pow2 (d_log d) /\
    cur_pos c' = j * S_ (d_log d) /\
    (j = pow2 (d_log d) <-> c' = 0) /\
    (j < pow2 (d_log d) -> slot d j <> None) /\
    (pow2 (d_log d) - rev32 c / S_ (d_log d) <= N.of_nat count -> j = pow2 (d_log d)) /\
    (forall it, In it out <->
       exists m, rev32 c / S_ (d_log d) <= m < j /\ slot d m = Some it /\ keep it = true).
Proof.
  intros Hk Hc E. unfold scan_call in E.
  set (k := d_log d) in *. set (i0 := rev32 c / S_ k).
  assert (HS : 0 < S_ k) by apply S_pos.
  assert (HKS : pow2 k * S_ k = 4294967296) by (apply pow2_S_; assumption).
  assert (Hi0 : i0 < pow2 k) by (apply slot_of_pos_lt; [assumption | apply rev32_lt]).
  assert (Hc0 : rev32 (c mod pow2 k) = i0 * S_ k) by (apply rev32_mod_pow2; assumption).
  destruct (scan_loop_spec d keep Hk _ _ _ _ _ _ i0 Hi0 Hc0 E) as (j & J1 & J2 & J3 & J4 & J5 & J6 & J7).
  fold k in J1, J2, J3, J4, J5, J6, J7.
  assert (Hj : i0 < j) by (apply J5; lia).
  exists j. split; [lia|].
  assert (Hcz : j < pow2 k -> c' <> 0).
  { intros L Z. apply J3 in L. rewrite Z, rev32_0 in L. nia. }
  split_all.
  - unfold cur_pos. destruct (N.eq_dec j (pow2 k)) as [Ej|Nj].
    + rewrite (J2 Ej). cbn [N.eqb]. subst j. lia.
    + assert (L : j < pow2 k) by lia. specialize (Hcz L). apply N.eqb_neq in Hcz. rewrite Hcz. now apply J3.
  - split; [assumption|]. intro Z. destruct (N.eq_dec j (pow2 k)) as [Ej|Nj]; [assumption|].
    exfalso. apply Hcz; [lia | assumption].
  - intro L. apply J4. lia.
  - intro H. apply J6; [|assumption]. rewrite Nat2N.inj_succ, N2Nat.id. lia.
  - intro it. rewrite J7. cbn [In]. split; [intros [[]|H]; assumption | intro H; now right].
Qed.

(* rounding a position down to the start of its slot *)
Lemma slot_start_le p k : p / S_ k * S_ k <= p.
Proof. pose proof (div_range_inv p (S_ k) (S_pos _)). lia. Qed.

Section Call.
  Context {V : Type}.
  Variables (d : dict V) (keep : item V -> bool) (c : N) (count : nat) (c' : N) (out : list (item V)).
  Hypothesis Hwf : wf_dict d.
  Hypothesis Hcount : (1 <= count)%nat.
  Hypothesis Hcall : scan_call d keep c count = (c', out).

  Let S := S_ (d_log d).

  (* the walk resumes at the start of the slot containing the cursor position, [rev32 c / S * S <= rev32 c],
     and ends strictly further: every call makes progress *)
  Lemma scan_call_progress : rev32 c / S * S < cur_pos c' <= 4294967296.
  Proof.
    destruct Hwf as (_ & Hk & _).
    destruct (scan_call_spec d keep c count c' out ltac:(lia) Hcount Hcall) as (j & J1 & J2 & _).
    fold S in J1, J2. rewrite J2. rewrite <- (pow2_S_ (d_log d)) by lia. fold S.
    pose proof (S_pos (d_log d)) as HS. fold S in HS. nia.
  Qed.


  (* every stored item of the visited range that passes the filter is emitted *)
  Lemma scan_call_covers : forall i it,
    slot d i = Some it -> keep it = true ->
    rev32 c / S * S <= pos (it_hash it) < cur_pos c' ->
    In it out.
  Proof.
    intros i it Hs Hkp Hr. destruct Hwf as (_ & Hk & Hidx).
    destruct (scan_call_spec d keep c count c' out ltac:(lia) Hcount Hcall) as (j & J1 & J2 & _ & _ & _ & J6).
    fold S in J1, J2, J6. apply J6. exists i. split; [|split; assumption].
    rewrite <- (Hidx i it Hs). rewrite hash_to_index_pos by lia. fold S.
    apply div_range; [apply S_pos|]. rewrite <- J2. assumption.
  Qed.

  (* nothing is invented: every emitted item is stored in the table, passes the filter,
     and lies in the visited range *)
  Lemma scan_call_sound : forall it, In it out ->
    keep it = true /\
    slot d (hash_to_index (it_hash it) (d_log d)) = Some it /\
    get d (it_key it) (it_hash it) = Some (it_val it) /\
    rev32 c / S * S <= pos (it_hash it) < cur_pos c'.
  Proof.
    intros it Hin. destruct Hwf as (_ & Hk & Hidx).
    destruct (scan_call_spec d keep c count c' out ltac:(lia) Hcount Hcall) as (j & J1 & J2 & _ & _ & _ & J6).
    fold S in J1, J2, J6. apply J6 in Hin. destruct Hin as (m & Hm & Hs & Hkp).
    pose proof (Hidx m it Hs) as Em.
    split_all.
    - assumption.
    - now rewrite Em.
    - unfold get. rewrite Em, Hs. now rewrite bytes_eqb_refl.
    - rewrite hash_to_index_pos in Em by lia. fold S in Em.
      pose proof (div_range_inv (pos (it_hash it)) S (S_pos _)). rewrite Em in H. nia.
    - rewrite hash_to_index_pos in Em by lia. fold S in Em.
      pose proof (div_range_inv (pos (it_hash it)) S (S_pos _)). rewrite Em in H. rewrite J2. nia.
  Qed.
End Call.

(* ================================================================== *)
(** * 4. Full iterations over a changing table                          *)
(* ================================================================== *)

Section Iteration.
  Context {V : Type}.

  (* one SCAN call of the iteration: the table as it is at that moment, the MATCH/TYPE filter, COUNT *)
  Definition call := (dict V * (item V -> bool) * nat)%type.

  (* feed each returned cursor into the next call; collect the replies *)
  Fixpoint run (calls : list call) (c : N) : N * list (list (item V)) :=
    match calls with
    | [] => (c, [])
    | (d, keep, n) :: r =>
        let (c1, out) := scan_call d keep c n in
        let (c2, outs) := run r c1 in (c2, out :: outs)
    end.

  Definition call_ok (cl : call) : Prop :=
    let '(d, _, n) := cl in wf_dict d /\ (1 <= n)%nat.

  (* (key, h) is stored in the table of this call and passes its filter *)
  Definition present (key : bytes) (h : N) (cl : call) : Prop :=
    let '(d, keep, _) := cl in
    exists v, slot d (hash_to_index h (d_log d)) = Some (mkItem h key v) /\ keep (mkItem h key v) = true.

  Lemma run_complete_from : forall calls c outs,
    calls <> [] -> Forall call_ok calls -> run calls c = (0, outs) ->
    forall key h, Forall (present key h) calls -> rev32 c <= pos h ->
    exists out v, In out outs /\ In (mkItem h key v) out.
  Proof.
    induction calls as [|[[d keep] n] r IH]; intros c outs Hne Hok Hrun key h Hpres Hpos; [congruence|].
    cbn [run] in Hrun.
    destruct (scan_call d keep c n) as [c1 out] eqn:Ec.
    destruct (run r c1) as [c2 outs'] eqn:Er.
    inversion Hrun; subst c2 outs; clear Hrun.
    inversion Hok as [|? ? Ho Hok']; subst.
    unfold call_ok in Ho; cbv beta iota in Ho. destruct Ho as [Hwf Hn].
    inversion Hpres as [|? ? Hp Hpres']; subst.
    unfold present in Hp; cbv beta iota in Hp. destruct Hp as (v & Hs & Hkp).
    pose proof (slot_start_le (rev32 c) (d_log d)) as Hle.
    destruct (N.lt_ge_cases (pos h) (cur_pos c1)) as [L|G].
    - exists out, v. split; [now left|].
      eapply (scan_call_covers d keep c n c1 out Hwf Hn Ec); [exact Hs | exact Hkp |].
      cbn [it_hash]. cbv zeta. lia.
    - assert (Hc1 : c1 <> 0).
      { intro Z. rewrite Z in G. unfold cur_pos in G. cbn [N.eqb] in G. pose proof (pos_lt h). lia. }
      assert (Hr : r <> []).
      { intro Z. subst r. cbn [run] in Er. congruence. }
      unfold cur_pos in G. apply N.eqb_neq in Hc1. rewrite Hc1 in G.
      destruct (IH c1 outs' Hr Hok' Er key h Hpres' G) as (o & v' & Ho & Hv).
      exists o, v'. split; [now right | assumption].
  Qed.

  (** Main theorem 1.  The tables of the successive calls are arbitrary and unrelated (any history of
      insertions, deletions, doublings and halvings between calls); the iteration starts with cursor 0
      and ends when cursor 0 comes back.  Every key that is stored (with the same hash) in the table of
      every call, and matches every filter, is reported by at least one call. *)
  Theorem C17_complete : forall (calls : list call) outs,
    calls <> [] -> Forall call_ok calls -> run calls 0 = (0, outs) ->
    forall key h, Forall (present key h) calls ->
    exists out v, In out outs /\ In (mkItem h key v) out.
  Proof.
    intros calls outs Hne Hok Hrun key h Hpres.
    eapply run_complete_from; eauto. rewrite rev32_0. lia.
  Qed.

  (** Main theorem 2.  Whatever the start cursor: every reported item is stored in the table of the
      call that reports it and passes that call's filter. *)
  Theorem C17_sound : forall (calls : list call) c c' outs,
    Forall call_ok calls -> run calls c = (c', outs) ->
    Forall2 (fun (cl : call) out => let '(d, keep, _) := cl in
               forall it, In it out ->
                 keep it = true /\
                 slot d (hash_to_index (it_hash it) (d_log d)) = Some it /\
                 get d (it_key it) (it_hash it) = Some (it_val it)) calls outs.
  Proof.
    induction calls as [|[[d keep] n] r IH]; intros c c' outs Hok Hrun.
    - cbn [run] in Hrun. inversion Hrun. constructor.
    - cbn [run] in Hrun.
      destruct (scan_call d keep c n) as [c1 out] eqn:Ec.
      destruct (run r c1) as [c2 outs'] eqn:Er.
      inversion Hrun; subst c2 outs; clear Hrun.
      inversion Hok as [|? ? Ho Hok']; subst.
      unfold call_ok in Ho; cbv beta iota in Ho. destruct Ho as [Hwf Hn].
      constructor; [|eapply IH; eauto].
      intros it Hin.
      destruct (scan_call_sound d keep c n c1 out Hwf Hn Ec it Hin) as (A & B & C & _).
      repeat split; assumption.
  Qed.

  (* a key that is absent from every table (whatever hash is used to look it up) is never reported *)
  Corollary C17_never_absent : forall (calls : list call) c c' outs key,
    Forall call_ok calls -> run calls c = (c', outs) ->
    Forall (fun cl : call => forall h, get (fst (fst cl)) key h = None) calls ->
    forall out it, In out outs -> In it out -> it_key it <> key.
  Proof.
    intros calls c c' outs key Hok Hrun Habs.
    pose proof (C17_sound calls c c' outs Hok Hrun) as HS.
    clear Hok Hrun. induction HS as [|[[d keep] n] out0 calls' outs' H0 HS IH]; intros out it Ho Hi.
    - destruct Ho.
    - inversion Habs as [|? ? Ha Habs']; subst. destruct Ho as [<-|Ho].
      + destruct (H0 it Hi) as (_ & _ & G). intro E. subst key. cbn [fst] in Ha. rewrite Ha in G. discriminate.
      + eapply IH; eauto.
  Qed.
End Iteration.

Print Assumptions C17_complete.
Print Assumptions C17_sound.
Print Assumptions C17_never_absent.

(* ================================================================== *)
(** * 5. Termination on a table that no longer changes                  *)
(* ================================================================== *)

Definition is_some {A} (o : option A) : bool := match o with Some _ => true | None => false end.
Definition occ_list {A} (l : list (option A)) : nat := length (filter is_some l).

Lemma occ_skipn_le {A} (l : list (option A)) : forall a b, (a <= b)%nat ->
  (occ_list (skipn b l) <= occ_list (skipn a l))%nat.
Proof.
  induction l as [|x l IH]; intros a b Hab.
  - now rewrite !skipn_nil.
  - destruct a as [|a], b as [|b]; cbn [skipn]; try lia.
    + specialize (IH O b ltac:(lia)). cbn [skipn] in IH.
      unfold occ_list in *. cbn [filter]. destruct (is_some x); cbn [length]; lia.
    + apply IH. lia.
Qed.

Lemma occ_skipn_occupied {A} (l : list (option A)) : forall n, nth n l None <> None ->
  occ_list (skipn n l) = S (occ_list (skipn (S n) l)).
Proof.
  induction l as [|x l IH]; intros n Hn.
  - destruct n; cbn [nth] in Hn; congruence.
  - destruct n as [|n].
    + cbn [nth] in Hn. cbn [skipn]. unfold occ_list. cbn [filter].
      destruct x; [reflexivity | congruence].
    + cbn [nth] in Hn. change (skipn (S n) (x :: l)) with (skipn n l).
      change (skipn (S (S n)) (x :: l)) with (skipn (S n) l). now apply IH.
Qed.

Lemma firstn_repeat {A} (x : A) : forall n m, (m <= n)%nat -> firstn m (repeat x n) = repeat x m.
Proof.
  induction n as [|n IH]; intros m Hm.
  - assert (m = O) by lia. subst. reflexivity.
  - destruct m as [|m]; [reflexivity|]. cbn [repeat firstn]. f_equal. apply IH. lia.
Qed.

Section Fixed.
  Context {V : Type}.
  Variable d : dict V.

  (* the slot in which the walk resumes for wire cursor c *)
  Definition slot_of (c : N) : N := rev32 c / S_ (d_log d).

  (* number of occupied slots at index >= j, and in the whole table *)
  Definition occ_from (j : N) : nat := occ_list (skipn (N.to_nat j) (d_slots d)).
  Definition occupied : nat := occ_list (d_slots d).

  (* successive calls on the same table, with possibly different filters and counts *)
  Fixpoint iter_d (ps : list ((item V -> bool) * nat)) (c : N) : N :=
    match ps with
    | [] => c
    | (keep, n) :: r => iter_d r (fst (scan_call d keep c n))
    end.

  (* n calls with the same filter and count *)
  Fixpoint iterate (keep : item V -> bool) (count : nat) (n : nat) (c : N) : N :=
    match n with
    | O => c
    | S n' => iterate keep count n' (fst (scan_call d keep c count))
    end.

  Lemma iterate_iter_d keep count : forall n c, iterate keep count n c = iter_d (repeat (keep, count) n) c.
  Proof. induction n as [|n IH]; intro c; [reflexivity|]. cbn [iterate repeat iter_d]. apply IH. Qed.

  Hypothesis Hk : (d_log d <= 32)%nat.

  Lemma slot_of_lt c : slot_of c < pow2 (d_log d).
  Proof. apply slot_of_pos_lt; [assumption | apply rev32_lt]. Qed.

  (* a call that does not finish hands back a cursor that sits exactly on an occupied slot further on *)
  Lemma scan_call_next keep c cnt : (1 <= cnt)%nat ->
    fst (scan_call d keep c cnt) <> 0 ->
    slot_of c < slot_of (fst (scan_call d keep c cnt)) /\
    slot d (slot_of (fst (scan_call d keep c cnt))) <> None.
  Proof.
    intros Hc Hnz. destruct (scan_call d keep c cnt) as [c' out] eqn:E. cbn [fst] in *.
    destruct (scan_call_spec d keep c cnt c' out Hk Hc E) as (j & J1 & J2 & J3 & J4 & _).
    assert (Hj : j < pow2 (d_log d)).
    { destruct (N.eq_dec j (pow2 (d_log d))) as [Ej|Nj]; [|lia]. apply J3 in Ej. contradiction. }
    unfold cur_pos in J2. apply N.eqb_neq in Hnz. rewrite Hnz in J2.
    assert (Es : slot_of c' = j).
    { unfold slot_of. rewrite J2. apply N.div_mul. pose proof (S_pos (d_log d)). lia. }
    rewrite Es. split; [apply J1 | now apply J4].
  Qed.

  Lemma iter_measure (mu : N -> nat) (Good : N -> Prop) :
    (forall c, Good c -> (1 <= mu c)%nat) ->
    (forall c keep cnt, Good c -> (1 <= cnt)%nat -> fst (scan_call d keep c cnt) <> 0 ->
        Good (fst (scan_call d keep c cnt)) /\ (mu (fst (scan_call d keep c cnt)) < mu c)%nat) ->
    forall ps c, Good c -> Forall (fun p => (1 <= snd p)%nat) ps -> (mu c <= length ps)%nat ->
    exists n, (1 <= n <= mu c)%nat /\ iter_d (firstn n ps) c = 0 /\
              forall m, (1 <= m < n)%nat -> iter_d (firstn m ps) c <> 0.
  Proof.
    intros Hpos Hstep. induction ps as [|[keep cnt] r IH]; intros c Hg Hcnt Hlen.
    - specialize (Hpos c Hg). cbn [length] in Hlen. lia.
    - inversion Hcnt as [|? ? Hc1 Hcnt']; subst. cbn [snd] in Hc1.
      destruct (N.eq_dec (fst (scan_call d keep c cnt)) 0) as [Z|NZ].
      + exists 1%nat. specialize (Hpos c Hg). split; [lia|]. split.
        * cbn [firstn iter_d]. assumption.
        * intros m Hm. lia.
      + destruct (Hstep c keep cnt Hg Hc1 NZ) as [Hg' Hlt].
        cbn [length] in Hlen.
        destruct (IH _ Hg' Hcnt' ltac:(lia)) as (n & Hn & Hz & Hmin).
        exists (S n). split; [lia|]. split.
        * cbn [firstn iter_d]. assumption.
        * intros m Hm. destruct m as [|m]; [lia|]. cbn [firstn iter_d].
          destruct m as [|m]; [cbn [firstn iter_d]; assumption|]. apply Hmin. lia.
  Qed.

  (** From ANY cursor (e.g. the one handed out before the table stopped changing), with any filters
      and any counts >= 1, the cursor 0 comes back after at most [2^k - slot] calls. *)
  Theorem C17_terminates_gen : forall ps c,
    Forall (fun p => (1 <= snd p)%nat) ps ->
    (N.to_nat (pow2 (d_log d) - slot_of c) <= length ps)%nat ->
    exists n, (1 <= n <= N.to_nat (pow2 (d_log d) - slot_of c))%nat /\
              iter_d (firstn n ps) c = 0 /\
              forall m, (1 <= m < n)%nat -> iter_d (firstn m ps) c <> 0.
  Proof.
    intros ps c Hcnt Hlen.
    apply (iter_measure (fun c => N.to_nat (pow2 (d_log d) - slot_of c)) (fun _ => True)); auto.
    - intros c0 _. pose proof (slot_of_lt c0). lia.
    - intros c0 keep cnt _ Hc NZ. split; [exact I|].
      destruct (scan_call_next keep c0 cnt Hc NZ) as [A _].
      pose proof (slot_of_lt (fst (scan_call d keep c0 cnt))). lia.
  Qed.

  (** Sharper: at most (number of occupied slots + 1) calls. *)
  Theorem C17_terminates_sharp : forall ps c,
    Forall (fun p => (1 <= snd p)%nat) ps ->
    (occupied + 1 <= length ps)%nat ->
    exists n, (1 <= n <= occupied + 1)%nat /\
              iter_d (firstn n ps) c = 0 /\
              forall m, (1 <= m < n)%nat -> iter_d (firstn m ps) c <> 0.
  Proof.
    intros ps c Hcnt Hlen.
    assert (Hmono : forall j, (occ_from j <= occupied)%nat).
    { intro j. unfold occ_from, occupied. apply (occ_skipn_le (d_slots d) O). lia. }
    assert (Hstep : forall c keep cnt, slot d (slot_of c) <> None -> (1 <= cnt)%nat ->
              fst (scan_call d keep c cnt) <> 0 ->
              slot d (slot_of (fst (scan_call d keep c cnt))) <> None /\
              (occ_from (slot_of (fst (scan_call d keep c cnt))) < occ_from (slot_of c))%nat).
    { intros c0 keep cnt Hocc Hc NZ. destruct (scan_call_next keep c0 cnt Hc NZ) as [A B].
      split; [assumption|]. unfold occ_from.
      rewrite (occ_skipn_occupied (d_slots d) (N.to_nat (slot_of c0)) Hocc).
      apply Nat.lt_succ_r. apply occ_skipn_le. lia. }
    destruct ps as [|[keep cnt] r]; [cbn [length] in Hlen; lia|].
    inversion Hcnt as [|? ? Hc1 Hcnt']; subst. cbn [snd] in Hc1. cbn [length] in Hlen.
    destruct (N.eq_dec (fst (scan_call d keep c cnt)) 0) as [Z|NZ].
    - exists 1%nat. split; [lia|]. split; [cbn [firstn iter_d]; assumption | intros m Hm; lia].
    - destruct (scan_call_next keep c cnt Hc1 NZ) as [_ B].
      set (c1 := fst (scan_call d keep c cnt)) in *.
      destruct (iter_measure (fun c => occ_from (slot_of c)) (fun c => slot d (slot_of c) <> None)) with (ps := r) (c := c1)
        as (n & Hn & Hz & Hmin); auto.
      + intros c0 Hocc. unfold occ_from.
        rewrite (occ_skipn_occupied (d_slots d) (N.to_nat (slot_of c0)) Hocc). lia.
      + specialize (Hmono (slot_of c1)). lia.
      + exists (S n). specialize (Hmono (slot_of c1)). split; [lia|]. split.
        * cbn [firstn iter_d]. assumption.
        * intros m Hm. destruct m as [|m]; [lia|]. cbn [firstn iter_d]. fold c1.
          destruct m as [|m]; [cbn [firstn iter_d]; assumption|]. apply Hmin. lia.
  Qed.

  (** Main theorem 3.  Same filter and count in every call, iteration started with cursor 0:
      the first return to cursor 0 happens after n calls, n <= 2^k and n <= occupied slots + 1. *)
  Theorem C17_terminates : forall keep count, (1 <= count)%nat ->
    exists n, (1 <= n)%nat /\ (n <= N.to_nat (pow2 (d_log d)))%nat /\ (n <= occupied + 1)%nat /\
              iterate keep count n 0 = 0 /\
              forall m, (1 <= m < n)%nat -> iterate keep count m 0 <> 0.
  Proof.
    intros keep count Hc.
    set (K := N.to_nat (pow2 (d_log d))).
    assert (H0 : slot_of 0 = 0) by (unfold slot_of; rewrite rev32_0; apply N.div_0_l; pose proof (S_pos (d_log d)); lia).
    destruct (C17_terminates_gen (repeat (keep, count) K) 0) as (n1 & A1 & B1 & C1).
    { apply Forall_forall. intros p Hp. apply repeat_spec in Hp. subst p. exact Hc. }
    { rewrite repeat_length, H0, N.sub_0_r. fold K. lia. }
    rewrite H0, N.sub_0_r in A1. fold K in A1.
    destruct (C17_terminates_sharp (repeat (keep, count) (occupied + 1)) 0) as (n2 & A2 & B2 & C2).
    { apply Forall_forall. intros p Hp. apply repeat_spec in Hp. subst p. exact Hc. }
    { rewrite repeat_length. lia. }
    rewrite firstn_repeat in B1 by lia. rewrite firstn_repeat in B2 by lia.
    rewrite <- iterate_iter_d in B1, B2.
    assert (C1' : forall m, (1 <= m < n1)%nat -> iterate keep count m 0 <> 0).
    { intros m Hm. rewrite iterate_iter_d. rewrite <- (firstn_repeat (keep, count) K m) by lia. now apply C1. }
    assert (C2' : forall m, (1 <= m < n2)%nat -> iterate keep count m 0 <> 0).
    { intros m Hm. rewrite iterate_iter_d. rewrite <- (firstn_repeat (keep, count) (occupied + 1) m) by lia. now apply C2. }
    assert (n1 = n2).
    { destruct (Nat.lt_trichotomy n1 n2) as [L|[E|G]]; [|assumption|].
      - exfalso. apply (C2' n1); [lia | assumption].
      - exfalso. apply (C1' n2); [lia | assumption]. }
    subst n2. exists n1. repeat split; try lia; assumption.
  Qed.
End Fixed.

Print Assumptions C17_terminates_gen.
Print Assumptions C17_terminates_sharp.
Print Assumptions C17_terminates.

(* ================================================================== *)
(** * 6. MATCH / TYPE / COUNT only filter or batch                      *)
(* ================================================================== *)

Lemma cur_pos_ge_of_spec c' j k :
  j <= pow2 k -> (k <= 32)%nat -> (j = pow2 k -> c' = 0) -> (j < pow2 k -> rev32 c' = j * S_ k) ->
  j * S_ k <= cur_pos c'.
Proof.
  intros Hj Hk H1 H2. unfold cur_pos. pose proof (pow2_S_ k Hk) as HKS. pose proof (S_pos k) as HS.
  destruct (c' =? 0) eqn:E.
  - rewrite <- HKS. apply N.mul_le_mono_r. assumption.
  - apply N.eqb_neq in E. destruct (N.eq_dec j (pow2 k)) as [Ej|Nj]; [now apply H1 in Ej|].
    rewrite H2 by lia. lia.
Qed.

(* Two walks from the same place in the same table: walk B has the stricter filter and at least
   as much COUNT left.  Then B gets at least as far as A. *)
Lemma scan_loop_mono {V} (d : dict V) keepA keepB : (d_log d <= 32)%nat ->
  (forall it, keepB it = true -> keepA it = true) ->
  forall fuel c cntA cntB accA accB cA outA cB outB i,
  i < pow2 (d_log d) -> rev32 c = i * S_ (d_log d) ->
  (cntA <= cntB)%nat -> (c <> 0 \/ (1 <= cntA)%nat) ->
  scan_loop fuel d keepA c cntA accA = (cA, outA) ->
  scan_loop fuel d keepB c cntB accB = (cB, outB) ->
  cur_pos cA <= cur_pos cB.
Proof.
  intros Hk Hsub. set (k := d_log d) in *.
  assert (HS : 0 < S_ k) by apply S_pos.
  assert (HKS : pow2 k * S_ k = 4294967296) by (apply pow2_S_; assumption).
  induction fuel as [|f IH]; intros c cntA cntB accA accB cA outA cB outB i Hi Hc Hle Hnz EA EB.
  - cbn [scan_loop] in EA, EB. inversion EA; inversion EB; subst. lia.
  - destruct cntA as [|a].
    + destruct Hnz as [Hnz|Hnz]; [|lia].
      cbn [scan_loop] in EA. inversion EA; subst cA outA.
      destruct (scan_loop_spec d keepB Hk _ _ _ _ _ _ i Hi Hc EB) as (j & J1 & J2 & J3 & _).
      fold k in J1, J2, J3.
      pose proof (cur_pos_ge_of_spec cB j k ltac:(lia) Hk J2 J3) as G.
      unfold cur_pos at 1. apply N.eqb_neq in Hnz. rewrite Hnz. rewrite Hc. nia.
    + destruct cntB as [|b]; [lia|].
      rewrite scan_loop_step in EA, EB. cbv zeta in EA, EB. fold k in EA, EB.
      rewrite (loop_index c k i Hk Hi Hc) in EA, EB.
      destruct (next_occupied_spec d (N.to_nat (pow2 k)) (i + 1)) as (N1 & N2 & N3).
      { fold k. lia. } { fold k. rewrite N2Nat.id. lia. }
      fold k in N1, N2, N3.
      set (nxt := next_occupied (N.to_nat (pow2 k)) d (i + 1)) in *.
      destruct (N.eq_dec nxt (pow2 k)) as [Efin|Hnf].
      * rewrite Efin in EA, EB. unfold S_ in HKS. rewrite HKS in EA, EB.
        rewrite N.mod_same in EA, EB by discriminate. rewrite rev32_0 in EA, EB. cbn [N.eqb] in EA, EB.
        inversion EA; inversion EB; subst. lia.
      * assert (Hlt : nxt < pow2 k) by lia.
        assert (Hsm : nxt * pow2 (32 - k) < 4294967296).
        { fold (S_ k). rewrite <- HKS. apply N.mul_lt_mono_pos_r; assumption. }
        rewrite N.mod_small in EA, EB by assumption. fold (S_ k) in EA, EB, Hsm.
        set (c1 := rev32 (nxt * S_ k)) in *.
        assert (Hc1 : rev32 c1 = nxt * S_ k) by (apply rev32_invol; assumption).
        assert (Hnz1 : c1 <> 0).
        { intro Z. rewrite Z, rev32_0 in Hc1. nia. }
        pose proof Hnz1 as Hnz1'. apply N.eqb_neq in Hnz1'. rewrite Hnz1' in EA, EB.
        eapply (IH c1 _ _ _ _ cA outA cB outB nxt Hlt Hc1); [| left; assumption | exact EA | exact EB].
        unfold visit. destruct (slot d i) as [it|]; cbn [snd]; [|lia].
        destruct (keepA it) eqn:KA, (keepB it) eqn:KB; cbn [snd Nat.pred]; try lia.
        apply Hsub in KB. congruence.
Qed.

Section Filters.
  Context {V : Type}.
  Variable d : dict V.
  Hypothesis Hwf : wf_dict d.

  (** A stricter filter (more MATCH/TYPE conditions) and/or a larger COUNT never makes the walk fall
      short: from the same cursor, call B ends at least as far as call A, and reports every item
      reported by A that passes B's filter. *)
  Theorem C17_filter_monotone : forall keepA keepB c cntA cntB cA outA cB outB,
    (forall it, keepB it = true -> keepA it = true) ->
    (1 <= cntA <= cntB)%nat ->
    scan_call d keepA c cntA = (cA, outA) ->
    scan_call d keepB c cntB = (cB, outB) ->
    cur_pos cA <= cur_pos cB /\
    forall it, In it outA -> keepB it = true -> In it outB.
  Proof.
    intros keepA keepB c cntA cntB cA outA cB outB Hsub Hcnt EA EB.
    destruct Hwf as (Hlen & Hk & Hidx).
    assert (Hmono : cur_pos cA <= cur_pos cB).
    { unfold scan_call in EA, EB.
      eapply (scan_loop_mono d keepA keepB ltac:(lia) Hsub _ _ cntA cntB _ _ cA outA cB outB
                (rev32 c / S_ (d_log d))); [| | lia | right; lia | exact EA | exact EB].
      - apply slot_of_pos_lt; [lia | apply rev32_lt].
      - apply rev32_mod_pow2. lia. }
    split; [assumption|]. intros it Hin HkB.
    destruct (scan_call_sound d keepA c cntA cA outA Hwf ltac:(lia) EA it Hin) as (_ & Hs & _ & Hr).
    eapply (scan_call_covers d keepB c cntB cB outB Hwf ltac:(lia) EB); [exact Hs | exact HkB | lia].
  Qed.

  (* conjunction of two filters, as MATCH pattern + TYPE: instance of the above *)
  Corollary C17_filter_conj : forall keep1 keep2 c count c1 out1 c12 out12,
    (1 <= count)%nat ->
    scan_call d keep1 c count = (c1, out1) ->
    scan_call d (fun it => keep1 it && keep2 it) c count = (c12, out12) ->
    cur_pos c1 <= cur_pos c12 /\
    (forall it, In it out1 -> keep2 it = true -> In it out12) /\
    (forall it, In it out12 -> keep1 it = true /\ keep2 it = true /\
                               get d (it_key it) (it_hash it) = Some (it_val it)).
  Proof.
    intros keep1 keep2 c count c1 out1 c12 out12 Hc E1 E12.
    destruct (C17_filter_monotone keep1 (fun it => keep1 it && keep2 it) c count count c1 out1 c12 out12)
      as [A B]; try assumption; try lia.
    { intros it H. apply andb_true_iff in H. tauto. }
    split; [assumption|]. split.
    - intros it Hin H2. apply B; [assumption|].
      destruct (scan_call_sound d keep1 c count c1 out1 Hwf Hc E1 it Hin) as (H1 & _). now rewrite H1, H2.
    - intros it Hin.
      destruct (scan_call_sound d _ c count c12 out12 Hwf Hc E12 it Hin) as (H1 & _ & G & _).
      apply andb_true_iff in H1. tauto.
  Qed.

  (** With COUNT at least the number of slots, one call from cursor 0 returns cursor 0 and exactly
      the stored items that pass the filter. *)
  Theorem C17_single_call : forall keep count c' out,
    pow2 (d_log d) <= N.of_nat count ->
    scan_call d keep 0 count = (c', out) ->
    c' = 0 /\
    forall it, In it out <->
      slot d (hash_to_index (it_hash it) (d_log d)) = Some it /\ keep it = true.
  Proof.
    intros keep count c' out Hcnt E. destruct Hwf as (Hlen & Hk & Hidx).
    pose proof (pow2_pos (d_log d)) as Hp.
    destruct (scan_call_spec d keep 0 count c' out ltac:(lia) ltac:(lia) E) as (j & J1 & J2 & J3 & J4 & J5 & J6).
    assert (H0 : rev32 0 / S_ (d_log d) = 0).
    { rewrite rev32_0. apply N.div_0_l. pose proof (S_pos (d_log d)). lia. }
    rewrite H0 in *. assert (Ej : j = pow2 (d_log d)) by (apply J5; lia).
    split; [now apply J3|]. intro it. rewrite J6. split.
    - intros (m & Hm & Hs & Hkp). split; [|assumption]. now rewrite (Hidx m it Hs).
    - intros [Hs Hkp]. exists (hash_to_index (it_hash it) (d_log d)). split; [|split; assumption].
      split; [lia|]. rewrite Ej. apply hash_to_index_lt. lia.
  Qed.

  (* the two-filter form of the single-call statement *)
  Corollary C17_single_call_conj : forall keep1 keep2 count c1 out1 c12 out12,
    pow2 (d_log d) <= N.of_nat count ->
    scan_call d keep1 0 count = (c1, out1) ->
    scan_call d (fun it => keep1 it && keep2 it) 0 count = (c12, out12) ->
    c1 = 0 /\ c12 = 0 /\ forall it, In it out12 <-> In it out1 /\ keep2 it = true.
  Proof.
    intros keep1 keep2 count c1 out1 c12 out12 Hcnt E1 E12.
    destruct (C17_single_call keep1 count c1 out1 Hcnt E1) as [Z1 I1].
    destruct (C17_single_call _ count c12 out12 Hcnt E12) as [Z12 I12].
    split; [assumption|]. split; [assumption|]. intro it. rewrite I12, I1, andb_true_iff. tauto.
  Qed.
End Filters.

Print Assumptions C17_filter_monotone.
Print Assumptions C17_filter_conj.
Print Assumptions C17_single_call.
Print Assumptions C17_single_call_conj.

(* ================================================================== *)
(** * Examples                                                          *)
(* ================================================================== *)
Module Examples.
  Definition okd {V} (o : outcome (dict V)) : dict V := match o with Ok d => d | Diverge => empty_dict end.
  Definition st (d : dict nat) (k : N) (h : N) (v : nat) := okd (store d [k] h v).
  Definition all : item nat -> bool := fun _ => true.
  Definition keys (l : list (item nat)) := map (fun it => it_key it) l.

  (* 16 slots: keys 1,2,3,4 with hashes 1,2,3,12 *)
  Definition dA := st (st (st (st empty_dict 1 1 10) 2 2 20) 3 3 30) 4 12 40.
  (* key 5 with hash 17 collides with key 1 in 16 slots: the table doubles to 32 slots *)
  Definition dB := st dA 5 17 50.

  Example ex_sizes : (d_log dA, d_log dB) = (4%nat, 5%nat).
  Proof. vm_compute. reflexivity. Qed.

  (* single calls *)
  Example ex_call_1 : let (c, out) := scan_call dA all 0 2 in (c, keys out) = (1, [[4]; [2]]).
  Proof. vm_compute. reflexivity. Qed.
  Example ex_call_2 : let (c, out) := scan_call dB all 1 100 in (c, keys out) = (0, [[1]; [5]; [3]]).
  Proof. vm_compute. reflexivity. Qed.

  (* an iteration across a doubling: first call on the 16-slot table, second on the 32-slot table *)
  Example ex_run_grow :
    let (c, outs) := run [(dA, all, 2%nat); (dB, all, 100%nat)] 0 in
    (c, map keys outs) = (0, [[[4]; [2]]; [[1]; [5]; [3]]]).
  Proof. vm_compute. reflexivity. Qed.

  (* an iteration across a halving: the cursor handed out by the 32-slot table (17, an odd slot)
     is rounded down in the 16-slot table: key 1 is reported twice, nothing is skipped *)
  Example ex_run_shrink :
    let (c, outs) := run [(dB, all, 3%nat); (dA, all, 100%nat)] 0 in
    (c, map keys outs) = (0, [[[4]; [2]; [1]]; [[1]; [3]]]).
  Proof. vm_compute. reflexivity. Qed.

  (* COUNT 1 on the fixed 32-slot table with 5 keys: cursors 2, 1, 17, 3, then 0 after 5 <= 5+1 calls *)
  Example ex_iterate : map (fun n => iterate dB all 1 n 0) [1; 2; 3; 4; 5]%nat = [2; 1; 17; 3; 0].
  Proof. vm_compute. reflexivity. Qed.
  Example ex_occupied : occupied dB = 5%nat.
  Proof. vm_compute. reflexivity. Qed.

  (* a filter does not consume COUNT for rejected items: the walk goes on to the first match *)
  Example ex_filter : let (c, out) := scan_call dB (fun it => it_hash it <? 3) 0 1 in (c, keys out) = (1, [[2]]).
  Proof. vm_compute. reflexivity. Qed.
End Examples.
