(* PropC17.v — the SCAN guarantee for the cursor walk [scan_call] of Dict.v
   (dictScanUnlocked of dataStoreCommands.go over the one-item-per-bucket dictionary of redisDict.go).

   Formulation: a 64-bit hash h has the position [pos h = rev32 (h mod 2^32)] in [0, 2^32); a table of
   2^k slots has stride [S_ k = 2^(32-k)] and slot i covers the positions [i*S, (i+1)*S).  A wire cursor c
   stands for the position [rev32 c]; the returned cursor 0 stands for position 2^32 ([cur_pos]).

   Contents
   1. rev32: bit-level characterisation [rev32_testbit], involution [rev32_rev32], [rev32_low_shift]
      (hash_to_index h k = pos h / S_ k), [rev32_mod_pow2] (cursor mod 2^k = rounding the position DOWN).
   2. [wf_dict], [hash_to_index_pos].
   3. one call: [scan_call_spec] (slot space), [scan_call_progress], [scan_call_covers], [scan_call_sound].
   4. iterations over arbitrarily changing tables: [C17_complete], [C17_sound], [C17_never_absent].
   5. termination on a fixed table: [C17_terminates_gen] (<= 2^k - slot calls from any cursor),
      [C17_terminates_sharp] (<= occupied + 1), [C17_terminates].
   6. MATCH/TYPE/COUNT: [C17_filter_monotone], [C17_filter_conj], [C17_single_call],
      [C17_single_call_conj], [C17_filters], [C17_stable_exact].
   7. dictionary layer: [wf_empty_dict], [store_elements], [store_ok], [store_diverge_iff],
      [remove_elements], [remove_ok] (incl. the halving: [shrink_no_collide]; the doubling:
      [grow_no_collide]; [rehash_elements]), [reachable_wf], [C17_complete_reachable].
   Examples at the end (module Examples). *)
From RE Require Import Base Dict.
From Coq Require Import Lia.
Open Scope N_scope.

(* ================================================================== *)
(** * 1. Bit reversal                                                   *)
(* ================================================================== *)

Lemma rev_bits_testbit : forall n x acc i,
  N.testbit (rev_bits n x acc) i =
  if i <? N.of_nat n then N.testbit x (N.of_nat n - 1 - i) else N.testbit acc (i - N.of_nat n).
Proof.
  induction n as [|n IH]; intros x acc i.
  - cbn [rev_bits]. change (N.of_nat 0) with 0.
    destruct (i <? 0) eqn:E; [apply N.ltb_lt in E; lia|]. now rewrite N.sub_0_r.
  - cbn [rev_bits]. rewrite IH. rewrite Nat2N.inj_succ.
    destruct (i <? N.of_nat n) eqn:E1.
    + apply N.ltb_lt in E1.
      assert (E2 : i <? N.succ (N.of_nat n) = true) by (apply N.ltb_lt; lia).
      rewrite E2. rewrite N.div2_bits. f_equal; lia.
    + apply N.ltb_ge in E1.
      rewrite <- (N.bit0_mod x).
      destruct (i <? N.succ (N.of_nat n)) eqn:E2.
      * apply N.ltb_lt in E2. assert (Hi : i = N.of_nat n) by lia. subst i.
        rewrite N.sub_diag. rewrite N.testbit_0_r. f_equal; lia.
      * apply N.ltb_ge in E2.
        replace (i - N.of_nat n) with (N.succ (i - N.succ (N.of_nat n))) by lia.
        now rewrite N.testbit_succ_r.
Qed.

Lemma two32 : 4294967296 = 2 ^ 32.
Proof. reflexivity. Qed.

Lemma rev32_testbit x i :
  N.testbit (rev32 x) i = if i <? 32 then N.testbit x (31 - i) else false.
Proof.
  unfold rev32. rewrite rev_bits_testbit. change (N.of_nat 32) with 32.
  destruct (i <? 32) eqn:E.
  - apply N.ltb_lt in E. rewrite two32. rewrite N.mod_pow2_bits_low by lia. f_equal; lia.
  - apply N.bits_0.
Qed.

Lemma small_of_bits a n : (forall i, n <= i -> N.testbit a i = false) -> a < 2 ^ n.
Proof.
  intro H. assert (E : a mod 2 ^ n = a).
  { apply N.bits_inj. intro i. destruct (N.lt_ge_cases i n) as [L|G].
    - now apply N.mod_pow2_bits_low.
    - rewrite N.mod_pow2_bits_high by assumption. symmetry. now apply H. }
  rewrite <- E. apply N.mod_lt. apply N.pow_nonzero. discriminate.
Qed.

Lemma rev32_lt x : rev32 x < 4294967296.
Proof.
  rewrite two32. apply small_of_bits. intros i Hi. rewrite rev32_testbit.
  destruct (i <? 32) eqn:E; [apply N.ltb_lt in E; lia | reflexivity].
Qed.

Lemma rev32_mod x : rev32 (x mod 4294967296) = rev32 x.
Proof. unfold rev32. now rewrite N.mod_mod by discriminate. Qed.

(* involution on [0, 2^32) *)
Lemma rev32_rev32 x : rev32 (rev32 x) = x mod 4294967296.
Proof.
  apply N.bits_inj. intro i. rewrite rev32_testbit. rewrite two32.
  destruct (i <? 32) eqn:E.
  - apply N.ltb_lt in E. rewrite rev32_testbit.
    assert (E2 : 31 - i <? 32 = true) by (apply N.ltb_lt; lia). rewrite E2.
    rewrite N.mod_pow2_bits_low by assumption. f_equal; lia.
  - apply N.ltb_ge in E. now rewrite N.mod_pow2_bits_high.
Qed.

Lemma rev32_invol x : x < 4294967296 -> rev32 (rev32 x) = x.
Proof. intro H. rewrite rev32_rev32. now apply N.mod_small. Qed.

Lemma rev32_0 : rev32 0 = 0.
Proof. reflexivity. Qed.

Lemma rev32_inj x y : x < 4294967296 -> y < 4294967296 -> rev32 x = rev32 y -> x = y.
Proof. intros Hx Hy E. rewrite <- (rev32_invol x Hx), <- (rev32_invol y Hy). now rewrite E. Qed.

(* the stride of a table of 2^k slots *)
Definition S_ (k : nat) : N := pow2 (32 - k).

Lemma pow2_pos k : 0 < pow2 k.
Proof. unfold pow2. apply N.neq_0_lt_0. apply N.pow_nonzero. discriminate. Qed.

Lemma pow2_S_ k : (k <= 32)%nat -> pow2 k * S_ k = 4294967296.
Proof.
  intro H. unfold S_, pow2. rewrite <- N.pow_add_r. rewrite two32. f_equal; lia.
Qed.

(* keeping the low k bits and shifting them to the top, then reversing = the top k bits of the
   reversal, i.e. the slot [pos / S] *)
Lemma rev32_low_shift x k : (k <= 32)%nat ->
  rev32 ((x mod pow2 k) * pow2 (32 - k)) = rev32 x / pow2 (32 - k).
Proof.
  intro Hk. unfold pow2. apply N.bits_inj. intro i.
  rewrite N.div_pow2_bits. rewrite !rev32_testbit.
  replace (N.of_nat (32 - k)) with (32 - N.of_nat k) by lia.
  set (K := N.of_nat k). assert (HK : K <= 32) by lia. clearbody K.
  destruct (i <? 32) eqn:E.
  - apply N.ltb_lt in E.
    destruct (N.lt_ge_cases i K) as [L|G].
    + assert (E2 : i + (32 - K) <? 32 = true) by (apply N.ltb_lt; lia). rewrite E2.
      rewrite N.mul_pow2_bits_high by lia.
      rewrite N.mod_pow2_bits_low by lia. f_equal; lia.
    + assert (E2 : i + (32 - K) <? 32 = false) by (apply N.ltb_ge; lia). rewrite E2.
      apply N.mul_pow2_bits_low. lia.
  - apply N.ltb_ge in E.
    assert (E2 : i + (32 - K) <? 32 = false) by (apply N.ltb_ge; lia). now rewrite E2.
Qed.

(* reducing the wire cursor modulo the table size rounds its position DOWN to a slot boundary *)
Lemma rev32_mod_pow2 x k : (k <= 32)%nat ->
  rev32 (x mod pow2 k) = rev32 x / S_ k * S_ k.
Proof.
  intro Hk. unfold S_, pow2. apply N.bits_inj. intro i.
  replace (N.of_nat (32 - k)) with (32 - N.of_nat k) by lia.
  set (K := N.of_nat k). assert (HK : K <= 32) by lia. clearbody K.
  rewrite rev32_testbit.
  destruct (N.lt_ge_cases i (32 - K)) as [L|G].
  - rewrite N.mul_pow2_bits_low by assumption.
    assert (E : i <? 32 = true) by (apply N.ltb_lt; lia). rewrite E.
    apply N.mod_pow2_bits_high. lia.
  - rewrite N.mul_pow2_bits_high by assumption. rewrite N.div_pow2_bits.
    replace (i - (32 - K) + (32 - K)) with i by lia. rewrite rev32_testbit.
    destruct (i <? 32) eqn:E; [|reflexivity]. apply N.ltb_lt in E.
    apply N.mod_pow2_bits_low. lia.
Qed.

(* ================================================================== *)
(** * 2. Positions, slots, well-formed tables                           *)
(* ================================================================== *)

(* the position of a hash in the iteration order: the bit reversal of its low 32 bits *)
Definition pos (h : N) : N := rev32 (h mod 4294967296).

Lemma pos_rev32 h : pos h = rev32 h.
Proof. apply rev32_mod. Qed.

Lemma pos_lt h : pos h < 4294967296.
Proof. apply rev32_lt. Qed.

Lemma S_pos k : 0 < S_ k.
Proof. apply pow2_pos. Qed.

Lemma div_range a s i j : 0 < s -> i * s <= a < j * s -> i <= a / s < j.
Proof.
  intros Hs [H1 H2]. split.
  - apply N.div_le_lower_bound; lia.
  - apply N.div_lt_upper_bound; lia.
Qed.

Lemma div_range_inv a s : 0 < s -> a / s * s <= a < (a / s + 1) * s.
Proof.
  intro Hs. pose proof (N.div_mod a s ltac:(lia)) as E.
  pose proof (N.mod_lt a s ltac:(lia)) as L.
  set (q := a / s) in *. set (r := a mod s) in *. clearbody q r. nia.
Qed.

(* the key lemma: the slot of a hash is the slot containing its position *)
Lemma hash_to_index_pos h k : (k <= 32)%nat -> hash_to_index h k = pos h / S_ k.
Proof. intro Hk. unfold hash_to_index, S_. rewrite pos_rev32. now apply rev32_low_shift. Qed.

Lemma slot_of_pos_lt p k : (k <= 32)%nat -> p < 4294967296 -> p / S_ k < pow2 k.
Proof.
  intros Hk Hp. apply N.div_lt_upper_bound.
  - pose proof (S_pos k). lia.
  - rewrite N.mul_comm, pow2_S_; assumption.
Qed.

Lemma hash_to_index_lt h k : (k <= 32)%nat -> hash_to_index h k < pow2 k.
Proof. intro Hk. rewrite hash_to_index_pos by assumption. apply slot_of_pos_lt; [assumption | apply pos_lt]. Qed.

Definition wf_dict {V} (d : dict V) : Prop :=
  length (d_slots d) = N.to_nat (pow2 (d_log d)) /\
  (4 <= d_log d <= 32)%nat /\
  forall i it, slot d i = Some it -> hash_to_index (it_hash it) (d_log d) = i.

(* [c] read as a position; the returned cursor 0 means "finished" = position 2^32 *)
Definition cur_pos (c : N) : N := if c =? 0 then 4294967296 else rev32 c.

(* ================================================================== *)
(** * 3. One call                                                       *)
(* ================================================================== *)

Lemma next_occupied_spec {V} (d : dict V) : forall fuel i,
  i <= pow2 (d_log d) -> pow2 (d_log d) <= N.of_nat fuel + i ->
  i <= next_occupied fuel d i <= pow2 (d_log d) /\
  (forall m, i <= m < next_occupied fuel d i -> slot d m = None) /\
  (next_occupied fuel d i < pow2 (d_log d) -> slot d (next_occupied fuel d i) <> None).
Proof.
  induction fuel as [|f IH]; intros i Hi Hf.
  - cbn [next_occupied]. split; [lia|]. split; [intros m Hm; lia | intro; lia].
  - cbn [next_occupied]. destruct (pow2 (d_log d) <=? i) eqn:E.
    + apply N.leb_le in E. split; [lia|]. split; [intros m Hm; lia | intro; lia].
    + apply N.leb_gt in E. destruct (slot d i) as [it|] eqn:Es.
      * split; [lia|]. split; [intros m Hm; lia |]. intros _. rewrite Es. discriminate.
      * destruct (IH (i + 1)) as (A & B & C); try lia.
        split; [lia|]. split; [|assumption].
        intros m Hm. destruct (N.eq_dec m i) as [->|Hne]; [assumption|]. apply B. lia.
Qed.

Ltac split_all := repeat match goal with |- _ /\ _ => split end.

Definition visit {V} (d : dict V) (keep : item V -> bool) (index : N) (count : nat) (acc : list (item V)) :=
  match slot d index with
  | Some it => if keep it then (it :: acc, Nat.pred count) else (acc, count)
  | None => (acc, count)
  end.

Lemma scan_loop_step {V} f (d : dict V) keep c n acc :
  scan_loop (S f) d keep c (S n) acc =
  let k := d_log d in
  let index := rev32 (c * pow2 (32 - k) mod 4294967296) in
  let nxt := next_occupied (N.to_nat (pow2 k)) d (index + 1) in
  let cursor' := rev32 (nxt * pow2 (32 - k) mod 4294967296) in
  if N.eqb cursor' 0 then (0, rev (fst (visit d keep index (S n) acc)))
  else scan_loop f d keep cursor' (snd (visit d keep index (S n) acc)) (fst (visit d keep index (S n) acc)).
Proof.
  cbn [scan_loop]. unfold visit. cbv zeta.
  destruct (slot d (rev32 (c * pow2 (32 - d_log d) mod 4294967296))) as [it|];
    [destruct (keep it)|]; reflexivity.
Qed.

Lemma visit_spec {V} (d : dict V) keep i count acc :
  (forall x, In x (fst (visit d keep i count acc)) <-> In x acc \/ (slot d i = Some x /\ keep x = true)) /\
  (Nat.pred count <= snd (visit d keep i count acc))%nat.
Proof.
  unfold visit. destruct (slot d i) as [it|] eqn:Es; [destruct (keep it) eqn:Ek|]; cbn [fst snd]; split; try lia.
  - intro x. cbn [In]. split.
    + intros [<-|H]; [right; split; [reflexivity|assumption] | now left].
    + intros [H|[H1 H2]]; [now right | left; congruence].
  - intro x. split; [now left|]. intros [H|[H1 H2]]; [assumption|]. congruence.
  - intro x. split; [now left|]. intros [H|[H1 H2]]; [assumption|]. discriminate.
Qed.

(* index computed inside the loop from a cursor whose position is exactly the start of slot i *)
Lemma loop_index c k i : (k <= 32)%nat -> i < pow2 k -> rev32 c = i * S_ k ->
  rev32 (c * pow2 (32 - k) mod 4294967296) = i.
Proof.
  intros Hk Hi Hc. rewrite <- (pow2_S_ k Hk). unfold S_.
  rewrite N.mul_mod_distr_r.
  2:{ pose proof (pow2_pos k); lia. } 2:{ pose proof (pow2_pos (32 - k)); lia. }
  rewrite rev32_low_shift by assumption. fold (S_ k). rewrite Hc.
  apply N.div_mul. pose proof (S_pos k). lia.
Qed.

Lemma scan_loop_spec {V} (d : dict V) keep : (d_log d <= 32)%nat ->
  forall fuel c count acc c' out i,
  i < pow2 (d_log d) -> rev32 c = i * S_ (d_log d) ->
  scan_loop fuel d keep c count acc = (c', out) ->
  exists j, i <= j <= pow2 (d_log d) /\
    (j = pow2 (d_log d) -> c' = 0) /\
    (j < pow2 (d_log d) -> rev32 c' = j * S_ (d_log d)) /\
    (i < j < pow2 (d_log d) -> slot d j <> None) /\
    ((1 <= fuel)%nat -> (1 <= count)%nat -> i < j) /\
    (pow2 (d_log d) - i <= N.of_nat fuel -> pow2 (d_log d) - i <= N.of_nat count -> j = pow2 (d_log d)) /\
    (forall it, In it out <-> In it acc \/ exists m, i <= m < j /\ slot d m = Some it /\ keep it = true).
Proof.
  intro Hk. set (k := d_log d) in *.
  assert (HS : 0 < S_ k) by apply S_pos.
  assert (HKS : pow2 k * S_ k = 4294967296) by (apply pow2_S_; assumption).
  assert (Base : forall c acc c' out i, i < pow2 k -> rev32 c = i * S_ k ->
     (c, rev acc) = (c', out) -> forall fuel count, (fuel = 0 \/ count = 0)%nat ->
     exists j, i <= j <= pow2 k /\ (j = pow2 k -> c' = 0) /\ (j < pow2 k -> rev32 c' = j * S_ k) /\
      (i < j < pow2 k -> slot d j <> None) /\
      ((1 <= fuel)%nat -> (1 <= count)%nat -> i < j) /\
      (pow2 k - i <= N.of_nat fuel -> pow2 k - i <= N.of_nat count -> j = pow2 k) /\
      (forall it, In it out <-> In it acc \/ exists m, i <= m < j /\ slot d m = Some it /\ keep it = true)).
  { intros c acc c' out i Hi Hc E fuel count H0. inversion E; subst c' out. exists i.
    split_all; try (intros; lia). split.
    - intro H. rewrite <- in_rev in H. now left.
    - intros [H|(m & Hm & _)]; [now rewrite <- in_rev | lia]. }
  induction fuel as [|f IH]; intros c count acc c' out i Hi Hc E.
  - cbn [scan_loop] in E. eapply Base; eauto.
  - destruct count as [|n].
    + cbn [scan_loop] in E. eapply Base; eauto.
    + rewrite scan_loop_step in E. cbv zeta in E. fold k in E.
      rewrite (loop_index c k i Hk Hi Hc) in E.
      destruct (visit_spec d keep i (S n) acc) as [Vin Vcnt].
      set (acc1 := fst (visit d keep i (S n) acc)) in *.
      set (cnt1 := snd (visit d keep i (S n) acc)) in *.
      cbn [Nat.pred] in Vcnt.
      destruct (next_occupied_spec d (N.to_nat (pow2 k)) (i + 1)) as (N1 & N2 & N3).
      { fold k. lia. } { fold k. rewrite N2Nat.id. lia. }
      fold k in N1, N2, N3.
      set (nxt := next_occupied (N.to_nat (pow2 k)) d (i + 1)) in *.
      destruct (N.eq_dec nxt (pow2 k)) as [Efin|Hnf].
      * (* finished *)
        rewrite Efin in E. unfold S_ in HKS. rewrite HKS in E.
        rewrite N.mod_same in E by discriminate. rewrite rev32_0 in E. cbn [N.eqb] in E.
        inversion E; subst c' out. exists (pow2 k).
        split_all; try (intros; lia). split.
        -- intro H. rewrite <- in_rev in H. apply Vin in H. destruct H as [H|[H1 H2]]; [now left|].
           right. exists i. repeat split; try lia; assumption.
        -- intros [H|(m & Hm & Hs & Hkp)].
           ++ rewrite <- in_rev. apply Vin. now left.
           ++ rewrite <- in_rev. apply Vin. right.
              destruct (N.eq_dec m i) as [->|Hne]; [split; assumption|].
              rewrite N2 in Hs by lia. discriminate.
      * assert (Hlt : nxt < pow2 k) by lia.
        assert (Hsm : nxt * pow2 (32 - k) < 4294967296).
        { fold (S_ k). rewrite <- HKS. apply N.mul_lt_mono_pos_r; assumption. }
        rewrite N.mod_small in E by assumption. fold (S_ k) in E, Hsm.
        set (c1 := rev32 (nxt * S_ k)) in *.
        assert (Hc1 : rev32 c1 = nxt * S_ k) by (apply rev32_invol; assumption).
        assert (Hnz : c1 <> 0).
        { intro Z. rewrite Z, rev32_0 in Hc1. nia. }
        apply N.eqb_neq in Hnz. rewrite Hnz in E.
        destruct (IH c1 cnt1 acc1 c' out nxt Hlt Hc1 E) as (j & J1 & J2 & J3 & J4 & J5 & J6 & J7).
        exists j. split_all; try (intros; lia); try assumption.
        2: split.
        -- intros [_ Hj]. destruct (N.eq_dec j nxt) as [->|Hne]; [now apply N3|]. apply J4. lia.
        -- intro H. apply J7 in H. destruct H as [H|(m & Hm & Hs & Hkp)].
           ++ apply Vin in H. destruct H as [H|[H1 H2]]; [now left|].
              right. exists i. repeat split; try lia; assumption.
           ++ right. exists m. repeat split; try lia; assumption.
        -- intros [H|(m & Hm & Hs & Hkp)].
           ++ apply J7. left. apply Vin. now left.
           ++ apply J7. destruct (N.eq_dec m i) as [->|Hne].
              ** left. apply Vin. right. split; assumption.
              ** destruct (N.lt_ge_cases m nxt) as [L|G].
                 --- rewrite N2 in Hs by lia. discriminate.
                 --- right. exists m. repeat split; try lia; assumption.
Qed.

(* One call, in slot space.  [i0] is the slot containing the position of the incoming cursor;
   the call visits exactly the slots [i0, j) and returns the cursor of position j * S
   (cursor 0 when j = 2^k). *)
Lemma scan_call_spec {V} (d : dict V) keep c count c' out :
  (d_log d <= 32)%nat -> (1 <= count)%nat ->
  scan_call d keep c count = (c', out) ->
  exists j, rev32 c / S_ (d_log d) < j <= pow2 (d_log d) /\
    cur_pos c' = j * S_ (d_log d) /\
    (j = pow2 (d_log d) <-> c' = 0) /\
    (j < pow2 (d_log d) -> slot d j <> None) /\
    (pow2 (d_log d) - rev32 c / S_ (d_log d) <= N.of_nat count -> j = pow2 (d_log d)) /\
    (forall it, In it out <->
       exists m, rev32 c / S_ (d_log d) <= m < j /\ slot d m = Some it /\ keep it = true).
Proof.
  intros Hk Hc E. unfold scan_call in E.
  set (k := d_log d) in *. set (i0 := rev32 c / S_ k).
  assert (HS : 0 < S_ k) by apply S_pos.
  assert (HKS : pow2 k * S_ k = 4294967296) by (apply pow2_S_; assumption).
  assert (Hi0 : i0 < pow2 k) by (apply slot_of_pos_lt; [assumption | apply rev32_lt]).
  assert (Hc0 : rev32 (c mod pow2 k) = i0 * S_ k) by (apply rev32_mod_pow2; assumption).
  destruct (scan_loop_spec d keep Hk _ _ _ _ _ _ i0 Hi0 Hc0 E) as (j & J1 & J2 & J3 & J4 & J5 & J6 & J7).
  fold k in J1, J2, J3, J4, J5, J6, J7.
  assert (Hj : i0 < j) by (apply J5; lia).
  exists j. split; [lia|].
  assert (Hcz : j < pow2 k -> c' <> 0).
  { intros L Z. apply J3 in L. rewrite Z, rev32_0 in L. nia. }
  split_all.
  - unfold cur_pos. destruct (N.eq_dec j (pow2 k)) as [Ej|Nj].
    + rewrite (J2 Ej). cbn [N.eqb]. subst j. lia.
    + assert (L : j < pow2 k) by lia. specialize (Hcz L). apply N.eqb_neq in Hcz. rewrite Hcz. now apply J3.
  - split; [assumption|]. intro Z. destruct (N.eq_dec j (pow2 k)) as [Ej|Nj]; [assumption|].
    exfalso. apply Hcz; [lia | assumption].
  - intro L. apply J4. lia.
  - intro H. apply J6; [|assumption]. rewrite Nat2N.inj_succ, N2Nat.id. lia.
  - intro it. rewrite J7. cbn [In]. split; [intros [[]|H]; assumption | intro H; now right].
Qed.

(* rounding a position down to the start of its slot *)
Lemma slot_start_le p k : p / S_ k * S_ k <= p.
Proof. pose proof (div_range_inv p (S_ k) (S_pos _)). lia. Qed.

Section Call.
  Context {V : Type}.
  Variables (d : dict V) (keep : item V -> bool) (c : N) (count : nat) (c' : N) (out : list (item V)).
  Hypothesis Hwf : wf_dict d.
  Hypothesis Hcount : (1 <= count)%nat.
  Hypothesis Hcall : scan_call d keep c count = (c', out).

  Let S := S_ (d_log d).

  (* the walk resumes at the start of the slot containing the cursor position, [rev32 c / S * S <= rev32 c],
     and ends strictly further: every call makes progress *)
  Lemma scan_call_progress : rev32 c / S * S < cur_pos c' <= 4294967296.
  Proof.
    destruct Hwf as (_ & Hk & _).
    destruct (scan_call_spec d keep c count c' out ltac:(lia) Hcount Hcall) as (j & J1 & J2 & _).
    fold S in J1, J2. rewrite J2. rewrite <- (pow2_S_ (d_log d)) by lia. fold S.
    pose proof (S_pos (d_log d)) as HS. fold S in HS. nia.
  Qed.


  (* every stored item of the visited range that passes the filter is emitted *)
  Lemma scan_call_covers : forall i it,
    slot d i = Some it -> keep it = true ->
    rev32 c / S * S <= pos (it_hash it) < cur_pos c' ->
    In it out.
  Proof.
    intros i it Hs Hkp Hr. destruct Hwf as (_ & Hk & Hidx).
    destruct (scan_call_spec d keep c count c' out ltac:(lia) Hcount Hcall) as (j & J1 & J2 & _ & _ & _ & J6).
    fold S in J1, J2, J6. apply J6. exists i. split; [|split; assumption].
    rewrite <- (Hidx i it Hs). rewrite hash_to_index_pos by lia. fold S.
    apply div_range; [apply S_pos|]. rewrite <- J2. assumption.
  Qed.

  (* nothing is invented: every emitted item is stored in the table, passes the filter,
     and lies in the visited range *)
  Lemma scan_call_sound : forall it, In it out ->
    keep it = true /\
    slot d (hash_to_index (it_hash it) (d_log d)) = Some it /\
    get d (it_key it) (it_hash it) = Some (it_val it) /\
    rev32 c / S * S <= pos (it_hash it) < cur_pos c'.
  Proof.
    intros it Hin. destruct Hwf as (_ & Hk & Hidx).
    destruct (scan_call_spec d keep c count c' out ltac:(lia) Hcount Hcall) as (j & J1 & J2 & _ & _ & _ & J6).
    fold S in J1, J2, J6. apply J6 in Hin. destruct Hin as (m & Hm & Hs & Hkp).
    pose proof (Hidx m it Hs) as Em.
    split_all.
    - assumption.
    - now rewrite Em.
    - unfold get. rewrite Em, Hs. now rewrite bytes_eqb_refl.
    - rewrite hash_to_index_pos in Em by lia. fold S in Em.
      pose proof (div_range_inv (pos (it_hash it)) S (S_pos _)). rewrite Em in H. nia.
    - rewrite hash_to_index_pos in Em by lia. fold S in Em.
      pose proof (div_range_inv (pos (it_hash it)) S (S_pos _)). rewrite Em in H. rewrite J2. nia.
  Qed.
End Call.

(* ================================================================== *)
(** * 4. Full iterations over a changing table                          *)
(* ================================================================== *)

Section Iteration.
  Context {V : Type}.

  (* one SCAN call of the iteration: the table as it is at that moment, the MATCH/TYPE filter, COUNT *)
  Definition call := (dict V * (item V -> bool) * nat)%type.

  (* feed each returned cursor into the next call; collect the replies *)
  Fixpoint run (calls : list call) (c : N) : N * list (list (item V)) :=
    match calls with
    | [] => (c, [])
    | (d, keep, n) :: r =>
        let (c1, out) := scan_call d keep c n in
        let (c2, outs) := run r c1 in (c2, out :: outs)
    end.

  Definition call_ok (cl : call) : Prop :=
    let '(d, _, n) := cl in wf_dict d /\ (1 <= n)%nat.

  (* (key, h) is stored in the table of this call and passes its filter *)
  Definition present (key : bytes) (h : N) (cl : call) : Prop :=
    let '(d, keep, _) := cl in
    exists v, slot d (hash_to_index h (d_log d)) = Some (mkItem h key v) /\ keep (mkItem h key v) = true.

  Lemma run_complete_from : forall calls c outs,
    calls <> [] -> Forall call_ok calls -> run calls c = (0, outs) ->
    forall key h, Forall (present key h) calls -> rev32 c <= pos h ->
    exists out v, In out outs /\ In (mkItem h key v) out.
  Proof.
    induction calls as [|[[d keep] n] r IH]; intros c outs Hne Hok Hrun key h Hpres Hpos; [congruence|].
    cbn [run] in Hrun.
    destruct (scan_call d keep c n) as [c1 out] eqn:Ec.
    destruct (run r c1) as [c2 outs'] eqn:Er.
    inversion Hrun; subst c2 outs; clear Hrun.
    inversion Hok as [|? ? Ho Hok']; subst.
    unfold call_ok in Ho; cbv beta iota in Ho. destruct Ho as [Hwf Hn].
    inversion Hpres as [|? ? Hp Hpres']; subst.
    unfold present in Hp; cbv beta iota in Hp. destruct Hp as (v & Hs & Hkp).
    pose proof (slot_start_le (rev32 c) (d_log d)) as Hle.
    destruct (N.lt_ge_cases (pos h) (cur_pos c1)) as [L|G].
    - exists out, v. split; [now left|].
      eapply (scan_call_covers d keep c n c1 out Hwf Hn Ec); [exact Hs | exact Hkp |].
      cbn [it_hash]. cbv zeta. lia.
    - assert (Hc1 : c1 <> 0).
      { intro Z. rewrite Z in G. unfold cur_pos in G. cbn [N.eqb] in G. pose proof (pos_lt h). lia. }
      assert (Hr : r <> []).
      { intro Z. subst r. cbn [run] in Er. congruence. }
      unfold cur_pos in G. apply N.eqb_neq in Hc1. rewrite Hc1 in G.
      destruct (IH c1 outs' Hr Hok' Er key h Hpres' G) as (o & v' & Ho & Hv).
      exists o, v'. split; [now right | assumption].
  Qed.

  (** Main theorem 1.  The tables of the successive calls are arbitrary and unrelated (any history of
      insertions, deletions, doublings and halvings between calls); the iteration starts with cursor 0
      and ends when cursor 0 comes back.  Every key that is stored (with the same hash) in the table of
      every call, and matches every filter, is reported by at least one call. *)
  Theorem C17_complete : forall (calls : list call) outs,
    calls <> [] -> Forall call_ok calls -> run calls 0 = (0, outs) ->
    forall key h, Forall (present key h) calls ->
    exists out v, In out outs /\ In (mkItem h key v) out.
  Proof.
    intros calls outs Hne Hok Hrun key h Hpres.
    eapply run_complete_from; eauto. rewrite rev32_0. lia.
  Qed.

  (** Main theorem 2.  Whatever the start cursor: every reported item is stored in the table of the
      call that reports it and passes that call's filter. *)
  Theorem C17_sound : forall (calls : list call) c c' outs,
    Forall call_ok calls -> run calls c = (c', outs) ->
    Forall2 (fun (cl : call) out => let '(d, keep, _) := cl in
               forall it, In it out ->
                 keep it = true /\
                 slot d (hash_to_index (it_hash it) (d_log d)) = Some it /\
                 get d (it_key it) (it_hash it) = Some (it_val it)) calls outs.
  Proof.
    induction calls as [|[[d keep] n] r IH]; intros c c' outs Hok Hrun.
    - cbn [run] in Hrun. inversion Hrun. constructor.
    - cbn [run] in Hrun.
      destruct (scan_call d keep c n) as [c1 out] eqn:Ec.
      destruct (run r c1) as [c2 outs'] eqn:Er.
      inversion Hrun; subst c2 outs; clear Hrun.
      inversion Hok as [|? ? Ho Hok']; subst.
      unfold call_ok in Ho; cbv beta iota in Ho. destruct Ho as [Hwf Hn].
      constructor; [|eapply IH; eauto].
      intros it Hin.
      destruct (scan_call_sound d keep c n c1 out Hwf Hn Ec it Hin) as (A & B & C & _).
      repeat split; assumption.
  Qed.

  (* a key that is absent from every table (whatever hash is used to look it up) is never reported *)
  Corollary C17_never_absent : forall (calls : list call) c c' outs key,
    Forall call_ok calls -> run calls c = (c', outs) ->
    Forall (fun cl : call => forall h, get (fst (fst cl)) key h = None) calls ->
    forall out it, In out outs -> In it out -> it_key it <> key.
  Proof.
    intros calls c c' outs key Hok Hrun Habs.
    pose proof (C17_sound calls c c' outs Hok Hrun) as HS.
    clear Hok Hrun. induction HS as [|[[d keep] n] out0 calls' outs' H0 HS IH]; intros out it Ho Hi.
    - destruct Ho.
    - inversion Habs as [|? ? Ha Habs']; subst. destruct Ho as [<-|Ho].
      + destruct (H0 it Hi) as (_ & _ & G). intro E. subst key. cbn [fst] in Ha. rewrite Ha in G. discriminate.
      + eapply IH; eauto.
  Qed.
End Iteration.

Print Assumptions C17_complete.
Print Assumptions C17_sound.
Print Assumptions C17_never_absent.

(* ================================================================== *)
(** * 5. Termination on a table that no longer changes                  *)
(* ================================================================== *)

Definition is_some {A} (o : option A) : bool := match o with Some _ => true | None => false end.
Definition occ_list {A} (l : list (option A)) : nat := length (filter is_some l).

Lemma occ_skipn_le {A} (l : list (option A)) : forall a b, (a <= b)%nat ->
  (occ_list (skipn b l) <= occ_list (skipn a l))%nat.
Proof.
  induction l as [|x l IH]; intros a b Hab.
  - now rewrite !skipn_nil.
  - destruct a as [|a], b as [|b]; cbn [skipn]; try lia.
    + specialize (IH O b ltac:(lia)). cbn [skipn] in IH.
      unfold occ_list in *. cbn [filter]. destruct (is_some x); cbn [length]; lia.
    + apply IH. lia.
Qed.

Lemma occ_skipn_occupied {A} (l : list (option A)) : forall n, nth n l None <> None ->
  occ_list (skipn n l) = S (occ_list (skipn (S n) l)).
Proof.
  induction l as [|x l IH]; intros n Hn.
  - destruct n; cbn [nth] in Hn; congruence.
  - destruct n as [|n].
    + cbn [nth] in Hn. cbn [skipn]. unfold occ_list. cbn [filter].
      destruct x; [reflexivity | congruence].
    + cbn [nth] in Hn. change (skipn (S n) (x :: l)) with (skipn n l).
      change (skipn (S (S n)) (x :: l)) with (skipn (S n) l). now apply IH.
Qed.

Lemma firstn_repeat {A} (x : A) : forall n m, (m <= n)%nat -> firstn m (repeat x n) = repeat x m.
Proof.
  induction n as [|n IH]; intros m Hm.
  - assert (m = O) by lia. subst. reflexivity.
  - destruct m as [|m]; [reflexivity|]. cbn [repeat firstn]. f_equal. apply IH. lia.
Qed.

Section Fixed.
  Context {V : Type}.
  Variable d : dict V.

  (* the slot in which the walk resumes for wire cursor c *)
  Definition slot_of (c : N) : N := rev32 c / S_ (d_log d).

  (* number of occupied slots at index >= j, and in the whole table *)
  Definition occ_from (j : N) : nat := occ_list (skipn (N.to_nat j) (d_slots d)).
  Definition occupied : nat := occ_list (d_slots d).

  (* successive calls on the same table, with possibly different filters and counts *)
  Fixpoint iter_d (ps : list ((item V -> bool) * nat)) (c : N) : N :=
    match ps with
    | [] => c
    | (keep, n) :: r => iter_d r (fst (scan_call d keep c n))
    end.

  (* n calls with the same filter and count *)
  Fixpoint iterate (keep : item V -> bool) (count : nat) (n : nat) (c : N) : N :=
    match n with
    | O => c
    | S n' => iterate keep count n' (fst (scan_call d keep c count))
    end.

  Lemma iterate_iter_d keep count : forall n c, iterate keep count n c = iter_d (repeat (keep, count) n) c.
  Proof. induction n as [|n IH]; intro c; [reflexivity|]. cbn [iterate repeat iter_d]. apply IH. Qed.

  Hypothesis Hk : (d_log d <= 32)%nat.

  Lemma slot_of_lt c : slot_of c < pow2 (d_log d).
  Proof. apply slot_of_pos_lt; [assumption | apply rev32_lt]. Qed.

  (* a call that does not finish hands back a cursor that sits exactly on an occupied slot further on *)
  Lemma scan_call_next keep c cnt : (1 <= cnt)%nat ->
    fst (scan_call d keep c cnt) <> 0 ->
    slot_of c < slot_of (fst (scan_call d keep c cnt)) /\
    slot d (slot_of (fst (scan_call d keep c cnt))) <> None.
  Proof.
    intros Hc Hnz. destruct (scan_call d keep c cnt) as [c' out] eqn:E. cbn [fst] in *.
    destruct (scan_call_spec d keep c cnt c' out Hk Hc E) as (j & J1 & J2 & J3 & J4 & _).
    assert (Hj : j < pow2 (d_log d)).
    { destruct (N.eq_dec j (pow2 (d_log d))) as [Ej|Nj]; [|lia]. apply J3 in Ej. contradiction. }
    unfold cur_pos in J2. apply N.eqb_neq in Hnz. rewrite Hnz in J2.
    assert (Es : slot_of c' = j).
    { unfold slot_of. rewrite J2. apply N.div_mul. pose proof (S_pos (d_log d)). lia. }
    rewrite Es. split; [apply J1 | now apply J4].
  Qed.

  Lemma iter_measure (mu : N -> nat) (Good : N -> Prop) :
    (forall c, Good c -> (1 <= mu c)%nat) ->
    (forall c keep cnt, Good c -> (1 <= cnt)%nat -> fst (scan_call d keep c cnt) <> 0 ->
        Good (fst (scan_call d keep c cnt)) /\ (mu (fst (scan_call d keep c cnt)) < mu c)%nat) ->
    forall ps c, Good c -> Forall (fun p => (1 <= snd p)%nat) ps -> (mu c <= length ps)%nat ->
    exists n, (1 <= n <= mu c)%nat /\ iter_d (firstn n ps) c = 0 /\
              forall m, (1 <= m < n)%nat -> iter_d (firstn m ps) c <> 0.
  Proof.
    intros Hpos Hstep. induction ps as [|[keep cnt] r IH]; intros c Hg Hcnt Hlen.
    - specialize (Hpos c Hg). cbn [length] in Hlen. lia.
    - inversion Hcnt as [|? ? Hc1 Hcnt']; subst. cbn [snd] in Hc1.
      destruct (N.eq_dec (fst (scan_call d keep c cnt)) 0) as [Z|NZ].
      + exists 1%nat. specialize (Hpos c Hg). split; [lia|]. split.
        * cbn [firstn iter_d]. assumption.
        * intros m Hm. lia.
      + destruct (Hstep c keep cnt Hg Hc1 NZ) as [Hg' Hlt].
        cbn [length] in Hlen.
        destruct (IH _ Hg' Hcnt' ltac:(lia)) as (n & Hn & Hz & Hmin).
        exists (S n). split; [lia|]. split.
        * cbn [firstn iter_d]. assumption.
        * intros m Hm. destruct m as [|m]; [lia|]. cbn [firstn iter_d].
          destruct m as [|m]; [cbn [firstn iter_d]; assumption|]. apply Hmin. lia.
  Qed.

  (** From ANY cursor (e.g. the one handed out before the table stopped changing), with any filters
      and any counts >= 1, the cursor 0 comes back after at most [2^k - slot] calls. *)
  Theorem C17_terminates_gen : forall ps c,
    Forall (fun p => (1 <= snd p)%nat) ps ->
    (N.to_nat (pow2 (d_log d) - slot_of c) <= length ps)%nat ->
    exists n, (1 <= n <= N.to_nat (pow2 (d_log d) - slot_of c))%nat /\
              iter_d (firstn n ps) c = 0 /\
              forall m, (1 <= m < n)%nat -> iter_d (firstn m ps) c <> 0.
  Proof.
    intros ps c Hcnt Hlen.
    apply (iter_measure (fun c => N.to_nat (pow2 (d_log d) - slot_of c)) (fun _ => True)); auto.
    - intros c0 _. pose proof (slot_of_lt c0). lia.
    - intros c0 keep cnt _ Hc NZ. split; [exact I|].
      destruct (scan_call_next keep c0 cnt Hc NZ) as [A _].
      pose proof (slot_of_lt (fst (scan_call d keep c0 cnt))). lia.
  Qed.

  (** Sharper: at most (number of occupied slots + 1) calls. *)
  Theorem C17_terminates_sharp : forall ps c,
    Forall (fun p => (1 <= snd p)%nat) ps ->
    (occupied + 1 <= length ps)%nat ->
    exists n, (1 <= n <= occupied + 1)%nat /\
              iter_d (firstn n ps) c = 0 /\
              forall m, (1 <= m < n)%nat -> iter_d (firstn m ps) c <> 0.
  Proof.
    intros ps c Hcnt Hlen.
    assert (Hmono : forall j, (occ_from j <= occupied)%nat).
    { intro j. unfold occ_from, occupied. apply (occ_skipn_le (d_slots d) O). lia. }
    assert (Hstep : forall c keep cnt, slot d (slot_of c) <> None -> (1 <= cnt)%nat ->
              fst (scan_call d keep c cnt) <> 0 ->
              slot d (slot_of (fst (scan_call d keep c cnt))) <> None /\
              (occ_from (slot_of (fst (scan_call d keep c cnt))) < occ_from (slot_of c))%nat).
    { intros c0 keep cnt Hocc Hc NZ. destruct (scan_call_next keep c0 cnt Hc NZ) as [A B].
      split; [assumption|]. unfold occ_from.
      rewrite (occ_skipn_occupied (d_slots d) (N.to_nat (slot_of c0)) Hocc).
      apply Nat.lt_succ_r. apply occ_skipn_le. lia. }
    destruct ps as [|[keep cnt] r]; [cbn [length] in Hlen; lia|].
    inversion Hcnt as [|? ? Hc1 Hcnt']; subst. cbn [snd] in Hc1. cbn [length] in Hlen.
    destruct (N.eq_dec (fst (scan_call d keep c cnt)) 0) as [Z|NZ].
    - exists 1%nat. split; [lia|]. split; [cbn [firstn iter_d]; assumption | intros m Hm; lia].
    - destruct (scan_call_next keep c cnt Hc1 NZ) as [_ B].
      set (c1 := fst (scan_call d keep c cnt)) in *.
      destruct (iter_measure (fun c => occ_from (slot_of c)) (fun c => slot d (slot_of c) <> None)) with (ps := r) (c := c1)
        as (n & Hn & Hz & Hmin); auto.
      + intros c0 Hocc. unfold occ_from.
        rewrite (occ_skipn_occupied (d_slots d) (N.to_nat (slot_of c0)) Hocc). lia.
      + specialize (Hmono (slot_of c1)). lia.
      + exists (S n). specialize (Hmono (slot_of c1)). split; [lia|]. split.
        * cbn [firstn iter_d]. assumption.
        * intros m Hm. destruct m as [|m]; [lia|]. cbn [firstn iter_d]. fold c1.
          destruct m as [|m]; [cbn [firstn iter_d]; assumption|]. apply Hmin. lia.
  Qed.

  (** Main theorem 3.  Same filter and count in every call, iteration started with cursor 0:
      the first return to cursor 0 happens after n calls, n <= 2^k and n <= occupied slots + 1. *)
  Theorem C17_terminates : forall keep count, (1 <= count)%nat ->
    exists n, (1 <= n)%nat /\ (n <= N.to_nat (pow2 (d_log d)))%nat /\ (n <= occupied + 1)%nat /\
              iterate keep count n 0 = 0 /\
              forall m, (1 <= m < n)%nat -> iterate keep count m 0 <> 0.
  Proof.
    intros keep count Hc.
    set (K := N.to_nat (pow2 (d_log d))).
    assert (H0 : slot_of 0 = 0) by (unfold slot_of; rewrite rev32_0; apply N.div_0_l; pose proof (S_pos (d_log d)); lia).
    destruct (C17_terminates_gen (repeat (keep, count) K) 0) as (n1 & A1 & B1 & C1).
    { apply Forall_forall. intros p Hp. apply repeat_spec in Hp. subst p. exact Hc. }
    { rewrite repeat_length, H0, N.sub_0_r. fold K. lia. }
    rewrite H0, N.sub_0_r in A1. fold K in A1.
    destruct (C17_terminates_sharp (repeat (keep, count) (occupied + 1)) 0) as (n2 & A2 & B2 & C2).
    { apply Forall_forall. intros p Hp. apply repeat_spec in Hp. subst p. exact Hc. }
    { rewrite repeat_length. lia. }
    rewrite firstn_repeat in B1 by lia. rewrite firstn_repeat in B2 by lia.
    rewrite <- iterate_iter_d in B1, B2.
    assert (C1' : forall m, (1 <= m < n1)%nat -> iterate keep count m 0 <> 0).
    { intros m Hm. rewrite iterate_iter_d. rewrite <- (firstn_repeat (keep, count) K m) by lia. now apply C1. }
    assert (C2' : forall m, (1 <= m < n2)%nat -> iterate keep count m 0 <> 0).
    { intros m Hm. rewrite iterate_iter_d. rewrite <- (firstn_repeat (keep, count) (occupied + 1) m) by lia. now apply C2. }
    assert (n1 = n2).
    { destruct (Nat.lt_trichotomy n1 n2) as [L|[E|G]]; [|assumption|].
      - exfalso. apply (C2' n1); [lia | assumption].
      - exfalso. apply (C1' n2); [lia | assumption]. }
    subst n2. exists n1. repeat split; try lia; assumption.
  Qed.
End Fixed.

Print Assumptions C17_terminates_gen.
Print Assumptions C17_terminates_sharp.
Print Assumptions C17_terminates.

(* ================================================================== *)
(** * 6. MATCH / TYPE / COUNT only filter or batch                      *)
(* ================================================================== *)

Lemma cur_pos_ge_of_spec c' j k :
  j <= pow2 k -> (k <= 32)%nat -> (j = pow2 k -> c' = 0) -> (j < pow2 k -> rev32 c' = j * S_ k) ->
  j * S_ k <= cur_pos c'.
Proof.
  intros Hj Hk H1 H2. unfold cur_pos. pose proof (pow2_S_ k Hk) as HKS. pose proof (S_pos k) as HS.
  destruct (c' =? 0) eqn:E.
  - rewrite <- HKS. apply N.mul_le_mono_r. assumption.
  - apply N.eqb_neq in E. destruct (N.eq_dec j (pow2 k)) as [Ej|Nj]; [now apply H1 in Ej|].
    rewrite H2 by lia. lia.
Qed.

(* Two walks from the same place in the same table: walk B has the stricter filter and at least
   as much COUNT left.  Then B gets at least as far as A. *)
Lemma scan_loop_mono {V} (d : dict V) keepA keepB : (d_log d <= 32)%nat ->
  (forall it, keepB it = true -> keepA it = true) ->
  forall fuel c cntA cntB accA accB cA outA cB outB i,
  i < pow2 (d_log d) -> rev32 c = i * S_ (d_log d) ->
  (cntA <= cntB)%nat -> (c <> 0 \/ (1 <= cntA)%nat) ->
  scan_loop fuel d keepA c cntA accA = (cA, outA) ->
  scan_loop fuel d keepB c cntB accB = (cB, outB) ->
  cur_pos cA <= cur_pos cB.
Proof.
  intros Hk Hsub. set (k := d_log d) in *.
  assert (HS : 0 < S_ k) by apply S_pos.
  assert (HKS : pow2 k * S_ k = 4294967296) by (apply pow2_S_; assumption).
  induction fuel as [|f IH]; intros c cntA cntB accA accB cA outA cB outB i Hi Hc Hle Hnz EA EB.
  - cbn [scan_loop] in EA, EB. inversion EA; inversion EB; subst. lia.
  - destruct cntA as [|a].
    + destruct Hnz as [Hnz|Hnz]; [|lia].
      cbn [scan_loop] in EA. inversion EA; subst cA outA.
      destruct (scan_loop_spec d keepB Hk _ _ _ _ _ _ i Hi Hc EB) as (j & J1 & J2 & J3 & _).
      fold k in J1, J2, J3.
      pose proof (cur_pos_ge_of_spec cB j k ltac:(lia) Hk J2 J3) as G.
      unfold cur_pos at 1. apply N.eqb_neq in Hnz. rewrite Hnz. rewrite Hc. nia.
    + destruct cntB as [|b]; [lia|].
      rewrite scan_loop_step in EA, EB. cbv zeta in EA, EB. fold k in EA, EB.
      rewrite (loop_index c k i Hk Hi Hc) in EA, EB.
      destruct (next_occupied_spec d (N.to_nat (pow2 k)) (i + 1)) as (N1 & N2 & N3).
      { fold k. lia. } { fold k. rewrite N2Nat.id. lia. }
      fold k in N1, N2, N3.
      set (nxt := next_occupied (N.to_nat (pow2 k)) d (i + 1)) in *.
      destruct (N.eq_dec nxt (pow2 k)) as [Efin|Hnf].
      * rewrite Efin in EA, EB. unfold S_ in HKS. rewrite HKS in EA, EB.
        rewrite N.mod_same in EA, EB by discriminate. rewrite rev32_0 in EA, EB. cbn [N.eqb] in EA, EB.
        inversion EA; inversion EB; subst. lia.
      * assert (Hlt : nxt < pow2 k) by lia.
        assert (Hsm : nxt * pow2 (32 - k) < 4294967296).
        { fold (S_ k). rewrite <- HKS. apply N.mul_lt_mono_pos_r; assumption. }
        rewrite N.mod_small in EA, EB by assumption. fold (S_ k) in EA, EB, Hsm.
        set (c1 := rev32 (nxt * S_ k)) in *.
        assert (Hc1 : rev32 c1 = nxt * S_ k) by (apply rev32_invol; assumption).
        assert (Hnz1 : c1 <> 0).
        { intro Z. rewrite Z, rev32_0 in Hc1. nia. }
        pose proof Hnz1 as Hnz1'. apply N.eqb_neq in Hnz1'. rewrite Hnz1' in EA, EB.
        eapply (IH c1 _ _ _ _ cA outA cB outB nxt Hlt Hc1); [| left; assumption | exact EA | exact EB].
        unfold visit. destruct (slot d i) as [it|]; cbn [snd]; [|lia].
        destruct (keepA it) eqn:KA, (keepB it) eqn:KB; cbn [snd Nat.pred]; try lia.
        apply Hsub in KB. congruence.
Qed.

Section Filters.
  Context {V : Type}.
  Variable d : dict V.
  Hypothesis Hwf : wf_dict d.

  (** A stricter filter (more MATCH/TYPE conditions) and/or a larger COUNT never makes the walk fall
      short: from the same cursor, call B ends at least as far as call A, and reports every item
      reported by A that passes B's filter. *)
  Theorem C17_filter_monotone : forall keepA keepB c cntA cntB cA outA cB outB,
    (forall it, keepB it = true -> keepA it = true) ->
    (1 <= cntA <= cntB)%nat ->
    scan_call d keepA c cntA = (cA, outA) ->
    scan_call d keepB c cntB = (cB, outB) ->
    cur_pos cA <= cur_pos cB /\
    forall it, In it outA -> keepB it = true -> In it outB.
  Proof.
    intros keepA keepB c cntA cntB cA outA cB outB Hsub Hcnt EA EB.
    destruct Hwf as (Hlen & Hk & Hidx).
    assert (Hmono : cur_pos cA <= cur_pos cB).
    { unfold scan_call in EA, EB.
      eapply (scan_loop_mono d keepA keepB ltac:(lia) Hsub _ _ cntA cntB _ _ cA outA cB outB
                (rev32 c / S_ (d_log d))); [| | lia | right; lia | exact EA | exact EB].
      - apply slot_of_pos_lt; [lia | apply rev32_lt].
      - apply rev32_mod_pow2. lia. }
    split; [assumption|]. intros it Hin HkB.
    destruct (scan_call_sound d keepA c cntA cA outA Hwf ltac:(lia) EA it Hin) as (_ & Hs & _ & Hr).
    eapply (scan_call_covers d keepB c cntB cB outB Hwf ltac:(lia) EB); [exact Hs | exact HkB | lia].
  Qed.

  (* conjunction of two filters, as MATCH pattern + TYPE: instance of the above *)
  Corollary C17_filter_conj : forall keep1 keep2 c count c1 out1 c12 out12,
    (1 <= count)%nat ->
    scan_call d keep1 c count = (c1, out1) ->
    scan_call d (fun it => keep1 it && keep2 it) c count = (c12, out12) ->
    cur_pos c1 <= cur_pos c12 /\
    (forall it, In it out1 -> keep2 it = true -> In it out12) /\
    (forall it, In it out12 -> keep1 it = true /\ keep2 it = true /\
                               get d (it_key it) (it_hash it) = Some (it_val it)).
  Proof.
    intros keep1 keep2 c count c1 out1 c12 out12 Hc E1 E12.
    destruct (C17_filter_monotone keep1 (fun it => keep1 it && keep2 it) c count count c1 out1 c12 out12)
      as [A B]; try assumption; try lia.
    { intros it H. apply andb_true_iff in H. tauto. }
    split; [assumption|]. split.
    - intros it Hin H2. apply B; [assumption|].
      destruct (scan_call_sound d keep1 c count c1 out1 Hwf Hc E1 it Hin) as (H1 & _). now rewrite H1, H2.
    - intros it Hin.
      destruct (scan_call_sound d _ c count c12 out12 Hwf Hc E12 it Hin) as (H1 & _ & G & _).
      apply andb_true_iff in H1. tauto.
  Qed.

  (** With COUNT at least the number of slots, one call from cursor 0 returns cursor 0 and exactly
      the stored items that pass the filter. *)
  Theorem C17_single_call : forall keep count c' out,
    pow2 (d_log d) <= N.of_nat count ->
    scan_call d keep 0 count = (c', out) ->
    c' = 0 /\
    forall it, In it out <->
      slot d (hash_to_index (it_hash it) (d_log d)) = Some it /\ keep it = true.
  Proof.
    intros keep count c' out Hcnt E. destruct Hwf as (Hlen & Hk & Hidx).
    pose proof (pow2_pos (d_log d)) as Hp.
    destruct (scan_call_spec d keep 0 count c' out ltac:(lia) ltac:(lia) E) as (j & J1 & J2 & J3 & J4 & J5 & J6).
    assert (H0 : rev32 0 / S_ (d_log d) = 0).
    { rewrite rev32_0. apply N.div_0_l. pose proof (S_pos (d_log d)). lia. }
    rewrite H0 in *. assert (Ej : j = pow2 (d_log d)) by (apply J5; lia).
    split; [now apply J3|]. intro it. rewrite J6. split.
    - intros (m & Hm & Hs & Hkp). split; [|assumption]. now rewrite (Hidx m it Hs).
    - intros [Hs Hkp]. exists (hash_to_index (it_hash it) (d_log d)). split; [|split; assumption].
      split; [lia|]. rewrite Ej. apply hash_to_index_lt. lia.
  Qed.

  (* the two-filter form of the single-call statement *)
  Corollary C17_single_call_conj : forall keep1 keep2 count c1 out1 c12 out12,
    pow2 (d_log d) <= N.of_nat count ->
    scan_call d keep1 0 count = (c1, out1) ->
    scan_call d (fun it => keep1 it && keep2 it) 0 count = (c12, out12) ->
    c1 = 0 /\ c12 = 0 /\ forall it, In it out12 <-> In it out1 /\ keep2 it = true.
  Proof.
    intros keep1 keep2 count c1 out1 c12 out12 Hcnt E1 E12.
    destruct (C17_single_call keep1 count c1 out1 Hcnt E1) as [Z1 I1].
    destruct (C17_single_call _ count c12 out12 Hcnt E12) as [Z12 I12].
    split; [assumption|]. split; [assumption|]. intro it. rewrite I12, I1, andb_true_iff. tauto.
  Qed.
End Filters.

Print Assumptions C17_filter_monotone.
Print Assumptions C17_filter_conj.
Print Assumptions C17_single_call.
Print Assumptions C17_single_call_conj.

(** The requested summary statement for MATCH/TYPE/COUNT, bundling the results above. *)
Theorem C17_filters {V} (d : dict V) : wf_dict d ->
  (* (a) two filters combined, any cursor, any COUNT >= 1: the combined call gets at least as far,
         reports every item of the single-filter call that passes the second filter, and reports only
         stored items passing both *)
  (forall keep1 keep2 c count c1 out1 c12 out12, (1 <= count)%nat ->
     scan_call d keep1 c count = (c1, out1) ->
     scan_call d (fun it => keep1 it && keep2 it) c count = (c12, out12) ->
     cur_pos c1 <= cur_pos c12 /\
     (forall it, In it out1 -> keep2 it = true -> In it out12) /\
     (forall it, In it out12 -> keep1 it = true /\ keep2 it = true /\
                                get d (it_key it) (it_hash it) = Some (it_val it))) /\
  (* (b) a larger COUNT only makes the batch larger *)
  (forall keep c cnt1 cnt2 c1 out1 c2 out2, (1 <= cnt1 <= cnt2)%nat ->
     scan_call d keep c cnt1 = (c1, out1) -> scan_call d keep c cnt2 = (c2, out2) ->
     cur_pos c1 <= cur_pos c2 /\ forall it, In it out1 -> In it out2) /\
  (* (c) COUNT >= number of slots, cursor 0: one call returns cursor 0 and exactly the matching items *)
  (forall keep count c' out, pow2 (d_log d) <= N.of_nat count ->
     scan_call d keep 0 count = (c', out) ->
     c' = 0 /\ forall it, In it out <->
                 slot d (hash_to_index (it_hash it) (d_log d)) = Some it /\ keep it = true).
Proof.
  intro Hwf. split; [|split].
  - intros. eapply C17_filter_conj; eauto.
  - intros keep c cnt1 cnt2 c1 out1 c2 out2 Hc E1 E2.
    destruct (C17_filter_monotone d Hwf keep keep c cnt1 cnt2 c1 out1 c2 out2) as [A B]; auto.
    split; [assumption|]. intros it Hin. apply B; [assumption|].
    now destruct (scan_call_sound d keep c cnt1 c1 out1 Hwf ltac:(lia) E1 it Hin) as (H & _).
  - intros. eapply C17_single_call; eauto.
Qed.

Print Assumptions C17_filters.

Lemma Forall2_In_r {A B} (R : A -> B -> Prop) l l' : Forall2 R l l' ->
  forall y, In y l' -> exists x, In x l /\ R x y.
Proof.
  induction 1 as [|x y l l' Hxy HF IH]; intros y0 Hin; [destruct Hin|].
  destruct Hin as [<-|Hin].
  - exists x. split; [now left | assumption].
  - destruct (IH y0 Hin) as (x0 & Hx0 & HR0). exists x0. split; [now right | assumption].
Qed.

(** On a table that does not change during the iteration, with one filter and arbitrary COUNTs,
    a full iteration reports exactly the stored items that pass the filter. *)
Theorem C17_stable_exact {V} (d : dict V) keep (counts : list nat) outs :
  wf_dict d -> counts <> [] -> Forall (fun n => (1 <= n)%nat) counts ->
  run (map (fun n => (d, keep, n)) counts) 0 = (0, outs) ->
  forall it, (exists out, In out outs /\ In it out) <->
             (slot d (hash_to_index (it_hash it) (d_log d)) = Some it /\ keep it = true).
Proof.
  intros Hwf Hne Hcnt Hrun it.
  assert (Hok : Forall (@call_ok V) (map (fun n => (d, keep, n)) counts)).
  { apply Forall_forall. intros cl Hin. apply in_map_iff in Hin. destruct Hin as (n & <- & Hn).
    rewrite Forall_forall in Hcnt. split; [assumption | now apply Hcnt]. }
  split.
  - intros (out & Ho & Hi).
    pose proof (C17_sound _ 0 0 outs Hok Hrun) as HS.
    destruct (Forall2_In_r _ _ _ HS out Ho) as (cl & Hcl & HR).
    apply in_map_iff in Hcl. destruct Hcl as (n & <- & Hn). cbv beta iota in HR.
    destruct (HR it Hi) as (A & B & _). now split.
  - intros [Hs Hkp]. destruct it as [h key v]. cbn [it_hash] in Hs.
    destruct (C17_complete (map (fun n => (d, keep, n)) counts) outs) with (key := key) (h := h)
      as (out & v' & Ho & Hi); try assumption.
    + destruct counts; [congruence | discriminate].
    + apply Forall_forall. intros cl Hin. apply in_map_iff in Hin. destruct Hin as (n & <- & Hn).
      exists v. split; assumption.
    + exists out. split; [assumption|].
      (* the reported item is the stored one: same slot *)
      pose proof (C17_sound _ 0 0 outs Hok Hrun) as HS.
      destruct (Forall2_In_r _ _ _ HS out Ho) as (cl & Hcl & HR).
      apply in_map_iff in Hcl. destruct Hcl as (n & <- & Hn). cbv beta iota in HR.
      destruct (HR _ Hi) as (_ & B & _). cbn [it_hash] in B. rewrite Hs in B. injection B as <-. assumption.
Qed.

Print Assumptions C17_stable_exact.

(* ================================================================== *)
(** * 7. The dictionary: store / remove / rehash keep every element     *)
(* ================================================================== *)

Lemma set_nth_length {A} (l : list A) : forall n x, length (set_nth l n x) = length l.
Proof. induction l as [|a l IH]; intros [|n] x; cbn [set_nth length]; try reflexivity. now rewrite IH. Qed.

Lemma nth_set_nth {A} (l : list A) : forall n x m d,
  nth m (set_nth l n x) d = if (Nat.eqb m n && Nat.ltb n (length l))%bool then x else nth m l d.
Proof.
  induction l as [|a l IH]; intros n x m d.
  - assert (E : set_nth [] n x = []) by (destruct n; reflexivity). rewrite E.
    cbn [length]. replace (Nat.ltb n 0) with false by (symmetry; apply Nat.ltb_ge; lia).
    now rewrite andb_false_r.
  - destruct n as [|n], m as [|m]; cbn [set_nth nth length]; try reflexivity.
    rewrite IH. reflexivity.
Qed.

Lemma nth_set_nth_eq {A} (l : list A) n x d : (n < length l)%nat -> nth n (set_nth l n x) d = x.
Proof.
  intro H. rewrite nth_set_nth, Nat.eqb_refl. apply Nat.ltb_lt in H. now rewrite H.
Qed.

Lemma nth_set_nth_neq {A} (l : list A) n x m d : m <> n -> nth m (set_nth l n x) d = nth m l d.
Proof. intro H. rewrite nth_set_nth. apply Nat.eqb_neq in H. now rewrite H. Qed.

Lemma repeatN_length {A} (x : A) n : length (repeatN x n) = n.
Proof. induction n as [|n IH]; cbn [repeatN length]; [reflexivity | now rewrite IH]. Qed.

Lemma nth_repeatN {A} (x : A) : forall n m, nth m (repeatN x n) x = x.
Proof. induction n as [|n IH]; intros [|m]; cbn [repeatN nth]; try reflexivity. apply IH. Qed.

Lemma In_slots_nth {A} (sl : list (option A)) x : In (Some x) sl <-> exists m, nth m sl None = Some x.
Proof.
  split.
  - intro H. destruct (In_nth _ _ None H) as (m & _ & E). now exists m.
  - intros (m & E). destruct (Nat.lt_ge_cases m (length sl)) as [L|G].
    + rewrite <- E. now apply nth_In.
    + rewrite nth_overflow in E by assumption. discriminate.
Qed.

Lemma option_eq_of_iff {A} (a b : option A) : (forall v, a = Some v <-> b = Some v) -> a = b.
Proof.
  intro H. destruct a as [x|], b as [y|]; try reflexivity.
  - symmetry. now apply H.
  - symmetry. now apply H.
  - now apply H.
Qed.

(* ---- arithmetic of slots at different table sizes ---- *)

Lemma hash_to_index_mod h1 h2 k : (k <= 32)%nat ->
  (hash_to_index h1 k = hash_to_index h2 k <-> h1 mod pow2 k = h2 mod pow2 k).
Proof.
  intro Hk. split.
  - unfold hash_to_index. intro E. apply rev32_inj in E.
    + apply N.mul_cancel_r in E; [assumption|]. pose proof (pow2_pos (32 - k)). lia.
    + rewrite <- (pow2_S_ k Hk). apply N.mul_lt_mono_pos_r; [apply S_pos|].
      apply N.mod_lt. pose proof (pow2_pos k). lia.
    + rewrite <- (pow2_S_ k Hk). apply N.mul_lt_mono_pos_r; [apply S_pos|].
      apply N.mod_lt. pose proof (pow2_pos k). lia.
  - unfold hash_to_index. now intros ->.
Qed.

Lemma pow2_add a b : pow2 (a + b) = pow2 a * pow2 b.
Proof. unfold pow2. rewrite Nat2N.inj_add. apply N.pow_add_r. Qed.

(* equal residues modulo the larger table imply equal residues modulo the smaller *)
Lemma mod_pow2_coarsen h1 h2 k k' : (k <= k')%nat ->
  h1 mod pow2 k' = h2 mod pow2 k' -> h1 mod pow2 k = h2 mod pow2 k.
Proof.
  intros Hk E. replace k' with (k + (k' - k))%nat in E by lia. rewrite pow2_add in E.
  pose proof (pow2_pos k) as P1. pose proof (pow2_pos (k' - k)) as P2.
  assert (F : forall h, h mod pow2 k = (h mod (pow2 k * pow2 (k' - k))) mod pow2 k).
  { intro h. rewrite N.mod_mul_r by lia.
    rewrite (N.mul_comm (pow2 k) ((h / pow2 k) mod pow2 (k' - k))).
    rewrite N.mod_add by lia. now rewrite N.mod_mod by lia. }
  rewrite (F h1), (F h2). now rewrite E.
Qed.

Lemma hash_to_index_coarsen h1 h2 k k' : (k <= k' <= 32)%nat ->
  hash_to_index h1 k' = hash_to_index h2 k' -> hash_to_index h1 k = hash_to_index h2 k.
Proof.
  intros Hk E. apply hash_to_index_mod; [lia|]. apply (mod_pow2_coarsen h1 h2 k k'); [lia|].
  apply hash_to_index_mod in E; [assumption | lia].
Qed.

(* halving the table merges the slots 2m and 2m+1 *)
Lemma hash_to_index_half h k : (1 <= k <= 32)%nat ->
  hash_to_index h (k - 1) = hash_to_index h k / 2.
Proof.
  intro Hk. rewrite !hash_to_index_pos by lia. unfold S_.
  replace (32 - (k - 1))%nat with (S (32 - k)) by lia.
  unfold pow2. rewrite Nat2N.inj_succ, N.pow_succ_r'. rewrite (N.mul_comm 2).
  rewrite N.div_div; [reflexivity | apply N.pow_nonzero; discriminate | discriminate].
Qed.

Section Rehash.
  Context {V : Type}.
  Notation slots := (list (option (item V))).

  (* slot number (as a list index) of an item in a table of 2^k slots *)
  Definition idx (it : item V) (k : nat) : nat := N.to_nat (hash_to_index (it_hash it) k).

  Definition place (k : nat) (acc : slots) (o : option (item V)) : slots :=
    match o with Some it => set_nth acc (idx it k) (Some it) | None => acc end.

  Lemma rehash_slots_fold (sl : slots) k :
    rehash_slots sl k = fold_left (place k) sl (repeatN None (N.to_nat (pow2 k))).
  Proof. unfold rehash_slots, place, idx. reflexivity. Qed.

  Lemma idx_lt it k : (k <= 32)%nat -> (idx it k < N.to_nat (pow2 k))%nat.
  Proof. intro Hk. unfold idx. pose proof (hash_to_index_lt (it_hash it) k Hk). lia. Qed.

  Lemma idx_eq_iff it1 it2 k :
    idx it1 k = idx it2 k <-> hash_to_index (it_hash it1) k = hash_to_index (it_hash it2) k.
  Proof. unfold idx. split; [apply N2Nat.inj | now intros ->]. Qed.

  Lemma place_length k acc o : length (place k acc o) = length acc.
  Proof. destruct o; cbn [place]; [apply set_nth_length | reflexivity]. Qed.

  Lemma fold_place_length k : forall (sl acc : slots), length (fold_left (place k) sl acc) = length acc.
  Proof.
    induction sl as [|o sl IH]; intro acc; cbn [fold_left]; [reflexivity|].
    now rewrite IH, place_length.
  Qed.

  (* everything found in the result was in the accumulator or is an item of the list, at its own slot *)
  Lemma fold_place_sound k : forall (sl acc : slots) m it,
    nth m (fold_left (place k) sl acc) None = Some it ->
    nth m acc None = Some it \/ (In (Some it) sl /\ idx it k = m).
  Proof.
    induction sl as [|o sl IH]; intros acc m it H; cbn [fold_left] in H; [now left|].
    apply IH in H. destruct H as [H|[H1 H2]].
    - destruct o as [it2|]; cbn [place] in H; [|now left].
      rewrite nth_set_nth in H.
      destruct (Nat.eqb m (idx it2 k) && Nat.ltb (idx it2 k) (length acc))%bool eqn:E; [|now left].
      apply andb_true_iff in E. destruct E as [E _]. apply Nat.eqb_eq in E.
      inversion H; subst it2. right. split; [now left | now symmetry].
    - right. split; [now right | assumption].
  Qed.

  (* a slot keeps its content if no later item of the list claims it *)
  Lemma fold_place_keep k : forall (sl acc : slots) m (x : option (item V)),
    nth m acc None = x ->
    (forall it2, In (Some it2) sl -> idx it2 k = m -> x = Some it2) ->
    nth m (fold_left (place k) sl acc) None = x.
  Proof.
    induction sl as [|o sl IH]; intros acc m x Hx Hno; cbn [fold_left]; [assumption|].
    apply IH.
    - destruct o as [it2|]; cbn [place]; [|assumption].
      rewrite nth_set_nth.
      destruct (Nat.eqb m (idx it2 k) && Nat.ltb (idx it2 k) (length acc))%bool eqn:E; [|assumption].
      apply andb_true_iff in E. destruct E as [E _]. apply Nat.eqb_eq in E.
      symmetry. apply Hno; [now left | now symmetry].
    - intros it2 Hin. apply Hno. now right.
  Qed.

  (* an item of the list ends up in its slot if no other item of the list claims that slot *)
  Lemma fold_place_complete k : forall (sl acc : slots) it,
    In (Some it) sl ->
    (forall it2, In (Some it2) sl -> idx it2 k = idx it k -> it2 = it) ->
    (idx it k < length acc)%nat ->
    nth (idx it k) (fold_left (place k) sl acc) None = Some it.
  Proof.
    induction sl as [|o sl IH]; intros acc it Hin Hinj Hlen; [destruct Hin|].
    cbn [fold_left]. destruct Hin as [->|Hin].
    - cbn [place]. apply fold_place_keep.
      + now apply nth_set_nth_eq.
      + intros it2 H2 E. f_equal. symmetry. apply Hinj; [now right | assumption].
    - apply IH; [assumption | | now rewrite place_length].
      intros it2 H2. apply Hinj. now right.
  Qed.

  Definition no_collide (sl : slots) (k : nat) : Prop :=
    forall it1 it2, In (Some it1) sl -> In (Some it2) sl -> idx it1 k = idx it2 k -> it1 = it2.

  Lemma rehash_length (sl : slots) k : length (rehash_slots sl k) = N.to_nat (pow2 k).
  Proof. rewrite rehash_slots_fold, fold_place_length. apply repeatN_length. Qed.

  Lemma rehash_sound (sl : slots) k m it :
    nth m (rehash_slots sl k) None = Some it -> In (Some it) sl /\ idx it k = m.
  Proof.
    rewrite rehash_slots_fold. intro H. apply fold_place_sound in H. destruct H as [H|H]; [|assumption].
    rewrite nth_repeatN in H. discriminate.
  Qed.

  Lemma rehash_complete (sl : slots) k it : (k <= 32)%nat -> no_collide sl k ->
    In (Some it) sl -> nth (idx it k) (rehash_slots sl k) None = Some it.
  Proof.
    intros Hk Hnc Hin. rewrite rehash_slots_fold. apply fold_place_complete.
    - assumption.
    - intros it2 H2 E. now apply Hnc.
    - rewrite repeatN_length. now apply idx_lt.
  Qed.

  (* the elements of a rehashed table are exactly the elements of the old one *)
  Lemma rehash_elements (sl : slots) k it : (k <= 32)%nat -> no_collide sl k ->
    (In (Some it) (rehash_slots sl k) <-> In (Some it) sl).
  Proof.
    intros Hk Hnc. split.
    - intro H. apply In_slots_nth in H. destruct H as (m & H). now apply rehash_sound in H.
    - intro H. apply In_slots_nth. exists (idx it k). now apply rehash_complete.
  Qed.

  (* ---- well-formed slot lists ---- *)
  Definition wf_slots (sl : slots) (k : nat) : Prop :=
    length sl = N.to_nat (pow2 k) /\ forall m it, nth m sl None = Some it -> idx it k = m.

  Lemma wf_dict_slots (d : dict V) :
    wf_dict d <-> (wf_slots (d_slots d) (d_log d) /\ (4 <= d_log d <= 32)%nat).
  Proof.
    unfold wf_dict, wf_slots, slot, idx. split.
    - intros (A & B & C). split; [split|]; try assumption.
      intros m it H. specialize (C (N.of_nat m) it). rewrite Nat2N.id in C. rewrite (C H). apply Nat2N.id.
    - intros ((A & C) & B). split; [assumption|]. split; [assumption|].
      intros i it H. apply N2Nat.inj. now apply C.
  Qed.

  Lemma rehash_wf (sl : slots) k : wf_slots (rehash_slots sl k) k.
  Proof.
    split; [apply rehash_length|]. intros m it H. now apply rehash_sound in H.
  Qed.

  (* in a well-formed table an element sits in exactly one slot: its own *)
  Lemma wf_slots_In (sl : slots) k it : wf_slots sl k ->
    (In (Some it) sl <-> nth (idx it k) sl None = Some it).
  Proof.
    intros [_ Hw]. split.
    - intro H. apply In_slots_nth in H. destruct H as (m & H). pose proof (Hw m it H) as E. now rewrite E.
    - intro H. apply In_slots_nth. now exists (idx it k).
  Qed.

  (* growing never merges two slots *)
  Lemma grow_no_collide (sl : slots) k k' : wf_slots sl k -> (k <= k' <= 32)%nat -> no_collide sl k'.
  Proof.
    intros Hw Hk it1 it2 H1 H2 E.
    assert (E' : idx it1 k = idx it2 k).
    { apply idx_eq_iff. apply (hash_to_index_coarsen _ _ k k'); [lia|]. now apply idx_eq_iff. }
    apply (wf_slots_In sl k _ Hw) in H1. apply (wf_slots_In sl k _ Hw) in H2.
    rewrite E' in H1. rewrite H1 in H2. now inversion H2.
  Qed.

  (* [reducible]: no pair of slots (2m, 2m+1) is fully occupied *)
  Lemma reducible_spec : forall m (sl : slots), reducible sl = true ->
    nth (2 * m) sl None <> None -> nth (2 * m + 1) sl None <> None -> False.
  Proof.
    induction m as [|m IH]; intros sl Hr H0 H1.
    - destruct sl as [|a [|b r]]; cbn in H0, H1; try congruence.
      destruct a, b; cbn [reducible] in Hr; congruence.
    - destruct sl as [|a [|b r]].
      + destruct (2 * S m)%nat; cbn in H0; congruence.
      + replace (2 * S m)%nat with (S (S (2 * m))) in H0 by lia. cbn [nth] in H0.
        destruct (2 * m)%nat; cbn in H0; congruence.
      + replace (2 * S m)%nat with (S (S (2 * m))) in H0 by lia.
        replace (2 * S m + 1)%nat with (S (S (2 * m + 1))) in H1 by lia.
        cbn [nth] in H0, H1. apply (IH r); try assumption.
        destruct a, b; cbn [reducible] in Hr; try assumption. discriminate.
  Qed.

  (* halving a reducible table merges no two occupied slots *)
  Lemma shrink_no_collide (sl : slots) k : wf_slots sl k -> (1 <= k <= 32)%nat ->
    reducible sl = true -> no_collide sl (k - 1).
  Proof.
    intros Hw Hk Hr it1 it2 H1 H2 E.
    apply (wf_slots_In sl k _ Hw) in H1. apply (wf_slots_In sl k _ Hw) in H2.
    apply idx_eq_iff in E. rewrite !hash_to_index_half in E by lia.
    assert (Ia : idx it1 k = N.to_nat (hash_to_index (it_hash it1) k)) by (unfold idx; reflexivity).
    assert (Ib : idx it2 k = N.to_nat (hash_to_index (it_hash it2) k)) by (unfold idx; reflexivity).
    rewrite Ia in H1. rewrite Ib in H2. clear Ia Ib.
    revert E H1 H2.
    generalize (hash_to_index (it_hash it1) k) as a. generalize (hash_to_index (it_hash it2) k) as b.
    intros b a E H1 H2.
    pose proof (N.div_mod a 2 ltac:(lia)) as Da. pose proof (N.div_mod b 2 ltac:(lia)) as Db.
    pose proof (N.mod_lt a 2 ltac:(lia)) as La. pose proof (N.mod_lt b 2 ltac:(lia)) as Lb.
    destruct (N.eq_dec a b) as [Eab|Nab].
    - subst b. rewrite H1 in H2. now inversion H2.
    - exfalso. rewrite <- E in Db.
      set (q := a / 2) in *. set (ra := a mod 2) in *. set (rb := b mod 2) in *. clearbody q ra rb.
      set (m := N.to_nat q).
      assert (Hcase : (N.to_nat a = 2 * m /\ N.to_nat b = 2 * m + 1)%nat \/
                      (N.to_nat b = 2 * m /\ N.to_nat a = 2 * m + 1)%nat) by (unfold m; lia).
      destruct Hcase as [[Ea Eb]|[Eb Ea]]; rewrite Ea in H1; rewrite Eb in H2;
        apply (reducible_spec m sl Hr); congruence.
  Qed.
End Rehash.

Lemma grow_until_some : forall fuel k h1 h2 k', grow_until fuel k h1 h2 = Some k' ->
  (k < k' <= k + fuel)%nat /\ h1 mod pow2 k' <> h2 mod pow2 k'.
Proof.
  induction fuel as [|f IH]; intros k h1 h2 k' H; cbn [grow_until] in H; [discriminate|].
  destruct (h1 mod pow2 (S k) =? h2 mod pow2 (S k)) eqn:E.
  - apply IH in H. destruct H as [A B]. split; [lia | assumption].
  - inversion H; subst k'. apply N.eqb_neq in E. split; [lia | assumption].
Qed.

Lemma grow_until_none : forall fuel k h1 h2, grow_until fuel k h1 h2 = None ->
  forall k', (k < k' <= k + fuel)%nat -> h1 mod pow2 k' = h2 mod pow2 k'.
Proof.
  induction fuel as [|f IH]; intros k h1 h2 H k' Hk'; [lia|].
  cbn [grow_until] in H.
  destruct (h1 mod pow2 (S k) =? h2 mod pow2 (S k)) eqn:E; [|discriminate].
  apply N.eqb_eq in E. destruct (Nat.eq_dec k' (S k)) as [->|Hne]; [assumption|].
  apply (IH (S k)); [assumption | lia].
Qed.

Section DictOps.
  Context {V : Type}.
  Notation slots := (list (option (item V))).
  Variable hf : bytes -> N.      (* the hash function (SipHash in the Go code): arbitrary *)

  (* the elements of a table *)
  Definition stored (d : dict V) (it : item V) : Prop := In (Some it) (d_slots d).
  (* every element carries the hash of its key *)
  Definition keyed (d : dict V) : Prop := forall it, stored d it -> it_hash it = hf (it_key it).

  Lemma idx_mk h key (v : V) k : idx (mkItem h key v) k = N.to_nat (hash_to_index h k).
  Proof. unfold idx. cbn [it_hash]. reflexivity. Qed.

  Lemma idx_hash (it : item V) k : idx it k = N.to_nat (hash_to_index (it_hash it) k).
  Proof. unfold idx. reflexivity. Qed.

  Lemma slot_nth (d : dict V) i : slot d i = nth (N.to_nat i) (d_slots d) None.
  Proof. unfold slot. reflexivity. Qed.

  Lemma stored_slot (d : dict V) it : wf_dict d ->
    (stored d it <-> slot d (hash_to_index (it_hash it) (d_log d)) = Some it).
  Proof.
    intro Hwf. apply wf_dict_slots in Hwf. destruct Hwf as [Hw _].
    unfold stored. rewrite (wf_slots_In _ _ it Hw). rewrite slot_nth, idx_hash. reflexivity.
  Qed.

  Lemma get_stored (d : dict V) key v : wf_dict d -> keyed d ->
    (get d key (hf key) = Some v <-> stored d (mkItem (hf key) key v)).
  Proof.
    intros Hwf Hkd. split.
    - unfold get. intro H. destruct (slot d (hash_to_index (hf key) (d_log d))) as [it|] eqn:Es; [|discriminate].
      destruct (bytes_eqb (it_key it) key) eqn:Eb; [|discriminate].
      apply bytes_eqb_eq in Eb. inversion H; subst v.
      assert (Hst : stored d it).
      { unfold stored. apply In_slots_nth. exists (N.to_nat (hash_to_index (hf key) (d_log d))).
        now rewrite <- slot_nth. }
      pose proof (Hkd it Hst) as Hh. destruct it as [h0 k0 v0]. cbn [it_hash it_key it_val] in *. now subst.
    - intro H. apply (stored_slot d _ Hwf) in H. cbn [it_hash] in H.
      unfold get. rewrite H. cbn [it_key it_val]. now rewrite bytes_eqb_refl.
  Qed.

  (* no key is stored twice *)
  Lemma stored_key_unique (d : dict V) it1 it2 : wf_dict d -> keyed d ->
    stored d it1 -> stored d it2 -> it_key it1 = it_key it2 -> it1 = it2.
  Proof.
    intros Hwf Hkd H1 H2 E.
    pose proof (Hkd it1 H1) as A. pose proof (Hkd it2 H2) as B. rewrite E in A. rewrite <- B in A.
    apply (stored_slot d _ Hwf) in H1. apply (stored_slot d _ Hwf) in H2.
    rewrite A in H1. rewrite H1 in H2. now inversion H2.
  Qed.

  (* overwriting one slot of a well-formed slot list *)
  Lemma set_slot_elements (sl : slots) k n (x : option (item V)) :
    wf_slots sl k -> (n < length sl)%nat ->
    (forall it, x = Some it -> idx it k = n) ->
    wf_slots (set_nth sl n x) k /\
    forall it, In (Some it) (set_nth sl n x) <-> x = Some it \/ (In (Some it) sl /\ idx it k <> n).
  Proof.
    intros [Hlen Hw] Hn Hx. split; [split|].
    - now rewrite set_nth_length.
    - intros m it H. destruct (Nat.eq_dec m n) as [->|Hne].
      + rewrite nth_set_nth_eq in H by assumption. now apply Hx.
      + rewrite nth_set_nth_neq in H by assumption. now apply Hw.
    - intro it. rewrite In_slots_nth. split.
      + intros (m & H). destruct (Nat.eq_dec m n) as [->|Hne].
        * rewrite nth_set_nth_eq in H by assumption. now left.
        * rewrite nth_set_nth_neq in H by assumption. right. split.
          -- apply In_slots_nth. now exists m.
          -- rewrite (Hw m it H). assumption.
      + intros [H|[H Hne]].
        * exists n. now rewrite nth_set_nth_eq.
        * exists (idx it k). rewrite nth_set_nth_neq by assumption.
          apply (wf_slots_In sl k it); [split; assumption | assumption].
  Qed.

  Theorem wf_empty_dict : wf_dict (@empty_dict V) /\ keyed empty_dict /\ forall it, ~ stored empty_dict it.
  Proof.
    assert (Hno : forall it : item V, ~ stored empty_dict it).
    { intros it H. unfold stored, empty_dict in H. cbn [d_slots] in H.
      apply In_slots_nth in H. destruct H as (m & H). rewrite nth_repeatN in H. discriminate. }
    split; [|split; [|assumption]].
    - unfold wf_dict. split; [reflexivity|]. split; [cbn [empty_dict d_log]; lia|].
      intros i it H. exfalso. apply (Hno it). unfold stored. apply In_slots_nth.
      exists (N.to_nat i). now rewrite <- slot_nth.
    - intros it H. exfalso. now apply (Hno it).
  Qed.

  (* an element whose slot (at size k) is the slot of [key] has that key, if the slot is held by [key];
     and the other way round *)
  Lemma other_key_other_slot (d : dict V) key it' : wf_dict d -> keyed d -> stored d it' ->
    (forall it, slot d (hash_to_index (hf key) (d_log d)) = Some it -> it_key it = key) ->
    (slot d (hash_to_index (hf key) (d_log d)) <> None) ->
    (idx it' (d_log d) <> N.to_nat (hash_to_index (hf key) (d_log d)) <-> it_key it' <> key).
  Proof.
    intros Hwf Hkd Hst Hown Hocc. split.
    - intros Hne Ek. apply Hne. rewrite idx_hash. rewrite (Hkd it' Hst), Ek. reflexivity.
    - intros Hne Ei. apply Hne. rewrite idx_hash in Ei. apply N2Nat.inj in Ei.
      apply (stored_slot d _ Hwf) in Hst. rewrite Ei in Hst. now apply Hown.
  Qed.

  (** store: the new table is well formed and holds exactly the old elements with a different key
      plus the new (key, value). *)
  Theorem store_elements (d d' : dict V) key v : wf_dict d -> keyed d ->
    store d key (hf key) v = Ok d' ->
    wf_dict d' /\
    forall it, stored d' it <-> it = mkItem (hf key) key v \/ (stored d it /\ it_key it <> key).
  Proof.
    intros Hwf Hkd Hst. pose proof Hwf as Hwf0.
    apply wf_dict_slots in Hwf. destruct Hwf as [Hw Hk]. pose proof Hw as [Hlen Hw'].
    unfold store in Hst. cbv zeta in Hst.
    remember (hash_to_index (hf key) (d_log d)) as i eqn:Ei.
    assert (Hi : (N.to_nat i < length (d_slots d))%nat).
    { rewrite Hlen. pose proof (hash_to_index_lt (hf key) (d_log d) ltac:(lia)) as H. rewrite <- Ei in H. lia. }
    destruct (slot d i) as [it|] eqn:Es.
    - assert (Hsto : stored d it).
      { unfold stored. apply In_slots_nth. exists (N.to_nat i). now rewrite <- slot_nth. }
      destruct (bytes_eqb (it_key it) key) eqn:Eb.
      + (* same key: the value is replaced *)
        apply bytes_eqb_eq in Eb. injection Hst as Hd; subst d'.
        assert (Eh : it_hash it = hf key) by (rewrite (Hkd it Hsto), Eb; reflexivity).
        rewrite Eh.
        destruct (set_slot_elements (d_slots d) (d_log d) (N.to_nat i) (Some (mkItem (hf key) key v)) Hw Hi) as [W E].
        { intros it0 H0. injection H0 as <-. rewrite idx_mk, Ei. reflexivity. }
        split.
        * apply wf_dict_slots. cbn [d_slots d_log]. split; assumption.
        * assert (Hown : forall it0, slot d (hash_to_index (hf key) (d_log d)) = Some it0 -> it_key it0 = key).
          { intros it0 H0. rewrite <- Ei, Es in H0. injection H0 as <-. assumption. }
          assert (Hocc : slot d (hash_to_index (hf key) (d_log d)) <> None).
          { rewrite <- Ei, Es. discriminate. }
          intro it'. unfold stored at 1. cbn [d_slots]. rewrite E. split.
          -- intros [H|[H Hne]]; [left; congruence|]. right. split; [assumption|].
             apply (other_key_other_slot d key it' Hwf0 Hkd H Hown Hocc). now rewrite <- Ei.
          -- intros [H|[H Hne]]; [left; congruence|]. right. split; [assumption|].
             rewrite Ei. now apply (other_key_other_slot d key it' Hwf0 Hkd H Hown Hocc).
      + (* another key holds the slot: grow until the two part *)
        apply bytes_eqb_neq in Eb.
        destruct (grow_until (32 - d_log d) (d_log d) (it_hash it) (hf key)) as [k'|] eqn:Eg; [|discriminate].
        remember (rehash_slots (d_slots d) k') as R eqn:ER0.
        remember (N.to_nat (hash_to_index (hf key) k')) as n eqn:En0.
        injection Hst as Hd; subst d'.
        apply grow_until_some in Eg. destruct Eg as [Hk' Hdiff].
        assert (Hk'32 : (d_log d < k' <= 32)%nat) by lia.
        assert (WR : wf_slots R k') by (rewrite ER0; apply rehash_wf).
        assert (NC : no_collide (d_slots d) k') by (apply (grow_no_collide _ (d_log d) k' Hw); lia).
        assert (ER : forall it0, In (Some it0) R <-> In (Some it0) (d_slots d)).
        { intro it0. rewrite ER0. apply rehash_elements; [lia | assumption]. }
        assert (Hn : (n < length R)%nat).
        { rewrite ER0, rehash_length. pose proof (hash_to_index_lt (hf key) k' ltac:(lia)). lia. }
        destruct (set_slot_elements R k' n (Some (mkItem (hf key) key v)) WR Hn) as [W E].
        { intros it0 H0. injection H0 as <-. rewrite idx_mk, En0. reflexivity. }
        (* no old element lands in the slot of the new one, and no old element has the new key *)
        assert (Hfree : forall it0, stored d it0 -> idx it0 k' <> n).
        { intros it0 H0 En. rewrite En0, idx_hash in En. apply N2Nat.inj in En.
          pose proof (hash_to_index_coarsen _ _ (d_log d) k' ltac:(lia) En) as Ek. rewrite <- Ei in Ek.
          apply (stored_slot d _ Hwf0) in H0. rewrite Ek, Es in H0. injection H0 as <-.
          apply Hdiff. apply hash_to_index_mod; [lia | assumption]. }
        assert (Hkey : forall it0, stored d it0 -> it_key it0 <> key).
        { intros it0 H0 Ek. apply (Hfree it0 H0). rewrite idx_hash, (Hkd it0 H0), Ek, En0. reflexivity. }
        split.
        * apply wf_dict_slots. cbn [d_slots d_log]. split; [assumption | lia].
        * intro it'. unfold stored at 1. cbn [d_slots]. rewrite E. rewrite ER. split.
          -- intros [H|[H Hne]]; [left; congruence|]. right. split; [assumption | now apply Hkey].
          -- intros [H|[H Hne]]; [left; congruence|]. right. split; [assumption | now apply Hfree].
    - (* empty slot *)
      injection Hst as Hd; subst d'.
      destruct (set_slot_elements (d_slots d) (d_log d) (N.to_nat i) (Some (mkItem (hf key) key v)) Hw Hi) as [W E].
      { intros it0 H0. injection H0 as <-. rewrite idx_mk, Ei. reflexivity. }
      assert (Hfree : forall it0, stored d it0 -> idx it0 (d_log d) <> N.to_nat i).
      { intros it0 H0 En. rewrite idx_hash in En. apply N2Nat.inj in En.
        apply (stored_slot d _ Hwf0) in H0. rewrite En, Es in H0. discriminate. }
      assert (Hkey : forall it0, stored d it0 -> it_key it0 <> key).
      { intros it0 H0 Ek. apply (Hfree it0 H0). rewrite idx_hash, (Hkd it0 H0), Ek, Ei. reflexivity. }
      split.
      + apply wf_dict_slots. cbn [d_slots d_log]. split; assumption.
      + intro it'. unfold stored at 1. cbn [d_slots]. rewrite E. split.
        * intros [H|[H Hne]]; [left; congruence|]. right. split; [assumption | now apply Hkey].
        * intros [H|[H Hne]]; [left; congruence|]. right. split; [assumption | now apply Hfree].
  Qed.

  (* consequences of an "elements" characterisation for [get] *)
  Lemma keyed_of_elements (d d' : dict V) (P : item V -> Prop) :
    keyed d -> (forall it, P it -> it_hash it = hf (it_key it)) ->
    (forall it, stored d' it -> P it \/ stored d it) -> keyed d'.
  Proof. intros Hkd HP H it Hs. destruct (H it Hs) as [A|A]; [now apply HP | now apply Hkd]. Qed.

  Theorem store_ok (d d' : dict V) key v : wf_dict d -> keyed d ->
    store d key (hf key) v = Ok d' ->
    wf_dict d' /\ keyed d' /\
    get d' key (hf key) = Some v /\
    (forall k2, k2 <> key -> get d' k2 (hf k2) = get d k2 (hf k2)).
  Proof.
    intros Hwf Hkd Hst. destruct (store_elements d d' key v Hwf Hkd Hst) as [Hwf' E].
    assert (Hkd' : keyed d').
    { apply (keyed_of_elements d d' (fun it => it = mkItem (hf key) key v) Hkd).
      - intros it ->. reflexivity.
      - intros it H. apply E in H. tauto. }
    split; [assumption|]. split; [assumption|]. split.
    - apply (get_stored d' key v Hwf' Hkd'). apply E. now left.
    - intros k2 Hne. apply option_eq_of_iff. intro v2.
      rewrite (get_stored d' k2 v2 Hwf' Hkd'), (get_stored d k2 v2 Hwf Hkd), E. cbn [it_key]. split.
      + intros [H|[H _]]; [|assumption]. exfalso. apply Hne. now injection H.
      + intro H. right. split; assumption.
  Qed.

  (** [store] fails to terminate (Diverge) exactly when the slot is held by a different key whose
      hash agrees with the new one on the low 32 bits. *)
  Theorem store_diverge_iff (d : dict V) key h v : wf_dict d ->
    (store d key h v = Diverge <->
     exists it, slot d (hash_to_index h (d_log d)) = Some it /\ it_key it <> key /\
                it_hash it mod 4294967296 = h mod 4294967296).
  Proof.
    intros (Hlen & Hk & Hidx). unfold store. cbv zeta.
    remember (hash_to_index h (d_log d)) as i eqn:Ei.
    assert (P32 : pow2 32 = 4294967296) by reflexivity.
    destruct (slot d i) as [it|] eqn:Es.
    - destruct (bytes_eqb (it_key it) key) eqn:Eb.
      + split; [discriminate|]. intros (it0 & H0 & Hne & _). injection H0 as <-.
        apply bytes_eqb_eq in Eb. contradiction.
      + apply bytes_eqb_neq in Eb.
        destruct (grow_until (32 - d_log d) (d_log d) (it_hash it) h) as [k'|] eqn:Eg.
        * split; [discriminate|]. intros (it0 & H0 & _ & Hm). injection H0 as <-.
          apply grow_until_some in Eg. destruct Eg as [Hk' Hdiff]. exfalso. apply Hdiff.
          apply (mod_pow2_coarsen _ _ k' 32); [lia|]. now rewrite P32.
        * split; [|reflexivity]. intros _. exists it. split; [reflexivity|]. split; [assumption|].
          rewrite <- P32. destruct (Nat.eq_dec (d_log d) 32) as [E32|N32].
          -- apply hash_to_index_mod; [lia|]. rewrite <- E32, <- Ei. now apply Hidx.
          -- apply (grow_until_none _ _ _ _ Eg). lia.
    - split; [discriminate|]. intros (it0 & H0 & _). discriminate.
  Qed.

  (** remove: well-formedness is kept (also across the halving), exactly the elements with the
      removed key disappear. *)
  Theorem remove_elements (d d' : dict V) key b : wf_dict d -> keyed d ->
    remove d key (hf key) = (d', b) ->
    wf_dict d' /\
    (forall it, stored d' it <-> stored d it /\ it_key it <> key) /\
    (b = true <-> exists v, get d key (hf key) = Some v).
  Proof.
    intros Hwf Hkd Hrm. pose proof Hwf as Hwf0.
    apply wf_dict_slots in Hwf. destruct Hwf as [Hw Hk]. pose proof Hw as [Hlen Hw'].
    unfold remove in Hrm. cbv zeta in Hrm. unfold get.
    remember (hash_to_index (hf key) (d_log d)) as i eqn:Ei.
    assert (Hi : (N.to_nat i < length (d_slots d))%nat).
    { rewrite Hlen. pose proof (hash_to_index_lt (hf key) (d_log d) ltac:(lia)) as H. rewrite <- Ei in H. lia. }
    (* the case where nothing is removed *)
    assert (Hnone : (forall it, slot d i = Some it -> it_key it <> key) ->
              forall it0, stored d it0 -> it_key it0 <> key).
    { intros Hno it0 H0 Ek. pose proof (Hkd it0 H0) as Hh. rewrite Ek in Hh.
      apply (stored_slot d _ Hwf0) in H0. rewrite Hh, <- Ei in H0. now apply (Hno it0). }
    destruct (slot d i) as [it|] eqn:Es.
    - assert (Hsto : stored d it).
      { unfold stored. apply In_slots_nth. exists (N.to_nat i). now rewrite <- slot_nth. }
      destruct (bytes_eqb (it_key it) key) eqn:Eb.
      + apply bytes_eqb_eq in Eb.
        destruct (set_slot_elements (d_slots d) (d_log d) (N.to_nat i) None Hw Hi) as [W E].
        { intros it0 H0. discriminate. }
        remember (set_nth (d_slots d) (N.to_nat i) None) as sl' eqn:Esl.
        assert (Hown : forall it0, slot d (hash_to_index (hf key) (d_log d)) = Some it0 -> it_key it0 = key).
        { intros it0 H0. rewrite <- Ei, Es in H0. injection H0 as <-. assumption. }
        assert (Hocc : slot d (hash_to_index (hf key) (d_log d)) <> None).
        { rewrite <- Ei, Es. discriminate. }
        assert (E' : forall it0, In (Some it0) sl' <-> stored d it0 /\ it_key it0 <> key).
        { intro it0. rewrite E. split.
          - intros [H|[H Hne]]; [discriminate|]. split; [assumption|].
            apply (other_key_other_slot d key it0 Hwf0 Hkd H Hown Hocc). now rewrite <- Ei.
          - intros [H Hne]. right. split; [assumption|].
            rewrite Ei. now apply (other_key_other_slot d key it0 Hwf0 Hkd H Hown Hocc). }
        assert (Hb : true = true <-> exists v, Some (it_val it) = Some v).
        { split; [intros _; now exists (it_val it) | reflexivity]. }
        destruct (pow2 (d_log d) / 2 <? d_removals d + 1).
        * destruct (Nat.ltb 4 (d_log d)) eqn:E4.
          -- destruct (reducible sl') eqn:Er; cbn [andb] in Hrm.
             ++ (* the table is halved *)
                apply Nat.ltb_lt in E4.
                injection Hrm as Hd Hbb; subst d' b.
                assert (NC : no_collide sl' (d_log d - 1)) by (apply shrink_no_collide; [assumption | lia | assumption]).
                split; [|split; [|assumption]].
                ** apply wf_dict_slots. cbn [d_slots d_log]. split; [apply rehash_wf | lia].
                ** intro it0. unfold stored at 1. cbn [d_slots].
                   rewrite rehash_elements by (try assumption; lia). apply E'.
             ++ injection Hrm as Hd Hbb; subst d' b. split; [|split; [|assumption]].
                ** apply wf_dict_slots. cbn [d_slots d_log]. split; assumption.
                ** intro it0. unfold stored at 1. cbn [d_slots]. apply E'.
          -- cbn [andb] in Hrm. injection Hrm as Hd Hbb; subst d' b. split; [|split; [|assumption]].
             ** apply wf_dict_slots. cbn [d_slots d_log]. split; assumption.
             ** intro it0. unfold stored at 1. cbn [d_slots]. apply E'.
        * injection Hrm as Hd Hbb; subst d' b. split; [|split; [|assumption]].
          ** apply wf_dict_slots. cbn [d_slots d_log]. split; assumption.
          ** intro it0. unfold stored at 1. cbn [d_slots]. apply E'.
      + apply bytes_eqb_neq in Eb. injection Hrm as Hd Hbb; subst d' b.
        split; [assumption|]. split.
        * intro it0. split; [|tauto]. intro H. split; [assumption|]. apply Hnone; [|assumption].
          intros it1 H1. injection H1 as <-. assumption.
        * split; [discriminate | intros (v & Hv); discriminate].
    - injection Hrm as Hd Hbb; subst d' b. split; [assumption|]. split.
      + intro it0. split; [|tauto]. intro H. split; [assumption|]. apply Hnone; [|assumption].
        intros it1 H1. discriminate.
      + split; [discriminate | intros (v & Hv); discriminate].
  Qed.

  Theorem remove_ok (d d' : dict V) key b : wf_dict d -> keyed d ->
    remove d key (hf key) = (d', b) ->
    wf_dict d' /\ keyed d' /\
    get d' key (hf key) = None /\
    (forall k2, k2 <> key -> get d' k2 (hf k2) = get d k2 (hf k2)) /\
    (b = true <-> exists v, get d key (hf key) = Some v).
  Proof.
    intros Hwf Hkd Hrm. destruct (remove_elements d d' key b Hwf Hkd Hrm) as (Hwf' & E & Hb).
    assert (Hkd' : keyed d').
    { intros it H. apply E in H. apply Hkd. tauto. }
    split; [assumption|]. split; [assumption|]. split; [|split; [|assumption]].
    - destruct (get d' key (hf key)) as [v|] eqn:G; [|reflexivity].
      apply (get_stored d' key v Hwf' Hkd') in G. apply E in G. cbn [it_key] in G. tauto.
    - intros k2 Hne. apply option_eq_of_iff. intro v2.
      rewrite (get_stored d' k2 v2 Hwf' Hkd'), (get_stored d k2 v2 Hwf Hkd), E. cbn [it_key]. tauto.
  Qed.

  (** Every table produced from the empty one by stores and removes is well formed and keyed;
      so the SCAN theorems apply to any history of the dictionary. *)
  Inductive reachable : dict V -> Prop :=
  | reach_empty : reachable empty_dict
  | reach_store d d' key v : reachable d -> store d key (hf key) v = Ok d' -> reachable d'
  | reach_remove d key : reachable d -> reachable (fst (remove d key (hf key))).

  Theorem reachable_wf d : reachable d -> wf_dict d /\ keyed d.
  Proof.
    induction 1 as [|d d' key v Hr [IH1 IH2] Hst|d key Hr [IH1 IH2]].
    - destruct wf_empty_dict as (A & B & _). now split.
    - destruct (store_ok d d' key v IH1 IH2 Hst) as (A & B & _). now split.
    - destruct (remove d key (hf key)) as [d' b] eqn:E. cbn [fst].
      destruct (remove_ok d d' key b IH1 IH2 E) as (A & B & _). now split.
  Qed.

  (* for reachable tables, "present" in the sense of C17_complete is what [get] observes *)
  Lemma present_get (d : dict V) keep n key v : wf_dict d -> keyed d ->
    get d key (hf key) = Some v -> keep (mkItem (hf key) key v) = true ->
    present key (hf key) (d, keep, n).
  Proof.
    intros Hwf Hkd G Hkp. unfold present. exists v. split; [|assumption].
    apply (get_stored d key v Hwf Hkd) in G. apply (stored_slot d _ Hwf) in G. exact G.
  Qed.

  (** Capstone: SCAN over any history of the dictionary.  Each call sees a table reachable by
      stores/removes (arbitrarily many between two calls); a key that [get] finds in every one of
      these tables (whatever its value at the time) and that passes every filter is reported. *)
  Theorem C17_complete_reachable : forall (calls : list (@call V)) outs key,
    calls <> [] ->
    Forall (fun cl : call => reachable (fst (fst cl)) /\ (1 <= snd cl)%nat) calls ->
    run calls 0 = (0, outs) ->
    Forall (fun cl : call => exists v, get (fst (fst cl)) key (hf key) = Some v /\
                                      snd (fst cl) (mkItem (hf key) key v) = true) calls ->
    exists out v, In out outs /\ In (mkItem (hf key) key v) out.
  Proof.
    intros calls outs key Hne Hok Hrun Hpres.
    apply (C17_complete calls outs Hne); [| assumption |].
    - apply Forall_forall. intros [[d keep] n] Hin.
      rewrite Forall_forall in Hok. destruct (Hok _ Hin) as [Hr Hn]. cbn [fst snd] in *.
      split; [apply (reachable_wf d Hr) | assumption].
    - apply Forall_forall. intros [[d keep] n] Hin.
      rewrite Forall_forall in Hok, Hpres. destruct (Hok _ Hin) as [Hr _].
      destruct (Hpres _ Hin) as (v & G & Hkp). cbn [fst snd] in *.
      destruct (reachable_wf d Hr) as [A B]. now apply (present_get d keep n key v A B).
  Qed.
End DictOps.

Print Assumptions wf_empty_dict.
Print Assumptions store_elements.
Print Assumptions store_ok.
Print Assumptions store_diverge_iff.
Print Assumptions remove_elements.
Print Assumptions remove_ok.
Print Assumptions reachable_wf.
Print Assumptions C17_complete_reachable.

(* ================================================================== *)
(** * Examples                                                          *)
(* ================================================================== *)
Module Examples.
  Definition okd {V} (o : outcome (dict V)) : dict V := match o with Ok d => d | Diverge => empty_dict end.
  Definition st (d : dict nat) (k : N) (h : N) (v : nat) := okd (store d [k] h v).
  Definition all : item nat -> bool := fun _ => true.
  Definition keys (l : list (item nat)) := map (fun it => it_key it) l.

  (* a toy hash function for the keys used below *)
  Definition hfE (k : bytes) : N :=
    match k with
    | [1] => 1 | [2] => 2 | [3] => 3 | [4] => 12 | [5] => 17 | [9] => 4294967297 | _ => 0
    end.

  (* 16 slots: keys 1,2,3,4 with hashes 1,2,3,12 *)
  Definition d1 := st empty_dict 1 1 10.
  Definition d2 := st d1 2 2 20.
  Definition d3 := st d2 3 3 30.
  Definition dA := st d3 4 12 40.
  (* key 5 with hash 17 collides with key 1 in 16 slots: the table doubles to 32 slots *)
  Definition dB := st dA 5 17 50.

  Example ex_sizes : (d_log dA, d_log dB) = (4%nat, 5%nat).
  Proof. vm_compute. reflexivity. Qed.

  Lemma reach_dA : reachable hfE dA.
  Proof.
    apply (reach_store hfE d3 dA [4] 40%nat); [|vm_compute; reflexivity].
    apply (reach_store hfE d2 d3 [3] 30%nat); [|vm_compute; reflexivity].
    apply (reach_store hfE d1 d2 [2] 20%nat); [|vm_compute; reflexivity].
    apply (reach_store hfE empty_dict d1 [1] 10%nat); [|vm_compute; reflexivity].
    apply reach_empty.
  Qed.
  Lemma reach_dB : reachable hfE dB.
  Proof. apply (reach_store hfE dA dB [5] 50%nat); [apply reach_dA | vm_compute; reflexivity]. Qed.

  (* the hypotheses of the main theorems hold for these tables *)
  Example ex_wf : wf_dict dA /\ wf_dict dB.
  Proof. split; [apply (reachable_wf hfE dA reach_dA) | apply (reachable_wf hfE dB reach_dB)]. Qed.

  (* single calls *)
  Example ex_call_1 : let (c, out) := scan_call dA all 0 2 in (c, keys out) = (1, [[4]; [2]]).
  Proof. vm_compute. reflexivity. Qed.
  Example ex_call_2 : let (c, out) := scan_call dB all 1 100 in (c, keys out) = (0, [[1]; [5]; [3]]).
  Proof. vm_compute. reflexivity. Qed.

  (* an iteration across a doubling: first call on the 16-slot table, second on the 32-slot table *)
  Example ex_run_grow :
    let (c, outs) := run [(dA, all, 2%nat); (dB, all, 100%nat)] 0 in
    (c, map keys outs) = (0, [[[4]; [2]]; [[1]; [5]; [3]]]).
  Proof. vm_compute. reflexivity. Qed.

  (* C17_complete applied to that iteration: key 1 (hash 1), present throughout, is reported *)
  Example ex_complete_instance :
    exists out v, In out (snd (run [(dA, all, 2%nat); (dB, all, 100%nat)] 0)) /\ In (mkItem 1 [1] v) out.
  Proof.
    destruct ex_wf as [WA WB].
    apply (C17_complete [(dA, all, 2%nat); (dB, all, 100%nat)]).
    - discriminate.
    - constructor; [split; [exact WA | lia] | constructor; [split; [exact WB | lia] | constructor]].
    - vm_compute. reflexivity.
    - constructor; [exists 10%nat; split; vm_compute; reflexivity |].
      constructor; [exists 10%nat; split; vm_compute; reflexivity | constructor].
  Qed.

  (* an iteration across a halving: the cursor handed out by the 32-slot table (17, an odd slot)
     is rounded down in the 16-slot table: key 1 is reported twice, nothing is skipped *)
  Example ex_run_shrink :
    let (c, outs) := run [(dB, all, 3%nat); (dA, all, 100%nat)] 0 in
    (c, map keys outs) = (0, [[[4]; [2]; [1]]; [[1]; [3]]]).
  Proof. vm_compute. reflexivity. Qed.

  (* COUNT 1 on the fixed 32-slot table with 5 keys: cursors 2, 1, 17, 3, then 0 after 5 <= 5+1 calls *)
  Example ex_iterate : map (fun n => iterate dB all 1 n 0) [1; 2; 3; 4; 5]%nat = [2; 1; 17; 3; 0].
  Proof. vm_compute. reflexivity. Qed.
  Example ex_occupied : occupied dB = 5%nat.
  Proof. vm_compute. reflexivity. Qed.

  (* a filter does not consume COUNT for rejected items: the walk goes on to the first match *)
  Example ex_filter : let (c, out) := scan_call dB (fun it => it_hash it <? 3) 0 1 in (c, keys out) = (1, [[2]]).
  Proof. vm_compute. reflexivity. Qed.

  (* COUNT >= number of slots: everything in one call (C17_single_call) *)
  Example ex_single : let (c, out) := scan_call dB all 0 32 in (c, keys out) = (0, [[4]; [2]; [1]; [5]; [3]]).
  Proof. vm_compute. reflexivity. Qed.

  (* store / get / remove *)
  Example ex_get : (get dB [5] 17, get dB [1] 1, get dB [7] 7) = (Some 50%nat, Some 10%nat, None).
  Proof. vm_compute. reflexivity. Qed.

  (* key 9 has hash 2^32 + 1, equal to the hash of key 1 on the low 32 bits: the Go loop never ends *)
  Example ex_diverge : store dA [9] (hfE [9]) 90%nat = Diverge.
  Proof. vm_compute. reflexivity. Qed.

  (* a remove that triggers the halving (17th removal in a 32-slot table): 32 -> 16 slots, nothing lost *)
  Definition dB16 : dict nat := mkDict 5 (d_slots dB) 5 16.
  Example ex_remove_shrink :
    let (d', b) := remove dB16 [5] 17 in
    (b, d_log d', get d' [5] 17, get d' [1] 1, get d' [2] 2, get d' [3] 3, get d' [4] 12)
    = (true, 4%nat, None, Some 10%nat, Some 20%nat, Some 30%nat, Some 40%nat).
  Proof. vm_compute. reflexivity. Qed.
End Examples.
