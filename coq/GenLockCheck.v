(* GenLockCheck.v — obligations over the fact table regenerated from the Go source
   (LockFacts.v, written by `harness factgen` on every run).

   The linearizability argument of Atomic.v/PropC08.v rests on "every command runs in one lock
   section". That is a fact about the Go text; this file re-checks it on every run:
   - every method of dataStoreCommand that touches the store takes the database lock for its
     whole body (dsc.lock() followed by a deferred unlock, nothing touching the store before it),
     unless its name says the caller holds the lock (suffix Unlocked) or it is one of the audited
     exceptions below;
   - every command handler calls at most one locking store method, apart from the audited ones.
   The obligations are direction-aware: adding a lock keeps them true, removing one breaks them. *)
From Coq Require Import String List Bool Arith.
From RE Require Import LockFacts.
Import ListNotations.
Open Scope string_scope.

(* audited exceptions, with the reason *)
Definition lock_primitives : list string :=
  ["lock"; "unlock"; "unlockAndUnblock"; "acquireExclusive"; "releaseExclusive";  (* the lock operations themselves *)
   "setDirty"].                                                                    (* called under the lock by its callers *)
Definition called_under_lock : list string :=
  (* passed as method values to setOperation / setOperationStore / setOperationCount, which hold the lock *)
  ["diffWorker"; "intersectWorker"; "unionWorker"; "intersectWithLimitWorker"].
Definition locks_in_both_branches : list string :=
  (* if same database: lock; else: global lock, then both database locks — every path locks before touching *)
  ["copy"; "move"].

Definition mem (s : string) (l : list string) : bool := existsb (String.eqb s) l.

Definition method_ok (m : string * bool * bool * bool) : bool :=
  let '(name, locks, touches, unlocked) := m in
  implb (touches && negb unlocked && negb (mem name lock_primitives) && negb (mem name called_under_lock)
         && negb (mem name locks_in_both_branches))
        locks.

(* handlers whose several calls are in exclusive branches *)
Definition exclusive_branches : list string := ["fnBitOp"].
Definition handler_ok (h : string * nat) : bool :=
  Nat.leb (snd h) 1 || mem (fst h) exclusive_branches.

Theorem C08_every_store_method_locks : forallb method_ok store_methods = true.
Proof. vm_compute. reflexivity. Qed.

Theorem C08_every_handler_one_section : forallb handler_ok handler_sections = true.
Proof. vm_compute. reflexivity. Qed.

(* a store method is ONE lock section: it acquires the lock once and calls no other locking method
   (two consecutive sections are two steps: another client's command can run in between).
   copy/move acquire in two exclusive branches. *)
Definition method_one_section (m : string * nat) : bool :=
  Nat.leb (snd m) 1 || (mem (fst m) locks_in_both_branches && Nat.leb (snd m) 2).

Theorem C08_every_method_one_section : forallb method_one_section method_sections = true.
Proof. vm_compute. reflexivity. Qed.

(* the exceptions are real methods: a renamed or removed method re-opens the audit *)
Theorem C08_exceptions_exist :
  forallb (fun n => existsb (fun m => String.eqb n (fst (fst (fst m)))) store_methods)
          (lock_primitives ++ called_under_lock ++ locks_in_both_branches) = true.
Proof. vm_compute. reflexivity. Qed.

(* non-vacuity: the table is not empty and most methods do lock *)
Example C08_table_nonempty : Nat.leb 60 (length (filter (fun m => snd (fst (fst m))) store_methods)) = true.
Proof. vm_compute. reflexivity. Qed.
