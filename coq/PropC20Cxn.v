(* PropC20Cxn.v — properties of the connection event loop model Cxn.v (clientCxn.go).

   All theorems are about `reachable c := exists ls, crun c0 ls = Some c`, proved through one
   inductive invariant `Inv` preserved by every `cstep`.  The heart of the invariant is a TOKEN
   count: the connection owns at most one "command token", which is either a queued
   csInitialize/csWaitForCommand/csDispatchCommand event, or the loop goroutine being inside the
   handler of such an event, or the dispatcher goroutine of the current command.  csTerminate
   events come only from the single first RequestClose and from a failed read, and the failed read
   gives up the token.

   Main statements (all for every reachable state, no bound on the run):
     T1 C20_cxn_queue_bound, C20_cxn_term_events_bound, C20_cxn_nonterm_events_bound, ..._sharp
     T2 C20_cxn_one_command_at_a_time, C20_cxn_dispatcher_excludes_handler / _events,
        C20_cxn_handler_excludes_events, C20_cxn_take_never_refused
     T3 C20_cxn_no_orphan_read, C20_cxn_waiting_iff_reading, C20_cxn_done_socket_closed
     T4 C20_cxn_terminate_not_lost
     T5 C20_cxn_closing_forever, C20_cxn_one_close_request, C20_cxn_sockclosed_forever,
        C20_cxn_done_absorbing, C20_cxn_done_forever
     T6 C20_cxn_close_progress_partial (+ C20_cxn_close_before_new for the excluded state),
        C20_cxn_dispatcher_keeps_loop_enabled, C20_cxn_close_quiescent, C20_cxn_loop_measure,
        C20_cxn_measure_bound, C20_cxn_close_terminates (bound 8, tight),
        C20_cxn_close_terminates_all (all goroutines, 9 + 6 per LWaitGo)
     extra: C20_cxn_progress_without_close, C20_cxn_stranded_only_close and the example
        C20_cxn_write_error_strands_loop (a finding about the code: after a failed reply write
        run() never returns and the client is never unregistered unless a close is requested)
     T7 examples C20_cxn_ex_*. *)
From Coq Require Import List Bool Arith Lia.
From RE Require Import Cxn.
Import ListNotations.

Definition reachable (c : cst) : Prop := exists ls, crun c0 ls = Some c.

(* ------------------------------------------------------------------------------------------ *)
(* Counting                                                                                    *)
(* ------------------------------------------------------------------------------------------ *)

Definition is_term (e : ev) : bool := match e with ETerm => true | _ => false end.

(* number of csTerminate events / of the other events (the token events) in a bag *)
Fixpoint nterm (b : list ev) : nat :=
  match b with [] => 0 | e :: r => (if is_term e then 1 else 0) + nterm r end.
Fixpoint ntok (b : list ev) : nat :=
  match b with [] => 0 | e :: r => (if is_term e then 0 else 1) + ntok r end.

Definition pc_tok (p : pcT) : nat :=
  match p with PInit | PWait0 | PWait1 | PReading | PRead _ => 1 | _ => 0 end.
Definition disp_tok (d : dT) : nat := match d with DNone => 0 | _ => 1 end.
Definition new_tok (p : pcT) : nat := match p with PNew => 1 | _ => 0 end.
Definition b2n (b : bool) : nat := if b then 1 else 0.
Definition readingb (p : pcT) : bool := match p with PReading => true | _ => false end.
Definition endedb (p : pcT) : bool := match p with PTerm | PDone => true | _ => false end.

(* the token count of the task statement *)
Definition token_count (c : cst) : nat := ntok (bag c) + pc_tok (pc c) + disp_tok (disp c).

Lemma length_split : forall b, length b = ntok b + nterm b.
Proof. induction b as [|e r IH]; cbn; [reflexivity|]. destruct e; cbn; lia. Qed.

Lemma nterm_pos_In : forall b, 1 <= nterm b <-> In ETerm b.
Proof.
  induction b as [|e r IH]; cbn.
  - split; [lia | tauto].
  - destruct e; cbn; split; intros H.
    + right; apply IH; lia.
    + destruct H as [H|H]; [discriminate | apply IH; exact H].
    + right; apply IH; lia.
    + destruct H as [H|H]; [discriminate | apply IH; exact H].
    + right; apply IH; lia.
    + destruct H as [H|H]; [discriminate | apply IH; exact H].
    + left; reflexivity.
    + lia.
Qed.

Lemma ntok_zero_notin : forall b e, ntok b = 0 -> In e b -> e = ETerm.
Proof.
  induction b as [|x r IH]; cbn; intros e H0 Hin; [tauto|].
  destruct Hin as [Hx|Hr].
  - subst x. destruct e; cbn in H0; try lia. reflexivity.
  - apply IH; [lia | exact Hr].
Qed.

Lemma take_counts : forall e b b', take e b = Some b' ->
  ntok b = (if is_term e then 0 else 1) + ntok b' /\
  nterm b = (if is_term e then 1 else 0) + nterm b'.
Proof.
  intros e; induction b as [|x r IH]; cbn; intros b' H; [discriminate|].
  destruct (ev_eqb e x) eqn:Hex.
  - inversion H; subst b'. destruct e, x; cbn in *; try discriminate; lia.
  - destruct (take e r) as [r'|] eqn:Ht; cbn in H; [|discriminate].
    inversion H; subst b'. destruct (IH r' eq_refl) as [A B]. cbn. lia.
Qed.

Lemma take_In : forall e b, In e b -> exists b', take e b = Some b'.
Proof.
  intros e; induction b as [|x r IH]; cbn; intros H; [tauto|].
  destruct (ev_eqb e x) eqn:Hex; [eexists; reflexivity|].
  destruct H as [H|H].
  - subst x. destruct e; discriminate.
  - destruct (IH H) as [r' Hr]. rewrite Hr. eexists; reflexivity.
Qed.

(* ------------------------------------------------------------------------------------------ *)
(* The invariant                                                                               *)
(* ------------------------------------------------------------------------------------------ *)

(* the token count extended by the token "not yet created" of the state PNew *)
Definition tokx (c : cst) : nat := token_count c + new_tok (pc c).

Definition doneb (p : pcT) : bool := match p with PDone => true | _ => false end.

(* stated arithmetically so that `lia` can use every field; the readable forms are the theorems *)
Record Inv (c : cst) : Prop := mkInv {
  inv_tok   : tokx c <= 1;
  inv_term  : nterm (bag c) + tokx c <= 1 + b2n (closing c);
  inv_wait  : waiting c = readingb (pc c);
  (* reading and closing -> socket closed *)
  inv_sock  : b2n (readingb (pc c)) + b2n (closing c) <= 1 + b2n (sockclosed c);
  (* closing -> a csTerminate is queued, or is being handled, or was handled *)
  inv_close : b2n (closing c) <= nterm (bag c) + b2n (endedb (pc c));
  inv_done  : b2n (doneb (pc c)) <= b2n (sockclosed c);
  (* the token disappears only by a close request, a failed read (which queues csTerminate) or a
     failed write (which closes the socket) *)
  inv_live  : 1 <= tokx c + b2n (closing c) + nterm (bag c) + b2n (endedb (pc c)) + b2n (sockclosed c)
}.

Lemma Inv_c0 : Inv c0.
Proof. split; cbn; try lia; reflexivity. Qed.

Ltac inv_fin Hs :=
  inversion Hs; subst; clear Hs;
  split; unfold tokx, token_count in *; cbn in *; try reflexivity; try congruence; lia.

Lemma Inv_step : forall c l c', Inv c -> cstep c l = Some c' -> Inv c'.
Proof.
  intros [b p cl w sc d] l c' [I1 I2 I3 I4 I5 I6 I7] Hs.
  unfold tokx, token_count in *; cbn in *.
  destruct l as [ |e|e| | | | |ok|ok| |rw| ]; cbn in Hs.
  - (* LNew *)
    destruct p; try discriminate; destruct cl, sc; inv_fin Hs.
  - (* LTake *)
    destruct p; try discriminate.
    destruct (take e b) as [b'|] eqn:Ht; [|discriminate].
    destruct (take_counts _ _ _ Ht) as [T1 T2].
    destruct e; cbn in T1, T2; destruct d; try discriminate; destruct cl, sc; inv_fin Hs.
  - (* LQLoop *)
    destruct p as [ | | | | | |ok| | ]; try discriminate; try destruct ok; destruct e; try discriminate;
      destruct cl, sc; inv_fin Hs.
  - (* LWaitGo *)
    destruct p; try discriminate; destruct cl, sc; inv_fin Hs.
  - (* LWaitSkip *)
    destruct p; try discriminate; destruct cl; try discriminate; destruct sc; inv_fin Hs.
  - (* LClosingSeen *)
    destruct p; try discriminate; destruct cl; try discriminate; destruct sc; inv_fin Hs.
  - (* LSetWaiting *)
    destruct p; try discriminate; destruct cl; try discriminate; destruct sc; inv_fin Hs.
  - (* LReadEnd *)
    destruct p; try discriminate; destruct cl, sc; inv_fin Hs.
  - (* LDispDone *)
    destruct d; try discriminate; destruct ok, p, cl, sc; inv_fin Hs.
  - (* LQDisp *)
    destruct d; try discriminate; destruct p, cl, sc; inv_fin Hs.
  - (* LReqClose *)
    destruct cl; try discriminate.
    destruct rw, w; cbn in Hs; try discriminate; destruct p, sc; try discriminate; inv_fin Hs.
  - (* LTerminated *)
    destruct p; try discriminate; destruct cl, sc; inv_fin Hs.
Qed.

Lemma crun_app : forall ls1 ls2 c, crun c (ls1 ++ ls2) =
  match crun c ls1 with Some c' => crun c' ls2 | None => None end.
Proof.
  induction ls1 as [|l r IH]; intros ls2 c; cbn; [reflexivity|].
  destruct (cstep c l) as [c1|]; [apply IH | reflexivity].
Qed.

Lemma Inv_run : forall ls c c', Inv c -> crun c ls = Some c' -> Inv c'.
Proof.
  induction ls as [|l r IH]; cbn; intros c c' Hi Hr.
  - inversion Hr; subst; exact Hi.
  - destruct (cstep c l) as [c1|] eqn:Hs; [|discriminate].
    eapply IH; [eapply Inv_step; eassumption | exact Hr].
Qed.

Lemma reachable_Inv : forall c, reachable c -> Inv c.
Proof. intros c [ls H]. eapply Inv_run; [apply Inv_c0 | exact H]. Qed.

Lemma reachable_c0 : reachable c0.
Proof. exists []; reflexivity. Qed.

Lemma reachable_step : forall c l c', reachable c -> cstep c l = Some c' -> reachable c'.
Proof.
  intros c l c' [ls H] Hs. exists (ls ++ [l]). rewrite crun_app, H. cbn. rewrite Hs. reflexivity.
Qed.

Lemma reachable_run : forall ls c c', reachable c -> crun c ls = Some c' -> reachable c'.
Proof.
  induction ls as [|l r IH]; cbn; intros c c' Hc Hr.
  - inversion Hr; subst; exact Hc.
  - destruct (cstep c l) as [c1|] eqn:Hs; [|discriminate].
    eapply IH; [eapply reachable_step; eassumption | exact Hr].
Qed.

(* ------------------------------------------------------------------------------------------ *)
(* T2  one command at a time                                                                   *)
(* ------------------------------------------------------------------------------------------ *)

Theorem C20_cxn_one_command_at_a_time : forall c, reachable c -> token_count c <= 1.
Proof. intros c H. pose proof (inv_tok c (reachable_Inv c H)) as T. unfold tokx in T. lia. Qed.
Print Assumptions C20_cxn_one_command_at_a_time.

(* while a dispatcher goroutine exists, the loop is not inside a command handler ... *)
Corollary C20_cxn_dispatcher_excludes_handler : forall c, reachable c -> disp c <> DNone ->
  pc c = PIdle \/ pc c = PTerm \/ pc c = PDone.
Proof.
  intros c H Hd. pose proof (inv_tok c (reachable_Inv c H)) as T.
  unfold tokx, token_count in T. destruct (disp c); [congruence| |];
    destruct (pc c); cbn in T; try lia; tauto.
Qed.

(* ... and no command event is queued *)
Corollary C20_cxn_dispatcher_excludes_events : forall c, reachable c -> disp c <> DNone ->
  ~ In EInit (bag c) /\ ~ In EWait (bag c) /\ ~ In EDisp (bag c).
Proof.
  intros c H Hd. pose proof (inv_tok c (reachable_Inv c H)) as T.
  unfold tokx, token_count in T.
  assert (Z : ntok (bag c) = 0) by (destruct (disp c); [congruence| |]; cbn in T; lia).
  repeat split; intros Hin; apply (ntok_zero_notin _ _ Z) in Hin; discriminate.
Qed.

(* the same for the loop: inside a handler no command event is queued and no dispatcher exists *)
Corollary C20_cxn_handler_excludes_events : forall c, reachable c -> pc_tok (pc c) = 1 ->
  disp c = DNone /\ ~ In EInit (bag c) /\ ~ In EWait (bag c) /\ ~ In EDisp (bag c).
Proof.
  intros c H Hp. pose proof (inv_tok c (reachable_Inv c H)) as T.
  unfold tokx, token_count in T.
  assert (Z : ntok (bag c) = 0) by lia.
  split; [destruct (disp c); cbn in T; try lia; reflexivity|].
  repeat split; intros Hin; apply (ntok_zero_notin _ _ Z) in Hin; discriminate.
Qed.

(* ------------------------------------------------------------------------------------------ *)
(* T1  the event channel never fills                                                           *)
(* ------------------------------------------------------------------------------------------ *)

Theorem C20_cxn_nonterm_events_bound : forall c, reachable c -> ntok (bag c) <= 1.
Proof. intros c H. pose proof (C20_cxn_one_command_at_a_time c H) as T. unfold token_count in T. lia. Qed.

Theorem C20_cxn_term_events_bound : forall c, reachable c -> nterm (bag c) <= 2.
Proof.
  intros c H. pose proof (inv_term c (reachable_Inv c H)) as T.
  destruct (closing c); cbn in T; lia.
Qed.

(* sharper: a second csTerminate exists only when the token is gone (the failed read gave it up),
   and without a close request there is at most one *)
Theorem C20_cxn_term_events_sharp : forall c, reachable c ->
  nterm (bag c) + token_count c <= 1 + b2n (closing c).
Proof. intros c H. pose proof (inv_term c (reachable_Inv c H)) as T. unfold tokx in T. lia. Qed.

(* The channel csceCh has capacity 3.  The labels of the sends (LNew, LQLoop, LQDisp, LReqClose) are
   reported just BEFORE the channel send, LTake just after the receive, so the bag is "queued or
   about to be queued" and the channel's content is a sub-bag of it at every moment.  With at most
   2 events in the bag — the sender's own included — a sender finds at most 1 event in the channel:
   no send on csceCh ever blocks.  This matters for RequestClose, which sends while holding cc.mu:
   if it blocked there, the loop (which needs cc.mu in IsCloseRequested/onWaitForCommand before it
   receives again) could dead-lock with it. *)
Theorem C20_cxn_queue_bound : forall c, reachable c -> length (bag c) <= 2.
Proof.
  intros c H. pose proof (inv_term c (reachable_Inv c H)) as T.
  unfold tokx, token_count in T. rewrite length_split.
  destruct (closing c); cbn in T; lia.
Qed.
Print Assumptions C20_cxn_queue_bound.

(* ------------------------------------------------------------------------------------------ *)
(* T3  no orphan read                                                                          *)
(* ------------------------------------------------------------------------------------------ *)

Theorem C20_cxn_no_orphan_read : forall c, reachable c ->
  pc c = PReading -> closing c = true -> sockclosed c = true.
Proof.
  intros c H Hp Hc. pose proof (inv_sock c (reachable_Inv c H)) as T.
  rewrite Hp, Hc in T. destruct (sockclosed c); cbn in T; [reflexivity | lia].
Qed.
Print Assumptions C20_cxn_no_orphan_read.

Theorem C20_cxn_waiting_iff_reading : forall c, reachable c ->
  (waiting c = true <-> pc c = PReading).
Proof.
  intros c H. rewrite (inv_wait c (reachable_Inv c H)).
  destruct (pc c); cbn; split; intros E; try discriminate; reflexivity.
Qed.

Theorem C20_cxn_done_socket_closed : forall c, reachable c -> pc c = PDone -> sockclosed c = true.
Proof.
  intros c H Hp. pose proof (inv_done c (reachable_Inv c H)) as T.
  rewrite Hp in T. destruct (sockclosed c); cbn in T; [reflexivity | lia].
Qed.

(* ------------------------------------------------------------------------------------------ *)
(* T4  the terminate event of a close request is not lost                                      *)
(* ------------------------------------------------------------------------------------------ *)

Theorem C20_cxn_terminate_not_lost : forall c, reachable c -> closing c = true ->
  In ETerm (bag c) \/ pc c = PTerm \/ pc c = PDone.
Proof.
  intros c H Hc. pose proof (inv_close c (reachable_Inv c H)) as T. rewrite Hc in T.
  destruct (pc c); cbn in T; try (left; apply nterm_pos_In; lia); tauto.
Qed.
Print Assumptions C20_cxn_terminate_not_lost.

(* the guard `disp c = DNone` of LTake EDisp in the model is no restriction: from a reachable
   state whose loop is idle every queued event can be received *)
Theorem C20_cxn_take_never_refused : forall c e, reachable c -> pc c = PIdle -> In e (bag c) ->
  exists c', cstep c (LTake e) = Some c'.
Proof.
  intros c e H Hp Hin. destruct (take_In _ _ Hin) as [b' Hb].
  assert (Hd : e = EDisp -> disp c = DNone).
  { intros ->. destruct (disp c) eqn:Ed; [reflexivity| |];
      (assert (Hn : disp c <> DNone) by congruence;
       destruct (C20_cxn_dispatcher_excludes_events c H Hn) as [_ [_ N]]; contradiction). }
  unfold cstep. rewrite Hp, Hb. destruct e; try (eexists; reflexivity).
  rewrite (Hd eq_refl). eexists; reflexivity.
Qed.

(* ------------------------------------------------------------------------------------------ *)
(* T5  closing is permanent, PDone is absorbing                                                *)
(* ------------------------------------------------------------------------------------------ *)

Definition is_loop_label (l : lab) : bool :=
  match l with
  | LTake _ | LQLoop _ | LWaitGo | LWaitSkip | LClosingSeen | LSetWaiting | LReadEnd _ | LTerminated => true
  | LNew | LDispDone _ | LQDisp | LReqClose _ => false
  end.

Lemma closing_step : forall c l c', cstep c l = Some c' -> closing c = true -> closing c' = true.
Proof.
  intros [b p cl w sc d] l c' Hs Hc. cbn in Hc. subst cl.
  destruct l as [ |e|e| | | | |ok|ok| |rw| ]; cbn in Hs.
  - destruct p; try discriminate; inversion Hs; reflexivity.
  - destruct p; try discriminate. destruct (take e b); try discriminate.
    destruct e; try destruct d; try discriminate; inversion Hs; reflexivity.
  - destruct p as [ | | | | | |ok| | ]; try discriminate; try destruct ok; destruct e; try discriminate;
      inversion Hs; reflexivity.
  - destruct p; try discriminate; inversion Hs; reflexivity.
  - destruct p; try discriminate; inversion Hs; reflexivity.
  - destruct p; try discriminate; inversion Hs; reflexivity.
  - destruct p; discriminate.
  - destruct p; try discriminate; inversion Hs; reflexivity.
  - destruct d; try discriminate; inversion Hs; reflexivity.
  - destruct d; try discriminate; inversion Hs; reflexivity.
  - discriminate.
  - destruct p; try discriminate; inversion Hs; reflexivity.
Qed.

Theorem C20_cxn_closing_forever : forall ls c c', crun c ls = Some c' ->
  closing c = true -> closing c' = true.
Proof.
  induction ls as [|l r IH]; cbn; intros c c' Hr Hc.
  - inversion Hr; subst; exact Hc.
  - destruct (cstep c l) as [c1|] eqn:Hs; [|discriminate].
    eapply IH; [exact Hr | eapply closing_step; eassumption].
Qed.
Print Assumptions C20_cxn_closing_forever.

(* there is one close request per connection: RequestClose is a no-op once closing is set *)
Theorem C20_cxn_one_close_request : forall c w, closing c = true -> cstep c (LReqClose w) = None.
Proof. intros c w Hc. cbn. rewrite Hc. reflexivity. Qed.

(* the socket, once closed by the server side, stays closed *)
Theorem C20_cxn_sockclosed_forever : forall ls c c', crun c ls = Some c' ->
  sockclosed c = true -> sockclosed c' = true.
Proof.
  induction ls as [|l r IH]; cbn; intros c c' Hr Hc.
  - inversion Hr; subst; exact Hc.
  - destruct (cstep c l) as [c1|] eqn:Hs; [|discriminate].
    apply (IH c1 c' Hr). clear IH Hr.
    destruct c as [b p cl w sc d]. cbn in Hc. subst sc.
    destruct l as [ |e|e| | | | |ok|ok| |rw| ]; cbn in Hs.
    + destruct p; try discriminate; inversion Hs; reflexivity.
    + destruct p; try discriminate. destruct (take e b); try discriminate.
      destruct e; try destruct d; try discriminate; inversion Hs; reflexivity.
    + destruct p as [ | | | | | |ok| | ]; try discriminate; try destruct ok; destruct e; try discriminate;
        inversion Hs; reflexivity.
    + destruct p; try discriminate; inversion Hs; reflexivity.
    + destruct p, cl; try discriminate; inversion Hs; reflexivity.
    + destruct p, cl; try discriminate; inversion Hs; reflexivity.
    + destruct p, cl; try discriminate; inversion Hs; reflexivity.
    + destruct p; try discriminate; inversion Hs; reflexivity.
    + destruct d, ok; try discriminate; inversion Hs; reflexivity.
    + destruct d; try discriminate; inversion Hs; reflexivity.
    + destruct cl; try discriminate. destruct (Bool.eqb rw w); try discriminate; inversion Hs; reflexivity.
    + destruct p; try discriminate; inversion Hs; reflexivity.
Qed.

(* After run() has returned nothing of the loop happens any more: the only labels still possible
   are those of other goroutines (the dispatcher finishing, a first RequestClose), and they leave
   the loop in PDone. *)
Theorem C20_cxn_done_absorbing : forall c l c', pc c = PDone -> cstep c l = Some c' ->
  pc c' = PDone /\ is_loop_label l = false /\
  ((exists ok, l = LDispDone ok) \/ l = LQDisp \/ (exists w, l = LReqClose w)).
Proof.
  intros [b p cl w sc d] l c' Hp Hs. cbn in Hp. subst p.
  destruct l as [ |e|e| | | | |ok|ok| |rw| ]; cbn in Hs; try discriminate.
  - destruct d; try discriminate. inversion Hs; cbn. repeat split. left; eexists; reflexivity.
  - destruct d; try discriminate. inversion Hs; cbn. repeat split. right; left; reflexivity.
  - destruct cl; try discriminate. destruct (Bool.eqb rw w); try discriminate.
    inversion Hs; cbn. repeat split. right; right; eexists; reflexivity.
Qed.
Print Assumptions C20_cxn_done_absorbing.

Theorem C20_cxn_done_forever : forall ls c c', crun c ls = Some c' -> pc c = PDone ->
  pc c' = PDone /\ forallb (fun l => negb (is_loop_label l)) ls = true.
Proof.
  induction ls as [|l r IH]; cbn; intros c c' Hr Hp.
  - inversion Hr; subst; split; [exact Hp | reflexivity].
  - destruct (cstep c l) as [c1|] eqn:Hs; [|discriminate].
    destruct (C20_cxn_done_absorbing c l c1 Hp Hs) as [Hp1 [Hl _]].
    destruct (IH c1 c' Hr Hp1) as [A B]. rewrite Hl, B. split; [exact A | reflexivity].
Qed.

(* PNew is left for ever by the first label of the creator *)
Lemma pc_new_step : forall c l c', cstep c l = Some c' -> pc c' = PNew -> pc c = PNew.
Proof.
  intros [b p cl w sc d] l c' Hs Hn.
  destruct l as [ |e|e| | | | |ok|ok| |rw| ]; cbn in Hs.
  - destruct p; try discriminate; inversion Hs; subst; discriminate.
  - destruct p; try discriminate. destruct (take e b); try discriminate.
    destruct e; try destruct d; try discriminate; inversion Hs; subst; discriminate.
  - destruct p as [ | | | | | |ok| | ]; try discriminate; try destruct ok; destruct e; try discriminate;
      inversion Hs; subst; discriminate.
  - destruct p; try discriminate; inversion Hs; subst; discriminate.
  - destruct p, cl; try discriminate; inversion Hs; subst; discriminate.
  - destruct p, cl; try discriminate; inversion Hs; subst; discriminate.
  - destruct p, cl; try discriminate; inversion Hs; subst; discriminate.
  - destruct p; try discriminate; inversion Hs; subst; discriminate.
  - destruct d; try discriminate; inversion Hs; subst; cbn in Hn; subst; reflexivity.
  - destruct d; try discriminate; inversion Hs; subst; cbn in Hn; subst; reflexivity.
  - destruct cl; try discriminate. destruct (Bool.eqb rw w); try discriminate.
    inversion Hs; subst; cbn in Hn; subst; reflexivity.
  - destruct p; try discriminate; inversion Hs; subst; discriminate.
Qed.

(* ------------------------------------------------------------------------------------------ *)
(* T6  progress and termination after a close request                                          *)
(* ------------------------------------------------------------------------------------------ *)

Definition loop_enabled (c : cst) : Prop :=
  exists l c', is_loop_label l = true /\ cstep c l = Some c'.

(* (a) The requested statement
         reachable c -> closing c = true -> pc c <> PDone -> disp c = DNone -> loop_enabled c
       is FALSE of the model in exactly one situation: the run [LReqClose false] from c0 (a close
       request that arrives between newClientState, which registers the client, and the queueing
       of csInitialize) reaches pc = PNew, closing = true, bag = [ETerm], disp = DNone, where no loop
       label is enabled because run() has not been started (see C20_cxn_close_before_new below; the
       creator's own LNew is enabled there and enables the loop).  Excluding PNew the statement
       holds, and the hypothesis on the dispatcher is not needed: after a close request the loop
       never waits for the dispatcher, because the csTerminate event is there to be received. *)
Theorem C20_cxn_close_progress_partial : forall c, reachable c -> closing c = true ->
  pc c <> PDone -> pc c <> PNew -> loop_enabled c.
Proof.
  intros c H Hc Hd Hn.
  pose proof (C20_cxn_terminate_not_lost c H Hc) as HT.
  destruct c as [b p cl w sc d]. cbn in *. subst cl.
  destruct p as [ | | | | | |ok| | ]; try congruence.
  - destruct HT as [Hin|[E|E]]; try discriminate.
    destruct (take_In _ _ Hin) as [b' Hb].
    exists (LTake ETerm), (mkC b' PTerm true w sc d). split; [reflexivity|]. cbn. rewrite Hb. reflexivity.
  - exists (LQLoop EWait); eexists; split; reflexivity.
  - exists LWaitSkip; eexists; split; reflexivity.
  - exists LClosingSeen; eexists; split; reflexivity.
  - exists (LReadEnd false); eexists; split; reflexivity.
  - destruct ok.
    + exists (LQLoop EWait); eexists; split; reflexivity.
    + exists (LQLoop ETerm); eexists; split; reflexivity.
  - exists LTerminated; eexists; split; reflexivity.
Qed.
Print Assumptions C20_cxn_close_progress_partial.

(* the excluded situation: the creator's LNew is enabled, and the loop is enabled after it *)
Theorem C20_cxn_close_before_new : forall c, reachable c -> closing c = true -> pc c = PNew ->
  (forall l c', cstep c l = Some c' -> is_loop_label l = false) /\
  exists c', cstep c LNew = Some c' /\ loop_enabled c'.
Proof.
  intros c H Hc Hp. split.
  - intros l c' Hs. destruct c as [b p cl w sc d]. cbn in *. subst p.
    destruct l as [ |e|e| | | | |ok|ok| |rw| ]; cbn in Hs; try discriminate; reflexivity.
  - assert (Hs : cstep c LNew = Some (push c EInit PIdle)) by (cbn; rewrite Hp; reflexivity).
    eexists; split; [exact Hs|].
    apply C20_cxn_close_progress_partial.
    + eapply reachable_step; eassumption.
    + eapply closing_step; eassumption.
    + cbn; discriminate.
    + cbn; discriminate.
Qed.

(* the dispatcher's steps do not disable the loop after a close request *)
Corollary C20_cxn_dispatcher_keeps_loop_enabled : forall c l c', reachable c -> closing c = true ->
  is_loop_label l = false -> cstep c l = Some c' -> pc c <> PDone -> pc c <> PNew -> loop_enabled c'.
Proof.
  intros c l c' H Hc Hl Hs Hd Hn.
  apply C20_cxn_close_progress_partial.
  - eapply reachable_step; eassumption.
  - eapply closing_step; eassumption.
  - destruct c as [b p cl w sc d]; cbn in *.
    destruct l as [ |e|e| | | | |ok|ok| |rw| ]; cbn in Hs; try discriminate.
    + destruct p; try discriminate; inversion Hs; cbn; discriminate.
    + destruct d; try discriminate; inversion Hs; cbn; exact Hd.
    + destruct d; try discriminate; inversion Hs; cbn; exact Hd.
    + subst cl; discriminate.
  - intros E. apply Hn. eapply pc_new_step; eassumption.
Qed.

(* when the loop can do nothing more after a close request, it has ended *)
Theorem C20_cxn_close_quiescent : forall c, reachable c -> closing c = true -> pc c <> PNew ->
  ~ loop_enabled c -> pc c = PDone.
Proof.
  intros c H Hc Hn Hq. destruct (pc c) eqn:Ep; try reflexivity; try congruence; exfalso; apply Hq;
    apply C20_cxn_close_progress_partial; try assumption; rewrite Ep; discriminate.
Qed.

(* (b) the measure: the number of loop labels still ahead of the token (weight of the event or of
   the handler position) plus those of the final LTake ETerm; LTerminated. *)
Definition evw (e : ev) : nat := match e with EInit => 6 | EWait => 4 | EDisp => 1 | ETerm => 0 end.
Fixpoint bagw (b : list ev) : nat := match b with [] => 0 | e :: r => evw e + bagw r end.
Definition pcw (p : pcT) : nat :=
  match p with
  | PNew => 0 | PIdle => 2 | PInit => 7 | PWait0 => 5 | PWait1 => 4 | PReading => 8
  | PRead true => 7 | PRead false => 3 | PTerm => 1 | PDone => 0
  end.
Definition m (c : cst) : nat := bagw (bag c) + pcw (pc c).

Lemma take_bagw : forall e b b', take e b = Some b' -> bagw b = evw e + bagw b'.
Proof.
  intros e; induction b as [|x r IH]; cbn; intros b' H; [discriminate|].
  destruct (ev_eqb e x) eqn:Hex.
  - inversion H; subst b'. destruct e, x; cbn in *; try discriminate; lia.
  - destruct (take e r) as [r'|] eqn:Ht; cbn in H; [|discriminate].
    inversion H; subst b'. rewrite (IH r' eq_refl). cbn. lia.
Qed.

Lemma bagw_ntok : forall b, bagw b <= 6 * ntok b.
Proof. induction b as [|e r IH]; cbn; [lia|]. destruct e; cbn; lia. Qed.

(* every loop label except the start of a read strictly decreases the measure (in any state) *)
Theorem C20_cxn_loop_measure : forall c l c', cstep c l = Some c' ->
  is_loop_label l = true -> l <> LSetWaiting -> m c' < m c.
Proof.
  intros [b p cl w sc d] l c' Hs Hl Hn. unfold m.
  destruct l as [ |e|e| | | | |ok|ok| |rw| ]; cbn in Hl; try discriminate; cbn in Hs.
  - destruct p; try discriminate. destruct (take e b) as [b'|] eqn:Ht; try discriminate.
    pose proof (take_bagw _ _ _ Ht) as T.
    destruct e; try destruct d; try discriminate; inversion Hs; subst; cbn in *; lia.
  - destruct p as [ | | | | | |ok| | ]; try discriminate; try destruct ok; destruct e; try discriminate;
      inversion Hs; subst; cbn; lia.
  - destruct p; try discriminate; inversion Hs; subst; cbn; lia.
  - destruct p, cl; try discriminate; inversion Hs; subst; cbn; lia.
  - destruct p, cl; try discriminate; inversion Hs; subst; cbn; lia.
  - congruence.
  - destruct p; try discriminate; inversion Hs; subst; destruct ok; cbn; lia.
  - destruct p; try discriminate; inversion Hs; subst; cbn; lia.
Qed.

(* and the start of a read is impossible after a close request *)
Lemma setwaiting_not_closing : forall c c', closing c = true -> cstep c LSetWaiting = Some c' -> False.
Proof.
  intros [b p cl w sc d] c' Hc Hs. cbn in *. subst cl. destruct p; discriminate.
Qed.

Theorem C20_cxn_measure_bound : forall c, reachable c -> m c <= 8.
Proof.
  intros c H. pose proof (inv_tok c (reachable_Inv c H)) as T.
  unfold tokx, token_count in T. unfold m. pose proof (bagw_ntok (bag c)) as B.
  destruct (pc c) as [ | | | | | |ok| | ]; try destruct ok; cbn in *; lia.
Qed.

Lemma loop_run_measure : forall ls c c', closing c = true -> crun c ls = Some c' ->
  forallb is_loop_label ls = true -> length ls + m c' <= m c.
Proof.
  induction ls as [|l r IH]; cbn; intros c c' Hc Hr Hl.
  - inversion Hr; subst; lia.
  - destruct (cstep c l) as [c1|] eqn:Hs; [|discriminate].
    apply andb_prop in Hl. destruct Hl as [Hl1 Hl2].
    assert (Hn : l <> LSetWaiting).
    { intros ->. eapply setwaiting_not_closing; eassumption. }
    pose proof (C20_cxn_loop_measure c l c1 Hs Hl1 Hn) as D.
    pose proof (IH c1 c' (closing_step _ _ _ Hs Hc) Hr Hl2) as R. lia.
Qed.

(* After a close request the loop goroutine ends within 8 of its own steps: every run made of loop
   labels only has at most 8 labels, and a run that cannot be extended by a loop label has reached
   PDone.  (Bound 8 is attained, see C20_cxn_close_terminates_tight.) *)
Theorem C20_cxn_close_terminates : forall c ls c', reachable c -> closing c = true ->
  crun c ls = Some c' -> forallb is_loop_label ls = true ->
  length ls <= 8 /\ (pc c <> PNew -> ~ loop_enabled c' -> pc c' = PDone).
Proof.
  intros c ls c' H Hc Hr Hl. split.
  - pose proof (loop_run_measure ls c c' Hc Hr Hl) as R.
    pose proof (C20_cxn_measure_bound c H) as B. lia.
  - intros Hn Hq. apply C20_cxn_close_quiescent.
    + eapply reachable_run; eassumption.
    + eapply C20_cxn_closing_forever; eassumption.
    + clear Hq Hl H Hc. revert c Hr Hn.
      induction ls as [|l r IH]; cbn; intros c Hr Hn.
      * inversion Hr; subst; exact Hn.
      * destruct (cstep c l) as [c1|] eqn:Hs; [|discriminate].
        apply (IH c1 Hr). intros E. apply Hn. eapply pc_new_step; eassumption.
    + exact Hq.
Qed.
Print Assumptions C20_cxn_close_terminates.

(* The same with the other goroutines' labels interleaved.  Here the model is more liberal than
   the code in one respect: LWaitGo ("IsCloseRequested answered false") is allowed in every state
   with pc = PWait0, also long after the close request, and the bag forgets that csTerminate was
   queued before the dispatcher's csWaitForCommand.  So the model has the infinite run
     ... closing ... (LTake EWait; LWaitGo; LQLoop EDisp; LTake EDisp; LDispDone true; LQDisp)^omega
   and termination can only be stated relative to the number of LWaitGo labels (in the code at
   most ONE IsCloseRequested call can answer false after closing was set: the one whose critical
   section came before RequestClose's). *)
Definition evw2 (e : ev) : nat := match e with EInit => 4 | EWait => 2 | EDisp => 5 | ETerm => 0 end.
Fixpoint bagw2 (b : list ev) : nat := match b with [] => 0 | e :: r => evw2 e + bagw2 r end.
Definition pcw2 (p : pcT) : nat :=
  match p with
  | PNew => 7 | PIdle => 2 | PInit => 5 | PWait0 => 3 | PWait1 => 8 | PReading => 9
  | PRead true => 8 | PRead false => 3 | PTerm => 1 | PDone => 0
  end.
Definition dw2 (d : dT) : nat := match d with DNone => 0 | DRunning => 4 | DWritten => 3 end.
Definition m2 (c : cst) : nat := bagw2 (bag c) + pcw2 (pc c) + dw2 (disp c).
Definition is_waitgo (l : lab) : bool := match l with LWaitGo => true | _ => false end.
Fixpoint nwaitgo (ls : list lab) : nat :=
  match ls with [] => 0 | l :: r => (if is_waitgo l then 1 else 0) + nwaitgo r end.

Lemma take_bagw2 : forall e b b', take e b = Some b' -> bagw2 b = evw2 e + bagw2 b'.
Proof.
  intros e; induction b as [|x r IH]; cbn; intros b' H; [discriminate|].
  destruct (ev_eqb e x) eqn:Hex.
  - inversion H; subst b'. destruct e, x; cbn in *; try discriminate; lia.
  - destruct (take e r) as [r'|] eqn:Ht; cbn in H; [|discriminate].
    inversion H; subst b'. rewrite (IH r' eq_refl). cbn. lia.
Qed.

Lemma bagw2_ntok : forall b, bagw2 b <= 5 * ntok b.
Proof. induction b as [|e r IH]; cbn; [lia|]. destruct e; cbn; lia. Qed.

Lemma m2_step : forall c l c', closing c = true -> cstep c l = Some c' ->
  1 + m2 c' <= m2 c + (if is_waitgo l then 6 else 0).
Proof.
  intros [b p cl w sc d] l c' Hc Hs. cbn in Hc. subst cl. unfold m2.
  destruct l as [ |e|e| | | | |ok|ok| |rw| ]; cbn in Hs.
  - destruct p; try discriminate; inversion Hs; subst; cbn; lia.
  - destruct p; try discriminate. destruct (take e b) as [b'|] eqn:Ht; try discriminate.
    pose proof (take_bagw2 _ _ _ Ht) as T.
    destruct e; try destruct d; try discriminate; inversion Hs; subst; cbn in *; lia.
  - destruct p as [ | | | | | |ok| | ]; try discriminate; try destruct ok; destruct e; try discriminate;
      inversion Hs; subst; cbn; lia.
  - destruct p; try discriminate; inversion Hs; subst; cbn; lia.
  - destruct p; try discriminate; inversion Hs; subst; cbn; lia.
  - destruct p; try discriminate; inversion Hs; subst; cbn; lia.
  - destruct p; discriminate.
  - destruct p; try discriminate; inversion Hs; subst; destruct ok; cbn; lia.
  - destruct d; try discriminate; inversion Hs; subst; destruct ok; cbn; lia.
  - destruct d; try discriminate; inversion Hs; subst; cbn; lia.
  - discriminate.
  - destruct p; try discriminate; inversion Hs; subst; cbn; lia.
Qed.

Theorem C20_cxn_measure2_bound : forall c, reachable c -> m2 c <= 9.
Proof.
  intros c H. pose proof (inv_tok c (reachable_Inv c H)) as T.
  unfold tokx, token_count in T. unfold m2. pose proof (bagw2_ntok (bag c)) as B.
  destruct (pc c) as [ | | | | | |ok| | ]; try destruct ok; destruct (disp c); cbn in *; lia.
Qed.

(* every run whatsoever (all goroutines) after a close request has at most 9 labels plus 6 for
   each LWaitGo it contains; in particular at most 9 when no stale IsCloseRequested answer occurs
   and at most 15 with the single one the code can produce *)
Theorem C20_cxn_close_terminates_all : forall ls c c', reachable c -> closing c = true ->
  crun c ls = Some c' -> length ls <= 9 + 6 * nwaitgo ls.
Proof.
  intros ls c c' H Hc Hr.
  assert (G : forall ls c c', closing c = true -> crun c ls = Some c' ->
              length ls + m2 c' <= m2 c + 6 * nwaitgo ls).
  { clear. induction ls as [|l r IH]; cbn [crun length nwaitgo]; intros c c' Hc Hr.
    - inversion Hr; subst; lia.
    - destruct (cstep c l) as [c1|] eqn:Hs; [|discriminate].
      pose proof (m2_step c l c1 Hc Hs) as D.
      pose proof (IH c1 c' (closing_step _ _ _ Hs Hc) Hr) as R.
      destruct (is_waitgo l); lia. }
  pose proof (G ls c c' Hc Hr) as R. pose proof (C20_cxn_measure2_bound c H) as B. lia.
Qed.
Print Assumptions C20_cxn_close_terminates_all.

(* ------------------------------------------------------------------------------------------ *)
(* Progress WITHOUT a close request — and the one state where there is none (finding)          *)
(* ------------------------------------------------------------------------------------------ *)

(* Without a close request some goroutine of the connection can always move, or run() has ended,
   EXCEPT in one state: loop idle, nothing queued, no dispatcher, socket closed by the server side.
   That state is reached after a failed reply write (LDispDone false: onDispatchCommand's goroutine
   closes the socket and queues nothing): the loop goroutine then waits on csceCh for ever and the
   client is never unregistered, unless somebody calls RequestClose (CLIENT KILL, shut-down).
   See the example C20_cxn_write_error_strands_loop. *)
Definition stranded (c : cst) : Prop :=
  pc c = PIdle /\ bag c = [] /\ disp c = DNone /\ closing c = false /\ sockclosed c = true.

Theorem C20_cxn_progress_without_close : forall c, reachable c -> closing c = false ->
  (exists l c', cstep c l = Some c' /\ forall w, l <> LReqClose w) \/ pc c = PDone \/ stranded c.
Proof.
  intros c H Hc.
  pose proof (inv_live c (reachable_Inv c H)) as L.
  pose proof (inv_term c (reachable_Inv c H)) as T.
  destruct (pc c) as [ | | | | | |ok| | ] eqn:Ep.
  - left. exists LNew; eexists; split; [cbn; rewrite Ep; reflexivity | intros w; discriminate].
  - destruct (bag c) as [|e r] eqn:Eb.
    + destruct (disp c) eqn:Ed.
      * right; right. unfold stranded. rewrite Ep, Eb, Ed, Hc. repeat split.
        unfold tokx, token_count in L. rewrite Ep, Eb, Ed, Hc in L. cbn in L.
        destruct (sockclosed c); cbn in L; [reflexivity | lia].
      * left. exists (LDispDone true); eexists; split; [cbn; rewrite Ed; reflexivity | intros w; discriminate].
      * left. exists LQDisp; eexists; split; [cbn; rewrite Ed; reflexivity | intros w; discriminate].
    + left. assert (Hin : In e (bag c)) by (rewrite Eb; left; reflexivity).
      destruct (C20_cxn_take_never_refused c e H Ep Hin) as [c' Hs].
      exists (LTake e), c'; split; [exact Hs | intros w; discriminate].
  - left. exists (LQLoop EWait); eexists; split; [cbn; rewrite Ep; reflexivity | intros w; discriminate].
  - left. exists LWaitGo; eexists; split; [cbn; rewrite Ep; reflexivity | intros w; discriminate].
  - left. exists LSetWaiting; eexists; split; [cbn; rewrite Ep, Hc; reflexivity | intros w; discriminate].
  - left. exists (LReadEnd true); eexists; split; [cbn; rewrite Ep; reflexivity | intros w; discriminate].
  - left. destruct ok.
    + exists (LQLoop EWait); eexists; split; [cbn; rewrite Ep; reflexivity | intros w; discriminate].
    + exists (LQLoop ETerm); eexists; split; [cbn; rewrite Ep; reflexivity | intros w; discriminate].
  - left. exists LTerminated; eexists; split; [cbn; rewrite Ep; reflexivity | intros w; discriminate].
  - right; left; reflexivity.
Qed.
Print Assumptions C20_cxn_progress_without_close.

(* in a stranded state nothing but a close request can happen *)
Theorem C20_cxn_stranded_only_close : forall c l c', stranded c -> cstep c l = Some c' ->
  exists w, l = LReqClose w.
Proof.
  intros [b p cl w sc d] l c' [Hp [Hb [Hd [Hc Hs]]]] Hst. cbn in *. subst.
  destruct l as [ |e|e| | | | |ok|ok| |rw| ]; cbn in Hst; try discriminate.
  eexists; reflexivity.
Qed.

(* ------------------------------------------------------------------------------------------ *)
(* T7  examples                                                                                *)
(* ------------------------------------------------------------------------------------------ *)

Definition ex_until_read : list lab :=
  [LNew; LTake EInit; LQLoop EWait; LTake EWait; LWaitGo; LSetWaiting].

(* a normal command cycle: read, dispatch, reply, next read *)
Example C20_cxn_ex_command_cycle :
  crun c0 (ex_until_read ++ [LReadEnd true; LQLoop EDisp; LTake EDisp; LDispDone true; LQDisp;
                             LTake EWait; LWaitGo; LSetWaiting])
  = Some (mkC [] PReading false true false DNone).
Proof. vm_compute. reflexivity. Qed.

(* a close request while the loop is reading: the request closes the socket, the read fails, both
   csTerminate events are queued (queue length 2), the first is handled, the second stays *)
Example C20_cxn_ex_close_while_reading :
  crun c0 (ex_until_read ++ [LReqClose true; LReadEnd false; LQLoop ETerm; LTake ETerm; LTerminated])
  = Some (mkC [ETerm] PDone true false true DNone)
  /\ option_map (fun c => length (bag c))
       (crun c0 (ex_until_read ++ [LReqClose true; LReadEnd false; LQLoop ETerm])) = Some 2.
Proof. vm_compute. split; reflexivity. Qed.

(* the trace a missing second check (under cc.mu, in onWaitForCommand) would produce — a read is
   started after the close request was made with waiting = false, so nobody ends it — is not a
   run of the model; the label refused is the last one *)
Example C20_cxn_ex_orphan_read_rejected :
  crun c0 [LNew; LTake EInit; LQLoop EWait; LTake EWait; LWaitGo; LReqClose false; LSetWaiting] = None
  /\ first_reject c0 [LNew; LTake EInit; LQLoop EWait; LTake EWait; LWaitGo; LReqClose false; LSetWaiting] 0
     = Some 6.
Proof. vm_compute. split; reflexivity. Qed.

(* what the code does instead *)
Example C20_cxn_ex_second_check :
  crun c0 [LNew; LTake EInit; LQLoop EWait; LTake EWait; LWaitGo; LReqClose false; LClosingSeen;
           LTake ETerm; LTerminated]
  = Some (mkC [] PDone true false true DNone).
Proof. vm_compute. reflexivity. Qed.

(* a reply with waiting = true reported when it is false (or the converse) is refused as well *)
Example C20_cxn_ex_reqclose_flag_checked :
  crun c0 [LNew; LTake EInit; LReqClose true] = None /\
  crun c0 (ex_until_read ++ [LReqClose false]) = None.
Proof. vm_compute. split; reflexivity. Qed.

(* the bound 8 of C20_cxn_close_terminates is attained: a close request before csInitialize is
   received, then 8 loop labels (a complete command is already buffered, the stale answer of
   IsCloseRequested lets it be dispatched) *)
Example C20_cxn_close_terminates_tight :
  let ls := [LTake EInit; LQLoop EWait; LTake EWait; LWaitGo; LQLoop EDisp; LTake EDisp; LTake ETerm;
             LTerminated] in
  option_map closing (crun c0 [LNew; LReqClose false]) = Some true /\
  forallb is_loop_label ls = true /\ length ls = 8 /\
  option_map pc (crun c0 ([LNew; LReqClose false] ++ ls)) = Some PDone.
Proof. vm_compute. repeat split; reflexivity. Qed.

(* the bound of C20_cxn_close_terminates_all with one LWaitGo: 13 labels of 15 *)
Example C20_cxn_ex_close_all :
  let ls := [LReadEnd true; LQLoop EWait; LTake EWait; LWaitGo; LQLoop EDisp; LTake EDisp;
             LDispDone true; LQDisp; LTake EWait; LWaitSkip; LTake ETerm; LTerminated] in
  crun c0 (ex_until_read ++ [LReqClose true] ++ ls) = Some (mkC [] PDone true false true DNone)
  /\ length ls = 12 /\ nwaitgo ls = 1.
Proof. vm_compute. repeat split; reflexivity. Qed.

(* the state excluded from C20_cxn_close_progress_partial *)
Example C20_cxn_ex_close_before_new :
  crun c0 [LReqClose false] = Some (mkC [ETerm] PNew true false false DNone).
Proof. vm_compute. reflexivity. Qed.

(* FINDING: after a failed reply write the connection is stranded: run() has not returned
   (pc = PIdle, not PDone), nothing is queued and nothing will be *)
Example C20_cxn_write_error_strands_loop :
  exists c, crun c0 (ex_until_read ++ [LReadEnd true; LQLoop EDisp; LTake EDisp; LDispDone false]) = Some c
            /\ stranded c.
Proof. eexists; split; [vm_compute; reflexivity | repeat split]. Qed.

(* instances of the hypotheses of the main theorems *)
Example C20_cxn_ex_reachable :
  reachable (mkC [ETerm; ETerm] PIdle true false true DNone) /\
  reachable (mkC [EDisp; ETerm] PIdle true false false DNone) /\
  reachable (mkC [ETerm] PIdle true false false DRunning).
Proof.
  split; [|split].
  - exists (ex_until_read ++ [LReqClose true; LReadEnd false; LQLoop ETerm]); vm_compute; reflexivity.
  - exists [LNew; LTake EInit; LQLoop EWait; LTake EWait; LWaitGo; LReqClose false; LQLoop EDisp];
      vm_compute; reflexivity.
  - exists (ex_until_read ++ [LReadEnd true; LQLoop EDisp; LTake EDisp; LReqClose false]);
      vm_compute; reflexivity.
Qed.
