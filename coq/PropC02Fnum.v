(* PropC02Fnum.v — theorems about the INCRBYFLOAT / HINCRBYFLOAT model of Fnum.v
   (all closed under the global context).

   0. DECIMAL TEXT OF A NATURAL (Z_to_bytes, Base.v)
      Z_to_bytes_val / _digits / _nonnil / _no_leading_zero / _length / _last_digit
   1. ARITHMETIC
      dec_add_value        sval (dec_add a b) == sval a + sval b
      dec_add_comm_value / dec_add_assoc_value / dec_add_zero_value
      dec_norm_sound       dec_norm f m k = (m',k'): k' <= k, m = m' * 10^(k-k')   (any fuel)
      dec_norm_spec        ... and with k <= f the result is normal (k' = 0 or m' mod 10 <> 0)
      dec_norm_value       ... sval (mkSc m' k') == sval (mkSc m k)
      dec_norm_zero        dec_norm f 0 k = (0, 0)
      snorm_value / snorm_normal / snorm_idem / normal_unique / snorm_canonical
   2. PRINTING
      parse_print_exact    parse_score (dec_print s) = Some (snorm s)
      parse_print          parse_score (dec_print s) = Some s' with sval s' == sval s
      dec_print_canonical  sval a == sval b -> dec_print a = dec_print b
      dec_print_injective  dec_print a = dec_print b -> sval a == sval b
      dec_print_shape      sign, integer digits without leading zeros, optional '.' fraction
                           without trailing zero; '-' iff the value is negative
      dec_print_zero, dec_print_no_plus, dec_print_bytes, dec_print_last_is_digit,
      dec_print_no_trailing_zero, dec_print_not_minus_zero, dec_print_minus_negative
      print_parse_normal   a canonical text is a fixpoint of parse-then-print
   3. COMMANDS
      incrbyfloat_error_inert, incrbyfloat_arity, incrbyfloat_bad_increment, incrbyfloat_wrongtype,
      incrbyfloat_bad_old, incrbyfloat_existing, incrbyfloat_missing, incrbyfloat_missing_as_zero,
      incrbyfloat_reply_cases
      hincrbyfloat_error_inert, hincrbyfloat_arity, hincrbyfloat_bad_increment, hincrbyfloat_wrongtype,
      hincrbyfloat_bad_old, hincrbyfloat_existing_field, hincrbyfloat_new_field, hincrbyfloat_missing_key
   4. ORDER INDEPENDENCE
      incrbyfloat_twice, incrbyfloat_commute, incrbyfloat_merge, incrbyfloat_zero_fixpoint
   5. EXAMPLES by vm_compute                                                              *)
From RE Require Import Base Resp State Exec Sort Fnum Lemmas PropC06Sort.
From Coq Require Import String List ZArith NArith Lia Bool QArith DecimalPos DecimalFacts.
Import ListNotations.
Open Scope string_scope.
Open Scope list_scope.
Open Scope Z_scope.

(* ================================================================== *)
(* 0. DECIMAL TEXT OF A NATURAL                                        *)
(* ================================================================== *)

Lemma uint_bytes_digits u : all_digits (uint_bytes u).
Proof. induction u; cbn [uint_bytes]; constructor; try reflexivity; assumption. Qed.

Lemma of_uint_acc_fold u : forall acc,
  Zpos (Pos.of_uint_acc u acc) = fold_left dstep (uint_bytes u) (Zpos acc).
Proof.
  induction u; intro acc; cbn [Pos.of_uint_acc uint_bytes fold_left]; [reflexivity|..];
    rewrite IHu; f_equal; unfold dstep; lia.
Qed.

Lemma of_uint_dec_val u : Z.of_N (Pos.of_uint u) = dec_val (uint_bytes u).
Proof.
  unfold dec_val. induction u; cbn [Pos.of_uint uint_bytes fold_left];
    [reflexivity | exact IHu | ..]; exact (of_uint_acc_fold u _).
Qed.

Lemma nzhead_fix_head u :
  Decimal.nzhead u = u -> u <> Decimal.Nil -> hd 48%N (uint_bytes u) <> 48%N.
Proof.
  destruct u; intros H Hn; cbn [uint_bytes hd]; try (intro X; discriminate X).
  - congruence.
  - exfalso. pose proof (nb_digits_nzhead u) as L. cbn [Decimal.nzhead] in H. rewrite H in L.
    cbn [Decimal.nb_digits] in L. lia.
Qed.

Lemma to_uint_nzhead p : Decimal.nzhead (Pos.to_uint p) = Pos.to_uint p.
Proof.
  pose proof (DecimalPos.Unsigned.to_of (Pos.to_uint p)) as H.
  rewrite DecimalPos.Unsigned.of_to in H. cbn [N.to_uint] in H.
  destruct (Decimal.uint_eq_dec (Decimal.nzhead (Pos.to_uint p)) Decimal.Nil) as [E|E].
  - exfalso. unfold Decimal.unorm in H. rewrite E in H.
    exact (DecimalPos.Unsigned.to_uint_nonzero p H).
  - rewrite <- (unorm_nzhead _ E). symmetry. exact H.
Qed.

(* the decimal text of n >= 0 denotes n *)
Theorem Z_to_bytes_val n : 0 <= n -> dec_val (Z_to_bytes n) = n.
Proof.
  intro H. destruct n as [|p|p]; [reflexivity | | lia].
  cbn [Z_to_bytes]. rewrite <- of_uint_dec_val, DecimalPos.Unsigned.of_to. reflexivity.
Qed.

Theorem Z_to_bytes_digits n : 0 <= n -> all_digits (Z_to_bytes n).
Proof.
  intro H. destruct n as [|p|p]; [|apply uint_bytes_digits | lia].
  constructor; [reflexivity | constructor].
Qed.

Theorem Z_to_bytes_nonnil n : Z_to_bytes n <> [].
Proof.
  destruct n as [|p|p]; cbn [Z_to_bytes]; try discriminate.
  pose proof (DecimalPos.Unsigned.to_uint_nonnil p) as H.
  destruct (Pos.to_uint p); try congruence; discriminate.
Qed.

(* no superfluous leading zero: the text is "0" or starts with a non-zero digit *)
Theorem Z_to_bytes_no_leading_zero n :
  0 <= n -> Z_to_bytes n = [48%N] \/ hd 48%N (Z_to_bytes n) <> 48%N.
Proof.
  intro H. destruct n as [|p|p]; [left; reflexivity | right | lia].
  cbn [Z_to_bytes]. apply nzhead_fix_head; [apply to_uint_nzhead | apply DecimalPos.Unsigned.to_uint_nonnil].
Qed.

Lemma sdigit_range c : sdigit c = true -> (48 <= c <= 57)%N.
Proof. unfold sdigit. rewrite andb_true_iff, !N.leb_le. tauto. Qed.

Lemma dec_val_single c : dec_val [c] = Z.of_N (c - 48).
Proof. unfold dec_val, dstep. cbn [fold_left]. lia. Qed.

Lemma dec_val_cons c r : dec_val (c :: r) = Z.of_N (c - 48) * 10 ^ Z.of_nat (length r) + dec_val r.
Proof. change (c :: r) with ([c] ++ r). rewrite dec_val_app, dec_val_single. reflexivity. Qed.

Lemma dec_val_lower c r :
  sdigit c = true -> c <> 48%N -> 10 ^ Z.of_nat (length r) <= dec_val (c :: r).
Proof.
  intros Hc Hz. rewrite dec_val_cons. apply sdigit_range in Hc.
  pose proof (dec_val_nonneg r) as Hr. pose proof (pow10_pos (length r)) as Hp.
  assert (1 <= Z.of_N (c - 48)) by lia. nia.
Qed.

(* n < 10^k is written with at most k digits *)
Theorem Z_to_bytes_length n k :
  0 <= n < 10 ^ Z.of_nat k -> (0 < k)%nat -> (length (Z_to_bytes n) <= k)%nat.
Proof.
  intros [H0 H1] Hk.
  destruct (Z_to_bytes_no_leading_zero n H0) as [E|E]; [rewrite E; simpl; lia|].
  pose proof (Z_to_bytes_digits n H0) as D. pose proof (Z_to_bytes_val n H0) as V.
  destruct (Z_to_bytes n) as [|c r] eqn:T; [simpl; lia|].
  cbn [hd] in E. pose proof (Forall_inv D) as Hc. cbn beta in Hc.
  pose proof (dec_val_lower c r Hc E) as L. rewrite V in L.
  assert (Z.of_nat (length r) < Z.of_nat k).
  { apply (Z.pow_lt_mono_r_iff 10); lia. }
  cbn [length]. lia.
Qed.

(* the last character of a digit string is its value modulo 10 *)
Lemma last_digit l d : all_digits l -> l <> [] -> Z.of_N (last l d) - 48 = dec_val l mod 10.
Proof.
  intros H Hn. destruct (exists_last Hn) as [l' [c E]]. subst l.
  rewrite last_last, dec_val_app, dec_val_single.
  apply Forall_app in H as [_ Hc]. inversion Hc as [|? ? Hc' _]; subst. apply sdigit_range in Hc'.
  cbn [length]. change (10 ^ Z.of_nat 1) with 10.
  rewrite Z.add_comm, Z.mod_add by lia. rewrite Z.mod_small by lia. lia.
Qed.

Theorem Z_to_bytes_last_digit n d : 0 <= n -> Z.of_N (last (Z_to_bytes n) d) = 48 + n mod 10.
Proof.
  intro H. pose proof (last_digit (Z_to_bytes n) d (Z_to_bytes_digits n H) (Z_to_bytes_nonnil n)) as L.
  rewrite (Z_to_bytes_val n H) in L. lia.
Qed.

Example Z_to_bytes_ex :
  Z_to_bytes 1205 = s2b "1205" /\ dec_val (Z_to_bytes 1205) = 1205 /\ Z_to_bytes 0 = s2b "0" /\
  length (Z_to_bytes 999) = 3%nat /\ last (Z_to_bytes 1205) 0%N = 53%N.
Proof. vm_compute. repeat split. Qed.

Print Assumptions Z_to_bytes_val.
Print Assumptions Z_to_bytes_no_leading_zero.
Print Assumptions Z_to_bytes_length.
Print Assumptions Z_to_bytes_last_digit.

(* ---------- zero padding ---------- *)
Lemma repeat_zero_digits j : all_digits (repeat 48%N j).
Proof. induction j; simpl; constructor; [reflexivity | assumption]. Qed.

Lemma dec_val_repeat_zero j : dec_val (repeat 48%N j) = 0.
Proof.
  induction j as [|j IH]; [reflexivity|]. cbn [repeat]. rewrite dec_val_cons, IH. simpl. lia.
Qed.

Lemma pad_zeros_val n b : dec_val (pad_zeros n b) = dec_val b.
Proof. unfold pad_zeros. rewrite dec_val_app, dec_val_repeat_zero. lia. Qed.

Lemma pad_zeros_digits n b : all_digits b -> all_digits (pad_zeros n b).
Proof. intro H. unfold pad_zeros. apply Forall_app. split; [apply repeat_zero_digits | exact H]. Qed.

Lemma pad_zeros_length n b : (length b <= n)%nat -> length (pad_zeros n b) = n.
Proof. intro H. unfold pad_zeros. rewrite app_length, repeat_length. lia. Qed.

(* ================================================================== *)
(* 1. ARITHMETIC                                                       *)
(* ================================================================== *)

Lemma pow10_split j k : (j <= k)%nat -> 10 ^ Z.of_nat k = 10 ^ Z.of_nat j * 10 ^ Z.of_nat (k - j).
Proof. intro H. rewrite <- Z.pow_add_r by lia. f_equal. lia. Qed.

Lemma sval_eq_cross a b :
  (sval a == sval b)%Q <-> sc_m a * 10 ^ Z.of_nat (sc_k b) = sc_m b * 10 ^ Z.of_nat (sc_k a).
Proof.
  unfold Qeq, sval; simpl. rewrite !Z2Pos.id by apply pow10_pos. reflexivity.
Qed.

Lemma sval_neg_iff s : (sval s < 0)%Q <-> sc_m s < 0.
Proof. unfold Qlt, sval; simpl. lia. Qed.

Lemma sval_zero_iff s : (sval s == 0)%Q <-> sc_m s = 0.
Proof. unfold Qeq, sval; simpl. lia. Qed.

(* exact decimal addition *)
Theorem dec_add_value a b : (sval (dec_add a b) == sval a + sval b)%Q.
Proof.
  destruct a as [ma ka], b as [mb kb]. unfold dec_add. cbn [sc_m sc_k].
  set (K := Nat.max ka kb).
  assert (Ha : 10 ^ Z.of_nat K = 10 ^ Z.of_nat ka * 10 ^ Z.of_nat (K - ka)) by (apply pow10_split; lia).
  assert (Hb : 10 ^ Z.of_nat K = 10 ^ Z.of_nat kb * 10 ^ Z.of_nat (K - kb)) by (apply pow10_split; lia).
  unfold Qeq, Qplus, sval. cbn [Qnum Qden sc_m sc_k].
  rewrite Pos2Z.inj_mul, !Z2Pos.id by apply pow10_pos.
  generalize dependent (10 ^ Z.of_nat K). intros P Ha Hb.
  rewrite !Z.mul_add_distr_r. f_equal.
  - rewrite Ha. ring.
  - rewrite Hb. ring.
Qed.

Corollary dec_add_comm_value a b : (sval (dec_add a b) == sval (dec_add b a))%Q.
Proof. rewrite !dec_add_value. apply Qplus_comm. Qed.

Corollary dec_add_assoc_value a b c :
  (sval (dec_add (dec_add a b) c) == sval (dec_add a (dec_add b c)))%Q.
Proof. rewrite !dec_add_value. symmetry. apply Qplus_assoc. Qed.

Corollary dec_add_zero_value b : (sval (dec_add (mkSc 0 0) b) == sval b)%Q.
Proof. rewrite dec_add_value. assert (E : (sval (mkSc 0 0) == 0)%Q) by reflexivity. rewrite E. apply Qplus_0_l. Qed.

Example dec_add_ex :
  dec_add (mkSc 1050 2) (mkSc 1 1) = mkSc 1060 2 /\ dec_add (mkSc (-1) 0) (mkSc 999 3) = mkSc (-1) 3.
Proof. vm_compute. split; reflexivity. Qed.

Print Assumptions dec_add_value.

(* ---------- dec_norm ---------- *)
(* no trailing zero left in the fraction *)
Definition normal_mk (m : Z) (k : nat) : Prop := k = O \/ m mod 10 <> 0.
Definition normal (s : score) : Prop := normal_mk (sc_m s) (sc_k s).

(* whatever the fuel: only factors 10 are removed, together with as many fraction places *)
Theorem dec_norm_sound f : forall m k m' k',
  dec_norm f m k = (m', k') -> (k' <= k)%nat /\ m = m' * 10 ^ Z.of_nat (k - k').
Proof.
  induction f as [|f IH]; intros m k m' k' H.
  - simpl in H. inversion H; subst. rewrite Nat.sub_diag. simpl. lia.
  - destruct k as [|k]; [simpl in H; inversion H; subst; simpl; lia|].
    cbn [dec_norm] in H. destruct (Z.eqb_spec (m mod 10) 0) as [E|E].
    + apply IH in H as (H1 & H2). split; [lia|].
      replace (S k - k')%nat with (S (k - k')) by lia.
      rewrite Nat2Z.inj_succ, Z.pow_succ_r by lia.
      pose proof (Z.div_mod m 10 ltac:(lia)) as DM. rewrite E, H2 in DM. lia.
    + inversion H; subst. rewrite Nat.sub_diag. simpl. lia.
Qed.

Theorem dec_norm_spec f : forall m k m' k',
  (k <= f)%nat -> dec_norm f m k = (m', k') ->
  (k' <= k)%nat /\ m = m' * 10 ^ Z.of_nat (k - k') /\ normal_mk m' k'.
Proof.
  induction f as [|f IH]; intros m k m' k' Hk H.
  - assert (k = O) by lia. subst k. simpl in H. inversion H; subst.
    split; [lia|]. split; [simpl; lia | left; reflexivity].
  - destruct k as [|k].
    + simpl in H. inversion H; subst. split; [lia|]. split; [simpl; lia | left; reflexivity].
    + cbn [dec_norm] in H. destruct (Z.eqb_spec (m mod 10) 0) as [E|E].
      * apply IH in H; [|lia]. destruct H as (H1 & H2 & H3). split; [lia|]. split; [|exact H3].
        replace (S k - k')%nat with (S (k - k')) by lia.
        rewrite Nat2Z.inj_succ, Z.pow_succ_r by lia.
        pose proof (Z.div_mod m 10 ltac:(lia)) as DM. rewrite E, H2 in DM. lia.
      * inversion H; subst. split; [lia|]. split; [|right; exact E].
        rewrite Nat.sub_diag. simpl. lia.
Qed.

(* the value m / 10^k is preserved *)
Theorem dec_norm_value f m k m' k' :
  (k <= f)%nat -> dec_norm f m k = (m', k') -> (sval (mkSc m' k') == sval (mkSc m k))%Q.
Proof.
  intros Hk H. apply dec_norm_spec in H as (H1 & H2 & _); [|exact Hk].
  apply sval_eq_cross. cbn [sc_m sc_k]. rewrite H2, (pow10_split k' k H1). ring.
Qed.

(* the same, written with the quotient of Q *)
Corollary dec_norm_value_div f m k m' k' :
  (k <= f)%nat -> dec_norm f m k = (m', k') ->
  (inject_Z m' / inject_Z (10 ^ Z.of_nat k') == inject_Z m / inject_Z (10 ^ Z.of_nat k))%Q.
Proof.
  intros Hk H. pose proof (dec_norm_value f m k m' k' Hk H) as V. rewrite !sval_div in V. exact V.
Qed.

Theorem dec_norm_zero f k : (k <= f)%nat -> dec_norm f 0 k = (0, O).
Proof.
  intro Hk. destruct (dec_norm f 0 k) as [m' k'] eqn:E.
  apply dec_norm_spec in E as (H1 & H2 & H3); [|exact Hk].
  pose proof (pow10_pos (k - k')) as P.
  assert (m' = 0) by nia. subst m'.
  destruct H3 as [->|H3]; [reflexivity|]. exfalso. apply H3. reflexivity.
Qed.

Example dec_norm_ex :
  dec_norm 3 1500 3 = (15, 1%nat) /\ dec_norm 2 (-700) 2 = (-7, O) /\ dec_norm 4 1001 4 = (1001, 4%nat) /\
  dec_norm 5 0 5 = (0, O).
Proof. vm_compute. repeat split. Qed.

Print Assumptions dec_norm_sound.
Print Assumptions dec_norm_spec.
Print Assumptions dec_norm_value_div.
Print Assumptions dec_norm_value.
Print Assumptions dec_norm_zero.

(* ---------- the normal form of a score ---------- *)
Definition snorm (s : score) : score :=
  let '(m, k) := dec_norm (sc_k s) (sc_m s) (sc_k s) in mkSc m k.

Theorem snorm_value s : (sval (snorm s) == sval s)%Q.
Proof.
  unfold snorm. destruct (dec_norm (sc_k s) (sc_m s) (sc_k s)) as [m k] eqn:E.
  destruct s as [m0 k0]. apply (dec_norm_value k0 m0 k0); [apply Nat.le_refl | exact E].
Qed.

Theorem snorm_normal s : normal (snorm s).
Proof.
  unfold snorm. destruct (dec_norm (sc_k s) (sc_m s) (sc_k s)) as [m k] eqn:E.
  apply dec_norm_spec in E as (_ & _ & H); [exact H | apply Nat.le_refl].
Qed.

Lemma snorm_scale_le s : (sc_k (snorm s) <= sc_k s)%nat.
Proof.
  unfold snorm. destruct (dec_norm (sc_k s) (sc_m s) (sc_k s)) as [m k] eqn:E.
  apply dec_norm_spec in E as (H & _ & _); [exact H | apply Nat.le_refl].
Qed.

Lemma mul_pow10_mod m j : (0 < j)%nat -> (m * 10 ^ Z.of_nat j) mod 10 = 0.
Proof.
  intro H. replace j with (S (j - 1)) by lia. rewrite Nat2Z.inj_succ, Z.pow_succ_r by lia.
  replace (m * (10 * 10 ^ Z.of_nat (j - 1))) with (m * 10 ^ Z.of_nat (j - 1) * 10) by ring.
  apply Z.mod_mul. lia.
Qed.

Lemma normal_unique_le m1 k1 m2 k2 :
  (k1 <= k2)%nat -> normal_mk m2 k2 ->
  m1 * 10 ^ Z.of_nat k2 = m2 * 10 ^ Z.of_nat k1 -> m1 = m2 /\ k1 = k2.
Proof.
  intros Hle N2 H. rewrite (pow10_split k1 k2 Hle) in H.
  pose proof (pow10_pos k1) as P1.
  assert (E : m1 * 10 ^ Z.of_nat (k2 - k1) = m2) by nia.
  destruct (Nat.eq_dec k1 k2) as [->|Hne].
  - rewrite Nat.sub_diag in E. simpl in E. split; [lia | reflexivity].
  - exfalso. destruct N2 as [->|N2]; [lia|]. apply N2. rewrite <- E. apply mul_pow10_mod. lia.
Qed.

(* a value has exactly one normal representation *)
Theorem normal_unique a b : normal a -> normal b -> (sval a == sval b)%Q -> a = b.
Proof.
  destruct a as [m1 k1], b as [m2 k2]. unfold normal. cbn [sc_m sc_k]. intros N1 N2 H.
  apply sval_eq_cross in H. cbn [sc_m sc_k] in H.
  destruct (Nat.le_ge_cases k1 k2) as [L|L].
  - destruct (normal_unique_le m1 k1 m2 k2 L N2 H) as [-> ->]. reflexivity.
  - symmetry in H. destruct (normal_unique_le m2 k2 m1 k1 L N1 H) as [-> ->]. reflexivity.
Qed.

(* equal values have the same normal form *)
Theorem snorm_canonical a b : (sval a == sval b)%Q -> snorm a = snorm b.
Proof.
  intro H. apply normal_unique; [apply snorm_normal | apply snorm_normal|].
  rewrite !snorm_value. exact H.
Qed.

Theorem snorm_of_normal s : normal s -> snorm s = s.
Proof. intro H. apply normal_unique; [apply snorm_normal | exact H | apply snorm_value]. Qed.

Corollary snorm_idem s : snorm (snorm s) = snorm s.
Proof. apply snorm_of_normal, snorm_normal. Qed.

Example snorm_ex : snorm (mkSc 10500 3) = mkSc 105 1 /\ snorm (mkSc 0 4) = mkSc 0 0 /\ snorm (mkSc (-20) 1) = mkSc (-2) 0.
Proof. vm_compute. repeat split. Qed.

Print Assumptions normal_unique.
Print Assumptions snorm_canonical.

(* ================================================================== *)
(* 2. PRINTING                                                         *)
(* ================================================================== *)

(* the text of mantissa m at scale k *)
Definition frac_of (m : Z) (k : nat) : option bytes :=
  match k with
  | O => None
  | _ => Some (pad_zeros k (Z_to_bytes (Z.abs m mod 10 ^ Z.of_nat k)))
  end.

Definition sign_text (m : Z) : bytes := if m <? 0 then [45%N] else [].
Definition int_text (m : Z) (k : nat) : bytes := Z_to_bytes (Z.abs m / 10 ^ Z.of_nat k).

Definition print_mk (m : Z) (k : nat) : bytes := sign_text m ++ int_text m k ++ frac_text (frac_of m k).

Lemma dec_print_snorm s : dec_print s = print_mk (sc_m (snorm s)) (sc_k (snorm s)).
Proof.
  unfold dec_print, snorm. destruct (dec_norm (sc_k s) (sc_m s) (sc_k s)) as [m k].
  cbn [sc_m sc_k]. unfold print_mk, sign_text, int_text, frac_of, frac_text.
  destruct k as [|k]; destruct (m <? 0); cbn [app]; rewrite ?List.app_nil_r; reflexivity.
Qed.

Lemma abs_div_nonneg m k : 0 <= Z.abs m / 10 ^ Z.of_nat k.
Proof. apply Z.div_pos; [lia | apply pow10_pos]. Qed.

Lemma abs_mod_range m k : 0 <= Z.abs m mod 10 ^ Z.of_nat k < 10 ^ Z.of_nat k.
Proof. apply Z.mod_pos_bound, pow10_pos. Qed.

Lemma frac_of_digits m k : all_digits (frac_digits (frac_of m k)).
Proof.
  destruct k as [|k]; [constructor|]. cbn [frac_of frac_digits].
  apply pad_zeros_digits, Z_to_bytes_digits, abs_mod_range.
Qed.

Lemma frac_of_length m k : length (frac_digits (frac_of m k)) = k.
Proof.
  destruct k as [|k]; [reflexivity|]. cbn [frac_of frac_digits].
  apply pad_zeros_length, Z_to_bytes_length; [apply abs_mod_range | lia].
Qed.

Lemma frac_of_val m k : dec_val (frac_digits (frac_of m k)) = Z.abs m mod 10 ^ Z.of_nat k.
Proof.
  destruct k as [|k].
  - cbn [frac_of frac_digits]. change (10 ^ Z.of_nat 0) with 1. rewrite Z.mod_1_r. reflexivity.
  - cbn [frac_of frac_digits]. rewrite pad_zeros_val. apply Z_to_bytes_val, abs_mod_range.
Qed.

Lemma int_text_digits m k : all_digits (int_text m k).
Proof. apply Z_to_bytes_digits, abs_div_nonneg. Qed.

Lemma sign_text_ok m : sign_ok (sign_text m) (m <? 0).
Proof. unfold sign_ok, sign_text. destruct (m <? 0); [right; right | left]; split; reflexivity. Qed.

(* reading back the text of (m, k) gives exactly (m, k) *)
Theorem parse_print_mk m k : parse_score (print_mk m k) = Some (mkSc m k).
Proof.
  unfold print_mk.
  rewrite (parse_score_complete (sign_text m) (m <? 0) (int_text m k) (frac_of m k)).
  - f_equal. unfold score_of. rewrite frac_of_length. f_equal.
    rewrite dec_val_app, frac_of_length, frac_of_val. unfold int_text.
    rewrite Z_to_bytes_val by apply abs_div_nonneg.
    pose proof (Z.div_mod (Z.abs m) (10 ^ Z.of_nat k)) as DM.
    pose proof (pow10_pos k) as P.
    destruct (Z.ltb_spec m 0); lia.
  - apply sign_text_ok.
  - apply int_text_digits.
  - apply frac_of_digits.
  - intro X. apply app_eq_nil in X as [X _]. exact (Z_to_bytes_nonnil _ X).
Qed.

(* print then parse: the normal form of the score, hence the same value *)
Theorem parse_print_exact s : parse_score (dec_print s) = Some (snorm s).
Proof. rewrite dec_print_snorm, parse_print_mk. destruct (snorm s); reflexivity. Qed.

Theorem parse_print s : exists s', parse_score (dec_print s) = Some s' /\ (sval s' == sval s)%Q.
Proof. exists (snorm s). split; [apply parse_print_exact | apply snorm_value]. Qed.

(* the text is a function of the value *)
Theorem dec_print_canonical a b : (sval a == sval b)%Q -> dec_print a = dec_print b.
Proof. intro H. rewrite !dec_print_snorm, (snorm_canonical a b H). reflexivity. Qed.

(* and determines it *)
Theorem dec_print_injective a b : dec_print a = dec_print b -> (sval a == sval b)%Q.
Proof.
  intro H. pose proof (parse_print_exact a) as Pa. rewrite H, parse_print_exact in Pa.
  inversion Pa as [E]. rewrite <- (snorm_value a), <- (snorm_value b), E. reflexivity.
Qed.

Corollary dec_print_iff a b : dec_print a = dec_print b <-> (sval a == sval b)%Q.
Proof. split; [apply dec_print_injective | apply dec_print_canonical]. Qed.

(* a text that parses is re-printed to the text of its value; canonical texts are fixpoints *)
Theorem print_parse_normal s t : parse_score (dec_print s) = Some t -> dec_print t = dec_print s.
Proof.
  rewrite parse_print_exact. intro H. inversion H; subst. apply dec_print_canonical, snorm_value.
Qed.

Example parse_print_ex :
  dec_print (mkSc 10500 3) = s2b "10.5" /\ parse_score (dec_print (mkSc 10500 3)) = Some (mkSc 105 1) /\
  dec_print (mkSc (-5) 3) = s2b "-0.005" /\ dec_print (mkSc 105 1) = dec_print (mkSc 10500 3).
Proof. vm_compute. repeat split. Qed.

Print Assumptions parse_print_exact.
Print Assumptions parse_print.
Print Assumptions dec_print_canonical.
Print Assumptions dec_print_injective.

(* ---------- the canonical shape ---------- *)
Lemma abs_mod10 m : m mod 10 <> 0 -> Z.abs m mod 10 <> 0.
Proof.
  intros H X. apply H. apply Z.mod_divide in X; [|lia]. apply Z.mod_divide; [lia|].
  exact (proj1 (Z.divide_abs_r 10 m) X).
Qed.

Lemma frac_of_last m k : (0 < k)%nat -> m mod 10 <> 0 ->
  last (frac_digits (frac_of m k)) 48%N <> 48%N.
Proof.
  intros Hk Hm X.
  assert (Hne : frac_digits (frac_of m k) <> []).
  { intro E. pose proof (frac_of_length m k) as L. rewrite E in L. simpl in L. lia. }
  pose proof (last_digit _ 48%N (frac_of_digits m k) Hne) as L.
  rewrite X, frac_of_val in L.
  rewrite <- Znumtheory.Zmod_div_mod in L; [| lia | apply pow10_pos |].
  - apply (abs_mod10 m Hm). change (Z.of_N 48 - 48) with 0 in L. lia.
  - exists (10 ^ Z.of_nat (k - 1)). replace k with (S (k - 1)) at 1 by lia.
    rewrite Nat2Z.inj_succ, Z.pow_succ_r by lia. ring.
Qed.

(* sign, integer part, fraction: what the text looks like.
   - an optional '-' (never '+'), present exactly when the value is negative (so never "-0");
   - an integer part: digits, at least one, no leading zero except the single "0";
   - then nothing, or '.' and a non-empty digit string that does not end in '0'. *)
Theorem dec_print_shape s :
  exists (neg : bool) (ip f : bytes),
    dec_print s = (if neg then [45%N] else []) ++ ip ++ (match f with [] => [] | _ => 46%N :: f end) /\
    all_digits ip /\ ip <> [] /\ (ip = [48%N] \/ hd 48%N ip <> 48%N) /\
    all_digits f /\ last f 49%N <> 48%N /\
    (neg = true <-> (sval s < 0)%Q) /\
    length f = sc_k (snorm s).
Proof.
  pose proof (snorm_normal s) as Nn. pose proof (snorm_value s) as V.
  rewrite dec_print_snorm. destruct (snorm s) as [m k]. unfold normal in Nn. cbn [sc_m sc_k] in *.
  exists (m <? 0), (int_text m k), (frac_digits (frac_of m k)).
  split; [|split; [|split; [|split; [|split; [|split; [|split]]]]]].
  - unfold print_mk, sign_text. f_equal. f_equal.
    destruct k as [|k]; [reflexivity|]. cbn [frac_of frac_text frac_digits].
    pose proof (frac_of_length m (S k)) as L. cbn [frac_of frac_digits] in L.
    destruct (pad_zeros (S k) (Z_to_bytes (Z.abs m mod 10 ^ Z.of_nat (S k)))); [discriminate L | reflexivity].
  - apply int_text_digits.
  - apply Z_to_bytes_nonnil.
  - apply Z_to_bytes_no_leading_zero, abs_div_nonneg.
  - apply frac_of_digits.
  - destruct k as [|k]; [cbn; intro X; discriminate X|].
    destruct Nn as [Nn|Nn]; [discriminate Nn|].
    pose proof (frac_of_last m (S k) ltac:(lia) Nn) as L.
    assert (Hne : frac_digits (frac_of m (S k)) <> []).
    { intro E. pose proof (frac_of_length m (S k)) as L'. rewrite E in L'. discriminate L'. }
    destruct (exists_last Hne) as [l' [c E]]. rewrite E in *. rewrite last_last in *. exact L.
  - rewrite <- V. rewrite sval_neg_iff. cbn [sc_m]. apply Z.ltb_lt.
  - apply frac_of_length.
Qed.

(* zero prints as "0" *)
Theorem dec_print_zero s : (sval s == 0)%Q -> dec_print s = [48%N].
Proof.
  intro H. rewrite (dec_print_canonical s (mkSc 0 0)); [reflexivity|]. rewrite H. reflexivity.
Qed.

Lemma all_digits_in l c : all_digits l -> In c l -> sdigit c = true.
Proof. unfold all_digits. rewrite Forall_forall. auto. Qed.

(* every byte is a digit, '-' or '.'; in particular there is no '+' *)
Theorem dec_print_bytes s c : In c (dec_print s) -> sdigit c = true \/ c = 45%N \/ c = 46%N.
Proof.
  destruct (dec_print_shape s) as (neg & ip & f & E & Hip & _ & _ & Hf & _). rewrite E.
  rewrite !in_app_iff. intros [H|[H|H]].
  - destruct neg; cbn [In] in H; [|contradiction]. destruct H as [H|[]]. right; left; symmetry; exact H.
  - left. exact (all_digits_in _ _ Hip H).
  - destruct f as [|f0 f']; [destruct H|].
    destruct H as [H|H]; [right; right; symmetry; exact H|].
    left. exact (all_digits_in _ _ Hf H).
Qed.

Corollary dec_print_no_plus s : ~ In 43%N (dec_print s).
Proof. intro H. apply dec_print_bytes in H as [H|[H|H]]; discriminate H. Qed.

Lemma last_app_nonnil {A} (l1 l2 : list A) d : l2 <> [] -> last (l1 ++ l2) d = last l2 d.
Proof.
  intro H. destruct (exists_last H) as [l' [c ->]]. rewrite List.app_assoc, !last_last. reflexivity.
Qed.

Lemma last_default_irrel {A} (l : list A) d d' : l <> [] -> last l d = last l d'.
Proof. intro H. destruct (exists_last H) as [l' [c ->]]. rewrite !last_last. reflexivity. Qed.

Lemma last_in {A} (l : list A) d : l <> [] -> In (last l d) l.
Proof.
  intro H. destruct (exists_last H) as [l' [c ->]]. rewrite last_last. apply in_or_app. right; left; reflexivity.
Qed.

(* the text ends in a digit (no trailing '.'), and after a '.' the last digit is not '0' *)
Theorem dec_print_last_is_digit s : sdigit (last (dec_print s) 0%N) = true.
Proof.
  destruct (dec_print_shape s) as (neg & ip & f & E & Hip & Hne & _ & Hf & _). rewrite E.
  destruct f as [|f0 f'].
  - rewrite List.app_nil_r, last_app_nonnil by exact Hne.
    eapply all_digits_in; [exact Hip | apply last_in; exact Hne].
  - rewrite List.app_assoc. change (46%N :: f0 :: f') with ([46%N] ++ f0 :: f').
    rewrite List.app_assoc, last_app_nonnil by discriminate.
    eapply all_digits_in; [exact Hf | apply last_in; discriminate].
Qed.

Corollary dec_print_no_trailing_dot s : last (dec_print s) 0%N <> 46%N.
Proof. intro H. pose proof (dec_print_last_is_digit s) as D. rewrite H in D. discriminate D. Qed.

Theorem dec_print_no_trailing_zero s : In 46%N (dec_print s) -> last (dec_print s) 0%N <> 48%N.
Proof.
  destruct (dec_print_shape s) as (neg & ip & f & E & Hip & Hne & _ & Hf & Hl & _). rewrite E.
  destruct f as [|f0 f'].
  - rewrite List.app_nil_r, in_app_iff. intros [H|H].
    + destruct neg; [destruct H as [H|[]]; discriminate H | destruct H].
    + apply (all_digits_in _ _ Hip) in H. discriminate H.
  - intros _. rewrite List.app_assoc. change (46%N :: f0 :: f') with ([46%N] ++ f0 :: f').
    rewrite List.app_assoc, last_app_nonnil by discriminate.
    rewrite (last_default_irrel (f0 :: f') 0%N 49%N) by discriminate. exact Hl.
Qed.

(* a leading '-' means a negative value: "-0", "-0.0" are never produced *)
Theorem dec_print_minus_negative s : hd 0%N (dec_print s) = 45%N <-> (sval s < 0)%Q.
Proof.
  destruct (dec_print_shape s) as (neg & ip & f & E & Hip & Hne & _ & _ & _ & Hs & _). rewrite E, <- Hs.
  destruct neg; [split; reflexivity|]. cbn [app].
  destruct ip as [|c r]; [congruence|]. cbn [app hd]. inversion Hip as [|? ? Hc _]; subst.
  split; [|discriminate]. intro X. rewrite X in Hc. discriminate Hc.
Qed.

Corollary dec_print_not_minus_zero s : dec_print s <> [45%N; 48%N].
Proof.
  intro H. pose proof (parse_print_exact s) as P. rewrite H in P.
  assert (Z0 : (sval s == 0)%Q).
  { rewrite <- snorm_value. inversion P as [E]. reflexivity. }
  rewrite (dec_print_zero s Z0) in H. discriminate H.
Qed.

Example dec_print_shape_ex :
  dec_print (mkSc (-1500) 3) = s2b "-1.5" /\ dec_print (mkSc 0 3) = s2b "0" /\
  dec_print (mkSc (-0) 2) = s2b "0" /\ dec_print (mkSc 5 1) = s2b "0.5" /\
  dec_print (mkSc 100 0) = s2b "100" /\ dec_print (mkSc 1000001 6) = s2b "1.000001".
Proof. vm_compute. repeat split. Qed.

Print Assumptions dec_print_shape.
Print Assumptions dec_print_zero.
Print Assumptions dec_print_bytes.
Print Assumptions dec_print_last_is_digit.
Print Assumptions dec_print_no_trailing_zero.
Print Assumptions dec_print_minus_negative.
Print Assumptions dec_print_not_minus_zero.

(* ================================================================== *)
(* 3. COMMANDS                                                         *)
(* ================================================================== *)

Lemma expired_exp now e1 e2 : e_exp e1 = e_exp e2 -> expired now e1 = expired now e2.
Proof. unfold expired. intros ->. reflexivity. Qed.

Lemma lookup_some_live now d k e : lookup now d k = Some e -> expired now e = false.
Proof.
  unfold lookup. destruct (aget (d_map d) k) as [e'|]; [|discriminate].
  destruct (expired now e') eqn:X; [discriminate|]. intro H. inversion H; subst. exact X.
Qed.

(* a write that keeps the deadline of a visible entry (or sets none) is visible *)
Lemma lookup_put_keep now d k v e :
  expired now e = false ->
  lookup now (put d k v (e_exp e)) k = Some (mkE v (e_exp e) (d_next d + 1)%N).
Proof.
  intro L. rewrite lookup_put_same. cbv zeta.
  rewrite (expired_exp now _ e) by reflexivity. rewrite L. reflexivity.
Qed.

Lemma lookup_put_none now d k v :
  lookup now (put d k v None) k = Some (mkE v None (d_next d + 1)%N).
Proof. rewrite lookup_put_same. reflexivity. Qed.

(* the text stored by an increment: its value is the sum *)
Lemma sum_text a b :
  exists s', parse_score (dec_print (dec_add a b)) = Some s' /\ (sval s' == sval a + sval b)%Q.
Proof.
  exists (snorm (dec_add a b)). split; [apply parse_print_exact|].
  rewrite snorm_value. apply dec_add_value.
Qed.

(* ---------- INCRBYFLOAT ---------- *)

(* an error reply never comes with a change of the database, whatever the arguments *)
Theorem incrbyfloat_error_inert now d args e :
  snd (cmd_incrbyfloat now d args) = RErr e -> fst (cmd_incrbyfloat now d args) = d.
Proof.
  unfold cmd_incrbyfloat. destruct args as [|k [|inc [|x r]]]; try (intros _; reflexivity).
  destruct (lookup now d k) as [en|].
  - destruct (str_of en) as [old|]; [|intros _; reflexivity].
    destruct (parse_score old); [|intros _; reflexivity].
    destruct (parse_score inc); [intro H; discriminate H | intros _; reflexivity].
  - destruct (parse_score inc); [intro H; discriminate H | intros _; reflexivity].
Qed.

Theorem incrbyfloat_arity now d args : length args <> 2%nat -> cmd_incrbyfloat now d args = (d, argerr).
Proof. destruct args as [|k [|inc [|x r]]]; simpl; intro H; try reflexivity. congruence. Qed.

(* a key of another type: WRONGTYPE whatever the increment is (Redis tests the type first) *)
Theorem incrbyfloat_wrongtype now d k inc e :
  lookup now d k = Some e -> str_of e = None ->
  cmd_incrbyfloat now d [k; inc] = (d, wrongtype).
Proof. intros H2 H3. unfold cmd_incrbyfloat. rewrite H2, H3. reflexivity. Qed.

Lemma str_of_none_iff e : str_of e = None <-> type_of (e_val e) <> TStr.
Proof. unfold str_of. destruct (e_val e); simpl; split; congruence. Qed.

(* a stored text that is not a number: refused whatever the increment is *)
Theorem incrbyfloat_bad_old now d k inc e old :
  lookup now d k = Some e -> str_of e = Some old -> parse_score old = None ->
  cmd_incrbyfloat now d [k; inc] = (d, notfloat).
Proof. intros H2 H3 H4. unfold cmd_incrbyfloat. rewrite H2, H3, H4. reflexivity. Qed.

(* an increment that is not a number is refused unless one of the two earlier tests already refused *)
Theorem incrbyfloat_bad_increment now d k inc :
  parse_score inc = None ->
  (lookup now d k = None \/ exists e old a, lookup now d k = Some e /\ str_of e = Some old /\ parse_score old = Some a) ->
  cmd_incrbyfloat now d [k; inc] = (d, notfloat).
Proof.
  intros H [L|(e & old & a & L & S & O)]; unfold cmd_incrbyfloat.
  - rewrite L, H. reflexivity.
  - rewrite L, S, O, H. reflexivity.
Qed.

(* success on an existing string: the text of the exact sum is stored under the old deadline and
   returned; it reads back as the sum; no other key is touched *)
Theorem incrbyfloat_existing now d k inc e old a b :
  lookup now d k = Some e -> str_of e = Some old -> parse_score old = Some a -> parse_score inc = Some b ->
  let t := dec_print (dec_add a b) in
  let d' := put d k (VStr t) (e_exp e) in
  cmd_incrbyfloat now d [k; inc] = (d', RBulk t) /\
  lookup now d' k = Some (mkE (VStr t) (e_exp e) (d_next d + 1)%N) /\
  (exists s', parse_score t = Some s' /\ (sval s' == sval a + sval b)%Q) /\
  (forall k', k' <> k -> lookup now d' k' = lookup now d k').
Proof.
  intros H1 H2 H3 H4 t d'. split; [|split; [|split]].
  - unfold cmd_incrbyfloat. rewrite H1, H2, H3, H4. reflexivity.
  - apply lookup_put_keep. eapply lookup_some_live. exact H1.
  - apply sum_text.
  - intros k' Hk. apply lookup_put_other. exact Hk.
Qed.

(* a missing (or expired) key: the canonical text of the increment, no deadline *)
Theorem incrbyfloat_missing now d k inc b :
  lookup now d k = None -> parse_score inc = Some b ->
  let t := dec_print b in
  let d' := put d k (VStr t) None in
  cmd_incrbyfloat now d [k; inc] = (d', RBulk t) /\
  lookup now d' k = Some (mkE (VStr t) None (d_next d + 1)%N) /\
  (exists s', parse_score t = Some s' /\ (sval s' == sval b)%Q) /\
  (forall k', k' <> k -> lookup now d' k' = lookup now d k').
Proof.
  intros H1 H2 t d'. split; [|split; [|split]].
  - unfold cmd_incrbyfloat. rewrite H1, H2. reflexivity.
  - apply lookup_put_none.
  - apply parse_print.
  - intros k' Hk. apply lookup_put_other. exact Hk.
Qed.

(* ... which is what an old value of 0 would have given *)
Theorem incrbyfloat_missing_as_zero b : dec_print b = dec_print (dec_add (mkSc 0 0) b).
Proof. apply dec_print_canonical. symmetry. apply dec_add_zero_value. Qed.

(* exhaustive: the reply is one of the four errors or the new text *)
Theorem incrbyfloat_reply_cases now d args :
  let r := cmd_incrbyfloat now d args in
  (fst r = d /\ (snd r = argerr \/ snd r = notfloat \/ snd r = wrongtype)) \/
  (exists k inc b cur exp, args = [k; inc] /\ parse_score inc = Some b /\
     (lookup now d k = None /\ cur = mkSc 0 0 /\ exp = None \/
      exists e old, lookup now d k = Some e /\ str_of e = Some old /\ parse_score old = Some cur /\ exp = e_exp e) /\
     r = (put d k (VStr (dec_print (dec_add cur b))) exp, RBulk (dec_print (dec_add cur b)))).
Proof.
  cbv zeta. unfold cmd_incrbyfloat. destruct args as [|k [|inc [|x r]]]; try (left; split; [reflexivity | left; reflexivity]).
  destruct (lookup now d k) as [e|] eqn:L.
  - destruct (str_of e) as [old|] eqn:S; [|left; split; [reflexivity | right; right; reflexivity]].
    destruct (parse_score old) as [cur|] eqn:O; [|left; split; [reflexivity | right; left; reflexivity]].
    destruct (parse_score inc) as [b|] eqn:P; [|left; split; [reflexivity | right; left; reflexivity]].
    right. exists k, inc, b, cur, (e_exp e). split; [reflexivity|]. split; [exact P|].
    split; [|reflexivity]. right. exists e, old. repeat split; assumption.
  - destruct (parse_score inc) as [b|] eqn:P; [|left; split; [reflexivity | right; left; reflexivity]].
    right. exists k, inc, b, (mkSc 0 0), None. split; [reflexivity|]. split; [exact P|].
    split; [left; split; [exact L | split; reflexivity]|].
    rewrite <- incrbyfloat_missing_as_zero. reflexivity.
Qed.

Definition ex_db : db :=
  put (put (put empty_db (s2b "k") (VStr (s2b "10.50")) (Some 100)) (s2b "l") (VList [s2b "x"]) None)
      (s2b "bad") (VStr (s2b "abc")) None.

Example incrbyfloat_ex :
  cmd_incrbyfloat 50 ex_db [s2b "k"; s2b "0.1"] = (put ex_db (s2b "k") (VStr (s2b "10.6")) (Some 100), RBulk (s2b "10.6")) /\
  cmd_incrbyfloat 50 ex_db [s2b "k"; s2b "1e3"] = (ex_db, notfloat) /\
  cmd_incrbyfloat 50 ex_db [s2b "l"; s2b "1"] = (ex_db, wrongtype) /\
  cmd_incrbyfloat 50 ex_db [s2b "l"; s2b "abc"] = (ex_db, wrongtype) /\
  cmd_incrbyfloat 50 ex_db [s2b "bad"; s2b "abc"] = (ex_db, notfloat) /\
  cmd_incrbyfloat 50 ex_db [s2b "bad"; s2b "1"] = (ex_db, notfloat) /\
  cmd_incrbyfloat 50 ex_db [s2b "new"; s2b "+2.50"] = (put ex_db (s2b "new") (VStr (s2b "2.5")) None, RBulk (s2b "2.5")) /\
  (* the deadline has passed: the key counts as missing, the new value has no deadline *)
  cmd_incrbyfloat 200 ex_db [s2b "k"; s2b "0.1"] = (put ex_db (s2b "k") (VStr (s2b "0.1")) None, RBulk (s2b "0.1")).
Proof. vm_compute. repeat split. Qed.

Print Assumptions incrbyfloat_error_inert.
Print Assumptions incrbyfloat_existing.
Print Assumptions incrbyfloat_missing.
Print Assumptions incrbyfloat_reply_cases.

(* ---------- HINCRBYFLOAT ---------- *)
Lemma aset_nonnil {V} (m : list (bytes * V)) k v : aset m k v <> [].
Proof. destruct m as [|[k' v'] m]; simpl; [discriminate|]. destruct (bytes_eqb k k'); discriminate. Qed.

Lemma put_hash_aset d k h f t exp : put_hash d k (aset h f t) exp = put d k (VHash (aset h f t)) exp.
Proof.
  unfold put_hash, put_or_del, is_empty_agg.
  destruct (aset h f t) eqn:E; [exfalso; exact (aset_nonnil h f t E) | reflexivity].
Qed.

Lemma get_hash_hash now d k e h :
  lookup now d k = Some e -> e_val e = VHash h -> get_hash now d k = Some (Some (h, e_exp e)).
Proof. intros H1 H2. unfold get_hash, hash_of. rewrite H1, H2. reflexivity. Qed.

Lemma get_hash_missing now d k : lookup now d k = None -> get_hash now d k = Some None.
Proof. intro H. unfold get_hash. rewrite H. reflexivity. Qed.

Theorem hincrbyfloat_error_inert now d args e :
  snd (cmd_hincrbyfloat now d args) = RErr e -> fst (cmd_hincrbyfloat now d args) = d.
Proof.
  unfold cmd_hincrbyfloat. destruct args as [|k [|f [|inc [|x r]]]]; try (intros _; reflexivity).
  destruct (parse_score inc) as [delta|]; [|intros _; reflexivity].
  destruct (get_hash now d k) as [cur|]; [|intros _; reflexivity].
  destruct (match cur with Some (h, e0) => (h, e0) | None => ([], None) end) as [h0 exp].
  destruct (aget h0 f) as [old|]; [|intro H; discriminate H].
  destruct (parse_score old); [intro H; discriminate H | intros _; reflexivity].
Qed.

Theorem hincrbyfloat_arity now d args : length args <> 3%nat -> cmd_hincrbyfloat now d args = (d, argerr).
Proof. destruct args as [|k [|f [|inc [|x r]]]]; simpl; intro H; try reflexivity. congruence. Qed.

Theorem hincrbyfloat_bad_increment now d k f inc :
  parse_score inc = None -> cmd_hincrbyfloat now d [k; f; inc] = (d, notfloat).
Proof. intro H. unfold cmd_hincrbyfloat. rewrite H. reflexivity. Qed.

Theorem hincrbyfloat_wrongtype now d k f inc e b :
  parse_score inc = Some b -> lookup now d k = Some e -> hash_of e = None ->
  cmd_hincrbyfloat now d [k; f; inc] = (d, wrongtype).
Proof.
  intros H1 H2 H3. unfold cmd_hincrbyfloat, get_hash. rewrite H1, H2, H3. reflexivity.
Qed.

Lemma hash_of_none_iff e : hash_of e = None <-> type_of (e_val e) <> THash.
Proof. unfold hash_of. destruct (e_val e); simpl; split; congruence. Qed.

Theorem hincrbyfloat_bad_old now d k f inc e h old b :
  parse_score inc = Some b -> lookup now d k = Some e -> e_val e = VHash h ->
  aget h f = Some old -> parse_score old = None ->
  cmd_hincrbyfloat now d [k; f; inc] = (d, err "ERR hash value is not a float").
Proof.
  intros H1 H2 H3 H4 H5. unfold cmd_hincrbyfloat.
  rewrite H1, (get_hash_hash now d k e h H2 H3), H4, H5. reflexivity.
Qed.

(* the common conclusion: d' holds hash h' at k under deadline exp, h' is h with only field f
   changed to t, every other key is as before *)
Definition hash_field_written (now : Z) (d d' : db) (k f t : bytes) (h : list (bytes * bytes)) (exp : option Z) : Prop :=
  exists h', d' = put d k (VHash h') exp /\
    lookup now d' k = Some (mkE (VHash h') exp (d_next d + 1)%N) /\
    aget h' f = Some t /\
    (forall f', f' <> f -> aget h' f' = aget h f') /\
    (forall k', k' <> k -> lookup now d' k' = lookup now d k').

Lemma hash_field_written_aset now d k f t h exp :
  (forall v n, expired now (mkE v exp n) = false) ->
  hash_field_written now d (put_hash d k (aset h f t) exp) k f t h exp.
Proof.
  intro L. exists (aset h f t). rewrite put_hash_aset. split; [reflexivity|]. split; [|split; [|split]].
  - rewrite lookup_put_same. cbv zeta. rewrite L. reflexivity.
  - apply aget_aset_same.
  - intros f' Hf. apply aget_aset_other. exact Hf.
  - intros k' Hk. apply lookup_put_other. exact Hk.
Qed.

(* an existing field holding a number: the exact sum, deadline of the hash kept *)
Theorem hincrbyfloat_existing_field now d k f inc e h old a b :
  lookup now d k = Some e -> e_val e = VHash h -> aget h f = Some old ->
  parse_score old = Some a -> parse_score inc = Some b ->
  let t := dec_print (dec_add a b) in
  let r := cmd_hincrbyfloat now d [k; f; inc] in
  snd r = RDouble t /\
  hash_field_written now d (fst r) k f t h (e_exp e) /\
  (exists s', parse_score t = Some s' /\ (sval s' == sval a + sval b)%Q).
Proof.
  intros H1 H2 H3 H4 H5 t r.
  assert (E : r = (put_hash d k (aset h f t) (e_exp e), RDouble t)).
  { unfold r, cmd_hincrbyfloat. rewrite H5, (get_hash_hash now d k e h H1 H2), H3, H4. reflexivity. }
  rewrite E. cbn [fst snd]. split; [reflexivity|]. split; [|apply sum_text].
  apply hash_field_written_aset. intros v n.
  rewrite (expired_exp now _ e) by reflexivity. eapply lookup_some_live. exact H1.
Qed.

(* a field the hash does not have: the canonical text of the increment *)
Theorem hincrbyfloat_new_field now d k f inc e h b :
  lookup now d k = Some e -> e_val e = VHash h -> aget h f = None -> parse_score inc = Some b ->
  let t := dec_print b in
  let r := cmd_hincrbyfloat now d [k; f; inc] in
  snd r = RDouble t /\
  hash_field_written now d (fst r) k f t h (e_exp e) /\
  (exists s', parse_score t = Some s' /\ (sval s' == sval b)%Q).
Proof.
  intros H1 H2 H3 H5 t r.
  assert (E : r = (put_hash d k (aset h f t) (e_exp e), RDouble t)).
  { unfold r, cmd_hincrbyfloat. rewrite H5, (get_hash_hash now d k e h H1 H2), H3. reflexivity. }
  rewrite E. cbn [fst snd]. split; [reflexivity|]. split; [|apply parse_print].
  apply hash_field_written_aset. intros v n.
  rewrite (expired_exp now _ e) by reflexivity. eapply lookup_some_live. exact H1.
Qed.

(* a missing key: a new hash with the single field, no deadline *)
Theorem hincrbyfloat_missing_key now d k f inc b :
  lookup now d k = None -> parse_score inc = Some b ->
  let t := dec_print b in
  cmd_hincrbyfloat now d [k; f; inc] = (put d k (VHash [(f, t)]) None, RDouble t) /\
  hash_field_written now d (put d k (VHash [(f, t)]) None) k f t [] None /\
  (exists s', parse_score t = Some s' /\ (sval s' == sval b)%Q).
Proof.
  intros H1 H5 t.
  assert (E : cmd_hincrbyfloat now d [k; f; inc] = (put_hash d k (aset [] f t) None, RDouble t)).
  { unfold cmd_hincrbyfloat. rewrite H5, (get_hash_missing now d k H1). reflexivity. }
  split; [|split; [|apply parse_print]].
  - rewrite E, put_hash_aset. reflexivity.
  - pose proof (hash_field_written_aset now d k f t [] None (fun v n => eq_refl)) as W.
    rewrite put_hash_aset in W. exact W.
Qed.

Definition ex_hdb : db :=
  put (put empty_db (s2b "h") (VHash [(s2b "a", s2b "5.6"); (s2b "b", s2b "x")]) (Some 100))
      (s2b "s") (VStr (s2b "1")) None.

Example hincrbyfloat_ex :
  cmd_hincrbyfloat 50 ex_hdb [s2b "h"; s2b "a"; s2b "-5.6"] =
    (put ex_hdb (s2b "h") (VHash [(s2b "a", s2b "0"); (s2b "b", s2b "x")]) (Some 100), RDouble (s2b "0")) /\
  cmd_hincrbyfloat 50 ex_hdb [s2b "h"; s2b "c"; s2b "1.50"] =
    (put ex_hdb (s2b "h") (VHash [(s2b "a", s2b "5.6"); (s2b "b", s2b "x"); (s2b "c", s2b "1.5")]) (Some 100),
     RDouble (s2b "1.5")) /\
  cmd_hincrbyfloat 50 ex_hdb [s2b "h"; s2b "b"; s2b "1"] = (ex_hdb, err "ERR hash value is not a float") /\
  cmd_hincrbyfloat 50 ex_hdb [s2b "s"; s2b "a"; s2b "1"] = (ex_hdb, wrongtype) /\
  cmd_hincrbyfloat 50 ex_hdb [s2b "h"; s2b "a"; s2b "one"] = (ex_hdb, notfloat) /\
  cmd_hincrbyfloat 50 ex_hdb [s2b "n"; s2b "a"; s2b ".5"] =
    (put ex_hdb (s2b "n") (VHash [(s2b "a", s2b "0.5")]) None, RDouble (s2b "0.5")).
Proof. vm_compute. repeat split. Qed.

Print Assumptions hincrbyfloat_error_inert.
Print Assumptions hincrbyfloat_existing_field.
Print Assumptions hincrbyfloat_new_field.
Print Assumptions hincrbyfloat_missing_key.

(* ================================================================== *)
(* 4. ORDER INDEPENDENCE                                               *)
(* ================================================================== *)

Lemma aset_aset_same {V} (m : list (bytes * V)) k v1 v2 : aset (aset m k v1) k v2 = aset m k v2.
Proof.
  induction m as [|[k' v'] m IH]; simpl.
  - rewrite bytes_eqb_refl. reflexivity.
  - destruct (bytes_eqb k k') eqn:E; simpl.
    + rewrite bytes_eqb_refl. reflexivity.
    + rewrite E, IH. reflexivity.
Qed.

(* two successive increments of a key holding a number (the key still being alive at the
   second one): the final text is the text of old + b1 + b2, the deadline is still the old one *)
Theorem incrbyfloat_twice now1 now2 d k inc1 inc2 e old a b1 b2 :
  lookup now1 d k = Some e -> expired now2 e = false -> str_of e = Some old ->
  parse_score old = Some a -> parse_score inc1 = Some b1 -> parse_score inc2 = Some b2 ->
  let t := dec_print (dec_add (dec_add a b1) b2) in
  let d1 := fst (cmd_incrbyfloat now1 d [k; inc1]) in
  cmd_incrbyfloat now2 d1 [k; inc2] =
    (mkDb (aset (d_map d) k (mkE (VStr t) (e_exp e) (d_next d + 1 + 1)%N)) (d_next d + 1 + 1)%N true, RBulk t).
Proof.
  intros H1 H2 H3 H4 H5 H6 t d1.
  destruct (incrbyfloat_existing now1 d k inc1 e old a b1 H1 H3 H4 H5) as (E1 & _).
  unfold d1. rewrite E1. cbn [fst].
  set (t1 := dec_print (dec_add a b1)).
  assert (L : lookup now2 (put d k (VStr t1) (e_exp e)) k = Some (mkE (VStr t1) (e_exp e) (d_next d + 1)%N)).
  { apply lookup_put_keep. exact H2. }
  destruct (incrbyfloat_existing now2 _ k inc2 _ t1 (snorm (dec_add a b1)) b2 L eq_refl
              (parse_print_exact _) H6) as (E2 & _).
  rewrite E2. cbn [e_exp].
  assert (T : dec_print (dec_add (snorm (dec_add a b1)) b2) = t).
  { apply dec_print_canonical. rewrite !dec_add_value, snorm_value, dec_add_value. reflexivity. }
  rewrite T. unfold put. cbn [d_map d_next]. rewrite aset_aset_same. reflexivity.
Qed.

(* so the order of the two increments does not matter: same database (text, deadline, version
   counter and all), same final reply *)
Theorem incrbyfloat_commute now1 now2 d k inc1 inc2 e old a b1 b2 :
  lookup now1 d k = Some e -> expired now2 e = false -> str_of e = Some old ->
  parse_score old = Some a -> parse_score inc1 = Some b1 -> parse_score inc2 = Some b2 ->
  cmd_incrbyfloat now2 (fst (cmd_incrbyfloat now1 d [k; inc1])) [k; inc2] =
  cmd_incrbyfloat now2 (fst (cmd_incrbyfloat now1 d [k; inc2])) [k; inc1].
Proof.
  intros H1 H2 H3 H4 H5 H6.
  rewrite (incrbyfloat_twice now1 now2 d k inc1 inc2 e old a b1 b2 H1 H2 H3 H4 H5 H6).
  rewrite (incrbyfloat_twice now1 now2 d k inc2 inc1 e old a b2 b1 H1 H2 H3 H4 H6 H5).
  assert (T : dec_print (dec_add (dec_add a b1) b2) = dec_print (dec_add (dec_add a b2) b1)).
  { apply dec_print_canonical. rewrite !dec_add_value. ring. }
  rewrite T. reflexivity.
Qed.

(* and one increment by any text whose value is b1 + b2 stores and returns the same text under
   the same deadline (only the version counter tells the two histories apart) *)
Theorem incrbyfloat_merge now1 now2 d k inc1 inc2 inc12 e old a b1 b2 b12 :
  lookup now1 d k = Some e -> expired now2 e = false -> str_of e = Some old ->
  parse_score old = Some a -> parse_score inc1 = Some b1 -> parse_score inc2 = Some b2 ->
  parse_score inc12 = Some b12 -> (sval b12 == sval b1 + sval b2)%Q ->
  let r2 := cmd_incrbyfloat now2 (fst (cmd_incrbyfloat now1 d [k; inc1])) [k; inc2] in
  let r1 := cmd_incrbyfloat now1 d [k; inc12] in
  snd r2 = snd r1 /\
  exists t, snd r1 = RBulk t /\
    lookup now2 (fst r2) k = Some (mkE (VStr t) (e_exp e) (d_next d + 1 + 1)%N) /\
    lookup now1 (fst r1) k = Some (mkE (VStr t) (e_exp e) (d_next d + 1)%N) /\
    (forall k', k' <> k -> lookup now2 (fst r2) k' = lookup now2 (fst r1) k').
Proof.
  intros H1 H2 H3 H4 H5 H6 H7 H8 r2 r1.
  assert (E2 := incrbyfloat_twice now1 now2 d k inc1 inc2 e old a b1 b2 H1 H2 H3 H4 H5 H6).
  cbv zeta in E2. fold r2 in E2.
  destruct (incrbyfloat_existing now1 d k inc12 e old a b12 H1 H3 H4 H7) as (E1 & L1 & _ & O1).
  fold r1 in E1.
  assert (T : dec_print (dec_add (dec_add a b1) b2) = dec_print (dec_add a b12)).
  { apply dec_print_canonical. rewrite !dec_add_value, H8. ring. }
  rewrite T in E2. set (t := dec_print (dec_add a b12)) in *.
  rewrite E1, E2. cbn [fst snd]. split; [reflexivity|]. exists t. split; [reflexivity|].
  split; [|split].
  - unfold lookup. cbn [d_map]. rewrite aget_aset_same.
    rewrite (expired_exp now2 _ e) by reflexivity. rewrite H2. reflexivity.
  - exact L1.
  - intros k' Hk. unfold lookup, put. cbn [d_map]. rewrite !aget_aset_other by exact Hk. reflexivity.
Qed.

(* a text written by the command is a fixpoint: incrementing it by (any spelling of) zero stores
   and returns the very same text. (A text written by SET need not be: "1.000" becomes "1".) *)
Theorem incrbyfloat_zero_fixpoint now d k inc e s b :
  lookup now d k = Some e -> str_of e = Some (dec_print s) -> parse_score inc = Some b ->
  (sval b == 0)%Q ->
  cmd_incrbyfloat now d [k; inc] = (put d k (VStr (dec_print s)) (e_exp e), RBulk (dec_print s)).
Proof.
  intros H1 H2 H3 H4.
  destruct (incrbyfloat_existing now d k inc e (dec_print s) (snorm s) b H1 H2 (parse_print_exact s) H3)
    as (E & _).
  rewrite E.
  assert (T : dec_print (dec_add (snorm s) b) = dec_print s).
  { apply dec_print_canonical. rewrite dec_add_value, snorm_value, H4. apply Qplus_0_r. }
  rewrite T. reflexivity.
Qed.

Example incrbyfloat_zero_fixpoint_ex :
  let d := put empty_db (s2b "k") (VStr (dec_print (mkSc 10500 3))) None in
  cmd_incrbyfloat 0 d [s2b "k"; s2b "-0.00"] = (put d (s2b "k") (VStr (s2b "10.5")) None, RBulk (s2b "10.5")).
Proof. vm_compute. reflexivity. Qed.

Example incrbyfloat_commute_ex :
  let d := ex_db in
  let r12 := cmd_incrbyfloat 60 (fst (cmd_incrbyfloat 50 d [s2b "k"; s2b "0.25"])) [s2b "k"; s2b "-1.750"] in
  let r21 := cmd_incrbyfloat 60 (fst (cmd_incrbyfloat 50 d [s2b "k"; s2b "-1.750"])) [s2b "k"; s2b "0.25"] in
  let r3 := cmd_incrbyfloat 50 d [s2b "k"; s2b "-1.5"] in
  r12 = r21 /\ snd r12 = RBulk (s2b "9") /\ snd r3 = RBulk (s2b "9") /\
  lookup 60 (fst r12) (s2b "k") = Some (mkE (VStr (s2b "9")) (Some 100) 5%N) /\
  lookup 60 (fst r3) (s2b "k") = Some (mkE (VStr (s2b "9")) (Some 100) 4%N).
Proof. vm_compute. repeat split. Qed.

Print Assumptions incrbyfloat_twice.
Print Assumptions incrbyfloat_commute.
Print Assumptions incrbyfloat_merge.
Print Assumptions incrbyfloat_zero_fixpoint.

(* ================================================================== *)
(* 5. EXAMPLES                                                         *)
(* ================================================================== *)
Module Ex5.
  (* INCRBYFLOAT key inc on a database where key holds the text old: the new text *)
  Definition run (old inc : string) : db * resp :=
    cmd_incrbyfloat 0 (put empty_db (s2b "k") (VStr (s2b old)) None) [s2b "k"; s2b inc].
  Definition stored (r : db * resp) : option value :=
    match lookup 0 (fst r) (s2b "k") with Some e => Some (e_val e) | None => None end.
  Definition both (old inc out : string) : Prop :=
    snd (run old inc) = RBulk (s2b out) /\ stored (run old inc) = Some (VStr (s2b out)).

  Example e1 : both "0.1" "0.2" "0.3".            Proof. vm_compute. split; reflexivity. Qed.
  Example e2 : both "10.50" "0.1" "10.6".         Proof. vm_compute. split; reflexivity. Qed.
  Example e3 : both "5.6" "-5.6" "0".             Proof. vm_compute. split; reflexivity. Qed.
  Example e4 : both "-1" "0.999" "-0.001".        Proof. vm_compute. split; reflexivity. Qed.
  Example e5 : parse_score (s2b "1.000") = Some (mkSc 1000 3) /\ dec_print (mkSc 1000 3) = s2b "1".
  Proof. vm_compute. split; reflexivity. Qed.
  Example e6 : parse_score (s2b ".5") = Some (mkSc 5 1) /\ dec_print (mkSc 5 1) = s2b "0.5".
  Proof. vm_compute. split; reflexivity. Qed.
  (* exponent forms are outside the modelled domain: reported as not a float, nothing changes *)
  Example e7 : run "3.0e3" "1" = (put empty_db (s2b "k") (VStr (s2b "3.0e3")) None, notfloat) /\
               snd (run "1" "1e3") = notfloat /\ snd (run "" "1") = notfloat /\ snd (run "1" "-") = notfloat.
  Proof. vm_compute. repeat split. Qed.
  Example e8 : both "1.000" "0" "1" /\ both ".5" "+0" "0.5" /\ both "-0.0" "0.00" "0" /\
               both "99999999999999999999.5" "0.5" "100000000000000000000" /\
               both "0.00000000000000001" "0.00000000000000001" "0.00000000000000002".
  Proof. vm_compute. repeat split. Qed.
  (* outside the modelled domain (more than 17 fractional digits): the model keeps every digit,
     where "%.17Lf" would round *)
  Example e9 : both "0.000000000000000001" "0" "0.000000000000000001".
  Proof. vm_compute. repeat split. Qed.
  Example e10 : snd (cmd_hincrbyfloat 0 (put empty_db (s2b "h") (VHash [(s2b "f", s2b "0.1")]) None)
                       [s2b "h"; s2b "f"; s2b "0.2"]) = RDouble (s2b "0.3").
  Proof. vm_compute. reflexivity. Qed.
End Ex5.
