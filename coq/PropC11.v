(* PropC11.v — properties of the block/wake protocol of the blocking list commands
   (Wait.v: labelled transition system [wstep]), for ALL reachable configurations:
   any number of clients, keys, elements and steps, every interleaving of labels.

   Main results
     C11_conservation          pushed = popped + still in the lists   (as multisets)
     C11_list_order_step / C11_list_order   consumers get list heads, pushes append: FIFO per list
     C11_wt_wf                 wait-table well-formedness
     C11_fifo / C11_fifo_register   wake-up order = registration order
     C11_no_lost_wakeup        list non-empty /\ queue non-empty -> a wake-up is in flight
     C11_quiescent_no_blocked  nothing in flight -> nobody blocked on a non-empty list
     C11_exactly_once_*        one element per blocking command; re-use; in-flight wake-ups can be acted on
*)
From RE Require Import Base Lemmas Wait.
From Coq Require Import List Permutation Lia Arith.
Import ListNotations.
Local Close Scope Z_scope.
Local Open Scope nat_scope.
Local Open Scope list_scope.

(* ------------------------------------------------------------------ *)
(** * Generic facts: association lists of lists *)

Section GL.
  Context {A : Type}.
  Implicit Types (m : list (bytes * list A)) (k : bytes) (l : list A).

  Definition gl m k : list A := match aget m k with Some l => l | None => [] end.
  Definition setl m k l := match l with [] => adel m k | _ => aset m k l end.
  Definition total m : list A := concat (map snd m).

  Lemma gl_setl_same m k l : gl (setl m k l) k = l.
  Proof.
    unfold gl, setl. destruct l as [|a l].
    - rewrite aget_adel_same. reflexivity.
    - rewrite aget_aset_same. reflexivity.
  Qed.

  Lemma gl_setl_other m k k' l : k' <> k -> gl (setl m k l) k' = gl m k'.
  Proof.
    intro Hne. unfold gl, setl. destruct l as [|a l].
    - rewrite aget_adel_other by assumption. reflexivity.
    - rewrite aget_aset_other by assumption. reflexivity.
  Qed.

  Lemma NoDup_setl m k l : NoDup (akeys m) -> NoDup (akeys (setl m k l)).
  Proof.
    intro H. unfold setl. destruct l.
    - apply NoDup_akeys_adel; assumption.
    - apply NoDup_akeys_aset; assumption.
  Qed.

  Lemma adel_notin m k : ~ In k (akeys m) -> adel m k = m.
  Proof.
    induction m as [|[k' v] m IH]; simpl; intro H; [reflexivity|].
    destruct (bytes_eqb k k') eqn:E.
    - apply bytes_eqb_eq in E. subst. exfalso. apply H. left. reflexivity.
    - f_equal. apply IH. intro Hin. apply H. right. exact Hin.
  Qed.

  Lemma aget_notin m k : ~ In k (akeys m) -> aget m k = None.
  Proof.
    intro H. destruct (aget m k) eqn:E; [|reflexivity].
    apply aget_some_in in E. contradiction.
  Qed.

  Lemma total_split m k : NoDup (akeys m) -> Permutation (total m) (gl m k ++ total (adel m k)).
  Proof.
    unfold total, gl. induction m as [|[k' v] m IH]; simpl; intro H; [constructor|].
    inversion H as [|? ? Hnin Hnd]; subst.
    destruct (bytes_eqb k k') eqn:E.
    - apply bytes_eqb_eq in E. subst k'. rewrite (adel_notin m k Hnin). apply Permutation_refl.
    - simpl. specialize (IH Hnd).
      eapply Permutation_trans; [apply Permutation_app_head; exact IH|].
      apply Permutation_app_swap_app.
  Qed.

  Lemma total_aset m k l : NoDup (akeys m) -> Permutation (total (aset m k l)) (l ++ total (adel m k)).
  Proof.
    unfold total. induction m as [|[k' v] m IH]; simpl; intro H.
    - apply Permutation_refl.
    - inversion H as [|? ? Hnin Hnd]; subst.
      destruct (bytes_eqb k k') eqn:E; simpl.
      + apply bytes_eqb_eq in E. subst k'. rewrite (adel_notin m k Hnin). apply Permutation_refl.
      + specialize (IH Hnd).
        eapply Permutation_trans; [apply Permutation_app_head; exact IH|].
        apply Permutation_app_swap_app.
  Qed.

  Lemma total_setl m k l : NoDup (akeys m) -> Permutation (total (setl m k l)) (l ++ total (adel m k)).
  Proof.
    intro H. unfold setl. destruct l as [|a l].
    - apply Permutation_refl.
    - apply total_aset. exact H.
  Qed.
End GL.

(* ------------------------------------------------------------------ *)
(** * Basic facts about the configuration accessors *)

Lemma list_of_gl c k : list_of c k = gl (lists c) k. Proof. reflexivity. Qed.
Lemma queue_of_gl c k : queue_of c k = gl (queues c) k. Proof. reflexivity. Qed.
Lemma set_list_setl ls k l : set_list ls k l = setl ls k l. Proof. reflexivity. Qed.
Lemma set_queue_setl qs k q : set_queue qs k q = setl qs k q. Proof. reflexivity. Qed.

Lemma nget_nset_same {A} (m : list (N * A)) k v : nget (nset m k v) k = Some v.
Proof.
  induction m as [|[k' v'] m IH]; simpl.
  - rewrite N.eqb_refl. reflexivity.
  - destruct (N.eqb k k') eqn:E; simpl.
    + rewrite N.eqb_refl. reflexivity.
    + rewrite E. exact IH.
Qed.

Lemma nget_nset_other {A} (m : list (N * A)) k k' v : k' <> k -> nget (nset m k v) k' = nget m k'.
Proof.
  intro Hne. induction m as [|[k0 v0] m IH]; simpl.
  - apply N.eqb_neq in Hne. rewrite Hne. reflexivity.
  - destruct (N.eqb k k0) eqn:E; simpl.
    + apply N.eqb_eq in E. subst k0. apply N.eqb_neq in Hne. rewrite Hne. reflexivity.
    + destruct (N.eqb k' k0); [reflexivity|exact IH].
Qed.

Definition pcget (ps : list (cid * pc)) (i : cid) : pc := match nget ps i with Some p => p | None => Idle end.
Lemma pc_of_pcget c i : pc_of c i = pcget (pcs c) i. Proof. reflexivity. Qed.

Lemma pcget_nset_same ps i p : pcget (nset ps i p) i = p.
Proof. unfold pcget. rewrite nget_nset_same. reflexivity. Qed.
Lemma pcget_nset_other ps i j p : j <> i -> pcget (nset ps i p) j = pcget ps j.
Proof. intro H. unfold pcget. rewrite nget_nset_other by assumption. reflexivity. Qed.

Lemma nget_some_in {A} (m : list (N * A)) k v : nget m k = Some v -> In k (map fst m).
Proof.
  induction m as [|[k' v'] m IH]; simpl; [discriminate|].
  destruct (N.eqb k k') eqn:E; intro H.
  - apply N.eqb_eq in E. left. congruence.
  - right. apply IH. exact H.
Qed.

(* first_nonempty: what it returns *)
Lemma first_nonempty_some ls ks k x rest :
  first_nonempty ls ks = Some (k, x, rest) -> In k ks /\ gl ls k = x :: rest.
Proof.
  induction ks as [|k0 ks IH]; simpl; [discriminate|].
  destruct (aget ls k0) as [[|y r]|] eqn:E; intro H.
  - destruct (IH H) as [H1 H2]. split; [right; exact H1|exact H2].
  - inversion H; subst. split; [left; reflexivity|]. unfold gl. rewrite E. reflexivity.
  - destruct (IH H) as [H1 H2]. split; [right; exact H1|exact H2].
Qed.

Lemma first_nonempty_none ls ks k : first_nonempty ls ks = None -> In k ks -> gl ls k = [].
Proof.
  induction ks as [|k0 ks IH]; simpl; [intros _ []|].
  destruct (aget ls k0) as [[|y r]|] eqn:E; intros H [Hk|Hk]; try discriminate.
  - subst. unfold gl. rewrite E. reflexivity.
  - apply IH; assumption.
  - subst. unfold gl. rewrite E. reflexivity.
  - apply IH; assumption.
Qed.

(* ------------------------------------------------------------------ *)
(** * Lists of client ids: removal, counting *)

Definition inb (w : list cid) (j : cid) : bool := existsb (N.eqb j) w.
Definition rmall (w : list cid) (q : list cid) : list cid := filter (fun j => negb (inb w j)) q.
Definition cnt (q : list cid) (i : cid) : nat := count_occ N.eq_dec q i.
Definition kcnt (ks : list key) (k : key) : nat := count_occ bytes_eq_dec ks k.

Lemma inb_true w j : inb w j = true <-> In j w.
Proof.
  unfold inb. rewrite existsb_exists. split.
  - intros [x [H1 H2]]. apply N.eqb_eq in H2. subst. exact H1.
  - intro H. exists j. split; [exact H|apply N.eqb_refl].
Qed.

Lemma inb_false w j : inb w j = false <-> ~ In j w.
Proof.
  split; intro H.
  - intro Hin. apply inb_true in Hin. congruence.
  - destruct (inb w j) eqn:E; [apply inb_true in E; contradiction|reflexivity].
Qed.

Lemma existsb_eqb_in i (t : list cid) : existsb (N.eqb i) t = true <-> In i t.
Proof. exact (inb_true t i). Qed.

Lemma In_remove_cid i q j : In j (remove_cid i q) <-> In j q /\ j <> i.
Proof.
  unfold remove_cid. rewrite filter_In. split; intros [H1 H2]; split; try exact H1.
  - intro E. subst. rewrite N.eqb_refl in H2. discriminate.
  - apply Bool.negb_true_iff. apply N.eqb_neq. congruence.
Qed.

Lemma In_rmall w q j : In j (rmall w q) <-> In j q /\ ~ In j w.
Proof.
  unfold rmall. rewrite filter_In. split; intros [H1 H2]; split; try exact H1.
  - apply Bool.negb_true_iff in H2. apply inb_false. exact H2.
  - apply Bool.negb_true_iff. apply inb_false. exact H2.
Qed.

Lemma rmall_nil q : rmall [] q = q.
Proof. unfold rmall. induction q as [|a q IH]; simpl; [reflexivity|]. f_equal. exact IH. Qed.

Lemma rmall_cons i w q : rmall (i :: w) q = rmall w (remove_cid i q).
Proof.
  unfold rmall, remove_cid. induction q as [|a q IH]; simpl; [reflexivity|].
  rewrite (N.eqb_sym i a). destruct (N.eqb a i) eqn:E; simpl.
  - exact IH.
  - destruct (inb w a); simpl; [exact IH|]. f_equal. exact IH.
Qed.

Lemma rmall_app w1 w2 q : rmall (w1 ++ w2) q = rmall w2 (rmall w1 q).
Proof.
  revert q. induction w1 as [|i w1 IH]; intro q; simpl.
  - rewrite rmall_nil. reflexivity.
  - rewrite !rmall_cons. apply IH.
Qed.

Lemma remove_cid_notin i q : ~ In i q -> remove_cid i q = q.
Proof.
  unfold remove_cid. induction q as [|a q IH]; simpl; intro H; [reflexivity|].
  destruct (N.eqb i a) eqn:E; simpl.
  - apply N.eqb_eq in E. subst. exfalso. apply H. left. reflexivity.
  - f_equal. apply IH. intro Hin. apply H. right. exact Hin.
Qed.

Lemma rmall_nonempty w q : rmall w q <> [] -> q <> [].
Proof. intros H E. subst. apply H. reflexivity. Qed.

Lemma remove_cid_nonempty i q : remove_cid i q <> [] -> q <> [].
Proof. intros H E. subst. apply H. reflexivity. Qed.

Lemma cnt_remove_cid_same i q : cnt (remove_cid i q) i = 0.
Proof.
  apply count_occ_not_In. intro H. apply In_remove_cid in H. destruct H as [_ H]. congruence.
Qed.

Lemma cnt_filter_true (f : cid -> bool) q j : f j = true -> cnt (filter f q) j = cnt q j.
Proof.
  intro Hf. unfold cnt. induction q as [|a q IH]; simpl; [reflexivity|].
  destruct (N.eq_dec a j) as [E|E].
  - subst. rewrite Hf. simpl. destruct (N.eq_dec j j); [|congruence]. f_equal. exact IH.
  - destruct (f a); simpl; [|exact IH]. destruct (N.eq_dec a j); [congruence|exact IH].
Qed.

Lemma cnt_remove_cid_other i q j : j <> i -> cnt (remove_cid i q) j = cnt q j.
Proof.
  intro H. unfold remove_cid. apply cnt_filter_true.
  apply Bool.negb_true_iff. apply N.eqb_neq. congruence.
Qed.

Lemma cnt_rmall_notin w q j : ~ In j w -> cnt (rmall w q) j = cnt q j.
Proof.
  intro H. unfold rmall. apply cnt_filter_true.
  apply Bool.negb_true_iff. apply inb_false. exact H.
Qed.

Lemma cnt_pos_in q j : cnt q j > 0 <-> In j q.
Proof. unfold cnt. symmetry. apply count_occ_In. Qed.

Lemma cnt_zero_notin q j : cnt q j = 0 <-> ~ In j q.
Proof. unfold cnt. symmetry. apply count_occ_not_In. Qed.

Lemma kcnt_pos_in ks k : kcnt ks k > 0 <-> In k ks.
Proof. unfold kcnt. symmetry. apply count_occ_In. Qed.

Lemma cnt_app_repeat_same q i n : cnt (q ++ repeat i n) i = cnt q i + n.
Proof. unfold cnt. rewrite count_occ_app. rewrite count_occ_repeat_eq by reflexivity. reflexivity. Qed.

Lemma cnt_app_repeat_other q i j n : j <> i -> cnt (q ++ repeat i n) j = cnt q j.
Proof. intro H. unfold cnt. rewrite count_occ_app. rewrite count_occ_repeat_neq by assumption. apply Nat.add_0_r. Qed.

Lemma NoDup_app_intro {A} (a b : list A) :
  NoDup a -> NoDup b -> (forall x, In x a -> ~ In x b) -> NoDup (a ++ b).
Proof.
  induction a as [|x a IH]; simpl; intros Ha Hb Hd; [exact Hb|].
  inversion Ha as [|? ? Hnin Hnd]; subst. constructor.
  - intro Hin. apply in_app_or in Hin. destruct Hin as [Hin|Hin]; [contradiction|].
    apply (Hd x); [left; reflexivity|exact Hin].
  - apply IH; try assumption. intros y Hy. apply Hd. right. exact Hy.
Qed.

Lemma fold_left_ext {A B} (f g : A -> B -> A) l a :
  (forall a b, f a b = g a b) -> fold_left f l a = fold_left g l a.
Proof. intro H. revert a. induction l as [|b l IH]; intro a; simpl; [reflexivity|]. rewrite H. apply IH. Qed.

(* ------------------------------------------------------------------ *)
(** * Specification of [unlink], [register], [unblock], [leave] *)

Lemma unlink_cons k0 q0 qs i :
  unlink ((k0, q0) :: qs) i =
  match remove_cid i q0 with [] => unlink qs i | _ => (k0, remove_cid i q0) :: unlink qs i end.
Proof. unfold unlink. simpl. destruct (remove_cid i q0); reflexivity. Qed.

Lemma akeys_unlink_in qs i k : In k (akeys (unlink qs i)) -> In k (akeys qs).
Proof.
  induction qs as [|[k0 q0] qs IH]; [intros []|].
  rewrite unlink_cons. destruct (remove_cid i q0) eqn:E; simpl; intro H.
  - right. apply IH. exact H.
  - destruct H as [H|H]; [left; exact H|right; apply IH; exact H].
Qed.

Lemma NoDup_unlink qs i : NoDup (akeys qs) -> NoDup (akeys (unlink qs i)).
Proof.
  induction qs as [|[k0 q0] qs IH]; intro H; [constructor|].
  simpl in H. inversion H as [|? ? Hnin Hnd]; subst.
  rewrite unlink_cons. destruct (remove_cid i q0) eqn:E; simpl.
  - apply IH; exact Hnd.
  - constructor; [|apply IH; exact Hnd]. intro Hin. apply akeys_unlink_in in Hin. contradiction.
Qed.

(* unlink removes i from every queue and keeps the order of the others *)
Lemma gl_unlink qs i k : NoDup (akeys qs) -> gl (unlink qs i) k = remove_cid i (gl qs k).
Proof.
  induction qs as [|[k0 q0] qs IH]; intro H; [reflexivity|].
  simpl in H. inversion H as [|? ? Hnin Hnd]; subst.
  rewrite unlink_cons. unfold gl at 2. simpl.
  destruct (bytes_eqb k k0) eqn:E.
  - apply bytes_eqb_eq in E. subst k0.
    destruct (remove_cid i q0) eqn:Er.
    + unfold gl. rewrite aget_notin; [reflexivity|].
      intro Hin. apply akeys_unlink_in in Hin. contradiction.
    + unfold gl. simpl. rewrite bytes_eqb_refl. reflexivity.
  - destruct (remove_cid i q0) eqn:Er.
    + apply IH; exact Hnd.
    + unfold gl at 1. simpl. rewrite E. apply IH; exact Hnd.
Qed.

(* queues never hold [] *)
Definition no_empty {A} (m : list (bytes * list A)) : Prop := forall k, aget m k <> Some [].

Lemma no_empty_setl {A} (m : list (bytes * list A)) k l : no_empty m -> no_empty (setl m k l).
Proof.
  intros H k'. unfold setl. destruct (bytes_eq_dec k' k) as [E|E].
  - subst. destruct l; [rewrite aget_adel_same|rewrite aget_aset_same]; congruence.
  - destruct l; [rewrite aget_adel_other by assumption|rewrite aget_aset_other by assumption]; apply H.
Qed.

Lemma no_empty_unlink qs i : no_empty (unlink qs i).
Proof.
  intro k. induction qs as [|[k0 q0] qs IH]; [simpl; congruence|].
  rewrite unlink_cons. destruct (remove_cid i q0) eqn:E; [exact IH|].
  simpl. destruct (bytes_eqb k k0); [congruence|exact IH].
Qed.

(* register: i is appended at the tail of the queue of each key of ks (once per occurrence) *)
Lemma register_spec ks : forall qs i,
  NoDup (akeys qs) ->
  NoDup (akeys (register qs i ks)) /\
  forall k, gl (register qs i ks) k = gl qs k ++ repeat i (kcnt ks k).
Proof.
  unfold register. induction ks as [|k0 ks IH]; intros qs i Hnd; simpl.
  - split; [exact Hnd|]. intro k. rewrite app_nil_r. reflexivity.
  - change (match aget qs k0 with Some q => q | None => [] end) with (gl qs k0).
    rewrite set_queue_setl.
    destruct (IH (setl qs k0 (gl qs k0 ++ [i])) i (NoDup_setl _ _ _ Hnd)) as [H1 H2].
    split; [exact H1|]. intro k. rewrite H2. unfold kcnt. simpl.
    destruct (bytes_eq_dec k0 k) as [E|E].
    + subst. rewrite gl_setl_same. rewrite <- app_assoc. reflexivity.
    + rewrite gl_setl_other by congruence. reflexivity.
Qed.

Lemma no_empty_register ks : forall qs i, no_empty qs -> no_empty (register qs i ks).
Proof.
  unfold register. induction ks as [|k0 ks IH]; intros qs i H; simpl; [exact H|].
  apply IH. rewrite set_queue_setl. apply no_empty_setl. exact H.
Qed.

Lemma unblock_0 f qs toks k : unblock f qs toks k 0 = (qs, toks).
Proof. destruct f; reflexivity. Qed.

(* unblock: the woken clients w are appended to the tokens (in wake order) and removed from ALL queues;
   the order of the remaining clients is kept; the head of k's queue is woken when n, fuel >= 1 *)
Lemma unblock_spec k f : forall n qs toks qs' toks',
  NoDup (akeys qs) -> unblock f qs toks k n = (qs', toks') ->
  exists w, toks' = toks ++ w /\ NoDup (akeys qs') /\
            (forall k', gl qs' k' = rmall w (gl qs k')) /\
            NoDup w /\ (forall j, In j w -> In j (gl qs k)) /\
            (f >= 1 -> n >= 1 -> forall j q, gl qs k = j :: q -> In j w) /\
            (no_empty qs -> no_empty qs').
Proof.
  induction f as [|f IH]; intros n qs toks qs' toks' Hnd H.
  - simpl in H. inversion H; subst. exists []. rewrite app_nil_r.
    repeat split; try assumption; try constructor; try (intro Hx; exact Hx).
    + intro k'. rewrite rmall_nil. reflexivity.
    + intros j [].
    + intros Hf. lia.
  - destruct n as [|n].
    + simpl in H. inversion H; subst. exists []. rewrite app_nil_r.
      repeat split; try assumption; try constructor; try (intro Hx; exact Hx).
      * intro k'. rewrite rmall_nil. reflexivity.
      * intros j [].
      * intros _ Hn. lia.
    + simpl in H. destruct (aget qs k) as [[|i q]|] eqn:Eg.
      * inversion H; subst. exists []. rewrite app_nil_r.
        repeat split; try assumption; try constructor; try (intro Hx; exact Hx).
        -- intro k'. rewrite rmall_nil. reflexivity.
        -- intros j [].
        -- intros _ _ j q Hq. unfold gl in Hq. rewrite Eg in Hq. discriminate.
      * destruct (IH n (unlink qs i) (toks ++ [i]) qs' toks' (NoDup_unlink _ _ Hnd) H)
          as [w [Ht [Hnd' [Hq [Hw [Hin [_ Hne]]]]]]].
        assert (Hgk : gl qs k = i :: q) by (unfold gl; rewrite Eg; reflexivity).
        exists (i :: w). split; [rewrite Ht, <- app_assoc; reflexivity|].
        split; [exact Hnd'|]. split.
        { intro k'. rewrite Hq, rmall_cons, gl_unlink by assumption. reflexivity. }
        split.
        { constructor; [|exact Hw]. intro Hi. apply Hin in Hi.
          rewrite gl_unlink in Hi by assumption. apply In_remove_cid in Hi. destruct Hi as [_ Hi]. congruence. }
        split.
        { intros j [Hj|Hj]; [subst; rewrite Hgk; left; reflexivity|].
          apply Hin in Hj. rewrite gl_unlink in Hj by assumption. apply In_remove_cid in Hj. tauto. }
        split.
        { intros _ _ j q0 Hq0. rewrite Hgk in Hq0. inversion Hq0; subst. left. reflexivity. }
        { intros _. apply Hne. apply no_empty_unlink. }
      * inversion H; subst. exists []. rewrite app_nil_r.
        repeat split; try assumption; try constructor; try (intro Hx; exact Hx).
        -- intro k'. rewrite rmall_nil. reflexivity.
        -- intros j [].
        -- intros _ _ j q Hq. unfold gl in Hq. rewrite Eg in Hq. discriminate.
Qed.

(* a sequence of unblocks over a list of keys *)
Definition ubf (F : nat) (nf : key -> nat) (ks : list key) (st : list (key * list cid) * list cid) :=
  fold_left (fun st k => unblock F (fst st) (snd st) k (nf k)) ks st.

Lemma ubf_spec F nf ks : forall qs toks qs' toks',
  NoDup (akeys qs) -> ubf F nf ks (qs, toks) = (qs', toks') ->
  exists w, toks' = toks ++ w /\ NoDup (akeys qs') /\
    (forall k', gl qs' k' = rmall w (gl qs k')) /\
    NoDup w /\ (forall j, In j w -> exists k, In k ks /\ In j (gl qs k)) /\
    (F >= 1 -> forall k, In k ks -> nf k >= 1 -> gl qs' k <> [] -> exists j, In j w /\ In j (gl qs k)) /\
    (no_empty qs -> no_empty qs').
Proof.
  unfold ubf. induction ks as [|k0 ks IH]; intros qs toks qs' toks' Hnd H.
  - simpl in H. inversion H; subst. exists []. rewrite app_nil_r.
    split; [reflexivity|]. split; [exact Hnd|]. split; [intro; rewrite rmall_nil; reflexivity|].
    split; [constructor|]. split; [intros j []|]. split; [intros _ k []|]. intro Hx; exact Hx.
  - simpl in H. destruct (unblock F qs toks k0 (nf k0)) as [qs1 toks1] eqn:Eu.
    destruct (unblock_spec k0 F _ _ _ _ _ Hnd Eu) as [w0 [Ht0 [Hnd0 [Hq0 [Hw0 [Hin0 [Hhd0 Hne0]]]]]]].
    destruct (IH qs1 toks1 qs' toks' Hnd0 H) as [w1 [Ht1 [Hnd1 [Hq1 [Hw1 [Hin1 [Hhd1 Hne1]]]]]]].
    exists (w0 ++ w1).
    split; [rewrite Ht1, Ht0, app_assoc; reflexivity|].
    split; [exact Hnd1|].
    split; [intro k'; rewrite Hq1, Hq0, rmall_app; reflexivity|].
    split.
    { apply NoDup_app_intro; try assumption. intros x Hx0 Hx1.
      destruct (Hin1 x Hx1) as [k [_ Hk]]. rewrite Hq0 in Hk. apply In_rmall in Hk. tauto. }
    split.
    { intros j Hj. apply in_app_or in Hj. destruct Hj as [Hj|Hj].
      - exists k0. split; [left; reflexivity|apply Hin0; exact Hj].
      - destruct (Hin1 j Hj) as [k [Hk1 Hk2]]. exists k. split; [right; exact Hk1|].
        rewrite Hq0 in Hk2. apply In_rmall in Hk2. tauto. }
    split.
    { intros HF k Hk Hn Hne. destruct Hk as [Hk|Hk].
      - subst k0. destruct (gl qs k) as [|j q] eqn:Eg.
        + exfalso. apply Hne. rewrite Hq1, Hq0, Eg. reflexivity.
        + exists j. split; [|left; reflexivity]. apply in_or_app. left.
          apply (Hhd0 HF Hn j q). reflexivity.
      - destruct (Hhd1 HF k Hk Hn Hne) as [j [Hj1 Hj2]]. exists j.
        split; [apply in_or_app; right; exact Hj1|].
        rewrite Hq0 in Hj2. apply In_rmall in Hj2. tauto. }
    { intro Hx. apply Hne1, Hne0, Hx. }
Qed.

(* what leave (and a push) do to the wait table *)
Definition wakeP (qs qs' : list (key * list cid)) (w : list cid) : Prop :=
  NoDup (akeys qs') /\ (forall k', gl qs' k' = rmall w (gl qs k')) /\ NoDup w /\ (no_empty qs -> no_empty qs').

Definition leaveP (c : cfg) (i : cid) (ks : list key) (ls' : list (key * list elem))
           (qs' : list (key * list cid)) (w : list cid) : Prop :=
  NoDup (akeys qs') /\
  (forall k', gl qs' k' = rmall w (remove_cid i (queue_of c k'))) /\
  NoDup w /\
  (forall j, In j w -> j <> i /\ exists k, In k ks /\ In j (queue_of c k)) /\
  (forall k, In k ks -> gl ls' k <> [] -> gl qs' k <> [] -> exists j, In j w /\ In j (queue_of c k)) /\
  no_empty qs'.

Lemma leave_spec c i ks ls qs' toks' :
  NoDup (akeys (queues c)) -> leave c i ks ls = (qs', toks') ->
  exists w, toks' = remove_cid i (tokens c) ++ w /\ leaveP c i ks ls qs' w.
Proof.
  intros Hnd H. unfold leave in H.
  set (F := length (pcs c) + 1) in *.
  set (qs0 := unlink (queues c) i) in *.
  set (toks0 := remove_cid i (tokens c)) in *.
  assert (Hnd0 : NoDup (akeys qs0)) by (apply NoDup_unlink; exact Hnd).
  assert (Hq0 : forall k, gl qs0 k = remove_cid i (queue_of c k)) by (intro k; apply gl_unlink; exact Hnd).
  assert (Hne0 : no_empty qs0) by apply no_empty_unlink.
  assert (Hst : exists qs1 w1,
    (if existsb (N.eqb i) (tokens c)
     then fold_left (fun st k => unblock F (fst st) (snd st) k 1) ks (qs0, toks0)
     else (qs0, toks0)) = (qs1, toks0 ++ w1) /\
    NoDup (akeys qs1) /\ (forall k', gl qs1 k' = rmall w1 (gl qs0 k')) /\ NoDup w1 /\
    (forall j, In j w1 -> exists k, In k ks /\ In j (gl qs0 k)) /\ no_empty qs1).
  { destruct (existsb (N.eqb i) (tokens c)).
    - destruct (fold_left (fun st k => unblock F (fst st) (snd st) k 1) ks (qs0, toks0)) as [qs1 toks1] eqn:Ef.
      destruct (ubf_spec F (fun _ => 1) ks qs0 toks0 qs1 toks1 Hnd0 Ef)
        as [w1 [Ht1 [Hnd1 [Hq1 [Hw1 [Hin1 [_ Hne1]]]]]]].
      exists qs1, w1. subst toks1. repeat split; try assumption. apply Hne1, Hne0.
    - exists qs0, []. rewrite app_nil_r. repeat split; try assumption.
      + intro k'. rewrite rmall_nil. reflexivity.
      + constructor.
      + intros j []. }
  destruct Hst as [qs1 [w1 [Est [Hnd1 [Hq1 [Hw1 [Hin1 Hne1]]]]]]].
  rewrite Est in H. clear Est.
  rewrite (fold_left_ext _ (fun st k => unblock F (fst st) (snd st) k (length (gl ls k)))) in H.
  2:{ intros [a b] k. unfold gl. destruct (aget ls k); simpl; [reflexivity|]. rewrite unblock_0. reflexivity. }
  destruct (ubf_spec F (fun k => length (gl ls k)) ks qs1 (toks0 ++ w1) qs' toks' Hnd1 H)
    as [w2 [Ht2 [Hnd2 [Hq2 [Hw2 [Hin2 [Hhd2 Hne2]]]]]]].
  exists (w1 ++ w2). split; [rewrite Ht2, app_assoc; reflexivity|].
  unfold leaveP. split; [exact Hnd2|].
  split; [intro k'; rewrite Hq2, Hq1, Hq0, rmall_app; reflexivity|].
  split.
  { apply NoDup_app_intro; try assumption. intros x Hx1 Hx2.
    destruct (Hin2 x Hx2) as [k [_ Hk]]. rewrite Hq1 in Hk. apply In_rmall in Hk. tauto. }
  split.
  { intros j Hj. apply in_app_or in Hj. destruct Hj as [Hj|Hj].
    - destruct (Hin1 j Hj) as [k [Hk1 Hk2]]. rewrite Hq0 in Hk2. apply In_remove_cid in Hk2.
      split; [tauto|]. exists k. tauto.
    - destruct (Hin2 j Hj) as [k [Hk1 Hk2]]. rewrite Hq1 in Hk2. apply In_rmall in Hk2.
      destruct Hk2 as [Hk2 _]. rewrite Hq0 in Hk2. apply In_remove_cid in Hk2.
      split; [tauto|]. exists k. tauto. }
  split.
  { intros k Hk Hl Hq. assert (HF : F >= 1) by (unfold F; lia).
    assert (Hn : length (gl ls k) >= 1) by (destruct (gl ls k); [congruence|simpl; lia]).
    destruct (Hhd2 HF k Hk Hn Hq) as [j [Hj1 Hj2]]. exists j.
    split; [apply in_or_app; right; exact Hj1|].
    rewrite Hq1 in Hj2. apply In_rmall in Hj2. destruct Hj2 as [Hj2 _].
    rewrite Hq0 in Hj2. apply In_remove_cid in Hj2. tauto. }
  apply Hne2, Hne1.
Qed.

(* ------------------------------------------------------------------ *)
(** * Every enabled label is one of seven kinds of state change *)

Inductive Step (c : cfg) : cfg -> Prop :=
| SPush k xs qs' w :
    xs <> [] -> wakeP (queues c) qs' w ->
    (forall j, In j w -> In j (queue_of c k)) ->
    (forall j q, queue_of c k = j :: q -> In j w) ->
    Step c (mkCfg (set_list (lists c) k (list_of c k ++ xs)) qs' (tokens c ++ w) (pcs c)
                  (pushed c ++ xs) (popped c))
| SPop k x rest ps :
    list_of c k = x :: rest ->
    (ps = pcs c \/ exists i, pc_of c i = Idle /\ ps = nset (pcs c) i (Finished (Some (k, x)))) ->
    Step c (mkCfg (set_list (lists c) k rest) (queues c) (tokens c) ps (pushed c) (popped c ++ [x]))
| SLeavePop i ks k x rest qs' w :
    (pc_of c i = Registered ks \/ pc_of c i = Woken ks) -> In k ks -> list_of c k = x :: rest ->
    leaveP c i ks (set_list (lists c) k rest) qs' w ->
    Step c (mkCfg (set_list (lists c) k rest) qs' (remove_cid i (tokens c) ++ w)
                  (nset (pcs c) i (Finished (Some (k, x)))) (pushed c) (popped c ++ [x]))
| SGiveUp i ks qs' w :
    pc_of c i = Waiting ks -> leaveP c i ks (lists c) qs' w ->
    Step c (mkCfg (lists c) qs' (remove_cid i (tokens c) ++ w)
                  (nset (pcs c) i (Finished None)) (pushed c) (popped c))
| SReg i ks qs0 :
    (pc_of c i = Idle \/ pc_of c i = Woken ks) ->
    (qs0 = queues c \/ qs0 = unlink (queues c) i) ->
    (forall k, In k ks -> list_of c k = []) ->
    Step c (mkCfg (lists c) (register qs0 i ks) (tokens c)
                  (nset (pcs c) i (Registered ks)) (pushed c) (popped c))
| SPc i p :
    ((exists ks, pc_of c i = Registered ks /\ p = Waiting ks /\ forall k, In k ks -> list_of c k = []) \/
     (exists r, pc_of c i = Finished r /\ p = Idle)) ->
    Step c (mkCfg (lists c) (queues c) (tokens c) (nset (pcs c) i p) (pushed c) (popped c))
| SWake i ks :
    pc_of c i = Waiting ks -> In i (tokens c) ->
    Step c (mkCfg (lists c) (queues c) (remove_cid i (tokens c))
                  (nset (pcs c) i (Woken ks)) (pushed c) (popped c)).

Lemma finish_false_Step c i ks k x rest :
  pc_of c i = Idle -> first_nonempty (lists c) ks = Some (k, x, rest) ->
  Step c (finish c i ks k x rest false).
Proof.
  intros Hpc Hf. apply first_nonempty_some in Hf. destruct Hf as [_ Hl].
  unfold finish. cbv zeta. cbv iota beta.
  apply SPop; [exact Hl|]. right. exists i. split; [exact Hpc|reflexivity].
Qed.

Lemma finish_true_Step c i ks k x rest :
  NoDup (akeys (queues c)) ->
  (pc_of c i = Registered ks \/ pc_of c i = Woken ks) ->
  first_nonempty (lists c) ks = Some (k, x, rest) ->
  Step c (finish c i ks k x rest true).
Proof.
  intros Hnd Hpc Hf. apply first_nonempty_some in Hf. destruct Hf as [Hk Hl].
  unfold finish. cbv zeta. cbv iota beta.
  destruct (leave c i ks (set_list (lists c) k rest)) as [qs toks] eqn:El.
  destruct (leave_spec _ _ _ _ _ _ Hnd El) as [w [Ht HP]]. subst toks.
  apply (SLeavePop c i ks k x rest qs w); assumption.
Qed.

Lemma wstep_Step c l c' : NoDup (akeys (queues c)) -> wstep c l = Some c' -> Step c c'.
Proof.
  intros Hnd H. destruct l as [k xs|k|i ks|i|i|i|i|i]; unfold wstep in H.
  - destruct xs as [|x xs]; [discriminate|].
    destruct (unblock (length (pcs c) + 1) (queues c) (tokens c) k (length (x :: xs))) as [qs toks] eqn:Eu.
    injection H as <-.
    destruct (unblock_spec _ _ _ _ _ _ _ Hnd Eu) as [w [Ht [Hnd' [Hq [Hw [Hin [Hhd Hne]]]]]]].
    subst toks. apply (SPush c k (x :: xs) qs w).
    + discriminate.
    + unfold wakeP. repeat split; assumption.
    + exact Hin.
    + apply Hhd; simpl; lia.
  - destruct (list_of c k) as [|x rest] eqn:El; [discriminate|]. injection H as <-.
    apply SPop; [exact El|left; reflexivity].
  - destruct (pc_of c i) eqn:Hpc; try discriminate.
    destruct ks as [|k0 ks0]; [discriminate|].
    destruct (first_nonempty (lists c) (k0 :: ks0)) as [[[k x] rest]|] eqn:Ef; injection H as <-.
    + apply finish_false_Step; assumption.
    + apply (SReg c i (k0 :: ks0) (queues c)).
      * left; exact Hpc.
      * left; reflexivity.
      * intros k Hk. apply (first_nonempty_none _ _ _ Ef Hk).
  - destruct (pc_of c i) eqn:Hpc; try discriminate.
    destruct (first_nonempty (lists c) ks) as [[[k x] rest]|] eqn:Ef; injection H as <-.
    + apply finish_true_Step; [exact Hnd|left; exact Hpc|exact Ef].
    + apply SPc. left. exists ks. split; [exact Hpc|]. split; [reflexivity|].
      intros k Hk. apply (first_nonempty_none _ _ _ Ef Hk).
  - destruct (pc_of c i) eqn:Hpc; try discriminate.
    destruct (existsb (N.eqb i) (tokens c)) eqn:Et; [|discriminate]. injection H as <-.
    apply SWake; [exact Hpc|]. apply existsb_eqb_in. exact Et.
  - destruct (pc_of c i) eqn:Hpc; try discriminate.
    destruct (first_nonempty (lists c) ks) as [[[k x] rest]|] eqn:Ef; injection H as <-.
    + apply finish_true_Step; [exact Hnd|right; exact Hpc|exact Ef].
    + apply (SReg c i ks (unlink (queues c) i)).
      * right; exact Hpc.
      * right; reflexivity.
      * intros k Hk. apply (first_nonempty_none _ _ _ Ef Hk).
  - destruct (pc_of c i) eqn:Hpc; try discriminate.
    destruct (leave c i ks (lists c)) as [qs toks] eqn:El. injection H as <-.
    destruct (leave_spec _ _ _ _ _ _ Hnd El) as [w [Ht HP]]. subst toks.
    apply (SGiveUp c i ks qs w); assumption.
  - destruct (pc_of c i) eqn:Hpc; try discriminate. injection H as <-.
    apply SPc. right. exists r. split; [exact Hpc|reflexivity].
Qed.

(* ------------------------------------------------------------------ *)
(** * Lifting invariants to all reachable configurations *)

Lemma wrun_inv (P : cfg -> Prop) :
  (forall c l c', P c -> wstep c l = Some c' -> P c') ->
  forall ls c c', P c -> wrun c ls = Some c' -> P c'.
Proof.
  intros Hstep. induction ls as [|l ls IH]; intros c c' Hc H; simpl in H.
  - injection H as <-. exact Hc.
  - destruct (wstep c l) as [c1|] eqn:E; [|discriminate].
    apply (IH c1 c'); [|exact H]. apply (Hstep c l c1 Hc E).
Qed.

Lemma reachable_inv (P : cfg -> Prop) :
  P cfg0 -> (forall c l c', P c -> wstep c l = Some c' -> P c') -> forall c, reachable c -> P c.
Proof. intros H0 Hs c [ls H]. apply (wrun_inv P Hs ls cfg0 c H0 H). Qed.

(* ------------------------------------------------------------------ *)
(** * Well-formed association lists *)

Definition KWF (c : cfg) : Prop :=
  NoDup (akeys (lists c)) /\ NoDup (akeys (queues c)) /\ no_empty (lists c) /\ no_empty (queues c).

Lemma KWF_cfg0 : KWF cfg0.
Proof. unfold KWF, no_empty; simpl. repeat split; try constructor; congruence. Qed.

Lemma KWF_Step c c' : KWF c -> Step c c' -> KWF c'.
Proof.
  intros [Hl [Hq [Hel Heq]]] HS. unfold KWF.
  destruct HS as [k xs qs' w Hxs [HW1 [HW2 [HW3 HW4]]] _ _
                 |k x rest ps _ _
                 |i ks k x rest qs' w _ _ _ [HL1 [_ [_ [_ [_ HL6]]]]]
                 |i ks qs' w _ [HL1 [_ [_ [_ [_ HL6]]]]]
                 |i ks qs0 _ Hqs0 _
                 |i p _
                 |i ks _ _]; simpl.
  - rewrite set_list_setl. repeat split; auto using NoDup_setl, no_empty_setl.
  - rewrite set_list_setl. repeat split; auto using NoDup_setl, no_empty_setl.
  - rewrite set_list_setl. repeat split; auto using NoDup_setl, no_empty_setl.
  - repeat split; auto.
  - assert (Hnd0 : NoDup (akeys qs0)) by (destruct Hqs0; subst; [exact Hq|apply NoDup_unlink; exact Hq]).
    assert (Hne0 : no_empty qs0) by (destruct Hqs0; subst; [exact Heq|apply no_empty_unlink]).
    repeat split; auto.
    + apply (register_spec ks qs0 i Hnd0).
    + apply no_empty_register; exact Hne0.
  - repeat split; auto.
  - repeat split; auto.
Qed.

Lemma KWF_step c l c' : KWF c -> wstep c l = Some c' -> KWF c'.
Proof. intros H Hs. apply (KWF_Step c c' H). apply (wstep_Step c l c'); [apply H|exact Hs]. Qed.

Lemma KWF_reachable c : reachable c -> KWF c.
Proof. apply reachable_inv; [exact KWF_cfg0|exact KWF_step]. Qed.

(* ------------------------------------------------------------------ *)
(** * 1. Conservation of elements *)

Definition Cons (c : cfg) : Prop := Permutation (pushed c) (popped c ++ total (lists c)).

Lemma Cons_push ps pp (ls : list (key * list elem)) k xs :
  NoDup (akeys ls) -> Permutation ps (pp ++ total ls) ->
  Permutation (ps ++ xs) (pp ++ total (setl ls k (gl ls k ++ xs))).
Proof.
  intros Hnd H.
  rewrite (total_setl ls k (gl ls k ++ xs) Hnd).
  rewrite H. rewrite (total_split ls k Hnd).
  rewrite <- !app_assoc. apply Permutation_app_head. apply Permutation_app_head.
  apply Permutation_app_comm.
Qed.

Lemma Cons_pop ps pp (ls : list (key * list elem)) k x rest :
  NoDup (akeys ls) -> gl ls k = x :: rest -> Permutation ps (pp ++ total ls) ->
  Permutation ps ((pp ++ [x]) ++ total (setl ls k rest)).
Proof.
  intros Hnd Hg H.
  rewrite (total_setl ls k rest Hnd).
  rewrite H. rewrite (total_split ls k Hnd). rewrite Hg.
  rewrite <- !app_assoc. simpl. apply Permutation_refl.
Qed.

Lemma Cons_Step c c' : KWF c -> Cons c -> Step c c' -> Cons c'.
Proof.
  intros [Hl _] H HS. unfold Cons in *.
  destruct HS as [k xs qs' w _ _ _ _
                 |k x rest ps Hk _
                 |i ks k x rest qs' w _ _ Hk _
                 |i ks qs' w _ _
                 |i ks qs0 _ _ _
                 |i p _
                 |i ks _ _]; simpl; try exact H.
  - apply Cons_push; assumption.
  - apply Cons_pop; assumption.
  - apply Cons_pop; assumption.
Qed.

Theorem C11_conservation c :
  reachable c -> Permutation (pushed c) (popped c ++ concat (map snd (lists c))).
Proof.
  intro Hr. change (Cons c).
  assert (H : KWF c /\ Cons c); [|apply H].
  revert c Hr. apply reachable_inv.
  - split; [exact KWF_cfg0|]. unfold Cons; simpl. constructor.
  - intros c l c' [Hk Hc] Hs. split; [apply (KWF_step c l c' Hk Hs)|].
    apply (Cons_Step c c' Hk Hc). apply (wstep_Step c l c'); [apply Hk|exact Hs].
Qed.
Print Assumptions C11_conservation.

(* the keys of the list table are distinct and no empty list is stored (well-formedness used above) *)
Theorem C11_lists_wf c :
  reachable c -> NoDup (map fst (lists c)) /\ forall k, aget (lists c) k <> Some [].
Proof. intro Hr. destruct (KWF_reachable c Hr) as [H1 [_ [H3 _]]]. split; [exact H1|exact H3]. Qed.
Print Assumptions C11_lists_wf.

(* ------------------------------------------------------------------ *)
(** * 3. Wait-table well-formedness *)

Definition wkeys (p : pc) : list key := match p with Registered ks | Waiting ks => ks | _ => [] end.
Definition isRW (p : pc) : bool := match p with Registered _ | Waiting _ => true | _ => false end.

(* The exact invariant.  For every client i (pc Registered ks / Waiting ks, or anything else with
   wkeys = []):  without a token it occurs in the queue of k exactly as often as k occurs in its
   key list (fully registered); with a token it is in no queue and is Registered/Waiting. *)
Record WT (c : cfg) : Prop := mkWT {
  wt_E : forall i k, ~ In i (tokens c) -> cnt (queue_of c k) i = kcnt (wkeys (pc_of c i)) k;
  wt_T : forall i k, In i (tokens c) -> ~ In i (queue_of c k);
  wt_T2 : forall i, In i (tokens c) -> isRW (pc_of c i) = true;
  wt_D : NoDup (tokens c) }.

Lemma isRW_false_wkeys p : isRW p = false -> wkeys p = [].
Proof. destruct p; simpl; congruence. Qed.

Lemma wkeys_in_isRW p k : In k (wkeys p) -> isRW p = true.
Proof. destruct p; simpl; tauto. Qed.

Lemma wt_A c : WT c -> forall i k, cnt (queue_of c k) i <= kcnt (wkeys (pc_of c i)) k.
Proof.
  intros H i k. destruct (in_dec N.eq_dec i (tokens c)) as [Hi|Hi].
  - apply (wt_T c H i k) in Hi. apply cnt_zero_notin in Hi. rewrite Hi. apply Nat.le_0_l.
  - rewrite (wt_E c H i k Hi). apply Nat.le_refl.
Qed.

Lemma wt_Q c : WT c -> forall i k, In i (queue_of c k) ->
  isRW (pc_of c i) = true /\ In k (wkeys (pc_of c i)).
Proof.
  intros H i k Hi. apply cnt_pos_in in Hi. pose proof (wt_A c H i k) as HA.
  assert (Hk : In k (wkeys (pc_of c i))) by (apply kcnt_pos_in; lia).
  split; [eapply wkeys_in_isRW; exact Hk|exact Hk].
Qed.

Lemma wt_notRW c : WT c -> forall i, isRW (pc_of c i) = false ->
  ~ In i (tokens c) /\ forall k, ~ In i (queue_of c k).
Proof.
  intros H i Hi. split.
  - intro Ht. apply (wt_T2 c H) in Ht. congruence.
  - intros k Hq. apply (wt_Q c H) in Hq. destruct Hq as [Hq _]. congruence.
Qed.

Lemma WT_ext c c' :
  (forall k, queue_of c' k = queue_of c k) -> tokens c' = tokens c ->
  (forall j, pc_of c' j = pc_of c j) -> WT c -> WT c'.
Proof.
  intros Hq Ht Hp [HE HT HT2 HD]. constructor.
  - intros i k. rewrite Hq, Ht, Hp. apply HE.
  - intros i k. rewrite Hq, Ht. apply HT.
  - intros i. rewrite Ht, Hp. apply HT2.
  - rewrite Ht. exact HD.
Qed.

(* waking the clients w (each taken from some queue) *)
Lemma WT_wake c c' w :
  WT c ->
  (forall k, queue_of c' k = rmall w (queue_of c k)) -> tokens c' = tokens c ++ w ->
  (forall j, pc_of c' j = pc_of c j) ->
  NoDup w -> (forall j, In j w -> exists k, In j (queue_of c k)) ->
  WT c'.
Proof.
  intros H Hq Ht Hp Hw Hin. pose proof H as [HE HT HT2 HD]. constructor.
  - intros i k Hi. rewrite Ht in Hi. rewrite Hq, Hp.
    rewrite cnt_rmall_notin by (intro Hx; apply Hi; apply in_or_app; right; exact Hx).
    apply HE. intro Hx. apply Hi. apply in_or_app. left. exact Hx.
  - intros i k Hi. rewrite Ht in Hi. rewrite Hq. intro Hx. apply In_rmall in Hx. destruct Hx as [Hx1 Hx2].
    apply in_app_or in Hi. destruct Hi as [Hi|Hi]; [apply (HT i k Hi Hx1)|contradiction].
  - intros i Hi. rewrite Ht in Hi. rewrite Hp. apply in_app_or in Hi. destruct Hi as [Hi|Hi].
    + apply HT2; exact Hi.
    + destruct (Hin i Hi) as [k Hk]. apply (wt_Q c H i k Hk).
  - rewrite Ht. apply NoDup_app_intro; try assumption.
    intros x Hx1 Hx2. destruct (Hin x Hx2) as [k Hk]. apply (HT x k Hx1 Hk).
Qed.

(* client i leaves the table: out of all queues, token dropped, pc no longer Registered/Waiting *)
Lemma WT_drop c c' i p :
  WT c -> isRW p = false ->
  (forall k, queue_of c' k = remove_cid i (queue_of c k)) -> tokens c' = remove_cid i (tokens c) ->
  pc_of c' i = p -> (forall j, j <> i -> pc_of c' j = pc_of c j) ->
  WT c'.
Proof.
  intros H Hp Hq Ht Hpi Hpj. pose proof H as [HE HT HT2 HD]. constructor.
  - intros j k Hj. rewrite Hq. destruct (N.eq_dec j i) as [E|E].
    + subst j. rewrite Hpi, cnt_remove_cid_same, (isRW_false_wkeys p Hp). reflexivity.
    + rewrite cnt_remove_cid_other by assumption. rewrite Hpj by assumption. apply HE.
      intro Hx. apply Hj. rewrite Ht. apply In_remove_cid. split; assumption.
  - intros j k Hj. rewrite Ht in Hj. apply In_remove_cid in Hj. destruct Hj as [Hj1 Hj2].
    rewrite Hq. intro Hx. apply In_remove_cid in Hx. destruct Hx as [Hx _]. apply (HT j k Hj1 Hx).
  - intros j Hj. rewrite Ht in Hj. apply In_remove_cid in Hj. destruct Hj as [Hj1 Hj2].
    rewrite Hpj by assumption. apply HT2; exact Hj1.
  - rewrite Ht. unfold remove_cid. apply NoDup_filter. exact HD.
Qed.

(* client i (not Registered/Waiting before) registers on ks, at the tail of each queue *)
Lemma WT_register c c' i ks :
  WT c -> isRW (pc_of c i) = false ->
  (forall k, queue_of c' k = queue_of c k ++ repeat i (kcnt ks k)) -> tokens c' = tokens c ->
  pc_of c' i = Registered ks -> (forall j, j <> i -> pc_of c' j = pc_of c j) ->
  WT c'.
Proof.
  intros H Hi Hq Ht Hpi Hpj. pose proof H as [HE HT HT2 HD].
  destruct (wt_notRW c H i Hi) as [Hnt Hnq]. constructor.
  - intros j k Hj. rewrite Ht in Hj. rewrite Hq. destruct (N.eq_dec j i) as [E|E].
    + subst j. rewrite Hpi, cnt_app_repeat_same. simpl.
      rewrite (HE i k Hnt), (isRW_false_wkeys _ Hi). reflexivity.
    + rewrite cnt_app_repeat_other by assumption. rewrite Hpj by assumption. apply HE; exact Hj.
  - intros j k Hj. rewrite Ht in Hj. rewrite Hq. intro Hx. apply in_app_or in Hx. destruct Hx as [Hx|Hx].
    + apply (HT j k Hj Hx).
    + apply repeat_spec in Hx. subst j. contradiction.
  - intros j Hj. rewrite Ht in Hj. destruct (N.eq_dec j i) as [E|E]; [subst; contradiction|].
    rewrite Hpj by assumption. apply HT2; exact Hj.
  - rewrite Ht. exact HD.
Qed.

(* a pc change that keeps the key list and the Registered/Waiting status *)
Lemma WT_repc c c' i p :
  WT c -> wkeys p = wkeys (pc_of c i) -> isRW p = isRW (pc_of c i) ->
  (forall k, queue_of c' k = queue_of c k) -> tokens c' = tokens c ->
  pc_of c' i = p -> (forall j, j <> i -> pc_of c' j = pc_of c j) ->
  WT c'.
Proof.
  intros [HE HT HT2 HD] Hk Hrw Hq Ht Hpi Hpj. constructor.
  - intros j k Hj. rewrite Ht in Hj. rewrite Hq. destruct (N.eq_dec j i) as [E|E].
    + subst j. rewrite Hpi, Hk. apply HE; exact Hj.
    + rewrite Hpj by assumption. apply HE; exact Hj.
  - intros j k. rewrite Ht, Hq. apply HT.
  - intros j Hj. rewrite Ht in Hj. destruct (N.eq_dec j i) as [E|E].
    + subst j. rewrite Hpi, Hrw. apply HT2; exact Hj.
    + rewrite Hpj by assumption. apply HT2; exact Hj.
  - rewrite Ht. exact HD.
Qed.

Lemma WT_cfg0 : WT cfg0.
Proof. constructor; simpl; intros; try tauto. constructor. Qed.

Lemma pc_of_mk_same ls qs t ps pu po i p : pc_of (mkCfg ls qs t (nset ps i p) pu po) i = p.
Proof. unfold pc_of; simpl. rewrite nget_nset_same. reflexivity. Qed.

Lemma pc_of_mk_other ls qs t ps pu po i p c j :
  j <> i -> pcs c = ps -> pc_of (mkCfg ls qs t (nset ps i p) pu po) j = pc_of c j.
Proof. intros H E. unfold pc_of; simpl. rewrite nget_nset_other by assumption. rewrite E. reflexivity. Qed.

Lemma WT_leave c i ks ls' qs' w r pu po :
  KWF c -> WT c -> leaveP c i ks ls' qs' w ->
  WT (mkCfg ls' qs' (remove_cid i (tokens c) ++ w) (nset (pcs c) i (Finished r)) pu po).
Proof.
  intros [_ [Hnd _]] H [HL1 [HL2 [HL3 [HL4 _]]]].
  set (c1 := mkCfg ls' (unlink (queues c) i) (remove_cid i (tokens c)) (nset (pcs c) i (Finished r)) pu po).
  assert (Hq1 : forall k, queue_of c1 k = remove_cid i (queue_of c k)).
  { intro k. unfold c1, queue_of; simpl. apply (gl_unlink (queues c) i k Hnd). }
  assert (H1 : WT c1).
  { apply (WT_drop c c1 i (Finished r) H); try reflexivity.
    - exact Hq1.
    - apply pc_of_mk_same.
    - intros j Hj. apply pc_of_mk_other; [exact Hj|reflexivity]. }
  apply (WT_wake c1 _ w H1); try reflexivity.
  - intro k. rewrite Hq1. exact (HL2 k).
  - exact HL3.
  - intros j Hj. destruct (HL4 j Hj) as [Hji [k [_ Hk]]]. exists k. rewrite Hq1.
    apply In_remove_cid. split; assumption.
Qed.

Lemma WT_Step c c' : KWF c -> WT c -> Step c c' -> WT c'.
Proof.
  intros HK H HS. pose proof HK as [_ [Hnd _]].
  destruct HS as [k xs qs' w Hxs [HW1 [HW2 [HW3 HW4]]] Hin _
                 |k x rest ps _ Hps
                 |i ks k x rest qs' w _ _ _ HL
                 |i ks qs' w _ HL
                 |i ks qs0 Hpc Hqs0 _
                 |i p Hp
                 |i ks Hpc Htok].
  - apply (WT_wake c _ w H); try reflexivity; try assumption.
    intros j Hj. exists k. apply Hin; exact Hj.
  - destruct Hps as [Hps|[i [Hi Hps]]]; subst ps.
    + apply (WT_ext c); try reflexivity. exact H.
    + apply (WT_repc c _ i (Finished (Some (k, x))) H); try reflexivity.
      * rewrite Hi. reflexivity.
      * rewrite Hi. reflexivity.
      * apply pc_of_mk_same.
      * intros j Hj. apply pc_of_mk_other; [exact Hj|reflexivity].
  - apply WT_leave with (ks := ks); assumption.
  - apply WT_leave with (ks := ks); assumption.
  - assert (Hrw : isRW (pc_of c i) = false) by (destruct Hpc as [E|E]; rewrite E; reflexivity).
    destruct (wt_notRW c H i Hrw) as [_ Hnq].
    assert (Hnd0 : NoDup (akeys qs0)) by (destruct Hqs0; subst; [exact Hnd|apply NoDup_unlink; exact Hnd]).
    assert (Hq0 : forall k, gl qs0 k = queue_of c k).
    { intro k. destruct Hqs0; subst; [reflexivity|].
      rewrite gl_unlink by assumption. apply remove_cid_notin. apply Hnq. }
    apply (WT_register c _ i ks H Hrw); try reflexivity.
    + intro k. unfold queue_of at 1; simpl.
      change (gl (register qs0 i ks) k = queue_of c k ++ repeat i (kcnt ks k)).
      rewrite (proj2 (register_spec ks qs0 i Hnd0) k), Hq0. reflexivity.
    + apply pc_of_mk_same.
    + intros j Hj. apply pc_of_mk_other; [exact Hj|reflexivity].
  - apply (WT_repc c _ i p H); try reflexivity.
    + destruct Hp as [[ks [E1 [E2 _]]]|[r [E1 E2]]]; subst p; rewrite E1; reflexivity.
    + destruct Hp as [[ks [E1 [E2 _]]]|[r [E1 E2]]]; subst p; rewrite E1; reflexivity.
    + apply pc_of_mk_same.
    + intros j Hj. apply pc_of_mk_other; [exact Hj|reflexivity].
  - apply (WT_drop c _ i (Woken ks) H); try reflexivity.
    + intro k. unfold queue_of at 1; simpl. change (queue_of c k = remove_cid i (queue_of c k)).
      symmetry. apply remove_cid_notin. apply (wt_T c H i k Htok).
    + apply pc_of_mk_same.
    + intros j Hj. apply pc_of_mk_other; [exact Hj|reflexivity].
Qed.

(* ------------------------------------------------------------------ *)
(** * 5. No lost wake-up *)

Definition M (c : cfg) : Prop :=
  forall k, list_of c k <> [] -> queue_of c k <> [] -> exists i, inflight c i k.

Lemma inflight_tok c j k :
  In j (tokens c) -> isRW (pc_of c j) = true -> In k (wkeys (pc_of c j)) -> inflight c j k.
Proof. unfold inflight. destruct (pc_of c j); simpl; intros; try discriminate; auto. Qed.

Lemma inflight_pres c c' j k :
  pc_of c' j = pc_of c j -> (In j (tokens c) -> In j (tokens c')) -> inflight c j k -> inflight c' j k.
Proof. unfold inflight. intros E Ht. rewrite E. destruct (pc_of c j); tauto. Qed.

Lemma inflight_keys c j k : inflight c j k ->
  match pc_of c j with Registered ks | Waiting ks | Woken ks => In k ks | _ => False end.
Proof. unfold inflight. destruct (pc_of c j); tauto. Qed.

Lemma M_leave c i ks ls' qs' w r pu po :
  WT c -> M c -> leaveP c i ks ls' qs' w ->
  (forall k, inflight c i k -> In k ks) ->
  (forall k, ~ In k ks -> gl ls' k <> [] -> list_of c k <> []) ->
  M (mkCfg ls' qs' (remove_cid i (tokens c) ++ w) (nset (pcs c) i (Finished r)) pu po).
Proof.
  intros H HM [HL1 [HL2 [HL3 [HL4 [HL5 _]]]]] Hik Hls.
  set (c' := mkCfg ls' qs' (remove_cid i (tokens c) ++ w) (nset (pcs c) i (Finished r)) pu po).
  intros k Hl Hq. change (gl ls' k <> []) in Hl. change (gl qs' k <> []) in Hq.
  destruct (in_dec bytes_eq_dec k ks) as [Hk|Hk].
  - destruct (HL5 k Hk Hl Hq) as [j [Hj1 Hj2]]. destruct (HL4 j Hj1) as [Hji _].
    destruct (wt_Q c H j k Hj2) as [Hrw Hkk].
    assert (Hpc : pc_of c' j = pc_of c j) by (apply pc_of_mk_other; [exact Hji|reflexivity]).
    exists j. apply inflight_tok.
    + simpl. apply in_or_app. right. exact Hj1.
    + rewrite Hpc. exact Hrw.
    + rewrite Hpc. exact Hkk.
  - assert (Hq0 : queue_of c k <> []).
    { rewrite HL2 in Hq. apply rmall_nonempty in Hq. apply remove_cid_nonempty in Hq. exact Hq. }
    destruct (HM k (Hls k Hk Hl) Hq0) as [j Hj]. exists j.
    assert (Hji : j <> i) by (intro E; subst j; apply Hk, Hik, Hj).
    apply (inflight_pres c c' j k); [apply pc_of_mk_other; [exact Hji|reflexivity]| |exact Hj].
    intro Ht. simpl. apply in_or_app. left. apply In_remove_cid. split; assumption.
Qed.

Lemma M_Step c c' : KWF c -> WT c -> M c -> Step c c' -> M c'.
Proof.
  intros HK H HM HS. pose proof HK as [_ [Hnd _]].
  destruct HS as [k xs qs' w Hxs [HW1 [HW2 [HW3 HW4]]] Hin Hhd
                 |k x rest ps Hk Hps
                 |i ks k x rest qs' w Hpc Hk Hl HL
                 |i ks qs' w Hpc HL
                 |i ks qs0 Hpc Hqs0 Hemp
                 |i p Hp
                 |i ks Hpc Htok].
  - (* push *)
    intros k' Hl Hq. unfold queue_of in Hq; simpl in Hq. change (gl qs' k' <> []) in Hq.
    rewrite HW2 in Hq. change (gl (queues c) k') with (queue_of c k') in Hq.
    destruct (bytes_eq_dec k' k) as [E|E].
    + subst k'. destruct (queue_of c k) as [|j q] eqn:Eq; [exfalso; apply Hq; reflexivity|].
      assert (Hjw : In j w) by (apply (Hhd j q); reflexivity).
      assert (Hjq : In j (queue_of c k)) by (rewrite Eq; left; reflexivity).
      destruct (wt_Q c H j k Hjq) as [Hrw Hkk].
      exists j. apply inflight_tok; [simpl; apply in_or_app; right; exact Hjw|exact Hrw|exact Hkk].
    + unfold list_of in Hl; simpl in Hl. change (gl (set_list (lists c) k (list_of c k ++ xs)) k' <> []) in Hl.
      rewrite set_list_setl, gl_setl_other in Hl by assumption.
      apply rmall_nonempty in Hq. destruct (HM k' Hl Hq) as [j Hj]. exists j.
      apply (inflight_pres c _ j k'); [reflexivity| |exact Hj].
      intro Ht. simpl. apply in_or_app. left. exact Ht.
  - (* pop without leave *)
    intros k' Hl Hq. change (queue_of c k' <> []) in Hq.
    assert (Hl0 : list_of c k' <> []).
    { destruct (bytes_eq_dec k' k) as [E|E]; [subst; rewrite Hk; discriminate|].
      unfold list_of in Hl; simpl in Hl. change (gl (set_list (lists c) k rest) k' <> []) in Hl.
      rewrite set_list_setl, gl_setl_other in Hl by assumption. exact Hl. }
    destruct (HM k' Hl0 Hq) as [j Hj]. exists j.
    apply (inflight_pres c _ j k'); [|intro Ht; exact Ht|exact Hj].
    destruct Hps as [Hps|[i [Hi Hps]]]; subst ps; [reflexivity|].
    destruct (N.eq_dec j i) as [E|E].
    + subst j. unfold inflight in Hj. rewrite Hi in Hj. contradiction.
    + apply pc_of_mk_other; [exact E|reflexivity].
  - (* pop with leave *)
    apply M_leave with (ks := ks); try assumption.
    + intros k' Hi. apply inflight_keys in Hi. destruct Hpc as [E|E]; rewrite E in Hi; exact Hi.
    + intros k' Hk' Hl'. rewrite set_list_setl, gl_setl_other in Hl'; [exact Hl'|].
      intro E. subst. contradiction.
  - (* give up *)
    apply M_leave with (ks := ks); try assumption.
    + intros k' Hi. apply inflight_keys in Hi. rewrite Hpc in Hi. exact Hi.
    + intros k' _ Hl'. exact Hl'.
  - (* register *)
    intros k Hl Hq. change (list_of c k <> []) in Hl.
    assert (Hk : ~ In k ks) by (intro Hk; apply Hl, Hemp, Hk).
    assert (Hnd0 : NoDup (akeys qs0)) by (destruct Hqs0; subst; [exact Hnd|apply NoDup_unlink; exact Hnd]).
    unfold queue_of in Hq; simpl in Hq. change (gl (register qs0 i ks) k <> []) in Hq.
    rewrite (proj2 (register_spec ks qs0 i Hnd0) k) in Hq.
    assert (Hz : kcnt ks k = 0) by (apply count_occ_not_In; exact Hk).
    rewrite Hz in Hq. simpl in Hq. rewrite app_nil_r in Hq.
    assert (Hq0 : queue_of c k <> []).
    { destruct Hqs0; subst; [exact Hq|]. rewrite gl_unlink in Hq by assumption.
      apply remove_cid_nonempty in Hq. exact Hq. }
    destruct (HM k Hl Hq0) as [j Hj]. exists j.
    assert (Hji : j <> i).
    { intro E. subst j. apply inflight_keys in Hj. destruct Hpc as [E|E]; rewrite E in Hj; tauto. }
    apply (inflight_pres c _ j k); [apply pc_of_mk_other; [exact Hji|reflexivity]|intro Ht; exact Ht|exact Hj].
  - (* pc change *)
    intros k Hl Hq. change (list_of c k <> []) in Hl. change (queue_of c k <> []) in Hq.
    destruct (HM k Hl Hq) as [j Hj]. exists j.
    assert (Hji : j <> i).
    { intro E. subst j. apply inflight_keys in Hj.
      destruct Hp as [[ks [E1 [E2 Hemp]]]|[r [E1 E2]]]; rewrite E1 in Hj; [|contradiction].
      apply Hl, Hemp, Hj. }
    apply (inflight_pres c _ j k); [apply pc_of_mk_other; [exact Hji|reflexivity]|intro Ht; exact Ht|exact Hj].
  - (* wake *)
    intros k Hl Hq. change (list_of c k <> []) in Hl. change (queue_of c k <> []) in Hq.
    destruct (HM k Hl Hq) as [j Hj]. exists j.
    destruct (N.eq_dec j i) as [E|E].
    + subst j. unfold inflight in *. rewrite Hpc in Hj. rewrite pc_of_mk_same. tauto.
    + apply (inflight_pres c _ j k); [apply pc_of_mk_other; [exact E|reflexivity]| |exact Hj].
      intro Ht. simpl. apply In_remove_cid. split; assumption.
Qed.

(* the whole invariant *)
Definition Inv (c : cfg) : Prop := KWF c /\ WT c /\ M c.

Lemma Inv_cfg0 : Inv cfg0.
Proof.
  split; [exact KWF_cfg0|]. split; [exact WT_cfg0|].
  intros k Hl. exfalso. apply Hl. reflexivity.
Qed.

Lemma Inv_step c l c' : Inv c -> wstep c l = Some c' -> Inv c'.
Proof.
  intros [HK [HW HM]] Hs.
  assert (HS : Step c c') by (apply (wstep_Step c l c'); [apply HK|exact Hs]).
  split; [apply (KWF_Step c c' HK HS)|].
  split; [apply (WT_Step c c' HK HW HS)|apply (M_Step c c' HK HW HM HS)].
Qed.

Lemma Inv_reachable c : reachable c -> Inv c.
Proof. apply reachable_inv; [exact Inv_cfg0|exact Inv_step]. Qed.

Theorem C11_no_lost_wakeup c :
  reachable c -> forall k, list_of c k <> [] -> queue_of c k <> [] -> exists i, inflight c i k.
Proof. intro Hr. apply (Inv_reachable c Hr). Qed.
Print Assumptions C11_no_lost_wakeup.

Theorem C11_quiescent_no_blocked c :
  reachable c -> quiescent c ->
  forall i ks k, pc_of c i = Waiting ks -> In k ks -> list_of c k = [].
Proof.
  intros Hr Hqu i ks k Hpc Hk. destruct (Inv_reachable c Hr) as [_ [HW HM]].
  destruct (list_of c k) as [|x l] eqn:El; [reflexivity|exfalso].
  assert (Hnt : ~ In i (tokens c)) by (pose proof (Hqu i) as Hi; rewrite Hpc in Hi; exact Hi).
  assert (Hiq : In i (queue_of c k)).
  { apply cnt_pos_in. rewrite (wt_E c HW i k Hnt), Hpc. simpl. apply kcnt_pos_in. exact Hk. }
  assert (Hq : queue_of c k <> []) by (intro E; rewrite E in Hiq; exact Hiq).
  assert (Hl : list_of c k <> []) by (rewrite El; discriminate).
  destruct (HM k Hl Hq) as [j Hj]. pose proof (Hqu j) as Hqj.
  unfold inflight in Hj. destruct (pc_of c j); try contradiction. tauto.
Qed.
Print Assumptions C11_quiescent_no_blocked.

(* ------------------------------------------------------------------ *)
(** * 3 (statement). Wait-table well-formedness for reachable configurations *)

Definition blocked_on (c : cfg) (i : cid) (ks : list key) : Prop :=
  pc_of c i = Registered ks \/ pc_of c i = Waiting ks.

Lemma blocked_on_wkeys c i ks : blocked_on c i ks -> wkeys (pc_of c i) = ks /\ isRW (pc_of c i) = true.
Proof. intros [E|E]; rewrite E; split; reflexivity. Qed.

Lemma isRW_blocked_on c i : isRW (pc_of c i) = true -> exists ks, blocked_on c i ks /\ wkeys (pc_of c i) = ks.
Proof.
  unfold blocked_on. destruct (pc_of c i) as [|ks|ks|ks|r]; simpl; try discriminate; intros _; exists ks; auto.
Qed.

(* (b) (c) (d) (e), and the exact multiplicity of a client in a queue.
   (a) "at most once" holds exactly when the client's key list has no duplicates, see below. *)
Theorem C11_wt_wf c :
  reachable c ->
  (* b *) (forall i k, In i (queue_of c k) -> exists ks, blocked_on c i ks /\ In k ks) /\
  (* c *) (forall i, In i (tokens c) -> (exists ks, blocked_on c i ks) /\ forall k, ~ In i (queue_of c k)) /\
  (* d *) NoDup (tokens c) /\
  (* e *) (forall i ks, blocked_on c i ks -> ~ In i (tokens c) -> forall k, In k ks -> In i (queue_of c k)) /\
  (* exact count *)
  (forall i ks, blocked_on c i ks -> ~ In i (tokens c) ->
                forall k, count_occ N.eq_dec (queue_of c k) i = count_occ bytes_eq_dec ks k) /\
  (forall i ks, blocked_on c i ks ->
                forall k, count_occ N.eq_dec (queue_of c k) i <= count_occ bytes_eq_dec ks k) /\
  (* the table itself: distinct keys, no empty queue stored *)
  NoDup (map fst (queues c)) /\ (forall k, aget (queues c) k <> Some []).
Proof.
  intro Hr. destruct (Inv_reachable c Hr) as [[_ [HK2 [_ HK4]]] [HW _]].
  split.
  { intros i k Hi. destruct (wt_Q c HW i k Hi) as [H1 H2].
    destruct (isRW_blocked_on c i H1) as [ks [Hb Hk]]. exists ks. split; [exact Hb|]. rewrite <- Hk. exact H2. }
  split.
  { intros i Hi. split; [|intro k; apply (wt_T c HW i k Hi)].
    destruct (isRW_blocked_on c i (wt_T2 c HW i Hi)) as [ks [Hb _]]. exists ks. exact Hb. }
  split; [apply (wt_D c HW)|].
  split.
  { intros i ks Hb Hnt k Hk. destruct (blocked_on_wkeys c i ks Hb) as [Hw _].
    apply cnt_pos_in. rewrite (wt_E c HW i k Hnt), Hw. apply kcnt_pos_in. exact Hk. }
  split.
  { intros i ks Hb Hnt k. destruct (blocked_on_wkeys c i ks Hb) as [Hw _].
    pose proof (wt_E c HW i k Hnt) as HE. rewrite Hw in HE. exact HE. }
  split.
  { intros i ks Hb k. destruct (blocked_on_wkeys c i ks Hb) as [Hw _].
    pose proof (wt_A c HW i k) as HA. rewrite Hw in HA. exact HA. }
  split; [exact HK2|exact HK4].
Qed.
Print Assumptions C11_wt_wf.

(* (a): PARTIAL.  "client i is in queue_of c k at most once" is FALSE in general: a blocking command
   that names the same key twice (BLPOP k k 0) is registered twice in k's queue (enterMultiWait joins
   once per name; the model's [register] mirrors that) — see the Example below.  It holds for every
   client whose key list has no duplicates; the exact multiplicity is given in C11_wt_wf. *)
Theorem C11_wt_wf_a_partial c :
  reachable c ->
  (forall i ks k, blocked_on c i ks -> NoDup ks -> count_occ N.eq_dec (queue_of c k) i <= 1) /\
  (forall k, (forall i ks, In i (queue_of c k) -> blocked_on c i ks -> NoDup ks) -> NoDup (queue_of c k)).
Proof.
  intro Hr. destruct (C11_wt_wf c Hr) as [Hb [_ [_ [_ [_ [Hle _]]]]]].
  assert (H1 : forall i ks k, blocked_on c i ks -> NoDup ks -> count_occ N.eq_dec (queue_of c k) i <= 1).
  { intros i ks k Hbl Hnd. pose proof (Hle i ks Hbl k) as H.
    pose proof (proj1 (NoDup_count_occ bytes_eq_dec ks) Hnd k) as H'. lia. }
  split; [exact H1|].
  intros k Hall. apply (NoDup_count_occ N.eq_dec). intro i.
  destruct (in_dec N.eq_dec i (queue_of c k)) as [Hi|Hi].
  - destruct (Hb i k Hi) as [ks [Hbl _]]. apply (H1 i ks k Hbl). apply (Hall i ks Hi Hbl).
  - apply (count_occ_not_In N.eq_dec) in Hi. rewrite Hi. lia.
Qed.
Print Assumptions C11_wt_wf_a_partial.

Example C11_wt_wf_a_counterexample :
  let k := [107%N] in
  option_map (fun c => (queue_of c k, pc_of c 1%N)) (wrun cfg0 [LStart 1%N [k; k]])
  = Some ([1%N; 1%N], Registered [k; k]).
Proof. vm_compute. reflexivity. Qed.

(* ------------------------------------------------------------------ *)
(** * 4. FIFO: wake-up order = queue order = registration order *)

Lemma remove_cid_head i q : ~ In i q -> remove_cid i (i :: q) = q.
Proof.
  intro H. unfold remove_cid. simpl. rewrite N.eqb_refl. simpl. apply (remove_cid_notin i q H).
Qed.

Lemma unblock_tokens k f : forall n qs toks qs' toks',
  NoDup (akeys qs) -> NoDup (gl qs k) -> unblock f qs toks k n = (qs', toks') ->
  toks' = toks ++ firstn (Nat.min n f) (gl qs k).
Proof.
  induction f as [|f IH]; intros n qs toks qs' toks' Hnd Hq H.
  - simpl in H. injection H as <- <-. rewrite Nat.min_0_r. simpl. rewrite app_nil_r. reflexivity.
  - destruct n as [|n].
    + simpl in H. injection H as <- <-. simpl. rewrite app_nil_r. reflexivity.
    + simpl in H. unfold gl in *. destruct (aget qs k) as [[|i q]|] eqn:Eg.
      * injection H as <- <-. simpl. rewrite app_nil_r. reflexivity.
      * inversion Hq as [|? ? Hnin Hndq]; subst.
        pose proof (IH n (unlink qs i) (toks ++ [i]) qs' toks' (NoDup_unlink _ _ Hnd)) as IH'.
        fold (gl (unlink qs i) k) in IH'. rewrite gl_unlink in IH' by assumption.
        unfold gl in IH'. rewrite Eg in IH'. rewrite (remove_cid_head i q Hnin) in IH'.
        rewrite (IH' Hndq H). rewrite <- app_assoc. reflexivity.
      * injection H as <- <-. simpl. rewrite app_nil_r. reflexivity.
Qed.

Lemma rmall_firstn_NoDup q : NoDup q -> forall m, rmall (firstn m q) q = skipn m q.
Proof.
  induction q as [|a q IH]; intros Hnd m.
  - destruct m; reflexivity.
  - inversion Hnd as [|? ? Hnin Hnd']; subst. destruct m as [|m].
    + cbn [firstn skipn]. apply rmall_nil.
    + cbn [firstn skipn]. rewrite rmall_cons, (remove_cid_head a q Hnin). apply IH. exact Hnd'.
Qed.

Lemma firstn_min_fuel {A} (q : list A) n F :
  length q <= F -> firstn (Nat.min n F) q = firstn (Nat.min n (length q)) q.
Proof.
  intro H. destruct (Nat.le_gt_cases n (length q)) as [Hn|Hn].
  - rewrite !Nat.min_l by lia. reflexivity.
  - rewrite (Nat.min_r n (length q)) by lia. rewrite firstn_all.
    apply firstn_all2. lia.
Qed.

(* a queue without duplicates is no longer than the pc table: the fuel of [unblock] suffices *)
Lemma queue_length_le_pcs c k : WT c -> NoDup (queue_of c k) -> length (queue_of c k) <= length (pcs c).
Proof.
  intros HW Hnd. rewrite <- (map_length fst (pcs c)). apply NoDup_incl_length; [exact Hnd|].
  intros i Hi. destruct (wt_Q c HW i k Hi) as [Hrw _].
  unfold pc_of in Hrw. destruct (nget (pcs c) i) eqn:E; [|discriminate].
  apply (nget_some_in _ _ _ E).
Qed.

(* LPush k xs wakes the first min(|xs|, |queue k|) clients of k's queue in queue order: they are
   appended to the tokens in that order, leave every queue, and k's queue keeps the remaining suffix.
   (Hypothesis NoDup (queue_of c k): see C11_wt_wf_a_partial / C11_queue_NoDup for when it holds.) *)
Theorem C11_fifo c k xs c' :
  reachable c -> NoDup (queue_of c k) -> wstep c (LPush k xs) = Some c' ->
  let n := Nat.min (length xs) (length (queue_of c k)) in
  tokens c' = tokens c ++ firstn n (queue_of c k) /\
  queue_of c' k = skipn n (queue_of c k) /\
  (forall k', queue_of c' k' = rmall (firstn n (queue_of c k)) (queue_of c k')) /\
  (forall i, pc_of c' i = pc_of c i).
Proof.
  intros Hr Hq H n. destruct (Inv_reachable c Hr) as [[_ [Hnd _]] [HW _]].
  unfold wstep in H. destruct xs as [|x xs]; [discriminate|].
  destruct (unblock (length (pcs c) + 1) (queues c) (tokens c) k (length (x :: xs))) as [qs toks] eqn:Eu.
  injection H as <-.
  pose proof (unblock_tokens _ _ _ _ _ _ _ Hnd Hq Eu) as Ht.
  destruct (unblock_spec _ _ _ _ _ _ _ Hnd Eu) as [w [Ht' [_ [Hqs _]]]].
  change (gl (queues c) k) with (queue_of c k) in Ht.
  rewrite firstn_min_fuel in Ht by (pose proof (queue_length_le_pcs c k HW Hq); lia).
  fold n in Ht.
  assert (Hw : w = firstn n (queue_of c k)) by (rewrite Ht in Ht'; apply app_inv_head in Ht'; congruence).
  subst w. simpl. split; [exact Ht|]. split.
  - change (gl qs k = skipn n (queue_of c k)). rewrite Hqs. apply rmall_firstn_NoDup. exact Hq.
  - split; [|reflexivity]. intro k'. apply Hqs.
Qed.
Print Assumptions C11_fifo.

(* registration order = queue order: LStart (and the re-registration of LRetry) append at the tail *)
Theorem C11_fifo_register c i ks c' :
  reachable c -> wstep c (LStart i ks) = Some c' ->
  (exists ks', pc_of c' i = Registered ks') ->
  pc_of c' i = Registered ks /\ tokens c' = tokens c /\
  forall k, queue_of c' k = queue_of c k ++ repeat i (count_occ bytes_eq_dec ks k).
Proof.
  intros Hr H [ks' Hreg]. destruct (Inv_reachable c Hr) as [[_ [Hnd _]] _].
  unfold wstep in H. destruct (pc_of c i) eqn:Hpc; try discriminate.
  destruct ks as [|k0 ks0]; [discriminate|].
  destruct (first_nonempty (lists c) (k0 :: ks0)) as [[[k x] rest]|] eqn:Ef; injection H as <-.
  - exfalso. unfold finish in Hreg. rewrite pc_of_mk_same in Hreg. discriminate.
  - split; [apply pc_of_mk_same|]. split; [reflexivity|].
    intro k. apply (proj2 (register_spec (k0 :: ks0) (queues c) i Hnd) k).
Qed.
Print Assumptions C11_fifo_register.

Theorem C11_fifo_reregister c i c' :
  reachable c -> wstep c (LRetry i) = Some c' ->
  forall ks, pc_of c' i = Registered ks ->
  pc_of c i = Woken ks /\ tokens c' = tokens c /\
  forall k, queue_of c' k = queue_of c k ++ repeat i (count_occ bytes_eq_dec ks k).
Proof.
  intros Hr H ks' Hreg. destruct (Inv_reachable c Hr) as [[_ [Hnd _]] [HW _]].
  unfold wstep in H. destruct (pc_of c i) eqn:Hpc; try discriminate.
  destruct (first_nonempty (lists c) ks) as [[[k x] rest]|] eqn:Ef; injection H as <-.
  - exfalso. unfold finish in Hreg. cbv zeta in Hreg.
    destruct (leave c i ks (set_list (lists c) k rest)) as [qs toks].
    rewrite pc_of_mk_same in Hreg. discriminate.
  - rewrite pc_of_mk_same in Hreg. injection Hreg as <-.
    split; [reflexivity|]. split; [reflexivity|]. intro k.
    change (gl (register (unlink (queues c) i) i ks) k = queue_of c k ++ repeat i (kcnt ks k)).
    rewrite (proj2 (register_spec ks _ i (NoDup_unlink _ i Hnd)) k), gl_unlink by assumption.
    rewrite remove_cid_notin; [reflexivity|].
    assert (Hrw : isRW (pc_of c i) = false) by (rewrite Hpc; reflexivity).
    apply (wt_notRW c HW i Hrw).
Qed.
Print Assumptions C11_fifo_reregister.

(* When no blocking command names a key twice, every queue is duplicate free. *)
Definition pkeys (p : pc) : list key :=
  match p with Registered ks | Waiting ks | Woken ks => ks | _ => [] end.
Definition distinct_keys (l : label) : Prop := match l with LStart _ ks => NoDup ks | _ => True end.

Lemma finish_fields c i ks k x rest b :
  lists (finish c i ks k x rest b) = set_list (lists c) k rest /\
  pushed (finish c i ks k x rest b) = pushed c /\
  popped (finish c i ks k x rest b) = popped c ++ [x] /\
  pcs (finish c i ks k x rest b) = nset (pcs c) i (Finished (Some (k, x))).
Proof.
  unfold finish. cbv zeta. destruct b.
  - destruct (leave c i ks (set_list (lists c) k rest)); simpl; auto.
  - simpl. auto.
Qed.

(* the program-counter automaton of one client: what each enabled label does to the pc table *)
Lemma wstep_pcs c l c' :
  wstep c l = Some c' ->
  match l with
  | LPush _ _ | LSteal _ => pcs c' = pcs c
  | LStart i ks => pc_of c i = Idle /\ ks <> [] /\
                   (pcs c' = nset (pcs c) i (Registered ks) \/
                    exists k x, pcs c' = nset (pcs c) i (Finished (Some (k, x))))
  | LSecond i => exists ks, pc_of c i = Registered ks /\
                   (pcs c' = nset (pcs c) i (Waiting ks) \/
                    exists k x, pcs c' = nset (pcs c) i (Finished (Some (k, x))))
  | LWake i => exists ks, pc_of c i = Waiting ks /\ In i (tokens c) /\ pcs c' = nset (pcs c) i (Woken ks)
  | LRetry i => exists ks, pc_of c i = Woken ks /\
                   (pcs c' = nset (pcs c) i (Registered ks) \/
                    exists k x, pcs c' = nset (pcs c) i (Finished (Some (k, x))))
  | LGiveUp i => exists ks, pc_of c i = Waiting ks /\ pcs c' = nset (pcs c) i (Finished None)
  | LReset i => exists r, pc_of c i = Finished r /\ pcs c' = nset (pcs c) i Idle
  end.
Proof.
  intro H. destruct l as [k xs|k|i ks|i|i|i|i|i]; unfold wstep in H.
  - destruct xs as [|x xs]; [discriminate|].
    destruct (unblock (length (pcs c) + 1) (queues c) (tokens c) k (length (x :: xs))) as [qs toks].
    injection H as <-. reflexivity.
  - destruct (list_of c k) as [|x rest]; [discriminate|]. injection H as <-. reflexivity.
  - destruct (pc_of c i) eqn:Hpc; try discriminate.
    destruct ks as [|k0 ks0]; [discriminate|].
    split; [reflexivity|]. split; [discriminate|].
    destruct (first_nonempty (lists c) (k0 :: ks0)) as [[[k x] rest]|]; injection H as <-.
    + right. exists k, x. apply finish_fields.
    + left. reflexivity.
  - destruct (pc_of c i) eqn:Hpc; try discriminate. exists ks. split; [reflexivity|].
    destruct (first_nonempty (lists c) ks) as [[[k x] rest]|]; injection H as <-.
    + right. exists k, x. apply finish_fields.
    + left. reflexivity.
  - destruct (pc_of c i) eqn:Hpc; try discriminate.
    destruct (existsb (N.eqb i) (tokens c)) eqn:Et; [|discriminate]. injection H as <-.
    exists ks. split; [reflexivity|]. split; [apply existsb_eqb_in; exact Et|reflexivity].
  - destruct (pc_of c i) eqn:Hpc; try discriminate. exists ks. split; [reflexivity|].
    destruct (first_nonempty (lists c) ks) as [[[k x] rest]|]; injection H as <-.
    + right. exists k, x. apply finish_fields.
    + left. reflexivity.
  - destruct (pc_of c i) eqn:Hpc; try discriminate.
    destruct (leave c i ks (lists c)) as [qs toks]. injection H as <-.
    exists ks. split; reflexivity.
  - destruct (pc_of c i) eqn:Hpc; try discriminate. injection H as <-.
    exists r. split; reflexivity.
Qed.

Lemma pc_of_pcs_same c c' i p : pcs c' = nset (pcs c) i p -> pc_of c' i = p.
Proof. intro E. unfold pc_of. rewrite E, nget_nset_same. reflexivity. Qed.
Lemma pc_of_pcs_other c c' i j p : pcs c' = nset (pcs c) i p -> j <> i -> pc_of c' j = pc_of c j.
Proof. intros E H. unfold pc_of. rewrite E, nget_nset_other by assumption. reflexivity. Qed.
Lemma pc_of_pcs_eq c c' j : pcs c' = pcs c -> pc_of c' j = pc_of c j.
Proof. intro E. unfold pc_of. rewrite E. reflexivity. Qed.

Lemma distinct_step c l c' :
  distinct_keys l -> wstep c l = Some c' ->
  (forall j, NoDup (pkeys (pc_of c j))) -> forall j, NoDup (pkeys (pc_of c' j)).
Proof.
  intros Hd H Hall j. pose proof (wstep_pcs c l c' H) as HP.
  assert (Hgen : forall i p, pcs c' = nset (pcs c) i p -> NoDup (pkeys p) -> NoDup (pkeys (pc_of c' j))).
  { intros i p E Hp. destruct (N.eq_dec j i) as [Eji|Eji].
    - subst j. rewrite (pc_of_pcs_same c c' i p E). exact Hp.
    - rewrite (pc_of_pcs_other c c' i j p E Eji). apply Hall. }
  destruct l as [k xs|k|i ks|i|i|i|i|i]; simpl in Hd.
  - rewrite (pc_of_pcs_eq c c' j HP). apply Hall.
  - rewrite (pc_of_pcs_eq c c' j HP). apply Hall.
  - destruct HP as [_ [_ [E|[k [x E]]]]]; apply (Hgen _ _ E); simpl; [exact Hd|constructor].
  - destruct HP as [ks [Hpc [E|[k [x E]]]]]; apply (Hgen _ _ E); simpl; [|constructor].
    pose proof (Hall i) as Hi. rewrite Hpc in Hi. exact Hi.
  - destruct HP as [ks [Hpc [_ E]]]. apply (Hgen _ _ E). simpl.
    pose proof (Hall i) as Hi. rewrite Hpc in Hi. exact Hi.
  - destruct HP as [ks [Hpc [E|[k [x E]]]]]; apply (Hgen _ _ E); simpl; [|constructor].
    pose proof (Hall i) as Hi. rewrite Hpc in Hi. exact Hi.
  - destruct HP as [ks [Hpc E]]. apply (Hgen _ _ E). simpl. constructor.
  - destruct HP as [r [Hpc E]]. apply (Hgen _ _ E). simpl. constructor.
Qed.

Theorem C11_queue_NoDup ls c :
  Forall distinct_keys ls -> wrun cfg0 ls = Some c -> forall k, NoDup (queue_of c k).
Proof.
  intros Hd Hrun k.
  assert (Hall : forall j, NoDup (pkeys (pc_of c j))).
  { assert (Hg : forall ls c0 c1, Forall distinct_keys ls -> wrun c0 ls = Some c1 ->
                   (forall j, NoDup (pkeys (pc_of c0 j))) -> forall j, NoDup (pkeys (pc_of c1 j))).
    { clear. induction ls as [|l ls IH]; intros c0 c1 Hd H H0; simpl in H.
      - injection H as <-. exact H0.
      - inversion Hd as [|? ? Hl Hls]; subst.
        destruct (wstep c0 l) as [c2|] eqn:E; [|discriminate].
        apply (IH c2 c1 Hls H). apply (distinct_step c0 l c2 Hl E H0). }
    apply (Hg ls cfg0 c Hd Hrun). intro j. simpl. constructor. }
  assert (Hr : reachable c) by (exists ls; exact Hrun).
  apply (proj2 (C11_wt_wf_a_partial c Hr) k).
  intros i ks _ Hb. pose proof (Hall i) as Hi. destruct Hb as [E|E]; rewrite E in Hi; exact Hi.
Qed.
Print Assumptions C11_queue_NoDup.

(* ------------------------------------------------------------------ *)
(** * 2. Elements leave each list in list order (FIFO per list) *)

(* ghost: what a label pushes to key k *)
Definition push_of (k : key) (l : label) : list elem :=
  match l with LPush k' xs => if bytes_eqb k k' then xs else [] | _ => [] end.
Definition pushall (l : label) : list elem := match l with LPush _ xs => xs | _ => [] end.

(* ghost: the (key, element) a label hands to a consumer in configuration c *)
Definition blk_keys (c : cfg) (l : label) : option (list key) :=
  match l with
  | LStart i ks => match pc_of c i with Idle => Some ks | _ => None end
  | LSecond i => match pc_of c i with Registered ks => Some ks | _ => None end
  | LRetry i => match pc_of c i with Woken ks => Some ks | _ => None end
  | _ => None
  end.
Definition pop_ev (c : cfg) (l : label) : option (key * elem) :=
  match l with
  | LSteal k => match list_of c k with x :: _ => Some (k, x) | [] => None end
  | _ => match blk_keys c l with
         | Some ks => match first_nonempty (lists c) ks with Some (k, x, _) => Some (k, x) | None => None end
         | None => None
         end
  end.

Lemma list_of_set_same c' c k l : lists c' = set_list (lists c) k l -> list_of c' k = l.
Proof. intro E. unfold list_of. rewrite E. apply (gl_setl_same (lists c) k l). Qed.
Lemma list_of_set_other c' c k k' l : lists c' = set_list (lists c) k l -> k' <> k -> list_of c' k' = list_of c k'.
Proof. intros E H. unfold list_of. rewrite E. apply (gl_setl_other (lists c) k k' l H). Qed.

Lemma finish_order c i ks k x rest b :
  first_nonempty (lists c) ks = Some (k, x, rest) ->
  let c' := finish c i ks k x rest b in
  popped c' = popped c ++ [x] /\ pushed c' = pushed c /\
  list_of c k = x :: list_of c' k /\ (forall k', k' <> k -> list_of c' k' = list_of c k').
Proof.
  intros Hf c'. destruct (finish_fields c i ks k x rest b) as [E1 [E2 [E3 _]]].
  apply first_nonempty_some in Hf. destruct Hf as [_ Hl].
  split; [exact E3|]. split; [exact E2|]. split.
  - unfold c'. rewrite (list_of_set_same _ c k rest E1). exact Hl.
  - intros k' Hk'. apply (list_of_set_other _ c k k' rest E1 Hk').
Qed.

(* every step either hands the current HEAD of one list to a consumer (nothing else changes),
   or pops nothing and appends the pushed elements at the TAIL *)
Theorem C11_list_order_step c l c' :
  wstep c l = Some c' ->
  match pop_ev c l with
  | Some (k, x) => popped c' = popped c ++ [x] /\ pushed c' = pushed c /\
                   list_of c k = x :: list_of c' k /\
                   (forall k', k' <> k -> list_of c' k' = list_of c k')
  | None => popped c' = popped c /\ pushed c' = pushed c ++ pushall l /\
            (forall k, list_of c' k = list_of c k ++ push_of k l)
  end.
Proof.
  intro H. destruct l as [k xs|k|i ks|i|i|i|i|i]; unfold wstep in H; unfold pop_ev, blk_keys.
  - destruct xs as [|x xs]; [discriminate|].
    destruct (unblock (length (pcs c) + 1) (queues c) (tokens c) k (length (x :: xs))) as [qs toks].
    injection H as <-. split; [reflexivity|]. split; [reflexivity|].
    intro k'. unfold push_of. destruct (bytes_eqb k' k) eqn:E.
    + apply bytes_eqb_eq in E. subst k'. eapply (list_of_set_same _ c); reflexivity.
    + apply bytes_eqb_neq in E. rewrite app_nil_r. eapply (list_of_set_other _ c k); [reflexivity|exact E].
  - destruct (list_of c k) as [|x rest] eqn:El; [discriminate|]. injection H as <-.
    split; [reflexivity|]. split; [reflexivity|]. split.
    + rewrite El. f_equal. symmetry. eapply (list_of_set_same _ c); reflexivity.
    + intros k' Hk'. eapply (list_of_set_other _ c k); [reflexivity|exact Hk'].
  - destruct (pc_of c i) eqn:Hpc; try discriminate.
    destruct ks as [|k0 ks0]; [discriminate|].
    destruct (first_nonempty (lists c) (k0 :: ks0)) as [[[k x] rest]|] eqn:Ef; injection H as <-.
    + apply finish_order; exact Ef.
    + simpl. split; [reflexivity|]. split; [rewrite app_nil_r; reflexivity|].
      intro k. rewrite app_nil_r. reflexivity.
  - destruct (pc_of c i) eqn:Hpc; try discriminate.
    destruct (first_nonempty (lists c) ks) as [[[k x] rest]|] eqn:Ef; injection H as <-.
    + apply finish_order; exact Ef.
    + simpl. split; [reflexivity|]. split; [rewrite app_nil_r; reflexivity|].
      intro k. rewrite app_nil_r. reflexivity.
  - destruct (pc_of c i) eqn:Hpc; try discriminate.
    destruct (existsb (N.eqb i) (tokens c)); [|discriminate]. injection H as <-.
    simpl. split; [reflexivity|]. split; [rewrite app_nil_r; reflexivity|].
    intro k. rewrite app_nil_r. reflexivity.
  - destruct (pc_of c i) eqn:Hpc; try discriminate.
    destruct (first_nonempty (lists c) ks) as [[[k x] rest]|] eqn:Ef; injection H as <-.
    + apply finish_order; exact Ef.
    + simpl. split; [reflexivity|]. split; [rewrite app_nil_r; reflexivity|].
      intro k. rewrite app_nil_r. reflexivity.
  - destruct (pc_of c i) eqn:Hpc; try discriminate.
    destruct (leave c i ks (lists c)) as [qs toks]. injection H as <-.
    simpl. split; [reflexivity|]. split; [rewrite app_nil_r; reflexivity|].
    intro k. rewrite app_nil_r. reflexivity.
  - destruct (pc_of c i) eqn:Hpc; try discriminate. injection H as <-.
    simpl. split; [reflexivity|]. split; [rewrite app_nil_r; reflexivity|].
    intro k. rewrite app_nil_r. reflexivity.
Qed.
Print Assumptions C11_list_order_step.

(* the statement without ghosts: a step that extends [popped] by x took x from the head of some list *)
Corollary C11_pop_is_head c l c' x :
  wstep c l = Some c' -> popped c' = popped c ++ [x] ->
  exists k, list_of c k = x :: list_of c' k /\ forall k', k' <> k -> list_of c' k' = list_of c k'.
Proof.
  intros H Hp. pose proof (C11_list_order_step c l c' H) as HS.
  destruct (pop_ev c l) as [[k y]|].
  - destruct HS as [E [_ [H1 H2]]]. rewrite E in Hp. apply app_inv_head in Hp. injection Hp as ->.
    exists k. split; assumption.
  - destruct HS as [E _]. rewrite E in Hp. exfalso.
    apply (f_equal (@length elem)) in Hp. rewrite app_length in Hp. simpl in Hp. lia.
Qed.

Corollary C11_push_appends c k xs c' :
  wstep c (LPush k xs) = Some c' ->
  list_of c' k = list_of c k ++ xs /\ forall k', k' <> k -> list_of c' k' = list_of c k'.
Proof.
  intro H. pose proof (C11_list_order_step c _ c' H) as HS.
  assert (E : pop_ev c (LPush k xs) = None) by reflexivity. rewrite E in HS.
  destruct HS as [_ [_ HS]]. split.
  - rewrite (HS k). simpl. rewrite bytes_eqb_refl. reflexivity.
  - intros k' Hk'. rewrite (HS k'). simpl. apply bytes_eqb_neq in Hk'. rewrite Hk'. apply app_nil_r.
Qed.

(* per-key histories along a run *)
Fixpoint pops (c : cfg) (ls : list label) : list (key * elem) :=
  match ls with
  | [] => []
  | l :: r => match wstep c l with
              | Some c' => (match pop_ev c l with Some e => [e] | None => [] end) ++ pops c' r
              | None => []
              end
  end.
Definition pops_from (k : key) (c : cfg) (ls : list label) : list elem :=
  map snd (filter (fun e => bytes_eqb k (fst e)) (pops c ls)).
Definition pushes_to (k : key) (ls : list label) : list elem := concat (map (push_of k) ls).

Lemma pop_ev_no_push c l e : pop_ev c l = Some e -> forall k, push_of k l = [].
Proof. destruct l; simpl; intros H k0; try reflexivity. discriminate. Qed.

(* the ghost histories are the real ones: [popped] grows by exactly the ghost pops, [pushed] by the pushes *)
Theorem C11_histories ls : forall c c',
  wrun c ls = Some c' ->
  popped c' = popped c ++ map snd (pops c ls) /\ pushed c' = pushed c ++ concat (map pushall ls).
Proof.
  induction ls as [|l ls IH]; intros c c' H; simpl in H.
  - injection H as <-. simpl. rewrite !app_nil_r. split; reflexivity.
  - simpl. destruct (wstep c l) as [c1|] eqn:E; [|discriminate].
    destruct (IH c1 c' H) as [IH1 IH2]. pose proof (C11_list_order_step c l c1 E) as HS.
    destruct (pop_ev c l) as [[k x]|] eqn:Ep.
    + destruct HS as [E1 [E2 _]]. rewrite IH1, IH2, E1, E2.
      assert (Hpa : pushall l = []) by (destruct l; try reflexivity; discriminate).
      rewrite Hpa. simpl. rewrite <- app_assoc. split; reflexivity.
    + destruct HS as [E1 [E2 _]]. rewrite IH1, IH2, E1, E2. simpl. rewrite <- app_assoc. split; reflexivity.
Qed.

(* FIFO per list: what was in k, followed by everything pushed to k, equals everything popped
   from k (in pop order) followed by what is left *)
Theorem C11_list_order_gen ls : forall c c' k,
  wrun c ls = Some c' -> list_of c k ++ pushes_to k ls = pops_from k c ls ++ list_of c' k.
Proof.
  unfold pops_from, pushes_to.
  induction ls as [|l ls IH]; intros c c' k H; simpl in H.
  - injection H as <-. simpl. rewrite app_nil_r. reflexivity.
  - simpl. destruct (wstep c l) as [c1|] eqn:E; [|discriminate].
    pose proof (IH c1 c' k H) as IHk. pose proof (C11_list_order_step c l c1 E) as HS.
    destruct (pop_ev c l) as [[k0 x]|] eqn:Ep.
    + destruct HS as [_ [_ [H1 H2]]]. rewrite (pop_ev_no_push c l _ Ep k). simpl.
      destruct (bytes_eqb k k0) eqn:Ek.
      * apply bytes_eqb_eq in Ek. subst k0. simpl. rewrite H1, <- IHk. reflexivity.
      * apply bytes_eqb_neq in Ek. rewrite <- IHk, (H2 k Ek). reflexivity.
    + destruct HS as [_ [_ H1]]. simpl. rewrite <- IHk, (H1 k), <- app_assoc. reflexivity.
Qed.

Theorem C11_list_order ls c k :
  wrun cfg0 ls = Some c -> pushes_to k ls = pops_from k cfg0 ls ++ list_of c k.
Proof. intro H. apply (C11_list_order_gen ls cfg0 c k H). Qed.
Print Assumptions C11_list_order.
Print Assumptions C11_list_order_gen.
Print Assumptions C11_histories.
Print Assumptions C11_pop_is_head.
Print Assumptions C11_push_appends.

(* ------------------------------------------------------------------ *)
(** * 6. Exactly once; re-use; an in-flight wake-up can always be acted on *)

(* a client that has its reply only moves by LReset (so: at most one element per blocking command) *)
Theorem C11_exactly_once_finished c l c' i r :
  pc_of c i = Finished r -> wstep c l = Some c' ->
  pc_of c' i = Finished r \/ (l = LReset i /\ pc_of c' i = Idle).
Proof.
  intros Hpc H. pose proof (wstep_pcs c l c' H) as HP.
  assert (Hoth : forall j p, pcs c' = nset (pcs c) j p -> j <> i -> pc_of c' i = Finished r).
  { intros j p E Hj. rewrite (pc_of_pcs_other c c' j i p E); [exact Hpc|congruence]. }
  destruct l as [k xs|k|j ks|j|j|j|j|j].
  - left. rewrite (pc_of_pcs_eq c c' i HP). exact Hpc.
  - left. rewrite (pc_of_pcs_eq c c' i HP). exact Hpc.
  - destruct HP as [Hj [_ HP]]. left.
    assert (Hji : j <> i) by (intro E; subst; congruence).
    destruct HP as [E|[k [x E]]]; apply (Hoth j _ E Hji).
  - destruct HP as [ks [Hj HP]]. left.
    assert (Hji : j <> i) by (intro E; subst; congruence).
    destruct HP as [E|[k [x E]]]; apply (Hoth j _ E Hji).
  - destruct HP as [ks [Hj [_ E]]]. left.
    assert (Hji : j <> i) by (intro E'; subst; congruence). apply (Hoth j _ E Hji).
  - destruct HP as [ks [Hj HP]]. left.
    assert (Hji : j <> i) by (intro E; subst; congruence).
    destruct HP as [E|[k [x E]]]; apply (Hoth j _ E Hji).
  - destruct HP as [ks [Hj E]]. left.
    assert (Hji : j <> i) by (intro E'; subst; congruence). apply (Hoth j _ E Hji).
  - destruct HP as [r' [Hj E]]. destruct (N.eq_dec j i) as [Eji|Eji].
    + subst j. right. split; [reflexivity|]. apply (pc_of_pcs_same c c' i Idle E).
    + left. apply (Hoth j _ E Eji).
Qed.
Print Assumptions C11_exactly_once_finished.

(* a reply with an element is produced only by the client's own attempt (LStart / LSecond / LRetry),
   carries the head of a list, and that element is appended to [popped] in the same step *)
Theorem C11_exactly_once_delivery c l c' i k x :
  wstep c l = Some c' -> pc_of c' i = Finished (Some (k, x)) -> (forall r, pc_of c i <> Finished r) ->
  ((exists ks, l = LStart i ks) \/ l = LSecond i \/ l = LRetry i) /\
  popped c' = popped c ++ [x] /\ list_of c k = x :: list_of c' k /\
  (forall k', k' <> k -> list_of c' k' = list_of c k').
Proof.
  intros H Hfin Hnot.
  assert (Hkeep : forall j p, pcs c' = nset (pcs c) j p -> j <> i -> False).
  { intros j p E Hj. rewrite (pc_of_pcs_other c c' j i p E) in Hfin by congruence. apply (Hnot _ Hfin). }
  assert (Hfinish : forall j ks k0 x0 rest b,
            first_nonempty (lists c) ks = Some (k0, x0, rest) -> c' = finish c j ks k0 x0 rest b ->
            j = i /\ popped c' = popped c ++ [x] /\ list_of c k = x :: list_of c' k /\
            (forall k', k' <> k -> list_of c' k' = list_of c k')).
  { intros j ks k0 x0 rest b Hf Ec. destruct (finish_fields c j ks k0 x0 rest b) as [_ [_ [_ E]]].
    rewrite <- Ec in E. destruct (N.eq_dec j i) as [Eji|Eji]; [|exfalso; apply (Hkeep j _ E Eji)].
    subst j. rewrite (pc_of_pcs_same c c' i _ E) in Hfin. injection Hfin as -> ->.
    split; [reflexivity|]. rewrite Ec. destruct (finish_order c i ks k x rest b Hf) as [E1 [_ [E3 E4]]].
    split; [exact E1|]. split; [exact E3|exact E4]. }
  assert (Hsame : pcs c' = pcs c -> False).
  { intro E. rewrite (pc_of_pcs_eq c c' i E) in Hfin. apply (Hnot _ Hfin). }
  assert (Hset : forall j p, pcs c' = nset (pcs c) j p -> (forall r, p <> Finished r) -> False).
  { intros j p E Hp. destruct (N.eq_dec j i) as [Eji|Eji]; [|apply (Hkeep j p E Eji)].
    subst j. rewrite (pc_of_pcs_same c c' i p E) in Hfin. apply (Hp _ Hfin). }
  destruct l as [k0 xs|k0|j ks|j|j|j|j|j]; unfold wstep in H.
  - exfalso. apply Hsame. apply (wstep_pcs c (LPush k0 xs) c'). exact H.
  - exfalso. apply Hsame. apply (wstep_pcs c (LSteal k0) c'). exact H.
  - destruct (pc_of c j) eqn:Hpc; try discriminate.
    destruct ks as [|k1 ks0]; [discriminate|].
    destruct (first_nonempty (lists c) (k1 :: ks0)) as [[[k0 x0] rest]|] eqn:Ef; injection H as H.
    + destruct (Hfinish j _ _ _ _ _ Ef (eq_sym H)) as [-> HR]. split; [left; eexists; reflexivity|exact HR].
    + exfalso. apply (Hset j (Registered (k1 :: ks0))); [rewrite <- H; reflexivity|discriminate].
  - destruct (pc_of c j) eqn:Hpc; try discriminate.
    destruct (first_nonempty (lists c) ks) as [[[k0 x0] rest]|] eqn:Ef; injection H as H.
    + destruct (Hfinish j _ _ _ _ _ Ef (eq_sym H)) as [-> HR]. split; [right; left; reflexivity|exact HR].
    + exfalso. apply (Hset j (Waiting ks)); [rewrite <- H; reflexivity|discriminate].
  - exfalso. destruct (wstep_pcs c (LWake j) c' H) as [ks [_ [_ E]]]. apply (Hset j _ E). discriminate.
  - destruct (pc_of c j) eqn:Hpc; try discriminate.
    destruct (first_nonempty (lists c) ks) as [[[k0 x0] rest]|] eqn:Ef; injection H as H.
    + destruct (Hfinish j _ _ _ _ _ Ef (eq_sym H)) as [-> HR]. split; [right; right; reflexivity|exact HR].
    + exfalso. apply (Hset j (Registered ks)); [rewrite <- H; reflexivity|discriminate].
  - exfalso. destruct (wstep_pcs c (LGiveUp j) c' H) as [ks [Hj E]].
    destruct (N.eq_dec j i) as [Eji|Eji]; [|apply (Hkeep j _ E Eji)].
    subst j. rewrite (pc_of_pcs_same c c' i _ E) in Hfin. discriminate.
  - exfalso. destruct (wstep_pcs c (LReset j) c' H) as [r [_ E]]. apply (Hset j _ E). discriminate.
Qed.
Print Assumptions C11_exactly_once_delivery.

(* re-use: after the reply the connection can issue its next (blocking) command *)
Theorem C11_exactly_once_reuse c i r :
  pc_of c i = Finished r ->
  exists c', wstep c (LReset i) = Some c' /\ pc_of c' i = Idle /\
             forall ks, ks <> [] -> exists c'', wstep c' (LStart i ks) = Some c''.
Proof.
  intro Hpc. unfold wstep at 1. rewrite Hpc. eexists. split; [reflexivity|].
  split; [apply pc_of_mk_same|]. intros ks Hks. unfold wstep. rewrite pc_of_mk_same.
  destruct ks as [|k0 ks0]; [congruence|].
  match goal with |- context [first_nonempty ?a ?b] => destruct (first_nonempty a b) as [[[k x] rest]|] end;
    eexists; reflexivity.
Qed.
Print Assumptions C11_exactly_once_reuse.

(* an in-flight wake-up can always be acted on: the protocol itself never deadlocks *)
Theorem C11_inflight_enabled c i k :
  inflight c i k ->
  exists l c', (l = LSecond i \/ l = LWake i \/ l = LRetry i) /\ wstep c l = Some c'.
Proof.
  unfold inflight. intro H. destruct (pc_of c i) as [|ks|ks|ks|r] eqn:Hpc; try contradiction.
  - exists (LSecond i). unfold wstep. rewrite Hpc.
    destruct (first_nonempty (lists c) ks) as [[[k0 x] rest]|]; eexists; (split; [left; reflexivity|reflexivity]).
  - destruct H as [_ Ht]. exists (LWake i). unfold wstep. rewrite Hpc.
    apply existsb_eqb_in in Ht. rewrite Ht. eexists. split; [right; left; reflexivity|reflexivity].
  - exists (LRetry i). unfold wstep. rewrite Hpc.
    destruct (first_nonempty (lists c) ks) as [[[k0 x] rest]|]; eexists; (split; [right; right; reflexivity|reflexivity]).
Qed.
Print Assumptions C11_inflight_enabled.

(* together: a non-empty list with queued clients always has an enabled client step that looks at it *)
Corollary C11_progress c k :
  reachable c -> list_of c k <> [] -> queue_of c k <> [] ->
  exists i l c', inflight c i k /\ (l = LSecond i \/ l = LWake i \/ l = LRetry i) /\ wstep c l = Some c'.
Proof.
  intros Hr Hl Hq. destruct (C11_no_lost_wakeup c Hr k Hl Hq) as [i Hi].
  destruct (C11_inflight_enabled c i k Hi) as [l [c' [H1 H2]]]. exists i, l, c'. auto.
Qed.
Print Assumptions C11_progress.

(* ------------------------------------------------------------------ *)
(** * 7. Examples (vm_compute) *)

Module Examples.
  Local Open Scope N_scope.
  Definition k : key := [107]. Definition k1 : key := [107; 49]. Definition k2 : key := [107; 50].
  Definition x : elem := [120]. Definition y : elem := [121]. Definition z : elem := [122].
  Definition view (c : cfg) := (lists c, queues c, tokens c, pcs c, pushed c, popped c).

  (* W1: c1 blocked on k; push x (wakes c1); x is stolen; c1 retries, fails, RE-REGISTERS;
     push y wakes it again and it gets y (the historical bug: not re-registered, y woke nobody) *)
  Definition W1 := [LStart 1 [k]; LSecond 1; LPush k [x]; LSteal k; LWake 1; LRetry 1; LSecond 1;
                    LPush k [y]; LWake 1; LRetry 1].
  Example W1_after_failed_retry :
    option_map view (wrun cfg0 (firstn 7 W1)) = Some ([], [(k, [1])], [], [(1, Waiting [k])], [x], [x]).
  Proof. vm_compute. reflexivity. Qed.
  Example W1_ends_well :
    option_map view (wrun cfg0 W1) = Some ([], [], [], [(1, Finished (Some (k, y)))], [x; y], [x; y]).
  Proof. vm_compute. reflexivity. Qed.

  (* W2: c1, c2 blocked on k; push x wakes c1; c1 times out at the same moment: its unread token is
     passed on, c2 gets the token and the element *)
  Definition W2 := [LStart 1 [k]; LSecond 1; LStart 2 [k]; LSecond 2; LPush k [x]; LGiveUp 1; LWake 2; LRetry 2].
  Example W2_token_passed_on :
    option_map view (wrun cfg0 (firstn 6 W2))
    = Some ([(k, [x])], [], [2], [(1, Finished None); (2, Waiting [k])], [x], []).
  Proof. vm_compute. reflexivity. Qed.
  Example W2_ends_well :
    option_map view (wrun cfg0 W2)
    = Some ([], [], [], [(1, Finished None); (2, Finished (Some (k, x)))], [x], [x]).
  Proof. vm_compute. reflexivity. Qed.

  (* W3: c1 blocked on [k1;k2], c2 on [k2]; push k2 y wakes c1 (head of k2's queue); push k1 x;
     c1 retries and takes x from k1 — on leaving it signals k2's waiters: c2 gets a token, then y *)
  Definition W3 := [LStart 1 [k1; k2]; LSecond 1; LStart 2 [k2]; LSecond 2; LPush k2 [y]; LPush k1 [x];
                    LWake 1; LRetry 1; LWake 2; LRetry 2].
  Example W3_before_retry :
    option_map view (wrun cfg0 (firstn 6 W3))
    = Some ([(k2, [y]); (k1, [x])], [(k2, [2])], [1], [(1, Waiting [k1; k2]); (2, Waiting [k2])], [y; x], []).
  Proof. vm_compute. reflexivity. Qed.
  Example W3_leaver_signals :
    option_map view (wrun cfg0 (firstn 8 W3))
    = Some ([(k2, [y])], [], [2], [(1, Finished (Some (k1, x))); (2, Waiting [k2])], [y; x], [x]).
  Proof. vm_compute. reflexivity. Qed.
  Example W3_ends_well :
    option_map view (wrun cfg0 W3)
    = Some ([], [], [], [(1, Finished (Some (k1, x))); (2, Finished (Some (k2, y)))], [y; x], [x; y]).
  Proof. vm_compute. reflexivity. Qed.

  (* C11_conservation on W3: pushed [y;x] is a (non-identity) permutation of popped [x;y] ++ nothing;
     the theorem applies because the configuration is reachable *)
  Example W3_reachable : exists c, wrun cfg0 W3 = Some c /\ reachable c /\
                                   Permutation (pushed c) (popped c ++ concat (map snd (lists c))).
  Proof.
    destruct (wrun cfg0 W3) as [c|] eqn:E; [|vm_compute in E; discriminate].
    exists c. assert (Hr : reachable c) by (exists W3; exact E).
    split; [reflexivity|]. split; [exact Hr|apply C11_conservation; exact Hr].
  Qed.

  (* C11_list_order on W3: per-key histories *)
  Example W3_histories :
    (pops cfg0 W3, pushes_to k2 W3, pops_from k2 cfg0 W3, pushes_to k1 W3, pops_from k1 cfg0 W3)
    = ([(k1, x); (k2, y)], [y], [y], [x], [x]).
  Proof. vm_compute. reflexivity. Qed.

  (* C11_no_lost_wakeup: hypotheses are met non-trivially — list non-empty, queue non-empty,
     and the in-flight client is c1 (Waiting with an unread token) *)
  Definition P1 := [LStart 1 [k]; LSecond 1; LStart 2 [k]; LSecond 2; LPush k [x]].
  Example P1_state :
    option_map (fun c => (list_of c k, queue_of c k, tokens c, pc_of c 1)) (wrun cfg0 P1)
    = Some ([x], [2], [1], Waiting [k]).
  Proof. vm_compute. reflexivity. Qed.

  (* C11_fifo: three waiters, two elements: the first two are woken in order, the third stays queued *)
  Definition F1 := [LStart 1 [k]; LSecond 1; LStart 2 [k; k1]; LSecond 2; LStart 3 [k]; LSecond 3].
  Example F1_fifo :
    option_map (fun c => (queue_of c k, queue_of c k1, tokens c)) (wrun cfg0 F1) = Some ([1; 2; 3], [2], [])
    /\ option_map (fun c => (queue_of c k, queue_of c k1, tokens c, list_of c k)) (wrun cfg0 (F1 ++ [LPush k [x; y]]))
       = Some ([3], [], [1; 2], [x; y]).
  Proof. split; vm_compute; reflexivity. Qed.

  (* C11_quiescent_no_blocked: W1 after the failed retry is quiescent with c1 blocked — its list is empty *)
  Example W1_quiescent_state :
    option_map (fun c => (pc_of c 1, tokens c, list_of c k)) (wrun cfg0 (firstn 7 W1)) = Some (Waiting [k], [], []).
  Proof. vm_compute. reflexivity. Qed.

  (* C11_exactly_once_reuse: after the reply, LReset then a new LStart work *)
  Example W1_reuse :
    option_map (fun c => pc_of c 1) (wrun cfg0 (W1 ++ [LReset 1; LStart 1 [k]])) = Some (Registered [k])
    /\ wrun cfg0 (W1 ++ [LRetry 1]) = None /\ wrun cfg0 (W1 ++ [LWake 1]) = None.
  Proof. repeat split; vm_compute; reflexivity. Qed.
End Examples.
