From RE Require Import Base Resp State Exec Exec2 Bits Dispatch Lemmas.
From Coq Require Import String.
From Coq Require Import List.
Open Scope string_scope.
Open Scope list_scope.
Open Scope Z_scope.

(* ================================================================== *)
(* Preamble (identical in PropC09/PropC14/PropC15 so that each file   *)
(* compiles on its own): finite maps keyed by N, state accessors, and *)
(* the shape of the state change of one non-transactional command.    *)
(* ================================================================== *)

Section NMap.
  Context {A : Type}.
  Implicit Types (m : list (N * A)) (k : N) (v : A).

  Lemma nget_nset_same m k v : nget (nset m k v) k = Some v.
  Proof.
    induction m as [|[k' v'] m IH]; simpl.
    - rewrite N.eqb_refl. reflexivity.
    - destruct (N.eqb k k') eqn:E; simpl.
      + rewrite N.eqb_refl. reflexivity.
      + rewrite E. exact IH.
  Qed.

  Lemma nget_nset_other m k k' v : k' <> k -> nget (nset m k v) k' = nget m k'.
  Proof.
    intro Hne. induction m as [|[k0 v0] m IH]; simpl.
    - apply N.eqb_neq in Hne. rewrite Hne. reflexivity.
    - destruct (N.eqb k k0) eqn:E; simpl.
      + apply N.eqb_eq in E. subst k0. apply N.eqb_neq in Hne. rewrite Hne. reflexivity.
      + destruct (N.eqb k' k0); [reflexivity | exact IH].
  Qed.

  Lemma nget_ndel_same m k : nget (ndel m k) k = None.
  Proof.
    induction m as [|[k' v'] m IH]; simpl; [reflexivity|].
    destruct (N.eqb k k') eqn:E; simpl; [exact IH|]. rewrite E. exact IH.
  Qed.

  Lemma nget_ndel_other m k k' : k' <> k -> nget (ndel m k) k' = nget m k'.
  Proof.
    intro Hne. induction m as [|[k0 v0] m IH]; simpl; [reflexivity|].
    destruct (N.eqb k k0) eqn:E; simpl.
    - apply N.eqb_eq in E. subst k0. apply N.eqb_neq in Hne. rewrite Hne. exact IH.
    - destruct (N.eqb k' k0); [reflexivity | exact IH].
  Qed.

  Lemma nget_map_val {B} (g : A -> B) m k :
    nget (map (fun id => (fst id, g (snd id))) m) k = option_map g (nget m k).
  Proof.
    induction m as [|[k' v'] m IH]; simpl; [reflexivity|].
    destruct (N.eqb k k'); [reflexivity | exact IH].
  Qed.
End NMap.

(* ---------- state accessors ---------- *)
Lemma get_conn_set_conn_same st c x : get_conn (set_conn st c x) c = x.
Proof. unfold get_conn, set_conn; simpl. rewrite nget_nset_same. reflexivity. Qed.

Lemma get_conn_set_conn_other st c c' x : c' <> c -> get_conn (set_conn st c x) c' = get_conn st c'.
Proof. intro H. unfold get_conn, set_conn; simpl. rewrite nget_nset_other by assumption. reflexivity. Qed.

Lemma get_conn_set_db st i d c : get_conn (set_db st i d) c = get_conn st c.
Proof. reflexivity. Qed.

Lemma get_db_set_db_same st i d : get_db (set_db st i d) i = d.
Proof. unfold get_db, set_db; simpl. rewrite nget_nset_same. reflexivity. Qed.

Lemma get_db_set_db_other st i j d : j <> i -> get_db (set_db st i d) j = get_db st j.
Proof. intro H. unfold get_db, set_db; simpl. rewrite nget_nset_other by assumption. reflexivity. Qed.

Lemma get_db_set_conn st c x i : get_db (set_conn st c x) i = get_db st i.
Proof. reflexivity. Qed.

Lemma s_dbs_set_conn st c x : s_dbs (set_conn st c x) = s_dbs st.
Proof. reflexivity. Qed.

Lemma s_conns_set_db st i d : s_conns (set_db st i d) = s_conns st.
Proof. reflexivity. Qed.

Lemma get_conn_fresh st c : nget (s_conns st) c = None -> get_conn st c = conn0.
Proof. intro H. unfold get_conn. rewrite H. reflexivity. Qed.

Lemma get_conn_close_same st c : get_conn (close_conn st c) c = conn0.
Proof. unfold get_conn, close_conn; simpl. rewrite nget_ndel_same. reflexivity. Qed.

Lemma get_conn_close_other st c c' : c' <> c -> get_conn (close_conn st c) c' = get_conn st c'.
Proof. intro H. unfold get_conn, close_conn; simpl. rewrite nget_ndel_other by assumption. reflexivity. Qed.

Definition flush_all (st : state) : state :=
  mkSt (map (fun id => (fst id, flush_db (snd id))) (s_dbs st)) (s_conns st).

Lemma get_conn_flush_all st c : get_conn (flush_all st) c = get_conn st c.
Proof. reflexivity. Qed.

Lemma d_map_get_db_flush_all st i : d_map (get_db (flush_all st) i) = [].
Proof.
  unfold get_db, flush_all; simpl. rewrite nget_map_val.
  destruct (nget (s_dbs st) i); reflexivity.
Qed.

(* ---------- how one connection record may change ---------- *)
(* name is the (lower-cased) command name that caused the change *)
Definition conn_upd_ok (name : bytes) (c c' : conn) : Prop :=
  c_queue c' = c_queue c /\
  c_qerr c' = c_qerr c /\
  (c_watch c' = c_watch c \/ (name = s2b "unwatch" /\ c_watch c' = [])) /\
  (c_sel c' = c_sel c \/ name = s2b "select") /\
  (c_resp c' = c_resp c \/ (name = s2b "hello" /\ (c_resp c' = 2 \/ c_resp c' = 3))) /\
  (c_name c' = c_name c \/ name = s2b "client").

Lemma conn_upd_ok_refl name c : conn_upd_ok name c c.
Proof. unfold conn_upd_ok. repeat split; left; reflexivity. Qed.

(* the state after one command run by [run_plain] for connection cid *)
Inductive run_shape (st : state) (cid : N) (name : bytes) : state -> Prop :=
| rs_same : run_shape st cid name st
| rs_conn c' : conn_upd_ok name (get_conn st cid) c' -> run_shape st cid name (set_conn st cid c')
| rs_db d : run_shape st cid name (set_db st (c_sel (get_conn st cid)) d)
| rs_flushall : name = s2b "flushall" -> run_shape st cid name (flush_all st).

Ltac break_in H :=
  repeat match type of H with
         | context [match ?x with _ => _ end] => destruct x eqn:?
         end.

Lemma session_cmd_shape now st cid name args st' r :
  session_cmd now st cid name args = Some (st', r) -> run_shape st cid name st'.
Proof.
  intro H. unfold session_cmd in H. cbv beta zeta in H.
  destruct (bytes_eqb name (s2b "ping")) eqn:E1.
  { injection H as H _. subst st'. constructor. }
  destruct (bytes_eqb name (s2b "echo")) eqn:E2.
  { injection H as H _. subst st'. constructor. }
  destruct (bytes_eqb name (s2b "quit")) eqn:E3.
  { injection H as H _. subst st'. constructor. }
  destruct (bytes_eqb name (s2b "select")) eqn:E4.
  { apply bytes_eqb_eq in E4. injection H as H.
    break_in H; injection H as H _; subst st'; try constructor.
    unfold conn_upd_ok; cbn. repeat split; auto. }
  destruct (bytes_eqb name (s2b "flushdb")) eqn:E5.
  { injection H as H. break_in H; injection H as H _; subst st'; constructor. }
  destruct (bytes_eqb name (s2b "flushall")) eqn:E6.
  { apply bytes_eqb_eq in E6. injection H as H.
    break_in H; injection H as H _; subst st';
      first [apply rs_same | apply (rs_flushall st cid name E6)]. }
  destruct (bytes_eqb name (s2b "hello")) eqn:E7.
  { apply bytes_eqb_eq in E7. injection H as H.
    break_in H; injection H as H _; subst st'; try constructor;
      unfold conn_upd_ok; cbn; repeat split; auto. }
  destruct (bytes_eqb name (s2b "unwatch")) eqn:E8.
  { apply bytes_eqb_eq in E8. injection H as H.
    break_in H; injection H as H _; subst st'; try constructor;
      unfold conn_upd_ok; cbn; repeat split; auto. }
  destruct (bytes_eqb name (s2b "client")) eqn:E9.
  { apply bytes_eqb_eq in E9. injection H as H.
    break_in H; injection H as H _; subst st'; try constructor;
      unfold conn_upd_ok; cbn; repeat split; auto. }
  destruct (bytes_eqb name (s2b "command") || bytes_eqb name (s2b "info")) eqn:E10.
  { injection H as H _. subst st'. constructor. }
  discriminate H.
Qed.

Lemma run_plain_shape now st cid name args b :
  run_shape st cid name (o_st (run_plain now st cid name args b)).
Proof.
  unfold run_plain.
  destruct (data_cmd name) as [f|].
  { destruct (f now (get_db st (c_sel (get_conn st cid))) args) as [d' r]. cbn [o_st]. constructor. }
  destruct (blocking_cmd name) as [f|].
  { destruct (f now (get_db st (c_sel (get_conn st cid))) args) as [d' r].
    destruct r; cbn [o_st]; constructor. }
  destruct (session_cmd now st cid name args) as [[st' r]|] eqn:E; cbn [o_st].
  - eapply session_cmd_shape; eassumption.
  - constructor.
Qed.

Lemma run_plain_in_exec_noblock now st cid name args :
  o_block (run_plain now st cid name args true) = false.
Proof.
  unfold run_plain.
  destruct (data_cmd name) as [f|].
  { destruct (f now (get_db st (c_sel (get_conn st cid))) args) as [d' r]. reflexivity. }
  destruct (blocking_cmd name) as [f|].
  { destruct (f now (get_db st (c_sel (get_conn st cid))) args) as [d' r].
    destruct r; reflexivity. }
  destruct (session_cmd now st cid name args) as [[st' r]|]; reflexivity.
Qed.

(* consequences of the shape *)
Lemma shape_other_conn st cid name st' c2 :
  run_shape st cid name st' -> c2 <> cid -> get_conn st' c2 = get_conn st c2.
Proof.
  intros H Hne. destruct H; try reflexivity.
  apply get_conn_set_conn_other; assumption.
Qed.

Lemma shape_conn st cid name st' :
  run_shape st cid name st' -> conn_upd_ok name (get_conn st cid) (get_conn st' cid).
Proof.
  intros H. destruct H; try apply conn_upd_ok_refl.
  rewrite get_conn_set_conn_same. assumption.
Qed.

Lemma shape_other_db st cid name st' i :
  run_shape st cid name st' -> name <> s2b "flushall" ->
  i <> c_sel (get_conn st cid) -> get_db st' i = get_db st i.
Proof.
  intros H Hn Hi. destruct H; try reflexivity.
  - apply get_db_set_db_other; assumption.
  - contradiction.
Qed.

(* exec_queue only threads run_plain *)
(* (the clock advances by one per executed queued command, hence the quantification over now) *)
Lemma exec_queue_other_conn cid q : forall now st c2,
  c2 <> cid -> get_conn (fst (exec_queue now st cid q)) c2 = get_conn st c2.
Proof.
  induction q as [|cmd q IH]; intros now st c2 Hne; [reflexivity|].
  destruct cmd as [|name args]; cbn [exec_queue]; [apply IH; assumption|].
  specialize (IH (now + 1) (o_st (run_plain now st cid (lower name) args true)) c2 Hne).
  destruct (exec_queue (now + 1) (o_st (run_plain now st cid (lower name) args true)) cid q) as [st' rs].
  cbn [fst] in *. rewrite IH.
  eapply shape_other_conn; [apply run_plain_shape | assumption].
Qed.

(* [flag_tx]: the arity error of a control command inside an open transaction *)
Lemma flag_tx_none st cid c : c_queue c = None -> flag_tx st cid c = st.
Proof. intro H. unfold flag_tx. rewrite H. reflexivity. Qed.

Lemma flag_tx_some st cid c q :
  c_queue c = Some q ->
  flag_tx st cid c = set_conn st cid (mkConn (c_sel c) (c_resp c) (c_name c) (Some q) true (c_watch c)).
Proof. intro H. unfold flag_tx. rewrite H. reflexivity. Qed.

Lemma flag_tx_other_conn st cid c c2 : c2 <> cid -> get_conn (flag_tx st cid c) c2 = get_conn st c2.
Proof.
  intro Hne. unfold flag_tx. destruct (c_queue c); [|reflexivity].
  apply get_conn_set_conn_other; assumption.
Qed.

Lemma flag_tx_dbs st cid c : s_dbs (flag_tx st cid c) = s_dbs st.
Proof. unfold flag_tx. destruct (c_queue c); reflexivity. Qed.

Lemma get_db_flag_tx st cid c i : get_db (flag_tx st cid c) i = get_db st i.
Proof. unfold flag_tx. destruct (c_queue c); reflexivity. Qed.

(* ---------- unfolding equations of [step] ---------- *)
Definition is_name (name0 : bytes) (s : string) : Prop := lower name0 = s2b s.

Lemma tx_control_split name :
  is_tx_control name = false ->
  bytes_eqb name (s2b "multi") = false /\ bytes_eqb name (s2b "exec") = false /\
  bytes_eqb name (s2b "discard") = false /\ bytes_eqb name (s2b "watch") = false.
Proof.
  unfold is_tx_control. cbv beta zeta. intro H.
  apply orb_false_iff in H as [H H4]. apply orb_false_iff in H as [H H3].
  apply orb_false_iff in H as [H1 H2]. auto.
Qed.

(* a known command that is not multi/exec/discard/watch: queued inside MULTI, run otherwise *)
Lemma step_plain_eq now st cid name0 args :
  known_cmd (lower name0) = true -> is_tx_control (lower name0) = false ->
  step now st cid (name0 :: args) =
  let name := lower name0 in
  let c := get_conn st cid in
  match c_queue c with
  | Some q =>
    let o := run_plain now st cid name args true in
    if is_argerr (o_reply o) then
      mkOut (set_conn st cid (mkConn (c_sel c) (c_resp c) (c_name c) (Some q) true (c_watch c))) argerr false
    else
      mkOut (set_conn st cid (mkConn (c_sel c) (c_resp c) (c_name c) (Some (q ++ [name0 :: args])) (c_qerr c) (c_watch c)))
            (RSimple (s2b "QUEUED")) false
  | None => run_plain now st cid name args false
  end.
Proof.
  intros Hk Ht. apply tx_control_split in Ht as (H1 & H2 & H3 & H4).
  unfold step. cbv beta iota zeta. rewrite Hk, H1, H2, H3, H4. reflexivity.
Qed.

Lemma step_unknown_eq now st cid name0 args :
  known_cmd (lower name0) = false ->
  step now st cid (name0 :: args) =
  let c := get_conn st cid in
  match c_queue c with
  | Some q => mkOut (set_conn st cid (mkConn (c_sel c) (c_resp c) (c_name c) (Some q) true (c_watch c))) unknown_cmd false
  | None => mkOut st unknown_cmd false
  end.
Proof. intros Hk. unfold step. cbv beta iota zeta. rewrite Hk. reflexivity. Qed.

Lemma step_multi_eq now st cid name0 args :
  lower name0 = s2b "multi" ->
  step now st cid (name0 :: args) =
  let c := get_conn st cid in
  match args, c_queue c with
  | [], None => mkOut (set_conn st cid (mkConn (c_sel c) (c_resp c) (c_name c) (Some []) false (c_watch c))) ok false
  | [], Some _ => mkOut st (err "ERR MULTI calls can not be nested") false
  | _, _ => mkOut (flag_tx st cid c) argerr false
  end.
Proof. intros H. unfold step. cbv beta iota zeta. rewrite H. reflexivity. Qed.

Lemma step_discard_eq now st cid name0 args :
  lower name0 = s2b "discard" ->
  step now st cid (name0 :: args) =
  let c := get_conn st cid in
  match args, c_queue c with
  | [], Some _ => mkOut (set_conn st cid (reset_tx c)) ok false
  | [], None => mkOut st (err "ERR DISCARD without MULTI") false
  | _, _ => mkOut (flag_tx st cid c) argerr false
  end.
Proof. intros H. unfold step. cbv beta iota zeta. rewrite H. reflexivity. Qed.

Lemma step_watch_multi_eq now st cid name0 a args q :
  lower name0 = s2b "watch" -> c_queue (get_conn st cid) = Some q ->
  step now st cid (name0 :: a :: args) = mkOut st (err "ERR WATCH inside MULTI is not allowed") false.
Proof. intros H Hq. unfold step. cbv beta iota zeta. rewrite H, Hq. reflexivity. Qed.

Lemma step_exec_eq now st cid name0 args :
  lower name0 = s2b "exec" ->
  step now st cid (name0 :: args) =
  let c := get_conn st cid in
  match args, c_queue c with
  | _ :: _, _ => mkOut (flag_tx st cid c) argerr false
  | [], None => mkOut st (err "ERR EXEC without MULTI") false
  | [], Some q =>
    if c_qerr c then
      mkOut (set_conn st cid (reset_tx c)) (err "EXECABORT Transaction discarded because of previous errors.") false
    else if watch_dirty now st (c_watch c) then
      mkOut (set_conn st cid (reset_tx c)) RNil false
    else
      let st1 := set_conn st cid (reset_tx c) in
      let '(st2, rs) := exec_queue now st1 cid q in
      mkOut st2 (RArr rs) false
  end.
Proof. intros H. unfold step. cbv beta iota zeta. rewrite H. reflexivity. Qed.


Definition is_err (r : resp) : bool := match r with RErr _ => true | _ => false end.

Lemma step_watch_eq now st cid name0 args :
  lower name0 = s2b "watch" ->
  step now st cid (name0 :: args) =
  let c := get_conn st cid in
  match c_queue c with
  | Some _ =>
    match args with
    | [] => mkOut (flag_tx st cid c) argerr false
    | _ => mkOut st (err "ERR WATCH inside MULTI is not allowed") false
    end
  | None =>
    match args with
    | [] => mkOut st argerr false
    | _ =>
      let d := get_db st (c_sel c) in
      let ws := map (fun k => (c_sel c, k, ver_of now d k)) args in
      mkOut (set_conn st cid (mkConn (c_sel c) (c_resp c) (c_name c) None (c_qerr c)
                              (ws ++ filter (fun w => let '(i, k, _) := w in
                                               negb (N.eqb i (c_sel c) && mem_bytes k args)) (c_watch c)))) ok false
    end
  end.
Proof. intros H. unfold step. cbv beta iota zeta. rewrite H. reflexivity. Qed.

Lemma tx_control_cases name :
  is_tx_control name = true ->
  name = s2b "multi" \/ name = s2b "exec" \/ name = s2b "discard" \/ name = s2b "watch".
Proof.
  unfold is_tx_control. cbv beta zeta. intro H.
  apply orb_true_iff in H as [H|H4]; [|apply bytes_eqb_eq in H4; auto].
  apply orb_true_iff in H as [H|H3]; [|apply bytes_eqb_eq in H3; auto].
  apply orb_true_iff in H as [H1|H2]; [apply bytes_eqb_eq in H1 | apply bytes_eqb_eq in H2]; auto.
Qed.

Lemma tx_control_known name : is_tx_control name = true -> known_cmd name = true.
Proof.
  intro H. apply tx_control_cases in H as [H|[H|[H|H]]]; subst name; vm_compute; reflexivity.
Qed.

Lemma run_plain_session_eq now st cid name args b :
  data_cmd name = None -> blocking_cmd name = None ->
  run_plain now st cid name args b =
  match session_cmd now st cid name args with
  | Some (st', r) => mkOut st' r false
  | None => mkOut st unknown_cmd false
  end.
Proof. intros H1 H2. unfold run_plain. rewrite H1, H2. reflexivity. Qed.

(* a step of connection cid leaves every other session as it was *)
Lemma step_other_conn now st cid cmd c2 :
  c2 <> cid -> get_conn (o_st (step now st cid cmd)) c2 = get_conn st c2.
Proof.
  intro Hne. destruct cmd as [|name0 args]; [reflexivity|].
  destruct (known_cmd (lower name0)) eqn:Hk.
  2:{ rewrite (step_unknown_eq now st cid name0 args Hk). cbv zeta.
      destruct (c_queue (get_conn st cid)); cbn [o_st]; [|reflexivity].
      apply get_conn_set_conn_other; assumption. }
  destruct (is_tx_control (lower name0)) eqn:Ht.
  - apply tx_control_cases in Ht as [Hn|[Hn|[Hn|Hn]]].
    + rewrite (step_multi_eq now st cid name0 args Hn). cbv zeta.
      destruct args; destruct (c_queue (get_conn st cid)); cbn [o_st];
        first [apply flag_tx_other_conn; assumption | reflexivity | idtac].
      apply get_conn_set_conn_other; assumption.
    + rewrite (step_exec_eq now st cid name0 args Hn). cbv zeta.
      destruct args; [|cbn [o_st]; apply flag_tx_other_conn; assumption].
      destruct (c_queue (get_conn st cid)) as [q|]; [|reflexivity].
      destruct (c_qerr (get_conn st cid)).
      { cbn [o_st]. apply get_conn_set_conn_other; assumption. }
      destruct (watch_dirty now st (c_watch (get_conn st cid))).
      { cbn [o_st]. apply get_conn_set_conn_other; assumption. }
      pose proof (exec_queue_other_conn cid q now (set_conn st cid (reset_tx (get_conn st cid))) c2 Hne) as H.
      destruct (exec_queue now (set_conn st cid (reset_tx (get_conn st cid))) cid q) as [st2 rs].
      cbn [o_st fst] in *. rewrite H. apply get_conn_set_conn_other; assumption.
    + rewrite (step_discard_eq now st cid name0 args Hn). cbv zeta.
      destruct args; destruct (c_queue (get_conn st cid)); cbn [o_st];
        first [apply flag_tx_other_conn; assumption | reflexivity | idtac].
      apply get_conn_set_conn_other; assumption.
    + rewrite (step_watch_eq now st cid name0 args Hn). cbv zeta.
      destruct (c_queue (get_conn st cid)).
      { destruct args; cbn [o_st]; [apply flag_tx_other_conn; assumption | reflexivity]. }
      destruct args; cbn [o_st]; [reflexivity|].
      apply get_conn_set_conn_other; assumption.
  - rewrite (step_plain_eq now st cid name0 args Hk Ht). cbv zeta.
    destruct (c_queue (get_conn st cid)) as [q|].
    + destruct (is_argerr _); cbn [o_st]; apply get_conn_set_conn_other; assumption.
    + eapply shape_other_conn; [apply run_plain_shape | assumption].
Qed.

(* ================================================================== *)
(* C15 — RESP2 / RESP3                                                 *)
(* ================================================================== *)

(* ---------- induction principle for the nested type resp ---------- *)
Section RespInd.
  Variable P : resp -> Prop.
  Definition P2 (kv : resp * resp) : Prop := P (fst kv) /\ P (snd kv).
  Hypothesis HSimple : forall s, P (RSimple s).
  Hypothesis HErr : forall s, P (RErr s).
  Hypothesis HInt : forall z, P (RInt z).
  Hypothesis HBulk : forall b, P (RBulk b).
  Hypothesis HNil : P RNil.
  Hypothesis HNull : P RNull.
  Hypothesis HArr : forall l, Forall P l -> P (RArr l).
  Hypothesis HArrU : forall l, Forall P l -> P (RArrU l).
  Hypothesis HMap : forall l, Forall P2 l -> P (RMap l).
  Hypothesis HSet : forall l, Forall P l -> P (RSet l).
  Hypothesis HPairs : forall l, Forall P2 l -> P (RPairs l).
  Hypothesis HFlatU : forall l, Forall P2 l -> P (RFlatU l).
  Hypothesis HDouble : forall t, P (RDouble t).
  Hypothesis HBool : forall b, P (RBool b).
  Hypothesis HBig : forall t, P (RBig t).
  Hypothesis HVerb : forall f t, P (RVerb f t).
  Hypothesis HApprox : forall z u, P (RApprox z u).
  Hypothesis HPick : forall l n s w, Forall P l -> P (RPick l n s w).
  Hypothesis HScan : forall l p, Forall P l -> P (RScan l p).
  Hypothesis HAny : P RAny.

  Fixpoint resp_ind' (v : resp) : P v :=
    let fix go (l : list resp) : Forall P l :=
      match l with
      | [] => Forall_nil P
      | x :: r => Forall_cons x (resp_ind' x) (go r)
      end in
    let fix gop (l : list (resp * resp)) : Forall P2 l :=
      match l with
      | [] => Forall_nil P2
      | kv :: r => Forall_cons kv (conj (resp_ind' (fst kv)) (resp_ind' (snd kv))) (gop r)
      end in
    match v with
    | RSimple s => HSimple s
    | RErr s => HErr s
    | RInt z => HInt z
    | RBulk b => HBulk b
    | RNil => HNil
    | RNull => HNull
    | RArr l => HArr l (go l)
    | RArrU l => HArrU l (go l)
    | RMap l => HMap l (gop l)
    | RSet l => HSet l (go l)
    | RPairs l => HPairs l (gop l)
    | RFlatU l => HFlatU l (gop l)
    | RDouble t => HDouble t
    | RBool b => HBool b
    | RBig t => HBig t
    | RVerb f t => HVerb f t
    | RApprox z u => HApprox z u
    | RPick l n s w => HPick l n s w (go l)
    | RScan l p => HScan l p (go l)
    | RAny => HAny
    end.
End RespInd.

(* ---------- list helpers ---------- *)
Definition pmap (f : resp -> resp) (kv : resp * resp) : resp * resp := (f (fst kv), f (snd kv)).
Definition both (p : resp -> bool) (kv : resp * resp) : bool := p (fst kv) && p (snd kv).

Lemma forallb_map_imp {A B} (f : A -> B) (p : A -> bool) (q : B -> bool) l :
  Forall (fun x => p x = true -> q (f x) = true) l ->
  forallb p l = true -> forallb q (map f l) = true.
Proof.
  induction 1 as [|x l Hx Hl IH]; cbn; intro H; [reflexivity|].
  apply andb_true_iff in H as [H1 H2]. rewrite (Hx H1), (IH H2). reflexivity.
Qed.

Lemma forallb_pmap_imp (f : resp -> resp) (p q : resp -> bool) l :
  Forall (P2 (fun x => p x = true -> q (f x) = true)) l ->
  forallb (both p) l = true -> forallb (both q) (map (pmap f) l) = true.
Proof.
  induction 1 as [|kv l [Ha Hb] Hl IH]; cbn; intro H; [reflexivity|].
  apply andb_true_iff in H as [H1 H2]. apply andb_true_iff in H1 as [H1a H1b].
  apply andb_true_iff; split; [apply andb_true_iff; split; [apply Ha | apply Hb]; assumption|].
  apply IH. assumption.
Qed.

Lemma forallb_flat_imp (f : resp -> resp) (p q : resp -> bool) l :
  Forall (P2 (fun x => p x = true -> q (f x) = true)) l ->
  forallb (both p) l = true ->
  forallb q (flat_map (fun kv => [f (fst kv); f (snd kv)]) l) = true.
Proof.
  induction 1 as [|kv l [Ha Hb] Hl IH]; cbn; intro H; [reflexivity|].
  apply andb_true_iff in H as [H1 H2]. apply andb_true_iff in H1 as [H1a H1b].
  rewrite (Ha H1a), (Hb H1b). cbn [andb]. apply IH. assumption.
Qed.

(* ---------- 1. only RESP2 types under RESP2 ---------- *)
(* RESP2 values as the model represents them: simple string, error, integer (RApprox is an
   integer on the wire), bulk string, nil, arrays (RArrU / RFlatU are arrays on the wire).
   The comparison markers RPick / RScan / RAny are opaque leaves (they stand for a reply
   the model does not compute; to2 leaves them untouched). *)
Fixpoint is_resp2 (v : resp) : bool :=
  match v with
  | RSimple _ | RErr _ | RInt _ | RBulk _ | RNil | RApprox _ _ => true
  | RArr l | RArrU l => forallb is_resp2 l
  | RFlatU l => forallb (fun kv => is_resp2 (fst kv) && is_resp2 (snd kv)) l
  | RPick _ _ _ _ | RScan _ _ | RAny => true
  | RNull | RMap _ | RSet _ | RPairs _ | RDouble _ | RBool _ | RBig _ | RVerb _ _ => false
  end.

(* strict version: no marker anywhere *)
Fixpoint is_wire2 (v : resp) : bool :=
  match v with
  | RSimple _ | RErr _ | RInt _ | RBulk _ | RNil | RApprox _ _ => true
  | RArr l | RArrU l => forallb is_wire2 l
  | RFlatU l => forallb (fun kv => is_wire2 (fst kv) && is_wire2 (snd kv)) l
  | _ => false
  end.

(* v contains none of the model-only markers RPick / RScan / RAny *)
Fixpoint marker_free (v : resp) : bool :=
  match v with
  | RPick _ _ _ _ | RScan _ _ | RAny => false
  | RArr l | RArrU l | RSet l => forallb marker_free l
  | RMap l | RPairs l | RFlatU l => forallb (fun kv => marker_free (fst kv) && marker_free (snd kv)) l
  | _ => true
  end.

Lemma forallb_const_true {A} (l : list A) : forallb (fun _ => true) l = true.
Proof. induction l; cbn; auto. Qed.

Lemma Forall_add_trivial_hyp (Q : resp -> Prop) (p : resp -> bool) l :
  Forall Q l -> Forall (fun x => p x = true -> Q x) l.
Proof. apply Forall_impl. auto. Qed.

Theorem C15_only_resp2 : forall v, is_resp2 (to2 v) = true.
Proof.
  induction v using resp_ind'; try reflexivity; cbn [to2 is_resp2].
  - apply (forallb_map_imp to2 (fun _ => true)); [|apply forallb_const_true].
    eapply Forall_impl; [|eassumption]. auto.
  - apply (forallb_map_imp to2 (fun _ => true)); [|apply forallb_const_true].
    eapply Forall_impl; [|eassumption]. auto.
  - apply (forallb_pmap_imp to2 (fun _ => true) is_resp2 l); [|apply forallb_const_true].
    eapply Forall_impl; [|eassumption]. intros kv [Ha Hb]; split; auto.
  - apply (forallb_map_imp to2 (fun _ => true)); [|apply forallb_const_true].
    eapply Forall_impl; [|eassumption]. auto.
  - apply (forallb_flat_imp to2 (fun _ => true) is_resp2 l); [|apply forallb_const_true].
    eapply Forall_impl; [|eassumption]. intros kv [Ha Hb]; split; auto.
  - apply (forallb_pmap_imp to2 (fun _ => true) is_resp2 l); [|apply forallb_const_true].
    eapply Forall_impl; [|eassumption]. intros kv [Ha Hb]; split; auto.
Qed.
Print Assumptions C15_only_resp2.

(* for replies that are real values (no model-only marker): strictly RESP2 *)
Theorem C15_only_wire2 : forall v, marker_free v = true -> is_wire2 (to2 v) = true.
Proof.
  induction v using resp_ind'; try reflexivity; try discriminate; cbn [to2 is_wire2 marker_free].
  - apply (forallb_map_imp to2 marker_free is_wire2). assumption.
  - apply (forallb_map_imp to2 marker_free is_wire2). assumption.
  - apply (forallb_pmap_imp to2 marker_free is_wire2 l). assumption.
  - apply (forallb_map_imp to2 marker_free is_wire2). assumption.
  - apply (forallb_flat_imp to2 marker_free is_wire2 l). assumption.
  - apply (forallb_pmap_imp to2 marker_free is_wire2 l). assumption.
Qed.
Print Assumptions C15_only_wire2.

Definition ex_resp3 : resp :=
  RArr [RMap [(RBulk (s2b "a"), RDouble (s2b "1.5")); (RBulk (s2b "b"), RSet [RBool true; RNull])];
        RPairs [(RBulk (s2b "f"), RBig (s2b "123"))]; RVerb (s2b "txt") (s2b "hi"); RArrU [RNull]].
Example C15_only_resp2_example :
  marker_free ex_resp3 = true /\ is_wire2 ex_resp3 = false /\ is_wire2 (to2 ex_resp3) = true /\
  to2 ex_resp3 =
  RArr [RFlatU [(RBulk (s2b "a"), RBulk (s2b "1.5")); (RBulk (s2b "b"), RArrU [RInt 1; RNil])];
        RArr [RBulk (s2b "f"); RBulk (s2b "123")]; RBulk (s2b "hi"); RArrU [RNil]].
Proof. vm_compute. repeat split. Qed.

(* ---------- 2. to2 is idempotent ---------- *)
Lemma map_fix {A} (f : A -> A) l : Forall (fun x => f (f x) = f x) l -> map f (map f l) = map f l.
Proof. induction 1 as [|x l Hx Hl IH]; cbn; [reflexivity|]. rewrite Hx, IH. reflexivity. Qed.

Lemma pmap_fix (f : resp -> resp) l :
  Forall (P2 (fun x => f (f x) = f x)) l -> map (pmap f) (map (pmap f) l) = map (pmap f) l.
Proof.
  induction 1 as [|kv l [Ha Hb] Hl IH]; cbn [map]; [reflexivity|].
  f_equal; [|exact IH]. unfold pmap. cbn [fst snd]. rewrite Ha, Hb. reflexivity.
Qed.

Lemma flat_fix (f : resp -> resp) l :
  Forall (P2 (fun x => f (f x) = f x)) l ->
  map f (flat_map (fun kv => [f (fst kv); f (snd kv)]) l) = flat_map (fun kv => [f (fst kv); f (snd kv)]) l.
Proof.
  induction 1 as [|kv l [Ha Hb] Hl IH]; cbn; [reflexivity|]. rewrite Ha, Hb, IH. reflexivity.
Qed.

Theorem C15_to2_idempotent : forall v, to2 (to2 v) = to2 v.
Proof.
  induction v using resp_ind'; try reflexivity; cbn [to2].
  - f_equal. apply map_fix. assumption.
  - f_equal. apply map_fix. assumption.
  - f_equal. apply (pmap_fix to2). assumption.
  - f_equal. apply map_fix. assumption.
  - f_equal. apply (flat_fix to2). assumption.
  - f_equal. apply (pmap_fix to2). assumption.
Qed.
Print Assumptions C15_to2_idempotent.

(* RESP2 values are fixed points of the conversion *)
Lemma map_id_Forall {A} (f : A -> A) (p : A -> bool) l :
  Forall (fun x => p x = true -> f x = x) l -> forallb p l = true -> map f l = l.
Proof.
  induction 1 as [|x l Hx Hl IH]; cbn; intro H; [reflexivity|].
  apply andb_true_iff in H as [H1 H2]. rewrite (Hx H1), (IH H2). reflexivity.
Qed.

Theorem C15_to2_fixes_resp2 : forall v, is_resp2 v = true -> to2 v = v.
Proof.
  induction v using resp_ind'; try reflexivity; try discriminate; cbn [to2 is_resp2]; intro Hv.
  - f_equal. eapply map_id_Forall; eassumption.
  - f_equal. eapply map_id_Forall; eassumption.
  - f_equal. revert Hv. induction H as [|kv l [Ha Hb] Hl IH]; cbn; intro Hv; [reflexivity|].
    apply andb_true_iff in Hv as [H1 H2]. apply andb_true_iff in H1 as [H1a H1b].
    rewrite (Ha H1a), (Hb H1b), (IH H2). destruct kv; reflexivity.
Qed.
Print Assumptions C15_to2_fixes_resp2.

Example C15_idempotent_example : to2 (to2 ex_resp3) = to2 ex_resp3 /\ to2 ex_resp3 <> ex_resp3.
Proof. split; [vm_compute; reflexivity | vm_compute; discriminate]. Qed.

(* ---------- 3. to2 is the canonical down-conversion ---------- *)
(* plain RESP2 trees *)
Inductive r2 :=
| S2 (s : bytes) | E2 (s : bytes) | I2 (z : Z) | B2 (b : bytes) | Nil2 | A2 (l : list r2).

(* the conversion as the property states it, written directly from RESP3 values to plain
   RESP2 trees: map / list of pairs -> flat array key, value, key, value ... in the same
   order; set -> array, same elements, same order; double / big number / verbatim string ->
   bulk string of the text; boolean -> integer 0/1; null -> nil; arrays elementwise;
   simple string, error, integer, bulk, nil unchanged.  (RApprox is an integer; the
   markers RPick/RScan/RAny stand for an unmodelled reply and are serialised by [ser] as
   nil, so they are sent to Nil2.) *)
Fixpoint down (v : resp) : r2 :=
  match v with
  | RSimple s => S2 s
  | RErr s => E2 s
  | RInt z => I2 z
  | RApprox z _ => I2 z
  | RBulk b => B2 b
  | RNil => Nil2
  | RNull => Nil2
  | RArr l => A2 (map down l)
  | RArrU l => A2 (map down l)
  | RSet l => A2 (map down l)
  | RMap l => A2 (flat_map (fun kv => [down (fst kv); down (snd kv)]) l)
  | RPairs l => A2 (flat_map (fun kv => [down (fst kv); down (snd kv)]) l)
  | RFlatU l => A2 (flat_map (fun kv => [down (fst kv); down (snd kv)]) l)
  | RDouble t => B2 t
  | RBig t => B2 t
  | RVerb _ t => B2 t
  | RBool b => I2 (if b then 1 else 0)
  | RPick _ _ _ _ | RScan _ _ | RAny => Nil2
  end.

(* reading a model RESP2 value as a plain tree: forgets "order unspecified" (RArrU, RFlatU)
   and "clock dependent" (RApprox).  Only meaningful on is_resp2 values; RESP3-only
   constructors are sent to Nil2 (never reached below, see C15_only_resp2 and
   C15_erase_faithful). *)
Fixpoint erase (v : resp) : r2 :=
  match v with
  | RSimple s => S2 s
  | RErr s => E2 s
  | RInt z => I2 z
  | RApprox z _ => I2 z
  | RBulk b => B2 b
  | RNil => Nil2
  | RArr l => A2 (map erase l)
  | RArrU l => A2 (map erase l)
  | RFlatU l => A2 (flat_map (fun kv => [erase (fst kv); erase (snd kv)]) l)
  | _ => Nil2
  end.

Lemma map_map_Forall {A B C} (f : A -> B) (g : B -> C) (h : A -> C) l :
  Forall (fun x => g (f x) = h x) l -> map g (map f l) = map h l.
Proof. induction 1 as [|x l Hx Hl IH]; cbn; [reflexivity|]. rewrite Hx, IH. reflexivity. Qed.

Lemma flat_pmap_Forall (f : resp -> resp) (g h : resp -> r2) l :
  Forall (P2 (fun x => g (f x) = h x)) l ->
  flat_map (fun kv => [g (fst kv); g (snd kv)]) (map (pmap f) l) =
  flat_map (fun kv => [h (fst kv); h (snd kv)]) l.
Proof.
  induction 1 as [|kv l [Ha Hb] Hl IH]; cbn; [reflexivity|]. rewrite Ha, Hb, IH. reflexivity.
Qed.

Lemma map_flat_Forall (f : resp -> resp) (g h : resp -> r2) l :
  Forall (P2 (fun x => g (f x) = h x)) l ->
  map g (flat_map (fun kv => [f (fst kv); f (snd kv)]) l) =
  flat_map (fun kv => [h (fst kv); h (snd kv)]) l.
Proof.
  induction 1 as [|kv l [Ha Hb] Hl IH]; cbn; [reflexivity|]. rewrite Ha, Hb, IH. reflexivity.
Qed.

(* same elements, same nesting, same order *)
Theorem C15_canonical : forall v, erase (to2 v) = down v.
Proof.
  induction v using resp_ind'; try reflexivity; cbn [to2 erase down].
  - f_equal. apply map_map_Forall. assumption.
  - f_equal. apply map_map_Forall. assumption.
  - f_equal. apply (flat_pmap_Forall to2 erase down). assumption.
  - f_equal. apply map_map_Forall. assumption.
  - f_equal. apply (map_flat_Forall to2 erase down). assumption.
  - f_equal. apply (flat_pmap_Forall to2 erase down). assumption.
Qed.
Print Assumptions C15_canonical.

(* erase loses nothing that reaches the wire: the serialisation of a RESP2 value is the
   plain RESP2 serialisation of its erasure *)
Fixpoint ser2 (v : r2) : bytes :=
  match v with
  | S2 s => line 43%N (sanitize s)
  | E2 s => line 45%N (sanitize s)
  | I2 z => line 58%N (Z_to_bytes z)
  | B2 b => ser_bulk b
  | Nil2 => s2b "$-1" ++ crlf
  | A2 l => line 42%N (N_to_bytes (N.of_nat (length l))) ++ concat (map ser2 l)
  end.

Lemma concat_map_Forall (p : resp -> bool) l :
  Forall (fun x => p x = true -> ser x = ser2 (erase x)) l -> forallb p l = true ->
  concat (map ser l) = concat (map ser2 (map erase l)).
Proof.
  induction 1 as [|x l Hx Hl IH]; cbn; intro H; [reflexivity|].
  apply andb_true_iff in H as [H1 H2]. rewrite (Hx H1), (IH H2). reflexivity.
Qed.

Theorem C15_erase_faithful : forall v, is_resp2 v = true -> ser v = ser2 (erase v).
Proof.
  induction v using resp_ind'; try reflexivity; try discriminate; cbn [is_resp2 ser erase ser2]; intro Hv.
  - rewrite map_length. f_equal. eapply concat_map_Forall; eassumption.
  - rewrite map_length. f_equal. eapply concat_map_Forall; eassumption.
  - assert (HL : length (flat_map (fun kv => [erase (fst kv); erase (snd kv)]) l) = (2 * length l)%nat).
    { clear. induction l as [|kv l IH]; cbn [flat_map length app]; [reflexivity|]. rewrite IH. lia. }
    rewrite HL. clear HL. f_equal.
    revert Hv. induction H as [|kv l [Ha Hb] Hl IH]; cbn; intro Hv; [reflexivity|].
    apply andb_true_iff in Hv as [H1 H2]. apply andb_true_iff in H1 as [H1a H1b].
    rewrite (Ha H1a), (Hb H1b), (IH H2). rewrite <- app_assoc. reflexivity.
Qed.
Print Assumptions C15_erase_faithful.

(* what a RESP2 client receives is the plain serialisation of the canonical down-conversion *)
Corollary C15_wire_bytes : forall v, ser (to2 v) = ser2 (down v).
Proof. intro v. rewrite C15_erase_faithful by apply C15_only_resp2. rewrite C15_canonical. reflexivity. Qed.
Print Assumptions C15_wire_bytes.

Example C15_canonical_example :
  down ex_resp3 =
  A2 [A2 [B2 (s2b "a"); B2 (s2b "1.5"); B2 (s2b "b"); A2 [I2 1; Nil2]];
      A2 [B2 (s2b "f"); B2 (s2b "123")]; B2 (s2b "hi"); A2 [Nil2]] /\
  erase (to2 ex_resp3) = down ex_resp3 /\
  ser (to2 (RMap [(RBulk (s2b "a"), RBool false)])) = s2b "*2" ++ crlf ++ s2b "$1" ++ crlf ++ s2b "a" ++ crlf ++ s2b ":0" ++ crlf.
Proof. vm_compute. repeat split. Qed.

(* ---------- 4. which form goes on the wire ---------- *)
Theorem C15_wire st cid r :
  (c_resp (get_conn st cid) = 2 -> wire st cid r = to2 r) /\
  (c_resp (get_conn st cid) <> 2 -> wire st cid r = r).
Proof.
  unfold wire. split; intro H.
  - rewrite H. reflexivity.
  - apply Z.eqb_neq in H. rewrite H. reflexivity.
Qed.
Print Assumptions C15_wire.

Corollary C15_wire_resp2_only st cid r :
  c_resp (get_conn st cid) = 2 -> is_resp2 (wire st cid r) = true.
Proof. intro H. rewrite (proj1 (C15_wire st cid r) H). apply C15_only_resp2. Qed.

(* ---------- 5. HELLO ---------- *)
Lemma step_session_eq now st cid name0 name args :
  lower name0 = name -> known_cmd name = true -> is_tx_control name = false ->
  data_cmd name = None -> blocking_cmd name = None ->
  c_queue (get_conn st cid) = None ->
  step now st cid (name0 :: args) =
  match session_cmd now st cid name args with
  | Some (st', r) => mkOut st' r false
  | None => mkOut st unknown_cmd false
  end.
Proof.
  intros Hn Hk Ht Hd Hb Hq. subst name.
  rewrite (step_plain_eq now st cid name0 args Hk Ht). cbv zeta. rewrite Hq.
  apply run_plain_session_eq; assumption.
Qed.

Ltac session_step Hn Hq :=
  rewrite (step_session_eq _ _ _ _ _ _ Hn
             ltac:(vm_compute; reflexivity) ltac:(vm_compute; reflexivity)
             ltac:(vm_compute; reflexivity) ltac:(vm_compute; reflexivity) Hq).

Lemma session_hello_eq now st cid args :
  session_cmd now st cid (s2b "hello") args =
  let c := get_conn st cid in
  Some (match args with
        | [] => (st, RAny)
        | v :: _ =>
          match parse_i64 v with
          | Some 2 => (set_conn st cid (mkConn (c_sel c) 2 (c_name c) (c_queue c) (c_qerr c) (c_watch c)), RAny)
          | Some 3 => (set_conn st cid (mkConn (c_sel c) 3 (c_name c) (c_queue c) (c_qerr c) (c_watch c)), RAny)
          | Some _ => (st, err "NOPROTO unsupported protocol version")
          | None => (st, argerr)
          end
        end).
Proof. reflexivity. Qed.

Definition set_resp (c : conn) (v : Z) : conn :=
  mkConn (c_sel c) v (c_name c) (c_queue c) (c_qerr c) (c_watch c).

(* HELLO 2 / HELLO 3 outside MULTI: only the protocol version of the calling connection changes *)
Theorem C15_hello_switch now st cid name0 v rest n :
  lower name0 = s2b "hello" -> c_queue (get_conn st cid) = None ->
  parse_i64 v = Some n -> n = 2 \/ n = 3 ->
  let o := step now st cid (name0 :: v :: rest) in
  o_st o = set_conn st cid (set_resp (get_conn st cid) n) /\
  get_conn (o_st o) cid = set_resp (get_conn st cid) n /\
  c_resp (get_conn (o_st o) cid) = n /\
  s_dbs (o_st o) = s_dbs st /\
  (forall c2, c2 <> cid -> get_conn (o_st o) c2 = get_conn st c2) /\
  is_err (o_reply o) = false /\ o_block o = false.
Proof.
  intros Hn Hq Hp Hv. cbv zeta. session_step Hn Hq. rewrite session_hello_eq. cbv zeta.
  rewrite Hp.
  destruct Hv as [-> | ->]; cbv beta iota zeta; cbn [o_st o_reply o_block];
    (split; [reflexivity|]; split; [apply get_conn_set_conn_same|];
     split; [rewrite get_conn_set_conn_same; reflexivity|]; split; [reflexivity|];
     split; [intros c2 Hc2; apply get_conn_set_conn_other; assumption|]; split; reflexivity).
Qed.
Print Assumptions C15_hello_switch.

(* any other integer: NOPROTO, nothing changes *)
Theorem C15_hello_noproto now st cid name0 v rest n :
  lower name0 = s2b "hello" -> c_queue (get_conn st cid) = None ->
  parse_i64 v = Some n -> n <> 2 -> n <> 3 ->
  step now st cid (name0 :: v :: rest) = mkOut st (err "NOPROTO unsupported protocol version") false.
Proof.
  intros Hn Hq Hp H2 H3. session_step Hn Hq. rewrite session_hello_eq. cbv zeta. rewrite Hp.
  destruct n as [|p|p]; try reflexivity.
  destruct p as [p|p|]; try reflexivity; destruct p as [p|p|]; try reflexivity; congruence.
Qed.
Print Assumptions C15_hello_noproto.

(* not an integer: argument error, nothing changes; no argument: nothing changes *)
Theorem C15_hello_other now st cid name0 :
  lower name0 = s2b "hello" -> c_queue (get_conn st cid) = None ->
  (forall v rest, parse_i64 v = None -> step now st cid (name0 :: v :: rest) = mkOut st argerr false) /\
  step now st cid [name0] = mkOut st RAny false.
Proof.
  intros Hn Hq. split.
  - intros v rest Hp. session_step Hn Hq. rewrite session_hello_eq. cbv zeta. rewrite Hp. reflexivity.
  - session_step Hn Hq. rewrite session_hello_eq. reflexivity.
Qed.
Print Assumptions C15_hello_other.

(* inside MULTI, HELLO is queued like any other command (and takes effect at EXEC) *)
Theorem C15_hello_in_multi now st cid name0 args q :
  lower name0 = s2b "hello" -> c_queue (get_conn st cid) = Some q ->
  let o := step now st cid (name0 :: args) in
  c_resp (get_conn (o_st o) cid) = c_resp (get_conn st cid) /\
  (is_err (o_reply o) = false -> c_queue (get_conn (o_st o) cid) = Some (q ++ [name0 :: args])).
Proof.
  intros Hn Hq. cbv zeta.
  rewrite (step_plain_eq now st cid name0 args); [|rewrite Hn; vm_compute; reflexivity ..].
  cbv zeta. rewrite Hq.
  destruct (is_argerr _); cbn [o_st o_reply]; rewrite get_conn_set_conn_same; cbn; split; congruence.
Qed.
Print Assumptions C15_hello_in_multi.

Example C15_hello_example :
  let s1 := o_st (step 0 state0 1 [s2b "HELLO"; s2b "3"]) in
  let s2 := o_st (step 0 s1 1 [s2b "hello"; s2b "2"]) in
  get_conn state0 1 = conn0 /\ c_resp conn0 = 2 /\
  get_conn s1 1 = mkConn 0 3 [] None false [] /\ get_conn s1 2 = conn0 /\
  get_conn s2 1 = conn0 /\
  step 0 s1 1 [s2b "HELLO"; s2b "4"] = mkOut s1 (err "NOPROTO unsupported protocol version") false /\
  step 0 s1 1 [s2b "HELLO"; s2b "x"] = mkOut s1 argerr false /\
  step 0 s1 1 [s2b "HELLO"] = mkOut s1 RAny false /\
  (* HSET + HGETALL seen by a RESP3 and by a RESP2 connection *)
  let s3 := o_st (step 0 s1 1 [s2b "HSET"; s2b "h"; s2b "f"; s2b "v"]) in
  let r := o_reply (step 0 s3 1 [s2b "HGETALL"; s2b "h"]) in
  wire s3 1 r = RMap [(RBulk (s2b "f"), RBulk (s2b "v"))] /\
  wire s3 2 r = RFlatU [(RBulk (s2b "f"), RBulk (s2b "v"))].
Proof. vm_compute. repeat split. Qed.

(* ---------- the protocol version changes only through HELLO ---------- *)
Definition resp_ok (c : conn) : Prop := c_resp c = 2 \/ c_resp c = 3.

Lemma run_plain_resp now st cid name args b c2 :
  let st' := o_st (run_plain now st cid name args b) in
  c_resp (get_conn st' c2) = c_resp (get_conn st c2) \/
  (c2 = cid /\ name = s2b "hello" /\ resp_ok (get_conn st' c2)).
Proof.
  cbv zeta. pose proof (run_plain_shape now st cid name args b) as Hs.
  destruct (N.eq_dec c2 cid) as [->|Hne].
  - apply shape_conn in Hs. destruct Hs as (_ & _ & _ & _ & H5 & _).
    destruct H5 as [H5|[H5 H6]]; [left; assumption | right; auto].
  - rewrite (shape_other_conn _ _ _ _ c2 Hs Hne). auto.
Qed.

Definition not_hello (cmd : list bytes) : Prop :=
  match cmd with [] => True | n :: _ => lower n <> s2b "hello" end.

(* (the clock advances by one per executed queued command, hence the quantification over now) *)
Lemma exec_queue_resp cid q : forall now st c2,
  (Forall not_hello q -> c_resp (get_conn (fst (exec_queue now st cid q)) c2) = c_resp (get_conn st c2)) /\
  (resp_ok (get_conn st c2) -> resp_ok (get_conn (fst (exec_queue now st cid q)) c2)).
Proof.
  induction q as [|cmd q IH]; intros now st c2; [split; auto|].
  destruct cmd as [|name args]; cbn [exec_queue].
  - destruct (IH now st c2) as [IH1 IH2]. split; [|assumption].
    intro H. apply IH1. inversion H; assumption.
  - destruct (IH (now + 1) (o_st (run_plain now st cid (lower name) args true)) c2) as [IH1 IH2].
    pose proof (run_plain_resp now st cid (lower name) args true c2) as Hr. cbv zeta in Hr.
    destruct (exec_queue (now + 1) (o_st (run_plain now st cid (lower name) args true)) cid q) as [st' rs].
    cbn [fst] in *. split.
    + intro H. inversion H as [|? ? Hh Ht]; subst. rewrite (IH1 Ht).
      destruct Hr as [Hr|(_ & Hr & _)]; [assumption | contradiction].
    + intro H. apply IH2. destruct Hr as [Hr|(_ & _ & Hr)]; [|assumption].
      unfold resp_ok. rewrite Hr. exact H.
Qed.

(* flagging an open transaction (arity error of a control command) keeps the protocol version *)
Lemma flag_tx_resp st cid :
  c_resp (get_conn (flag_tx st cid (get_conn st cid)) cid) = c_resp (get_conn st cid).
Proof.
  unfold flag_tx. destruct (c_queue (get_conn st cid)); [rewrite get_conn_set_conn_same|]; reflexivity.
Qed.

(* RESP2 until HELLO, and after HELLO 3 RESP3 until the next HELLO: any command other than
   HELLO (outside MULTI) and EXEC (of a queue that contains a HELLO) leaves the protocol
   version of every connection as it was *)
Theorem C15_version_stable now st cid name0 args c2 :
  lower name0 <> s2b "hello" ->
  (lower name0 = s2b "exec" ->
   match c_queue (get_conn st cid) with Some q => Forall not_hello q | None => True end) ->
  c_resp (get_conn (o_st (step now st cid (name0 :: args))) c2) = c_resp (get_conn st c2).
Proof.
  intros Hnh Hex.
  destruct (N.eq_dec c2 cid) as [->|Hne]; [|rewrite step_other_conn by assumption; reflexivity].
  destruct (known_cmd (lower name0)) eqn:Hk.
  2:{ rewrite (step_unknown_eq now st cid name0 args Hk). cbv zeta.
      destruct (c_queue (get_conn st cid)); cbn [o_st]; [|reflexivity].
      rewrite get_conn_set_conn_same. reflexivity. }
  destruct (is_tx_control (lower name0)) eqn:Ht.
  - apply tx_control_cases in Ht as [Hn|[Hn|[Hn|Hn]]].
    + rewrite (step_multi_eq now st cid name0 args Hn). cbv zeta.
      destruct args; destruct (c_queue (get_conn st cid)) eqn:Eq; cbn [o_st];
        first [apply flag_tx_resp | reflexivity | idtac].
      rewrite get_conn_set_conn_same. reflexivity.
    + specialize (Hex Hn). rewrite (step_exec_eq now st cid name0 args Hn). cbv zeta.
      destruct args; [|cbn [o_st]; apply flag_tx_resp].
      destruct (c_queue (get_conn st cid)) as [q|]; [|reflexivity].
      destruct (c_qerr (get_conn st cid)).
      { cbn [o_st]. rewrite get_conn_set_conn_same. reflexivity. }
      destruct (watch_dirty now st (c_watch (get_conn st cid))).
      { cbn [o_st]. rewrite get_conn_set_conn_same. reflexivity. }
      destruct (exec_queue_resp cid q now (set_conn st cid (reset_tx (get_conn st cid))) cid) as [H _].
      specialize (H Hex).
      destruct (exec_queue now (set_conn st cid (reset_tx (get_conn st cid))) cid q) as [st2 rs].
      cbn [o_st fst] in *. rewrite H, get_conn_set_conn_same. reflexivity.
    + rewrite (step_discard_eq now st cid name0 args Hn). cbv zeta.
      destruct args; destruct (c_queue (get_conn st cid)) eqn:Eq; cbn [o_st];
        first [apply flag_tx_resp | reflexivity | idtac].
      rewrite get_conn_set_conn_same. reflexivity.
    + rewrite (step_watch_eq now st cid name0 args Hn). cbv zeta.
      destruct (c_queue (get_conn st cid)) eqn:Eq.
      { destruct args; cbn [o_st]; [apply flag_tx_resp | reflexivity]. }
      destruct args; cbn [o_st]; [reflexivity|].
      rewrite get_conn_set_conn_same. reflexivity.
  - rewrite (step_plain_eq now st cid name0 args Hk Ht). cbv zeta.
    destruct (c_queue (get_conn st cid)) as [q|].
    + destruct (is_argerr _); cbn [o_st]; rewrite get_conn_set_conn_same; reflexivity.
    + destruct (run_plain_resp now st cid (lower name0) args false cid) as [H|(_ & H & _)];
        [exact H | contradiction].
Qed.
Print Assumptions C15_version_stable.

(* whatever is executed, a connection is always in protocol 2 or 3 *)
Theorem C15_version_2_or_3 now st cid cmd c2 :
  resp_ok (get_conn st c2) -> resp_ok (get_conn (o_st (step now st cid cmd)) c2).
Proof.
  intro Hok.
  destruct (N.eq_dec c2 cid) as [->|Hne]; [|rewrite step_other_conn by assumption; exact Hok].
  destruct cmd as [|name0 args]; [exact Hok|].
  destruct (bytes_eq_dec (lower name0) (s2b "hello")) as [Hh|Hh].
  - (* hello *)
    assert (Hk : known_cmd (lower name0) = true) by (rewrite Hh; vm_compute; reflexivity).
    assert (Ht : is_tx_control (lower name0) = false) by (rewrite Hh; vm_compute; reflexivity).
    rewrite (step_plain_eq now st cid name0 args Hk Ht). cbv zeta.
    destruct (c_queue (get_conn st cid)) as [q|].
    + destruct (is_argerr _); cbn [o_st]; rewrite get_conn_set_conn_same; exact Hok.
    + destruct (run_plain_resp now st cid (lower name0) args false cid) as [H|(_ & _ & H)];
        [unfold resp_ok; rewrite H; exact Hok | exact H].
  - destruct (bytes_eq_dec (lower name0) (s2b "exec")) as [He|He].
    + rewrite (step_exec_eq now st cid name0 args He). cbv zeta.
      destruct args; [|cbn [o_st]; unfold resp_ok; rewrite flag_tx_resp; exact Hok].
      destruct (c_queue (get_conn st cid)) as [q|]; [|exact Hok].
      assert (Hr : resp_ok (get_conn (set_conn st cid (reset_tx (get_conn st cid))) cid)).
      { rewrite get_conn_set_conn_same. exact Hok. }
      destruct (c_qerr (get_conn st cid)); [exact Hr|].
      destruct (watch_dirty now st (c_watch (get_conn st cid))); [exact Hr|].
      destruct (exec_queue_resp cid q now (set_conn st cid (reset_tx (get_conn st cid))) cid) as [_ H].
      specialize (H Hr).
      destruct (exec_queue now (set_conn st cid (reset_tx (get_conn st cid))) cid q) as [st2 rs].
      exact H.
    + unfold resp_ok. rewrite C15_version_stable; [exact Hok | assumption | intro; contradiction].
Qed.
Print Assumptions C15_version_2_or_3.

(* hence every connection of a reachable state speaks 2 or 3; a fresh one speaks 2 *)
Theorem C15_fresh_is_resp2 st cid : nget (s_conns st) cid = None -> c_resp (get_conn st cid) = 2.
Proof. intro H. rewrite get_conn_fresh by assumption. reflexivity. Qed.

Example C15_version_stable_example :
  (* after HELLO 3 the connection stays RESP3 through data commands, SELECT, a transaction
     and another connection's HELLO 2; a HELLO 2 queued in MULTI acts at EXEC *)
  let s1 := o_st (step 0 state0 1 [s2b "HELLO"; s2b "3"]) in
  let s2 := o_st (step 0 s1 1 [s2b "SET"; s2b "k"; s2b "v"]) in
  let s3 := o_st (step 0 s2 1 [s2b "SELECT"; s2b "2"]) in
  let s4 := o_st (step 0 s3 2 [s2b "HELLO"; s2b "2"]) in
  let s5 := o_st (step 0 s4 1 [s2b "MULTI"]) in
  let s6 := o_st (step 0 s5 1 [s2b "INCR"; s2b "n"]) in
  let s7 := o_st (step 0 s6 1 [s2b "EXEC"]) in
  let t6 := o_st (step 0 s5 1 [s2b "HELLO"; s2b "2"]) in
  let t7 := o_st (step 0 t6 1 [s2b "EXEC"]) in
  c_resp (get_conn s7 1) = 3 /\ c_resp (get_conn s7 2) = 2 /\
  c_resp (get_conn t6 1) = 3 /\ c_resp (get_conn t7 1) = 2.
Proof. vm_compute. repeat split. Qed.
