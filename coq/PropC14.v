From RE Require Import Base Resp State Exec Exec2 Bits Dispatch Lemmas.
From Coq Require Import String.
From Coq Require Import List.
Open Scope string_scope.
Open Scope list_scope.
Open Scope Z_scope.

(* ================================================================== *)
(* Preamble (identical in PropC09/PropC14/PropC15 so that each file   *)
(* compiles on its own): finite maps keyed by N, state accessors, and *)
(* the shape of the state change of one non-transactional command.    *)
(* ================================================================== *)

Section NMap.
  Context {A : Type}.
  Implicit Types (m : list (N * A)) (k : N) (v : A).

  Lemma nget_nset_same m k v : nget (nset m k v) k = Some v.
  Proof.
    induction m as [|[k' v'] m IH]; simpl.
    - rewrite N.eqb_refl. reflexivity.
    - destruct (N.eqb k k') eqn:E; simpl.
      + rewrite N.eqb_refl. reflexivity.
      + rewrite E. exact IH.
  Qed.

  Lemma nget_nset_other m k k' v : k' <> k -> nget (nset m k v) k' = nget m k'.
  Proof.
    intro Hne. induction m as [|[k0 v0] m IH]; simpl.
    - apply N.eqb_neq in Hne. rewrite Hne. reflexivity.
    - destruct (N.eqb k k0) eqn:E; simpl.
      + apply N.eqb_eq in E. subst k0. apply N.eqb_neq in Hne. rewrite Hne. reflexivity.
      + destruct (N.eqb k' k0); [reflexivity | exact IH].
  Qed.

  Lemma nget_ndel_same m k : nget (ndel m k) k = None.
  Proof.
    induction m as [|[k' v'] m IH]; simpl; [reflexivity|].
    destruct (N.eqb k k') eqn:E; simpl; [exact IH|]. rewrite E. exact IH.
  Qed.

  Lemma nget_ndel_other m k k' : k' <> k -> nget (ndel m k) k' = nget m k'.
  Proof.
    intro Hne. induction m as [|[k0 v0] m IH]; simpl; [reflexivity|].
    destruct (N.eqb k k0) eqn:E; simpl.
    - apply N.eqb_eq in E. subst k0. apply N.eqb_neq in Hne. rewrite Hne. exact IH.
    - destruct (N.eqb k' k0); [reflexivity | exact IH].
  Qed.

  Lemma nget_map_val {B} (g : A -> B) m k :
    nget (map (fun id => (fst id, g (snd id))) m) k = option_map g (nget m k).
  Proof.
    induction m as [|[k' v'] m IH]; simpl; [reflexivity|].
    destruct (N.eqb k k'); [reflexivity | exact IH].
  Qed.
End NMap.

(* ---------- state accessors ---------- *)
Lemma get_conn_set_conn_same st c x : get_conn (set_conn st c x) c = x.
Proof. unfold get_conn, set_conn; simpl. rewrite nget_nset_same. reflexivity. Qed.

Lemma get_conn_set_conn_other st c c' x : c' <> c -> get_conn (set_conn st c x) c' = get_conn st c'.
Proof. intro H. unfold get_conn, set_conn; simpl. rewrite nget_nset_other by assumption. reflexivity. Qed.

Lemma get_conn_set_db st i d c : get_conn (set_db st i d) c = get_conn st c.
Proof. reflexivity. Qed.

Lemma get_db_set_db_same st i d : get_db (set_db st i d) i = d.
Proof. unfold get_db, set_db; simpl. rewrite nget_nset_same. reflexivity. Qed.

Lemma get_db_set_db_other st i j d : j <> i -> get_db (set_db st i d) j = get_db st j.
Proof. intro H. unfold get_db, set_db; simpl. rewrite nget_nset_other by assumption. reflexivity. Qed.

Lemma get_db_set_conn st c x i : get_db (set_conn st c x) i = get_db st i.
Proof. reflexivity. Qed.

Lemma s_dbs_set_conn st c x : s_dbs (set_conn st c x) = s_dbs st.
Proof. reflexivity. Qed.

Lemma s_conns_set_db st i d : s_conns (set_db st i d) = s_conns st.
Proof. reflexivity. Qed.

Lemma get_conn_fresh st c : nget (s_conns st) c = None -> get_conn st c = conn0.
Proof. intro H. unfold get_conn. rewrite H. reflexivity. Qed.

Lemma get_conn_close_same st c : get_conn (close_conn st c) c = conn0.
Proof. unfold get_conn, close_conn; simpl. rewrite nget_ndel_same. reflexivity. Qed.

Lemma get_conn_close_other st c c' : c' <> c -> get_conn (close_conn st c) c' = get_conn st c'.
Proof. intro H. unfold get_conn, close_conn; simpl. rewrite nget_ndel_other by assumption. reflexivity. Qed.

Definition flush_all (st : state) : state :=
  mkSt (map (fun id => (fst id, flush_db (snd id))) (s_dbs st)) (s_conns st).

Lemma get_conn_flush_all st c : get_conn (flush_all st) c = get_conn st c.
Proof. reflexivity. Qed.

Lemma d_map_get_db_flush_all st i : d_map (get_db (flush_all st) i) = [].
Proof.
  unfold get_db, flush_all; simpl. rewrite nget_map_val.
  destruct (nget (s_dbs st) i); reflexivity.
Qed.

(* ---------- how one connection record may change ---------- *)
(* name is the (lower-cased) command name that caused the change *)
Definition conn_upd_ok (name : bytes) (c c' : conn) : Prop :=
  c_queue c' = c_queue c /\
  c_qerr c' = c_qerr c /\
  (c_watch c' = c_watch c \/ (name = s2b "unwatch" /\ c_watch c' = [])) /\
  (c_sel c' = c_sel c \/ name = s2b "select") /\
  (c_resp c' = c_resp c \/ (name = s2b "hello" /\ (c_resp c' = 2 \/ c_resp c' = 3))) /\
  (c_name c' = c_name c \/ name = s2b "client").

Lemma conn_upd_ok_refl name c : conn_upd_ok name c c.
Proof. unfold conn_upd_ok. repeat split; left; reflexivity. Qed.

(* the state after one command run by [run_plain] for connection cid *)
Inductive run_shape (st : state) (cid : N) (name : bytes) : state -> Prop :=
| rs_same : run_shape st cid name st
| rs_conn c' : conn_upd_ok name (get_conn st cid) c' -> run_shape st cid name (set_conn st cid c')
| rs_db d : run_shape st cid name (set_db st (c_sel (get_conn st cid)) d)
| rs_flushall : name = s2b "flushall" -> run_shape st cid name (flush_all st).

Ltac break_in H :=
  repeat match type of H with
         | context [match ?x with _ => _ end] => destruct x eqn:?
         end.

Lemma session_cmd_shape now st cid name args st' r :
  session_cmd now st cid name args = Some (st', r) -> run_shape st cid name st'.
Proof.
  intro H. unfold session_cmd in H. cbv beta zeta in H.
  destruct (bytes_eqb name (s2b "ping")) eqn:E1.
  { injection H as H _. subst st'. constructor. }
  destruct (bytes_eqb name (s2b "echo")) eqn:E2.
  { injection H as H _. subst st'. constructor. }
  destruct (bytes_eqb name (s2b "quit")) eqn:E3.
  { injection H as H _. subst st'. constructor. }
  destruct (bytes_eqb name (s2b "select")) eqn:E4.
  { apply bytes_eqb_eq in E4. injection H as H.
    break_in H; injection H as H _; subst st'; try constructor.
    unfold conn_upd_ok; cbn. repeat split; auto. }
  destruct (bytes_eqb name (s2b "flushdb")) eqn:E5.
  { injection H as H. break_in H; injection H as H _; subst st'; constructor. }
  destruct (bytes_eqb name (s2b "flushall")) eqn:E6.
  { apply bytes_eqb_eq in E6. injection H as H.
    break_in H; injection H as H _; subst st';
      first [apply rs_same | apply (rs_flushall st cid name E6)]. }
  destruct (bytes_eqb name (s2b "hello")) eqn:E7.
  { apply bytes_eqb_eq in E7. injection H as H.
    break_in H; injection H as H _; subst st'; try constructor;
      unfold conn_upd_ok; cbn; repeat split; auto. }
  destruct (bytes_eqb name (s2b "unwatch")) eqn:E8.
  { apply bytes_eqb_eq in E8. injection H as H.
    break_in H; injection H as H _; subst st'; try constructor;
      unfold conn_upd_ok; cbn; repeat split; auto. }
  destruct (bytes_eqb name (s2b "client")) eqn:E9.
  { apply bytes_eqb_eq in E9. injection H as H.
    break_in H; injection H as H _; subst st'; try constructor;
      unfold conn_upd_ok; cbn; repeat split; auto. }
  destruct (bytes_eqb name (s2b "command") || bytes_eqb name (s2b "info")) eqn:E10.
  { injection H as H _. subst st'. constructor. }
  discriminate H.
Qed.

Lemma run_plain_shape now st cid name args b :
  run_shape st cid name (o_st (run_plain now st cid name args b)).
Proof.
  unfold run_plain.
  destruct (data_cmd name) as [f|].
  { destruct (f now (get_db st (c_sel (get_conn st cid))) args) as [d' r]. cbn [o_st]. constructor. }
  destruct (blocking_cmd name) as [f|].
  { destruct (f now (get_db st (c_sel (get_conn st cid))) args) as [d' r].
    destruct r; cbn [o_st]; constructor. }
  destruct (session_cmd now st cid name args) as [[st' r]|] eqn:E; cbn [o_st].
  - eapply session_cmd_shape; eassumption.
  - constructor.
Qed.

Lemma run_plain_in_exec_noblock now st cid name args :
  o_block (run_plain now st cid name args true) = false.
Proof.
  unfold run_plain.
  destruct (data_cmd name) as [f|].
  { destruct (f now (get_db st (c_sel (get_conn st cid))) args) as [d' r]. reflexivity. }
  destruct (blocking_cmd name) as [f|].
  { destruct (f now (get_db st (c_sel (get_conn st cid))) args) as [d' r].
    destruct r; reflexivity. }
  destruct (session_cmd now st cid name args) as [[st' r]|]; reflexivity.
Qed.

(* consequences of the shape *)
Lemma shape_other_conn st cid name st' c2 :
  run_shape st cid name st' -> c2 <> cid -> get_conn st' c2 = get_conn st c2.
Proof.
  intros H Hne. destruct H; try reflexivity.
  apply get_conn_set_conn_other; assumption.
Qed.

Lemma shape_conn st cid name st' :
  run_shape st cid name st' -> conn_upd_ok name (get_conn st cid) (get_conn st' cid).
Proof.
  intros H. destruct H; try apply conn_upd_ok_refl.
  rewrite get_conn_set_conn_same. assumption.
Qed.

Lemma shape_other_db st cid name st' i :
  run_shape st cid name st' -> name <> s2b "flushall" ->
  i <> c_sel (get_conn st cid) -> get_db st' i = get_db st i.
Proof.
  intros H Hn Hi. destruct H; try reflexivity.
  - apply get_db_set_db_other; assumption.
  - contradiction.
Qed.

(* exec_queue only threads run_plain *)
(* (the clock advances by one per executed queued command, hence the quantification over now) *)
Lemma exec_queue_other_conn cid q : forall now st c2,
  c2 <> cid -> get_conn (fst (exec_queue now st cid q)) c2 = get_conn st c2.
Proof.
  induction q as [|cmd q IH]; intros now st c2 Hne; [reflexivity|].
  destruct cmd as [|name args]; cbn [exec_queue]; [apply IH; assumption|].
  specialize (IH (now + 1) (o_st (run_plain now st cid (lower name) args true)) c2 Hne).
  destruct (exec_queue (now + 1) (o_st (run_plain now st cid (lower name) args true)) cid q) as [st' rs].
  cbn [fst] in *. rewrite IH.
  eapply shape_other_conn; [apply run_plain_shape | assumption].
Qed.

(* [flag_tx]: the arity error of a control command inside an open transaction *)
Lemma flag_tx_none st cid c : c_queue c = None -> flag_tx st cid c = st.
Proof. intro H. unfold flag_tx. rewrite H. reflexivity. Qed.

Lemma flag_tx_some st cid c q :
  c_queue c = Some q ->
  flag_tx st cid c = set_conn st cid (mkConn (c_sel c) (c_resp c) (c_name c) (Some q) true (c_watch c)).
Proof. intro H. unfold flag_tx. rewrite H. reflexivity. Qed.

Lemma flag_tx_other_conn st cid c c2 : c2 <> cid -> get_conn (flag_tx st cid c) c2 = get_conn st c2.
Proof.
  intro Hne. unfold flag_tx. destruct (c_queue c); [|reflexivity].
  apply get_conn_set_conn_other; assumption.
Qed.

Lemma flag_tx_dbs st cid c : s_dbs (flag_tx st cid c) = s_dbs st.
Proof. unfold flag_tx. destruct (c_queue c); reflexivity. Qed.

Lemma get_db_flag_tx st cid c i : get_db (flag_tx st cid c) i = get_db st i.
Proof. unfold flag_tx. destruct (c_queue c); reflexivity. Qed.

(* ---------- unfolding equations of [step] ---------- *)
Definition is_name (name0 : bytes) (s : string) : Prop := lower name0 = s2b s.

Lemma tx_control_split name :
  is_tx_control name = false ->
  bytes_eqb name (s2b "multi") = false /\ bytes_eqb name (s2b "exec") = false /\
  bytes_eqb name (s2b "discard") = false /\ bytes_eqb name (s2b "watch") = false.
Proof.
  unfold is_tx_control. cbv beta zeta. intro H.
  apply orb_false_iff in H as [H H4]. apply orb_false_iff in H as [H H3].
  apply orb_false_iff in H as [H1 H2]. auto.
Qed.

(* a known command that is not multi/exec/discard/watch: queued inside MULTI, run otherwise *)
Lemma step_plain_eq now st cid name0 args :
  known_cmd (lower name0) = true -> is_tx_control (lower name0) = false ->
  step now st cid (name0 :: args) =
  let name := lower name0 in
  let c := get_conn st cid in
  match c_queue c with
  | Some q =>
    let o := run_plain now st cid name args true in
    if is_argerr (o_reply o) then
      mkOut (set_conn st cid (mkConn (c_sel c) (c_resp c) (c_name c) (Some q) true (c_watch c))) argerr false
    else
      mkOut (set_conn st cid (mkConn (c_sel c) (c_resp c) (c_name c) (Some (q ++ [name0 :: args])) (c_qerr c) (c_watch c)))
            (RSimple (s2b "QUEUED")) false
  | None => run_plain now st cid name args false
  end.
Proof.
  intros Hk Ht. apply tx_control_split in Ht as (H1 & H2 & H3 & H4).
  unfold step. cbv beta iota zeta. rewrite Hk, H1, H2, H3, H4. reflexivity.
Qed.

Lemma step_unknown_eq now st cid name0 args :
  known_cmd (lower name0) = false ->
  step now st cid (name0 :: args) =
  let c := get_conn st cid in
  match c_queue c with
  | Some q => mkOut (set_conn st cid (mkConn (c_sel c) (c_resp c) (c_name c) (Some q) true (c_watch c))) unknown_cmd false
  | None => mkOut st unknown_cmd false
  end.
Proof. intros Hk. unfold step. cbv beta iota zeta. rewrite Hk. reflexivity. Qed.

Lemma step_multi_eq now st cid name0 args :
  lower name0 = s2b "multi" ->
  step now st cid (name0 :: args) =
  let c := get_conn st cid in
  match args, c_queue c with
  | [], None => mkOut (set_conn st cid (mkConn (c_sel c) (c_resp c) (c_name c) (Some []) false (c_watch c))) ok false
  | [], Some _ => mkOut st (err "ERR MULTI calls can not be nested") false
  | _, _ => mkOut (flag_tx st cid c) argerr false
  end.
Proof. intros H. unfold step. cbv beta iota zeta. rewrite H. reflexivity. Qed.

Lemma step_discard_eq now st cid name0 args :
  lower name0 = s2b "discard" ->
  step now st cid (name0 :: args) =
  let c := get_conn st cid in
  match args, c_queue c with
  | [], Some _ => mkOut (set_conn st cid (reset_tx c)) ok false
  | [], None => mkOut st (err "ERR DISCARD without MULTI") false
  | _, _ => mkOut (flag_tx st cid c) argerr false
  end.
Proof. intros H. unfold step. cbv beta iota zeta. rewrite H. reflexivity. Qed.

Lemma step_watch_multi_eq now st cid name0 a args q :
  lower name0 = s2b "watch" -> c_queue (get_conn st cid) = Some q ->
  step now st cid (name0 :: a :: args) = mkOut st (err "ERR WATCH inside MULTI is not allowed") false.
Proof. intros H Hq. unfold step. cbv beta iota zeta. rewrite H, Hq. reflexivity. Qed.

Lemma step_exec_eq now st cid name0 args :
  lower name0 = s2b "exec" ->
  step now st cid (name0 :: args) =
  let c := get_conn st cid in
  match args, c_queue c with
  | _ :: _, _ => mkOut (flag_tx st cid c) argerr false
  | [], None => mkOut st (err "ERR EXEC without MULTI") false
  | [], Some q =>
    if c_qerr c then
      mkOut (set_conn st cid (reset_tx c)) (err "EXECABORT Transaction discarded because of previous errors.") false
    else if watch_dirty now st (c_watch c) then
      mkOut (set_conn st cid (reset_tx c)) RNil false
    else
      let st1 := set_conn st cid (reset_tx c) in
      let '(st2, rs) := exec_queue now st1 cid q in
      mkOut st2 (RArr rs) false
  end.
Proof. intros H. unfold step. cbv beta iota zeta. rewrite H. reflexivity. Qed.


Definition is_err (r : resp) : bool := match r with RErr _ => true | _ => false end.

Lemma step_watch_eq now st cid name0 args :
  lower name0 = s2b "watch" ->
  step now st cid (name0 :: args) =
  let c := get_conn st cid in
  match c_queue c with
  | Some _ =>
    match args with
    | [] => mkOut (flag_tx st cid c) argerr false
    | _ => mkOut st (err "ERR WATCH inside MULTI is not allowed") false
    end
  | None =>
    match args with
    | [] => mkOut st argerr false
    | _ =>
      let d := get_db st (c_sel c) in
      let ws := map (fun k => (c_sel c, k, ver_of now d k)) args in
      mkOut (set_conn st cid (mkConn (c_sel c) (c_resp c) (c_name c) None (c_qerr c)
                              (ws ++ filter (fun w => let '(i, k, _) := w in
                                               negb (N.eqb i (c_sel c) && mem_bytes k args)) (c_watch c)))) ok false
    end
  end.
Proof. intros H. unfold step. cbv beta iota zeta. rewrite H. reflexivity. Qed.

Lemma tx_control_cases name :
  is_tx_control name = true ->
  name = s2b "multi" \/ name = s2b "exec" \/ name = s2b "discard" \/ name = s2b "watch".
Proof.
  unfold is_tx_control. cbv beta zeta. intro H.
  apply orb_true_iff in H as [H|H4]; [|apply bytes_eqb_eq in H4; auto].
  apply orb_true_iff in H as [H|H3]; [|apply bytes_eqb_eq in H3; auto].
  apply orb_true_iff in H as [H1|H2]; [apply bytes_eqb_eq in H1 | apply bytes_eqb_eq in H2]; auto.
Qed.

Lemma tx_control_known name : is_tx_control name = true -> known_cmd name = true.
Proof.
  intro H. apply tx_control_cases in H as [H|[H|[H|H]]]; subst name; vm_compute; reflexivity.
Qed.

Lemma run_plain_session_eq now st cid name args b :
  data_cmd name = None -> blocking_cmd name = None ->
  run_plain now st cid name args b =
  match session_cmd now st cid name args with
  | Some (st', r) => mkOut st' r false
  | None => mkOut st unknown_cmd false
  end.
Proof. intros H1 H2. unfold run_plain. rewrite H1, H2. reflexivity. Qed.

(* a step of connection cid leaves every other session as it was *)
Lemma step_other_conn now st cid cmd c2 :
  c2 <> cid -> get_conn (o_st (step now st cid cmd)) c2 = get_conn st c2.
Proof.
  intro Hne. destruct cmd as [|name0 args]; [reflexivity|].
  destruct (known_cmd (lower name0)) eqn:Hk.
  2:{ rewrite (step_unknown_eq now st cid name0 args Hk). cbv zeta.
      destruct (c_queue (get_conn st cid)); cbn [o_st]; [|reflexivity].
      apply get_conn_set_conn_other; assumption. }
  destruct (is_tx_control (lower name0)) eqn:Ht.
  - apply tx_control_cases in Ht as [Hn|[Hn|[Hn|Hn]]].
    + rewrite (step_multi_eq now st cid name0 args Hn). cbv zeta.
      destruct args; destruct (c_queue (get_conn st cid)); cbn [o_st];
        first [apply flag_tx_other_conn; assumption | reflexivity | idtac].
      apply get_conn_set_conn_other; assumption.
    + rewrite (step_exec_eq now st cid name0 args Hn). cbv zeta.
      destruct args; [|cbn [o_st]; apply flag_tx_other_conn; assumption].
      destruct (c_queue (get_conn st cid)) as [q|]; [|reflexivity].
      destruct (c_qerr (get_conn st cid)).
      { cbn [o_st]. apply get_conn_set_conn_other; assumption. }
      destruct (watch_dirty now st (c_watch (get_conn st cid))).
      { cbn [o_st]. apply get_conn_set_conn_other; assumption. }
      pose proof (exec_queue_other_conn cid q now (set_conn st cid (reset_tx (get_conn st cid))) c2 Hne) as H.
      destruct (exec_queue now (set_conn st cid (reset_tx (get_conn st cid))) cid q) as [st2 rs].
      cbn [o_st fst] in *. rewrite H. apply get_conn_set_conn_other; assumption.
    + rewrite (step_discard_eq now st cid name0 args Hn). cbv zeta.
      destruct args; destruct (c_queue (get_conn st cid)); cbn [o_st];
        first [apply flag_tx_other_conn; assumption | reflexivity | idtac].
      apply get_conn_set_conn_other; assumption.
    + rewrite (step_watch_eq now st cid name0 args Hn). cbv zeta.
      destruct (c_queue (get_conn st cid)).
      { destruct args; cbn [o_st]; [apply flag_tx_other_conn; assumption | reflexivity]. }
      destruct args; cbn [o_st]; [reflexivity|].
      apply get_conn_set_conn_other; assumption.
  - rewrite (step_plain_eq now st cid name0 args Hk Ht). cbv zeta.
    destruct (c_queue (get_conn st cid)) as [q|].
    + destruct (is_argerr _); cbn [o_st]; apply get_conn_set_conn_other; assumption.
    + eapply shape_other_conn; [apply run_plain_shape | assumption].
Qed.

(* ================================================================== *)
(* C14 — sixteen independent databases, private sessions               *)
(* ================================================================== *)

(* ---------- 1. sessions are private ---------- *)
(* no command of connection cid changes anything of another connection's session:
   selected db, protocol version, name, MULTI queue, queue-error flag, watched keys *)
Theorem C14_session_private now st cid cmd c2 :
  c2 <> cid -> get_conn (o_st (step now st cid cmd)) c2 = get_conn st c2.
Proof. apply step_other_conn. Qed.
Print Assumptions C14_session_private.

(* closing a connection forgets exactly that session *)
Theorem C14_close_private st cid c2 :
  get_conn (close_conn st cid) cid = conn0 /\
  (c2 <> cid -> get_conn (close_conn st cid) c2 = get_conn st c2) /\
  s_dbs (close_conn st cid) = s_dbs st.
Proof.
  split; [apply get_conn_close_same|]. split; [apply get_conn_close_other | reflexivity].
Qed.

Example C14_close_example :
  let s1 := o_st (step 0 state0 1 [s2b "SELECT"; s2b "3"]) in
  let s2 := o_st (step 0 s1 2 [s2b "SELECT"; s2b "4"]) in
  get_conn (close_conn s2 1) 1 = conn0 /\ c_sel (get_conn (close_conn s2 1) 2) = 4%N.
Proof. vm_compute. repeat split. Qed.

Example C14_session_private_example :
  (* connection 1: SELECT 3, HELLO 3, CLIENT SETNAME, WATCH, MULTI + one queued command;
     connection 2 is still a pristine session and vice versa *)
  let s1 := o_st (step 0 state0 1 [s2b "SELECT"; s2b "3"]) in
  let s2 := o_st (step 0 s1 1 [s2b "HELLO"; s2b "3"]) in
  let s3 := o_st (step 0 s2 1 [s2b "CLIENT"; s2b "SETNAME"; s2b "me"]) in
  let s4 := o_st (step 0 s3 1 [s2b "WATCH"; s2b "k"]) in
  let s5 := o_st (step 0 s4 1 [s2b "MULTI"]) in
  let s6 := o_st (step 0 s5 1 [s2b "GET"; s2b "k"]) in
  let s7 := o_st (step 0 s6 2 [s2b "SET"; s2b "k"; s2b "v"]) in
  get_conn s6 1 = mkConn 3 3 (s2b "me") (Some [[s2b "GET"; s2b "k"]]) false [(3%N, s2b "k", 0%N)] /\
  get_conn s6 2 = conn0 /\ get_conn s7 1 = get_conn s6 1 /\
  (* connection 2 wrote db 0, not db 3 *)
  lookup 0 (get_db s7 3) (s2b "k") = None /\
  lookup 0 (get_db s7 0) (s2b "k") = Some (mkE (VStr (s2b "v")) None 1).
Proof. vm_compute. repeat split. Qed.

(* ---------- 2. a command touches only the selected database ---------- *)
Lemma data_known name f : data_cmd name = Some f -> known_cmd name = true.
Proof. intro H. unfold known_cmd. rewrite H. reflexivity. Qed.

Lemma data_not_tx name f : data_cmd name = Some f -> is_tx_control name = false.
Proof.
  intro H. destruct (is_tx_control name) eqn:E; [|reflexivity].
  apply tx_control_cases in E as [E|[E|[E|E]]]; subst name; vm_compute in H; discriminate H.
Qed.

Lemma blocking_names name f :
  blocking_cmd name = Some f ->
  name = s2b "blpop" \/ name = s2b "brpop" \/ name = s2b "blmove" \/
  name = s2b "brpoplpush" \/ name = s2b "blmpop".
Proof.
  unfold blocking_cmd. cbv beta zeta.
  destruct (bytes_eqb name (s2b "blpop")) eqn:E1; [apply bytes_eqb_eq in E1; auto|].
  destruct (bytes_eqb name (s2b "brpop")) eqn:E2; [apply bytes_eqb_eq in E2; auto|].
  destruct (bytes_eqb name (s2b "blmove")) eqn:E3; [apply bytes_eqb_eq in E3; auto|].
  destruct (bytes_eqb name (s2b "brpoplpush")) eqn:E4; [apply bytes_eqb_eq in E4; auto 6|].
  destruct (bytes_eqb name (s2b "blmpop")) eqn:E5; [apply bytes_eqb_eq in E5; auto 6|].
  discriminate.
Qed.

Lemma blocking_facts name f :
  blocking_cmd name = Some f ->
  data_cmd name = None /\ known_cmd name = true /\ is_tx_control name = false.
Proof.
  intro H. apply blocking_names in H as [H|[H|[H|[H|H]]]]; subst name; vm_compute; auto.
Qed.

(* a data command outside MULTI: the reply and the new content of the selected database are
   the command function applied to the selected database alone; every other database and
   every session is untouched *)
Theorem C14_frame now st cid name0 args f :
  c_queue (get_conn st cid) = None ->
  data_cmd (lower name0) = Some f ->
  let i := c_sel (get_conn st cid) in
  let o := step now st cid (name0 :: args) in
  get_db (o_st o) i = fst (f now (get_db st i) args) /\
  (forall j, j <> i -> get_db (o_st o) j = get_db st j) /\
  o_reply o = snd (f now (get_db st i) args) /\
  s_conns (o_st o) = s_conns st /\
  o_block o = false.
Proof.
  intros Hq Hd. cbv zeta.
  rewrite (step_plain_eq now st cid name0 args (data_known _ _ Hd) (data_not_tx _ _ Hd)). cbv zeta.
  rewrite Hq. unfold run_plain. rewrite Hd.
  destruct (f now (get_db st (c_sel (get_conn st cid))) args) as [d' r].
  cbn [o_st o_reply o_block fst snd]. repeat split.
  - apply get_db_set_db_same.
  - intros j Hj. apply get_db_set_db_other; assumption.
Qed.
Print Assumptions C14_frame.

(* blocking commands (BLPOP, BRPOP, BLMOVE, BRPOPLPUSH, BLMPOP) outside MULTI: same frame;
   when the non-blocking equivalent answers nil the command blocks and nothing is written *)
Theorem C14_frame_blocking now st cid name0 args f :
  c_queue (get_conn st cid) = None ->
  blocking_cmd (lower name0) = Some f ->
  let i := c_sel (get_conn st cid) in
  let o := step now st cid (name0 :: args) in
  let d' := fst (f now (get_db st i) args) in
  let r := snd (f now (get_db st i) args) in
  (r = RNil -> o_st o = st /\ o_block o = true) /\
  (r <> RNil -> get_db (o_st o) i = d' /\ o_block o = false) /\
  (forall j, j <> i -> get_db (o_st o) j = get_db st j) /\
  o_reply o = r /\
  s_conns (o_st o) = s_conns st.
Proof.
  intros Hq Hb. cbv zeta.
  destruct (blocking_facts _ _ Hb) as (Hd & Hk & Ht).
  rewrite (step_plain_eq now st cid name0 args Hk Ht). cbv zeta.
  rewrite Hq. unfold run_plain. rewrite Hd, Hb.
  destruct (f now (get_db st (c_sel (get_conn st cid))) args) as [d' r].
  destruct r; cbn [o_st o_reply o_block fst snd negb]; repeat split;
    try congruence; try (intros; apply get_db_set_db_same);
    try (intros j Hj; apply get_db_set_db_other; assumption).
Qed.
Print Assumptions C14_frame_blocking.

Example C14_frame_example :
  let s1 := o_st (step 0 state0 1 [s2b "SELECT"; s2b "5"]) in
  let o := step 0 s1 1 [s2b "rpush"; s2b "l"; s2b "a"; s2b "b"] in
  data_cmd (lower (s2b "rpush")) = Some (cmd_push false false) /\
  o_reply o = RInt 2 /\
  lookup 0 (get_db (o_st o) 5) (s2b "l") = Some (mkE (VList [s2b "a"; s2b "b"]) None 1) /\
  s_dbs (o_st o) = [(5%N, fst (cmd_push false false 0 empty_db [s2b "l"; s2b "a"; s2b "b"]))] /\
  (* BLPOP on the empty db 0 by another connection would block and writes nothing *)
  step 0 (o_st o) 2 [s2b "BLPOP"; s2b "l"; s2b "0"] = mkOut (o_st o) RNil true /\
  step 0 (o_st o) 1 [s2b "BLPOP"; s2b "l"; s2b "0"] =
    mkOut (set_db (o_st o) 5 (fst (cmd_pop true 0 (get_db (o_st o) 5) [s2b "l"])))
          (RArr [RBulk (s2b "l"); RBulk (s2b "a")]) false.
Proof. vm_compute. repeat split. Qed.

(* every command except FLUSHALL and EXEC (which may run a queued SELECT/FLUSHALL), in or out
   of MULTI, known or unknown, leaves all databases but the selected one untouched *)
Theorem C14_only_selected_db now st cid name0 args j :
  lower name0 <> s2b "flushall" -> lower name0 <> s2b "exec" ->
  j <> c_sel (get_conn st cid) ->
  get_db (o_st (step now st cid (name0 :: args))) j = get_db st j.
Proof.
  intros Hnf Hne Hj.
  destruct (known_cmd (lower name0)) eqn:Hk.
  2:{ rewrite (step_unknown_eq now st cid name0 args Hk). cbv zeta.
      destruct (c_queue (get_conn st cid)); reflexivity. }
  destruct (is_tx_control (lower name0)) eqn:Ht.
  - apply tx_control_cases in Ht as [Hn|[Hn|[Hn|Hn]]].
    + rewrite (step_multi_eq now st cid name0 args Hn). cbv zeta.
      destruct args; destruct (c_queue (get_conn st cid)); cbn [o_st]; rewrite ?get_db_flag_tx; reflexivity.
    + contradiction.
    + rewrite (step_discard_eq now st cid name0 args Hn). cbv zeta.
      destruct args; destruct (c_queue (get_conn st cid)); cbn [o_st]; rewrite ?get_db_flag_tx; reflexivity.
    + rewrite (step_watch_eq now st cid name0 args Hn). cbv zeta.
      destruct (c_queue (get_conn st cid)); destruct args; cbn [o_st]; rewrite ?get_db_flag_tx; reflexivity.
  - rewrite (step_plain_eq now st cid name0 args Hk Ht). cbv zeta.
    destruct (c_queue (get_conn st cid)) as [q|].
    + destruct (is_argerr _); reflexivity.
    + eapply shape_other_db; [apply run_plain_shape | assumption | assumption].
Qed.
Print Assumptions C14_only_selected_db.

(* ---------- 5. the same key name in two databases ---------- *)
Theorem C14_same_name_independent now now' st cid name0 args j k :
  lower name0 <> s2b "flushall" -> lower name0 <> s2b "exec" ->
  j <> c_sel (get_conn st cid) ->
  lookup now' (get_db (o_st (step now st cid (name0 :: args))) j) k = lookup now' (get_db st j) k.
Proof. intros H1 H2 H3. rewrite C14_only_selected_db by assumption. reflexivity. Qed.
Print Assumptions C14_same_name_independent.

Example C14_same_name_example :
  (* k = "a" in db 0, then connection 2 on db 1 sets and deletes k: db 0 still has "a" *)
  let s1 := o_st (step 0 state0 1 [s2b "SET"; s2b "k"; s2b "a"]) in
  let s2 := o_st (step 0 s1 2 [s2b "SELECT"; s2b "1"]) in
  let s3 := o_st (step 0 s2 2 [s2b "SET"; s2b "k"; s2b "b"]) in
  let s4 := o_st (step 0 s3 2 [s2b "DEL"; s2b "k"]) in
  o_reply (step 0 s3 1 [s2b "GET"; s2b "k"]) = RBulk (s2b "a") /\
  o_reply (step 0 s3 2 [s2b "GET"; s2b "k"]) = RBulk (s2b "b") /\
  o_reply (step 0 s4 1 [s2b "GET"; s2b "k"]) = RBulk (s2b "a") /\
  o_reply (step 0 s4 2 [s2b "GET"; s2b "k"]) = RNil.
Proof. vm_compute. repeat split. Qed.

(* ---------- 3. SELECT ---------- *)
Lemma step_session_eq now st cid name0 name args :
  lower name0 = name -> known_cmd name = true -> is_tx_control name = false ->
  data_cmd name = None -> blocking_cmd name = None ->
  c_queue (get_conn st cid) = None ->
  step now st cid (name0 :: args) =
  match session_cmd now st cid name args with
  | Some (st', r) => mkOut st' r false
  | None => mkOut st unknown_cmd false
  end.
Proof.
  intros Hn Hk Ht Hd Hb Hq. subst name.
  rewrite (step_plain_eq now st cid name0 args Hk Ht). cbv zeta. rewrite Hq.
  apply run_plain_session_eq; assumption.
Qed.

Ltac session_step Hn Hq :=
  rewrite (step_session_eq _ _ _ _ _ _ Hn
             ltac:(vm_compute; reflexivity) ltac:(vm_compute; reflexivity)
             ltac:(vm_compute; reflexivity) ltac:(vm_compute; reflexivity) Hq).

Lemma session_select_eq now st cid args :
  session_cmd now st cid (s2b "select") args =
  let c := get_conn st cid in
  Some (match args with
        | [i] => match parse_i64 i with
                 | Some i => if (0 <=? i) && (i <=? 15)
                             then (set_conn st cid (mkConn (Z.to_N i) (c_resp c) (c_name c) (c_queue c) (c_qerr c) (c_watch c)), ok)
                             else (st, err "ERR DB index is out of range")
                 | None => (st, argerr)
                 end
        | _ => (st, argerr)
        end).
Proof. reflexivity. Qed.

Theorem C14_select now st cid name0 i :
  lower name0 = s2b "select" ->
  c_queue (get_conn st cid) = None ->
  let c := get_conn st cid in
  let o := step now st cid [name0; i] in
  (forall n, parse_i64 i = Some n -> 0 <= n <= 15 ->
     o_reply o = ok /\
     o_st o = set_conn st cid (mkConn (Z.to_N n) (c_resp c) (c_name c) (c_queue c) (c_qerr c) (c_watch c)) /\
     get_conn (o_st o) cid = mkConn (Z.to_N n) (c_resp c) (c_name c) (c_queue c) (c_qerr c) (c_watch c) /\
     s_dbs (o_st o) = s_dbs st /\
     (forall c2, c2 <> cid -> get_conn (o_st o) c2 = get_conn st c2)) /\
  (forall n, parse_i64 i = Some n -> ~ (0 <= n <= 15) ->
     o_reply o = err "ERR DB index is out of range" /\ o_st o = st) /\
  (parse_i64 i = None -> o_reply o = argerr /\ o_st o = st) /\
  o_block o = false.
Proof.
  intros Hn Hq. cbv zeta. session_step Hn Hq. rewrite session_select_eq. cbv zeta.
  destruct (parse_i64 i) as [n|].
  - destruct ((0 <=? n) && (n <=? 15)) eqn:Er.
    + apply andb_true_iff in Er as [E1 E2]. apply Z.leb_le in E1, E2.
      cbn [o_st o_reply o_block]. split; [|split; [|split]].
      * intros n' Hn' Hr. injection Hn' as <-.
        split; [reflexivity|]. split; [reflexivity|]. split; [apply get_conn_set_conn_same|].
        split; [reflexivity|]. intros c2 Hc2. apply get_conn_set_conn_other; assumption.
      * intros n' Hn' Hr. injection Hn' as <-. lia.
      * discriminate.
      * reflexivity.
    + cbn [o_st o_reply o_block].
      assert (Hout : ~ (0 <= n <= 15)).
      { intros [H1 H2]. apply Z.leb_le in H1, H2. rewrite H1, H2 in Er. discriminate Er. }
      split; [|split; [|split]].
      * intros n' Hn' Hr. injection Hn' as <-. contradiction.
      * intros n' Hn' Hr. split; reflexivity.
      * discriminate.
      * reflexivity.
  - cbn [o_st o_reply o_block]. split; [|split; [|split]]; try discriminate.
    + intros _. split; reflexivity.
    + reflexivity.
Qed.
Print Assumptions C14_select.

(* wrong number of arguments *)
Lemma C14_select_arity now st cid name0 args :
  lower name0 = s2b "select" -> c_queue (get_conn st cid) = None -> length args <> 1%nat ->
  step now st cid (name0 :: args) = mkOut st argerr false.
Proof.
  intros Hn Hq Hl. session_step Hn Hq. rewrite session_select_eq. cbv zeta.
  destruct args as [|a [|b r]]; try reflexivity. cbn in Hl. congruence.
Qed.

(* the decimal text of 0..15 parses back *)
Lemma parse_small n : 0 <= n <= 15 -> parse_i64 (Z_to_bytes n) = Some n.
Proof.
  intro H.
  assert (E : n = 0 \/ n = 1 \/ n = 2 \/ n = 3 \/ n = 4 \/ n = 5 \/ n = 6 \/ n = 7 \/ n = 8 \/
              n = 9 \/ n = 10 \/ n = 11 \/ n = 12 \/ n = 13 \/ n = 14 \/ n = 15) by lia.
  repeat (destruct E as [E|E]; [subst n; vm_compute; reflexivity|]).
  subst n; vm_compute; reflexivity.
Qed.

Corollary C14_select_decimal now st cid name0 n :
  lower name0 = s2b "select" -> c_queue (get_conn st cid) = None -> 0 <= n <= 15 ->
  let c := get_conn st cid in
  let o := step now st cid [name0; Z_to_bytes n] in
  o_reply o = ok /\
  get_conn (o_st o) cid = mkConn (Z.to_N n) (c_resp c) (c_name c) (c_queue c) (c_qerr c) (c_watch c) /\
  s_dbs (o_st o) = s_dbs st /\
  (forall c2, c2 <> cid -> get_conn (o_st o) c2 = get_conn st c2).
Proof.
  intros Hn Hq Hr. cbv zeta.
  destruct (C14_select now st cid name0 (Z_to_bytes n) Hn Hq) as (H & _). cbv zeta in H.
  destruct (H n (parse_small n Hr) Hr) as (H1 & _ & H3 & H4 & H5). auto.
Qed.
Print Assumptions C14_select_decimal.

(* a connection never seen before is db 0, RESP2, no name, not in MULTI, no watches *)
Theorem C14_new_connection st cid :
  nget (s_conns st) cid = None ->
  get_conn st cid = mkConn 0 2 [] None false [].
Proof. apply get_conn_fresh. Qed.

Example C14_select_example :
  step 0 state0 1 [s2b "SeLeCt"; s2b "15"] = mkOut (set_conn state0 1 (mkConn 15 2 [] None false [])) ok false /\
  step 0 state0 1 [s2b "select"; s2b "16"] = mkOut state0 (err "ERR DB index is out of range") false /\
  step 0 state0 1 [s2b "select"; s2b "-1"] = mkOut state0 (err "ERR DB index is out of range") false /\
  step 0 state0 1 [s2b "select"; s2b "x"] = mkOut state0 argerr false /\
  get_conn state0 1 = conn0.
Proof. vm_compute. repeat split. Qed.

(* ---------- 4. FLUSHDB / FLUSHALL ---------- *)
Lemma session_flushdb_eq now st cid args :
  session_cmd now st cid (s2b "flushdb") args =
  let c := get_conn st cid in
  Some (match args with
        | [] | [_] => (set_db st (c_sel c) (flush_db (get_db st (c_sel c))), ok)
        | _ => (st, argerr) end).
Proof. reflexivity. Qed.

Lemma session_flushall_eq now st cid args :
  session_cmd now st cid (s2b "flushall") args =
  Some (match args with
        | [] | [_] => (flush_all st, ok)
        | _ => (st, argerr) end).
Proof. reflexivity. Qed.

Theorem C14_flushdb_exact now st cid name0 args :
  lower name0 = s2b "flushdb" ->
  c_queue (get_conn st cid) = None ->
  (length args <= 1)%nat ->
  let i := c_sel (get_conn st cid) in
  let o := step now st cid (name0 :: args) in
  o_reply o = ok /\
  d_map (get_db (o_st o) i) = [] /\
  (forall now', keys_live now' (get_db (o_st o) i) = []) /\
  (forall j, j <> i -> get_db (o_st o) j = get_db st j) /\
  s_conns (o_st o) = s_conns st /\
  o_block o = false.
Proof.
  intros Hn Hq Hl. cbv zeta. session_step Hn Hq. rewrite session_flushdb_eq. cbv zeta.
  destruct args as [|a [|b r]]; [ | | cbn in Hl; lia]; cbv beta iota zeta;
    cbn [o_st o_reply o_block]; rewrite get_db_set_db_same;
    (repeat split; intros j Hj; apply get_db_set_db_other; assumption).
Qed.
Print Assumptions C14_flushdb_exact.

Theorem C14_flushall_all now st cid name0 args :
  lower name0 = s2b "flushall" ->
  c_queue (get_conn st cid) = None ->
  (length args <= 1)%nat ->
  let o := step now st cid (name0 :: args) in
  o_reply o = ok /\
  (forall i, d_map (get_db (o_st o) i) = []) /\
  (forall now' i, keys_live now' (get_db (o_st o) i) = []) /\
  s_conns (o_st o) = s_conns st /\
  o_block o = false.
Proof.
  intros Hn Hq Hl. cbv zeta. session_step Hn Hq. rewrite session_flushall_eq.
  destruct args as [|a [|b r]]; [ | | cbn in Hl; lia]; cbv beta iota zeta;
    cbn [o_st o_reply o_block].
  all: split; [reflexivity|]; split; [intro i; apply d_map_get_db_flush_all|].
  all: split; [|split; reflexivity].
  all: intros now' i; unfold keys_live, live; rewrite d_map_get_db_flush_all; reflexivity.
Qed.
Print Assumptions C14_flushall_all.

Example C14_flush_example :
  let s1 := o_st (step 0 state0 1 [s2b "SET"; s2b "k"; s2b "a"]) in
  let s2 := o_st (step 0 s1 2 [s2b "SELECT"; s2b "1"]) in
  let s3 := o_st (step 0 s2 2 [s2b "SET"; s2b "k"; s2b "b"]) in
  let f1 := o_st (step 0 s3 2 [s2b "FLUSHDB"]) in
  let f2 := o_st (step 0 s3 2 [s2b "FLUSHALL"; s2b "SYNC"]) in
  keys_live 0 (get_db s3 0) = [s2b "k"] /\ keys_live 0 (get_db s3 1) = [s2b "k"] /\
  keys_live 0 (get_db f1 0) = [s2b "k"] /\ keys_live 0 (get_db f1 1) = [] /\
  keys_live 0 (get_db f2 0) = [] /\ keys_live 0 (get_db f2 1) = [] /\
  get_conn f2 2 = get_conn s3 2.
Proof. vm_compute. repeat split. Qed.
