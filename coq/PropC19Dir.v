(* PropC19Dir.v — DURABILITY, directory level (model: PersistDir.v on top of Persist.v).

   The start-up loader walks the persist directory and loads every file whose name is
   "<base>.db<int32>"; the save of all databases writes each dirty database through a temporary
   file "<base>.db<n>.tmp" that is renamed over "<base>.db<n>".

   A. file names
     C19_index_of_db_file      file_index base (db_file base n) = Some n            (n <= 2^31-1)
     C19_tmp_not_picked        file_index base (tmp_file base n) = None             (every n)
     C19_index_shape           file_index = Some z  ->  name = file_base ++ rest, parse_i32 rest = Some z
     C19_index_needs_prefix    names that do not start with file_base are not picked
     C19_db_file_inj           db_file base is injective
     C19_tmp_ne_db             a temporary name is never a snapshot name (any two indexes)
   B. the walk ignores what is not a snapshot of this emulator
     C19_subdir_ignored, C19_foreign_ignored, C19_tmp_ignored
   C. start-up from a well-formed directory
     C19_boot_spec             any directory whose picked files are in range, loadable and of pairwise
                               distinct index: database z starts with THE file of index z (order free)
     good_dir base s img       every file of s is foreign or a complete snapshot <base>.db<n>, n <= 15,
                               of img n; every database of img has its file (C19_good_dir_ex)
     C19_boot_good(_N)         such a directory boots; index z starts as clean (img z) or empty
     C19_boot_order_independent  ... whatever the walk order
   D. crash atomicity across databases  (good_fs = good_dir + no name twice)
     C19_save_prefix_good      the invariant survives ANY prefix of the save of one database: old
                               image before the rename (whatever the temporary file holds), new after
     C19_crash_atomic_all_dbs  MAIN: after a crash anywhere in the save of database n the start-up does
                               not panic, every other index starts as before, n as before or as new
     C19_save_db_completes, C19_crash_before_rename, C19_crash_then_retry_dir
     C19_save_all_prefix_good, C19_crash_atomic_save_all
                               the same for a crash anywhere in the save of ALL databases (any order,
                               no distinctness needed): every index starts as before or as one of
                               its new contents
     C19_save_all_completes    the complete save of all databases (distinct indexes)
   (PersistDir.v must be compiled before this file: coqc -Q . RE PersistDir.v)                *)
From RE Require Import Base State Lemmas Persist PersistDir PropC01 PropC19.
From Coq Require Import String List ZArith NArith Lia Bool Permutation.
Import ListNotations.
Open Scope string_scope.
Open Scope list_scope.
Open Scope Z_scope.

(* ================================================================== *)
(* A. file names                                                       *)
(* ================================================================== *)
Lemma strip_prefix_app p r : strip_prefix p (p ++ r) = Some r.
Proof.
  induction p as [|x p IH]; cbn [strip_prefix app]; [reflexivity|].
  rewrite N.eqb_refl. exact IH.
Qed.

Lemma strip_prefix_some p : forall s r, strip_prefix p s = Some r -> s = p ++ r.
Proof.
  induction p as [|x p IH]; intros s r H; cbn [strip_prefix] in H.
  - injection H as <-. reflexivity.
  - destruct s as [|y s]; [discriminate|].
    destruct (N.eqb_spec x y) as [->|_]; [|discriminate].
    cbn [app]. f_equal. apply IH. exact H.
Qed.

Lemma file_index_app base rest : file_index base (file_base base ++ rest) = parse_i32 rest.
Proof. unfold file_index. rewrite strip_prefix_app. reflexivity. Qed.

Lemma db_file_index base n : file_index base (db_file base n) = parse_i32 (N_to_bytes n).
Proof. unfold db_file. apply file_index_app. Qed.

(* THEOREM A1.  The loader recognises the name the saver writes, with the right index. *)
Theorem C19_index_of_db_file : forall base n,
  (n <= 2147483647)%N -> file_index base (db_file base n) = Some (Z.of_N n).
Proof.
  intros base n Hn. rewrite db_file_index. unfold parse_i32.
  rewrite C01_dec_parse by (unfold max_i64; lia).
  replace (-2147483648 <=? Z.of_N n) with true by (symmetry; apply Z.leb_le; lia).
  replace (Z.of_N n <=? 2147483647) with true by (symmetry; apply Z.leb_le; lia).
  reflexivity.
Qed.
Print Assumptions C19_index_of_db_file.

Lemma bytes_uint_nondigit l c r : is_digit c = false -> bytes_uint (l ++ c :: r) = None.
Proof.
  intro Hc. induction l as [|x l IH]; cbn [app bytes_uint].
  - rewrite Hc. reflexivity.
  - destruct (is_digit x); [|reflexivity]. rewrite IH. reflexivity.
Qed.

Lemma parse_udec_nondigit l c r : is_digit c = false -> parse_udec (l ++ c :: r) = None.
Proof.
  intro Hc. unfold parse_udec. rewrite bytes_uint_nondigit by exact Hc.
  destruct (l ++ c :: r); reflexivity.
Qed.

(* digits followed by anything that contains a non-digit are not an integer *)
Lemma parse_i64_digit_none d r : is_digit d = true -> parse_udec (d :: r) = None -> parse_i64 (d :: r) = None.
Proof. intros Hd Hu. rewrite parse_i64_digit by exact Hd. rewrite Hu. reflexivity. Qed.

Lemma parse_i64_dec_suffix n c r : is_digit c = false -> parse_i64 (N_to_bytes n ++ c :: r) = None.
Proof.
  intro Hc. destruct (dec_first_digit n) as [d [t [E Hd]]]. rewrite E.
  apply parse_i64_digit_none; [exact Hd|].
  apply (parse_udec_nondigit (d :: t)). exact Hc.
Qed.

Lemma parse_i32_dec_suffix n c r : is_digit c = false -> parse_i32 (N_to_bytes n ++ c :: r) = None.
Proof. intro Hc. unfold parse_i32. rewrite parse_i64_dec_suffix by exact Hc. reflexivity. Qed.

(* THEOREM A2.  A temporary file is never taken for a snapshot, whatever the index. *)
Theorem C19_tmp_not_picked : forall base n, file_index base (tmp_file base n) = None.
Proof.
  intros base n. unfold tmp_file, db_file. rewrite <- app_assoc, file_index_app.
  change (s2b ".tmp") with (46%N :: s2b "tmp"). apply parse_i32_dec_suffix. reflexivity.
Qed.
Print Assumptions C19_tmp_not_picked.

(* THEOREM A3.  Only names of the shape <base>.db<int32> are picked. *)
Theorem C19_index_shape : forall base name z,
  file_index base name = Some z ->
  exists rest, name = file_base base ++ rest /\ parse_i32 rest = Some z.
Proof.
  intros base name z H. unfold file_index in H.
  destruct (strip_prefix (file_base base) name) as [rest|] eqn:E; [|discriminate].
  exists rest. split; [apply strip_prefix_some; exact E | exact H].
Qed.
Print Assumptions C19_index_shape.

Corollary C19_index_needs_prefix : forall base name,
  (forall rest, name <> file_base base ++ rest) -> file_index base name = None.
Proof.
  intros base name H. destruct (file_index base name) as [z|] eqn:E; [|reflexivity].
  apply C19_index_shape in E as [rest [E _]]. exfalso. exact (H rest E).
Qed.

Lemma parse_i32_range rest z : parse_i32 rest = Some z -> -2147483648 <= z <= 2147483647.
Proof.
  unfold parse_i32. destruct (parse_i64 rest) as [y|]; [|discriminate].
  destruct ((-2147483648 <=? y) && (y <=? 2147483647)) eqn:E; [|discriminate].
  intro H. injection H as <-. apply andb_true_iff in E as [E1 E2].
  apply Z.leb_le in E1. apply Z.leb_le in E2. lia.
Qed.

Lemma N_to_bytes_inj n m : N_to_bytes n = N_to_bytes m -> n = m.
Proof.
  intro H. pose proof (parse_udec_N n) as Hn. rewrite H, parse_udec_N in Hn. congruence.
Qed.

(* THEOREM A4.  Different databases have different files, and no temporary name of any database
   coincides with a snapshot name of any database. *)
Theorem C19_db_file_inj : forall base n m, db_file base n = db_file base m -> n = m.
Proof.
  intros base n m H. unfold db_file in H. apply app_inv_head in H. apply N_to_bytes_inj. exact H.
Qed.
Print Assumptions C19_db_file_inj.

Theorem C19_tmp_ne_db : forall base n m, tmp_file base n <> db_file base m.
Proof.
  intros base n m H. unfold tmp_file, db_file in H. rewrite <- app_assoc in H.
  apply app_inv_head in H. pose proof (C01_dec_digits m) as Hd. rewrite <- H in Hd.
  apply Forall_app in Hd as [_ Hd]. inversion Hd as [|? ? Hdot _]. vm_compute in Hdot. discriminate.
Qed.
Print Assumptions C19_tmp_ne_db.

Corollary C19_tmp_file_inj : forall base n m, tmp_file base n = tmp_file base m -> n = m.
Proof.
  intros base n m H. unfold tmp_file in H. apply app_inv_tail in H. exact (C19_db_file_inj _ _ _ H).
Qed.

Definition ex_base : bytes := s2b "/data/redis".

(* The names; and what strconv.ParseInt also accepts: a sign and leading zeros, so that
   "<base>.db+3", "<base>.db03" and "<base>.db-0" are loaded as databases 3, 3 and 0 too.
   Index 16 and negative indexes are picked as well (the walk then panics, see below). *)
Example C19_names_ex :
  db_file ex_base 12 = s2b "/data/redis.db12" /\
  tmp_file ex_base 12 = s2b "/data/redis.db12.tmp" /\
  file_index ex_base (s2b "/data/redis.db12") = Some 12 /\
  file_index ex_base (s2b "/data/redis.db12.tmp") = None /\
  file_index ex_base (s2b "/data/redis.db") = None /\
  file_index ex_base (s2b "/data/redis.dbx") = None /\
  file_index ex_base (s2b "/data/other.db1") = None /\
  file_index ex_base (s2b "/data/redis.db2147483647") = Some 2147483647 /\
  file_index ex_base (s2b "/data/redis.db2147483648") = None /\
  file_index ex_base (s2b "/data/redis.db+3") = Some 3 /\
  file_index ex_base (s2b "/data/redis.db03") = Some 3 /\
  file_index ex_base (s2b "/data/redis.db-0") = Some 0 /\
  file_index ex_base (s2b "/data/redis.db16") = Some 16 /\
  file_index ex_base (s2b "/data/redis.db-1") = Some (-1).
Proof. vm_compute. repeat split; reflexivity. Qed.

(* ================================================================== *)
(* B. the walk ignores what is not a snapshot of this emulator         *)
(* ================================================================== *)
Definition skipped (base : bytes) (e : dent) : Prop :=
  e_sub e = true \/ file_index base (e_name e) = None.

Lemma boot_walk_skip base e r acc : skipped base e -> boot_walk base (e :: r) acc = boot_walk base r acc.
Proof.
  intros [H|H]; cbn [boot_walk]; [rewrite H; reflexivity|].
  rewrite H. destruct (e_sub e); reflexivity.
Qed.

Lemma boot_walk_skip_mid base l1 e l2 : skipped base e ->
  forall acc, boot_walk base (l1 ++ e :: l2) acc = boot_walk base (l1 ++ l2) acc.
Proof.
  intro He. induction l1 as [|x l1 IH]; intro acc.
  - cbn [app]. apply boot_walk_skip. exact He.
  - cbn [app boot_walk]. destruct (e_sub x); [apply IH|].
    destruct (file_index base (e_name x)) as [n|]; [|apply IH].
    destruct (load (e_data x)) as [d|]; [|reflexivity].
    destruct (valid_index n); [apply IH | reflexivity].
Qed.

(* THEOREM B1.  Files below a subdirectory never matter, wherever they come in the walk and
   whatever their name and content. *)
Theorem C19_subdir_ignored : forall base l1 e l2 acc,
  e_sub e = true -> boot_walk base (l1 ++ e :: l2) acc = boot_walk base (l1 ++ l2) acc.
Proof. intros base l1 e l2 acc H. apply boot_walk_skip_mid. left. exact H. Qed.
Print Assumptions C19_subdir_ignored.

(* THEOREM B2.  Files whose name is not a snapshot name of this emulator never matter, whatever
   they hold (loadable or not). *)
Theorem C19_foreign_ignored : forall base l1 e l2 acc,
  file_index base (e_name e) = None ->
  boot_walk base (l1 ++ e :: l2) acc = boot_walk base (l1 ++ l2) acc.
Proof. intros base l1 e l2 acc H. apply boot_walk_skip_mid. right. exact H. Qed.
Print Assumptions C19_foreign_ignored.

Corollary C19_tmp_ignored : forall base n l1 e l2 acc,
  e_name e = tmp_file base n ->
  boot_walk base (l1 ++ e :: l2) acc = boot_walk base (l1 ++ l2) acc.
Proof.
  intros base n l1 e l2 acc H. apply C19_foreign_ignored. rewrite H. apply C19_tmp_not_picked.
Qed.
Print Assumptions C19_tmp_ignored.

(* a truncated temporary file of database 0, a subdirectory file with a snapshot name, a foreign
   file: the walk gives what it gives without them *)
Example C19_ignored_ex :
  let good := mkDent false (db_file ex_base 0) (snapshot ex_db) in
  let tmp := mkDent false (tmp_file ex_base 0) (firstn 2 (snapshot ex_new)) in
  let sub := mkDent true (db_file ex_base 0) (snapshot ex_new) in
  let other := mkDent false (s2b "/data/notes.txt") [] in
  boot_dir ex_base [tmp; good; sub; other] = Booted [(0, clean ex_db)] /\
  boot_dir ex_base [sub; other; good; tmp] = boot_dir ex_base [good] /\
  (* without the subdirectory rule the file of the subdirectory would win *)
  boot_dir ex_base [good; mkDent false (db_file ex_base 0) (snapshot ex_new)] = Booted [(0, clean ex_new)].
Proof. vm_compute. repeat split; reflexivity. Qed.

(* ================================================================== *)
(* C. start-up from a well-formed directory                            *)
(* ================================================================== *)
Lemma zget_zset m k v k' : zget (zset m k v) k' = if Z.eqb k' k then Some v else zget m k'.
Proof.
  induction m as [|[k0 v0] m IH]; cbn [zset zget].
  - reflexivity.
  - destruct (Z.eqb_spec k k0) as [->|Hne]; cbn [zget].
    + destruct (Z.eqb k' k0); reflexivity.
    + rewrite IH. destruct (Z.eqb_spec k' k0) as [->|_]; [|reflexivity].
      destruct (Z.eqb_spec k0 k) as [E|_]; [congruence | reflexivity].
Qed.

(* the data of the LAST entry of the walk that is picked with index k *)
Definition picked_as (base : bytes) (k : Z) (e : dent) : bool :=
  negb (e_sub e) && match file_index base (e_name e) with Some z => Z.eqb k z | None => false end.

Fixpoint walk_last (base : bytes) (ents : list dent) (k : Z) : option (list rec) :=
  match ents with
  | [] => None
  | e :: r => match walk_last base r k with
              | Some x => Some x
              | None => if picked_as base k e then Some (e_data e) else None
              end
  end.

(* an entry that cannot stop the walk: skipped, or in range and loadable *)
Definition ent_ok (base : bytes) (e : dent) : Prop :=
  e_sub e = true \/ file_index base (e_name e) = None \/
  exists z d, file_index base (e_name e) = Some z /\ valid_index z = true /\ load (e_data e) = Some d.

Lemma boot_walk_ok base ents : Forall (ent_ok base) ents -> forall acc,
  exists dbs, boot_walk base ents acc = Booted dbs /\
    forall k, zget dbs k = match walk_last base ents k with Some rs => load rs | None => zget acc k end.
Proof.
  induction ents as [|e r IH]; intros H acc.
  - exists acc. split; reflexivity.
  - inversion H as [|? ? He Hr]; subst. specialize (IH Hr).
    assert (Hskip : skipped base e -> exists dbs, boot_walk base (e :: r) acc = Booted dbs /\
      forall k, zget dbs k = match walk_last base (e :: r) k with Some rs => load rs | None => zget acc k end).
    { intro Hs. rewrite boot_walk_skip by exact Hs. destruct (IH acc) as [dbs [Hb Hz]].
      exists dbs. split; [exact Hb|]. intro k. rewrite Hz. cbn [walk_last].
      destruct (walk_last base r k); [reflexivity|].
      replace (picked_as base k e) with false; [reflexivity|].
      unfold picked_as. destruct Hs as [Hs|Hs]; rewrite Hs; [reflexivity|]. symmetry. apply andb_false_r. }
    destruct He as [He|[He|[z [d [Hz [Hv Hl]]]]]]; [apply Hskip; left; exact He | apply Hskip; right; exact He | ].
    destruct (e_sub e) eqn:Hsub; [apply Hskip; left; exact Hsub|].
    cbn [boot_walk]. rewrite Hsub, Hz, Hl, Hv.
    destruct (IH (zset acc z d)) as [dbs [Hb Hg]]. exists dbs. split; [exact Hb|].
    intro k. rewrite Hg. cbn [walk_last]. destruct (walk_last base r k); [reflexivity|].
    unfold picked_as. rewrite Hsub, Hz. cbn [negb andb]. rewrite zget_zset.
    destruct (Z.eqb k z); [symmetry; exact Hl | reflexivity].
Qed.

Lemma walk_last_some base ents k rs : walk_last base ents k = Some rs ->
  exists e, In e ents /\ e_sub e = false /\ file_index base (e_name e) = Some k /\ e_data e = rs.
Proof.
  induction ents as [|e r IH]; cbn [walk_last]; [discriminate|].
  destruct (walk_last base r k) as [x|].
  - intro H. destruct (IH H) as [e' [Hin H']]. exists e'. split; [right; exact Hin | exact H'].
  - destruct (picked_as base k e) eqn:Hp; [|discriminate]. intro H. injection H as <-.
    exists e. split; [left; reflexivity|]. unfold picked_as in Hp.
    apply andb_true_iff in Hp as [H1 H2]. apply negb_true_iff in H1.
    destruct (file_index base (e_name e)) as [z|]; [|discriminate].
    apply Z.eqb_eq in H2. subst z. repeat split; assumption.
Qed.

Lemma walk_last_none base ents k : walk_last base ents k = None ->
  forall e, In e ents -> e_sub e = false -> file_index base (e_name e) <> Some k.
Proof.
  induction ents as [|e r IH]; cbn [walk_last]; intros H e' Hin Hsub Hidx; [contradiction|].
  destruct (walk_last base r k) as [x|] eqn:Hw; [discriminate|].
  destruct (picked_as base k e) eqn:Hp; [discriminate|].
  destruct Hin as [<-|Hin]; [|exact (IH eq_refl e' Hin Hsub Hidx)].
  unfold picked_as in Hp. rewrite Hsub, Hidx, Z.eqb_refl in Hp. discriminate.
Qed.

Lemma in_dir_of_fs s e : In e (dir_of_fs s) ->
  e_sub e = false /\ In (e_name e, e_data e) s.
Proof.
  unfold dir_of_fs. intro H. apply in_map_iff in H as [[name rs] [<- Hin]]. split; [reflexivity | exact Hin].
Qed.

Lemma in_fs_dir s name rs : In (name, rs) s -> In (mkDent false name rs) (dir_of_fs s).
Proof. intro H. unfold dir_of_fs. apply in_map_iff. exists (name, rs). split; [reflexivity | exact H]. Qed.

(* THEOREM (general form).  A directory in which every picked file is in range and loadable boots
   without panic; and if no two picked files have the same index, database z starts with the
   content of THE file of index z, wherever it comes in the walk, and empty when there is none. *)
Definition loadable_dir (base : bytes) (s : fs) : Prop :=
  forall name rs z, In (name, rs) s -> file_index base name = Some z ->
    valid_index z = true /\ exists d, load rs = Some d.
Definition unique_index (base : bytes) (s : fs) : Prop :=
  forall name1 rs1 name2 rs2 z, In (name1, rs1) s -> In (name2, rs2) s ->
    file_index base name1 = Some z -> file_index base name2 = Some z -> rs1 = rs2.

Theorem C19_boot_spec : forall base s,
  loadable_dir base s -> unique_index base s ->
  exists dbs, boot_dir base (dir_of_fs s) = Booted dbs /\
    (forall z name rs, In (name, rs) s -> file_index base name = Some z -> zget dbs z = load rs) /\
    (forall z, (forall name rs, In (name, rs) s -> file_index base name <> Some z) -> zget dbs z = None).
Proof.
  intros base s Hl Hu.
  assert (Hok : Forall (ent_ok base) (dir_of_fs s)).
  { apply Forall_forall. intros e He. apply in_dir_of_fs in He as [_ Hin].
    destruct (file_index base (e_name e)) as [z|] eqn:Hz; [|right; left; exact Hz].
    right; right. destruct (Hl _ _ _ Hin Hz) as [Hv [d Hd]]. exists z, d. repeat split; assumption. }
  destruct (boot_walk_ok base _ Hok []) as [dbs [Hb Hg]]. exists dbs. split; [exact Hb|]. split.
  - intros z name rs Hin Hz. rewrite Hg.
    destruct (walk_last base (dir_of_fs s) z) as [rs'|] eqn:Hw.
    + apply walk_last_some in Hw as [e [He [_ [Hz' <-]]]]. apply in_dir_of_fs in He as [_ Hin'].
      f_equal. exact (Hu _ _ _ _ z Hin' Hin Hz' Hz).
    + exfalso. exact (walk_last_none _ _ _ Hw _ (in_fs_dir _ _ _ Hin) eq_refl Hz).
  - intros z Hno. rewrite Hg. destruct (walk_last base (dir_of_fs s) z) as [rs'|] eqn:Hw; [|reflexivity].
    apply walk_last_some in Hw as [e [He [_ [Hz' _]]]]. apply in_dir_of_fs in He as [_ Hin'].
    exfalso. exact (Hno _ _ Hin' Hz').
Qed.
Print Assumptions C19_boot_spec.

(* The directory the emulator itself leaves behind, described by [img] (database index -> the
   content its snapshot file was written from; None: no file):
     - every file is foreign (not picked: temporary files, other programs' files) or it is the
       snapshot file <base>.db<n> of a database n <= 15 and holds a complete snapshot of img n;
     - every database of img has its file.
   Nothing is assumed about the order of the files, about the content of foreign files, or about
   the uniqueness of names (that is only needed once the directory is written to, see good_fs). *)
Definition good_dir (base : bytes) (s : fs) (img : N -> option db) : Prop :=
  (forall name rs, In (name, rs) s ->
     file_index base name = None \/
     exists n d, (n <= 15)%N /\ name = db_file base n /\ img n = Some d /\ rs = snapshot d) /\
  (forall n d, img n = Some d -> (n <= 15)%N /\ In (db_file base n, snapshot d) s).

(* what database z starts with *)
Definition start_of (img : N -> option db) (z : Z) : db :=
  if valid_index z then match img (Z.to_N z) with Some d => clean d | None => empty_db end else empty_db.

Lemma index_small base n : (n <= 15)%N ->
  file_index base (db_file base n) = Some (Z.of_N n) /\ valid_index (Z.of_N n) = true.
Proof.
  intro Hn. split; [apply C19_index_of_db_file; lia|].
  unfold valid_index. apply andb_true_iff. split; apply Z.leb_le; lia.
Qed.

Lemma valid_index_N z : valid_index z = true -> exists n, (n <= 15)%N /\ z = Z.of_N n.
Proof.
  unfold valid_index. intro H. apply andb_true_iff in H as [H1 H2].
  apply Z.leb_le in H1. apply Z.leb_le in H2. exists (Z.to_N z). split; lia.
Qed.

Lemma good_dir_loadable base s img : good_dir base s img -> loadable_dir base s /\ unique_index base s.
Proof.
  intros [H2 _]. split.
  - intros name rs z Hin Hz. destruct (H2 _ _ Hin) as [E|[n [d [Hn [-> [_ ->]]]]]]; [congruence|].
    destruct (index_small base n Hn) as [Hi Hv]. rewrite Hi in Hz. injection Hz as <-.
    split; [exact Hv|]. exists (clean d). apply C19_roundtrip.
  - intros n1 r1 n2 r2 z Hin1 Hin2 Hz1 Hz2.
    destruct (H2 _ _ Hin1) as [E|[a [d1 [Ha [-> [Hi1 ->]]]]]]; [congruence|].
    destruct (H2 _ _ Hin2) as [E|[b [d2 [Hb [-> [Hi2 ->]]]]]]; [congruence|].
    rewrite (proj1 (index_small base a Ha)) in Hz1. rewrite (proj1 (index_small base b Hb)) in Hz2.
    assert (a = b) by (apply N2Z.inj; congruence). subst b. congruence.
Qed.

(* THEOREM C1.  A well-formed directory boots (no panic, no aborted walk) and EVERY database index
   z starts as the clean copy of the database its file was written from, or empty when it has no
   file (in particular for every z outside 0..15). *)
Theorem C19_boot_good : forall base s img,
  good_dir base s img ->
  exists dbs, boot_dir base (dir_of_fs s) = Booted dbs /\
    forall z, booted_db (Booted dbs) z = Some (start_of img z).
Proof.
  intros base s img Hg. destruct (good_dir_loadable base s img Hg) as [Hl Hu].
  destruct (C19_boot_spec base s Hl Hu) as [dbs [Hb [Hsome Hnone]]].
  exists dbs. split; [exact Hb|]. intro z. cbn [booted_db]. f_equal.
  destruct Hg as [H2 H3]. unfold start_of.
  destruct (valid_index z) eqn:Hv.
  - destruct (valid_index_N z Hv) as [n [Hn ->]]. rewrite N2Z.id.
    destruct (img n) as [d|] eqn:Hi.
    + destruct (H3 n d Hi) as [_ Hin].
      rewrite (Hsome _ _ _ Hin (proj1 (index_small base n Hn))), C19_roundtrip. reflexivity.
    + rewrite Hnone; [reflexivity|]. intros name rs Hin Hz.
      destruct (H2 _ _ Hin) as [E|[m [d [Hm [-> [Hi' _]]]]]]; [congruence|].
      rewrite (proj1 (index_small base m Hm)) in Hz.
      assert (m = n) by (apply N2Z.inj; congruence). subst m. congruence.
  - rewrite Hnone; [reflexivity|]. intros name rs Hin Hz.
    destruct (H2 _ _ Hin) as [E|[m [d [Hm [-> _]]]]]; [congruence|].
    destruct (index_small base m Hm) as [Hi' Hv']. rewrite Hi' in Hz. congruence.
Qed.
Print Assumptions C19_boot_good.

Lemma start_of_N img n : (n <= 15)%N ->
  start_of img (Z.of_N n) = match img n with Some d => clean d | None => empty_db end.
Proof.
  intro Hn. unfold start_of. rewrite (proj2 (index_small [] n Hn)), N2Z.id. reflexivity.
Qed.

(* the same, read per database number *)
Corollary C19_boot_good_N : forall base s img,
  good_dir base s img ->
  exists dbs, boot_dir base (dir_of_fs s) = Booted dbs /\
    forall n, (n <= 15)%N ->
      booted_db (Booted dbs) (Z.of_N n) = Some (match img n with Some d => clean d | None => empty_db end).
Proof.
  intros base s img Hg. destruct (C19_boot_good base s img Hg) as [dbs [Hb Hz]].
  exists dbs. split; [exact Hb|]. intros n Hn. rewrite Hz, start_of_N by exact Hn. reflexivity.
Qed.

Lemma good_dir_perm base s s' img : Permutation s s' -> good_dir base s img -> good_dir base s' img.
Proof.
  intros Hp [H2 H3]. split.
  - intros name rs Hin. apply H2. apply (Permutation_in _ (Permutation_sym Hp)). exact Hin.
  - intros n d Hi. destruct (H3 n d Hi) as [Hn Hin]. split; [exact Hn|].
    apply (Permutation_in _ Hp). exact Hin.
Qed.

(* the order in which the walk reports the files does not matter *)
Corollary C19_boot_order_independent : forall base s s' img,
  good_dir base s img -> Permutation s s' ->
  forall z, booted_db (boot_dir base (dir_of_fs s')) z = booted_db (boot_dir base (dir_of_fs s)) z.
Proof.
  intros base s s' img Hg Hp z.
  destruct (C19_boot_good base s img Hg) as [dbs [Hb Hz]].
  destruct (C19_boot_good base s' img (good_dir_perm _ _ _ _ Hp Hg)) as [dbs' [Hb' Hz']].
  rewrite Hb, Hb', Hz, Hz'. reflexivity.
Qed.
Print Assumptions C19_boot_order_independent.

(* two databases, the remains of an interrupted save of database 3 and a foreign file *)
Definition ex_dir : fs :=
  [ (tmp_file ex_base 3, firstn 2 (snapshot ex_db));
    (db_file ex_base 3, snapshot ex_new);
    (s2b "/data/notes.txt", []);
    (db_file ex_base 0, snapshot ex_db) ].
Definition ex_img : N -> option db :=
  fun n => if N.eqb n 0 then Some ex_db else if N.eqb n 3 then Some ex_new else None.

Example C19_good_dir_ex : good_dir ex_base ex_dir ex_img /\ NoDup (map fst ex_dir).
Proof.
  split; [split|].
  - intros name rs [H|[H|[H|[H|[]]]]]; injection H as <- <-.
    + left. vm_compute. reflexivity.
    + right. exists 3%N, ex_new. repeat split. vm_compute. discriminate.
    + left. vm_compute. reflexivity.
    + right. exists 0%N, ex_db. repeat split. vm_compute. discriminate.
  - intros n d H. unfold ex_img in H.
    destruct (N.eqb_spec n 0) as [->|_].
    { injection H as <-. split; [lia|]. right; right; right; left. reflexivity. }
    destruct (N.eqb_spec n 3) as [->|_]; [|discriminate].
    injection H as <-. split; [lia|]. right; left. reflexivity.
  - vm_compute. repeat constructor; cbn [In]; intuition discriminate.
Qed.

Example C19_boot_ex :
  boot_dir ex_base (dir_of_fs ex_dir) = Booted [(3, clean ex_new); (0, clean ex_db)] /\
  booted_db (boot_dir ex_base (dir_of_fs ex_dir)) 0 = Some (clean ex_db) /\
  booted_db (boot_dir ex_base (dir_of_fs ex_dir)) 3 = Some (clean ex_new) /\
  booted_db (boot_dir ex_base (dir_of_fs ex_dir)) 7 = Some empty_db /\
  booted_db (boot_dir ex_base (dir_of_fs (rev ex_dir))) 3 = Some (clean ex_new) /\
  (* outside good_dir: a loadable file of index 16 makes the start-up panic; an unloadable
     snapshot file stops the walk, the databases after it in walk order start empty *)
  boot_dir ex_base (dir_of_fs (ex_dir ++ [(db_file ex_base 16, snapshot ex_db)])) = BootPanic /\
  boot_dir ex_base (dir_of_fs ((db_file ex_base 1, [RHdr 1 1]) :: ex_dir)) = Booted [].
Proof. vm_compute. repeat split; reflexivity. Qed.

(* ================================================================== *)
(* D. crash atomicity across databases                                 *)
(* ================================================================== *)
(* a file system proper: no name twice *)
Definition good_fs (base : bytes) (s : fs) (img : N -> option db) : Prop :=
  NoDup (map fst s) /\ good_dir base s img.

Definition upd (img : N -> option db) (n : N) (d : db) : N -> option db :=
  fun m => if N.eqb m n then Some d else img m.

Lemma aget_In (s : fs) x r : aget s x = Some r -> In (x, r) s.
Proof.
  induction s as [|[k v] s IH]; cbn [aget]; [discriminate|].
  destruct (bytes_eqb x k) eqn:E; intro H.
  - apply bytes_eqb_eq in E. subst k. injection H as <-. left. reflexivity.
  - right. apply IH. exact H.
Qed.

Lemma In_aget (s : fs) x r : NoDup (map fst s) -> In (x, r) s -> aget s x = Some r.
Proof.
  induction s as [|[k v] s IH]; cbn [map fst aget In]; intros Hnd Hin; [contradiction|].
  inversion Hnd as [|? ? Hnin Hnd']; subst.
  destruct Hin as [H|H].
  - injection H as -> ->. rewrite bytes_eqb_refl. reflexivity.
  - destruct (bytes_eqb x k) eqn:E; [|apply IH; assumption].
    apply bytes_eqb_eq in E. subst k. exfalso. apply Hnin.
    apply in_map_iff. exists (x, r). split; [reflexivity | exact H].
Qed.

(* frame: an operation that leaves every picked name alone keeps the directory well-formed *)
Lemma good_fs_frame base s s' img :
  good_fs base s img -> NoDup (map fst s') ->
  (forall x, file_index base x <> None -> aget s' x = aget s x) ->
  good_fs base s' img.
Proof.
  intros [Hnd [H2 H3]] Hnd' Hfr. split; [exact Hnd'|]. split.
  - intros name rs Hin. destruct (file_index base name) as [z|] eqn:Hz; [|left; reflexivity].
    apply (In_aget _ _ _ Hnd') in Hin. rewrite Hfr in Hin by congruence. apply aget_In in Hin.
    destruct (H2 _ _ Hin) as [E|E]; [congruence | right; exact E].
  - intros n d Hi. destruct (H3 n d Hi) as [Hn Hin]. split; [exact Hn|].
    apply aget_In. rewrite Hfr by (rewrite (proj1 (index_small base n Hn)); discriminate).
    apply In_aget; assumption.
Qed.

Lemma good_fs_tmp_op base s img tmp o :
  good_fs base s img -> file_index base tmp = None -> tmp_only tmp o ->
  good_fs base (fs_apply s o) img.
Proof.
  intros Hg Ht Ho. apply (good_fs_frame base s); [exact Hg | | ].
  - destruct Hg as [Hnd _]. destruct o as [n|n r|a b]; cbn [fs_apply].
    + apply (NoDup_akeys_aset s n []). exact Hnd.
    + destruct (aget s n) as [rs|]; [|exact Hnd]. apply (NoDup_akeys_aset s n (rs ++ [r])). exact Hnd.
    + destruct Ho.
  - intros x Hx. apply fs_apply_other with (tmp := tmp); [congruence | exact Ho].
Qed.

Lemma good_fs_tmp_run base img tmp ops : file_index base tmp = None -> Forall (tmp_only tmp) ops ->
  forall s, good_fs base s img -> good_fs base (fs_run ops s) img.
Proof.
  intros Ht. induction ops as [|o ops IH]; intros H s Hg; cbn [fs_run fold_left]; [exact Hg|].
  inversion H as [|? ? Ho Hops]; subst. fold (fs_run ops (fs_apply s o)).
  apply IH; [exact Hops|]. apply good_fs_tmp_op with (tmp := tmp); assumption.
Qed.

Lemma good_fs_del_foreign base s img x :
  good_fs base s img -> file_index base x = None -> good_fs base (adel s x) img.
Proof.
  intros Hg Hx. apply (good_fs_frame base s); [exact Hg | | ].
  - apply (NoDup_akeys_adel s x). exact (proj1 Hg).
  - intros y Hy. apply aget_adel_other. congruence.
Qed.

Lemma good_fs_write base s img n d : (n <= 15)%N ->
  good_fs base s img -> good_fs base (aset s (db_file base n) (snapshot d)) (upd img n d).
Proof.
  intros Hn [Hnd [H2 H3]].
  assert (Hnd' : NoDup (map fst (aset s (db_file base n) (snapshot d))))
    by (apply (NoDup_akeys_aset s (db_file base n) (snapshot d)); exact Hnd).
  split; [exact Hnd'|]. split.
  - intros name rs Hin. apply (In_aget _ _ _ Hnd') in Hin.
    destruct (bytes_eq_dec name (db_file base n)) as [->|Hne].
    + rewrite aget_aset_same in Hin. injection Hin as <-. right. exists n, d.
      unfold upd. rewrite N.eqb_refl. repeat split. exact Hn.
    + rewrite aget_aset_other in Hin by exact Hne. apply aget_In in Hin.
      destruct (H2 _ _ Hin) as [E|[m [d' [Hm [-> [Hi ->]]]]]]; [left; exact E|].
      right. exists m, d'. unfold upd.
      destruct (N.eqb_spec m n) as [->|_]; [congruence|]. repeat split; assumption.
  - intros m d' Hi. unfold upd in Hi. destruct (N.eqb_spec m n) as [->|Hne].
    + injection Hi as <-. split; [exact Hn|]. apply aget_In. apply aget_aset_same.
    + destruct (H3 m d' Hi) as [Hm Hin]. split; [exact Hm|]. apply aget_In.
      rewrite aget_aset_other by (intro E; apply Hne; exact (C19_db_file_inj _ _ _ E)).
      apply In_aget; assumption.
Qed.

Lemma save_prefix_tmp_only tmp final d p q :
  q <> [] -> save_ops tmp final d = p ++ q -> Forall (tmp_only tmp) p.
Proof.
  intros Hq H. destruct (exists_last Hq) as [q' [x Hx]]. subst q.
  rewrite save_ops_split, app_assoc in H. apply app_inj_tail in H as [H _].
  pose proof (tmp_only_body tmp (snapshot d)) as Hb. rewrite H in Hb.
  apply Forall_app in Hb as [Hb _]. exact Hb.
Qed.

(* the complete save of one database, on a well-formed directory (possibly holding the remains of
   an earlier interrupted save under the temporary name) *)
Lemma good_fs_save base s img n d : (n <= 15)%N -> good_fs base s img ->
  good_fs base (fs_run (save_ops (tmp_file base n) (db_file base n) d) s) (upd img n d).
Proof.
  intros Hn Hg. rewrite save_ops_split, fs_run_app.
  set (tmp := tmp_file base n). set (body := FCreate tmp :: map (FAppend tmp) (snapshot d)).
  change (fs_run [FRename tmp (db_file base n)] ?x) with (fs_apply x (FRename tmp (db_file base n))).
  unfold fs_apply. unfold body at 1. rewrite fs_run_create_appends.
  apply good_fs_write; [exact Hn|]. apply good_fs_del_foreign; [|apply C19_tmp_not_picked].
  apply good_fs_tmp_run with (tmp := tmp); [apply C19_tmp_not_picked | apply tmp_only_body | exact Hg].
Qed.

(* THEOREM (invariant form of D).  Cut the file operations of the save of database n anywhere:
   the directory is still well-formed — for the OLD image as long as the final rename has not
   happened (whatever the temporary file holds by then), for the image with n replaced by the
   new database once it has.  Nothing else can be observed. *)
Theorem C19_save_prefix_good : forall base s img n d_new p q,
  good_fs base s img -> (n <= 15)%N ->
  save_db_ops base (n, d_new) = p ++ q ->
  (good_fs base (fs_run p s) img /\ (q <> [] \/ d_dirty d_new = false)) \/
  (good_fs base (fs_run p s) (upd img n d_new) /\ q = [] /\ d_dirty d_new = true).
Proof.
  intros base s img n d p q Hg Hn H. unfold save_db_ops in H. cbn [fst snd] in H.
  destruct (d_dirty d) eqn:Hd.
  - destruct q as [|x q].
    + right. rewrite app_nil_r in H. subst p. split; [|split; reflexivity].
      apply good_fs_save; assumption.
    + left. split; [|left; discriminate].
      apply good_fs_tmp_run with (tmp := tmp_file base n); [apply C19_tmp_not_picked | | exact Hg].
      apply (save_prefix_tmp_only _ (db_file base n) d p (x :: q)); [discriminate | exact H].
  - left. symmetry in H. apply app_eq_nil in H as [-> _]. split; [exact Hg | right; reflexivity].
Qed.
Print Assumptions C19_save_prefix_good.

Lemma start_of_upd_other img n d z : z <> Z.of_N n -> start_of (upd img n d) z = start_of img z.
Proof.
  intro Hz. unfold start_of, upd. destruct (valid_index z) eqn:Hv; [|reflexivity].
  destruct (valid_index_N z Hv) as [m [_ ->]]. rewrite N2Z.id.
  destruct (N.eqb_spec m n) as [->|_]; [congruence | reflexivity].
Qed.

Lemma start_of_upd_same img n d : (n <= 15)%N -> start_of (upd img n d) (Z.of_N n) = clean d.
Proof. intro Hn. rewrite start_of_N by exact Hn. unfold upd. rewrite N.eqb_refl. reflexivity. Qed.

(* THEOREM D (main result).  The directory is well-formed for img; database n is being saved with
   new content d_new; the process dies after ANY number of the file operations of that save.
   Then the next start-up does not panic and does not stop early, EVERY other database index
   starts exactly as it would have started before the save, and database n starts either as it
   would have started before the save or as the complete new database. *)
Theorem C19_crash_atomic_all_dbs : forall base s img n d_new p q,
  good_fs base s img -> (n <= 15)%N ->
  save_db_ops base (n, d_new) = p ++ q ->
  exists dbs0 dbs,
    boot_dir base (dir_of_fs s) = Booted dbs0 /\
    boot_dir base (dir_of_fs (fs_run p s)) = Booted dbs /\
    (forall z, z <> Z.of_N n -> booted_db (Booted dbs) z = booted_db (Booted dbs0) z) /\
    (booted_db (Booted dbs) (Z.of_N n) = booted_db (Booted dbs0) (Z.of_N n) \/
     booted_db (Booted dbs) (Z.of_N n) = Some (clean d_new)).
Proof.
  intros base s img n d p q Hg Hn H.
  destruct (C19_boot_good base s img (proj2 Hg)) as [dbs0 [Hb0 Hz0]].
  destruct (C19_save_prefix_good base s img n d p q Hg Hn H) as [[Hg' _]|[Hg' _]];
    destruct (C19_boot_good _ _ _ (proj2 Hg')) as [dbs [Hb Hz]];
    exists dbs0, dbs; (split; [exact Hb0|]); (split; [exact Hb|]).
  - split; [intros z _; rewrite Hz, Hz0; reflexivity | left; rewrite Hz, Hz0; reflexivity].
  - split.
    + intros z Hne. rewrite Hz, Hz0, start_of_upd_other by exact Hne. reflexivity.
    + right. rewrite Hz, start_of_upd_same by exact Hn. reflexivity.
Qed.
Print Assumptions C19_crash_atomic_all_dbs.

(* which of the two: the old one until the rename, the new one after it *)
Corollary C19_save_db_completes : forall base s img n d_new,
  good_fs base s img -> (n <= 15)%N -> d_dirty d_new = true ->
  good_fs base (fs_run (save_db_ops base (n, d_new)) s) (upd img n d_new) /\
  exists dbs, boot_dir base (dir_of_fs (fs_run (save_db_ops base (n, d_new)) s)) = Booted dbs /\
    booted_db (Booted dbs) (Z.of_N n) = Some (clean d_new).
Proof.
  intros base s img n d Hg Hn Hd.
  assert (Hg' : good_fs base (fs_run (save_db_ops base (n, d)) s) (upd img n d)).
  { unfold save_db_ops. cbn [fst snd]. rewrite Hd. apply good_fs_save; assumption. }
  split; [exact Hg'|]. destruct (C19_boot_good _ _ _ (proj2 Hg')) as [dbs [Hb Hz]].
  exists dbs. split; [exact Hb|]. rewrite Hz, start_of_upd_same by exact Hn. reflexivity.
Qed.

Corollary C19_crash_before_rename : forall base s img n d_new p q,
  good_fs base s img -> (n <= 15)%N -> q <> [] ->
  save_db_ops base (n, d_new) = p ++ q ->
  forall z, booted_db (boot_dir base (dir_of_fs (fs_run p s))) z = booted_db (boot_dir base (dir_of_fs s)) z.
Proof.
  intros base s img n d p q Hg Hn Hq H z.
  destruct (C19_save_prefix_good base s img n d p q Hg Hn H) as [[Hg' _]|[_ [Hq' _]]]; [|contradiction].
  destruct (C19_boot_good _ _ _ (proj2 Hg)) as [dbs0 [Hb0 Hz0]].
  destruct (C19_boot_good _ _ _ (proj2 Hg')) as [dbs [Hb Hz]].
  rewrite Hb, Hb0, Hz, Hz0. reflexivity.
Qed.

(* a save interrupted anywhere and retried from the start (the leftover temporary file is
   truncated by the new attempt) completes correctly, all other databases untouched *)
Corollary C19_crash_then_retry_dir : forall base s img n d_new d_newer p q,
  good_fs base s img -> (n <= 15)%N -> d_dirty d_newer = true ->
  save_db_ops base (n, d_new) = p ++ q ->
  good_fs base (fs_run (save_db_ops base (n, d_newer)) (fs_run p s)) (upd img n d_newer).
Proof.
  intros base s img n d d2 p q Hg Hn Hd H.
  assert (Hu : forall m, upd (upd img n d) n d2 m = upd img n d2 m).
  { intro m. unfold upd. destruct (N.eqb m n); reflexivity. }
  destruct (C19_save_prefix_good base s img n d p q Hg Hn H) as [[Hg' _]|[Hg' _]].
  - exact (proj1 (C19_save_db_completes _ _ _ n d2 Hg' Hn Hd)).
  - destruct (C19_save_db_completes _ _ _ n d2 Hg' Hn Hd) as [[Hnd [H2 H3]] _].
    split; [exact Hnd|]. split.
    + intros name rs Hin. destruct (H2 _ _ Hin) as [E|[m [d' [Hm [E1 [E2 E3]]]]]]; [left; exact E|].
      right. exists m, d'. rewrite <- Hu. repeat split; assumption.
    + intros m d' Hi. rewrite <- Hu in Hi. exact (H3 m d' Hi).
Qed.

(* ---------- D2: a crash anywhere in the save of ALL databases ---------- *)
Lemma save_all_cons base nd r : save_all_ops base (nd :: r) = save_db_ops base nd ++ save_all_ops base r.
Proof. reflexivity. Qed.

(* img' differs from img only at databases of the list, and there it holds one of the new ones *)
Definition img_between (img img' : N -> option db) (dbs : list (N * db)) : Prop :=
  forall m, img' m = img m \/ exists d, In (m, d) dbs /\ d_dirty d = true /\ img' m = Some d.

Theorem C19_save_all_prefix_good : forall base dbs s img p q,
  good_fs base s img -> Forall (fun nd => (fst nd <= 15)%N) dbs ->
  save_all_ops base dbs = p ++ q ->
  exists img', good_fs base (fs_run p s) img' /\ img_between img img' dbs.
Proof.
  intros base dbs. induction dbs as [|[n d] r IH]; intros s img p q Hg Hall H.
  - cbn in H. symmetry in H. apply app_eq_nil in H as [-> _]. exists img. split; [exact Hg|].
    intro m. left. reflexivity.
  - inversion Hall as [|? ? Hn Hr]; subst. cbn [fst] in Hn.
    rewrite save_all_cons in H. apply app_eq_app in H as [l [[H1 H2]|[H1 H2]]].
    + (* the crash falls inside the save of (n, d) *)
      destruct (C19_save_prefix_good base s img n d p l Hg Hn H1) as [[Hg' _]|[Hg' [_ Hd]]].
      * exists img. split; [exact Hg'|]. intro m. left. reflexivity.
      * exists (upd img n d). split; [exact Hg'|]. intro m. unfold upd.
        destruct (N.eqb_spec m n) as [->|_]; [|left; reflexivity].
        right. exists d. split; [left; reflexivity|]. split; [exact Hd | reflexivity].
    + (* the save of (n, d) is complete, the crash falls later *)
      subst p. rewrite fs_run_app.
      assert (Hfull : save_db_ops base (n, d) = save_db_ops base (n, d) ++ []) by (rewrite app_nil_r; reflexivity).
      assert (Hmid : exists img1, good_fs base (fs_run (save_db_ops base (n, d)) s) img1 /\
                                  img_between img img1 [(n, d)]).
      { destruct (C19_save_prefix_good base s img n d _ [] Hg Hn Hfull) as [[Hg' _]|[Hg' [_ Hd]]].
        - exists img. split; [exact Hg'|]. intro m. left. reflexivity.
        - exists (upd img n d). split; [exact Hg'|]. intro m. unfold upd.
          destruct (N.eqb_spec m n) as [->|_]; [|left; reflexivity].
          right. exists d. split; [left; reflexivity|]. split; [exact Hd | reflexivity]. }
      destruct Hmid as [img1 [Hg1 Hb1]].
      destruct (IH _ img1 l q Hg1 Hr H2) as [img' [Hg' Hb']].
      exists img'. split; [exact Hg'|]. intro m.
      destruct (Hb' m) as [E|[d' [Hin [Hd' E]]]].
      * rewrite E. destruct (Hb1 m) as [E1|[d' [Hin [Hd' E1]]]]; [left; exact E1|].
        right. exists d'. destruct Hin as [Hin|[]]. split; [left; exact Hin|]. split; assumption.
      * right. exists d'. split; [right; exact Hin|]. split; assumption.
Qed.
Print Assumptions C19_save_all_prefix_good.

(* THEOREM D2.  dataStoreSet.save writes the databases one after the other (in any order, the
   list may even name a database twice); the process dies after ANY number of file operations.
   The next start-up does not panic, and every database index starts either as it would have
   before the save began or as the complete new content of one of the dirty databases of that
   index in the list — never partial, mixed or empty; indexes not in the list start as before. *)
Theorem C19_crash_atomic_save_all : forall base dbs s img p q,
  good_fs base s img -> Forall (fun nd => (fst nd <= 15)%N) dbs ->
  save_all_ops base dbs = p ++ q ->
  exists dbs0 dbs1,
    boot_dir base (dir_of_fs s) = Booted dbs0 /\
    boot_dir base (dir_of_fs (fs_run p s)) = Booted dbs1 /\
    (forall z, booted_db (Booted dbs1) z = booted_db (Booted dbs0) z \/
       exists n d, z = Z.of_N n /\ In (n, d) dbs /\ d_dirty d = true /\
                   booted_db (Booted dbs1) z = Some (clean d)) /\
    (forall z, (forall n d, In (n, d) dbs -> z <> Z.of_N n) ->
       booted_db (Booted dbs1) z = booted_db (Booted dbs0) z).
Proof.
  intros base dbs s img p q Hg Hall H.
  destruct (C19_save_all_prefix_good base dbs s img p q Hg Hall H) as [img' [Hg' Hb]].
  destruct (C19_boot_good _ _ _ (proj2 Hg)) as [dbs0 [Hb0 Hz0]].
  destruct (C19_boot_good _ _ _ (proj2 Hg')) as [dbs1 [Hb1 Hz1]].
  exists dbs0, dbs1. split; [exact Hb0|]. split; [exact Hb1|].
  assert (Hmain : forall z, booted_db (Booted dbs1) z = booted_db (Booted dbs0) z \/
       exists n d, z = Z.of_N n /\ In (n, d) dbs /\ d_dirty d = true /\
                   booted_db (Booted dbs1) z = Some (clean d)).
  { intro z. rewrite Hz1, Hz0. unfold start_of. destruct (valid_index z) eqn:Hv; [|left; reflexivity].
    destruct (valid_index_N z Hv) as [n [Hn ->]]. rewrite N2Z.id.
    destruct (Hb n) as [E|[d [Hin [Hd E]]]]; [left; rewrite E; reflexivity|].
    right. exists n, d. rewrite E. repeat split; assumption. }
  split; [exact Hmain|]. intros z Hno.
  destruct (Hmain z) as [E|[n [d [-> [Hin _]]]]]; [exact E|]. exfalso. exact (Hno n d Hin eq_refl).
Qed.
Print Assumptions C19_crash_atomic_save_all.

(* the save of all databases run to completion, distinct indexes: every dirty database of the
   list starts as its new content, all others as before *)
Theorem C19_save_all_completes : forall base dbs s img,
  good_fs base s img -> Forall (fun nd => (fst nd <= 15)%N) dbs -> NoDup (map fst dbs) ->
  exists img', good_fs base (fs_run (save_all_ops base dbs) s) img' /\
    (forall n d, In (n, d) dbs -> d_dirty d = true -> img' n = Some d) /\
    (forall n d, In (n, d) dbs -> d_dirty d = false -> img' n = img n) /\
    (forall n, ~ In n (map fst dbs) -> img' n = img n).
Proof.
  intros base dbs. induction dbs as [|[n d] r IH]; intros s img Hg Hall Hnd.
  - exists img. split; [exact Hg|]. split; [intros ? ? []|]. split; [intros ? ? []|]. reflexivity.
  - inversion Hall as [|? ? Hn Hr]; subst. cbn [fst] in Hn.
    inversion Hnd as [|? ? Hnin Hnd']; subst. cbn [fst] in Hnin.
    rewrite save_all_cons, fs_run_app.
    assert (Hmid : exists img1, good_fs base (fs_run (save_db_ops base (n, d)) s) img1 /\
              img1 n = (if d_dirty d then Some d else img n) /\ forall m, m <> n -> img1 m = img m).
    { destruct (d_dirty d) eqn:Hd.
      - exists (upd img n d). split; [exact (proj1 (C19_save_db_completes _ _ _ n d Hg Hn Hd))|].
        unfold upd. split; [rewrite N.eqb_refl; reflexivity|].
        intros m Hm. destruct (N.eqb_spec m n); [contradiction | reflexivity].
      - exists img. unfold save_db_ops. cbn [fst snd]. rewrite Hd. split; [exact Hg|].
        split; reflexivity. }
    destruct Hmid as [img1 [Hg1 [Hn1 Ho1]]].
    destruct (IH _ img1 Hg1 Hr Hnd') as [img' [Hg' [Hd1 [Hd0 Hout]]]].
    exists img'. split; [exact Hg'|].
    assert (Hrn : forall m d', In (m, d') r -> m <> n).
    { intros m d' Hin ->. apply Hnin. apply in_map_iff. exists (n, d'). split; [reflexivity | exact Hin]. }
    split; [|split].
    + intros m d' [Hin|Hin] Hdd.
      * injection Hin as <- <-. rewrite Hout by exact Hnin. rewrite Hn1, Hdd. reflexivity.
      * apply Hd1; assumption.
    + intros m d' [Hin|Hin] Hdd.
      * injection Hin as <- <-. rewrite Hout by exact Hnin. rewrite Hn1, Hdd. reflexivity.
      * rewrite (Hd0 _ _ Hin Hdd). apply Ho1. exact (Hrn _ _ Hin).
    + intros m Hm. cbn [map fst In] in Hm. rewrite Hout by tauto. apply Ho1. intro E. apply Hm. left. congruence.
Qed.
Print Assumptions C19_save_all_completes.

(* database 3 of ex_dir is saved again (with ex_db as the new content, to tell them apart), then
   database 5 for the first time; a crash after each number of file operations *)
Definition ex_d5 : db := mkDb [ (s2b "k", mkE (VStr (s2b "five")) None 1%N) ] 1%N true.
Definition ex_saves : list (N * db) := [ (3%N, ex_db); (0%N, clean ex_db); (5%N, ex_d5) ].

Definition ex_boot (k : nat) : list (option db) :=
  let b := boot_dir ex_base (dir_of_fs (fs_run (firstn k (save_all_ops ex_base ex_saves)) ex_dir)) in
  [booted_db b 0; booted_db b 3; booted_db b 5].

Example C19_crash_all_ex :
  length (save_db_ops ex_base (3%N, ex_db)) = 7%nat /\
  save_db_ops ex_base (0%N, clean ex_db) = [] /\
  length (save_all_ops ex_base ex_saves) = 11%nat /\
  map ex_boot (seq 0 7) = repeat [Some (clean ex_db); Some (clean ex_new); Some empty_db] 7 /\
  map ex_boot (seq 7 4) = repeat [Some (clean ex_db); Some (clean ex_db); Some empty_db] 4 /\
  ex_boot 11 = [Some (clean ex_db); Some (clean ex_db); Some (clean ex_d5)] /\
  (* after the crash at 5 the temporary file holds a truncated snapshot next to the leftover of ex_dir *)
  aget (fs_run (firstn 5 (save_all_ops ex_base ex_saves)) ex_dir) (tmp_file ex_base 3)
    = Some (firstn 4 (snapshot ex_db)) /\
  (* the in-place save of the original code, interrupted at the same point, loses database 3 AND,
     because the failed load ends the walk, database 0 which comes later in this directory *)
  (let b := boot_dir ex_base (dir_of_fs (fs_run (firstn 3 (save_ops_inplace (db_file ex_base 3) ex_db)) ex_dir)) in
   [booted_db b 0; booted_db b 3] = [Some empty_db; Some empty_db]).
Proof. vm_compute. repeat split; reflexivity. Qed.
