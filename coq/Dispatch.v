(* Dispatch.v — per-connection session state, the command table, MULTI/EXEC/WATCH,
   SELECT/FLUSH*, HELLO (cmdDispatcher.go, clientState.go, redisTransaction.go,
   dataStoreSet.go).  [step] is the whole sequential emulator: one command of one
   connection against the shared databases. *)
From RE Require Import Base Resp State Exec Exec2 Bits Lcs Sort Fnum.
From Coq Require Import String.
From Coq Require Import List.
Open Scope string_scope.
Open Scope list_scope.
Open Scope Z_scope.

Record conn := mkConn {
  c_sel : N;                               (* selected database 0..15 *)
  c_resp : Z;                              (* protocol version 2 or 3 *)
  c_name : bytes;
  c_queue : option (list (list bytes));    (* Some q = inside MULTI *)
  c_qerr : bool;                           (* a command was rejected while queueing *)
  c_watch : list (N * bytes * N)           (* (db, key, version seen at WATCH; 0 = missing) *)
}.
Definition conn0 : conn := mkConn 0 2 [] None false [].

Record state := mkSt { s_dbs : list (N * db); s_conns : list (N * conn) }.
Definition state0 : state := mkSt [] [].

Fixpoint nget {A} (m : list (N * A)) (k : N) : option A :=
  match m with [] => None | (k', v) :: r => if N.eqb k k' then Some v else nget r k end.
Fixpoint nset {A} (m : list (N * A)) (k : N) (v : A) : list (N * A) :=
  match m with
  | [] => [(k, v)]
  | (k', v') :: r => if N.eqb k k' then (k, v) :: r else (k', v') :: nset r k v
  end.
Fixpoint ndel {A} (m : list (N * A)) (k : N) : list (N * A) :=
  match m with [] => [] | (k', v') :: r => if N.eqb k k' then ndel r k else (k', v') :: ndel r k end.

Definition get_db (st : state) (i : N) : db := match nget (s_dbs st) i with Some d => d | None => empty_db end.
Definition set_db (st : state) (i : N) (d : db) : state := mkSt (nset (s_dbs st) i d) (s_conns st).
Definition get_conn (st : state) (c : N) : conn := match nget (s_conns st) c with Some x => x | None => conn0 end.
Definition set_conn (st : state) (c : N) (x : conn) : state := mkSt (s_dbs st) (nset (s_conns st) c x).

(* ---------- data command table ---------- *)
Definition data_cmd (name : bytes) : option (Z -> db -> list bytes -> res) :=
  let is s := bytes_eqb name (s2b s) in
  if is "set" then Some cmd_set else
  if is "setnx" then Some cmd_setnx else
  if is "setex" then Some (cmd_setex sec) else
  if is "psetex" then Some (cmd_setex msec) else
  if is "get" then Some cmd_get else
  if is "getset" then Some cmd_getset else
  if is "getdel" then Some cmd_getdel else
  if is "getex" then Some cmd_getex else
  if is "append" then Some cmd_append else
  if is "strlen" then Some cmd_strlen else
  if is "getrange" then Some cmd_getrange else
  if is "substr" then Some cmd_getrange else
  if is "setrange" then Some cmd_setrange else
  if is "incr" then Some (cmd_incr 1) else
  if is "decr" then Some (cmd_incr (-1)) else
  if is "incrby" then Some (cmd_incrby 1) else
  if is "decrby" then Some (cmd_incrby (-1)) else
  if is "mget" then Some cmd_mget else
  if is "mset" then Some cmd_mset else
  if is "msetnx" then Some cmd_msetnx else
  if is "lpush" then Some (cmd_push true false) else
  if is "rpush" then Some (cmd_push false false) else
  if is "lpushx" then Some (cmd_push true true) else
  if is "rpushx" then Some (cmd_push false true) else
  if is "lpop" then Some (cmd_pop true) else
  if is "rpop" then Some (cmd_pop false) else
  if is "llen" then Some cmd_llen else
  if is "lindex" then Some cmd_lindex else
  if is "lrange" then Some cmd_lrange else
  if is "lset" then Some cmd_lset else
  if is "linsert" then Some cmd_linsert else
  if is "lrem" then Some cmd_lrem else
  if is "ltrim" then Some cmd_ltrim else
  if is "lpos" then Some cmd_lpos else
  if is "lmove" then Some cmd_lmove else
  if is "rpoplpush" then Some cmd_rpoplpush else
  if is "lmpop" then Some cmd_lmpop else
  if is "hset" then Some (cmd_hset 0) else
  if is "hmset" then Some (cmd_hset 1) else
  if is "hsetnx" then Some (cmd_hset 2) else
  if is "hget" then Some cmd_hget else
  if is "hmget" then Some cmd_hmget else
  if is "hgetall" then Some cmd_hgetall else
  if is "hkeys" then Some (cmd_hkeys false) else
  if is "hvals" then Some (cmd_hkeys true) else
  if is "hlen" then Some cmd_hlen else
  if is "hexists" then Some (cmd_hexists false) else
  if is "hstrlen" then Some (cmd_hexists true) else
  if is "hdel" then Some cmd_hdel else
  if is "hincrby" then Some cmd_hincrby else
  if is "hrandfield" then Some cmd_hrandfield else
  if is "hscan" then Some cmd_hscan else
  if is "sadd" then Some cmd_sadd else
  if is "srem" then Some cmd_srem else
  if is "scard" then Some cmd_scard else
  if is "sismember" then Some cmd_sismember else
  if is "smismember" then Some cmd_smismember else
  if is "smembers" then Some cmd_smembers else
  if is "smove" then Some cmd_smove else
  if is "srandmember" then Some cmd_srandmember else
  if is "sscan" then Some cmd_sscan else
  if is "sinter" then Some (cmd_setop OpInter) else
  if is "sunion" then Some (cmd_setop OpUnion) else
  if is "sdiff" then Some (cmd_setop OpDiff) else
  if is "sinterstore" then Some (cmd_setop_store OpInter) else
  if is "sunionstore" then Some (cmd_setop_store OpUnion) else
  if is "sdiffstore" then Some (cmd_setop_store OpDiff) else
  if is "sintercard" then Some cmd_sintercard else
  if is "del" then Some cmd_del else
  if is "unlink" then Some cmd_del else
  if is "exists" then Some cmd_exists else
  if is "touch" then Some cmd_touch else
  if is "type" then Some cmd_type else
  if is "rename" then Some (cmd_rename false) else
  if is "renamenx" then Some (cmd_rename true) else
  if is "copy" then Some cmd_copy else
  if is "keys" then Some cmd_keys else
  if is "randomkey" then Some cmd_randomkey else
  if is "dbsize" then Some cmd_dbsize else
  if is "scan" then Some cmd_scan else
  if is "expire" then Some (cmd_expire sec true) else
  if is "pexpire" then Some (cmd_expire msec true) else
  if is "expireat" then Some (cmd_expire sec false) else
  if is "pexpireat" then Some (cmd_expire msec false) else
  if is "ttl" then Some (cmd_ttl sec true) else
  if is "pttl" then Some (cmd_ttl msec true) else
  if is "expiretime" then Some (cmd_ttl sec false) else
  if is "pexpiretime" then Some (cmd_ttl msec false) else
  if is "persist" then Some cmd_persist else
  if is "setbit" then Some cmd_setbit else
  if is "getbit" then Some cmd_getbit else
  if is "bitcount" then Some cmd_bitcount else
  if is "bitpos" then Some cmd_bitpos else
  if is "bitop" then Some cmd_bitop else
  if is "bitfield" then Some (cmd_bitfield false) else
  if is "bitfield_ro" then Some (cmd_bitfield true) else
  if is "lcs" then Some cmd_lcs else
  if is "sort" then Some cmd_sort else
  if is "incrbyfloat" then Some cmd_incrbyfloat else
  if is "hincrbyfloat" then Some cmd_hincrbyfloat else
  None.

(* blocking commands: (non-blocking equivalent applied to the arguments without the timeout) *)
Definition drop_last {A} (l : list A) : list A := firstn (length l - 1) l.

Fixpoint bpop_keys (lft : bool) (now : Z) (d : db) (keys : list bytes) : res :=
  match keys with
  | [] => (d, RNil)
  | k :: r =>
    match cmd_pop lft now d [k] with
    | (d', RBulk x) => (d', RArr [RBulk k; RBulk x])
    | (_, RNil) => bpop_keys lft now d r
    | (d', e) => (d', e)
    end
  end.

(* timeouts: a decimal number >= 0; only the syntax is modelled *)
Definition is_timeout (b : bytes) : bool :=
  match b with
  | [] => false
  | _ => forallb (fun c => is_digit c || N.eqb c 46%N) b
         && (Nat.leb (length (filter (N.eqb 46%N) b)) 1)
         && existsb is_digit b
  end.

Definition blocking_cmd (name : bytes) : option (Z -> db -> list bytes -> res) :=
  let is s := bytes_eqb name (s2b s) in
  if is "blpop" then Some (fun now d args =>
    match args with
    | _ :: _ :: _ => if is_timeout (last args []) then bpop_keys true now d (drop_last args) else (d, argerr)
    | _ => (d, argerr) end) else
  if is "brpop" then Some (fun now d args =>
    match args with
    | _ :: _ :: _ => if is_timeout (last args []) then bpop_keys false now d (drop_last args) else (d, argerr)
    | _ => (d, argerr) end) else
  if is "blmove" then Some (fun now d args =>
    match args with
    | [_; _; _; _; t] => if is_timeout t then cmd_lmove now d (drop_last args) else (d, argerr)
    | _ => (d, argerr) end) else
  if is "brpoplpush" then Some (fun now d args =>
    match args with
    | [_; _; t] => if is_timeout t then cmd_rpoplpush now d (drop_last args) else (d, argerr)
    | _ => (d, argerr) end) else
  if is "blmpop" then Some (fun now d args =>
    match args with
    | t :: rest => if is_timeout t then cmd_lmpop now d rest else (d, argerr)
    | _ => (d, argerr) end) else
  None.

Definition is_tx_control (name : bytes) : bool :=
  let is s := bytes_eqb name (s2b s) in
  is "multi" || is "exec" || is "discard" || is "watch".

Definition is_argerr (r : resp) : bool :=
  match r, argerr with
  | RErr a, RErr b => bytes_eqb a b
  | _, _ => false
  end.

(* outcome of one command: new state, reply, and whether the command would block
   (no data for a blocking command outside MULTI) *)
Record outcome := mkOut { o_st : state; o_reply : resp; o_block : bool }.

Definition unknown_cmd : resp := err "ERR Unknown command".

(* version of key k in db d as WATCH records it: 0 when missing or expired *)
Definition ver_of (now : Z) (d : db) (k : bytes) : N :=
  match lookup now d k with Some e => e_ver e | None => 0%N end.

Definition watch_dirty (now : Z) (st : state) (ws : list (N * bytes * N)) : bool :=
  existsb (fun w => let '(i, k, v) := w in negb (N.eqb (ver_of now (get_db st i) k) v)) ws.

Definition flush_db (d : db) : db := mkDb [] (d_next d + 1)%N true.

(* session-level and server-level commands that do not queue specially; returns None when
   the name is not one of them *)
Definition session_cmd (now : Z) (st : state) (cid : N) (name : bytes) (args : list bytes)
  : option (state * resp) :=
  let is s := bytes_eqb name (s2b s) in
  let c := get_conn st cid in
  if is "ping" then Some (st, match args with
                             | [] => RSimple (s2b "PONG")
                             | [m] => RBulk m
                             | _ => argerr end) else
  if is "echo" then Some (st, match args with [m] => RBulk m | _ => argerr end) else
  if is "quit" then Some (st, match args with [] => ok | _ => argerr end) else
  if is "select" then
    Some (match args with
          | [i] => match parse_i64 i with
                   | Some i => if (0 <=? i) && (i <=? 15)
                               then (set_conn st cid (mkConn (Z.to_N i) (c_resp c) (c_name c) (c_queue c) (c_qerr c) (c_watch c)), ok)
                               else (st, err "ERR DB index is out of range")
                   | None => (st, argerr)
                   end
          | _ => (st, argerr)
          end) else
  if is "flushdb" then
    Some (match args with
          | [] | [_] => (set_db st (c_sel c) (flush_db (get_db st (c_sel c))), ok)
          | _ => (st, argerr) end) else
  if is "flushall" then
    Some (match args with
          | [] | [_] => (mkSt (map (fun id => (fst id, flush_db (snd id))) (s_dbs st)) (s_conns st), ok)
          | _ => (st, argerr) end) else
  if is "hello" then
    Some (match args with
          | [] => (st, RAny)
          | v :: _ =>
            match parse_i64 v with
            | Some 2 => (set_conn st cid (mkConn (c_sel c) 2 (c_name c) (c_queue c) (c_qerr c) (c_watch c)), RAny)
            | Some 3 => (set_conn st cid (mkConn (c_sel c) 3 (c_name c) (c_queue c) (c_qerr c) (c_watch c)), RAny)
            | Some _ => (st, err "NOPROTO unsupported protocol version")
            | None => (st, argerr)
            end
          end) else
  if is "unwatch" then
    Some (match args with
          | [] => (set_conn st cid (mkConn (c_sel c) (c_resp c) (c_name c) (c_queue c) (c_qerr c) []), ok)
          | _ => (st, argerr) end) else
  if is "client" then
    Some (match args with
          | [sub] =>
            if is_kw sub "getname" then (st, match c_name c with [] => RNil | n => RBulk n end)
            else if is_kw sub "id" then (st, RAny)
            else if is_kw sub "info" then (st, RAny)
            else if is_kw sub "list" then (st, RAny)
            else (st, argerr)
          | [sub; a] =>
            if is_kw sub "setname" then
              if forallb (fun ch => (33 <=? ch)%N) a
              then (set_conn st cid (mkConn (c_sel c) (c_resp c) a (c_queue c) (c_qerr c) (c_watch c)), ok)
              else (st, err "ERR Client names cannot contain spaces, newlines or special characters.")
            else if is_kw sub "no-evict" then
              if is_kw a "on" || is_kw a "off" then (st, ok) else (st, argerr)
            else (st, RAny)
          | _ => (st, RAny)
          end) else
  if is "command" || is "info" then Some (st, RAny) else
  None.

(* run one non-transaction-control command outside of queueing *)
Definition run_plain (now : Z) (st : state) (cid : N) (name : bytes) (args : list bytes) (in_exec : bool) : outcome :=
  let c := get_conn st cid in
  match data_cmd name with
  | Some f =>
    let '(d', r) := f now (get_db st (c_sel c)) args in
    mkOut (set_db st (c_sel c) d') r false
  | None =>
    match blocking_cmd name with
    | Some f =>
      let '(d', r) := f now (get_db st (c_sel c)) args in
      match r with
      | RNil => mkOut st RNil (negb in_exec)
      | _ => mkOut (set_db st (c_sel c) d') r false
      end
    | None =>
      match session_cmd now st cid name args with
      | Some (st', r) => mkOut st' r false
      | None => mkOut st unknown_cmd false
      end
    end
  end.

Definition known_cmd (name : bytes) : bool :=
  match data_cmd name, blocking_cmd name with
  | Some _, _ | _, Some _ => true
  | None, None =>
    is_tx_control name ||
    existsb (fun s => bytes_eqb name (s2b s))
      ["ping"; "echo"; "quit"; "select"; "flushdb"; "flushall"; "hello"; "unwatch"; "client"; "command"; "info";
       "sort"; "dump"; "restore"; "lcs"; "incrbyfloat"; "hincrbyfloat"]
  end.

Definition reset_tx (c : conn) : conn := mkConn (c_sel c) (c_resp c) (c_name c) None false [].

Fixpoint exec_queue (now : Z) (st : state) (cid : N) (q : list (list bytes)) : state * list resp :=
  match q with
  | [] => (st, [])
  | cmd :: r =>
    match cmd with
    | [] => exec_queue now st cid r
    | name :: args =>
      (* every queued command reads the clock itself: time moves on between two of them
         (EXPIRE k 0 followed by a read of k in the same transaction finds k gone) *)
      let o := run_plain now st cid (lower name) args true in
      let '(st', rs) := exec_queue (now + 1) (o_st o) cid r in
      (st', o_reply o :: rs)
    end
  end.

(* the emulator: one command of connection cid *)
(* a command rejected for its arity while a transaction is open flags the transaction
   (also MULTI/EXEC/DISCARD themselves: MULTI x, EXEC x, DISCARD x) *)
Definition flag_tx (st : state) (cid : N) (c : conn) : state :=
  match c_queue c with
  | Some q => set_conn st cid (mkConn (c_sel c) (c_resp c) (c_name c) (Some q) true (c_watch c))
  | None => st
  end.

Definition step (now : Z) (st : state) (cid : N) (cmd : list bytes) : outcome :=
  match cmd with
  | [] => mkOut st (err "ERR Invalid command input") false
  | name0 :: args =>
    let name := lower name0 in
    let c := get_conn st cid in
    let is s := bytes_eqb name (s2b s) in
    if negb (known_cmd name) then
      (* unknown command: inside MULTI the transaction is flagged *)
      match c_queue c with
      | Some q => mkOut (set_conn st cid (mkConn (c_sel c) (c_resp c) (c_name c) (Some q) true (c_watch c))) unknown_cmd false
      | None => mkOut st unknown_cmd false
      end
    else if is "multi" then
      match args, c_queue c with
      | [], None => mkOut (set_conn st cid (mkConn (c_sel c) (c_resp c) (c_name c) (Some []) false (c_watch c))) ok false
      | [], Some _ => mkOut st (err "ERR MULTI calls can not be nested") false
      | _, _ => mkOut (flag_tx st cid c) argerr false
      end
    else if is "discard" then
      match args, c_queue c with
      | [], Some _ => mkOut (set_conn st cid (reset_tx c)) ok false
      | [], None => mkOut st (err "ERR DISCARD without MULTI") false
      | _, _ => mkOut (flag_tx st cid c) argerr false
      end
    else if is "watch" then
      match c_queue c with
      | Some _ =>
        match args with
        | [] => mkOut (flag_tx st cid c) argerr false
        | _ => mkOut st (err "ERR WATCH inside MULTI is not allowed") false
        end
      | None =>
        match args with
        | [] => mkOut st argerr false
        | _ =>
          let d := get_db st (c_sel c) in
          let ws := map (fun k => (c_sel c, k, ver_of now d k)) args in
          mkOut (set_conn st cid (mkConn (c_sel c) (c_resp c) (c_name c) None (c_qerr c)
                                  (ws ++ filter (fun w => let '(i, k, _) := w in
                                                   negb (N.eqb i (c_sel c) && mem_bytes k args)) (c_watch c)))) ok false
        end
      end
    else if is "exec" then
      match args, c_queue c with
      | _ :: _, _ => mkOut (flag_tx st cid c) argerr false
      | [], None => mkOut st (err "ERR EXEC without MULTI") false
      | [], Some q =>
        if c_qerr c then
          mkOut (set_conn st cid (reset_tx c)) (err "EXECABORT Transaction discarded because of previous errors.") false
        else if watch_dirty now st (c_watch c) then
          mkOut (set_conn st cid (reset_tx c)) RNil false
        else
          let st1 := set_conn st cid (reset_tx c) in
          let '(st2, rs) := exec_queue now st1 cid q in
          mkOut st2 (RArr rs) false
      end
    else
      match c_queue c with
      | Some q =>
        (* queueing: arguments are checked now, effects happen at EXEC *)
        let o := run_plain now st cid name args true in
        if is_argerr (o_reply o) then
          mkOut (set_conn st cid (mkConn (c_sel c) (c_resp c) (c_name c) (Some q) true (c_watch c))) argerr false
        else
          mkOut (set_conn st cid (mkConn (c_sel c) (c_resp c) (c_name c) (Some (q ++ [cmd])) (c_qerr c) (c_watch c)))
                (RSimple (s2b "QUEUED")) false
      | None => run_plain now st cid name args false
      end
  end.

(* what goes on the wire for connection cid *)
Definition wire (st : state) (cid : N) (r : resp) : resp :=
  if c_resp (get_conn st cid) =? 2 then to2 r else r.

(* connection teardown forgets the session *)
Definition close_conn (st : state) (cid : N) : state := mkSt (s_dbs st) (ndel (s_conns st) cid).
