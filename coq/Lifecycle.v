(* Lifecycle.v — emulator instances in one process (test-server.go, clientCxn.go after the
   repairs): listener, background goroutines, tracked connections, the wait group. *)
From RE Require Import Base.
From Coq Require Import List.
Open Scope list_scope.
Open Scope nat_scope.

Definition iid := N.   (* emulator instance *)
Definition cid := N.   (* connection *)

Record inst := mkInst {
  i_listening : bool;          (* the listener is open *)
  i_terminating : bool;        (* RequestTermination was called *)
  i_accept_loop : bool;        (* accept goroutine alive (wait-group member) *)
  i_monitors : nat;            (* signal monitor, key monitor, saver: wait-group members that watch the context *)
  i_conns : list cid;          (* tracked connections whose event loop is alive (each has a wait-group watcher) *)
  i_closing : list cid;        (* of those, the ones asked to close *)
  i_data : list (N * N)        (* abstract data: key -> value, private to the instance *)
}.

Record world := mkW { w_insts : list (iid * inst); w_next : cid; w_owner : list (cid * iid) }.
Definition world0 : world := mkW [] 1%N [].

Fixpoint nget {A} (m : list (N * A)) (k : N) : option A :=
  match m with [] => None | (k', v) :: r => if N.eqb k k' then Some v else nget r k end.
Fixpoint nset {A} (m : list (N * A)) (k : N) (v : A) : list (N * A) :=
  match m with [] => [(k, v)] | (k', v') :: r => if N.eqb k k' then (k, v) :: r else (k', v') :: nset r k v end.
Definition memN (x : N) (l : list N) : bool := existsb (N.eqb x) l.
Definition delN (x : N) (l : list N) : list N := filter (fun y => negb (N.eqb x y)) l.

Inductive lbl :=
| LStart (i : iid) (monitors : nat)   (* NewEmulator + Start: empty data, listener, goroutines *)
| LAccept (i : iid)                   (* a client connects *)
| LCommand (c : cid) (k v : N)        (* a connection executes a write *)
| LRequestTermination (i : iid)       (* closes the listener, cancels the context, asks every tracked connection to close *)
| LAcceptExit (i : iid)               (* accept loop sees the closed listener *)
| LMonitorExit (i : iid)              (* one context watcher sees the cancellation *)
| LConnExit (c : cid)                 (* a connection's event loop ends (after a close request, or the peer left) *)
| LPeerClose (c : cid).               (* the client closes its socket *)

Definition wstep (w : world) (l : lbl) : option world :=
  match l with
  | LStart i m =>
    match nget (w_insts w) i with
    | Some _ => None
    | None => Some (mkW (nset (w_insts w) i (mkInst true false true m [] [] [])) (w_next w) (w_owner w))
    end
  | LAccept i =>
    match nget (w_insts w) i with
    | Some x =>
      if i_listening x then
        let c := w_next w in
        Some (mkW (nset (w_insts w) i (mkInst true (i_terminating x) (i_accept_loop x) (i_monitors x) (c :: i_conns x) (i_closing x) (i_data x)))
                  (c + 1)%N (nset (w_owner w) c i))
      else None
    | None => None
    end
  | LCommand c k v =>
    match nget (w_owner w) c with
    | Some i =>
      match nget (w_insts w) i with
      | Some x =>
        if memN c (i_conns x) then
          Some (mkW (nset (w_insts w) i (mkInst (i_listening x) (i_terminating x) (i_accept_loop x) (i_monitors x) (i_conns x) (i_closing x) (nset (i_data x) k v)))
                    (w_next w) (w_owner w))
        else None
      | None => None
      end
    | None => None
    end
  | LRequestTermination i =>
    match nget (w_insts w) i with
    | Some x => Some (mkW (nset (w_insts w) i (mkInst false true (i_accept_loop x) (i_monitors x) (i_conns x) (i_conns x) (i_data x))) (w_next w) (w_owner w))
    | None => None
    end
  | LAcceptExit i =>
    match nget (w_insts w) i with
    | Some x => if negb (i_listening x) && i_accept_loop x
                then Some (mkW (nset (w_insts w) i (mkInst false (i_terminating x) false (i_monitors x) (i_conns x) (i_closing x) (i_data x))) (w_next w) (w_owner w))
                else None
    | None => None
    end
  | LMonitorExit i =>
    match nget (w_insts w) i with
    | Some x => match i_terminating x, i_monitors x with
                | true, S m => Some (mkW (nset (w_insts w) i (mkInst (i_listening x) true (i_accept_loop x) m (i_conns x) (i_closing x) (i_data x))) (w_next w) (w_owner w))
                | _, _ => None
                end
    | None => None
    end
  | LConnExit c =>
    match nget (w_owner w) c with
    | Some i =>
      match nget (w_insts w) i with
      | Some x => if memN c (i_closing x)
                  then Some (mkW (nset (w_insts w) i (mkInst (i_listening x) (i_terminating x) (i_accept_loop x) (i_monitors x) (delN c (i_conns x)) (delN c (i_closing x)) (i_data x))) (w_next w) (w_owner w))
                  else None
      | None => None
      end
    | None => None
    end
  | LPeerClose c =>
    match nget (w_owner w) c with
    | Some i =>
      match nget (w_insts w) i with
      | Some x => if memN c (i_conns x)
                  then Some (mkW (nset (w_insts w) i (mkInst (i_listening x) (i_terminating x) (i_accept_loop x) (i_monitors x) (i_conns x) (c :: i_closing x) (i_data x))) (w_next w) (w_owner w))
                  else None
      | None => None
      end
    | None => None
    end
  end.

Fixpoint wrun (w : world) (ls : list lbl) : option world :=
  match ls with [] => Some w | l :: r => match wstep w l with Some w' => wrun w' r | None => None end end.

(* WaitForTermination returns when the wait group is empty *)
Definition wg_count (x : inst) : nat := (if i_accept_loop x then 1 else 0) + i_monitors x + length (i_conns x).
Definition terminated (x : inst) : Prop := i_terminating x = true /\ wg_count x = 0.
