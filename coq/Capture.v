(* Capture.v — how a block ends (clientState.go: capture / releaseCapture / unblock /
   isBlocked after the repair: every operation is one critical section of captureMu;
   redisList.go: blockTimeoutNs and the timer branch of the select). *)
From RE Require Import Base.
From Coq Require Import List QArith Qround.
Open Scope list_scope.

Inductive reason := RTimeout | RError.       (* CLIENT UNBLOCK id TIMEOUT | ERROR *)

Record cap := mkCap {
  c_blocked : bool;            (* CS_CAPTURED *)
  c_pending : bool;            (* unblockPending *)
  c_mail : option reason;      (* the one-slot mailbox unblockCh *)
  c_closing : bool             (* the connection was asked to close (clientCxn.closing); never reset *)
}.
Definition cap0 : cap := mkCap false false None false.

Inductive cop :=
| OCapture                     (* the blocking command is about to wait *)
| ORecv                        (* its select takes the message from the mailbox *)
| ORelease                     (* it stopped waiting (for whatever reason): drain and reset *)
| OUnblock (r : reason)        (* CLIENT UNBLOCK, from any goroutine *)
| OCloseReq                    (* connection teardown (peer gone, CLIENT KILL, termination): RequestClose, then unblock *)
| OIsBlocked.                  (* CLIENT LIST / INFO flag *)

(* result: new state and what the operation returns/receives *)
Inductive cres := CNone | CBool (b : bool) | CReason (r : reason).

Definition cstep (c : cap) (o : cop) : option (cap * cres) :=
  match o with
  | OCapture =>
    if c_blocked c then None
    else if c_closing c && negb (c_pending c)
         (* the teardown's unblock came before the capture and found nothing: the capture posts it itself *)
         then Some (mkCap true true (Some RTimeout) true, CNone)
         else Some (mkCap true (c_pending c) (c_mail c) (c_closing c), CNone)
  | ORecv => match c_blocked c, c_mail c with
             | true, Some r => Some (mkCap true (c_pending c) None (c_closing c), CReason r)
             | _, _ => None
             end
  | ORelease => if c_blocked c then Some (mkCap false false None (c_closing c), CNone) else None
  | OUnblock r =>
    if c_blocked c then
      if c_pending c then Some (c, CBool true)
      else Some (mkCap true true (Some r) (c_closing c), CBool true)
    else Some (c, CBool false)
  | OCloseReq =>
    if c_blocked c then
      if c_pending c then Some (mkCap true true (c_mail c) true, CBool true)
      else Some (mkCap true true (Some RTimeout) true, CBool true)
    else Some (mkCap false (c_pending c) (c_mail c) true, CBool false)
  | OIsBlocked => Some (c, CBool (c_blocked c))
  end.

Fixpoint crun (c : cap) (os : list cop) : option (cap * list cres) :=
  match os with
  | [] => Some (c, [])
  | o :: r => match cstep c o with
              | Some (c', x) => match crun c' r with Some (c'', xs) => Some (c'', x :: xs) | None => None end
              | None => None
              end
  end.

(* ---------- timeouts ---------- *)
(* blockTimeoutNs: the timeout argument in seconds (a non-negative rational) to nanoseconds;
   0 means "wait forever", so a positive timeout never becomes 0 *)
Definition block_timeout_ns (t : Q) : Z :=
  let ns := Qfloor (t * (1000000000 # 1)) in
  if (Qlt_le_dec 0 t) then (if Z.eqb ns 0 then 1%Z else ns) else ns.

(* the timer branch: a block that started at time t0 (ns) with timeout ns > 0 may end by the
   timer only at a time >= t0 + ns; with ns = 0 the timer branch does not exist *)
Definition timer_may_fire (t0 ns now : Z) : bool := (0 <? ns)%Z && (t0 + ns <=? now)%Z.
