(* PropC20.v — emulator lifecycle (model: Lifecycle.v).

   "RequestTermination followed by WaitForTermination returns within bounded time whatever the
    clients are doing, and from then on no previously connected client can read or modify data
    ... several emulators in one process do not affect each other's clients or data." *)
From RE Require Import Base Lifecycle.
From Coq Require Import List Lia Arith.
Import ListNotations.
Open Scope list_scope.
Open Scope nat_scope.

(* ---------- finite maps and id lists ---------- *)
Lemma nget_nset_same {A} (m : list (N * A)) k v : nget (nset m k v) k = Some v.
Proof.
  induction m as [|[k' v'] m IH]; simpl.
  - rewrite N.eqb_refl; reflexivity.
  - destruct (N.eqb k k') eqn:E; simpl.
    + rewrite N.eqb_refl; reflexivity.
    + rewrite E; exact IH.
Qed.

Lemma nget_nset_other {A} (m : list (N * A)) k k' v : k' <> k -> nget (nset m k v) k' = nget m k'.
Proof.
  intro H. induction m as [|[k0 v0] m IH]; simpl.
  - destruct (N.eqb k' k) eqn:E; auto. apply N.eqb_eq in E; congruence.
  - destruct (N.eqb k k0) eqn:E; simpl.
    + apply N.eqb_eq in E; subst k0. destruct (N.eqb k' k) eqn:E2; auto.
      apply N.eqb_eq in E2; congruence.
    + destruct (N.eqb k' k0); auto.
Qed.

Lemma memN_In x l : memN x l = true <-> In x l.
Proof.
  unfold memN. rewrite existsb_exists. split.
  - intros (y & Hy & E). apply N.eqb_eq in E. subst; exact Hy.
  - intro H. exists x. split; [exact H | apply N.eqb_refl].
Qed.

Lemma In_delN y x l : In y (delN x l) <-> In y l /\ y <> x.
Proof.
  unfold delN. rewrite filter_In. split; intros [H1 H2]; split; auto.
  - intro E; subst. rewrite N.eqb_refl in H2. discriminate.
  - destruct (N.eqb x y) eqn:E; [apply N.eqb_eq in E; congruence | reflexivity].
Qed.

Lemma filter_len_le {A} (f : A -> bool) l : length (filter f l) <= length l.
Proof. induction l as [|a l IH]; simpl; [lia|]. destruct (f a); simpl; lia. Qed.

Lemma delN_head_length x l : length (delN x (x :: l)) <= length l.
Proof. unfold delN. simpl. rewrite N.eqb_refl. simpl. apply filter_len_le. Qed.

(* ---------- inversion of a step ---------- *)
Ltac step_inv Hs :=
  unfold wstep in Hs;
  repeat match type of Hs with
  | context [match nget ?m ?k with _ => _ end] => destruct (nget m k) eqn:?
  | context [if ?b then _ else _] => destruct b eqn:?
  | context [match i_monitors ?x with _ => _ end] => destruct (i_monitors x) eqn:?
  end; try discriminate; inversion Hs; subst; clear Hs.

(* ---------- 1. the invariant ---------- *)
Record inv (w : world) : Prop := mkInv {
  inv_closing : forall i x c, nget (w_insts w) i = Some x -> In c (i_closing x) -> In c (i_conns x);
  inv_owner : forall i x c, nget (w_insts w) i = Some x -> In c (i_conns x) -> nget (w_owner w) c = Some i;
  inv_fresh : forall c i, nget (w_owner w) c = Some i -> (c < w_next w)%N;
  inv_term : forall i x, nget (w_insts w) i = Some x -> i_terminating x = true ->
             i_listening x = false /\ forall c, In c (i_conns x) -> In c (i_closing x)
}.

Lemma inv0 : inv world0.
Proof. split; simpl; intros; discriminate. Qed.

(* replacing one instance record *)
Lemma inv_update w i x' next' owner' :
  inv w ->
  (forall c, In c (i_closing x') -> In c (i_conns x')) ->
  (forall c, In c (i_conns x') -> nget owner' c = Some i) ->
  (forall c j, nget (w_owner w) c = Some j -> nget owner' c = Some j) ->
  (forall c j, nget owner' c = Some j -> (c < next')%N) ->
  (i_terminating x' = true -> i_listening x' = false /\ forall c, In c (i_conns x') -> In c (i_closing x')) ->
  inv (mkW (nset (w_insts w) i x') next' owner').
Proof.
  intros [I1 I2 I3 I4] H1 H2 H3 H4 H5. split; simpl.
  - intros j y c Hj Hc. destruct (N.eq_dec j i) as [->|Hn].
    + rewrite nget_nset_same in Hj. inversion Hj; subst. auto.
    + rewrite nget_nset_other in Hj by exact Hn. eauto.
  - intros j y c Hj Hc. destruct (N.eq_dec j i) as [->|Hn].
    + rewrite nget_nset_same in Hj. inversion Hj; subst. auto.
    + rewrite nget_nset_other in Hj by exact Hn. eauto.
  - exact H4.
  - intros j y Hj Ht. destruct (N.eq_dec j i) as [->|Hn].
    + rewrite nget_nset_same in Hj. inversion Hj; subst. auto.
    + rewrite nget_nset_other in Hj by exact Hn. eauto.
Qed.

Lemma wstep_inv w l w' : inv w -> wstep w l = Some w' -> inv w'.
Proof.
  intros Hi Hs. pose proof Hi as [I1 I2 I3 I4].
  destruct l as [i m|i|c k v|i|i|i|c|c]; step_inv Hs.
  - (* LStart *)
    apply inv_update; simpl; auto; try contradiction; try discriminate.
  - (* LAccept *)
    rename i0 into x. apply inv_update; simpl; auto.
    + intros c Hc. right. eapply I1; eauto.
    + intros c [<-|Hc]; [apply nget_nset_same|].
      assert (Ho := I2 _ _ _ Heqo Hc). assert (Hf := I3 _ _ Ho).
      rewrite nget_nset_other by lia. exact Ho.
    + intros c j Ho. assert (Hf := I3 _ _ Ho). rewrite nget_nset_other by lia. exact Ho.
    + intros c j Ho. destruct (N.eq_dec c (w_next w)) as [->|Hn]; [lia|].
      rewrite nget_nset_other in Ho by exact Hn. assert (Hf := I3 _ _ Ho). lia.
    + intro Ht. destruct (I4 _ _ Heqo Ht) as [Hl _]. congruence.
  - (* LCommand *)
    rename i0 into x. apply inv_update; simpl; eauto.
  - (* LRequestTermination *)
    rename i0 into x. apply inv_update; simpl; eauto.
  - (* LAcceptExit *)
    rename i0 into x. apply inv_update; simpl; eauto.
    intro Ht. split; [reflexivity|]. apply (I4 _ _ Heqo Ht).
  - (* LMonitorExit *)
    rename i0 into x. apply inv_update; simpl; eauto.
  - (* LConnExit *)
    rename i0 into x. apply inv_update; simpl; eauto.
    + intros c' Hc'. apply In_delN in Hc' as [Hc' Hn]. apply In_delN. split; eauto.
    + intros c' Hc'. apply In_delN in Hc' as [Hc' Hn]. eauto.
    + intro Ht. destruct (I4 _ _ Heqo0 Ht) as [Hl Hc]. split; [exact Hl|].
      intros c' Hc'. apply In_delN in Hc' as [Hc' Hn]. apply In_delN. split; auto.
  - (* LPeerClose *)
    rename i0 into x. apply inv_update; simpl; eauto.
    + intros c' [<-|Hc']; [apply memN_In; exact Heqb | eauto].
    + intro Ht. destruct (I4 _ _ Heqo0 Ht) as [Hl Hc]. split; [exact Hl|]. intros c' Hc'. right; auto.
Qed.

Lemma wrun_cons w l ls w' : wrun w (l :: ls) = Some w' -> exists w1, wstep w l = Some w1 /\ wrun w1 ls = Some w'.
Proof. cbn [wrun]. destruct (wstep w l) as [w1|]; intro H; [eauto | discriminate H]. Qed.

Lemma wrun_inv ls : forall w w', inv w -> wrun w ls = Some w' -> inv w'.
Proof.
  induction ls as [|l ls IH]; intros w w' Hi Hr.
  - simpl in Hr. inversion Hr; subst; exact Hi.
  - apply wrun_cons in Hr as (w1 & Hs & Hr). eapply IH; [eapply wstep_inv; eauto | exact Hr].
Qed.

Lemma wrun_app ls1 : forall ls2 w w',
  wrun w (ls1 ++ ls2) = Some w' <-> exists w1, wrun w ls1 = Some w1 /\ wrun w1 ls2 = Some w'.
Proof.
  induction ls1 as [|l ls1 IH]; intros ls2 w w'; simpl.
  - split; [intro H; eauto | intros (w1 & H1 & H2); inversion H1; subst; exact H2].
  - destruct (wstep w l) as [w1|]; [apply IH|]. split; [discriminate | intros (w1 & H1 & _); discriminate].
Qed.

(* In every reachable world:
   - the connections asked to close are tracked connections;
   - a tracked connection belongs to exactly one instance, the one recorded as its owner, and its
     id is below the next fresh id;
   - an instance on which RequestTermination was called does not listen, and every connection it
     still tracks was asked to close. *)
Theorem C20_invariants ls w :
  wrun world0 ls = Some w ->
  (forall i x c, nget (w_insts w) i = Some x -> In c (i_closing x) -> In c (i_conns x)) /\
  (forall i x c, nget (w_insts w) i = Some x -> In c (i_conns x) ->
                 nget (w_owner w) c = Some i /\ (c < w_next w)%N) /\
  (forall i j x y c, nget (w_insts w) i = Some x -> nget (w_insts w) j = Some y ->
                     In c (i_conns x) -> In c (i_conns y) -> i = j) /\
  (forall i x, nget (w_insts w) i = Some x -> i_terminating x = true ->
               i_listening x = false /\ (forall c, In c (i_conns x) -> In c (i_closing x)) /\
               wstep w (LAccept i) = None).
Proof.
  intro Hr. destruct (wrun_inv _ _ _ inv0 Hr) as [I1 I2 I3 I4].
  split; [exact I1|]. split; [|split].
  - intros i x c Hx Hc. assert (Ho := I2 _ _ _ Hx Hc). split; [exact Ho | eapply I3; exact Ho].
  - intros i j x y c Hx Hy Hcx Hcy. assert (H1 := I2 _ _ _ Hx Hcx). assert (H2 := I2 _ _ _ Hy Hcy). congruence.
  - intros i x Hx Ht. destruct (I4 _ _ Hx Ht) as [Hl Hc]. split; [exact Hl|]. split; [exact Hc|].
    simpl. rewrite Hx, Hl. reflexivity.
Qed.
Print Assumptions C20_invariants.

(* RequestTermination closes the listener and marks the instance as terminating ... *)
Theorem C20_request_effect w i w' :
  wstep w (LRequestTermination i) = Some w' ->
  exists x x', nget (w_insts w) i = Some x /\ nget (w_insts w') i = Some x' /\
    i_listening x' = false /\ i_terminating x' = true /\
    i_closing x' = i_conns x /\ i_conns x' = i_conns x /\ i_data x' = i_data x /\
    wg_count x' = wg_count x.
Proof.
  intro Hs. step_inv Hs. rename i0 into x. exists x. eexists. split; [reflexivity|]. simpl.
  rewrite nget_nset_same. split; [reflexivity|]. simpl. unfold wg_count. simpl. auto 10.
Qed.
Print Assumptions C20_request_effect.

(* ... and instances are never removed and never stop terminating *)
Lemma wstep_keeps w l w' i x :
  wstep w l = Some w' -> nget (w_insts w) i = Some x ->
  exists x', nget (w_insts w') i = Some x' /\ (i_terminating x = true -> i_terminating x' = true).
Proof.
  intros Hs Hx.
  destruct l as [i0 m|i0|c k v|i0|i0|i0|c|c]; step_inv Hs; simpl;
    try rename i1 into i0;
    (destruct (N.eq_dec i i0) as [->|Hn];
     [ rewrite nget_nset_same; eexists; split; [reflexivity|]; simpl; try congruence; auto
     | rewrite nget_nset_other by exact Hn; eauto ]).
Qed.

(* ... forever: in every later world the instance is still terminating, does not listen, refuses
   new connections, and every connection it tracks was asked to close *)
Theorem C20_terminating_forever ls0 w ls w' i x :
  wrun world0 ls0 = Some w -> nget (w_insts w) i = Some x -> i_terminating x = true ->
  wrun w ls = Some w' ->
  exists x', nget (w_insts w') i = Some x' /\ i_terminating x' = true /\ i_listening x' = false /\
             (forall c, In c (i_conns x') -> In c (i_closing x')) /\
             wstep w' (LAccept i) = None.
Proof.
  intros Hr0 Hx Ht Hr.
  assert (Hk : exists x', nget (w_insts w') i = Some x' /\ i_terminating x' = true).
  { clear Hr0. revert w x Hx Ht Hr. induction ls as [|l ls IH]; intros w x Hx Ht Hr.
    - simpl in Hr. inversion Hr; subst. eauto.
    - apply wrun_cons in Hr as (w1 & Hs & Hr).
      destruct (wstep_keeps _ _ _ _ _ Hs Hx) as (x1 & Hx1 & Ht1). eapply IH; eauto. }
  destruct Hk as (x' & Hx' & Ht').
  assert (Hr' : wrun world0 (ls0 ++ ls) = Some w') by (apply wrun_app; eauto).
  destruct (C20_invariants _ _ Hr') as (_ & _ & _ & H4).
  destruct (H4 _ _ Hx' Ht') as (Hl & Hc & Ha). exists x'. auto 6.
Qed.
Print Assumptions C20_terminating_forever.

(* ---------- 4. instances do not affect each other ---------- *)
(* the instance a label acts on *)
Definition lbl_target (w : world) (l : lbl) : option iid :=
  match l with
  | LStart i _ | LAccept i | LRequestTermination i | LAcceptExit i | LMonitorExit i => Some i
  | LCommand c _ _ | LConnExit c | LPeerClose c => nget (w_owner w) c
  end.

Theorem C20_instances_isolated w l w' :
  wstep w l = Some w' ->
  exists i, lbl_target w l = Some i /\
            forall j, j <> i -> nget (w_insts w') j = nget (w_insts w) j.
Proof.
  intro Hs.
  destruct l as [i0 m|i0|c k v|i0|i0|i0|c|c]; step_inv Hs; simpl;
    eexists; (split; [first [reflexivity | eassumption]|]);
    intros j Hj; apply nget_nset_other; exact Hj.
Qed.
Print Assumptions C20_instances_isolated.

(* a whole run of labels none of which targets instance j leaves j's record (its data, its
   connections, its goroutines) exactly as it was *)
Fixpoint avoids (w : world) (j : iid) (ls : list lbl) : Prop :=
  match ls with
  | [] => True
  | l :: r => lbl_target w l <> Some j /\
              match wstep w l with Some w1 => avoids w1 j r | None => True end
  end.

Theorem C20_isolated_run ls : forall w w' j,
  wrun w ls = Some w' -> avoids w j ls -> nget (w_insts w') j = nget (w_insts w) j.
Proof.
  induction ls as [|l ls IH]; intros w w' j Hr Ha.
  - simpl in Hr. inversion Hr; reflexivity.
  - apply wrun_cons in Hr as (w1 & Hs & Hr). simpl in Ha. destruct Ha as [Hn Ha]. rewrite Hs in Ha.
    rewrite (IH _ _ _ Hr Ha). destruct (C20_instances_isolated _ _ _ Hs) as (i & Ht & Hiso).
    apply Hiso. congruence.
Qed.
Print Assumptions C20_isolated_run.

Theorem C20_fresh_start w i m w' :
  wstep w (LStart i m) = Some w' ->
  nget (w_insts w) i = None /\
  nget (w_insts w') i = Some (mkInst true false true m [] [] []) /\
  w_owner w' = w_owner w /\ w_next w' = w_next w.
Proof.
  intro Hs. step_inv Hs. split; [reflexivity|]. simpl. rewrite nget_nset_same. auto.
Qed.
Print Assumptions C20_fresh_start.

(* a write through connection c lands in the data of c's owner and nowhere else *)
Theorem C20_data_private w c k v w' :
  wstep w (LCommand c k v) = Some w' ->
  exists i x x', nget (w_owner w) c = Some i /\ nget (w_insts w) i = Some x /\ In c (i_conns x) /\
    nget (w_insts w') i = Some x' /\ i_data x' = nset (i_data x) k v /\
    forall j, j <> i -> nget (w_insts w') j = nget (w_insts w) j.
Proof.
  intro Hs. step_inv Hs. rename i0 into x. exists i, x. eexists. split; [first [reflexivity | eassumption]|].
  split; [first [reflexivity | eassumption]|]. split; [apply memN_In; assumption|]. simpl. rewrite nget_nset_same.
  split; [reflexivity|]. split; [reflexivity|]. intros j Hj. apply nget_nset_other; exact Hj.
Qed.
Print Assumptions C20_data_private.

(* ---------- 2. after termination no client has access ---------- *)
Lemma terminated_no_conns x : terminated x -> i_conns x = [] /\ i_accept_loop x = false /\ i_monitors x = 0.
Proof.
  intros [_ H]. unfold wg_count in H. destruct (i_accept_loop x); [simpl in H; lia|].
  destruct (i_conns x); [|simpl in H; lia]. split; [reflexivity|]. split; [reflexivity|]. simpl in H. lia.
Qed.

Lemma terminated_step w l w' i x :
  inv w -> nget (w_insts w) i = Some x -> terminated x -> wstep w l = Some w' ->
  exists x', nget (w_insts w') i = Some x' /\ terminated x' /\ i_data x' = i_data x.
Proof.
  intros Hi Hx Ht Hs. destruct (C20_instances_isolated _ _ _ Hs) as (i0 & Htg & Hiso).
  destruct (N.eq_dec i i0) as [<-|Hn]; [|exists x; rewrite Hiso by exact Hn; auto].
  destruct (terminated_no_conns _ Ht) as (Hc & Ha & Hm). destruct Ht as [Htt Hwg].
  destruct (inv_term _ Hi _ _ Hx Htt) as [Hl Hcl].
  assert (Hclo : i_closing x = []).
  { destruct (i_closing x) as [|c r] eqn:E; [reflexivity|].
    assert (Hin : In c (i_conns x)) by (eapply (inv_closing _ Hi); [exact Hx | rewrite E; left; reflexivity]).
    rewrite Hc in Hin. contradiction. }
  destruct l as [i1 m|i1|c k v|i1|i1|i1|c|c]; simpl in Htg; step_inv Hs;
    try (inversion Htg; subst); try congruence;
    try (rewrite Hx in *;
         repeat match goal with H : Some _ = Some _ |- _ => inversion H; subst; clear H end).
  - (* LCommand *) rewrite Hc in Heqb. discriminate.
  - (* LRequestTermination *)
    simpl. rewrite nget_nset_same. eexists. split; [reflexivity|]. split; [|reflexivity].
    split; [reflexivity|]. unfold wg_count in *. simpl. exact Hwg.
  - (* LAcceptExit *) rewrite Ha, Bool.andb_false_r in Heqb. discriminate.
  - (* LConnExit *) rewrite Hclo in Heqb. discriminate.
  - (* LPeerClose *) rewrite Hc in Heqb. discriminate.
Qed.

(* Once WaitForTermination can return (the instance is terminated), in this and every later
   world: the instance tracks no connection, so no command of any connection it ever owned is
   enabled, no new connection is accepted, and its data never changes again. *)
Theorem C20_no_access_after_close ls0 w i x :
  wrun world0 ls0 = Some w -> nget (w_insts w) i = Some x -> terminated x ->
  i_conns x = [] /\
  (forall c k v, nget (w_owner w) c = Some i -> wstep w (LCommand c k v) = None) /\
  wstep w (LAccept i) = None /\
  forall ls w', wrun w ls = Some w' ->
    exists x', nget (w_insts w') i = Some x' /\ terminated x' /\ i_data x' = i_data x /\
      (forall c k v, nget (w_owner w') c = Some i -> wstep w' (LCommand c k v) = None) /\
      wstep w' (LAccept i) = None.
Proof.
  intros Hr0 Hx Ht.
  assert (Hi : inv w) by (eapply wrun_inv; [exact inv0 | exact Hr0]).
  assert (Hnow : forall w x, inv w -> nget (w_insts w) i = Some x -> terminated x ->
            i_conns x = [] /\
            (forall c k v, nget (w_owner w) c = Some i -> wstep w (LCommand c k v) = None) /\
            wstep w (LAccept i) = None).
  { clear. intros w x Hi Hx Ht. destruct (terminated_no_conns _ Ht) as (Hc & _ & _).
    destruct Ht as [Htt _]. destruct (inv_term _ Hi _ _ Hx Htt) as [Hl _].
    split; [exact Hc|]. split.
    - intros c k v Ho. simpl. rewrite Ho, Hx, Hc. reflexivity.
    - simpl. rewrite Hx, Hl. reflexivity. }
  destruct (Hnow _ _ Hi Hx Ht) as (H1 & H2 & H3). split; [exact H1|]. split; [exact H2|]. split; [exact H3|].
  intros ls. clear Hr0 H1 H2 H3. revert w x Hi Hx Ht.
  induction ls as [|l ls IH]; intros w x Hi Hx Ht w' Hr.
  - simpl in Hr. inversion Hr; subst. exists x. destruct (Hnow _ _ Hi Hx Ht) as (_ & H2 & H3). auto.
  - apply wrun_cons in Hr as (w1 & Hs & Hr).
    destruct (terminated_step _ _ _ _ _ Hi Hx Ht Hs) as (x1 & Hx1 & Ht1 & Hd1).
    destruct (IH _ _ (wstep_inv _ _ _ Hi Hs) Hx1 Ht1 _ Hr) as (x' & Hx' & Ht' & Hd' & Hrest).
    exists x'. rewrite Hd', Hd1. auto.
Qed.
Print Assumptions C20_no_access_after_close.

(* ---------- 3. termination can always complete ---------- *)
(* steps of the emulator itself for instance i: its goroutines leaving the wait group *)
Definition exit_lbl (w : world) (i : iid) (l : lbl) : Prop :=
  l = LAcceptExit i \/ l = LMonitorExit i \/ exists c, l = LConnExit c /\ nget (w_owner w) c = Some i.

Lemma close_returns_gen n : forall w i x,
  inv w -> nget (w_insts w) i = Some x -> i_terminating x = true -> wg_count x <= n ->
  exists ls w' x', Forall (exit_lbl w i) ls /\ length ls <= wg_count x /\
     wrun w ls = Some w' /\ nget (w_insts w') i = Some x' /\ terminated x' /\
     i_data x' = i_data x /\ w_owner w' = w_owner w.
Proof.
  induction n as [|n IH]; intros w i x Hi Hx Ht Hn.
  - exists [], w, x. simpl. repeat split; auto; lia.
  - destruct (inv_term _ Hi _ _ Hx Ht) as [Hl Hcl].
    (* pick a wait-group member and let it leave *)
    assert (Hstep : wg_count x = 0 \/
              exists l w1 x1, exit_lbl w i l /\ wstep w l = Some w1 /\ nget (w_insts w1) i = Some x1 /\
                i_terminating x1 = true /\ wg_count x1 < wg_count x /\ i_data x1 = i_data x /\
                w_owner w1 = w_owner w).
    { destruct (i_accept_loop x) eqn:Ea.
      { right. exists (LAcceptExit i). eexists. eexists. split; [left; reflexivity|].
        simpl. rewrite Hx, Hl, Ea. simpl. split; [reflexivity|]. simpl. rewrite nget_nset_same.
        split; [reflexivity|]. simpl. unfold wg_count. rewrite Ea. simpl. repeat split; auto. }
      destruct (i_monitors x) as [|mo] eqn:Em.
      2:{ right. exists (LMonitorExit i). eexists. eexists. split; [right; left; reflexivity|].
          simpl. rewrite Hx, Ht, Em. split; [reflexivity|]. simpl. rewrite nget_nset_same.
          split; [reflexivity|]. simpl. unfold wg_count. rewrite Ea, Em. simpl. repeat split; auto. }
      destruct (i_conns x) as [|c cs] eqn:Ec.
      { left. unfold wg_count. rewrite Ea, Em, Ec. reflexivity. }
      right. assert (Hin : In c (i_conns x)) by (rewrite Ec; left; reflexivity).
      assert (Ho : nget (w_owner w) c = Some i) by (eapply (inv_owner _ Hi); eauto).
      assert (Hm : memN c (i_closing x) = true) by (apply memN_In; apply Hcl; first [exact Hin | left; reflexivity]).
      exists (LConnExit c). eexists. eexists. split; [right; right; exists c; auto|].
      simpl. rewrite Ho, Hx, Hm. split; [reflexivity|]. simpl. rewrite nget_nset_same.
      split; [reflexivity|]. pose proof (delN_head_length c cs) as Hdl.
      unfold wg_count. rewrite Ea, Em, Ec. cbn [i_terminating i_accept_loop i_monitors i_conns i_data w_owner length].
      repeat split; auto. unfold cid in *. lia. }
    destruct Hstep as [H0|(l & w1 & x1 & Hel & Hs & Hx1 & Ht1 & Hlt & Hd1 & Ho1)].
    + exists [], w, x. simpl. repeat split; auto; lia.
    + destruct (IH w1 i x1 (wstep_inv _ _ _ Hi Hs) Hx1 Ht1 ltac:(lia))
        as (ls & w' & x' & Hf & Hlen & Hr & Hx' & Htm & Hd' & Ho').
      exists (l :: ls), w', x'. split.
      { constructor; [exact Hel|]. eapply Forall_impl; [|exact Hf].
        intros l0 [H|[H|(c & H & Hc)]]; [left; exact H | right; left; exact H |].
        right; right. exists c. rewrite <- Ho1. auto. }
      split; [simpl; lia|]. split; [simpl; rewrite Hs; exact Hr|].
      split; [exact Hx'|]. split; [exact Htm|]. split; [congruence | congruence].
Qed.

(* Termination can always complete, whatever the clients do: from any reachable world in which
   RequestTermination was called on instance i, the emulator's own goroutines (accept loop,
   context watchers, connection event loops — no step by any client) can leave the wait group
   one after the other, in at most wg_count steps, after which WaitForTermination returns. *)
Theorem C20_close_returns ls0 w i x :
  wrun world0 ls0 = Some w -> nget (w_insts w) i = Some x -> i_terminating x = true ->
  exists ls w' x',
    Forall (exit_lbl w i) ls /\ length ls <= wg_count x /\
    wrun w ls = Some w' /\ nget (w_insts w') i = Some x' /\ terminated x' /\ i_data x' = i_data x.
Proof.
  intros Hr Hx Ht.
  destruct (close_returns_gen (wg_count x) w i x (wrun_inv _ _ _ inv0 Hr) Hx Ht (le_n _))
    as (ls & w' & x' & H1 & H2 & H3 & H4 & H5 & H6 & _).
  exists ls, w', x'. auto 7.
Qed.
Print Assumptions C20_close_returns.

(* no client step can disable an exit step of the emulator: each wait-group member's exit stays
   enabled until it is taken (progress does not depend on the order chosen above) *)
Theorem C20_exit_enabled ls0 w i x :
  wrun world0 ls0 = Some w -> nget (w_insts w) i = Some x -> i_terminating x = true ->
  (i_accept_loop x = true -> wstep w (LAcceptExit i) <> None) /\
  (i_monitors x <> 0 -> wstep w (LMonitorExit i) <> None) /\
  (forall c, In c (i_conns x) -> wstep w (LConnExit c) <> None).
Proof.
  intros Hr Hx Ht. assert (Hi := wrun_inv _ _ _ inv0 Hr).
  destruct (inv_term _ Hi _ _ Hx Ht) as [Hl Hcl]. split; [|split].
  - intro Ha. simpl. rewrite Hx, Hl, Ha. discriminate.
  - intro Hm. simpl. rewrite Hx, Ht. destruct (i_monitors x); [congruence | discriminate].
  - intros c Hc. simpl. rewrite (inv_owner _ Hi _ _ _ Hx Hc), Hx.
    assert (Hm : memN c (i_closing x) = true) by (apply memN_In; auto). rewrite Hm. discriminate.
Qed.
Print Assumptions C20_exit_enabled.

(* ---------- example: two emulators in one process ---------- *)
Local Open Scope N_scope.
Definition ex_run : list lbl :=
  [ LStart 1 3%nat; LStart 2 3%nat; LAccept 1; LAccept 2; LAccept 1;      (* connections 1,3 -> A; 2 -> B *)
    LCommand 1 7 70; LCommand 2 7 71;
    LRequestTermination 1;
    LCommand 3 8 80;                                               (* a client races with shutdown *)
    LPeerClose 2;
    LAcceptExit 1; LMonitorExit 1; LMonitorExit 1; LMonitorExit 1; LConnExit 1; LConnExit 3 ].

Example C20_example :
  match wrun world0 ex_run with
  | Some w =>
    match nget (w_insts w) 1, nget (w_insts w) 2 with
    | Some a, Some b =>
        wg_count a = 0%nat /\ i_terminating a = true /\ i_conns a = [] /\
        i_data a = [(7, 70); (8, 80)] /\
        i_data b = [(7, 71)] /\ i_listening b = true /\ i_conns b = [2] /\ wg_count b = 5%nat /\
        wstep w (LCommand 1 9 9) = None /\ wstep w (LCommand 3 9 9) = None /\ wstep w (LAccept 1) = None /\
        wstep w (LCommand 2 9 9) <> None
    | _, _ => False
    end
  | None => False
  end.
Proof. vm_compute. repeat split; discriminate. Qed.

(* the closing sequence of C20_close_returns on the example: after the first ten labels instance 1
   is terminating with six wait-group members (accept loop, three monitors, two connections);
   the remaining six labels are exit steps of the emulator only and empty the wait group *)
Example C20_close_example :
  match wrun world0 (firstn 10 ex_run) with
  | Some w =>
    match nget (w_insts w) 1 with
    | Some x => i_terminating x = true /\ wg_count x = 6%nat /\
                skipn 10 ex_run = [LAcceptExit 1; LMonitorExit 1; LMonitorExit 1; LMonitorExit 1; LConnExit 1; LConnExit 3] /\
                nget (w_owner w) 1 = Some 1 /\ nget (w_owner w) 3 = Some 1 /\
                match wrun w (skipn 10 ex_run) with
                | Some w' => match nget (w_insts w') 1 with Some x' => wg_count x' = 0%nat | None => False end
                | None => False
                end
    | None => False
    end
  | None => False
  end.
Proof. vm_compute. repeat split. Qed.
