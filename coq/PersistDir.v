(* PersistDir.v — start-up loader over a directory and the save of all databases
   (dataStoreSet.go: newDataStoreSet, save, dataStoreFileName; dataStorePersist.go: save via a
   temporary file). Model only; theorems are in PropC19Dir.v. *)
From Coq Require Import List ZArith NArith Bool String.
From RE Require Import Base State Persist.
Import ListNotations.
Open Scope Z_scope.

(* ---------- file names ---------- *)
Definition file_base (base : bytes) : bytes := base ++ s2b ".db".
(* fmt.Sprintf("%s.db%d", basePath, index) *)
Definition db_file (base : bytes) (n : N) : bytes := file_base base ++ N_to_bytes n.
(* the temporary file of a save: the final name followed by ".tmp" *)
Definition tmp_file (base : bytes) (n : N) : bytes := db_file base n ++ s2b ".tmp".

(* strings.HasPrefix(name, p) and name[len(p):] *)
Fixpoint strip_prefix (p s : bytes) : option bytes :=
  match p, s with
  | [], _ => Some s
  | x :: p', y :: s' => if N.eqb x y then strip_prefix p' s' else None
  | _ :: _, [] => None
  end.

(* strconv.ParseInt(s, 10, 32) *)
Definition parse_i32 (s : bytes) : option Z :=
  match parse_i64 s with
  | Some z => if (-2147483648 <=? z) && (z <=? 2147483647) then Some z else None
  | None => None
  end.

(* the database index a file name stands for, if the loader considers the file at all *)
Definition file_index (base name : bytes) : option Z :=
  match strip_prefix (file_base base) name with
  | Some rest => parse_i32 rest
  | None => None
  end.

(* ---------- the directory walk ---------- *)
(* one regular file as filepath.WalkDir reports it, in walk order; e_sub: the file lies in a
   subdirectory of the persist directory (skipped since fix e3bc9ce) *)
Record dent := mkDent { e_sub : bool; e_name : bytes; e_data : list rec }.

Inductive boot :=
| BootPanic                         (* nil database dereferenced: a file whose index lies outside 0..15 *)
| Booted (dbs : list (Z * db)).     (* databases that were loaded, by index; all others start empty *)

Fixpoint zset (m : list (Z * db)) (k : Z) (v : db) : list (Z * db) :=
  match m with
  | [] => [(k, v)]
  | (k', v') :: r => if Z.eqb k k' then (k, v) :: r else (k', v') :: zset r k v
  end.
Fixpoint zget (m : list (Z * db)) (k : Z) : option db :=
  match m with
  | [] => None
  | (k', v) :: r => if Z.eqb k k' then Some v else zget r k
  end.

Definition valid_index (n : Z) : bool := (0 <=? n) && (n <=? 15).

(* the walk callback; a load error ends the walk, what was loaded before stays *)
Fixpoint boot_walk (base : bytes) (ents : list dent) (acc : list (Z * db)) : boot :=
  match ents with
  | [] => Booted acc
  | e :: r =>
    if e_sub e then boot_walk base r acc else
    match file_index base (e_name e) with
    | None => boot_walk base r acc
    | Some n =>
      if negb (valid_index n) then BootPanic else      (* dss.dbs[n] is nil: newDataStoreCommand dereferences it *)
      match load (e_data e) with
      | None => Booted acc
      | Some d => boot_walk base r (zset acc n d)
      end
    end
  end.

Definition boot_dir (base : bytes) (ents : list dent) : boot := boot_walk base ents [].

(* the content database n starts with *)
Definition booted_db (b : boot) (n : Z) : option db :=
  match b with Booted dbs => Some (match zget dbs n with Some d => d | None => empty_db end) | BootPanic => None end.

(* the files of the persist directory itself, as entries (walk order = order of the list) *)
Definition dir_of_fs (s : fs) : list dent := map (fun nr => mkDent false (fst nr) (snd nr)) s.

(* ---------- saving all databases ---------- *)
(* dataStoreSet.save: every database in turn (map order: any), each through dataStoreCommand.save,
   which writes nothing unless the database is dirty *)
Definition save_db_ops (base : bytes) (nd : N * db) : list fsop :=
  if d_dirty (snd nd) then save_ops (tmp_file base (fst nd)) (db_file base (fst nd)) (snd nd) else [].
Definition save_all_ops (base : bytes) (dbs : list (N * db)) : list fsop :=
  concat (map (save_db_ops base) dbs).

(* for the correspondence check: which entry (position in the walk) each database was loaded from;
   None = BootPanic. Same recursion as boot_walk with the file contents abstracted to "loads / does not load" *)
Fixpoint plan_walk (base : bytes) (ents : list (bool * bytes * bool)) (pos : N) (acc : list (Z * N)) : option (list (Z * N)) :=
  match ents with
  | [] => Some acc
  | (sub, name, ok) :: r =>
    if sub then plan_walk base r (N.succ pos) acc else
    match file_index base name with
    | None => plan_walk base r (N.succ pos) acc
    | Some n =>
      if negb (valid_index n) then None else
      if negb ok then Some acc else
      plan_walk base r (N.succ pos) ((n, pos) :: filter (fun kp => negb (Z.eqb (fst kp) n)) acc)
    end
  end.
Definition load_plan (base : bytes) (ents : list (bool * bytes * bool)) : option (list (Z * N)) := plan_walk base ents 0%N [].
