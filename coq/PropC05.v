(* PropC05.v — set commands (property C05).
   SINTER/SUNION/SDIFF compute exactly the mathematical intersection / union /
   difference of their operands, never modify an operand, and the STORE forms
   replace the destination with exactly that result, also when the destination
   is one of the operands.  Nothing here changes a model file. *)
From RE Require Import Base Resp State Exec Lemmas.
From Coq Require Import List ZArith NArith Lia Bool.
From Coq Require Import String.
Import ListNotations.
Open Scope string_scope.
Open Scope list_scope.
Open Scope Z_scope.

(* ------------------------------------------------------------------ *)
(* 0. membership test, removal, dedup                                  *)
(* ------------------------------------------------------------------ *)

Lemma mem_bytes_In x l : mem_bytes x l = true <-> In x l.
Proof.
  induction l as [|y l IH]; simpl.
  - split; [discriminate | intros []].
  - rewrite orb_true_iff, IH, bytes_eqb_eq. split; intros [H|H]; auto.
Qed.

Lemma mem_bytes_nIn x l : mem_bytes x l = false <-> ~ In x l.
Proof.
  rewrite <- mem_bytes_In. destruct (mem_bytes x l); split; intro H; congruence.
Qed.

Lemma dedup_bytes_In x l : In x (dedup_bytes l) <-> In x l.
Proof.
  induction l as [|y l IH]; simpl; [tauto|].
  destruct (mem_bytes y l) eqn:E.
  - apply mem_bytes_In in E. rewrite IH. split; [auto|]. intros [H|H]; [subst; exact E | exact H].
  - simpl. rewrite IH. tauto.
Qed.

Lemma dedup_bytes_NoDup l : NoDup (dedup_bytes l).
Proof.
  induction l as [|y l IH]; simpl; [constructor|].
  destruct (mem_bytes y l) eqn:E; [exact IH|].
  constructor; [|exact IH]. rewrite dedup_bytes_In. apply mem_bytes_nIn. exact E.
Qed.

Lemma remove_bytes_filter x l : remove_bytes x l = filter (fun y => negb (bytes_eqb x y)) l.
Proof.
  induction l as [|y l IH]; simpl; [reflexivity|].
  destruct (bytes_eqb x y); simpl; rewrite IH; reflexivity.
Qed.

Lemma remove_bytes_In x y l : In y (remove_bytes x l) <-> In y l /\ y <> x.
Proof.
  rewrite remove_bytes_filter, filter_In, negb_true_iff, bytes_eqb_neq.
  split; intros [H1 H2]; split; auto.
Qed.

Lemma remove_bytes_NoDup x l : NoDup l -> NoDup (remove_bytes x l).
Proof. rewrite remove_bytes_filter. apply NoDup_filter. Qed.

(* ------------------------------------------------------------------ *)
(* 1. the algebra: membership in the results, for any number of operands *)
(* ------------------------------------------------------------------ *)

Theorem sinter_l_In x ops :
  In x (sinter_l ops) <-> ops <> [] /\ forall s, In s ops -> In x s.
Proof.
  destruct ops as [|s r]; simpl.
  - split; [intros [] | intros [H _]; congruence].
  - rewrite filter_In, forallb_forall. split.
    + intros [Hs Hr]. split; [discriminate|]. intros t [Ht|Ht]; [subst; exact Hs|].
      apply mem_bytes_In. apply Hr. exact Ht.
    + intros [_ H]. split; [apply H; left; reflexivity|].
      intros t Ht. apply mem_bytes_In. apply H. right. exact Ht.
Qed.
Print Assumptions sinter_l_In.

Theorem sunion_l_In x ops :
  In x (sunion_l ops) <-> exists s, In s ops /\ In x s.
Proof.
  unfold sunion_l. rewrite dedup_bytes_In, <- in_rev, dedup_bytes_In, <- in_rev, in_concat.
  reflexivity.
Qed.
Print Assumptions sunion_l_In.

Theorem sdiff_l_In x s r :
  In x (sdiff_l (s :: r)) <-> In x s /\ forall t, In t r -> ~ In x t.
Proof.
  simpl. rewrite filter_In, negb_true_iff. split.
  - intros [Hs He]. split; [exact Hs|]. intros t Ht Hx.
    assert (existsb (mem_bytes x) r = true) as Ht'.
    { apply existsb_exists. exists t. split; [exact Ht | apply mem_bytes_In; exact Hx]. }
    congruence.
  - intros [Hs Hn]. split; [exact Hs|].
    destruct (existsb (mem_bytes x) r) eqn:E; [|reflexivity].
    apply existsb_exists in E. destruct E as [t [Ht Hx]]. apply mem_bytes_In in Hx.
    exfalso. exact (Hn t Ht Hx).
Qed.
Print Assumptions sdiff_l_In.

Lemma sdiff_l_nil : sdiff_l [] = [] /\ sinter_l [] = [] /\ sunion_l [] = [].
Proof. repeat split. Qed.

(* results are duplicate free (the union even for arbitrary operands) *)
Theorem sinter_l_NoDup ops : (forall s, In s ops -> NoDup s) -> NoDup (sinter_l ops).
Proof.
  destruct ops as [|s r]; simpl; intro H; [constructor|].
  apply NoDup_filter. apply H. left. reflexivity.
Qed.
Print Assumptions sinter_l_NoDup.

Theorem sunion_l_NoDup ops : NoDup (sunion_l ops).
Proof. unfold sunion_l. apply dedup_bytes_NoDup. Qed.

Theorem sdiff_l_NoDup ops : (forall s, In s ops -> NoDup s) -> NoDup (sdiff_l ops).
Proof.
  destruct ops as [|s r]; simpl; intro H; [constructor|].
  apply NoDup_filter. apply H. left. reflexivity.
Qed.
Print Assumptions sdiff_l_NoDup.

Theorem setop_fn_NoDup o ops : (forall s, In s ops -> NoDup s) -> NoDup (setop_fn o ops).
Proof.
  destruct o; simpl; intro H;
    [apply sinter_l_NoDup; exact H | apply sunion_l_NoDup | apply sdiff_l_NoDup; exact H].
Qed.
Print Assumptions setop_fn_NoDup.

Example algebra_ex :
  let a := [s2b "1"; s2b "2"; s2b "3"; s2b "4"] in
  let b := [s2b "3"; s2b "1"; s2b "5"] in
  let c := [s2b "1"; s2b "4"; s2b "6"] in
  sinter_l [a; b; c] = [s2b "1"] /\
  sdiff_l [a; b; c] = [s2b "2"] /\
  sunion_l [a; b; c] = [s2b "1"; s2b "2"; s2b "3"; s2b "4"; s2b "5"; s2b "6"] /\
  sinter_l [a; []; c] = [] /\ sdiff_l [a; []] = a.
Proof. vm_compute. repeat split; reflexivity. Qed.

(* ------------------------------------------------------------------ *)
(* 2. operands                                                         *)
(* ------------------------------------------------------------------ *)

(* the member list a key stands for: missing (or expired) keys are empty sets *)
Definition members (now : Z) (d : db) (k : bytes) : list bytes :=
  match lookup now d k with
  | Some e => match e_val e with VSet s => s | _ => [] end
  | None => []
  end.

(* the key is visible and holds something that is not a set *)
Definition wrong_set (now : Z) (d : db) (k : bytes) : Prop :=
  exists e, lookup now d k = Some e /\ forall s, e_val e <> VSet s.

Lemma get_set_some now d k s exp :
  get_set now d k = Some (Some (s, exp)) <->
  exists e, lookup now d k = Some e /\ e_val e = VSet s /\ e_exp e = exp.
Proof.
  unfold get_set, set_of. split.
  - destruct (lookup now d k) as [e|]; [|discriminate].
    destruct (e_val e) eqn:Ev; try discriminate.
    intro H. inversion H; subst. exists e. auto.
  - intros [e [Hl [Hv He]]]. rewrite Hl, Hv, He. reflexivity.
Qed.

Lemma get_set_missing now d k : get_set now d k = Some None <-> lookup now d k = None.
Proof.
  unfold get_set, set_of. destruct (lookup now d k) as [e|].
  - destruct (e_val e); split; discriminate.
  - tauto.
Qed.

Lemma get_set_wrong now d k : get_set now d k = None <-> wrong_set now d k.
Proof.
  unfold get_set, set_of, wrong_set. destruct (lookup now d k) as [e|].
  - destruct (e_val e) as [b|l|h|s] eqn:Ev; split; try discriminate; try reflexivity;
      try (intros _; exists e; split; [reflexivity|]; intros s0; congruence).
    intros [e' [He' Hn]]. inversion He'; subst e'. exfalso. apply (Hn s). exact Ev.
  - split; [discriminate|]. intros [e [He _]]. discriminate.
Qed.

Lemma get_set_members now d k cur :
  get_set now d k = Some cur ->
  members now d k = match cur with Some (s, _) => s | None => [] end.
Proof.
  unfold get_set, set_of, members. destruct (lookup now d k) as [e|].
  - destruct (e_val e); try discriminate. intro H. inversion H. reflexivity.
  - intro H. inversion H. reflexivity.
Qed.

(* position by position, the operands are the member lists of the keys *)
Theorem set_operands_some now d ks ops :
  set_operands now d ks = Some ops <->
  (forall k, In k ks -> ~ wrong_set now d k) /\ ops = map (members now d) ks.
Proof.
  revert ops. induction ks as [|k r IH]; intro ops; simpl.
  - split.
    + intro H. inversion H. split; [intros k []|reflexivity].
    + intros [_ H]. subst. reflexivity.
  - destruct (get_set now d k) as [cur|] eqn:Eg.
    + destruct (set_operands now d r) as [rest|] eqn:Er.
      * rewrite <- (get_set_members now d k cur Eg).
        destruct (IH rest) as [IH1 _]. destruct (IH1 eq_refl) as [Hw Hrest]. split.
        -- intro H. inversion H. split; [|rewrite Hrest; reflexivity].
           intros k' [Hk|Hk]; [subst k'|apply Hw; exact Hk].
           intro Hwr. apply get_set_wrong in Hwr. congruence.
        -- intros [_ H]. subst ops. rewrite Hrest. reflexivity.
      * split; [discriminate|]. intros [Hw _]. exfalso.
        destruct (IH (map (members now d) r)) as [_ IH2].
        assert (@None (list (list bytes)) = Some (map (members now d) r)) as Hs.
        { apply IH2. split; [|reflexivity]. intros k' Hk. apply Hw. right. exact Hk. }
        discriminate.
    + split; [discriminate|]. intros [Hw _]. exfalso.
      apply (Hw k); [left; reflexivity|]. apply get_set_wrong. exact Eg.
Qed.
Print Assumptions set_operands_some.

Theorem set_operands_none now d ks :
  set_operands now d ks = None <-> exists k, In k ks /\ wrong_set now d k.
Proof.
  induction ks as [|k r IH]; simpl.
  - split; [discriminate|]. intros [k [[] _]].
  - destruct (get_set now d k) as [cur|] eqn:Eg.
    + destruct (set_operands now d r) as [rest|] eqn:Er.
      * split; [discriminate|]. intros [k' [[Hk|Hk] Hw]].
        -- subst k'. apply get_set_wrong in Hw. congruence.
        -- destruct IH as [_ IH2].
           assert (Some rest = None) as Hn by (apply IH2; exists k'; split; assumption).
           discriminate.
      * split; [|reflexivity]. intros _. destruct IH as [IH1 _].
        destruct (IH1 eq_refl) as [k' [Hk Hw]]. exists k'. split; [right; exact Hk | exact Hw].
    + split; [|reflexivity]. intros _. exists k. split; [left; reflexivity|].
      apply get_set_wrong. exact Eg.
Qed.
Print Assumptions set_operands_none.

(* truncated operand lists (Go stops looking at the first missing key) *)
Lemma until_missing_forallb now d ks ops :
  set_operands now d ks = Some ops ->
  exists ops', set_operands_until_missing now d ks = Some ops' /\
               forall x, forallb (mem_bytes x) ops' = forallb (mem_bytes x) ops.
Proof.
  revert ops. induction ks as [|k r IH]; intro ops; simpl.
  - intro H. inversion H. exists []. split; reflexivity.
  - destruct (get_set now d k) as [cur|]; [|discriminate].
    destruct (set_operands now d r) as [rest|]; [|discriminate].
    intro H. inversion H; subst ops. clear H.
    destruct cur as [[s e]|].
    + destruct (IH rest eq_refl) as [rest' [Hr Hf]]. rewrite Hr.
      exists (s :: rest'). split; [reflexivity|]. intro x. simpl. rewrite Hf. reflexivity.
    + exists [[]]. split; [reflexivity|]. intro x. reflexivity.
Qed.

(* shape of the truncated list: the operands of a prefix of present keys,
   followed by a single [] when a missing key stopped the scan *)
Theorem until_missing_shape now d ks ops' :
  set_operands_until_missing now d ks = Some ops' ->
  (ops' = map (members now d) ks /\ forall k, In k ks -> lookup now d k <> None) \/
  (exists pre k post, ks = pre ++ k :: post /\
      (forall k', In k' pre -> lookup now d k' <> None) /\
      lookup now d k = None /\
      ops' = map (members now d) pre ++ [[]]).
Proof.
  revert ops'. induction ks as [|k r IH]; intro ops'; simpl.
  - intro H. inversion H. left. split; [reflexivity|intros k []].
  - destruct (get_set now d k) as [cur|] eqn:Eg; [|discriminate].
    destruct cur as [[s e]|].
    + destruct (set_operands_until_missing now d r) as [rest|]; [|discriminate].
      intro H. inversion H; subst ops'. clear H.
      pose proof (get_set_members now d k _ Eg) as Hm. simpl in Hm.
      assert (lookup now d k <> None) as Hk.
      { apply get_set_some in Eg. destruct Eg as [e0 [Hl _]]. congruence. }
      destruct (IH rest eq_refl) as [[Hr Hall]|[pre [k0 [post [Hks [Hpre [Hk0 Hr]]]]]]].
      * left. split; [rewrite Hm, Hr; reflexivity|].
        intros k' [Hk'|Hk']; [subst; exact Hk | apply Hall; exact Hk'].
      * right. exists (k :: pre), k0, post. split; [rewrite Hks; reflexivity|].
        split; [intros k' [Hk'|Hk']; [subst; exact Hk | apply Hpre; exact Hk']|].
        split; [exact Hk0|]. simpl. rewrite Hm, Hr. reflexivity.
    + intro H. inversion H; subst ops'. right. exists [], k, r.
      split; [reflexivity|]. split; [intros k' []|]. split; [apply get_set_missing; exact Eg | reflexivity].
Qed.
Print Assumptions until_missing_shape.

(* truncation does not change the value of the operation *)
Theorem setop_operands_agree o now d ks ops :
  set_operands now d ks = Some ops ->
  exists ops', setop_operands o now d ks = Some ops' /\ setop_fn o ops' = setop_fn o ops.
Proof.
  intro Hs. destruct o; simpl.
  - destruct (until_missing_forallb now d ks ops Hs) as [ops' [Hu Hf]].
    exists ops'. split; [exact Hu|].
    destruct ks as [|k r]; simpl in *.
    + inversion Hs; subst. inversion Hu; subst. reflexivity.
    + destruct (get_set now d k) as [cur|]; [|discriminate].
      destruct (set_operands now d r) as [rest|] eqn:Er; [|discriminate].
      inversion Hs; subst ops. clear Hs.
      destruct cur as [[s e]|].
      * destruct (until_missing_forallb now d r rest Er) as [r2 [Hr2 Hf2]].
        rewrite Hr2 in Hu. inversion Hu; subst ops'. simpl. apply filter_ext. exact Hf2.
      * inversion Hu; subst ops'. reflexivity.
  - exists ops. split; [exact Hs|reflexivity].
  - destruct ks as [|k r].
    + simpl in Hs. inversion Hs. exists []. split; reflexivity.
    + destruct (get_set now d k) as [[[s e]|]|] eqn:Eg.
      * exists ops. split; [exact Hs|reflexivity].
      * exists [[]]. split; [reflexivity|]. simpl in Hs. rewrite Eg in Hs.
        destruct (set_operands now d r) as [rest|]; [|discriminate].
        inversion Hs. reflexivity.
      * exists ops. split; [exact Hs|reflexivity].
Qed.
Print Assumptions setop_operands_agree.

(* conversely, truncation can only hide a wrong-typed key, and then the value is
   the empty set: the reply is WRONGTYPE or the empty array, never a wrong set *)
Theorem setop_operands_hidden o now d ks ops' :
  set_operands now d ks = None ->
  setop_operands o now d ks = Some ops' ->
  setop_fn o ops' = [] /\ o <> OpUnion.
Proof.
  intros Hn Hs. destruct o; simpl in *.
  - split; [|discriminate].
    revert ops' Hn Hs. induction ks as [|k r IH]; intros ops' Hn Hs; simpl in *; [discriminate|].
    destruct (get_set now d k) as [cur|]; [|discriminate].
    destruct cur as [[s e]|].
    + destruct (set_operands now d r) as [rest|] eqn:Er; [discriminate|].
      destruct (set_operands_until_missing now d r) as [rest'|] eqn:Eu; [|discriminate].
      inversion Hs; subst ops'. clear Hs.
      specialize (IH rest' eq_refl eq_refl).
      (* rest' is a non-empty list whose intersection is empty *)
      destruct r as [|k2 r2]; [simpl in Er; discriminate|].
      assert (forall x, forallb (mem_bytes x) rest' = false) as Hf.
      { intro x. destruct rest' as [|t rest'']; [simpl in Eu|].
        - destruct (get_set now d k2) as [[[? ?]|]|]; try discriminate.
          destruct (set_operands_until_missing now d r2); discriminate.
        - simpl. simpl in IH.
          destruct (mem_bytes x t) eqn:Ex; [|reflexivity]. simpl.
          destruct (forallb (mem_bytes x) rest'') eqn:Ef; [|reflexivity].
          exfalso. apply mem_bytes_In in Ex.
          assert (In x (filter (fun x0 => forallb (mem_bytes x0) rest'') t)) as Hin.
          { apply filter_In. split; assumption. }
          rewrite IH in Hin. exact Hin. }
      simpl. induction s as [|y s IHs]; simpl; [reflexivity|]. rewrite Hf. exact IHs.
    + inversion Hs. reflexivity.
  - congruence.
  - split; [|discriminate]. destruct ks as [|k r]; [simpl in Hn; discriminate|].
    destruct (get_set now d k) as [[[s e]|]|]; try congruence.
    inversion Hs. reflexivity.
Qed.
Print Assumptions setop_operands_hidden.

(* ------------------------------------------------------------------ *)
(* 3. SINTER / SUNION / SDIFF                                          *)
(* ------------------------------------------------------------------ *)

Theorem setop_db_unchanged o now d args : fst (cmd_setop o now d args) = d.
Proof.
  unfold cmd_setop. destruct args as [|a r]; [reflexivity|].
  destruct (setop_operands o now d (a :: r)); reflexivity.
Qed.
Print Assumptions setop_db_unchanged.

Theorem setop_reply o now d ks :
  ks <> [] ->
  (forall k, In k ks -> ~ wrong_set now d k) ->
  cmd_setop o now d ks = (d, RArrU (bulks (setop_fn o (map (members now d) ks)))).
Proof.
  intros Hne Hw.
  assert (set_operands now d ks = Some (map (members now d) ks)) as Hs.
  { apply set_operands_some. split; [exact Hw|reflexivity]. }
  destruct (setop_operands_agree o now d ks _ Hs) as [ops' [Ho Hf]].
  unfold cmd_setop. destruct ks as [|k r]; [congruence|].
  rewrite Ho, Hf. reflexivity.
Qed.
Print Assumptions setop_reply.

(* the replies, read as sets of members *)
Theorem sinter_reply now d ks :
  ks <> [] -> (forall k, In k ks -> ~ wrong_set now d k) ->
  exists l, cmd_setop OpInter now d ks = (d, RArrU (bulks l)) /\
            forall x, In x l <-> forall k, In k ks -> In x (members now d k).
Proof.
  intros Hne Hw. eexists. split; [apply setop_reply; assumption|].
  intro x. simpl. rewrite sinter_l_In. split.
  - intros [_ H] k Hk. apply H. apply in_map. exact Hk.
  - intro H. split; [destruct ks; [congruence|discriminate]|].
    intros s Hs. apply in_map_iff in Hs. destruct Hs as [k [Hk1 Hk2]]. subst s. apply H. exact Hk2.
Qed.
Print Assumptions sinter_reply.

Theorem sunion_reply now d ks :
  ks <> [] -> (forall k, In k ks -> ~ wrong_set now d k) ->
  exists l, cmd_setop OpUnion now d ks = (d, RArrU (bulks l)) /\ NoDup l /\
            forall x, In x l <-> exists k, In k ks /\ In x (members now d k).
Proof.
  intros Hne Hw. eexists. split; [apply setop_reply; assumption|].
  split; [apply sunion_l_NoDup|].
  intro x. simpl. rewrite sunion_l_In. split.
  - intros [s [Hs Hx]]. apply in_map_iff in Hs. destruct Hs as [k [Hk1 Hk2]]. subst s.
    exists k. split; assumption.
  - intros [k [Hk Hx]]. exists (members now d k). split; [apply in_map; exact Hk | exact Hx].
Qed.
Print Assumptions sunion_reply.

Theorem sdiff_reply now d k ks :
  (forall k', In k' (k :: ks) -> ~ wrong_set now d k') ->
  exists l, cmd_setop OpDiff now d (k :: ks) = (d, RArrU (bulks l)) /\
            forall x, In x l <-> In x (members now d k) /\ forall k', In k' ks -> ~ In x (members now d k').
Proof.
  intros Hw. eexists. split; [apply setop_reply; [discriminate|assumption]|].
  intro x. cbn [setop_fn map]. rewrite sdiff_l_In. split.
  - intros [Hx H]. split; [exact Hx|]. intros k' Hk'. apply H. apply in_map. exact Hk'.
  - intros [Hx H]. split; [exact Hx|]. intros t Ht.
    apply in_map_iff in Ht. destruct Ht as [k' [Hk1 Hk2]]. subst t. apply H. exact Hk2.
Qed.
Print Assumptions sdiff_reply.

(* ------------------------------------------------------------------ *)
(* 4. the STORE forms                                                  *)
(* ------------------------------------------------------------------ *)

Theorem setop_store_spec o now d dst ks :
  ks <> [] ->
  (forall k, In k ks -> ~ wrong_set now d k) ->          (* operands: sets or missing *)
  let r := setop_fn o (map (members now d) ks) in        (* computed on the state BEFORE *)
  let d' := fst (cmd_setop_store o now d (dst :: ks)) in
  snd (cmd_setop_store o now d (dst :: ks)) = RInt (Zlen r) /\
  (r <> [] -> lookup now d' dst = Some (mkE (VSet r) None (d_next d + 1)%N)) /\
  (r = [] -> lookup now d' dst = None) /\
  (forall k', k' <> dst -> lookup now d' k' = lookup now d k').
Proof.
  intros Hne Hw.
  assert (set_operands now d ks = Some (map (members now d) ks)) as Hs.
  { apply set_operands_some. split; [exact Hw|reflexivity]. }
  destruct (setop_operands_agree o now d ks _ Hs) as [ops' [Ho Hf]].
  unfold cmd_setop_store. destruct ks as [|k0 r0]; [congruence|].
  rewrite Ho, Hf. cbv zeta. cbn [fst snd].
  set (r := setop_fn o (map (members now d) (k0 :: r0))).
  split; [reflexivity|].
  destruct r as [|x r'] eqn:Er.
  - split; [congruence|]. split.
    + intros _. destruct (aget (d_map d) dst) eqn:Ea.
      * apply lookup_del_same.
      * unfold lookup. rewrite Ea. reflexivity.
    + intros k' Hk'. destruct (aget (d_map d) dst); [apply lookup_del_other; exact Hk'|reflexivity].
  - split.
    + intros _. rewrite lookup_put_same. reflexivity.
    + split; [discriminate|]. intros k' Hk'. apply lookup_put_other. exact Hk'.
Qed.
Print Assumptions setop_store_spec.

(* the destination may be one of the operands: the result is still the
   operation applied to the OLD contents of all operands, including dst *)
Corollary setop_store_aliased o now d dst ks :
  In dst ks ->
  (forall k, In k ks -> ~ wrong_set now d k) ->
  let r := setop_fn o (map (members now d) ks) in
  let d' := fst (cmd_setop_store o now d (dst :: ks)) in
  members now d' dst = r /\
  (forall k', k' <> dst -> members now d' k' = members now d k') /\
  snd (cmd_setop_store o now d (dst :: ks)) = RInt (Zlen r).
Proof.
  intros Hin Hw r d'.
  assert (ks <> []) as Hne by (destruct ks; [destruct Hin|discriminate]).
  destruct (setop_store_spec o now d dst ks Hne Hw) as [H1 [H2 [H3 H4]]].
  fold r in H1, H2, H3. fold d' in H2, H3, H4.
  split; [|split; [|exact H1]].
  - unfold members. destruct r as [|x r'] eqn:Er.
    + rewrite H3 by reflexivity. reflexivity.
    + rewrite H2 by discriminate. reflexivity.
  - intros k' Hk'. unfold members. rewrite H4 by exact Hk'. reflexivity.
Qed.
Print Assumptions setop_store_aliased.

Definition ex_sets : db :=
  put (put (put empty_db (s2b "a") (VSet [s2b "1"; s2b "2"; s2b "3"]) (Some 100))
           (s2b "b") (VSet [s2b "2"; s2b "3"; s2b "4"]) None)
      (s2b "str") (VStr (s2b "v")) None.

Example store_aliased_ex :
  let r1 := cmd_setop_store OpInter 50 ex_sets [s2b "a"; s2b "a"; s2b "b"] in
  let r2 := cmd_setop_store OpDiff 50 ex_sets [s2b "b"; s2b "a"; s2b "b"] in
  let r3 := cmd_setop_store OpUnion 50 ex_sets [s2b "b"; s2b "a"; s2b "b"; s2b "nokey"] in
  let r4 := cmd_setop_store OpDiff 50 ex_sets [s2b "a"; s2b "a"; s2b "a"] in
  snd r1 = RInt 2 /\ members 50 (fst r1) (s2b "a") = [s2b "2"; s2b "3"] /\
  members 50 (fst r1) (s2b "b") = [s2b "2"; s2b "3"; s2b "4"] /\
  snd r2 = RInt 1 /\ members 50 (fst r2) (s2b "b") = [s2b "1"] /\
  snd r3 = RInt 4 /\ members 50 (fst r3) (s2b "b") = [s2b "1"; s2b "2"; s2b "3"; s2b "4"] /\
  snd r4 = RInt 0 /\ lookup 50 (fst r4) (s2b "a") = None /\
  cmd_setop OpInter 50 ex_sets [s2b "a"; s2b "str"] = (ex_sets, wrongtype) /\
  cmd_setop OpInter 50 ex_sets [s2b "a"; s2b "nokey"; s2b "str"] = (ex_sets, RArrU []).
Proof. vm_compute. repeat split; reflexivity. Qed.

(* ------------------------------------------------------------------ *)
(* 5. SADD / SREM / SMOVE / SISMEMBER / SMISMEMBER / SCARD             *)
(* ------------------------------------------------------------------ *)

Lemma Zlen_cons {A} (x : A) l : Zlen (x :: l) = Zlen l + 1.
Proof. unfold Zlen. change (List.length (x :: l)) with (S (List.length l)). rewrite Nat2Z.inj_succ. lia. Qed.

Lemma Zlen_app {A} (l1 l2 : list A) : Zlen (l1 ++ l2) = Zlen l1 + Zlen l2.
Proof. unfold Zlen. rewrite app_length, Nat2Z.inj_add. reflexivity. Qed.

Lemma Zlen_nonneg {A} (l : list A) : 0 <= Zlen l.
Proof. unfold Zlen. lia. Qed.

Lemma Zlen_zero_nil {A} (l : list A) : Zlen l = 0 -> l = [].
Proof. destruct l; [reflexivity|]. rewrite Zlen_cons. pose proof (Zlen_nonneg l). lia. Qed.

Definition exp_live (now : Z) (exp : option Z) : Prop :=
  match exp with Some t => (t <? now) = false | None => True end.

Lemma lookup_exp_live now d k e : lookup now d k = Some e -> exp_live now (e_exp e).
Proof.
  unfold lookup, expired, exp_live. destruct (aget (d_map d) k) as [e0|]; [|discriminate].
  destruct (e_exp e0) as [t|] eqn:Et.
  - destruct (t <? now) eqn:Hlt; [discriminate|]. intro H. inversion H; subst. rewrite Et. exact Hlt.
  - intro H. inversion H; subst. rewrite Et. exact I.
Qed.

Lemma get_set_exp_live now d k s exp : get_set now d k = Some (Some (s, exp)) -> exp_live now exp.
Proof.
  intro H. apply get_set_some in H. destruct H as [e [Hl [_ He]]]. subst exp.
  eapply lookup_exp_live; eassumption.
Qed.

Lemma get_set_put_set now d k s exp :
  s <> [] -> exp_live now exp -> get_set now (put_set d k s exp) k = Some (Some (s, exp)).
Proof.
  intros Hne Hl. unfold put_set, put_or_del. simpl. destruct s as [|x s]; [congruence|].
  unfold get_set. rewrite lookup_put_same. cbv zeta. unfold expired; simpl.
  destruct exp as [t|]; simpl in *; [rewrite Hl|]; reflexivity.
Qed.

Lemma lookup_put_set_nil now d k exp : lookup now (put_set d k [] exp) k = None.
Proof. unfold put_set, put_or_del; simpl. apply lookup_del_same. Qed.

Lemma lookup_put_set_other now d k k' s exp :
  k' <> k -> lookup now (put_set d k s exp) k' = lookup now d k'.
Proof. intro H. unfold put_set. apply lookup_put_or_del_other. exact H. Qed.

Lemma get_set_put_set_other now d k k' s exp :
  k' <> k -> get_set now (put_set d k s exp) k' = get_set now d k'.
Proof. intro H. unfold get_set. rewrite lookup_put_set_other by exact H. reflexivity. Qed.

Definition cur_set (cur : option (list bytes * option Z)) : list bytes :=
  match cur with Some (s, _) => s | None => [] end.
Definition cur_exp (cur : option (list bytes * option Z)) : option Z :=
  match cur with Some (_, e) => e | None => None end.

(* --- SADD --- *)
Definition sadd_step (acc : list bytes * Z) (m : bytes) : list bytes * Z :=
  let '(s, n) := acc in if mem_bytes m s then (s, n) else (s ++ [m], n + 1).

Lemma sadd_fold_spec ms : forall s a s' n,
  fold_left sadd_step ms (s, a) = (s', n) ->
  exists added,
    s' = s ++ added /\ n = a + Zlen added /\ NoDup added /\
    (forall x, In x added <-> In x ms /\ ~ In x s).
Proof.
  induction ms as [|m r IH]; intros s a s' n; simpl.
  - intro H. inversion H; subst. exists []. rewrite app_nil_r.
    split; [reflexivity|]. split; [unfold Zlen; simpl; lia|]. split; [constructor|].
    intro x. simpl. tauto.
  - destruct (mem_bytes m s) eqn:Em.
    + apply mem_bytes_In in Em. intro H. apply IH in H.
      destruct H as [added [H1 [H2 [H3 H4]]]]. exists added.
      split; [exact H1|]. split; [exact H2|]. split; [exact H3|].
      intro x. rewrite H4. split; [intros [Ha Hb]; auto|].
      intros [[Ha|Ha] Hb]; [subst; contradiction | auto].
    + apply mem_bytes_nIn in Em. intro H. apply IH in H.
      destruct H as [added [H1 [H2 [H3 H4]]]]. exists (m :: added).
      split; [rewrite H1, <- app_assoc; reflexivity|].
      split; [rewrite Zlen_cons; lia|]. split.
      * constructor; [|exact H3]. rewrite H4. intros [_ Hn]. apply Hn.
        apply in_or_app. right. left. reflexivity.
      * intro x. simpl. rewrite H4. rewrite in_app_iff. simpl. split.
        -- intros [Hx|[Hx Hn]]; [subst; auto|]. split; [auto|]. intro Hs. apply Hn. left. exact Hs.
        -- intros [[Hx|Hx] Hn]; [left; exact Hx|].
           destruct (bytes_eq_dec m x) as [E|E]; [left; exact E|].
           right. split; [exact Hx|]. intros [Hs|[Hs|[]]]; contradiction.
Qed.

(* set-level statement for SADD *)
Theorem sadd_all_spec s ms s' n :
  sadd_all s ms = (s', n) ->
  (forall x, In x s' <-> In x s \/ In x ms) /\
  (NoDup s -> NoDup s') /\
  n = Zlen s' - Zlen s /\                 (* the members actually added *)
  (exists added, s' = s ++ added /\ n = Zlen added /\ NoDup added /\
                 forall x, In x added <-> In x ms /\ ~ In x s) /\
  (n = 0 -> s' = s).
Proof.
  unfold sadd_all.
  change (fun (acc : list bytes * Z) (m : bytes) =>
            let '(s0, n0) := acc in if mem_bytes m s0 then (s0, n0) else (s0 ++ [m], n0 + 1))
    with sadd_step.
  intro H. apply sadd_fold_spec in H. destruct H as [added [H1 [H2 [H3 H4]]]].
  split; [|split; [|split; [|split]]].
  - intro x. rewrite H1, in_app_iff, H4.
    destruct (in_dec bytes_eq_dec x s) as [Hs|Hs]; tauto.
  - intro Hnd. rewrite H1. clear H1 H2.
    induction s as [|y s IHs]; simpl; [exact H3|].
    inversion Hnd as [|? ? Hnin Hnd']; subst.
    assert (forall x, In x added -> ~ In x s) as Hd.
    { intros x Hx Hs. apply H4 in Hx. destruct Hx as [_ Hx]. apply Hx. right. exact Hs. }
    assert (~ In y added) as Hy.
    { intro Hx. apply H4 in Hx. destruct Hx as [_ Hx]. apply Hx. left. reflexivity. }
    constructor.
    + rewrite in_app_iff. tauto.
    + clear IHs Hnd Hnin H4 Hy. induction s as [|z s IHs2]; simpl; [exact H3|].
      inversion Hnd' as [|? ? Hnin2 Hnd2]; subst. constructor.
      * rewrite in_app_iff. intros [Hz|Hz]; [contradiction|]. apply (Hd z Hz). left. reflexivity.
      * apply IHs2; [exact Hnd2|]. intros x Hx Hs. apply (Hd x Hx). right. exact Hs.
  - rewrite H1, Zlen_app. lia.
  - exists added. split; [exact H1|]. split; [lia|]. split; [exact H3|exact H4].
  - intro Hz. assert (Zlen added = 0) as Hl by lia. apply Zlen_zero_nil in Hl.
    subst added. rewrite H1. apply app_nil_r.
Qed.
Print Assumptions sadd_all_spec.

Theorem sadd_cmd_spec now d k ms cur :
  ms <> [] ->
  get_set now d k = Some cur ->              (* key missing or a set *)
  let s' := fst (sadd_all (cur_set cur) ms) in
  let n := snd (sadd_all (cur_set cur) ms) in
  let d' := fst (cmd_sadd now d (k :: ms)) in
  snd (cmd_sadd now d (k :: ms)) = RInt n /\
  get_set now d' k = Some (Some (s', cur_exp cur)) /\
  (forall k', k' <> k -> lookup now d' k' = lookup now d k').
Proof.
  intros Hne Hg s' n d'. subst d' s' n. unfold cmd_sadd.
  destruct ms as [|m0 ms0]; [congruence|]. rewrite Hg.
  assert (exp_live now (cur_exp cur)) as Hl.
  { destruct cur as [[s e]|]; simpl; [eapply get_set_exp_live; exact Hg | exact I]. }
  assert (Htail : forall s0 exp s1 n1,
    sadd_all s0 (m0 :: ms0) = (s1, n1) -> exp_live now exp ->
    (n1 = 0 -> get_set now d k = Some (Some (s0, exp))) ->
    let d' := if n1 =? 0 then d else put_set d k s1 exp in
    get_set now d' k = Some (Some (s1, exp)) /\
    (forall k', k' <> k -> lookup now d' k' = lookup now d k')).
  { intros s0 exp s1 n1 E Hle Hz0.
    destruct (sadd_all_spec _ _ _ _ E) as [Hin [_ [_ [_ Hz]]]].
    assert (s1 <> []) as Hs1.
    { intro Hc. subst s1. apply (Hin m0). right. left. reflexivity. }
    destruct (n1 =? 0) eqn:Ez; cbv zeta.
    - apply Z.eqb_eq in Ez. split; [|reflexivity]. rewrite (Hz Ez). apply Hz0. exact Ez.
    - split; [apply get_set_put_set; assumption|].
      intros k' Hk'. apply lookup_put_set_other. exact Hk'. }
  destruct cur as [[s e]|]; cbn [cur_set cur_exp] in *.
  - destruct (sadd_all s (m0 :: ms0)) as [s1 n1] eqn:E. cbn [fst snd].
    split; [reflexivity|]. apply (Htail s e s1 n1 E Hl). intros _. exact Hg.
  - destruct (sadd_all [] (m0 :: ms0)) as [s1 n1] eqn:E. cbn [fst snd].
    split; [reflexivity|]. apply (Htail [] None s1 n1 E I). intro Ez. exfalso.
    destruct (sadd_all_spec _ _ _ _ E) as [Hin [_ [_ [_ Hz]]]].
    specialize (Hz Ez). subst s1. apply (Hin m0). right. left. reflexivity.
Qed.
Print Assumptions sadd_cmd_spec.

(* --- SREM --- *)
Definition srem_step (acc : list bytes * Z) (m : bytes) : list bytes * Z :=
  let '(s, n) := acc in if mem_bytes m s then (remove_bytes m s, n + 1) else (s, n).

Lemma filter_filter {A} (p q : A -> bool) l :
  filter p (filter q l) = filter (fun x => q x && p x) l.
Proof.
  induction l as [|x l IH]; simpl; [reflexivity|].
  destruct (q x); simpl; [destruct (p x)|]; rewrite IH; reflexivity.
Qed.

Lemma Zlen_filter_split {A} (p : A -> bool) l :
  Zlen (filter p l) + Zlen (filter (fun x => negb (p x)) l) = Zlen l.
Proof.
  induction l as [|x l IH]; cbn [filter]; [reflexivity|].
  destruct (p x); cbn [negb]; rewrite !Zlen_cons; lia.
Qed.

Lemma remove_bytes_absent x l : ~ In x l -> remove_bytes x l = l.
Proof.
  induction l as [|y l IH]; simpl; [reflexivity|]. intro H.
  destruct (bytes_eqb x y) eqn:E.
  - apply bytes_eqb_eq in E. subst. exfalso. apply H. left. reflexivity.
  - rewrite IH; [reflexivity|]. intro Hin. apply H. right. exact Hin.
Qed.

Lemma Zlen_remove_present x l : NoDup l -> In x l -> Zlen (remove_bytes x l) = Zlen l - 1.
Proof.
  induction l as [|y l IH]; cbn [remove_bytes]; [intros _ []|].
  intros Hnd Hin. inversion Hnd as [|? ? Hnin Hnd']; subst.
  destruct (bytes_eqb x y) eqn:E.
  - apply bytes_eqb_eq in E. subst y. rewrite remove_bytes_absent by exact Hnin.
    rewrite Zlen_cons. lia.
  - apply bytes_eqb_neq in E. destruct Hin as [Hin|Hin]; [congruence|].
    rewrite !Zlen_cons, IH by assumption. lia.
Qed.

Lemma srem_fold_spec ms : forall s a s' n,
  fold_left srem_step ms (s, a) = (s', n) ->
  s' = filter (fun x => negb (mem_bytes x ms)) s /\
  a <= n /\ (n = a -> s' = s) /\
  (NoDup s -> n = a + (Zlen s - Zlen s')).
Proof.
  induction ms as [|m r IH]; intros s a s' n; simpl.
  - intro H. inversion H; subst. split.
    + clear. induction s' as [|x l IHl]; simpl; [reflexivity|]. rewrite <- IHl. reflexivity.
    + split; [lia|]. split; [reflexivity|]. intros _. lia.
  - assert (forall t, filter (fun x => negb (mem_bytes x r)) (remove_bytes m t) =
                      filter (fun x => negb (bytes_eqb x m || mem_bytes x r)) t) as Hf.
    { intro t. rewrite remove_bytes_filter, filter_filter. apply filter_ext. intro x.
      rewrite negb_orb. rewrite (eq_true_iff_eq (bytes_eqb m x) (bytes_eqb x m)); [reflexivity|].
      rewrite !bytes_eqb_eq. split; congruence. }
    destruct (mem_bytes m s) eqn:Em.
    + apply mem_bytes_In in Em. intro H. apply IH in H. destruct H as [H1 [H2 [H3 H4]]].
      split; [rewrite H1; apply Hf|]. split; [lia|]. split; [intro; lia|].
      intro Hnd. rewrite H4 by (apply remove_bytes_NoDup; exact Hnd).
      rewrite (Zlen_remove_present m s Hnd Em). lia.
    + apply mem_bytes_nIn in Em. intro H. apply IH in H. destruct H as [H1 [H2 [H3 H4]]].
      split; [|split; [exact H2|split; [exact H3|exact H4]]].
      rewrite H1. rewrite <- (remove_bytes_absent m s Em) at 1. apply Hf.
Qed.

Theorem srem_spec now d k ms s exp :
  ms <> [] ->
  get_set now d k = Some (Some (s, exp)) ->
  let s' := filter (fun x => negb (mem_bytes x ms)) s in
  let d' := fst (cmd_srem now d (k :: ms)) in
  (forall x, In x s' <-> In x s /\ ~ In x ms) /\
  (NoDup s -> NoDup s') /\
  (* the reply counts the members actually removed *)
  (NoDup s -> snd (cmd_srem now d (k :: ms)) = RInt (Zlen (filter (fun x => mem_bytes x ms) s))) /\
  (NoDup s -> snd (cmd_srem now d (k :: ms)) = RInt (Zlen s - Zlen s')) /\
  (exists n, snd (cmd_srem now d (k :: ms)) = RInt n /\ (n = 0 -> d' = d)) /\
  (s' <> [] -> get_set now d' k = Some (Some (s', exp))) /\
  (s' = [] -> s <> [] -> lookup now d' k = None) /\          (* last member gone: key gone *)
  (forall k', k' <> k -> lookup now d' k' = lookup now d k').
Proof.
  intros Hne Hg s' d'.
  pose proof (get_set_exp_live now d k s exp Hg) as Hl.
  split.
  { intro x. subst s'. rewrite filter_In, negb_true_iff, mem_bytes_nIn. reflexivity. }
  split; [apply NoDup_filter|].
  subst d'. unfold cmd_srem. destruct ms as [|m0 ms0]; [congruence|]. rewrite Hg.
  change (fun (acc : list bytes * Z) (m : bytes) =>
            let '(s0, n) := acc in if mem_bytes m s0 then (remove_bytes m s0, n + 1) else (s0, n))
    with srem_step.
  destruct (fold_left srem_step (m0 :: ms0) (s, 0)) as [s1 n1] eqn:E.
  destruct (srem_fold_spec _ _ _ _ _ E) as [H1 [H2 [H3 H4]]]. fold s' in H1. subst s1.
  cbn [fst snd]. split.
  { intro Hnd. rewrite (H4 Hnd). f_equal.
    pose proof (Zlen_filter_split (fun x : bytes => mem_bytes x (m0 :: ms0)) s) as Hs.
    cbv beta in Hs. fold s' in Hs. lia. }
  split.
  { intro Hnd. rewrite (H4 Hnd). f_equal; lia. }
  split.
  { exists n1. split; [reflexivity|]. intro Hz. subst n1. reflexivity. }
  destruct (n1 =? 0) eqn:Ez.
  - apply Z.eqb_eq in Ez. rewrite (H3 Ez). split; [intros _; exact Hg|].
    split; [intros Hc1 Hc2; congruence | reflexivity].
  - split; [intro Hh; apply get_set_put_set; assumption|].
    split; [intros Hh _; rewrite Hh; apply lookup_put_set_nil|].
    intros k' Hk'. apply lookup_put_set_other. exact Hk'.
Qed.
Print Assumptions srem_spec.

Theorem srem_missing now d k ms :
  ms <> [] -> lookup now d k = None -> cmd_srem now d (k :: ms) = (d, RInt 0).
Proof.
  intros Hne Hl. apply get_set_missing in Hl. unfold cmd_srem.
  destruct ms as [|m0 ms0]; [congruence|]. rewrite Hl. reflexivity.
Qed.
Print Assumptions srem_missing.

(* --- SISMEMBER / SMISMEMBER / SCARD / SMEMBERS --- *)
Theorem set_reads_present now d k s exp :
  get_set now d k = Some (Some (s, exp)) ->
  (forall m, exists b : bool, cmd_sismember now d [k; m] = (d, RInt (if b then 1 else 0)) /\ (b = true <-> In m s)) /\
  (forall ms, ms <> [] ->
     cmd_smismember now d (k :: ms) = (d, RArr (map (fun m => RInt (if mem_bytes m s then 1 else 0)) ms))) /\
  cmd_scard now d [k] = (d, RInt (Zlen s)) /\
  cmd_smembers now d [k] = (d, RArrU (bulks s)).
Proof.
  intro Hg. unfold cmd_sismember, cmd_smismember, cmd_scard, cmd_smembers. rewrite Hg.
  repeat split.
  - intro m. exists (mem_bytes m s). split; [reflexivity | apply mem_bytes_In].
  - intros ms Hne. destruct ms as [|m0 ms0]; [congruence|]. reflexivity.
Qed.
Print Assumptions set_reads_present.

Theorem set_reads_missing now d k :
  lookup now d k = None ->
  (forall m, cmd_sismember now d [k; m] = (d, RInt 0)) /\
  (forall ms, ms <> [] -> cmd_smismember now d (k :: ms) = (d, RArr (map (fun _ => RInt 0) ms))) /\
  cmd_scard now d [k] = (d, RInt 0) /\
  cmd_smembers now d [k] = (d, RArrU []).
Proof.
  intro Hl. apply get_set_missing in Hl.
  unfold cmd_sismember, cmd_smismember, cmd_scard, cmd_smembers. rewrite Hl.
  repeat split. intros ms Hne. destruct ms as [|m0 ms0]; [congruence|]. reflexivity.
Qed.
Print Assumptions set_reads_missing.

(* --- SMOVE --- *)
Theorem smove_same now d k m s exp :
  get_set now d k = Some (Some (s, exp)) ->
  exists b : bool, cmd_smove now d [k; k; m] = (d, RInt (if b then 1 else 0)) /\ (b = true <-> In m s).
Proof.
  intro Hg. unfold cmd_smove. rewrite Hg. exists (mem_bytes m s).
  split; [|apply mem_bytes_In].
  destruct (mem_bytes m s); simpl; [rewrite bytes_eqb_refl|]; reflexivity.
Qed.
Print Assumptions smove_same.

Theorem smove_absent now d src dst m s exp dcur :
  get_set now d src = Some (Some (s, exp)) -> get_set now d dst = Some dcur ->
  ~ In m s -> cmd_smove now d [src; dst; m] = (d, RInt 0).
Proof.
  intros Hs Hd Hm. unfold cmd_smove. rewrite Hs, Hd.
  apply mem_bytes_nIn in Hm. rewrite Hm. reflexivity.
Qed.
Print Assumptions smove_absent.

Theorem smove_missing_src now d src dst m :
  lookup now d src = None -> cmd_smove now d [src; dst; m] = (d, RInt 0).
Proof. intro Hl. apply get_set_missing in Hl. unfold cmd_smove. rewrite Hl. reflexivity. Qed.

Theorem smove_moves now d src dst m s exp dcur :
  src <> dst ->
  get_set now d src = Some (Some (s, exp)) ->
  get_set now d dst = Some dcur ->            (* destination missing or a set *)
  In m s ->
  let d' := fst (cmd_smove now d [src; dst; m]) in
  snd (cmd_smove now d [src; dst; m]) = RInt 1 /\
  (* source: exactly m is gone (and the key with it when m was the last member) *)
  (forall x, In x (members now d' src) <-> In x s /\ x <> m) /\
  (remove_bytes m s <> [] -> get_set now d' src = Some (Some (remove_bytes m s, exp))) /\
  (remove_bytes m s = [] -> lookup now d' src = None) /\
  (* destination: exactly m was added, deadline kept *)
  (exists s2, get_set now d' dst = Some (Some (s2, cur_exp dcur)) /\
              (forall x, In x s2 <-> In x (cur_set dcur) \/ x = m) /\
              (NoDup (cur_set dcur) -> NoDup s2)) /\
  (forall k', k' <> src -> k' <> dst -> lookup now d' k' = lookup now d k').
Proof.
  intros Hne Hs Hd Hm d'. subst d'. unfold cmd_smove. rewrite Hs, Hd.
  pose proof Hm as Hmb. apply mem_bytes_In in Hmb. rewrite Hmb. cbn [negb].
  assert (bytes_eqb src dst = false) as Hsd by (apply bytes_eqb_neq; exact Hne).
  rewrite Hsd.
  pose proof (get_set_exp_live now d src s exp Hs) as Hl.
  assert (exp_live now (cur_exp dcur)) as Hl2.
  { destruct dcur as [[s2 e2]|]; simpl; [eapply get_set_exp_live; exact Hd | exact I]. }
  cbv zeta. set (d1 := put_set d src (remove_bytes m s) exp).
  assert (Hdst1 : get_set now d1 dst = Some dcur).
  { unfold d1. rewrite get_set_put_set_other by congruence. exact Hd. }
  match goal with
  | |- snd ?X = RInt 1 /\ _ =>
    assert (X = (if mem_bytes m (cur_set dcur) then d1
                 else put_set d1 dst (cur_set dcur ++ [m]) (cur_exp dcur), RInt 1)) as Hu
      by (destruct dcur as [[s2 e2]|]; reflexivity);
    rewrite Hu
  end.
  cbn [fst snd]. split; [reflexivity|].
  set (d2 := if mem_bytes m (cur_set dcur) then d1 else put_set d1 dst (cur_set dcur ++ [m]) (cur_exp dcur)).
  assert (Hsrc : lookup now d2 src = lookup now d1 src).
  { unfold d2. destruct (mem_bytes m (cur_set dcur)); [reflexivity|].
    apply lookup_put_set_other. exact Hne. }
  assert (Hsrc_ne : remove_bytes m s <> [] -> get_set now d2 src = Some (Some (remove_bytes m s, exp))).
  { intro Hr. unfold get_set. rewrite Hsrc. fold (get_set now d1 src). unfold d1.
    apply get_set_put_set; assumption. }
  assert (Hsrc_e : remove_bytes m s = [] -> lookup now d2 src = None).
  { intro Hr. rewrite Hsrc. unfold d1. rewrite Hr. apply lookup_put_set_nil. }
  split.
  { intro x. rewrite <- remove_bytes_In.
    destruct (remove_bytes m s) as [|y r] eqn:Er.
    - unfold members. rewrite (Hsrc_e eq_refl). reflexivity.
    - rewrite (get_set_members now d2 src _ (Hsrc_ne ltac:(discriminate))). reflexivity. }
  split; [exact Hsrc_ne|]. split; [exact Hsrc_e|]. split.
  - unfold d2. destruct (mem_bytes m (cur_set dcur)) eqn:Em2.
    + apply mem_bytes_In in Em2. exists (cur_set dcur).
      destruct dcur as [[s2 e2]|]; [|destruct Em2]. cbn [cur_set cur_exp] in *.
      split; [exact Hdst1|]. split; [|auto].
      intro x. split; [auto|]. intros [Hx|Hx]; [exact Hx | subst; exact Em2].
    + apply mem_bytes_nIn in Em2. exists (cur_set dcur ++ [m]). split.
      * apply get_set_put_set; [|exact Hl2]. destruct (cur_set dcur); discriminate.
      * split.
        -- intro x. rewrite in_app_iff. simpl. split.
           ++ intros [Hx|[Hx|[]]]; [left; exact Hx | right; congruence].
           ++ intros [Hx|Hx]; [left; exact Hx | right; left; congruence].
        -- intro Hnd. clear - Hnd Em2. induction (cur_set dcur) as [|y l IHl]; simpl.
           ++ constructor; [intros []|constructor].
           ++ inversion Hnd as [|? ? Hnin Hnd']; subst. constructor.
              ** rewrite in_app_iff. simpl. intros [Hy|[Hy|[]]]; [contradiction|].
                 apply Em2. left. symmetry. exact Hy.
              ** apply IHl; [|exact Hnd']. intro Hc. apply Em2. right. exact Hc.
  - intros k' Hk1 Hk2. unfold d2.
    destruct (mem_bytes m (cur_set dcur)).
    + unfold d1. apply lookup_put_set_other. exact Hk1.
    + rewrite lookup_put_set_other by exact Hk2. unfold d1. apply lookup_put_set_other. exact Hk1.
Qed.
Print Assumptions smove_moves.

Example sadd_srem_smove_ex :
  let d := ex_sets in
  let r1 := cmd_sadd 50 d [s2b "a"; s2b "3"; s2b "9"; s2b "9"] in
  let r2 := cmd_srem 50 d [s2b "a"; s2b "1"; s2b "zz"; s2b "1"; s2b "3"] in
  let r3 := cmd_srem 50 d [s2b "a"; s2b "1"; s2b "2"; s2b "3"] in
  let r4 := cmd_smove 50 d [s2b "a"; s2b "b"; s2b "1"] in
  let r5 := cmd_smove 50 d [s2b "a"; s2b "b"; s2b "2"] in
  snd r1 = RInt 1 /\ get_set 50 (fst r1) (s2b "a") = Some (Some ([s2b "1"; s2b "2"; s2b "3"; s2b "9"], Some 100)) /\
  snd r2 = RInt 2 /\ members 50 (fst r2) (s2b "a") = [s2b "2"] /\
  snd r3 = RInt 3 /\ lookup 50 (fst r3) (s2b "a") = None /\
  snd r4 = RInt 1 /\ members 50 (fst r4) (s2b "a") = [s2b "2"; s2b "3"] /\
  members 50 (fst r4) (s2b "b") = [s2b "2"; s2b "3"; s2b "4"; s2b "1"] /\
  snd r5 = RInt 1 /\ members 50 (fst r5) (s2b "a") = [s2b "1"; s2b "3"] /\
  members 50 (fst r5) (s2b "b") = [s2b "2"; s2b "3"; s2b "4"] /\
  cmd_smove 50 d [s2b "a"; s2b "a"; s2b "1"] = (d, RInt 1) /\
  cmd_smove 50 d [s2b "a"; s2b "a"; s2b "7"] = (d, RInt 0) /\
  cmd_sadd 50 d [s2b "a"; s2b "1"] = (d, RInt 0).
Proof. vm_compute. repeat split; reflexivity. Qed.

(* ------------------------------------------------------------------ *)
(* 6. SINTERCARD                                                       *)
(* ------------------------------------------------------------------ *)

Lemma firstn_skipn_app {A} (l1 l2 : list A) :
  firstn (List.length l1) (l1 ++ l2) = l1 /\ skipn (List.length l1) (l1 ++ l2) = l2.
Proof.
  induction l1 as [|x l1 [IH1 IH2]]; simpl; [split; reflexivity|].
  rewrite IH1, IH2. split; reflexivity.
Qed.

(* numkeys keys..., optionally LIMIT lim; [lim = 0] means "no limit" *)
Theorem sintercard_spec now d nk keys tail lim :
  keys <> [] ->
  parse_i64 nk = Some (Zlen keys) ->
  (tail = [] /\ lim = 0 \/
   exists l v, tail = [l; v] /\ is_kw l "LIMIT" = true /\ parse_i64 v = Some lim /\ 0 <= lim) ->
  (forall k, In k keys -> ~ wrong_set now d k) ->
  let c := Zlen (sinter_l (map (members now d) keys)) in
  cmd_sintercard now d (nk :: keys ++ tail) =
    (d, RInt (if lim =? 0 then c else Z.min lim c)).
Proof.
  intros Hne Hnk Htail Hw c.
  assert (set_operands now d keys = Some (map (members now d) keys)) as Hs.
  { apply set_operands_some. split; [exact Hw|reflexivity]. }
  destruct (setop_operands_agree OpInter now d keys _ Hs) as [ops' [Ho Hf]].
  simpl in Ho, Hf.
  unfold cmd_sintercard. rewrite Hnk.
  assert (0 < Zlen keys) as Hpos.
  { destruct keys as [|k0 r0]; [congruence|]. rewrite Zlen_cons. pose proof (Zlen_nonneg r0). lia. }
  destruct (Zlen keys <=? 0) eqn:E1; [apply Z.leb_le in E1; lia|].
  assert (Zlen (keys ++ tail) <? Zlen keys = false) as E2.
  { apply Z.ltb_ge. rewrite Zlen_app. pose proof (Zlen_nonneg tail). lia. }
  rewrite E2. cbv zeta.
  assert (Z.to_nat (Zlen keys) = List.length keys) as Hn by (unfold Zlen; apply Nat2Z.id).
  rewrite Hn. destruct (firstn_skipn_app keys tail) as [Hfi Hsk]. rewrite Hfi, Hsk.
  assert (Hfin : forall l0, 0 <= l0 ->
            (if l0 <? 0 then (d, err "ERR LIMIT can't be negative")
             else match set_operands_until_missing now d keys with
                  | Some ops => let c0 := Zlen (sinter_l ops) in
                                (d, RInt (if (0 <? l0) && (l0 <? c0) then l0 else c0))
                  | None => (d, wrongtype)
                  end) = (d, RInt (if l0 =? 0 then c else Z.min l0 c))).
  { intros l0 Hl0. destruct (l0 <? 0) eqn:E3; [apply Z.ltb_lt in E3; lia|].
    rewrite Ho. cbv zeta. rewrite Hf. fold c. f_equal. f_equal.
    destruct (l0 =? 0) eqn:E4.
    - apply Z.eqb_eq in E4. subst l0. reflexivity.
    - apply Z.eqb_neq in E4. assert (0 <? l0 = true) as E5 by (apply Z.ltb_lt; lia).
      rewrite E5. cbn [andb]. destruct (l0 <? c) eqn:E6.
      + apply Z.ltb_lt in E6. lia.
      + apply Z.ltb_ge in E6. lia. }
  destruct Htail as [[Ht Hl]|[l [v [Ht [Hkw [Hv Hl]]]]]]; subst tail.
  - subst lim. apply (Hfin 0). lia.
  - rewrite Hkw, Hv. apply Hfin. exact Hl.
Qed.
Print Assumptions sintercard_spec.

Example sintercard_ex :
  cmd_sintercard 50 ex_sets [s2b "2"; s2b "a"; s2b "b"] = (ex_sets, RInt 2) /\
  cmd_sintercard 50 ex_sets [s2b "2"; s2b "a"; s2b "b"; s2b "LIMIT"; s2b "1"] = (ex_sets, RInt 1) /\
  cmd_sintercard 50 ex_sets [s2b "2"; s2b "a"; s2b "b"; s2b "limit"; s2b "5"] = (ex_sets, RInt 2) /\
  cmd_sintercard 50 ex_sets [s2b "2"; s2b "a"; s2b "b"; s2b "LIMIT"; s2b "0"] = (ex_sets, RInt 2) /\
  snd (cmd_sintercard 50 ex_sets [s2b "2"; s2b "a"; s2b "b"; s2b "LIMIT"; s2b "-1"]) = err "ERR LIMIT can't be negative".
Proof. vm_compute. repeat split; reflexivity. Qed.

(* ------------------------------------------------------------------ *)
(* 7. error inertness                                                  *)
(* ------------------------------------------------------------------ *)

Ltac inert_hyp :=
  repeat match goal with
         | H : context [match ?x with _ => _ end] |- _ => destruct x
         end; cbn [fst snd] in *; try reflexivity; try discriminate.

Theorem set_error_inert now d args s :
  (snd (cmd_sadd now d args) = RErr s -> fst (cmd_sadd now d args) = d) /\
  (snd (cmd_srem now d args) = RErr s -> fst (cmd_srem now d args) = d) /\
  (snd (cmd_scard now d args) = RErr s -> fst (cmd_scard now d args) = d) /\
  (snd (cmd_sismember now d args) = RErr s -> fst (cmd_sismember now d args) = d) /\
  (snd (cmd_smismember now d args) = RErr s -> fst (cmd_smismember now d args) = d) /\
  (snd (cmd_smembers now d args) = RErr s -> fst (cmd_smembers now d args) = d) /\
  (snd (cmd_smove now d args) = RErr s -> fst (cmd_smove now d args) = d) /\
  (snd (cmd_srandmember now d args) = RErr s -> fst (cmd_srandmember now d args) = d) /\
  (forall o, snd (cmd_setop o now d args) = RErr s -> fst (cmd_setop o now d args) = d) /\
  (forall o, snd (cmd_setop_store o now d args) = RErr s -> fst (cmd_setop_store o now d args) = d) /\
  (snd (cmd_sintercard now d args) = RErr s -> fst (cmd_sintercard now d args) = d).
Proof.
  repeat split; intros.
  - unfold cmd_sadd in *. inert_hyp.
  - unfold cmd_srem in *. inert_hyp.
  - unfold cmd_scard in *. inert_hyp.
  - unfold cmd_sismember in *. inert_hyp.
  - unfold cmd_smismember in *. inert_hyp.
  - unfold cmd_smembers in *. inert_hyp.
  - unfold cmd_smove in *. inert_hyp.
  - unfold cmd_srandmember in *. inert_hyp.
  - apply setop_db_unchanged.
  - unfold cmd_setop_store in *. cbv zeta in *. inert_hyp.
  - unfold cmd_sintercard in *. cbv zeta in *. inert_hyp.
Qed.
Print Assumptions set_error_inert.

(* the pure set commands never change the db at all *)
Theorem set_reads_pure now d args :
  fst (cmd_scard now d args) = d /\ fst (cmd_sismember now d args) = d /\
  fst (cmd_smismember now d args) = d /\ fst (cmd_smembers now d args) = d /\
  fst (cmd_srandmember now d args) = d /\ (forall o, fst (cmd_setop o now d args) = d) /\
  fst (cmd_sintercard now d args) = d.
Proof.
  unfold cmd_scard, cmd_sismember, cmd_smismember, cmd_smembers, cmd_srandmember, cmd_sintercard.
  repeat split; intros; try apply setop_db_unchanged; cbv zeta;
    repeat match goal with
           | |- context [match ?x with _ => _ end] => destruct x
           end; reflexivity.
Qed.
Print Assumptions set_reads_pure.

Example set_error_ex :
  let d := ex_sets in
  cmd_sadd 50 d [s2b "str"; s2b "x"] = (d, wrongtype) /\
  cmd_smove 50 d [s2b "a"; s2b "str"; s2b "1"] = (d, wrongtype) /\
  cmd_setop_store OpUnion 50 d [s2b "a"; s2b "b"; s2b "str"] = (d, wrongtype) /\
  cmd_setop_store OpInter 50 d [s2b "a"] = (d, argerr) /\
  cmd_sintercard 50 d [s2b "3"; s2b "a"; s2b "b"] =
    (d, err "ERR Number of keys can't be greater than number of args").
Proof. vm_compute. repeat split; reflexivity. Qed.

(* ------------------------------------------------------------------ *)
(* 8. invariant: every stored set is non-empty and duplicate free, and  *)
(*    every writing set command keeps it so (for arbitrary arguments)   *)
(* ------------------------------------------------------------------ *)

Definition set_wf (d : db) : Prop :=
  forall k e s, aget (d_map d) k = Some e -> e_val e = VSet s -> s <> [] /\ NoDup s.

Lemma lookup_aget now d k e : lookup now d k = Some e -> aget (d_map d) k = Some e.
Proof.
  unfold lookup. destruct (aget (d_map d) k) as [e0|]; [|discriminate].
  destruct (expired now e0); [discriminate|]. exact (fun H => H).
Qed.

Lemma set_wf_get now d k cur : set_wf d -> get_set now d k = Some cur -> NoDup (cur_set cur).
Proof.
  intros Hwf Hg. destruct cur as [[s e]|]; simpl; [|constructor].
  apply get_set_some in Hg. destruct Hg as [e0 [Hl [Hv _]]].
  apply lookup_aget in Hl. exact (proj2 (Hwf k e0 s Hl Hv)).
Qed.

Lemma set_wf_members now d k : set_wf d -> NoDup (members now d k).
Proof.
  intro Hwf. unfold members. destruct (lookup now d k) as [e|] eqn:El; [|constructor].
  destruct (e_val e) as [b|l|h|s] eqn:Ev; try constructor.
  apply lookup_aget in El. exact (proj2 (Hwf k e s El Ev)).
Qed.

Lemma set_wf_del d k : set_wf d -> set_wf (del d k).
Proof.
  intros Hwf k' e' s' Ha Hv. unfold del in Ha. simpl in Ha.
  destruct (bytes_eq_dec k' k) as [E|E].
  - subst k'. rewrite aget_adel_same in Ha. discriminate.
  - rewrite aget_adel_other in Ha by exact E. exact (Hwf k' e' s' Ha Hv).
Qed.

Lemma set_wf_put d k s exp : set_wf d -> s <> [] -> NoDup s -> set_wf (put d k (VSet s) exp).
Proof.
  intros Hwf Hne Hnd k' e' s' Ha Hv. unfold put in Ha. simpl in Ha.
  destruct (bytes_eq_dec k' k) as [E|E].
  - subst k'. rewrite aget_aset_same in Ha. inversion Ha; subst e'. simpl in Hv.
    inversion Hv; subst s'. split; assumption.
  - rewrite aget_aset_other in Ha by exact E. exact (Hwf k' e' s' Ha Hv).
Qed.

Lemma set_wf_put_set d k s exp : set_wf d -> NoDup s -> set_wf (put_set d k s exp).
Proof.
  intros Hwf Hnd. unfold put_set, put_or_del. destruct s as [|x s]; simpl.
  - apply set_wf_del. exact Hwf.
  - apply set_wf_put; [exact Hwf | discriminate | exact Hnd].
Qed.

Theorem set_wf_preserved now d args :
  set_wf d ->
  set_wf (fst (cmd_sadd now d args)) /\
  set_wf (fst (cmd_srem now d args)) /\
  set_wf (fst (cmd_smove now d args)) /\
  (forall o, set_wf (fst (cmd_setop_store o now d args))).
Proof.
  intro Hwf. split; [|split; [|split]].
  - unfold cmd_sadd. destruct args as [|k [|m0 ms0]]; try exact Hwf.
    destruct (get_set now d k) as [cur|] eqn:Hg; [|exact Hwf].
    pose proof (set_wf_get now d k cur Hwf Hg) as Hnd.
    destruct cur as [[s e]|]; cbn [cur_set] in *;
      destruct (sadd_all _ (m0 :: ms0)) as [s1 n1] eqn:E; cbn [fst];
      (destruct (n1 =? 0); [exact Hwf|]);
      apply set_wf_put_set; try exact Hwf;
      destruct (sadd_all_spec _ _ _ _ E) as [_ [Hn _]]; apply Hn; exact Hnd.
  - unfold cmd_srem. destruct args as [|k [|m0 ms0]]; try exact Hwf.
    destruct (get_set now d k) as [[[s e]|]|] eqn:Hg; try exact Hwf.
    pose proof (set_wf_get now d k _ Hwf Hg) as Hnd. cbn [cur_set] in Hnd.
    change (fun (acc : list bytes * Z) (m : bytes) =>
              let '(s0, n) := acc in if mem_bytes m s0 then (remove_bytes m s0, n + 1) else (s0, n))
      with srem_step.
    destruct (fold_left srem_step (m0 :: ms0) (s, 0)) as [s1 n1] eqn:E. cbn [fst].
    destruct (n1 =? 0); [exact Hwf|]. apply set_wf_put_set; [exact Hwf|].
    destruct (srem_fold_spec _ _ _ _ _ E) as [H1 _]. subst s1. apply NoDup_filter. exact Hnd.
  - unfold cmd_smove. destruct args as [|src [|dst [|m [|x r]]]]; try exact Hwf.
    destruct (get_set now d src) as [[[s e]|]|] eqn:Hs; try exact Hwf.
    destruct (get_set now d dst) as [dcur|] eqn:Hd; [|exact Hwf].
    destruct (negb (mem_bytes m s)); [exact Hwf|].
    destruct (bytes_eqb src dst); [exact Hwf|]. cbv zeta.
    pose proof (set_wf_get now d src _ Hwf Hs) as Hnd1. cbn [cur_set] in Hnd1.
    pose proof (set_wf_get now d dst _ Hwf Hd) as Hnd2.
    assert (set_wf (put_set d src (remove_bytes m s) e)) as Hwf1.
    { apply set_wf_put_set; [exact Hwf | apply remove_bytes_NoDup; exact Hnd1]. }
    destruct dcur as [[s2 e2]|]; cbn [cur_set fst] in *.
    + destruct (mem_bytes m s2) eqn:Em; [exact Hwf1|].
      apply set_wf_put_set; [exact Hwf1|]. apply mem_bytes_nIn in Em.
      clear - Hnd2 Em. induction s2 as [|y l IHl]; simpl.
      * constructor; [intros []|constructor].
      * inversion Hnd2 as [|? ? Hnin Hnd']; subst. constructor.
        -- rewrite in_app_iff. simpl. intros [Hy|[Hy|[]]]; [contradiction|].
           apply Em. left. symmetry. exact Hy.
        -- apply IHl; [exact Hnd'|]. intro Hc. apply Em. right. exact Hc.
    + simpl. apply set_wf_put_set; [exact Hwf1|]. constructor; [intros []|constructor].
  - intro o. unfold cmd_setop_store. destruct args as [|dst [|k0 ks]]; try exact Hwf.
    destruct (setop_operands o now d (k0 :: ks)) as [ops|] eqn:Eo; [|exact Hwf].
    cbv zeta. cbn [fst].
    destruct (setop_fn o ops) as [|x r] eqn:Er.
    + destruct (aget (d_map d) dst); [apply set_wf_del|]; exact Hwf.
    + apply set_wf_put; [exact Hwf | discriminate|]. rewrite <- Er.
      apply setop_fn_NoDup. intros s Hs.
      (* every operand that is actually used is a stored set or [] *)
      assert (Hall : forall ks' ops', set_operands now d ks' = Some ops' -> forall t, In t ops' -> NoDup t).
      { intros ks' ops' Ho t Ht. apply set_operands_some in Ho. destruct Ho as [_ Ho]. subst ops'.
        apply in_map_iff in Ht. destruct Ht as [k' [Hk' _]]. subst t. apply set_wf_members. exact Hwf. }
      assert (Hall2 : forall ks' ops', set_operands_until_missing now d ks' = Some ops' ->
                                       forall t, In t ops' -> NoDup t).
      { intros ks' ops' Ho t Ht. apply until_missing_shape in Ho.
        destruct Ho as [[Ho _]|[pre [k1 [post [_ [_ [_ Ho]]]]]]]; subst ops'.
        - apply in_map_iff in Ht. destruct Ht as [k' [Hk' _]]. subst t. apply set_wf_members. exact Hwf.
        - apply in_app_iff in Ht. destruct Ht as [Ht|[Ht|[]]].
          + apply in_map_iff in Ht. destruct Ht as [k' [Hk' _]]. subst t. apply set_wf_members. exact Hwf.
          + subst t. constructor. }
      destruct o; unfold setop_operands in Eo.
      * exact (Hall2 _ _ Eo s Hs).
      * exact (Hall _ _ Eo s Hs).
      * destruct (get_set now d k0) as [[[s0 e0]|]|].
        -- exact (Hall _ _ Eo s Hs).
        -- inversion Eo; subst ops. destruct Hs as [Hs|[]]. subst s. constructor.
        -- exact (Hall _ _ Eo s Hs).
Qed.
Print Assumptions set_wf_preserved.

Lemma set_wf_empty : set_wf empty_db.
Proof. intros k e s Ha. discriminate. Qed.

Corollary set_never_empty now d k s exp :
  set_wf d -> get_set now d k = Some (Some (s, exp)) -> s <> [] /\ NoDup s.
Proof.
  intros Hwf Hg. apply get_set_some in Hg. destruct Hg as [e [Hl [Hv _]]].
  apply lookup_aget in Hl. exact (Hwf k e s Hl Hv).
Qed.
Print Assumptions set_never_empty.

(* under the invariant the results of the algebra are duplicate free, so the
   reply length of the STORE forms is the cardinality of the mathematical result *)
Corollary setop_result_NoDup o now d ks :
  set_wf d -> NoDup (setop_fn o (map (members now d) ks)).
Proof.
  intro Hwf. apply setop_fn_NoDup. intros s Hs. apply in_map_iff in Hs.
  destruct Hs as [k [Hk _]]. subst s. apply set_wf_members. exact Hwf.
Qed.
Print Assumptions setop_result_NoDup.

(* ------------------------------------------------------------------ *)
(* 9. wrong-typed operands: WRONGTYPE, or (only SINTER*/SDIFF*, when a  *)
(*    missing key stopped the scan first) the empty result               *)
(* ------------------------------------------------------------------ *)

Theorem setop_wrong_reply o now d ks :
  ks <> [] ->
  (exists k, In k ks /\ wrong_set now d k) ->
  cmd_setop o now d ks = (d, wrongtype) \/
  (o <> OpUnion /\ cmd_setop o now d ks = (d, RArrU [])).
Proof.
  intros Hne Hw. apply set_operands_none in Hw.
  unfold cmd_setop. destruct ks as [|k0 r0]; [congruence|].
  destruct (setop_operands o now d (k0 :: r0)) as [ops'|] eqn:Eo; [|left; reflexivity].
  destruct (setop_operands_hidden o now d _ ops' Hw Eo) as [He Ho].
  right. split; [exact Ho|]. rewrite He. reflexivity.
Qed.
Print Assumptions setop_wrong_reply.

Theorem setop_store_wrong o now d dst ks :
  ks <> [] ->
  (exists k, In k ks /\ wrong_set now d k) ->
  let d' := fst (cmd_setop_store o now d (dst :: ks)) in
  cmd_setop_store o now d (dst :: ks) = (d, wrongtype) \/
  (o <> OpUnion /\ snd (cmd_setop_store o now d (dst :: ks)) = RInt 0 /\
   lookup now d' dst = None /\ forall k', k' <> dst -> lookup now d' k' = lookup now d k').
Proof.
  intros Hne Hw d'. subst d'. apply set_operands_none in Hw.
  unfold cmd_setop_store. destruct ks as [|k0 r0]; [congruence|].
  destruct (setop_operands o now d (k0 :: r0)) as [ops'|] eqn:Eo; [|left; reflexivity].
  destruct (setop_operands_hidden o now d _ ops' Hw Eo) as [He Ho].
  right. split; [exact Ho|]. cbv zeta. rewrite He. cbn [fst snd]. split; [reflexivity|].
  destruct (aget (d_map d) dst) eqn:Ea.
  - split; [apply lookup_del_same|]. intros k' Hk'. apply lookup_del_other. exact Hk'.
  - split; [unfold lookup; rewrite Ea; reflexivity|]. reflexivity.
Qed.
Print Assumptions setop_store_wrong.

(* the emulator's short cut: a missing key in front hides a later wrong-typed key *)
Example hidden_wrongtype_ex :
  cmd_setop OpDiff 50 ex_sets [s2b "nokey"; s2b "str"] = (ex_sets, RArrU []) /\
  cmd_setop OpDiff 50 ex_sets [s2b "a"; s2b "nokey"; s2b "str"] = (ex_sets, wrongtype) /\
  cmd_setop OpInter 50 ex_sets [s2b "nokey"; s2b "str"] = (ex_sets, RArrU []) /\
  cmd_setop OpUnion 50 ex_sets [s2b "nokey"; s2b "str"] = (ex_sets, wrongtype) /\
  snd (cmd_setop_store OpInter 50 ex_sets [s2b "a"; s2b "nokey"; s2b "str"]) = RInt 0 /\
  lookup 50 (fst (cmd_setop_store OpInter 50 ex_sets [s2b "a"; s2b "nokey"; s2b "str"])) (s2b "a") = None.
Proof. vm_compute. repeat split; reflexivity. Qed.
