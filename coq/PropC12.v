(* PropC12.v — how a block ends (model: Capture.v, after the repair of the teardown race).

   "A blocked command with timeout t > 0 completes with a null reply no earlier than t after it
    was issued ..., while timeout 0 waits indefinitely. CLIENT UNBLOCK id ends exactly that
    client's block and reports 1 only if the client was actually blocked; ... After a block ends
    in any of these ways the connection processes further commands normally (including blocking
    again)."

   The record [cap] has a fourth field [c_closing] (the connection was asked to close; never
   reset) and there is the operation [OCloseReq] (teardown: sets [c_closing] and posts RTimeout
   like an unblock); a capture on a connection that is already closing posts the message itself.
   Statements that mentioned [mkCap a b c] carry the fourth field now; statements over all
   operations cover [OCloseReq]; sections 1b/3b/3c are new. *)
From RE Require Import Base Capture.
From Coq Require Import List Lia ZArith QArith Qround Bool.
Import ListNotations.
Open Scope list_scope.

(* ---------- 1. the invariant ---------- *)
(* third clause (new): a captured client of a closing connection always has its unblock posted *)
Definition cap_inv (c : cap) : Prop :=
  (c_mail c <> None -> c_blocked c = true /\ c_pending c = true) /\
  (c_blocked c = false -> c_pending c = false /\ c_mail c = None) /\
  (c_closing c = true -> c_blocked c = true -> c_pending c = true).

(* the same as a boolean, so that preservation is a finite check *)
Definition cap_ok (c : cap) : bool :=
  (match c_mail c with Some _ => c_blocked c && c_pending c | None => true end) &&
  (c_blocked c || (negb (c_pending c) && match c_mail c with None => true | Some _ => false end)) &&
  (negb (c_closing c) || negb (c_blocked c) || c_pending c).

Lemma cap_ok_spec c : cap_inv c <-> cap_ok c = true.
Proof.
  destruct c as [[|] [|] [r|] [|]]; unfold cap_inv, cap_ok; cbn; split; intro H;
    try reflexivity; try discriminate H;
    try (intuition congruence);
    try (exfalso; destruct H as (H1 & H2 & H3);
         first [ specialize (H3 eq_refl eq_refl); congruence
               | destruct (H2 eq_refl); congruence
               | destruct (H1 ltac:(congruence)); congruence ]).
Qed.

Lemma cap_inv0 : cap_inv cap0.
Proof. apply cap_ok_spec. reflexivity. Qed.

Lemma cstep_ok c o c' x : cap_ok c = true -> cstep c o = Some (c', x) -> cap_ok c' = true.
Proof.
  intros Hi Hs. destruct c as [b p ml cl].
  destruct o as [| | |r| |]; destruct b; destruct p; destruct ml as [r0|]; destruct cl;
    cbn in Hi; try discriminate Hi; cbn in Hs; try discriminate Hs;
    inversion Hs; subst; reflexivity.
Qed.

Lemma cstep_inv c o c' x : cap_inv c -> cstep c o = Some (c', x) -> cap_inv c'.
Proof. intros Hi Hs. apply cap_ok_spec. apply cap_ok_spec in Hi. eapply cstep_ok; eauto. Qed.

Lemma crun_cons c o os c' rs :
  crun c (o :: os) = Some (c', rs) ->
  exists c1 x rs', cstep c o = Some (c1, x) /\ crun c1 os = Some (c', rs') /\ rs = x :: rs'.
Proof.
  cbn [crun]. destruct (cstep c o) as [[c1 x]|]; intro H; [|discriminate H].
  destruct (crun c1 os) as [[c2 xs]|] eqn:E; [|discriminate H].
  inversion H; subst. exists c1, x, xs. auto.
Qed.

Lemma crun_inv os : forall c c' rs, cap_inv c -> crun c os = Some (c', rs) -> cap_inv c'.
Proof.
  induction os as [|o os IH]; intros c c' rs Hi Hr.
  - simpl in Hr. inversion Hr; subst; exact Hi.
  - apply crun_cons in Hr as (c1 & x & rs' & Hs & Hr & _).
    eapply IH; [eapply cstep_inv; eauto | exact Hr].
Qed.

(* Whatever the blocking goroutine and any number of other goroutines (CLIENT UNBLOCK, teardown,
   CLIENT LIST) do, in any interleaving (runs with OCloseReq included):
   - a message is in the mailbox only while the client is captured and an unblock is pending;
   - an uncaptured client has no pending flag and an empty mailbox, so no stale unblock can end
     a LATER block;
   - a message in the mailbox is never overwritten, neither by CLIENT UNBLOCK nor by the teardown
     (one slot is enough, the sender never blocks);
   - (new) on a closing connection a captured client always has an unblock posted. *)
Theorem C12_invariant os c rs :
  crun cap0 os = Some (c, rs) ->
  (c_mail c <> None -> c_blocked c = true /\ c_pending c = true) /\
  (c_blocked c = false -> c_pending c = false /\ c_mail c = None) /\
  (forall r r', c_mail c = Some r -> cstep c (OUnblock r') = Some (c, CBool true)) /\
  (forall r, c_mail c = Some r -> cstep c OCloseReq = Some (mkCap true true (Some r) true, CBool true)) /\
  (c_closing c = true -> c_blocked c = true -> c_pending c = true).
Proof.
  intro Hr. destruct (crun_inv os _ _ _ cap_inv0 Hr) as (H1 & H2 & H3).
  split; [exact H1|]. split; [exact H2|]. split; [|split; [|exact H3]].
  - intros r r' Hm. destruct (H1 ltac:(congruence)) as [Hb Hp].
    unfold cstep. rewrite Hb, Hp. reflexivity.
  - intros r Hm. destruct (H1 ltac:(congruence)) as [Hb Hp].
    unfold cstep. rewrite Hb, Hp, Hm. reflexivity.
Qed.
Print Assumptions C12_invariant.

Example C12_invariant_ex :
  crun cap0 [OUnblock RError; OCapture; OIsBlocked; OUnblock RTimeout; OUnblock RError; ORecv; OUnblock RError;
             ORelease; OUnblock RError; OCapture; OIsBlocked]
  = Some (mkCap true false None false,
          [CBool false; CNone; CBool true; CBool true; CBool true; CReason RTimeout; CBool true;
           CNone; CBool false; CNone; CBool true]).
Proof. reflexivity. Qed.

(* with the teardown in the run: the first message (RError) is not overwritten by the close
   request, and the next capture on the closing connection gets RTimeout at once *)
Example C12_invariant_close_ex :
  crun cap0 [OCapture; OUnblock RError; OCloseReq; OIsBlocked; ORecv; OCloseReq; ORelease;
             OCapture; ORecv; ORelease; OIsBlocked]
  = Some (mkCap false false None true,
          [CNone; CBool true; CBool true; CBool true; CReason RError; CBool true; CNone;
           CNone; CReason RTimeout; CNone; CBool false]).
Proof. reflexivity. Qed.

(* ---------- 1b. the closing flag ---------- *)
Definition is_close (o : cop) : bool := match o with OCloseReq => true | _ => false end.

Lemma cstep_closing c o c' x : cstep c o = Some (c', x) -> c_closing c' = c_closing c || is_close o.
Proof.
  intro Hs. destruct c as [b p ml cl].
  destruct o as [| | |r| |]; destruct b; destruct p; destruct ml as [r0|]; destruct cl;
    cbn in Hs; try discriminate Hs; inversion Hs; subst; reflexivity.
Qed.

Lemma crun_closing os : forall c c' rs,
  crun c os = Some (c', rs) -> c_closing c' = c_closing c || existsb is_close os.
Proof.
  induction os as [|o os IH]; intros c c' rs Hr.
  - simpl in Hr. inversion Hr; subst. simpl. rewrite orb_false_r. reflexivity.
  - apply crun_cons in Hr as (c1 & x & rs' & Hs & Hr & _).
    rewrite (IH _ _ _ Hr), (cstep_closing _ _ _ _ Hs). simpl. rewrite orb_assoc. reflexivity.
Qed.

(* [c_closing] is never reset: by no operation, from no state (reachable or not), hence it is
   monotone along every run; precisely, after a run it is set iff it was set before or the run
   contains an OCloseReq. *)
Theorem C12_closing_forever :
  (forall c o c' x, cstep c o = Some (c', x) -> c_closing c = true -> c_closing c' = true) /\
  (forall os c c' rs, crun c os = Some (c', rs) -> c_closing c = true -> c_closing c' = true) /\
  (forall os1 os2 c c1 rs1 c2 rs2,
      crun c os1 = Some (c1, rs1) -> crun c (os1 ++ os2) = Some (c2, rs2) ->
      c_closing c1 = true -> c_closing c2 = true) /\
  (forall os c rs, crun cap0 os = Some (c, rs) -> c_closing c = existsb is_close os).
Proof.
  split; [|split; [|split]].
  - intros c o c' x Hs Hc. rewrite (cstep_closing _ _ _ _ Hs), Hc. reflexivity.
  - intros os c c' rs Hr Hc. rewrite (crun_closing _ _ _ _ Hr), Hc. reflexivity.
  - intros os1 os2 c c1 rs1 c2 rs2 H1 H2 Hc.
    rewrite (crun_closing _ _ _ _ H2). rewrite (crun_closing _ _ _ _ H1) in Hc.
    rewrite existsb_app, orb_assoc, Hc. reflexivity.
  - intros os c rs Hr. rewrite (crun_closing _ _ _ _ Hr). reflexivity.
Qed.
Print Assumptions C12_closing_forever.

Example C12_closing_forever_ex :
  crun cap0 [OCloseReq; OCapture; ORecv; ORelease; OUnblock RError; OCapture; OUnblock RError; ORecv; ORelease]
  = Some (mkCap false false None true,
          [CBool false; CNone; CReason RTimeout; CNone; CBool false; CNone; CBool true; CReason RTimeout; CNone]).
Proof. vm_compute. reflexivity. Qed.

(* ---------- 2. CLIENT UNBLOCK reports whether the client was blocked ---------- *)
Theorem C12_unblock_reports_blocked c r c' x :
  cstep c (OUnblock r) = Some (c', x) ->
  x = CBool (c_blocked c) /\
  (c_blocked c = false -> c' = c) /\
  (c_blocked c = true -> c_blocked c' = true /\ c_pending c' = true) /\
  c_closing c' = c_closing c.
Proof.
  unfold cstep. destruct (c_blocked c) eqn:Hb.
  - destruct (c_pending c) eqn:Hp; intro H; inversion H; subst; clear H.
    + split; [reflexivity|]. split; [discriminate|]. auto.
    + split; [reflexivity|]. split; [discriminate|]. auto.
  - intro H; inversion H; subst. split; [reflexivity|]. split; auto. split; [discriminate|reflexivity].
Qed.
Print Assumptions C12_unblock_reports_blocked.

(* in the form asked for: the boolean returned is the blocked flag *)
Corollary C12_unblock_bool c r c' b :
  cstep c (OUnblock r) = Some (c', CBool b) -> b = c_blocked c /\ (c_blocked c = false -> c' = c).
Proof.
  intro H. destruct (C12_unblock_reports_blocked _ _ _ _ H) as (H1 & H2 & _).
  inversion H1. auto.
Qed.
Print Assumptions C12_unblock_bool.

(* the teardown: always enabled; its result is the blocked flag; it sets [c_closing]; when the
   client is not blocked it changes nothing else; when the client is blocked it stays blocked,
   an unblock is pending afterwards, and the mailbox is written (with RTimeout) only if no unblock
   was pending before — otherwise it is left as it is *)
Theorem C12_close_reports_blocked c :
  exists c', cstep c OCloseReq = Some (c', CBool (c_blocked c)) /\
    c_closing c' = true /\
    c_blocked c' = c_blocked c /\
    (c_blocked c = false -> c' = mkCap false (c_pending c) (c_mail c) true /\
                            c_pending c' = c_pending c /\ c_mail c' = c_mail c) /\
    (c_blocked c = true -> c_blocked c' = true /\ c_pending c' = true /\
                           c_mail c' = if c_pending c then c_mail c else Some RTimeout).
Proof.
  unfold cstep. destruct (c_blocked c) eqn:Hb; [destruct (c_pending c) eqn:Hp|];
    eexists; (split; [reflexivity|]); cbn; repeat split; try reflexivity; try discriminate.
Qed.
Print Assumptions C12_close_reports_blocked.

(* functional form *)
Corollary C12_close_result c c' x :
  cstep c OCloseReq = Some (c', x) ->
  x = CBool (c_blocked c) /\ c_closing c' = true /\ c_blocked c' = c_blocked c /\
  (c_blocked c = false -> c_pending c' = c_pending c /\ c_mail c' = c_mail c) /\
  (c_blocked c = true -> c_pending c' = true).
Proof.
  intro Hs. destruct (C12_close_reports_blocked c) as (c2 & Hs2 & Hc & Hb & Hf & Ht).
  rewrite Hs in Hs2. inversion Hs2; subst. split; [reflexivity|]. split; [exact Hc|]. split; [exact Hb|].
  split; [intro H; apply Hf; exact H | intro H; apply Ht; exact H].
Qed.
Print Assumptions C12_close_result.

Example C12_close_reports_blocked_ex :
  cstep cap0 OCloseReq = Some (mkCap false false None true, CBool false) /\
  cstep (mkCap true false None false) OCloseReq = Some (mkCap true true (Some RTimeout) true, CBool true) /\
  cstep (mkCap true true (Some RError) false) OCloseReq = Some (mkCap true true (Some RError) true, CBool true) /\
  cstep (mkCap true true None false) OCloseReq = Some (mkCap true true None true, CBool true).
Proof. vm_compute. repeat split. Qed.

(* unblocking changes only the one client it is applied to: the operation acts on one [cap]
   record; two clients are two records (product state) *)
Definition cstep2 (cs : cap * cap) (which : bool) (o : cop) : option ((cap * cap) * cres) :=
  if which then match cstep (fst cs) o with Some (c', x) => Some ((c', snd cs), x) | None => None end
  else match cstep (snd cs) o with Some (c', x) => Some ((fst cs, c'), x) | None => None end.

Theorem C12_unblock_exactly_that_client cs o cs' x :
  cstep2 cs true o = Some (cs', x) -> snd cs' = snd cs.
Proof.
  unfold cstep2. destruct (cstep (fst cs) o) as [[c' y]|]; intro H; inversion H; reflexivity.
Qed.
Print Assumptions C12_unblock_exactly_that_client.

(* ---------- 3. at most one delivery per capture, and it is the first message posted ---------- *)
Fixpoint received (rs : list cres) : list reason :=
  match rs with
  | [] => []
  | CReason r :: t => r :: received t
  | _ :: t => received t
  end.

(* the first OUnblock of a segment (the notion of the statement before the repair; kept for the
   corollary about runs without teardown) *)
Fixpoint first_unblock (os : list cop) : option reason :=
  match os with
  | [] => None
  | OUnblock r :: _ => Some r
  | _ :: t => first_unblock t
  end.

(* the first message posted by an operation of a segment: OUnblock r posts r, OCloseReq posts RTimeout *)
Fixpoint first_post (os : list cop) : option reason :=
  match os with
  | [] => None
  | OUnblock r :: _ => Some r
  | OCloseReq :: _ => Some RTimeout
  | _ :: t => first_post t
  end.

(* the first message posted for a capture: the capture itself posts RTimeout when the connection
   is closing already *)
Definition first_posted (closing_at_capture : bool) (seg : list cop) : option reason :=
  if closing_at_capture then Some RTimeout else first_post seg.

Definition no_release (os : list cop) : Prop := ~ In ORelease os.

(* what can be said at the end of a release-free segment of one capture, given the first message
   [fp] posted for it and the messages [rcv] received in it *)
Definition seg_outcome (fp : option reason) (c : cap) (rcv : list reason) : Prop :=
  c_blocked c = true /\
  match fp with
  | None => rcv = [] /\ c_pending c = false /\ c_mail c = None /\ c_closing c = false
  | Some r => c_pending c = true /\
              ((rcv = [] /\ c_mail c = Some r) \/ (rcv = [r] /\ c_mail c = None))
  end.

(* after the message was taken: nothing more is received during this capture *)
Lemma seg_after_recv os : forall cl c rs,
  no_release os -> crun (mkCap true true None cl) os = Some (c, rs) ->
  received rs = [] /\ c_blocked c = true /\ c_pending c = true /\ c_mail c = None.
Proof.
  induction os as [|o os IH]; intros cl c rs Hn Hr.
  - simpl in Hr. inversion Hr; subst. simpl. auto.
  - apply crun_cons in Hr as (c1 & x & rs' & Hs & Hr & ->).
    assert (Hn' : no_release os) by (intro Hin; apply Hn; right; exact Hin).
    destruct o as [| | |r| |]; simpl in Hs; try discriminate.
    + exfalso. apply Hn. left; reflexivity.
    + inversion Hs; subst. simpl. eapply IH; eauto.
    + inversion Hs; subst. simpl. eapply IH; eauto.
    + inversion Hs; subst. simpl. eapply IH; eauto.
Qed.

Lemma seg_mail os : forall r cl c rs,
  no_release os -> crun (mkCap true true (Some r) cl) os = Some (c, rs) ->
  seg_outcome (Some r) c (received rs).
Proof.
  induction os as [|o os IH]; intros r cl c rs Hn Hr.
  - simpl in Hr. inversion Hr; subst. unfold seg_outcome. simpl. auto.
  - apply crun_cons in Hr as (c1 & x & rs' & Hs & Hr & ->).
    assert (Hn' : no_release os) by (intro Hin; apply Hn; right; exact Hin).
    destruct o as [| | |r'| |]; simpl in Hs; try discriminate.
    + inversion Hs; subst. simpl.
      destruct (seg_after_recv _ _ _ _ Hn' Hr) as (H1 & H2 & H3 & H4).
      unfold seg_outcome. rewrite H1. auto.
    + exfalso. apply Hn. left; reflexivity.
    + inversion Hs; subst. simpl. eapply IH; eauto.
    + inversion Hs; subst. simpl. eapply IH; eauto.
    + inversion Hs; subst. simpl. eapply IH; eauto.
Qed.

Lemma seg_fresh os : forall c rs,
  no_release os -> crun (mkCap true false None false) os = Some (c, rs) ->
  seg_outcome (first_post os) c (received rs).
Proof.
  induction os as [|o os IH]; intros c rs Hn Hr.
  - simpl in Hr. inversion Hr; subst. unfold seg_outcome. simpl. auto.
  - apply crun_cons in Hr as (c1 & x & rs' & Hs & Hr & ->).
    assert (Hn' : no_release os) by (intro Hin; apply Hn; right; exact Hin).
    destruct o as [| | |r'| |]; simpl in Hs; try discriminate.
    + exfalso. apply Hn. left; reflexivity.
    + inversion Hs; subst. simpl. eapply seg_mail; eauto.
    + inversion Hs; subst. simpl. eapply seg_mail; eauto.
    + inversion Hs; subst. simpl. eapply IH; eauto.
Qed.

Lemma crun_app os1 : forall os2 c c' rs,
  crun c (os1 ++ os2) = Some (c', rs) ->
  exists c1 rs1 rs2, crun c os1 = Some (c1, rs1) /\ crun c1 os2 = Some (c', rs2) /\ rs = rs1 ++ rs2
                     /\ length rs1 = length os1.
Proof.
  induction os1 as [|o os1 IH]; intros os2 c c' rs Hr.
  - exists c, [], rs. simpl. auto.
  - simpl app in Hr. apply crun_cons in Hr as (c1 & x & rs' & Hs & Hr & ->).
    destruct (IH _ _ _ _ Hr) as (c2 & rs1 & rs2 & H1 & H2 & -> & Hl).
    exists c2, (x :: rs1), rs2. simpl. rewrite Hs, H1. simpl. auto.
Qed.

Lemma skipn_seg (rs1 : list cres) x rs' n : length rs1 = n -> skipn (S n) (rs1 ++ x :: rs') = rs'.
Proof. intros <-. induction rs1 as [|a l IH]; [reflexivity | exact IH]. Qed.

(* The complete description of one capture. In any run from the initial state, consider the
   OCapture at position [length pre] followed by a segment [seg] without ORelease. Let [fp] be the
   first message posted for this capture: RTimeout by the capture itself if a close request was
   issued before it (anywhere in [pre]), otherwise that of the first OUnblock r (r) or OCloseReq
   (RTimeout) of the segment. Then at the end the client is captured and
   - if nothing was posted: nothing was received, nothing is pending, the connection is not closing;
   - if [fp = Some r]: an unblock is pending and either r is still in the mailbox and nothing was
     received, or exactly r was received and the mailbox is empty.
   Unblocks issued before the capture (in [pre], whatever it contains) are never received. *)
Theorem C12_capture_segment pre seg c rs :
  crun cap0 (pre ++ OCapture :: seg) = Some (c, rs) -> no_release seg ->
  seg_outcome (first_posted (existsb is_close pre) seg) c (received (skipn (S (length pre)) rs)).
Proof.
  intros Hr Hn. apply crun_app in Hr as (c1 & rs1 & rs2 & H1 & H2 & -> & Hl).
  apply crun_cons in H2 as (c2 & x & rs' & Hs & H2 & ->).
  rewrite (skipn_seg _ _ _ _ Hl).
  destruct (crun_inv _ _ _ _ cap_inv0 H1) as (_ & Hi & _).
  pose proof (crun_closing _ _ _ _ H1) as Hcl. simpl in Hcl. rewrite <- Hcl.
  destruct c1 as [b p ml cl]. simpl in Hi, Hs |- *.
  destruct b; [discriminate|]. destruct (Hi eq_refl) as [-> ->].
  destruct cl; simpl in Hs; inversion Hs; subst c2 x; clear Hs.
  - unfold first_posted. eapply seg_mail; eauto.
  - unfold first_posted. eapply seg_fresh; eauto.
Qed.
Print Assumptions C12_capture_segment.

(* Within one capture at most one message is ever received, whichever mix of OUnblock r and
   OCloseReq was issued, and it is the first one posted (statement of before the repair with
   [first_unblock seg] replaced by [first_posted (existsb is_close pre) seg]: the old statement is
   false now, e.g. [OCapture; OCloseReq; ORecv] receives RTimeout although the segment has no
   OUnblock, and so does [OCloseReq; OCapture; ORecv]). *)
Theorem C12_unblock_delivered_once pre seg c rs :
  crun cap0 (pre ++ OCapture :: seg) = Some (c, rs) -> no_release seg ->
  let seg_results := skipn (S (length pre)) rs in
  received seg_results = [] \/
  exists r, first_posted (existsb is_close pre) seg = Some r /\ received seg_results = [r].
Proof.
  intros Hr Hn. cbv zeta. destruct (C12_capture_segment _ _ _ _ Hr Hn) as [_ H].
  destruct (first_posted (existsb is_close pre) seg) as [r|].
  - destruct H as [_ [[H _]|[H _]]]; [left; exact H | right; exists r; auto].
  - left. apply H.
Qed.
Print Assumptions C12_unblock_delivered_once.

(* the statement of before the repair, literally, for runs without teardown *)
Lemma first_post_noclose os : existsb is_close os = false -> first_post os = first_unblock os.
Proof.
  induction os as [|o os IH]; [reflexivity|]. simpl. intro H. apply orb_false_iff in H as [H1 H2].
  destruct o; try discriminate; auto.
Qed.

Corollary C12_unblock_delivered_once_noclose pre seg c rs :
  crun cap0 (pre ++ OCapture :: seg) = Some (c, rs) -> no_release seg ->
  existsb is_close (pre ++ seg) = false ->
  let seg_results := skipn (S (length pre)) rs in
  received seg_results = [] \/
  exists r, first_unblock seg = Some r /\ received seg_results = [r].
Proof.
  intros Hr Hn Hc. rewrite existsb_app in Hc. apply orb_false_iff in Hc as [Hc1 Hc2].
  pose proof (C12_unblock_delivered_once _ _ _ _ Hr Hn) as H. cbv zeta in *.
  rewrite Hc1 in H. unfold first_posted in H. rewrite (first_post_noclose _ Hc2) in H. exact H.
Qed.
Print Assumptions C12_unblock_delivered_once_noclose.

Example C12_delivered_once_ex :
  crun cap0 ([OUnblock RError] ++ OCapture :: [OUnblock RTimeout; OUnblock RError; ORecv; OUnblock RError])
  = Some (mkCap true true None false, [CBool false; CNone; CBool true; CBool true; CReason RTimeout; CBool true]) /\
  first_unblock [OUnblock RTimeout; OUnblock RError; ORecv; OUnblock RError] = Some RTimeout.
Proof. split; reflexivity. Qed.

(* mixes of OUnblock and OCloseReq: the first one posted wins, the other is absorbed *)
Example C12_delivered_once_close_ex :
  crun cap0 ([OUnblock RError] ++ OCapture :: [OUnblock RError; OCloseReq; ORecv; OCloseReq; OUnblock RError])
  = Some (mkCap true true None true,
          [CBool false; CNone; CBool true; CBool true; CReason RError; CBool true; CBool true]) /\
  first_posted (existsb is_close [OUnblock RError]) [OUnblock RError; OCloseReq; ORecv; OCloseReq; OUnblock RError]
  = Some RError /\
  crun cap0 ([] ++ OCapture :: [OCloseReq; OUnblock RError; ORecv; OUnblock RError])
  = Some (mkCap true true None true, [CNone; CBool true; CBool true; CReason RTimeout; CBool true]) /\
  first_posted (existsb is_close []) [OCloseReq; OUnblock RError; ORecv; OUnblock RError] = Some RTimeout /\
  crun cap0 ([OCloseReq] ++ OCapture :: [OUnblock RError; ORecv; OUnblock RError])
  = Some (mkCap true true None true, [CBool false; CNone; CBool true; CReason RTimeout; CBool true]) /\
  first_posted (existsb is_close [OCloseReq]) [OUnblock RError; ORecv; OUnblock RError] = Some RTimeout.
Proof. vm_compute. repeat split. Qed.

(* a message can only be received after it was sent: ORecv is refused while the mailbox is empty *)
Theorem C12_recv_needs_message c : c_mail c = None -> cstep c ORecv = None.
Proof. intro H. unfold cstep. rewrite H. destruct (c_blocked c); reflexivity. Qed.
Print Assumptions C12_recv_needs_message.

(* ---------- 3b. a closed connection never waits ---------- *)
(* the step: a command that starts to wait on a connection that was asked to close finds its
   unblock message posted at once *)
Theorem C12_closed_never_waits_step c :
  c_closing c = true -> c_blocked c = false -> c_pending c = false ->
  cstep c OCapture = Some (mkCap true true (Some RTimeout) true, CNone).
Proof. intros Hc Hb Hp. unfold cstep. rewrite Hb, Hc, Hp. reflexivity. Qed.
Print Assumptions C12_closed_never_waits_step.

(* in every reachable state of a closing connection: a captured client has an unblock posted for
   this capture (so the wait is over: see C12_closed_wait_has_message for where the message is),
   and an uncaptured client will get RTimeout posted by its next capture *)
Theorem C12_closed_never_waits os c rs :
  crun cap0 os = Some (c, rs) -> c_closing c = true ->
  (c_blocked c = true -> c_pending c = true) /\
  (c_blocked c = false ->
   cstep c OCapture = Some (mkCap true true (Some RTimeout) true, CNone) /\
   crun c [OCapture; ORecv; ORelease] = Some (c, [CNone; CReason RTimeout; CNone])).
Proof.
  intros Hr Hc. destruct (crun_inv _ _ _ _ cap_inv0 Hr) as (_ & H2 & H3).
  split; [intro Hb; apply H3; assumption|].
  intro Hb. destruct (H2 Hb) as [Hp Hm].
  split; [apply C12_closed_never_waits_step; assumption|].
  destruct c as [b p ml cl]. simpl in *. subst. reflexivity.
Qed.
Print Assumptions C12_closed_never_waits.

Lemma cstep_reason c o c' r : cstep c o = Some (c', CReason r) -> o = ORecv.
Proof.
  destruct o as [| | |r'| |]; [| reflexivity | | | |]; unfold cstep; intro H; exfalso;
    repeat match type of H with
           | context [if ?b then _ else _] => destruct b
           end; discriminate H.
Qed.

Lemma no_recv_nothing_received os : forall c c' rs,
  ~ In ORecv os -> crun c os = Some (c', rs) -> received rs = [].
Proof.
  induction os as [|o os IH]; intros c c' rs Hn Hr.
  - simpl in Hr. inversion Hr; reflexivity.
  - apply crun_cons in Hr as (c1 & x & rs' & Hs & Hr & ->).
    assert (Hn' : ~ In ORecv os) by (intro Hin; apply Hn; right; exact Hin).
    destruct x as [|b|r]; simpl; try (eapply IH; eauto).
    exfalso. apply Hn. left. eapply cstep_reason; eauto.
Qed.

(* where the message is. Consider one capture (as in C12_capture_segment) and suppose the
   connection is closing at the end of the segment (the close request may have come before the
   capture or during it). Then a message r — the first one posted — EITHER is in the mailbox, the
   blocking command has received nothing yet and its ORecv is enabled and yields r, OR was
   received already (exactly once) and the mailbox is empty. [c_mail c = None] is possible only
   after an ORecv since the capture: if the segment has no ORecv the first case holds. *)
Theorem C12_closed_wait_has_message pre seg c rs :
  crun cap0 (pre ++ OCapture :: seg) = Some (c, rs) -> no_release seg -> c_closing c = true ->
  let seg_results := skipn (S (length pre)) rs in
  exists r, first_posted (existsb is_close pre) seg = Some r /\
    ((c_mail c = Some r /\ received seg_results = [] /\
      cstep c ORecv = Some (mkCap true true None true, CReason r)) \/
     (c_mail c = None /\ received seg_results = [r] /\ In ORecv seg)) /\
    (~ In ORecv seg -> c_mail c = Some r).
Proof.
  intros Hr Hn Hc. cbv zeta.
  pose proof (C12_capture_segment _ _ _ _ Hr Hn) as [Hb H].
  assert (Hnr : ~ In ORecv seg -> received (skipn (S (length pre)) rs) = []).
  { intro Hnr. apply crun_app in Hr as (c1 & rs1 & rs2 & H1 & H2 & -> & Hl).
    apply crun_cons in H2 as (c2 & x & rs' & Hs & H2 & ->).
    rewrite (skipn_seg _ _ _ _ Hl). eapply no_recv_nothing_received; eauto. }
  destruct (first_posted (existsb is_close pre) seg) as [r|].
  - exists r. split; [reflexivity|]. destruct H as [Hp [[H1 H2]|[H1 H2]]].
    + split; [|intros _; exact H2]. left. split; [exact H2|]. split; [exact H1|].
      destruct c as [b p ml cl]. simpl in *. subst. reflexivity.
    + assert (Hin : In ORecv seg).
      { destruct (in_dec (fun a b : cop => ltac:(decide equality; decide equality) : {a = b} + {a <> b}) ORecv seg)
          as [Hin|Hnin]; [exact Hin|]. rewrite (Hnr Hnin) in H1. discriminate H1. }
      split; [right; auto|]. intro Hnin. contradiction.
  - destruct H as (_ & _ & _ & Hf). congruence.
Qed.
Print Assumptions C12_closed_wait_has_message.

Example C12_closed_never_waits_ex :
  crun cap0 [OCloseReq; OCapture; ORecv; ORelease] =
    Some (mkCap false false None true, [CBool false; CNone; CReason RTimeout; CNone]) /\
  crun cap0 [OCloseReq; OCapture] = Some (mkCap true true (Some RTimeout) true, [CBool false; CNone]) /\
  crun cap0 [OCapture; OCloseReq] = Some (mkCap true true (Some RTimeout) true, [CNone; CBool true]) /\
  crun cap0 [OCapture; OCloseReq; ORecv] = Some (mkCap true true None true, [CNone; CBool true; CReason RTimeout]) /\
  cstep (mkCap false false None true) OCapture = Some (mkCap true true (Some RTimeout) true, CNone).
Proof. vm_compute. repeat split. Qed.

(* ---------- 3c. close request and capture, in both orders ---------- *)
(* the race that was repaired: whichever of the two comes first, a message ends up in the mailbox *)
Theorem C12_close_then_capture c :
  c_blocked c = false -> c_pending c = false -> c_mail c = None ->
  cstep c OCloseReq = Some (mkCap false false None true, CBool false) /\
  cstep (mkCap false false None true) OCapture = Some (mkCap true true (Some RTimeout) true, CNone) /\
  crun c [OCloseReq; OCapture] = Some (mkCap true true (Some RTimeout) true, [CBool false; CNone]).
Proof.
  intros Hb Hp Hm. destruct c as [b p ml cl]. simpl in *. subst. repeat split.
Qed.
Print Assumptions C12_close_then_capture.

Theorem C12_capture_then_close c :
  c_blocked c = false -> c_pending c = false -> c_mail c = None ->
  (exists c1, cstep c OCapture = Some (c1, CNone) /\
              cstep c1 OCloseReq = Some (mkCap true true (Some RTimeout) true, CBool true)) /\
  crun c [OCapture; OCloseReq] = Some (mkCap true true (Some RTimeout) true, [CNone; CBool true]).
Proof.
  intros Hb Hp Hm. destruct c as [b p ml cl]. simpl in *. subst.
  destruct cl; (split; [eexists; split; reflexivity | reflexivity]).
Qed.
Print Assumptions C12_capture_then_close.

(* both orders end in the same state, in which the blocking command's ORecv yields RTimeout;
   a CLIENT UNBLOCK r that slips in between capture and close request wins instead *)
Corollary C12_close_capture_confluent c :
  c_blocked c = false -> c_pending c = false -> c_mail c = None ->
  exists c', (exists rs, crun c [OCloseReq; OCapture] = Some (c', rs)) /\
             (exists rs, crun c [OCapture; OCloseReq] = Some (c', rs)) /\
             cstep c' ORecv = Some (mkCap true true None true, CReason RTimeout).
Proof.
  intros Hb Hp Hm. exists (mkCap true true (Some RTimeout) true).
  destruct (C12_close_then_capture c Hb Hp Hm) as (_ & _ & H1).
  destruct (C12_capture_then_close c Hb Hp Hm) as (_ & H2).
  split; [eexists; exact H1|]. split; [eexists; exact H2|]. reflexivity.
Qed.
Print Assumptions C12_close_capture_confluent.

Theorem C12_capture_unblock_close c r :
  c_blocked c = false -> c_pending c = false -> c_mail c = None -> c_closing c = false ->
  crun c [OCapture; OUnblock r; OCloseReq] = Some (mkCap true true (Some r) true, [CNone; CBool true; CBool true]).
Proof.
  intros Hb Hp Hm Hc. destruct c as [b p ml cl]. simpl in *. subst. reflexivity.
Qed.
Print Assumptions C12_capture_unblock_close.

Example C12_close_capture_ex :
  crun cap0 [OCloseReq; OCapture; ORecv; ORelease] =
    Some (mkCap false false None true, [CBool false; CNone; CReason RTimeout; CNone]) /\
  crun cap0 [OCapture; OCloseReq; ORecv; ORelease] =
    Some (mkCap false false None true, [CNone; CBool true; CReason RTimeout; CNone]) /\
  crun cap0 [OCapture; OUnblock RError; OCloseReq; ORecv; ORelease] =
    Some (mkCap false false None true, [CNone; CBool true; CBool true; CReason RError; CNone]).
Proof. vm_compute. repeat split. Qed.

(* ---------- 3d. after a release ---------- *)
(* a connection that was never captured, with the given closing flag; [fresh false] is [cap0] and
   [fresh true] is [cap0] after a close request *)
Definition fresh (closing : bool) : cap := mkCap false false None closing.

Lemma fresh_false : fresh false = cap0. Proof. reflexivity. Qed.
Lemma fresh_true : cstep cap0 OCloseReq = Some (fresh true, CBool false). Proof. reflexivity. Qed.

(* Messages never cross a release: ending the block (timeout, data arrived, unblock, teardown)
   resets the record to the initial state EXCEPT for the closing flag, which is kept (the
   statement of before the repair, [c' = mkCap false false None], is false now when
   [c_closing c = true]). So a later block cannot be ended by an earlier CLIENT UNBLOCK; the
   connection can block again, and if it was asked to close, that block ends at once. *)
Theorem C12_reusable c c' x :
  cstep c ORelease = Some (c', x) ->
  c' = fresh (c_closing c) /\ x = CNone /\
  cstep c' OCapture =
    Some (if c_closing c then mkCap true true (Some RTimeout) true else mkCap true false None false, CNone) /\
  cstep c' ORecv = None /\
  (forall r, cstep c' (OUnblock r) = Some (c', CBool false)) /\
  cstep c' OCloseReq = Some (fresh true, CBool false) /\
  (c_closing c = false -> c' = cap0).
Proof.
  unfold cstep at 1. destruct (c_blocked c); [|discriminate]. intro H; inversion H; subst.
  destruct (c_closing c); repeat split; try reflexivity; discriminate.
Qed.
Print Assumptions C12_reusable.

(* after a complete block (capture ... release) the next block starts from scratch: whatever
   happened before, the state after ORelease is that of a fresh connection with the same closing
   flag — set iff [pre] contains a close request — hence every later behaviour is a behaviour of
   a fresh connection (if no close request was issued: of [cap0], as before the repair) or of a
   fresh connection that was asked to close. *)
Theorem C12_block_again pre rest c rs :
  crun cap0 (pre ++ ORelease :: rest) = Some (c, rs) ->
  exists rs1 rs2,
    crun (fresh (existsb is_close pre)) rest = Some (c, rs2) /\
    rs = rs1 ++ CNone :: rs2 /\ length rs1 = length pre /\
    (existsb is_close pre = false -> crun cap0 rest = Some (c, rs2)) /\
    (existsb is_close pre = true -> crun cap0 (OCloseReq :: rest) = Some (c, CBool false :: rs2)).
Proof.
  intro Hr. apply crun_app in Hr as (c1 & rs1 & rs2 & H1 & H2 & -> & Hl).
  apply crun_cons in H2 as (c2 & x & rs' & Hs & H2 & ->).
  apply C12_reusable in Hs as (-> & -> & _).
  pose proof (crun_closing _ _ _ _ H1) as Hcl. simpl in Hcl. rewrite Hcl in H2.
  exists rs1, rs'. split; [exact H2|]. split; [reflexivity|]. split; [exact Hl|]. split.
  - intro He. rewrite He in H2. exact H2.
  - intro He. rewrite He in H2. cbn [crun]. rewrite fresh_true, H2. reflexivity.
Qed.
Print Assumptions C12_block_again.

Example C12_block_again_ex :
  crun cap0 ([OCapture; OUnblock RError; ORecv] ++ ORelease :: [OCapture; OIsBlocked])
  = Some (mkCap true false None false, [CNone; CBool true; CReason RError; CNone; CNone; CBool true]) /\
  crun cap0 [OCapture; OIsBlocked] = Some (mkCap true false None false, [CNone; CBool true]) /\
  crun cap0 ([OCapture; OCloseReq; ORecv] ++ ORelease :: [OCapture; OIsBlocked; ORecv])
  = Some (mkCap true true None true,
          [CNone; CBool true; CReason RTimeout; CNone; CNone; CBool true; CReason RTimeout]) /\
  crun (fresh true) [OCapture; OIsBlocked; ORecv]
  = Some (mkCap true true None true, [CNone; CBool true; CReason RTimeout]).
Proof. vm_compute. repeat split. Qed.

(* ---------- 4. IsBlocked is pure; nothing wedges ---------- *)
Theorem C12_isblocked_pure c : cstep c OIsBlocked = Some (c, CBool (c_blocked c)).
Proof. reflexivity. Qed.
Print Assumptions C12_isblocked_pure.

(* CLIENT UNBLOCK, the teardown and CLIENT LIST issued by other goroutines are enabled in every
   state (they never wait: the mailbox send cannot block), and each op is either enabled or
   refused deterministically because [cstep] is a function. (Before the repair the third clause
   read [Some (cap0, CNone)]; the release keeps the closing flag now.) *)
Theorem C12_no_wedge c :
  (forall r, exists c', cstep c (OUnblock r) = Some (c', CBool (c_blocked c))) /\
  (exists c', cstep c OCloseReq = Some (c', CBool (c_blocked c))) /\
  cstep c OIsBlocked = Some (c, CBool (c_blocked c)) /\
  (c_blocked c = true -> cstep c ORelease = Some (fresh (c_closing c), CNone)) /\
  (c_blocked c = false -> exists c', cstep c OCapture = Some (c', CNone)) /\
  (c_blocked c = true -> c_mail c <> None -> exists c' r, cstep c ORecv = Some (c', CReason r)).
Proof.
  split; [|split; [|split; [reflexivity|split; [|split]]]].
  - intro r. unfold cstep. destruct (c_blocked c); [destruct (c_pending c)|]; eauto.
  - unfold cstep. destruct (c_blocked c); [destruct (c_pending c)|]; eauto.
  - intro Hb. unfold cstep. rewrite Hb. reflexivity.
  - intro Hb. unfold cstep. rewrite Hb. destruct (c_closing c && negb (c_pending c)); eauto.
  - intros Hb Hm. unfold cstep. rewrite Hb. destruct (c_mail c) as [r|]; [eauto|congruence].
Qed.
Print Assumptions C12_no_wedge.

Example C12_no_wedge_ex :
  cstep (mkCap true true (Some RError) true) OCloseReq = Some (mkCap true true (Some RError) true, CBool true) /\
  cstep (mkCap true true None true) ORelease = Some (fresh true, CNone) /\
  cstep (mkCap true false None false) ORelease = Some (cap0, CNone).
Proof. vm_compute. repeat split. Qed.

(* OCloseReq is NOT an observer: it changes [c_closing] (and thereby the next capture) *)
Definition is_observer (o : cop) : bool := match o with OUnblock _ | OIsBlocked => true | _ => false end.

Example C12_close_not_observer : is_observer OCloseReq = false. Proof. reflexivity. Qed.

(* any burst of observing operations by other goroutines is executable from any state, keeps the
   invariant, and never changes whether the client is blocked nor whether the connection is closing *)
Theorem C12_observers_harmless os : forall c,
  forallb is_observer os = true ->
  exists c' rs, crun c os = Some (c', rs) /\ c_blocked c' = c_blocked c /\ (cap_inv c -> cap_inv c') /\
                c_closing c' = c_closing c.
Proof.
  induction os as [|o os IH]; intros c Ho.
  - exists c, []. simpl. auto.
  - simpl in Ho. apply andb_true_iff in Ho as [Ho1 Ho2].
    assert (Hs : exists c1 x, cstep c o = Some (c1, x) /\ c_blocked c1 = c_blocked c /\ c_closing c1 = c_closing c).
    { destruct o as [| | |r| |]; try discriminate.
      - unfold cstep. destruct (c_blocked c) eqn:Hb; [destruct (c_pending c)|]; eauto.
      - simpl. eauto. }
    destruct Hs as (c1 & x & Hs & Hb & Hc). destruct (IH c1 Ho2) as (c' & rs & Hr & Hb' & Hi & Hc').
    exists c', (x :: rs). simpl. rewrite Hs, Hr. split; [reflexivity|]. split; [congruence|].
    split; [|congruence]. intro Hcap. apply Hi. eapply cstep_inv; eauto.
Qed.
Print Assumptions C12_observers_harmless.

(* the same for everything other goroutines can do, the teardown included: executable from any
   state, keeps the invariant, never changes whether the client is blocked; the closing flag is
   set iff it was set or the burst contains a close request *)
Definition is_foreign (o : cop) : bool :=
  match o with OUnblock _ | OIsBlocked | OCloseReq => true | _ => false end.

Theorem C12_foreign_harmless os : forall c,
  forallb is_foreign os = true ->
  exists c' rs, crun c os = Some (c', rs) /\ c_blocked c' = c_blocked c /\ (cap_inv c -> cap_inv c') /\
                c_closing c' = c_closing c || existsb is_close os.
Proof.
  induction os as [|o os IH]; intros c Ho.
  - exists c, []. simpl. rewrite orb_false_r. auto.
  - simpl in Ho. apply andb_true_iff in Ho as [Ho1 Ho2].
    assert (Hs : exists c1 x, cstep c o = Some (c1, x) /\ c_blocked c1 = c_blocked c).
    { destruct o as [| | |r| |]; try discriminate.
      - unfold cstep. destruct (c_blocked c) eqn:Hb; [destruct (c_pending c)|]; eauto.
      - unfold cstep. destruct (c_blocked c) eqn:Hb; [destruct (c_pending c)|]; eauto.
      - simpl. eauto. }
    destruct Hs as (c1 & x & Hs & Hb). destruct (IH c1 Ho2) as (c' & rs & Hr & Hb' & Hi & Hc').
    exists c', (x :: rs). simpl. rewrite Hs, Hr. split; [reflexivity|]. split; [congruence|].
    split; [intro Hcap; apply Hi; eapply cstep_inv; eauto|].
    rewrite Hc', (cstep_closing _ _ _ _ Hs), orb_assoc. reflexivity.
Qed.
Print Assumptions C12_foreign_harmless.

Example C12_foreign_harmless_ex :
  crun (mkCap true false None false) [OIsBlocked; OCloseReq; OUnblock RError; OCloseReq; OIsBlocked]
  = Some (mkCap true true (Some RTimeout) true, [CBool true; CBool true; CBool true; CBool true; CBool true]).
Proof. vm_compute. reflexivity. Qed.

(* ---------- 5. timeouts ---------- *)
Definition ns_per_s : Q := 1000000000 # 1.

Theorem C12_timeout_positive t : (0 < t)%Q -> (1 <= block_timeout_ns t)%Z.
Proof.
  intro Ht. unfold block_timeout_ns. destruct (Qlt_le_dec 0 t) as [_|Hle].
  - assert (H0 : (0 <= Qfloor (t * (1000000000 # 1)))%Z).
    { change 0%Z with (Qfloor 0). apply Qfloor_resp_le.
      apply Qmult_le_0_compat; [apply Qlt_le_weak; exact Ht | discriminate]. }
    destruct (Z.eqb (Qfloor (t * (1000000000 # 1))) 0) eqn:E; [lia|].
    apply Z.eqb_neq in E. lia.
  - exfalso. apply (Qlt_not_le _ _ Ht). exact Hle.
Qed.
Print Assumptions C12_timeout_positive.

Theorem C12_timeout_zero t : (t == 0)%Q -> block_timeout_ns t = 0%Z.
Proof.
  intro Ht. unfold block_timeout_ns.
  assert (Hf : Qfloor (t * (1000000000 # 1)) = 0%Z).
  { assert (He : (t * (1000000000 # 1) == 0)%Q) by (rewrite Ht; reflexivity).
    rewrite He. reflexivity. }
  destruct (Qlt_le_dec 0 t) as [Hlt|_].
  - exfalso. rewrite Ht in Hlt. apply (Qlt_irrefl 0). exact Hlt.
  - exact Hf.
Qed.
Print Assumptions C12_timeout_zero.

(* truncation loses less than one nanosecond *)
Theorem C12_timeout_exact t :
  (1 <= t * ns_per_s)%Q ->
  (inject_Z (block_timeout_ns t) <= t * ns_per_s)%Q /\
  (t * ns_per_s < inject_Z (block_timeout_ns t) + 1)%Q.
Proof.
  unfold ns_per_s. intro H1.
  assert (Hf : (1 <= Qfloor (t * (1000000000 # 1)))%Z).
  { change 1%Z with (Qfloor 1). apply Qfloor_resp_le. exact H1. }
  assert (Hns : block_timeout_ns t = Qfloor (t * (1000000000 # 1))).
  { unfold block_timeout_ns. destruct (Qlt_le_dec 0 t); [|reflexivity].
    destruct (Z.eqb (Qfloor (t * (1000000000 # 1))) 0) eqn:E; [|reflexivity].
    apply Z.eqb_eq in E. lia. }
  rewrite Hns. split.
  - apply Qfloor_le.
  - pose proof (Qlt_floor (t * (1000000000 # 1))) as H. rewrite inject_Z_plus in H. exact H.
Qed.
Print Assumptions C12_timeout_exact.

(* a positive timeout below one nanosecond is rounded UP to 1ns: it never becomes "forever" *)
Theorem C12_timeout_subnano t :
  (0 < t)%Q -> (t * ns_per_s < 1)%Q -> block_timeout_ns t = 1%Z.
Proof.
  unfold ns_per_s. intros Ht H1. unfold block_timeout_ns.
  destruct (Qlt_le_dec 0 t) as [_|Hle]; [|exfalso; apply (Qlt_not_le _ _ Ht); exact Hle].
  assert (H0 : (0 <= Qfloor (t * (1000000000 # 1)))%Z).
  { change 0%Z with (Qfloor 0). apply Qfloor_resp_le.
    apply Qmult_le_0_compat; [apply Qlt_le_weak; exact Ht | discriminate]. }
  assert (H2 : (Qfloor (t * (1000000000 # 1)) < 1)%Z).
  { destruct (Z_lt_le_dec (Qfloor (t * (1000000000 # 1))) 1) as [Hlt|Hge]; [exact Hlt|].
    exfalso. apply (Qlt_not_le _ _ H1).
    apply Qle_trans with (inject_Z (Qfloor (t * (1000000000 # 1)))); [|apply Qfloor_le].
    change 1%Q with (inject_Z 1). rewrite <- Zle_Qle. exact Hge. }
  replace (Qfloor (t * (1000000000 # 1))) with 0%Z by lia. reflexivity.
Qed.
Print Assumptions C12_timeout_subnano.

(* the timer ends a block no earlier than the timeout after it was issued; timeout 0 never
   ends by the timer *)
Theorem C12_timer_not_early t0 ns now :
  timer_may_fire t0 ns now = true -> (0 < ns /\ t0 + ns <= now)%Z.
Proof.
  unfold timer_may_fire. intro H. apply andb_true_iff in H as [H1 H2].
  apply Z.ltb_lt in H1. apply Z.leb_le in H2. auto.
Qed.

Print Assumptions C12_timer_not_early.

Theorem C12_timer_zero_never t0 now : timer_may_fire t0 0 now = false.
Proof. reflexivity. Qed.
Print Assumptions C12_timer_zero_never.

(* combined: a block issued at t0 with timeout t > 0 (seconds) can be ended by the timer only at
   a time now with now - t0 >= 1ns, and, for t of at least a nanosecond, now - t0 > t*1e9 - 1;
   with t == 0 the timer never fires *)
Theorem C12_timeout_no_earlier t t0 now :
  timer_may_fire t0 (block_timeout_ns t) now = true ->
  (0 < t)%Q /\ (t0 + block_timeout_ns t <= now)%Z /\
  ((1 <= t * ns_per_s)%Q -> (t * ns_per_s < inject_Z (now - t0) + 1)%Q).
Proof.
  intro H. apply C12_timer_not_early in H as [Hpos Hle].
  assert (Ht : (0 < t)%Q).
  { destruct (Qlt_le_dec 0 t) as [Hlt|Hge]; [exact Hlt|]. exfalso.
    unfold block_timeout_ns in Hpos. destruct (Qlt_le_dec 0 t) as [Hlt|_].
    - apply (Qlt_not_le _ _ Hlt). exact Hge.
    - assert (Hf : (Qfloor (t * (1000000000 # 1)) <= Qfloor 0)%Z).
      { apply Qfloor_resp_le. setoid_replace 0%Q with (0 * (1000000000 # 1))%Q by reflexivity.
        apply Qmult_le_compat_r; [exact Hge | discriminate]. }
      change (Qfloor 0) with 0%Z in Hf. lia. }
  split; [exact Ht|]. split; [exact Hle|].
  intro H1. destruct (C12_timeout_exact t H1) as [_ H2].
  eapply Qlt_le_trans; [exact H2|].
  apply Qplus_le_l. rewrite <- Zle_Qle. lia.
Qed.
Print Assumptions C12_timeout_no_earlier.

Example C12_timeout_ex :
  block_timeout_ns (3 # 2) = 1500000000%Z /\ block_timeout_ns (1 # 3000000000) = 1%Z /\
  block_timeout_ns 0 = 0%Z /\
  timer_may_fire 10 (block_timeout_ns (3 # 2)) 1500000009 = false /\
  timer_may_fire 10 (block_timeout_ns (3 # 2)) 1500000010 = true /\
  timer_may_fire 10 (block_timeout_ns 0) 99999999999999 = false.
Proof. vm_compute. repeat split. Qed.
