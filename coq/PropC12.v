(* PropC12.v — how a block ends (model: Capture.v).

   "A blocked command with timeout t > 0 completes with a null reply no earlier than t after it
    was issued ..., while timeout 0 waits indefinitely. CLIENT UNBLOCK id ends exactly that
    client's block and reports 1 only if the client was actually blocked; ... After a block ends
    in any of these ways the connection processes further commands normally (including blocking
    again)." *)
From RE Require Import Base Capture.
From Coq Require Import List Lia ZArith QArith Qround.
Import ListNotations.
Open Scope list_scope.

(* ---------- 1. the invariant ---------- *)
Definition cap_inv (c : cap) : Prop :=
  (c_mail c <> None -> c_blocked c = true /\ c_pending c = true) /\
  (c_blocked c = false -> c_pending c = false /\ c_mail c = None).

Lemma cap_inv0 : cap_inv cap0.
Proof. split; simpl; intro H; [congruence | auto]. Qed.

Lemma cstep_inv c o c' x : cap_inv c -> cstep c o = Some (c', x) -> cap_inv c'.
Proof.
  intros [H1 H2] Hs. destruct c as [b p ml]; simpl in *.
  destruct o as [| | |r|]; simpl in Hs.
  - destruct b; [discriminate|]. inversion Hs; subst; clear Hs.
    destruct (H2 eq_refl) as [-> ->]. split; simpl; intro H; [congruence | discriminate].
  - destruct b; [|discriminate]. destruct ml as [r|]; [|discriminate].
    inversion Hs; subst; clear Hs. split; simpl; intro H; [congruence | discriminate].
  - destruct b; [|discriminate]. inversion Hs; subst; clear Hs. apply cap_inv0.
  - destruct b.
    + destruct p; inversion Hs; subst; clear Hs; split; simpl; intro H; auto; discriminate.
    + inversion Hs; subst; clear Hs. split; simpl; auto.
  - inversion Hs; subst; clear Hs. split; simpl; auto.
Qed.

Lemma crun_cons c o os c' rs :
  crun c (o :: os) = Some (c', rs) ->
  exists c1 x rs', cstep c o = Some (c1, x) /\ crun c1 os = Some (c', rs') /\ rs = x :: rs'.
Proof.
  cbn [crun]. destruct (cstep c o) as [[c1 x]|]; intro H; [|discriminate H].
  destruct (crun c1 os) as [[c2 xs]|] eqn:E; [|discriminate H].
  inversion H; subst. exists c1, x, xs. auto.
Qed.

Lemma crun_inv os : forall c c' rs, cap_inv c -> crun c os = Some (c', rs) -> cap_inv c'.
Proof.
  induction os as [|o os IH]; intros c c' rs Hi Hr.
  - simpl in Hr. inversion Hr; subst; exact Hi.
  - apply crun_cons in Hr as (c1 & x & rs' & Hs & Hr & _).
    eapply IH; [eapply cstep_inv; eauto | exact Hr].
Qed.

(* Whatever the blocking goroutine and any number of other goroutines (CLIENT UNBLOCK, teardown,
   CLIENT LIST) do, in any interleaving:
   - a message is in the mailbox only while the client is captured and an unblock is pending;
   - an uncaptured client has no pending flag and an empty mailbox, so no stale unblock can end
     a LATER block;
   - a message in the mailbox is never overwritten (one slot is enough, the sender never blocks). *)
Theorem C12_invariant os c rs :
  crun cap0 os = Some (c, rs) ->
  (c_mail c <> None -> c_blocked c = true /\ c_pending c = true) /\
  (c_blocked c = false -> c_pending c = false /\ c_mail c = None) /\
  (forall r r', c_mail c = Some r -> cstep c (OUnblock r') = Some (c, CBool true)).
Proof.
  intro Hr. destruct (crun_inv os _ _ _ cap_inv0 Hr) as [H1 H2].
  split; [exact H1|]. split; [exact H2|].
  intros r r' Hm. destruct (H1 ltac:(congruence)) as [Hb Hp].
  unfold cstep. rewrite Hb, Hp. reflexivity.
Qed.
Print Assumptions C12_invariant.

Example C12_invariant_ex :
  crun cap0 [OUnblock RError; OCapture; OIsBlocked; OUnblock RTimeout; OUnblock RError; ORecv; OUnblock RError;
             ORelease; OUnblock RError; OCapture; OIsBlocked]
  = Some (mkCap true false None,
          [CBool false; CNone; CBool true; CBool true; CBool true; CReason RTimeout; CBool true;
           CNone; CBool false; CNone; CBool true]).
Proof. reflexivity. Qed.

(* ---------- 2. CLIENT UNBLOCK reports whether the client was blocked ---------- *)
Theorem C12_unblock_reports_blocked c r c' x :
  cstep c (OUnblock r) = Some (c', x) ->
  x = CBool (c_blocked c) /\
  (c_blocked c = false -> c' = c) /\
  (c_blocked c = true -> c_blocked c' = true /\ c_pending c' = true).
Proof.
  unfold cstep. destruct (c_blocked c) eqn:Hb.
  - destruct (c_pending c) eqn:Hp; intro H; inversion H; subst; clear H.
    + split; [reflexivity|]. split; [discriminate|]. auto.
    + split; [reflexivity|]. split; [discriminate|]. auto.
  - intro H; inversion H; subst. split; [reflexivity|]. split; auto. discriminate.
Qed.
Print Assumptions C12_unblock_reports_blocked.

(* in the form asked for: the boolean returned is the blocked flag *)
Corollary C12_unblock_bool c r c' b :
  cstep c (OUnblock r) = Some (c', CBool b) -> b = c_blocked c /\ (c_blocked c = false -> c' = c).
Proof.
  intro H. destruct (C12_unblock_reports_blocked _ _ _ _ H) as (H1 & H2 & _).
  inversion H1. auto.
Qed.

(* unblocking changes only the one client it is applied to: the operation acts on one [cap]
   record; two clients are two records (product state) *)
Definition cstep2 (cs : cap * cap) (which : bool) (o : cop) : option ((cap * cap) * cres) :=
  if which then match cstep (fst cs) o with Some (c', x) => Some ((c', snd cs), x) | None => None end
  else match cstep (snd cs) o with Some (c', x) => Some ((fst cs, c'), x) | None => None end.

Theorem C12_unblock_exactly_that_client cs o cs' x :
  cstep2 cs true o = Some (cs', x) -> snd cs' = snd cs.
Proof.
  unfold cstep2. destruct (cstep (fst cs) o) as [[c' y]|]; intro H; inversion H; reflexivity.
Qed.
Print Assumptions C12_unblock_exactly_that_client.

(* ---------- 3. at most one delivery per capture, and it is the first unblock ---------- *)
Fixpoint received (rs : list cres) : list reason :=
  match rs with
  | [] => []
  | CReason r :: t => r :: received t
  | _ :: t => received t
  end.

Fixpoint first_unblock (os : list cop) : option reason :=
  match os with
  | [] => None
  | OUnblock r :: _ => Some r
  | _ :: t => first_unblock t
  end.

Definition no_release (os : list cop) : Prop := ~ In ORelease os.

(* after the message was taken: nothing more is received during this capture *)
Lemma seg_after_recv os : forall c rs,
  no_release os -> crun (mkCap true true None) os = Some (c, rs) -> received rs = [].
Proof.
  induction os as [|o os IH]; intros c rs Hn Hr.
  - simpl in Hr. inversion Hr; reflexivity.
  - apply crun_cons in Hr as (c1 & x & rs' & Hs & Hr & ->).
    assert (Hn' : no_release os) by (intro Hin; apply Hn; right; exact Hin).
    destruct o as [| | |r|]; simpl in Hs; try discriminate.
    + exfalso. apply Hn. left; reflexivity.
    + inversion Hs; subst. simpl. eapply IH; eauto.
    + inversion Hs; subst. simpl. eapply IH; eauto.
Qed.

Lemma seg_mail os : forall r c rs,
  no_release os -> crun (mkCap true true (Some r)) os = Some (c, rs) ->
  received rs = [] \/ received rs = [r].
Proof.
  induction os as [|o os IH]; intros r c rs Hn Hr.
  - simpl in Hr. inversion Hr; auto.
  - apply crun_cons in Hr as (c1 & x & rs' & Hs & Hr & ->).
    assert (Hn' : no_release os) by (intro Hin; apply Hn; right; exact Hin).
    destruct o as [| | |r'|]; simpl in Hs; try discriminate.
    + inversion Hs; subst. simpl. right. f_equal. eapply seg_after_recv; eauto.
    + exfalso. apply Hn. left; reflexivity.
    + inversion Hs; subst. simpl. eapply IH; eauto.
    + inversion Hs; subst. simpl. eapply IH; eauto.
Qed.

Lemma seg_fresh os : forall c rs,
  no_release os -> crun (mkCap true false None) os = Some (c, rs) ->
  received rs = [] \/ exists r, first_unblock os = Some r /\ received rs = [r].
Proof.
  induction os as [|o os IH]; intros c rs Hn Hr.
  - simpl in Hr. inversion Hr; auto.
  - apply crun_cons in Hr as (c1 & x & rs' & Hs & Hr & ->).
    assert (Hn' : no_release os) by (intro Hin; apply Hn; right; exact Hin).
    destruct o as [| | |r'|]; simpl in Hs; try discriminate.
    + exfalso. apply Hn. left; reflexivity.
    + inversion Hs; subst. simpl.
      destruct (seg_mail _ _ _ _ Hn' Hr) as [H|H]; [left; exact H | right; exists r'; auto].
    + inversion Hs; subst. simpl. eapply IH; eauto.
Qed.

Lemma crun_app os1 : forall os2 c c' rs,
  crun c (os1 ++ os2) = Some (c', rs) ->
  exists c1 rs1 rs2, crun c os1 = Some (c1, rs1) /\ crun c1 os2 = Some (c', rs2) /\ rs = rs1 ++ rs2
                     /\ length rs1 = length os1.
Proof.
  induction os1 as [|o os1 IH]; intros os2 c c' rs Hr.
  - exists c, [], rs. simpl. auto.
  - simpl app in Hr. apply crun_cons in Hr as (c1 & x & rs' & Hs & Hr & ->).
    destruct (IH _ _ _ _ Hr) as (c2 & rs1 & rs2 & H1 & H2 & -> & Hl).
    exists c2, (x :: rs1), rs2. simpl. rewrite Hs, H1. simpl. auto.
Qed.

(* In any run from the initial state, consider one capture: the OCapture at position [length pre]
   followed by a segment [seg] without ORelease. The results of the segment contain at most one
   received message, and it is the reason of the FIRST OUnblock issued during this capture —
   unblocks issued before the capture (in [pre], whatever it contains) are never received. *)
Theorem C12_unblock_delivered_once pre seg c rs :
  crun cap0 (pre ++ OCapture :: seg) = Some (c, rs) -> no_release seg ->
  let seg_results := skipn (S (length pre)) rs in
  received seg_results = [] \/
  exists r, first_unblock seg = Some r /\ received seg_results = [r].
Proof.
  intros Hr Hn. apply crun_app in Hr as (c1 & rs1 & rs2 & H1 & H2 & -> & Hl).
  apply crun_cons in H2 as (c2 & x & rs' & Hs & H2 & ->).
  destruct (crun_inv _ _ _ _ cap_inv0 H1) as [_ Hi].
  unfold cstep in Hs. destruct (c_blocked c1) eqn:Hb; [discriminate|].
  destruct (Hi eq_refl) as [Hp Hm]. rewrite Hp, Hm in Hs. inversion Hs; subst c2 x; clear Hs.
  cbv zeta.
  replace (skipn (S (length pre)) (rs1 ++ CNone :: rs')) with rs'.
  - eapply seg_fresh; eauto.
  - rewrite <- Hl. replace (rs1 ++ CNone :: rs') with ((rs1 ++ [CNone]) ++ rs') by (rewrite <- app_assoc; reflexivity).
    replace (S (length rs1)) with (length (rs1 ++ [CNone])) by (rewrite app_length; simpl; lia).
    rewrite skipn_app, skipn_all, Nat.sub_diag. reflexivity.
Qed.
Print Assumptions C12_unblock_delivered_once.

Example C12_delivered_once_ex :
  crun cap0 ([OUnblock RError] ++ OCapture :: [OUnblock RTimeout; OUnblock RError; ORecv; OUnblock RError])
  = Some (mkCap true true None, [CBool false; CNone; CBool true; CBool true; CReason RTimeout; CBool true]) /\
  first_unblock [OUnblock RTimeout; OUnblock RError; ORecv; OUnblock RError] = Some RTimeout.
Proof. split; reflexivity. Qed.

(* a message can only be received after it was sent: ORecv is refused while the mailbox is empty *)
Theorem C12_recv_needs_message c : c_mail c = None -> cstep c ORecv = None.
Proof. intro H. unfold cstep. rewrite H. destruct (c_blocked c); reflexivity. Qed.
Print Assumptions C12_recv_needs_message.

(* Messages never cross a release: ending the block (timeout, data arrived, unblock, teardown)
   resets the record to the initial state, so the connection can block again and a later block
   cannot be ended by an earlier CLIENT UNBLOCK. *)
Theorem C12_reusable c c' x :
  cstep c ORelease = Some (c', x) ->
  c' = mkCap false false None /\ x = CNone /\
  cstep c' OCapture = Some (mkCap true false None, CNone) /\
  cstep c' ORecv = None /\
  (forall r, cstep c' (OUnblock r) = Some (c', CBool false)).
Proof.
  unfold cstep at 1. destruct (c_blocked c); [|discriminate]. intro H; inversion H; subst.
  repeat split; reflexivity.
Qed.
Print Assumptions C12_reusable.

(* after a complete block (capture ... release) the next block starts from scratch: whatever
   happened before, the state after ORelease is the initial one, hence every later behaviour is
   a behaviour of a fresh connection *)
Theorem C12_block_again pre rest c rs :
  crun cap0 (pre ++ ORelease :: rest) = Some (c, rs) ->
  exists rs1 rs2, crun cap0 rest = Some (c, rs2) /\ rs = rs1 ++ CNone :: rs2 /\ length rs1 = length pre.
Proof.
  intro Hr. apply crun_app in Hr as (c1 & rs1 & rs2 & H1 & H2 & -> & Hl).
  apply crun_cons in H2 as (c2 & x & rs' & Hs & H2 & ->).
  apply C12_reusable in Hs as (-> & -> & _). exists rs1, rs'. auto.
Qed.
Print Assumptions C12_block_again.

(* ---------- 4. IsBlocked is pure; nothing wedges ---------- *)
Theorem C12_isblocked_pure c : cstep c OIsBlocked = Some (c, CBool (c_blocked c)).
Proof. reflexivity. Qed.
Print Assumptions C12_isblocked_pure.

(* CLIENT UNBLOCK and CLIENT LIST issued by other goroutines are enabled in every state (they
   never wait: the mailbox send cannot block), and each op is either enabled or refused
   deterministically because [cstep] is a function. *)
Theorem C12_no_wedge c :
  (forall r, exists c', cstep c (OUnblock r) = Some (c', CBool (c_blocked c))) /\
  cstep c OIsBlocked = Some (c, CBool (c_blocked c)) /\
  (c_blocked c = true -> cstep c ORelease = Some (cap0, CNone)) /\
  (c_blocked c = false -> exists c', cstep c OCapture = Some (c', CNone)).
Proof.
  split; [|split; [reflexivity|split]].
  - intro r. unfold cstep. destruct (c_blocked c); [destruct (c_pending c)|]; eauto.
  - intro Hb. unfold cstep. rewrite Hb. reflexivity.
  - intro Hb. unfold cstep. rewrite Hb. eauto.
Qed.
Print Assumptions C12_no_wedge.

Definition is_observer (o : cop) : bool := match o with OUnblock _ | OIsBlocked => true | _ => false end.

(* any burst of operations by other goroutines is executable from any state, keeps the
   invariant, and never changes whether the client is blocked *)
Theorem C12_observers_harmless os : forall c,
  forallb is_observer os = true ->
  exists c' rs, crun c os = Some (c', rs) /\ c_blocked c' = c_blocked c /\ (cap_inv c -> cap_inv c').
Proof.
  induction os as [|o os IH]; intros c Ho.
  - exists c, []. simpl. auto.
  - simpl in Ho. apply andb_true_iff in Ho as [Ho1 Ho2].
    assert (Hs : exists c1 x, cstep c o = Some (c1, x) /\ c_blocked c1 = c_blocked c).
    { destruct o as [| | |r|]; try discriminate.
      - unfold cstep. destruct (c_blocked c) eqn:Hb; [destruct (c_pending c)|]; eauto.
      - simpl. eauto. }
    destruct Hs as (c1 & x & Hs & Hb). destruct (IH c1 Ho2) as (c' & rs & Hr & Hb' & Hi).
    exists c', (x :: rs). simpl. rewrite Hs, Hr. split; [reflexivity|]. split; [congruence|].
    intro Hc. apply Hi. eapply cstep_inv; eauto.
Qed.
Print Assumptions C12_observers_harmless.

(* ---------- 5. timeouts ---------- *)
Definition ns_per_s : Q := 1000000000 # 1.

Theorem C12_timeout_positive t : (0 < t)%Q -> (1 <= block_timeout_ns t)%Z.
Proof.
  intro Ht. unfold block_timeout_ns. destruct (Qlt_le_dec 0 t) as [_|Hle].
  - assert (H0 : (0 <= Qfloor (t * (1000000000 # 1)))%Z).
    { change 0%Z with (Qfloor 0). apply Qfloor_resp_le.
      apply Qmult_le_0_compat; [apply Qlt_le_weak; exact Ht | discriminate]. }
    destruct (Z.eqb (Qfloor (t * (1000000000 # 1))) 0) eqn:E; [lia|].
    apply Z.eqb_neq in E. lia.
  - exfalso. apply (Qlt_not_le _ _ Ht). exact Hle.
Qed.
Print Assumptions C12_timeout_positive.

Theorem C12_timeout_zero t : (t == 0)%Q -> block_timeout_ns t = 0%Z.
Proof.
  intro Ht. unfold block_timeout_ns.
  assert (Hf : Qfloor (t * (1000000000 # 1)) = 0%Z).
  { assert (He : (t * (1000000000 # 1) == 0)%Q) by (rewrite Ht; reflexivity).
    rewrite He. reflexivity. }
  destruct (Qlt_le_dec 0 t) as [Hlt|_].
  - exfalso. rewrite Ht in Hlt. apply (Qlt_irrefl 0). exact Hlt.
  - exact Hf.
Qed.
Print Assumptions C12_timeout_zero.

(* truncation loses less than one nanosecond *)
Theorem C12_timeout_exact t :
  (1 <= t * ns_per_s)%Q ->
  (inject_Z (block_timeout_ns t) <= t * ns_per_s)%Q /\
  (t * ns_per_s < inject_Z (block_timeout_ns t) + 1)%Q.
Proof.
  unfold ns_per_s. intro H1.
  assert (Hf : (1 <= Qfloor (t * (1000000000 # 1)))%Z).
  { change 1%Z with (Qfloor 1). apply Qfloor_resp_le. exact H1. }
  assert (Hns : block_timeout_ns t = Qfloor (t * (1000000000 # 1))).
  { unfold block_timeout_ns. destruct (Qlt_le_dec 0 t); [|reflexivity].
    destruct (Z.eqb (Qfloor (t * (1000000000 # 1))) 0) eqn:E; [|reflexivity].
    apply Z.eqb_eq in E. lia. }
  rewrite Hns. split.
  - apply Qfloor_le.
  - pose proof (Qlt_floor (t * (1000000000 # 1))) as H. rewrite inject_Z_plus in H. exact H.
Qed.
Print Assumptions C12_timeout_exact.

(* a positive timeout below one nanosecond is rounded UP to 1ns: it never becomes "forever" *)
Theorem C12_timeout_subnano t :
  (0 < t)%Q -> (t * ns_per_s < 1)%Q -> block_timeout_ns t = 1%Z.
Proof.
  unfold ns_per_s. intros Ht H1. unfold block_timeout_ns.
  destruct (Qlt_le_dec 0 t) as [_|Hle]; [|exfalso; apply (Qlt_not_le _ _ Ht); exact Hle].
  assert (H0 : (0 <= Qfloor (t * (1000000000 # 1)))%Z).
  { change 0%Z with (Qfloor 0). apply Qfloor_resp_le.
    apply Qmult_le_0_compat; [apply Qlt_le_weak; exact Ht | discriminate]. }
  assert (H2 : (Qfloor (t * (1000000000 # 1)) < 1)%Z).
  { destruct (Z_lt_le_dec (Qfloor (t * (1000000000 # 1))) 1) as [Hlt|Hge]; [exact Hlt|].
    exfalso. apply (Qlt_not_le _ _ H1).
    apply Qle_trans with (inject_Z (Qfloor (t * (1000000000 # 1)))); [|apply Qfloor_le].
    change 1%Q with (inject_Z 1). rewrite <- Zle_Qle. exact Hge. }
  replace (Qfloor (t * (1000000000 # 1))) with 0%Z by lia. reflexivity.
Qed.
Print Assumptions C12_timeout_subnano.

(* the timer ends a block no earlier than the timeout after it was issued; timeout 0 never
   ends by the timer *)
Theorem C12_timer_not_early t0 ns now :
  timer_may_fire t0 ns now = true -> (0 < ns /\ t0 + ns <= now)%Z.
Proof.
  unfold timer_may_fire. intro H. apply andb_true_iff in H as [H1 H2].
  apply Z.ltb_lt in H1. apply Z.leb_le in H2. auto.
Qed.

Print Assumptions C12_timer_not_early.

Theorem C12_timer_zero_never t0 now : timer_may_fire t0 0 now = false.
Proof. reflexivity. Qed.
Print Assumptions C12_timer_zero_never.

(* combined: a block issued at t0 with timeout t > 0 (seconds) can be ended by the timer only at
   a time now with now - t0 >= 1ns, and, for t of at least a nanosecond, now - t0 > t*1e9 - 1;
   with t == 0 the timer never fires *)
Theorem C12_timeout_no_earlier t t0 now :
  timer_may_fire t0 (block_timeout_ns t) now = true ->
  (0 < t)%Q /\ (t0 + block_timeout_ns t <= now)%Z /\
  ((1 <= t * ns_per_s)%Q -> (t * ns_per_s < inject_Z (now - t0) + 1)%Q).
Proof.
  intro H. apply C12_timer_not_early in H as [Hpos Hle].
  assert (Ht : (0 < t)%Q).
  { destruct (Qlt_le_dec 0 t) as [Hlt|Hge]; [exact Hlt|]. exfalso.
    unfold block_timeout_ns in Hpos. destruct (Qlt_le_dec 0 t) as [Hlt|_].
    - apply (Qlt_not_le _ _ Hlt). exact Hge.
    - assert (Hf : (Qfloor (t * (1000000000 # 1)) <= Qfloor 0)%Z).
      { apply Qfloor_resp_le. setoid_replace 0%Q with (0 * (1000000000 # 1))%Q by reflexivity.
        apply Qmult_le_compat_r; [exact Hge | discriminate]. }
      change (Qfloor 0) with 0%Z in Hf. lia. }
  split; [exact Ht|]. split; [exact Hle|].
  intro H1. destruct (C12_timeout_exact t H1) as [_ H2].
  eapply Qlt_le_trans; [exact H2|].
  apply Qplus_le_l. rewrite <- Zle_Qle. lia.
Qed.
Print Assumptions C12_timeout_no_earlier.

Example C12_timeout_ex :
  block_timeout_ns (3 # 2) = 1500000000%Z /\ block_timeout_ns (1 # 3000000000) = 1%Z /\
  block_timeout_ns 0 = 0%Z /\
  timer_may_fire 10 (block_timeout_ns (3 # 2)) 1500000009 = false /\
  timer_may_fire 10 (block_timeout_ns (3 # 2)) 1500000010 = true /\
  timer_may_fire 10 (block_timeout_ns 0) 99999999999999 = false.
Proof. vm_compute. repeat split. Qed.
