(* PropC04.v — hash commands (property C04).
   The hash is a finite map; HSET/HMSET/HSETNX, HINCRBY, HDEL and the read
   commands are characterised against that map.  Nothing here changes a model
   file; only Base/Resp/State/Exec/Lemmas are used. *)
From RE Require Import Base Resp State Exec Exec2 Lemmas.
From Coq Require Import List ZArith NArith Lia Bool.
From Coq Require Import DecimalPos DecimalN.
From Coq Require Import String.
Import ListNotations.
Open Scope string_scope.
Open Scope list_scope.
Open Scope Z_scope.

(* ------------------------------------------------------------------ *)
(* 0. small facts                                                      *)
(* ------------------------------------------------------------------ *)

Lemma aset_not_nil {V} (m : list (bytes * V)) k v : aset m k v <> [].
Proof.
  destruct m as [|[k' v'] m]; simpl; [discriminate|].
  destruct (bytes_eqb k k'); discriminate.
Qed.

Lemma amem_true_iff {V} (m : list (bytes * V)) k : amem m k = true <-> aget m k <> None.
Proof. unfold amem. destruct (aget m k); split; intro H; congruence. Qed.

Lemma amem_false_iff {V} (m : list (bytes * V)) k : amem m k = false <-> aget m k = None.
Proof. unfold amem. destruct (aget m k); split; intro H; congruence. Qed.

Lemma aget_in_iff {V} (m : list (bytes * V)) k : In k (map fst m) <-> aget m k <> None.
Proof.
  split.
  - intros Hin Hn. apply aget_none_notin in Hn. apply Hn. exact Hin.
  - intro Hn. destruct (aget m k) as [v|] eqn:E; [|congruence].
    apply aget_some_in in E. exact E.
Qed.

Lemma Zlen_cons {A} (x : A) l : Zlen (x :: l) = Zlen l + 1.
Proof. unfold Zlen. change (List.length (x :: l)) with (S (List.length l)). rewrite Nat2Z.inj_succ. lia. Qed.

Lemma Zlen_nonneg {A} (l : list A) : 0 <= Zlen l.
Proof. unfold Zlen. lia. Qed.

Lemma mem_bytes_In x l : mem_bytes x l = true <-> In x l.
Proof.
  induction l as [|y l IH]; simpl.
  - split; [discriminate | intros []].
  - rewrite orb_true_iff, IH, bytes_eqb_eq. split; intros [H|H]; auto.
Qed.

Lemma mem_bytes_nIn x l : mem_bytes x l = false <-> ~ In x l.
Proof.
  rewrite <- mem_bytes_In. destruct (mem_bytes x l); split; intro H; congruence.
Qed.

(* the deadline carried by a visible hash is never in the past *)
Definition exp_live (now : Z) (exp : option Z) : Prop :=
  match exp with Some t => (t <? now) = false | None => True end.

Lemma get_hash_some now d k h exp :
  get_hash now d k = Some (Some (h, exp)) <->
  exists e, lookup now d k = Some e /\ e_val e = VHash h /\ e_exp e = exp.
Proof.
  unfold get_hash, hash_of. split.
  - destruct (lookup now d k) as [e|]; [|discriminate].
    destruct (e_val e) eqn:Ev; try discriminate.
    intro H. inversion H; subst. exists e. auto.
  - intros [e [Hl [Hv He]]]. rewrite Hl, Hv, He. reflexivity.
Qed.

Lemma get_hash_missing now d k : get_hash now d k = Some None <-> lookup now d k = None.
Proof.
  unfold get_hash, hash_of. destruct (lookup now d k) as [e|].
  - destruct (e_val e); split; discriminate.
  - tauto.
Qed.

Lemma get_hash_wrong now d k :
  get_hash now d k = None <-> exists e, lookup now d k = Some e /\ forall h, e_val e <> VHash h.
Proof.
  unfold get_hash, hash_of. destruct (lookup now d k) as [e|].
  - destruct (e_val e) as [b|l|h|s] eqn:Ev; split; try discriminate; try reflexivity;
      try (intros _; exists e; split; [reflexivity|]; intros h0; congruence).
    intros [e' [He' Hn]]. inversion He'; subst e'. exfalso. apply (Hn h). exact Ev.
  - split; [discriminate|]. intros [e [He _]]. discriminate.
Qed.

Lemma lookup_exp_live now d k e : lookup now d k = Some e -> exp_live now (e_exp e).
Proof.
  unfold lookup, expired, exp_live. destruct (aget (d_map d) k) as [e0|]; [|discriminate].
  destruct (e_exp e0) as [t|] eqn:Et.
  - destruct (t <? now) eqn:Hlt; [discriminate|]. intro H. inversion H; subst. rewrite Et. exact Hlt.
  - intro H. inversion H; subst. rewrite Et. exact I.
Qed.

Lemma get_hash_exp_live now d k h exp : get_hash now d k = Some (Some (h, exp)) -> exp_live now exp.
Proof.
  intro H. apply get_hash_some in H. destruct H as [e [Hl [_ He]]]. subst exp.
  eapply lookup_exp_live; eassumption.
Qed.

(* what the key holds after writing a hash *)
Lemma lookup_put_live now d k v exp :
  exp_live now exp ->
  lookup now (put d k v exp) k = Some (mkE v exp (d_next d + 1)%N).
Proof.
  intro Hl. rewrite lookup_put_same. cbv zeta. unfold expired; simpl.
  destruct exp as [t|]; simpl in *; [rewrite Hl|]; reflexivity.
Qed.

Lemma get_hash_put_hash now d k h exp :
  h <> [] -> exp_live now exp ->
  get_hash now (put_hash d k h exp) k = Some (Some (h, exp)).
Proof.
  intros Hne Hl. unfold put_hash, put_or_del. simpl.
  destruct h as [|p h]; [congruence|].
  unfold get_hash. rewrite lookup_put_live by assumption. reflexivity.
Qed.

Lemma lookup_put_hash_nil now d k exp : lookup now (put_hash d k [] exp) k = None.
Proof. unfold put_hash, put_or_del; simpl. apply lookup_del_same. Qed.

Lemma lookup_put_hash_other now d k k' h exp :
  k' <> k -> lookup now (put_hash d k h exp) k' = lookup now d k'.
Proof. intro H. unfold put_hash. apply lookup_put_or_del_other. exact H. Qed.

(* the hash a key is treated as holding by the writing commands: missing = empty *)
Definition cur_hash (cur : option (list (bytes * bytes) * option Z)) : list (bytes * bytes) :=
  match cur with Some (h, _) => h | None => [] end.
Definition cur_exp (cur : option (list (bytes * bytes) * option Z)) : option Z :=
  match cur with Some (_, e) => e | None => None end.

Lemma cur_exp_live now d k cur : get_hash now d k = Some cur -> exp_live now (cur_exp cur).
Proof.
  destruct cur as [[h e]|]; simpl; [|exact (fun _ => I)].
  apply get_hash_exp_live.
Qed.

(* ------------------------------------------------------------------ *)
(* 2. HINCRBY                                                          *)
(* ------------------------------------------------------------------ *)

Lemma hincrby_unfold now d k f n delta cur :
  parse_i64 n = Some delta ->
  get_hash now d k = Some cur ->
  cmd_hincrby now d [k; f; n] =
  match aget (cur_hash cur) f with
  | Some old =>
    match strict_i64 old with
    | Some v =>
      if in_i64 (v + delta)
      then (put_hash d k (aset (cur_hash cur) f (Z_to_bytes (v + delta))) (cur_exp cur), RInt (v + delta))
      else (d, err "ERR increment or decrement would overflow")
    | None => (d, err "ERR hash value is not an integer")
    end
  | None => (put_hash d k (aset (cur_hash cur) f (Z_to_bytes delta)) (cur_exp cur), RInt delta)
  end.
Proof.
  intros Hp Hg. unfold cmd_hincrby. rewrite Hp, Hg.
  destruct cur as [[h e]|]; reflexivity.
Qed.

(* C04.2 (a): success exactly when the field is absent, or holds the text of a
   signed 64-bit integer and the sum is again a signed 64-bit integer.  There
   is no hypothesis on the signs of the old value or the increment. *)
Theorem hincrby_success_iff now d k f n delta cur r :
  parse_i64 n = Some delta ->
  get_hash now d k = Some cur ->            (* key missing (cur = None) or a hash *)
  (snd (cmd_hincrby now d [k; f; n]) = RInt r <->
   (aget (cur_hash cur) f = None /\ r = delta) \/
   (exists t v, aget (cur_hash cur) f = Some t /\ strict_i64 t = Some v /\
                in_i64 (v + delta) = true /\ r = v + delta)).
Proof.
  intros Hp Hg. rewrite (hincrby_unfold now d k f n delta cur Hp Hg).
  destruct (aget (cur_hash cur) f) as [old|] eqn:Ea.
  - destruct (strict_i64 old) as [v|] eqn:Es.
    + destruct (in_i64 (v + delta)) eqn:Ei; cbn [snd].
      * split.
        -- intro H. inversion H; subst r. right. exists old, v. auto.
        -- intros [[H _]|[t [v' [H1 [H2 [H3 H4]]]]]]; [discriminate|].
           inversion H1; subst t. rewrite Es in H2. inversion H2; subst v'. subst r. reflexivity.
      * split.
        -- unfold err. discriminate.
        -- intros [[H _]|[t [v' [H1 [H2 [H3 H4]]]]]]; [discriminate|].
           inversion H1; subst t. rewrite Es in H2. inversion H2; subst v'. congruence.
    + cbn [snd]. split.
      * unfold err. discriminate.
      * intros [[H _]|[t [v' [H1 [H2 _]]]]]; [discriminate|].
        inversion H1; subst t. congruence.
  - cbn [snd]. split.
    + intro H. inversion H; subst r. left. auto.
    + intros [[_ H]|[t [v [H1 _]]]]; [subst; reflexivity | discriminate].
Qed.
Print Assumptions hincrby_success_iff.

(* C04.2 (b): effect of a successful HINCRBY *)
Theorem hincrby_success_effect now d k f n delta cur r :
  parse_i64 n = Some delta ->
  get_hash now d k = Some cur ->
  snd (cmd_hincrby now d [k; f; n]) = RInt r ->
  let d' := fst (cmd_hincrby now d [k; f; n]) in
  exists h',
    get_hash now d' k = Some (Some (h', cur_exp cur)) /\     (* still a hash, deadline kept *)
    aget h' f = Some (Z_to_bytes r) /\
    (forall f', f' <> f -> aget h' f' = aget (cur_hash cur) f') /\
    (forall x, In x (map fst h') <-> x = f \/ In x (map fst (cur_hash cur))) /\
    (NoDup (map fst (cur_hash cur)) -> NoDup (map fst h')) /\
    (forall k', k' <> k -> lookup now d' k' = lookup now d k').
Proof.
  intros Hp Hg. rewrite (hincrby_unfold now d k f n delta cur Hp Hg).
  pose proof (cur_exp_live now d k cur Hg) as Hl.
  assert (Hgen : forall val,
    let d' := put_hash d k (aset (cur_hash cur) f (Z_to_bytes val)) (cur_exp cur) in
    exists h',
      get_hash now d' k = Some (Some (h', cur_exp cur)) /\
      aget h' f = Some (Z_to_bytes val) /\
      (forall f', f' <> f -> aget h' f' = aget (cur_hash cur) f') /\
      (forall x, In x (map fst h') <-> x = f \/ In x (map fst (cur_hash cur))) /\
      (NoDup (map fst (cur_hash cur)) -> NoDup (map fst h')) /\
      (forall k', k' <> k -> lookup now d' k' = lookup now d k')).
  { intros val d'. exists (aset (cur_hash cur) f (Z_to_bytes val)). subst d'.
    split; [apply get_hash_put_hash; [apply aset_not_nil | exact Hl]|].
    split; [apply aget_aset_same|].
    split; [intros f' Hne; apply aget_aset_other; exact Hne|].
    split; [intro x; apply (akeys_aset_in (cur_hash cur) f (Z_to_bytes val) x)|].
    split; [apply (NoDup_akeys_aset (cur_hash cur) f (Z_to_bytes val))|].
    intros k' Hne. apply lookup_put_hash_other. exact Hne. }
  destruct (aget (cur_hash cur) f) as [old|] eqn:Ea.
  - destruct (strict_i64 old) as [v|] eqn:Es.
    + destruct (in_i64 (v + delta)) eqn:Ei; cbn [snd fst].
      * intro H. inversion H; subst r. apply Hgen.
      * unfold err. discriminate.
    + cbn [snd]. unfold err. discriminate.
  - cbn [snd fst]. intro H. inversion H; subst r. apply Hgen.
Qed.
Print Assumptions hincrby_success_effect.

(* C04.2 (c): every failure is an error reply that leaves the db untouched;
   this one holds for arbitrary arguments and arbitrary key contents. *)
Theorem hincrby_total now d args :
  (exists r, snd (cmd_hincrby now d args) = RInt r) \/
  (exists s, snd (cmd_hincrby now d args) = RErr s /\ fst (cmd_hincrby now d args) = d).
Proof.
  unfold cmd_hincrby.
  destruct args as [|k [|f [|n [|x args]]]]; try (right; eexists; split; reflexivity).
  destruct (parse_i64 n) as [delta|]; [|right; eexists; split; reflexivity].
  destruct (get_hash now d k) as [cur|]; [|right; eexists; split; reflexivity].
  destruct cur as [[h e]|].
  - destruct (aget h f) as [old|]; [|left; eexists; reflexivity].
    destruct (strict_i64 old) as [v|]; [|right; eexists; split; reflexivity].
    destruct (in_i64 (v + delta)); [left; eexists; reflexivity | right; eexists; split; reflexivity].
  - simpl. left; eexists; reflexivity.
Qed.
Print Assumptions hincrby_total.

Corollary hincrby_failure now d args :
  (forall r, snd (cmd_hincrby now d args) <> RInt r) ->
  (exists s, snd (cmd_hincrby now d args) = RErr s) /\ fst (cmd_hincrby now d args) = d.
Proof.
  intro H. destruct (hincrby_total now d args) as [[r Hr]|[s [Hs Hd]]].
  - exfalso. apply (H r). exact Hr.
  - split; [exists s; exact Hs | exact Hd].
Qed.
Print Assumptions hincrby_failure.

(* which error: wrong text vs. overflow *)
Theorem hincrby_errors now d k f n delta cur t :
  parse_i64 n = Some delta ->
  get_hash now d k = Some cur ->
  aget (cur_hash cur) f = Some t ->
  (strict_i64 t = None -> cmd_hincrby now d [k; f; n] = (d, err "ERR hash value is not an integer")) /\
  (forall v, strict_i64 t = Some v -> in_i64 (v + delta) = false ->
             cmd_hincrby now d [k; f; n] = (d, err "ERR increment or decrement would overflow")).
Proof.
  intros Hp Hg Ha. rewrite (hincrby_unfold now d k f n delta cur Hp Hg), Ha. split.
  - intro Hs. rewrite Hs. reflexivity.
  - intros v Hs Hi. rewrite Hs, Hi. reflexivity.
Qed.
Print Assumptions hincrby_errors.

(* concrete instances: mixed signs and the two overflow boundaries *)
Definition ex_db (old : Z) : db :=
  put empty_db (s2b "h") (VHash [(s2b "other", s2b "x"); (s2b "f", Z_to_bytes old)]) (Some 100).
Definition ex_hincr (old delta : Z) : res :=
  cmd_hincrby 50 (ex_db old) [s2b "h"; s2b "f"; Z_to_bytes delta].
Definition ex_field (r : res) : option (option bytes * option bytes * option Z) :=
  match get_hash 50 (fst r) (s2b "h") with
  | Some (Some (h, e)) => Some (aget h (s2b "f"), aget h (s2b "other"), e)
  | _ => None
  end.

Example hincrby_pos_old_neg_delta :
  snd (ex_hincr 5 (-1)) = RInt 4 /\
  ex_field (ex_hincr 5 (-1)) = Some (Some (s2b "4"), Some (s2b "x"), Some 100).
Proof. vm_compute. split; reflexivity. Qed.

Example hincrby_neg_old_pos_delta :
  snd (ex_hincr (-5) 1) = RInt (-4) /\
  ex_field (ex_hincr (-5) 1) = Some (Some (s2b "-4"), Some (s2b "x"), Some 100).
Proof. vm_compute. split; reflexivity. Qed.

Example hincrby_upper_boundary :
  snd (ex_hincr (max_i64 - 1) 1) = RInt max_i64 /\
  ex_hincr max_i64 1 = (ex_db max_i64, err "ERR increment or decrement would overflow") /\
  snd (ex_hincr max_i64 (-1)) = RInt (max_i64 - 1) /\
  snd (ex_hincr max_i64 min_i64) = RInt (-1).
Proof. vm_compute. repeat split; reflexivity. Qed.

Example hincrby_lower_boundary :
  snd (ex_hincr (min_i64 + 1) (-1)) = RInt min_i64 /\
  ex_hincr min_i64 (-1) = (ex_db min_i64, err "ERR increment or decrement would overflow") /\
  snd (ex_hincr min_i64 1) = RInt (min_i64 + 1) /\
  snd (ex_hincr min_i64 max_i64) = RInt (-1).
Proof. vm_compute. repeat split; reflexivity. Qed.

Example hincrby_missing_key_and_field :
  cmd_hincrby 50 empty_db [s2b "h"; s2b "f"; s2b "-7"] =
    (put empty_db (s2b "h") (VHash [(s2b "f", s2b "-7")]) None, RInt (-7)) /\
  snd (cmd_hincrby 50 (ex_db 1) [s2b "h"; s2b "other"; s2b "1"]) = err "ERR hash value is not an integer".
Proof. vm_compute. split; reflexivity. Qed.

(* ------------------------------------------------------------------ *)
(* 2'. what "holds a signed 64-bit integer" means: strict_i64 accepts   *)
(*     exactly the canonical decimal text of an int64                   *)
(* ------------------------------------------------------------------ *)

Lemma parse_i64_in_range b z : parse_i64 b = Some z -> in_i64 z = true.
Proof.
  unfold parse_i64.
  destruct (match b with
            | 45%N :: r => (true, r)
            | 43%N :: r => (false, r)
            | _ => (false, b)
            end) as [neg ds].
  destruct (parse_udec ds) as [n|]; [|discriminate].
  destruct (in_i64 (if neg then - Z.of_N n else Z.of_N n)) eqn:E; [|discriminate].
  intro H. inversion H; subst. exact E.
Qed.

Lemma parse_udec_uint_bytes u : u <> Decimal.Nil -> parse_udec (uint_bytes u) = Some (N.of_uint u).
Proof.
  intro Hn. unfold parse_udec. rewrite bytes_uint_uint_bytes.
  destruct u; try congruence; reflexivity.
Qed.

Lemma parse_i64_unsigned u :
  u <> Decimal.Nil ->
  parse_i64 (uint_bytes u) = if in_i64 (Z.of_N (N.of_uint u)) then Some (Z.of_N (N.of_uint u)) else None.
Proof.
  intro Hn. pose proof (parse_udec_uint_bytes u Hn) as Hp.
  destruct u; try congruence; unfold parse_i64; cbn [uint_bytes] in *; cbv beta iota;
    rewrite Hp; reflexivity.
Qed.

Lemma parse_i64_Z_to_bytes z : in_i64 z = true -> parse_i64 (Z_to_bytes z) = Some z.
Proof.
  intro Hi. destruct z as [|p|p]; [reflexivity| |].
  - unfold Z_to_bytes. rewrite parse_i64_unsigned by apply DecimalPos.Unsigned.to_uint_nonnil.
    unfold N.of_uint. rewrite DecimalPos.Unsigned.of_to. simpl Z.of_N. rewrite Hi. reflexivity.
  - unfold Z_to_bytes, parse_i64.
    rewrite parse_udec_uint_bytes by apply DecimalPos.Unsigned.to_uint_nonnil.
    unfold N.of_uint. rewrite DecimalPos.Unsigned.of_to. simpl Z.of_N. simpl Z.opp. rewrite Hi. reflexivity.
Qed.

Theorem strict_i64_iff t v : strict_i64 t = Some v <-> t = Z_to_bytes v /\ in_i64 v = true.
Proof.
  unfold strict_i64. split.
  - destruct (parse_i64 t) as [z|] eqn:Ep; [|discriminate].
    destruct (bytes_eqb (Z_to_bytes z) t) eqn:Eb; [|discriminate].
    intro H. inversion H; subst z. apply bytes_eqb_eq in Eb.
    split; [symmetry; exact Eb | eapply parse_i64_in_range; exact Ep].
  - intros [Ht Hi]. subst t. rewrite parse_i64_Z_to_bytes by exact Hi.
    rewrite bytes_eqb_refl. reflexivity.
Qed.
Print Assumptions strict_i64_iff.

(* HINCRBY success, stated without any parser: the field is absent, or its text
   is the canonical decimal text of some int64 v, and v + delta is an int64 *)
Corollary hincrby_success_iff_canonical now d k f n delta cur r :
  parse_i64 n = Some delta ->
  get_hash now d k = Some cur ->
  (snd (cmd_hincrby now d [k; f; n]) = RInt r <->
   (aget (cur_hash cur) f = None /\ r = delta) \/
   (exists v, aget (cur_hash cur) f = Some (Z_to_bytes v) /\
              min_i64 <= v <= max_i64 /\ min_i64 <= v + delta <= max_i64 /\ r = v + delta)).
Proof.
  intros Hp Hg. rewrite (hincrby_success_iff now d k f n delta cur r Hp Hg).
  assert (Hin : forall z, in_i64 z = true <-> min_i64 <= z <= max_i64).
  { intro z. unfold in_i64. rewrite andb_true_iff, !Z.leb_le. reflexivity. }
  split; (intros [H|H]; [left; exact H|right]).
  - destruct H as [t [v [H1 [H2 [H3 H4]]]]]. apply strict_i64_iff in H2. destruct H2 as [Ht Hi].
    subst t. exists v. rewrite <- !Hin. auto.
  - destruct H as [v [H1 [H2 [H3 H4]]]]. exists (Z_to_bytes v), v.
    rewrite strict_i64_iff, !Hin. auto.
Qed.
Print Assumptions hincrby_success_iff_canonical.

(* the delta of a successful HINCRBY is itself an int64 *)
Lemma hincrby_delta_range n delta : parse_i64 n = Some delta -> min_i64 <= delta <= max_i64.
Proof.
  intro H. apply parse_i64_in_range in H. unfold in_i64 in H.
  apply andb_true_iff in H. rewrite !Z.leb_le in H. exact H.
Qed.

(* non-canonical texts are not integers for HINCRBY (as in Redis), although the
   increment argument itself is read with the laxer parse_i64 *)
Example strict_examples :
  strict_i64 (s2b "+5") = None /\ strict_i64 (s2b "05") = None /\ strict_i64 (s2b "-0") = None /\
  strict_i64 (s2b "") = None /\ strict_i64 (s2b " 5") = None /\
  strict_i64 (s2b "9223372036854775808") = None /\
  strict_i64 (s2b "-9223372036854775808") = Some min_i64 /\
  snd (cmd_hincrby 50 (ex_db 1) [s2b "h"; s2b "f"; s2b "+05"]) = RInt 6.
Proof. vm_compute. repeat split; reflexivity. Qed.

(* ------------------------------------------------------------------ *)
(* 1. HSET / HMSET / HSETNX: the hash is a finite map                  *)
(* ------------------------------------------------------------------ *)

(* abstract finite maps *)
Definition fmap := bytes -> option bytes.
Definition fupd (m : fmap) (f v : bytes) : fmap := fun x => if bytes_eqb x f then Some v else m x.
Definition fstep (nx : bool) (m : fmap) (fv : bytes * bytes) : fmap :=
  if nx then match m (fst fv) with Some _ => m | None => fupd m (fst fv) (snd fv) end
  else fupd m (fst fv) (snd fv).
(* the pairs are applied left to right; with nx an existing field is kept *)
Definition hset_spec (nx : bool) (m : fmap) (ps : list (bytes * bytes)) : fmap :=
  fold_left (fstep nx) ps m.

(* the fields of [fs] that are not in [seen], each once (first occurrence) *)
Fixpoint new_fields (seen fs : list bytes) : list bytes :=
  match fs with
  | [] => []
  | f :: r => if mem_bytes f seen then new_fields seen r else f :: new_fields (f :: seen) r
  end.

Lemma new_fields_In seen fs x : In x (new_fields seen fs) <-> In x fs /\ ~ In x seen.
Proof.
  revert seen. induction fs as [|f r IH]; intro seen; simpl; [tauto|].
  destruct (mem_bytes f seen) eqn:E.
  - apply mem_bytes_In in E. rewrite IH. split.
    + intros [H1 H2]. auto.
    + intros [[H1|H1] H2]; [subst; contradiction | auto].
  - apply mem_bytes_nIn in E. simpl. rewrite IH. simpl. split.
    + intros [H|[H1 H2]]; [subst; auto|]. split; [auto|]. intro H3. apply H2. right. exact H3.
    + intros [[H1|H1] H2]; [left; exact H1|].
      destruct (bytes_eq_dec f x) as [Hfx|Hfx]; [left; exact Hfx|].
      right. split; [exact H1|]. intros [H3|H3]; contradiction.
Qed.

Lemma new_fields_NoDup seen fs : NoDup (new_fields seen fs).
Proof.
  revert seen. induction fs as [|f r IH]; intro seen; simpl; [constructor|].
  destruct (mem_bytes f seen); [apply IH|].
  constructor; [|apply IH]. rewrite new_fields_In. intros [_ H]. apply H. left. reflexivity.
Qed.

Lemma amem_aset {V} (m : list (bytes * V)) k v x : amem (aset m k v) x = bytes_eqb x k || amem m x.
Proof.
  unfold amem. destruct (bytes_eqb x k) eqn:E.
  - apply bytes_eqb_eq in E. subst x. rewrite aget_aset_same. reflexivity.
  - apply bytes_eqb_neq in E. rewrite aget_aset_other by exact E. reflexivity.
Qed.

Lemma hset_all_NoDup h ps nx :
  NoDup (map fst h) -> NoDup (map fst (fst (hset_all h ps nx))).
Proof.
  revert h. induction ps as [|[f v] r IH]; intros h Hnd; simpl; [exact Hnd|].
  destruct (amem h f).
  - destruct nx.
    + specialize (IH h Hnd). destruct (hset_all h r true) as [h' n]. exact IH.
    + specialize (IH (aset h f v) (NoDup_akeys_aset h f v Hnd)).
      destruct (hset_all (aset h f v) r false) as [h' n]. exact IH.
  - specialize (IH (aset h f v) (NoDup_akeys_aset h f v Hnd)).
    destruct (hset_all (aset h f v) r nx) as [h' n]. exact IH.
Qed.

(* refinement of the abstract left-to-right map update *)
Lemma hset_all_refines h ps nx x :
  aget (fst (hset_all h ps nx)) x = hset_spec nx (aget h) ps x.
Proof.
  unfold hset_spec. revert h.
  assert (Hext : forall ps m1 m2, (forall y, m1 y = m2 y) ->
                 fold_left (fstep nx) ps m1 x = fold_left (fstep nx) ps m2 x).
  { clear. induction ps as [|p r IH]; intros m1 m2 He; simpl; [apply He|].
    apply IH. intro y. unfold fstep, fupd. destruct nx.
    - rewrite (He (fst p)). destruct (m2 (fst p)); [apply He|]. rewrite (He y). reflexivity.
    - rewrite (He y). reflexivity. }
  induction ps as [|[f v] r IH]; intro h; simpl; [reflexivity|].
  assert (Hset : forall y, aget (aset h f v) y = fupd (aget h) f v y).
  { intro y. unfold fupd. destruct (bytes_eqb y f) eqn:E.
    - apply bytes_eqb_eq in E. subst y. apply aget_aset_same.
    - apply bytes_eqb_neq in E. apply aget_aset_other. exact E. }
  unfold amem. destruct (aget h f) as [old|] eqn:Ea.
  - destruct nx.
    + specialize (IH h). destruct (hset_all h r true) as [h' n]. simpl in *. rewrite IH.
      apply Hext. intro y. unfold fstep. simpl. rewrite Ea. reflexivity.
    + specialize (IH (aset h f v)). destruct (hset_all (aset h f v) r false) as [h' n].
      simpl in *. rewrite IH. apply Hext. intro y. unfold fstep. simpl. apply Hset.
  - specialize (IH (aset h f v)). destruct (hset_all (aset h f v) r nx) as [h' n].
    simpl in *. rewrite IH. apply Hext. intro y. unfold fstep. simpl. rewrite Ea.
    destruct nx; apply Hset.
Qed.

Lemma aget_app {V} (l1 l2 : list (bytes * V)) x :
  aget (l1 ++ l2) x = match aget l1 x with Some v => Some v | None => aget l2 x end.
Proof.
  induction l1 as [|[k v] l1 IH]; simpl; [reflexivity|].
  destruct (bytes_eqb x k); [reflexivity | exact IH].
Qed.

(* closed forms: [aget ps x] is the value of the FIRST pair for x in ps,
   [aget (rev ps) x] the value of the LAST pair for x in ps *)
Lemma hset_spec_nx m ps x :
  hset_spec true m ps x = match m x with Some v => Some v | None => aget ps x end.
Proof.
  unfold hset_spec. revert m. induction ps as [|[f v] r IH]; intro m; simpl.
  - destruct (m x); reflexivity.
  - rewrite IH. unfold fstep, fupd. simpl.
    destruct (m f) as [old|] eqn:Ef.
    + destruct (bytes_eqb x f) eqn:E; [|reflexivity].
      apply bytes_eqb_eq in E. subst x. rewrite Ef. reflexivity.
    + destruct (bytes_eqb x f) eqn:E; [|reflexivity].
      apply bytes_eqb_eq in E. subst x. rewrite Ef. reflexivity.
Qed.

Lemma hset_spec_set m ps x :
  hset_spec false m ps x = match aget (rev ps) x with Some v => Some v | None => m x end.
Proof.
  unfold hset_spec. revert m. induction ps as [|[f v] r IH]; intro m; simpl; [reflexivity|].
  rewrite IH, aget_app. unfold fstep, fupd. simpl.
  destruct (aget (rev r) x); [reflexivity|].
  destruct (bytes_eqb x f); reflexivity.
Qed.

Lemma hset_all_count h ps nx seen :
  (forall x, mem_bytes x seen = amem h x) ->
  snd (hset_all h ps nx) = Zlen (new_fields seen (map fst ps)).
Proof.
  revert h seen. induction ps as [|[f v] r IH]; intros h seen Hs; simpl; [reflexivity|].
  rewrite (Hs f). destruct (amem h f) eqn:Ef.
  - assert (forall x, mem_bytes x seen = amem (if nx then h else aset h f v) x) as Hs'.
    { intro x. destruct nx; [apply Hs|]. rewrite amem_aset, Hs.
      destruct (bytes_eqb x f) eqn:E; [|reflexivity].
      apply bytes_eqb_eq in E. subst x. rewrite Ef. reflexivity. }
    specialize (IH _ seen Hs').
    destruct (hset_all (if nx then h else aset h f v) r nx) as [h' n]. exact IH.
  - assert (forall x, mem_bytes x (f :: seen) = amem (aset h f v) x) as Hs'.
    { intro x. rewrite amem_aset. simpl. rewrite Hs. reflexivity. }
    specialize (IH _ (f :: seen) Hs').
    destruct (hset_all (aset h f v) r nx) as [h' n]. cbn [snd] in *. rewrite IH.
    rewrite Zlen_cons. reflexivity.
Qed.

(* C04.1 — main statement *)
Theorem hset_all_spec h ps nx h' n :
  hset_all h ps nx = (h', n) ->
  (NoDup (map fst h) -> NoDup (map fst h')) /\
  (forall f, aget h' f = hset_spec nx (aget h) ps f) /\
  (forall f, aget h' f =
     if nx then match aget h f with Some v => Some v | None => aget ps f end
     else match aget (rev ps) f with Some v => Some v | None => aget h f end) /\
  n = Zlen (new_fields (map fst h) (map fst ps)).
Proof.
  intro H.
  assert (h' = fst (hset_all h ps nx)) as Hh by (rewrite H; reflexivity).
  assert (n = snd (hset_all h ps nx)) as Hn by (rewrite H; reflexivity).
  subst h' n. split; [apply hset_all_NoDup|]. split; [intro f; apply hset_all_refines|]. split.
  - intro f. rewrite hset_all_refines. destruct nx; [apply hset_spec_nx | apply hset_spec_set].
  - apply hset_all_count. intro x. unfold amem.
    destruct (mem_bytes x (map fst h)) eqn:E.
    + apply mem_bytes_In in E. apply aget_in_iff in E. destruct (aget h x); congruence.
    + apply mem_bytes_nIn in E. rewrite aget_in_iff in E. destruct (aget h x); [|reflexivity].
      exfalso. apply E. discriminate.
Qed.
Print Assumptions hset_all_spec.

(* [new_fields] really is "the distinct fields of ps that are not in h" *)
Theorem new_fields_spec (h ps : list (bytes * bytes)) :
  let l := new_fields (map fst h) (map fst ps) in
  NoDup l /\ forall x, In x l <-> In x (map fst ps) /\ aget h x = None.
Proof.
  split; [apply new_fields_NoDup|]. intro x. rewrite new_fields_In, (aget_in_iff h x).
  destruct (aget h x) as [v|].
  - split; intros [H1 H2]; [exfalso; apply H2; discriminate | discriminate].
  - split; intros [H1 H2]; split; auto.
Qed.
Print Assumptions new_fields_spec.

(* HSETNX on an existing field changes nothing *)
Lemma hset_all_nx_zero h ps h' :
  hset_all h ps true = (h', 0) -> h' = h.
Proof.
  revert h h'. induction ps as [|[f v] r IH]; intros h h'; simpl.
  - intro H. inversion H. reflexivity.
  - destruct (amem h f).
    + destruct (hset_all h r true) as [h2 n2] eqn:E. intro H. inversion H; subst. apply IH. exact E.
    + pose proof (hset_all_count (aset h f v) r true (map fst (aset h f v))) as Hc.
      destruct (hset_all (aset h f v) r true) as [h2 n2] eqn:E. intro H. inversion H; subst.
      exfalso. simpl in Hc. rewrite Hc in H2.
      * unfold Zlen in H2. lia.
      * intro x. unfold amem. destruct (mem_bytes x (map fst (aset h f v))) eqn:E2.
        -- apply mem_bytes_In in E2. apply aget_in_iff in E2. destruct (aget (aset h f v) x); congruence.
        -- apply mem_bytes_nIn in E2. rewrite aget_in_iff in E2.
           destruct (aget (aset h f v) x); [|reflexivity]. exfalso. apply E2. discriminate.
Qed.

Lemma hset_all_not_nil h ps nx : ps <> [] -> fst (hset_all h ps nx) <> [].
Proof.
  intros Hne Hnil. destruct ps as [|[f v] r]; [congruence|].
  pose proof (hset_all_refines h ((f, v) :: r) nx f) as Hr. rewrite Hnil in Hr.
  cbn [aget] in Hr. destruct nx.
  - rewrite hset_spec_nx in Hr. cbn [aget] in Hr. rewrite bytes_eqb_refl in Hr.
    destruct (aget h f); discriminate.
  - rewrite hset_spec_set in Hr. cbn [rev] in Hr. rewrite aget_app in Hr. cbn [aget] in Hr.
    rewrite bytes_eqb_refl in Hr. destruct (aget (rev r) f); discriminate.
Qed.

(* the command: HSET (mode 0), HMSET (mode 1), HSETNX (mode 2) *)
Theorem hset_cmd_spec mode now d k fv ps cur :
  pairs_of fv = Some ps -> ps <> [] ->
  (mode = 2%N -> List.length ps = 1%nat) ->
  get_hash now d k = Some cur ->            (* key missing or a hash *)
  let nx := N.eqb mode 2 in
  let h' := fst (hset_all (cur_hash cur) ps nx) in
  let n := snd (hset_all (cur_hash cur) ps nx) in
  let d' := fst (cmd_hset mode now d (k :: fv)) in
  snd (cmd_hset mode now d (k :: fv)) = (if N.eqb mode 1 then ok else RInt n) /\
  get_hash now d' k = Some (Some (h', cur_exp cur)) /\
  (forall k', k' <> k -> lookup now d' k' = lookup now d k').
Proof.
  intros Hp Hne Hm Hg nx h' n.
  pose proof (cur_exp_live now d k cur Hg) as Hl.
  assert (Htail : forall h0 exp h1 n1,
    hset_all h0 ps nx = (h1, n1) -> exp_live now exp ->
    (nx && (n1 =? 0) = true -> get_hash now d k = Some (Some (h0, exp))) ->
    let d' := if nx && (n1 =? 0) then d else put_hash d k h1 exp in
    get_hash now d' k = Some (Some (h1, exp)) /\
    (forall k', k' <> k -> lookup now d' k' = lookup now d k')).
  { intros h0 exp h1 n1 E Hle Hz.
    assert (h1 <> []) as Hh1.
    { pose proof (hset_all_not_nil h0 ps nx Hne) as Hnn. rewrite E in Hnn. exact Hnn. }
    destruct (nx && (n1 =? 0)) eqn:Ez; cbv zeta.
    - split; [|reflexivity]. apply andb_true_iff in Ez. destruct Ez as [Enx En].
      apply Z.eqb_eq in En. subst n1. rewrite Enx in E. apply hset_all_nx_zero in E. subst h1.
      apply Hz. reflexivity.
    - split; [apply get_hash_put_hash; assumption|].
      intros k' Hk'. apply lookup_put_hash_other. exact Hk'. }
  unfold cmd_hset. destruct fv as [|a fv']; [simpl in Hp; inversion Hp; congruence|].
  rewrite Hp, Hg.
  assert ((mode =? 2)%N && negb (Nat.eqb (List.length ps) 1) = false) as Hchk.
  { destruct (N.eqb mode 2) eqn:Em; [|reflexivity]. apply N.eqb_eq in Em.
    rewrite (Hm Em). reflexivity. }
  rewrite Hchk. subst h' n. fold nx.
  destruct cur as [[h e]|]; cbn [cur_hash cur_exp] in *.
  - destruct (hset_all h ps nx) as [h1 n1] eqn:E. cbn [fst snd].
    split; [reflexivity|]. apply (Htail h e h1 n1 E Hl). intros _. exact Hg.
  - destruct (hset_all [] ps nx) as [h1 n1] eqn:E. cbn [fst snd].
    split; [reflexivity|]. apply (Htail [] None h1 n1 E I). intro Ez. exfalso.
    apply andb_true_iff in Ez. destruct Ez as [Enx En].
    apply Z.eqb_eq in En. subst n1. rewrite Enx in E.
    pose proof (hset_all_not_nil [] ps true Hne) as Hnn. rewrite E in Hnn.
    apply hset_all_nx_zero in E. subst h1. apply Hnn. reflexivity.
Qed.
Print Assumptions hset_cmd_spec.

Example hset_ex :
  let d := ex_db 7 in
  let r := cmd_hset 0 50 d [s2b "h"; s2b "a"; s2b "1"; s2b "f"; s2b "8"; s2b "a"; s2b "2"] in
  let rn := cmd_hset 2 50 d [s2b "h"; s2b "f"; s2b "9"] in
  snd r = RInt 1 /\
  get_hash 50 (fst r) (s2b "h") =
    Some (Some ([(s2b "other", s2b "x"); (s2b "f", s2b "8"); (s2b "a", s2b "2")], Some 100)) /\
  rn = (d, RInt 0) /\
  snd (cmd_hset 1 50 d [s2b "h"; s2b "a"; s2b "1"]) = ok /\
  hset_all [(s2b "f", s2b "0")] [(s2b "f", s2b "1"); (s2b "g", s2b "2"); (s2b "g", s2b "3")] true
    = ([(s2b "f", s2b "0"); (s2b "g", s2b "2")], 1).
Proof. vm_compute. repeat split; reflexivity. Qed.

(* ------------------------------------------------------------------ *)
(* 3. HDEL                                                             *)
(* ------------------------------------------------------------------ *)

Definition hdel_step (acc : list (bytes * bytes) * Z) (f : bytes) : list (bytes * bytes) * Z :=
  let '(h, n) := acc in if amem h f then (adel h f, n + 1) else (h, n).

Lemma adel_filter {V} (m : list (bytes * V)) k :
  adel m k = filter (fun kv => negb (bytes_eqb k (fst kv))) m.
Proof.
  induction m as [|[k' v] m IH]; simpl; [reflexivity|].
  destruct (bytes_eqb k k'); simpl; rewrite IH; reflexivity.
Qed.

Lemma adel_absent {V} (m : list (bytes * V)) k : amem m k = false -> adel m k = m.
Proof.
  unfold amem. induction m as [|[k' v] m IH]; simpl; [reflexivity|].
  destruct (bytes_eqb k k'); [discriminate|]. intro H. rewrite IH by exact H. reflexivity.
Qed.

Lemma Zlen_adel_present {V} (m : list (bytes * V)) k :
  NoDup (map fst m) -> amem m k = true -> Zlen (adel m k) = Zlen m - 1.
Proof.
  unfold amem. induction m as [|[k' v] m IH]; cbn [aget adel map fst]; [discriminate|].
  intros Hnd. inversion Hnd as [|? ? Hnin Hnd']; subst.
  destruct (bytes_eqb k k') eqn:E.
  - intros _. apply bytes_eqb_eq in E. subst k'.
    rewrite adel_absent.
    + rewrite Zlen_cons. lia.
    + unfold amem. destruct (aget m k) eqn:Ea; [|reflexivity].
      apply aget_some_in in Ea. contradiction.
  - intro H. rewrite !Zlen_cons. rewrite IH by assumption. lia.
Qed.

Lemma filter_filter {A} (p q : A -> bool) l :
  filter p (filter q l) = filter (fun x => q x && p x) l.
Proof.
  induction l as [|x l IH]; simpl; [reflexivity|].
  destruct (q x); simpl; [destruct (p x)|]; rewrite IH; reflexivity.
Qed.

Lemma Zlen_filter_split {A} (p : A -> bool) l :
  Zlen (filter p l) + Zlen (filter (fun x => negb (p x)) l) = Zlen l.
Proof.
  induction l as [|x l IH]; cbn [filter]; [reflexivity|].
  destruct (p x); cbn [negb]; rewrite !Zlen_cons; lia.
Qed.

(* the loop of HDEL: what is left is exactly the fields not mentioned; the
   counter counts the fields that disappeared *)
Lemma hdel_fold_spec fs : forall h a h' n,
  fold_left hdel_step fs (h, a) = (h', n) ->
  h' = filter (fun fv => negb (mem_bytes (fst fv) fs)) h /\
  a <= n /\ (n = a -> h' = h) /\
  (NoDup (map fst h) -> n = a + (Zlen h - Zlen h')).
Proof.
  induction fs as [|f r IH]; intros h a h' n; simpl.
  - intro H. inversion H; subst. split.
    + clear. induction h' as [|x l IHl]; simpl; [reflexivity|]. rewrite <- IHl. reflexivity.
    + split; [lia|]. split; [reflexivity|]. intros _. lia.
  - destruct (amem h f) eqn:Ef.
    + intro H. apply IH in H. destruct H as [H1 [H2 [H3 H4]]].
      split; [|split; [lia|split]].
      * rewrite H1, adel_filter, filter_filter. apply filter_ext. intros [k v]. simpl.
        rewrite negb_orb. rewrite (eq_true_iff_eq (bytes_eqb f k) (bytes_eqb k f)); [reflexivity|].
        rewrite !bytes_eqb_eq. split; congruence.
      * intro Hn. lia.
      * intro Hnd. rewrite H4 by (apply (NoDup_akeys_adel h f); exact Hnd).
        rewrite (Zlen_adel_present h f Hnd Ef). lia.
    + intro H. apply IH in H. destruct H as [H1 [H2 [H3 H4]]].
      split; [|split; [exact H2|split; [exact H3|exact H4]]].
      rewrite H1. rewrite <- (adel_absent h f Ef) at 1.
      rewrite adel_filter, filter_filter. apply filter_ext. intros [k v]. simpl.
      rewrite negb_orb. rewrite (eq_true_iff_eq (bytes_eqb f k) (bytes_eqb k f)); [reflexivity|].
      rewrite !bytes_eqb_eq. split; congruence.
Qed.

Lemma aget_filter_keys (p : bytes -> bool) (h : list (bytes * bytes)) f :
  aget (filter (fun fv => p (fst fv)) h) f = if p f then aget h f else None.
Proof.
  induction h as [|[k v] h IH]; simpl; [destruct (p f); reflexivity|].
  destruct (p k) eqn:Ek; simpl.
  - destruct (bytes_eqb f k) eqn:E; [|exact IH].
    apply bytes_eqb_eq in E. subst k. rewrite Ek. reflexivity.
  - destruct (bytes_eqb f k) eqn:E; [|exact IH].
    apply bytes_eqb_eq in E. subst k. rewrite Ek in *. rewrite IH. reflexivity.
Qed.

Lemma NoDup_map_fst_filter {A B} (p : A * B -> bool) (h : list (A * B)) :
  NoDup (map fst h) -> NoDup (map fst (filter p h)).
Proof.
  induction h as [|[k v] h IH]; cbn [filter map fst]; intro Hnd; [constructor|].
  inversion Hnd as [|? ? Hnin Hnd']; subst.
  destruct (p (k, v)); [|apply IH; exact Hnd'].
  cbn [map fst]. constructor; [|apply IH; exact Hnd'].
  intro Hin. apply Hnin. apply in_map_iff in Hin. destruct Hin as [[k2 v2] [Hk Hin]].
  apply filter_In in Hin. apply in_map_iff. exists (k2, v2). tauto.
Qed.

(* C04.3 *)
Theorem hdel_spec now d k fs h exp :
  fs <> [] ->
  get_hash now d k = Some (Some (h, exp)) ->
  let h' := filter (fun fv => negb (mem_bytes (fst fv) fs)) h in
  let d' := fst (cmd_hdel now d (k :: fs)) in
  (* the fields left: given fields are gone, all others keep their value *)
  (forall f, aget h' f = if mem_bytes f fs then None else aget h f) /\
  (NoDup (map fst h) -> NoDup (map fst h')) /\
  (* the reply counts the fields that existed and are gone *)
  (NoDup (map fst h) ->
     snd (cmd_hdel now d (k :: fs)) =
       RInt (Zlen (filter (fun fv => mem_bytes (fst fv) fs) h))) /\
  (exists n, snd (cmd_hdel now d (k :: fs)) = RInt n /\ (n = 0 -> d' = d)) /\
  (* the key afterwards: the remaining fields with the old deadline, or no key *)
  (h' <> [] -> get_hash now d' k = Some (Some (h', exp))) /\
  (h' = [] -> h <> [] -> lookup now d' k = None) /\
  (forall k', k' <> k -> lookup now d' k' = lookup now d k').
Proof.
  intros Hne Hg h' d'.
  pose proof (get_hash_exp_live now d k h exp Hg) as Hl.
  split.
  { intro f. subst h'. rewrite (aget_filter_keys (fun x => negb (mem_bytes x fs))).
    destruct (mem_bytes f fs); reflexivity. }
  split.
  { intro Hnd. subst h'. clear - Hnd. induction h as [|[k v] h IH]; simpl; [constructor|].
    inversion Hnd as [|? ? Hnin Hnd']; subst.
    destruct (mem_bytes k fs); simpl; [apply IH; exact Hnd'|].
    constructor; [|apply IH; exact Hnd'].
    intro Hin. apply Hnin. apply in_map_iff in Hin. destruct Hin as [[k2 v2] [Hk Hin]].
    apply filter_In in Hin. apply in_map_iff. exists (k2, v2). tauto. }
  subst d'. unfold cmd_hdel. destruct fs as [|f0 fs0]; [congruence|]. rewrite Hg.
  change (fun (acc : list (bytes * bytes) * Z) (f : bytes) =>
            let '(h0, n) := acc in if amem h0 f then (adel h0 f, n + 1) else (h0, n))
    with hdel_step.
  destruct (fold_left hdel_step (f0 :: fs0) (h, 0)) as [h1 n1] eqn:E.
  destruct (hdel_fold_spec _ _ _ _ _ E) as [H1 [H2 [H3 H4]]]. fold h' in H1. subst h1.
  cbn [fst snd]. split.
  { intro Hnd. rewrite (H4 Hnd). f_equal.
    pose proof (Zlen_filter_split (fun fv : bytes * bytes => mem_bytes (fst fv) (f0 :: fs0)) h) as Hs.
    cbv beta in Hs. fold h' in Hs. lia. }
  split.
  { exists n1. split; [reflexivity|]. intro Hz. subst n1. reflexivity. }
  destruct (n1 =? 0) eqn:Ez.
  - apply Z.eqb_eq in Ez. rewrite (H3 Ez). split; [intros _; exact Hg|].
    split; [intros Hc1 Hc2; congruence | reflexivity].
  - split; [intro Hh; apply get_hash_put_hash; assumption|].
    split; [intros Hh _; rewrite Hh; apply lookup_put_hash_nil|].
    intros k' Hk'. apply lookup_put_hash_other. exact Hk'.
Qed.
Print Assumptions hdel_spec.

(* HDEL on a missing key *)
Theorem hdel_missing now d k fs :
  fs <> [] -> lookup now d k = None -> cmd_hdel now d (k :: fs) = (d, RInt 0).
Proof.
  intros Hne Hl. apply get_hash_missing in Hl. unfold cmd_hdel.
  destruct fs as [|f0 fs0]; [congruence|]. rewrite Hl. reflexivity.
Qed.
Print Assumptions hdel_missing.

Example hdel_ex :
  let d := ex_db 7 in
  let r1 := cmd_hdel 50 d [s2b "h"; s2b "f"; s2b "nope"; s2b "f"] in
  let r2 := cmd_hdel 50 d [s2b "h"; s2b "f"; s2b "other"] in
  snd r1 = RInt 1 /\ get_hash 50 (fst r1) (s2b "h") = Some (Some ([(s2b "other", s2b "x")], Some 100)) /\
  snd r2 = RInt 2 /\ lookup 50 (fst r2) (s2b "h") = None /\
  cmd_hdel 50 d [s2b "h"; s2b "nope"] = (d, RInt 0).
Proof. vm_compute. repeat split; reflexivity. Qed.

(* ------------------------------------------------------------------ *)
(* 4. the read commands                                                *)
(* ------------------------------------------------------------------ *)

Definition bulk_or_nil (o : option bytes) : resp :=
  match o with Some v => RBulk v | None => RNil end.

Theorem hash_reads_present now d k h exp :
  get_hash now d k = Some (Some (h, exp)) ->
  (forall f, cmd_hget now d [k; f] = (d, bulk_or_nil (aget h f))) /\
  (forall fs, fs <> [] -> cmd_hmget now d (k :: fs) = (d, RArr (map (fun f => bulk_or_nil (aget h f)) fs))) /\
  (forall f, cmd_hexists false now d [k; f] = (d, RInt (if amem h f then 1 else 0))) /\
  (forall f, cmd_hexists true now d [k; f] =
             (d, RInt (match aget h f with Some v => Zlen v | None => 0 end))) /\
  cmd_hlen now d [k] = (d, RInt (Zlen h)) /\
  cmd_hgetall now d [k] = (d, RMap (map (fun fv => (RBulk (fst fv), RBulk (snd fv))) h)) /\
  cmd_hkeys false now d [k] = (d, RArrU (bulks (map fst h))) /\
  cmd_hkeys true now d [k] = (d, RArrU (bulks (map snd h))).
Proof.
  intro Hg.
  unfold cmd_hget, cmd_hmget, cmd_hexists, cmd_hlen, cmd_hgetall, cmd_hkeys, bulk_or_nil, amem.
  rewrite Hg. repeat split.
  - intros fs Hne. destruct fs as [|f0 fs0]; [congruence|]. reflexivity.
  - intro f. destruct (aget h f); reflexivity.
  - intro f. destruct (aget h f); reflexivity.
Qed.
Print Assumptions hash_reads_present.

Theorem hash_reads_missing now d k :
  lookup now d k = None ->
  (forall f, cmd_hget now d [k; f] = (d, RNil)) /\
  (forall fs, fs <> [] -> cmd_hmget now d (k :: fs) = (d, RArr (map (fun _ => RNil) fs))) /\
  (forall b f, cmd_hexists b now d [k; f] = (d, RInt 0)) /\
  cmd_hlen now d [k] = (d, RInt 0) /\
  cmd_hgetall now d [k] = (d, RMap []) /\
  (forall b, cmd_hkeys b now d [k] = (d, RArrU [])).
Proof.
  intro Hl. apply get_hash_missing in Hl.
  unfold cmd_hget, cmd_hmget, cmd_hexists, cmd_hlen, cmd_hgetall, cmd_hkeys.
  rewrite Hl. repeat split.
  intros fs Hne. destruct fs as [|f0 fs0]; [congruence|]. reflexivity.
Qed.
Print Assumptions hash_reads_missing.

(* the read commands never change the db, whatever the arguments and the key hold *)
Theorem hash_reads_pure now d args :
  fst (cmd_hget now d args) = d /\ fst (cmd_hmget now d args) = d /\
  fst (cmd_hgetall now d args) = d /\ (forall b, fst (cmd_hkeys b now d args) = d) /\
  fst (cmd_hlen now d args) = d /\ (forall b, fst (cmd_hexists b now d args) = d) /\
  fst (cmd_hrandfield now d args) = d.
Proof.
  unfold cmd_hget, cmd_hmget, cmd_hgetall, cmd_hkeys, cmd_hlen, cmd_hexists, cmd_hrandfield.
  repeat split; intros;
    repeat match goal with
           | |- context [match ?x with _ => _ end] => destruct x
           end; reflexivity.
Qed.
Print Assumptions hash_reads_pure.

Example hash_reads_ex :
  let d := ex_db 7 in
  cmd_hget 50 d [s2b "h"; s2b "f"] = (d, RBulk (s2b "7")) /\
  cmd_hget 50 d [s2b "h"; s2b "zz"] = (d, RNil) /\
  cmd_hget 150 d [s2b "h"; s2b "f"] = (d, RNil) /\       (* expired: invisible *)
  cmd_hmget 50 d [s2b "h"; s2b "zz"; s2b "other"] = (d, RArr [RNil; RBulk (s2b "x")]) /\
  cmd_hexists true 50 d [s2b "h"; s2b "other"] = (d, RInt 1) /\
  cmd_hlen 50 d [s2b "h"] = (d, RInt 2) /\
  cmd_hkeys true 50 d [s2b "h"] = (d, RArrU [RBulk (s2b "x"); RBulk (s2b "7")]).
Proof. vm_compute. repeat split; reflexivity. Qed.

(* ------------------------------------------------------------------ *)
(* 5. HRANDFIELD                                                       *)
(* ------------------------------------------------------------------ *)

Definition pair_cand (fv : bytes * bytes) : resp := RArr [RBulk (fst fv); RBulk (snd fv)].

Lemma In_bulks x l : In (RBulk x) (bulks l) <-> In x l.
Proof.
  unfold bulks. rewrite in_map_iff. split.
  - intros [y [Hy Hin]]. inversion Hy; subst. exact Hin.
  - intro H. exists x. auto.
Qed.

Lemma aget_In_NoDup (h : list (bytes * bytes)) f v :
  NoDup (map fst h) -> (In (f, v) h <-> aget h f = Some v).
Proof.
  induction h as [|[k w] h IH]; simpl; intro Hnd.
  - split; [intros [] | discriminate].
  - inversion Hnd as [|? ? Hnin Hnd']; subst.
    destruct (bytes_eqb f k) eqn:E.
    + apply bytes_eqb_eq in E. subst k. split.
      * intros [H|H]; [inversion H; reflexivity|].
        exfalso. apply Hnin. apply in_map_iff. exists (f, v). auto.
      * intro H. inversion H. left. reflexivity.
    + apply bytes_eqb_neq in E. rewrite <- (IH Hnd'). split.
      * intros [H|H]; [inversion H; congruence | exact H].
      * auto.
Qed.

(* the shapes of the reply; the candidates are exactly the fields, resp. the
   [field; value] pairs, of the hash *)
Theorem hrandfield_spec now d k h exp :
  get_hash now d k = Some (Some (h, exp)) ->
  cmd_hrandfield now d [k] = (d, RPick (bulks (map fst h)) 1 true false) /\
  (forall c cnt, parse_i64 c = Some cnt ->
     cmd_hrandfield now d [k; c] = (d, RPick (bulks (map fst h)) cnt false false)) /\
  (forall c cnt w, parse_i64 c = Some cnt -> is_kw w "WITHVALUES" = true ->
     cmd_hrandfield now d [k; c; w] = (d, RPick (map pair_cand h) cnt false true)).
Proof.
  intro Hg. unfold cmd_hrandfield, hrand_cands. rewrite Hg. split; [reflexivity|]. split.
  - intros c cnt Hc. rewrite Hc. reflexivity.
  - intros c cnt w Hc Hw. rewrite Hc, Hw. reflexivity.
Qed.
Print Assumptions hrandfield_spec.

(* ... so HRANDFIELD can only return existing fields (with their own values) *)
Theorem hrandfield_cands_exist (h : list (bytes * bytes)) :
  (forall f, In (RBulk f) (bulks (map fst h)) <-> aget h f <> None) /\
  (forall c, In c (bulks (map fst h)) -> exists f, c = RBulk f /\ aget h f <> None) /\
  (NoDup (map fst h) ->
     forall f v, In (pair_cand (f, v)) (map pair_cand h) <-> aget h f = Some v) /\
  (forall c, In c (map pair_cand h) -> exists f v, c = pair_cand (f, v) /\ In (f, v) h).
Proof.
  split; [|split; [|split]].
  - intro f. rewrite In_bulks. apply aget_in_iff.
  - intros c Hc. unfold bulks in Hc. apply in_map_iff in Hc. destruct Hc as [f [Hf Hin]].
    exists f. split; [auto|]. apply aget_in_iff. exact Hin.
  - intros Hnd f v. rewrite <- (aget_In_NoDup h f v Hnd). rewrite in_map_iff. split.
    + intros [[f' v'] [Heq Hin]]. unfold pair_cand in Heq. simpl in Heq. inversion Heq; subst. exact Hin.
    + intro Hin. exists (f, v). auto.
  - intros c Hc. apply in_map_iff in Hc. destruct Hc as [[f v] [Heq Hin]]. exists f, v. auto.
Qed.
Print Assumptions hrandfield_cands_exist.

Theorem hrandfield_missing now d k :
  lookup now d k = None ->
  cmd_hrandfield now d [k] = (d, RNil) /\
  (forall c cnt, parse_i64 c = Some cnt -> cmd_hrandfield now d [k; c] = (d, RArr [])) /\
  (forall c cnt w, parse_i64 c = Some cnt -> is_kw w "WITHVALUES" = true ->
     cmd_hrandfield now d [k; c; w] = (d, RPairs [])).
Proof.
  intro Hl. apply get_hash_missing in Hl. unfold cmd_hrandfield. rewrite Hl.
  split; [reflexivity|]. split.
  - intros c cnt Hc. rewrite Hc. reflexivity.
  - intros c cnt w Hc Hw. rewrite Hc, Hw. reflexivity.
Qed.
Print Assumptions hrandfield_missing.

Example hrandfield_ex :
  let d := ex_db 7 in
  cmd_hrandfield 50 d [s2b "h"] = (d, RPick [RBulk (s2b "other"); RBulk (s2b "f")] 1 true false) /\
  cmd_hrandfield 50 d [s2b "h"; s2b "-3"; s2b "withvalues"] =
    (d, RPick [RArr [RBulk (s2b "other"); RBulk (s2b "x")]; RArr [RBulk (s2b "f"); RBulk (s2b "7")]]
              (-3) false true).
Proof. vm_compute. split; reflexivity. Qed.

(* ------------------------------------------------------------------ *)
(* 6. error inertness: an error reply never comes with a changed db     *)
(* ------------------------------------------------------------------ *)

Theorem hash_error_inert now d args s :
  (forall mode, snd (cmd_hset mode now d args) = RErr s -> fst (cmd_hset mode now d args) = d) /\
  (snd (cmd_hget now d args) = RErr s -> fst (cmd_hget now d args) = d) /\
  (snd (cmd_hmget now d args) = RErr s -> fst (cmd_hmget now d args) = d) /\
  (snd (cmd_hgetall now d args) = RErr s -> fst (cmd_hgetall now d args) = d) /\
  (forall b, snd (cmd_hkeys b now d args) = RErr s -> fst (cmd_hkeys b now d args) = d) /\
  (snd (cmd_hlen now d args) = RErr s -> fst (cmd_hlen now d args) = d) /\
  (forall b, snd (cmd_hexists b now d args) = RErr s -> fst (cmd_hexists b now d args) = d) /\
  (snd (cmd_hdel now d args) = RErr s -> fst (cmd_hdel now d args) = d) /\
  (snd (cmd_hincrby now d args) = RErr s -> fst (cmd_hincrby now d args) = d) /\
  (snd (cmd_hrandfield now d args) = RErr s -> fst (cmd_hrandfield now d args) = d).
Proof.
  pose proof (hash_reads_pure now d args) as [P1 [P2 [P3 [P4 [P5 [P6 P7]]]]]].
  repeat split; intros; auto.
  - unfold cmd_hset in *.
    repeat match goal with
           | H : context [match ?x with _ => _ end] |- _ => destruct x
           end; cbn [fst snd] in *; try reflexivity; unfold ok in *; discriminate.
  - unfold cmd_hdel in *.
    repeat match goal with
           | H : context [match ?x with _ => _ end] |- _ => destruct x
           end; cbn [fst snd] in *; try reflexivity; discriminate.
  - destruct (hincrby_total now d args) as [[r Hr]|[s' [_ Hd]]]; [congruence | exact Hd].
Qed.
Print Assumptions hash_error_inert.

Example hash_error_ex :
  let d := put (ex_db 7) (s2b "s") (VStr (s2b "v")) None in
  cmd_hset 0 50 d [s2b "s"; s2b "f"; s2b "1"] = (d, wrongtype) /\
  cmd_hset 0 50 d [s2b "h"; s2b "f"] = (d, argerr) /\
  cmd_hset 2 50 d [s2b "h"; s2b "f"; s2b "1"; s2b "g"; s2b "2"] = (d, argerr) /\
  cmd_hdel 50 d [s2b "s"; s2b "f"] = (d, wrongtype) /\
  cmd_hincrby 50 d [s2b "h"; s2b "f"; s2b "1.5"] = (d, argerr) /\
  cmd_hrandfield 50 d [s2b "h"; s2b "1"; s2b "bogus"] = (d, argerr).
Proof. vm_compute. repeat split; reflexivity. Qed.

(* ------------------------------------------------------------------ *)
(* 7. HSCAN (reply shape of Exec2): candidates are the matching pairs   *)
(* ------------------------------------------------------------------ *)

Theorem hscan_spec now d k h exp cur c :
  get_hash now d k = Some (Some (h, exp)) ->
  parse_i64 cur = Some c ->
  cmd_hscan now d [k; cur] = (d, RScan (map pair_cand h) true) /\
  (forall a p, is_kw a "MATCH" = true ->
     cmd_hscan now d [k; cur; a; p] =
       (d, RScan (map pair_cand (filter (fun fv => glob_match p (fst fv)) h)) true)).
Proof.
  intros Hg Hc. unfold cmd_hscan. rewrite Hc. split.
  - simpl. rewrite Hg.
    replace (filter (fun _ : bytes * bytes => true) h) with h; [reflexivity|].
    clear. induction h as [|x h IH]; simpl; [reflexivity|]. rewrite <- IH. reflexivity.
  - intros a p Ha. cbn [List.length scan_opts]. rewrite Ha. cbv iota beta. rewrite Hg. reflexivity.
Qed.
Print Assumptions hscan_spec.

Theorem hscan_pure now d args : fst (cmd_hscan now d args) = d.
Proof.
  unfold cmd_hscan.
  repeat match goal with
         | |- context [match ?x with _ => _ end] => destruct x
         end; reflexivity.
Qed.
Print Assumptions hscan_pure.

Example hscan_ex :
  let d := ex_db 7 in
  cmd_hscan 50 d [s2b "h"; s2b "0"; s2b "match"; s2b "o*"] =
    (d, RScan [RArr [RBulk (s2b "other"); RBulk (s2b "x")]] true) /\
  cmd_hscan 50 d [s2b "nokey"; s2b "0"] = (d, RArr [RBulk (s2b "0"); RArr []]).
Proof. vm_compute. split; reflexivity. Qed.

(* ------------------------------------------------------------------ *)
(* 8. invariant: every stored hash is non-empty with distinct fields,   *)
(*    and every hash command keeps it so (for arbitrary arguments)      *)
(* ------------------------------------------------------------------ *)

Definition hash_wf (d : db) : Prop :=
  forall k e h, aget (d_map d) k = Some e -> e_val e = VHash h -> h <> [] /\ NoDup (map fst h).

Lemma lookup_aget now d k e : lookup now d k = Some e -> aget (d_map d) k = Some e.
Proof.
  unfold lookup. destruct (aget (d_map d) k) as [e0|]; [|discriminate].
  destruct (expired now e0); [discriminate|]. exact (fun H => H).
Qed.

Lemma hash_wf_get now d k cur :
  hash_wf d -> get_hash now d k = Some cur -> NoDup (map fst (cur_hash cur)).
Proof.
  intros Hwf Hg. destruct cur as [[h e]|]; simpl; [|constructor].
  apply get_hash_some in Hg. destruct Hg as [e0 [Hl [Hv _]]].
  apply lookup_aget in Hl. exact (proj2 (Hwf k e0 h Hl Hv)).
Qed.

Lemma hash_wf_put_hash d k h exp :
  hash_wf d -> NoDup (map fst h) -> hash_wf (put_hash d k h exp).
Proof.
  intros Hwf Hnd k' e' h' Ha Hv. unfold put_hash, put_or_del in Ha.
  destruct h as [|p h]; simpl in Ha.
  - destruct (bytes_eq_dec k' k) as [E|E].
    + subst k'. rewrite aget_adel_same in Ha. discriminate.
    + rewrite aget_adel_other in Ha by exact E. exact (Hwf k' e' h' Ha Hv).
  - destruct (bytes_eq_dec k' k) as [E|E].
    + subst k'. rewrite aget_aset_same in Ha. inversion Ha; subst e'. simpl in Hv.
      inversion Hv; subst h'. split; [discriminate | exact Hnd].
    + rewrite aget_aset_other in Ha by exact E. exact (Hwf k' e' h' Ha Hv).
Qed.

Theorem hash_wf_preserved now d args :
  hash_wf d ->
  (forall mode, hash_wf (fst (cmd_hset mode now d args))) /\
  hash_wf (fst (cmd_hdel now d args)) /\
  hash_wf (fst (cmd_hincrby now d args)).
Proof.
  intro Hwf. split; [|split].
  - intro mode. unfold cmd_hset.
    destruct args as [|k [|a fv]]; try exact Hwf.
    destruct (pairs_of (a :: fv)) as [ps|]; [|exact Hwf].
    destruct ((mode =? 2)%N && negb (Nat.eqb (List.length ps) 1)); [exact Hwf|].
    destruct (get_hash now d k) as [cur|] eqn:Hg; [|exact Hwf].
    pose proof (hash_wf_get now d k cur Hwf Hg) as Hnd.
    pose proof (hset_all_NoDup (cur_hash cur) ps (mode =? 2)%N Hnd) as Hnd'.
    destruct cur as [[h e]|]; cbn [cur_hash] in *;
      destruct (hset_all _ ps (mode =? 2)%N) as [h' n]; cbn [fst] in *;
      (destruct ((mode =? 2)%N && (n =? 0)); [exact Hwf | apply hash_wf_put_hash; assumption]).
  - unfold cmd_hdel. destruct args as [|k [|f0 fs0]]; try exact Hwf.
    destruct (get_hash now d k) as [[[h e]|]|] eqn:Hg; try exact Hwf.
    pose proof (hash_wf_get now d k _ Hwf Hg) as Hnd. cbn [cur_hash] in Hnd.
    change (fun (acc : list (bytes * bytes) * Z) (f : bytes) =>
              let '(h0, n) := acc in if amem h0 f then (adel h0 f, n + 1) else (h0, n))
      with hdel_step.
    destruct (fold_left hdel_step (f0 :: fs0) (h, 0)) as [h1 n1] eqn:E. cbn [fst].
    destruct (n1 =? 0); [exact Hwf|]. apply hash_wf_put_hash; [exact Hwf|].
    destruct (hdel_fold_spec _ _ _ _ _ E) as [H1 _]. subst h1.
    apply NoDup_map_fst_filter. exact Hnd.
  - unfold cmd_hincrby. destruct args as [|k [|f [|n [|x r]]]]; try exact Hwf.
    destruct (parse_i64 n) as [delta|]; [|exact Hwf].
    destruct (get_hash now d k) as [cur|] eqn:Hg; [|exact Hwf].
    pose proof (hash_wf_get now d k cur Hwf Hg) as Hnd.
    destruct cur as [[h e]|]; cbn [cur_hash] in *.
    + destruct (aget h f) as [old|].
      * destruct (strict_i64 old) as [v|]; [|exact Hwf].
        destruct (in_i64 (v + delta)); [|exact Hwf].
        apply hash_wf_put_hash; [exact Hwf | apply (NoDup_akeys_aset h f); exact Hnd].
      * apply hash_wf_put_hash; [exact Hwf | apply (NoDup_akeys_aset h f); exact Hnd].
    + cbn [aget]. apply hash_wf_put_hash; [exact Hwf | apply (NoDup_akeys_aset [] f); constructor].
Qed.
Print Assumptions hash_wf_preserved.

Lemma hash_wf_empty : hash_wf empty_db.
Proof. intros k e h Ha. discriminate. Qed.

(* a visible hash is therefore never empty *)
Corollary hash_never_empty now d k h exp :
  hash_wf d -> get_hash now d k = Some (Some (h, exp)) -> h <> [] /\ NoDup (map fst h).
Proof.
  intros Hwf Hg. apply get_hash_some in Hg. destruct Hg as [e [Hl [Hv _]]].
  apply lookup_aget in Hl. exact (Hwf k e h Hl Hv).
Qed.
Print Assumptions hash_never_empty.
