(* Lockset.v — data-race freedom from a protected-by discipline. Threads emit lock
   acquisitions/releases and memory accesses; a race is a pair of conflicting accesses by
   different threads with no common lock held. The table of (location, lock) pairs for the
   emulator is Generated/LockTable.v, regenerated from the Go source on every run. *)
From RE Require Import Base.
From Coq Require Import List.
Open Scope list_scope.

Definition tid := N.
Definition loc := N.
Definition lockid := N.

Inductive act :=
| Acq (l : lockid) | Rel (l : lockid)
| Rd (x : loc) | Wr (x : loc).

Definition event := (tid * act)%type.

Definition memN (x : N) (l : list N) : bool := existsb (N.eqb x) l.
Definition delN (x : N) (l : list N) : list N := filter (fun y => negb (N.eqb x y)) l.
Fixpoint nget {A} (m : list (N * A)) (k : N) : option A :=
  match m with [] => None | (k', v) :: r => if N.eqb k k' then Some v else nget r k end.
Fixpoint nset {A} (m : list (N * A)) (k : N) (v : A) : list (N * A) :=
  match m with [] => [(k, v)] | (k', v') :: r => if N.eqb k k' then (k, v) :: r else (k', v') :: nset r k v end.

(* locks held by each thread; a lock is held by at most one thread (mutex semantics) *)
Definition held := list (tid * list lockid).
Definition held_by (h : held) (t : tid) : list lockid := match nget h t with Some l => l | None => [] end.
Definition owner_free (h : held) (l : lockid) : bool := forallb (fun tl => negb (memN l (snd tl))) h.

(* a trace is well-formed when acquisitions respect mutual exclusion and releases are by the holder *)
Fixpoint run_locks (h : held) (tr : list event) : option (list (event * list lockid)) :=
  match tr with
  | [] => Some []
  | (t, a) :: r =>
    let cur := held_by h t in
    match a with
    | Acq l => if owner_free h l then
                 match run_locks (nset h t (l :: cur)) r with Some x => Some (((t, a), cur) :: x) | None => None end
               else None
    | Rel l => if memN l cur then
                 match run_locks (nset h t (delN l cur)) r with Some x => Some (((t, a), cur) :: x) | None => None end
               else None
    | _ => match run_locks h r with Some x => Some (((t, a), cur) :: x) | None => None end
    end
  end.

(* the discipline: every access to x happens with guard x held *)
Definition disciplined (guard : loc -> option lockid) (annotated : list (event * list lockid)) : bool :=
  forallb (fun el => match snd (fst el) with
                     | Rd x | Wr x => match guard x with Some l => memN l (snd el) | None => false end
                     | _ => true end) annotated.

Definition is_access (a : act) (x : loc) : bool :=
  match a with Rd y | Wr y => N.eqb x y | _ => false end.
Definition is_write (a : act) : bool := match a with Wr _ => true | _ => false end.
