(* State.v — the keyspace model: values, entries with deadline and version,
   databases, expiry-aware lookup, and the few write primitives every command
   is built from (dataStore.go, dataStoreKey.go, dataStoreCommands.go). *)
From RE Require Import Base.
Open Scope Z_scope.

Inductive value :=
| VStr (b : bytes)
| VList (l : list bytes)                (* head first *)
| VHash (h : list (bytes * bytes))      (* unique fields *)
| VSet (s : list bytes).                (* no duplicates *)

Inductive vtype := TStr | TList | THash | TSet.
Definition type_of (v : value) : vtype :=
  match v with VStr _ => TStr | VList _ => TList | VHash _ => THash | VSet _ => TSet end.
Definition vtype_eqb (a b : vtype) : bool :=
  match a, b with TStr, TStr | TList, TList | THash, THash | TSet, TSet => true | _, _ => false end.

(* e_exp: deadline in ns since the epoch, None = no expiry (Go: maxTime).
   e_ver: the object number given at the last modification (Go: storeKey.id). *)
Record entry := mkE { e_val : value; e_exp : option Z; e_ver : N }.

Record db := mkDb { d_map : list (bytes * entry); d_next : N; d_dirty : bool }.
Definition empty_db : db := mkDb [] 0 false.

(* Go: time.Now().After(expiresAt) *)
Definition expired (now : Z) (e : entry) : bool :=
  match e_exp e with None => false | Some t => t <? now end.

(* getKeyObjectUnlocked: expired entries are invisible (but stay stored) *)
Definition lookup (now : Z) (d : db) (k : bytes) : option entry :=
  match aget (d_map d) k with
  | Some e => if expired now e then None else Some e
  | None => None
  end.

Definition live (now : Z) (d : db) : list (bytes * entry) :=
  filter (fun ke => negb (expired now (snd ke))) (d_map d).

Definition purge (now : Z) (d : db) : db :=
  mkDb (live now d) (d_next d) (d_dirty d).

(* --- write primitives; each one takes a fresh version and marks the db dirty --- *)
Definition put (d : db) (k : bytes) (v : value) (exp : option Z) : db :=
  let n := (d_next d + 1)%N in
  mkDb (aset (d_map d) k (mkE v exp n)) n true.

Definition del (d : db) (k : bytes) : db :=
  mkDb (adel (d_map d) k) (d_next d + 1)%N true.

(* aggregates never exist empty: writing an empty aggregate removes the key *)
Definition is_empty_agg (v : value) : bool :=
  match v with
  | VStr _ => false
  | VList l => match l with [] => true | _ => false end
  | VHash h => match h with [] => true | _ => false end
  | VSet s => match s with [] => true | _ => false end
  end.

Definition put_or_del (d : db) (k : bytes) (v : value) (exp : option Z) : db :=
  if is_empty_agg v then del d k else put d k v exp.

(* in-place update of a visible key: keeps the deadline *)
Definition update (now : Z) (d : db) (k : bytes) (v : value) : db :=
  match lookup now d k with
  | Some e => put_or_del d k v (e_exp e)
  | None => put_or_del d k v None
  end.

Definition set_exp (d : db) (k : bytes) (e : entry) (exp : option Z) : db :=
  put d k (e_val e) exp.

(* sorted insertion, used only to present unordered collections canonically *)
Fixpoint insert_sorted (x : bytes) (l : list bytes) : list bytes :=
  match l with
  | [] => [x]
  | y :: r => if bytes_ltb y x then y :: insert_sorted x r else x :: l
  end.
Definition sort_bytes (l : list bytes) : list bytes := fold_right insert_sorted [] l.

Definition keys_live (now : Z) (d : db) : list bytes := map fst (live now d).
