(* Persist.v — snapshots (dataStorePersist.go: save / saveTo / load), the periodic
   saver gate (dataStoreCommands.go: save — "write only when dirty"), and the file
   operations a save performs (create temporary, append records, close, rename).
   gob encoding of one record is trusted; a snapshot is modelled at record level. *)
From RE Require Import Base Resp State Exec Exec2 Bits Dispatch.
From Coq Require Import List.
Open Scope list_scope.
Open Scope Z_scope.

(* ---------- snapshot records ---------- *)
Inductive rec :=
| RHdr (count : N) (next : N)                                    (* persistHeader: Count, DataObjectNumber *)
| RKey (k : bytes) (ver : N) (exp : option Z) (v : value).       (* persistKeyHeader + payload *)

Definition rec_of (ke : bytes * entry) : rec :=
  RKey (fst ke) (e_ver (snd ke)) (e_exp (snd ke)) (e_val (snd ke)).

(* dataStore.saveTo: header, then every stored key (expired ones included) *)
Definition snapshot (d : db) : list rec :=
  RHdr (N.of_nat (length (d_map d))) (d_next d) :: map rec_of (d_map d).

Fixpoint keys_of (rs : list rec) : option (list (bytes * entry)) :=
  match rs with
  | [] => Some []
  | RKey k ver exp v :: r =>
    match keys_of r with Some m => Some ((k, mkE v exp ver) :: m) | None => None end
  | RHdr _ _ :: _ => None
  end.

(* dataStore.load: the header announces how many keys follow; fewer records than
   announced is a decoding error (the load fails and the database stays empty) *)
Definition load (rs : list rec) : option db :=
  match rs with
  | RHdr n nx :: r =>
    match keys_of (firstn (N.to_nat n) r) with
    | Some m => if Nat.eqb (length m) (N.to_nat n) then Some (mkDb m nx false) else None
    | None => None
    end
  | _ => None
  end.

Definition clean (d : db) : db := mkDb (d_map d) (d_next d) false.

(* ---------- the saver gate ---------- *)
(* one database and its snapshot file (None = no file yet) *)
Record pstate := mkP { p_db : db; p_file : option (list rec) }.

(* dataStoreCommand.save: write only when the dirty flag is set, then clear it *)
Definition tick (p : pstate) : pstate :=
  if d_dirty (p_db p) then mkP (clean (p_db p)) (Some (snapshot (p_db p))) else p.

(* what a restart on the same path gives *)
Definition restart (p : pstate) : db :=
  match p_file p with
  | Some rs => match load rs with Some d => d | None => empty_db end
  | None => empty_db
  end.

Inductive pevent :=
| ECmd (name : bytes) (now : Z) (args : list bytes)   (* a data command of the table *)
| EFlush                                              (* FLUSHDB / FLUSHALL on this database *)
| ETick.                                              (* the periodic saver runs *)

Definition pstep (p : pstate) (e : pevent) : pstate :=
  match e with
  | ECmd name now args =>
    match data_cmd name with
    | Some f => mkP (fst (f now (p_db p) args)) (p_file p)
    | None => p
    end
  | EFlush => mkP (flush_db (p_db p)) (p_file p)
  | ETick => tick p
  end.

Definition prun (es : list pevent) (p : pstate) : pstate := fold_left pstep es p.
Definition p0 : pstate := mkP empty_db None.

(* ---------- file operations of one save ---------- *)
Inductive fsop :=
| FCreate (name : bytes)                 (* os.Create: create or truncate *)
| FAppend (name : bytes) (r : rec)       (* one gob record appended *)
| FRename (src dst : bytes).             (* os.Rename: atomic replace *)

Definition fs := list (bytes * list rec).

Definition fs_apply (s : fs) (o : fsop) : fs :=
  match o with
  | FCreate n => aset s n []
  | FAppend n r => match aget s n with Some rs => aset s n (rs ++ [r]) | None => s end
  | FRename a b => match aget s a with Some rs => aset (adel s a) b rs | None => s end
  end.

Definition fs_run (ops : list fsop) (s : fs) : fs := fold_left fs_apply ops s.

(* the repaired save: write a temporary file, then rename it over the snapshot *)
Definition save_ops (tmp final : bytes) (d : db) : list fsop :=
  FCreate tmp :: map (FAppend tmp) (snapshot d) ++ [FRename tmp final].

(* the original save: truncate the snapshot and rewrite it in place *)
Definition save_ops_inplace (final : bytes) (d : db) : list fsop :=
  FCreate final :: map (FAppend final) (snapshot d).

(* what a process started after a crash loads from the snapshot name *)
Definition load_file (s : fs) (final : bytes) : option db :=
  match aget s final with Some rs => load rs | None => None end.
