(* PropC03.v — properties of the LIST commands of the model (Exec.v, "lists" part).

   Contents
     0. infrastructure: get_list / put_list algebra, list helpers
     3. LMOVE / RPOPLPUSH   (rotation when src = dst, conservation when src <> dst)
     1. index normalisation against an independent Redis-style spec
        (LRANGE, LTRIM, LINDEX, LSET)
     2. push / pop equations
     7. error inertness of the whole family
     4. LREM      5. LINSERT      6. LPOS      8. a list never exists empty
   Standard library only; no axioms. *)
From RE Require Import Base Resp State Exec Lemmas.
From Coq Require Import List ZArith NArith Lia Bool Permutation Sorted.
Import ListNotations.

(* keywords used in the examples (string literals are confined to this module) *)
Module Kw.
  Import Coq.Strings.String.
  Local Open Scope string_scope.
  Definition LEFT := s2b "LEFT".
  Definition RIGHT := s2b "right".
  Definition BEFORE := s2b "BEFORE".
  Definition AFTER := s2b "after".
  Definition COUNT := s2b "COUNT".
  Definition RANK := s2b "RANK".
  Definition MAXLEN := s2b "MAXLEN".
  Definition e_range : resp := err "ERR index out of range".
  Definition num (z : Z) : bytes := Z_to_bytes z.
  Lemma kw_lpos :
    is_kw RANK "RANK" = true /\
    is_kw COUNT "RANK" = false /\ is_kw COUNT "COUNT" = true /\
    is_kw MAXLEN "RANK" = false /\ is_kw MAXLEN "COUNT" = false /\ is_kw MAXLEN "MAXLEN" = true.
  Proof. repeat split; reflexivity. Qed.
  Lemma kw_before : is_kw BEFORE "BEFORE" = true.
  Proof. reflexivity. Qed.
  Lemma kw_after : is_kw AFTER "BEFORE" = false /\ is_kw AFTER "AFTER" = true.
  Proof. split; reflexivity. Qed.
End Kw.
Open Scope list_scope.
Open Scope Z_scope.

(* ====================================================================== *)
(* 0. Infrastructure                                                       *)
(* ====================================================================== *)

(* a deadline that is not in the past of [now] (None = no deadline) *)
Definition alive (now : Z) (exp : option Z) : bool :=
  match exp with None => true | Some t => negb (t <? now) end.

Lemma get_list_inv now d k l exp :
  get_list now d k = Some (Some (l, exp)) ->
  exists e, lookup now d k = Some e /\ e_val e = VList l /\ e_exp e = exp.
Proof.
  unfold get_list, list_of. intro H.
  destruct (lookup now d k) as [e|] eqn:El; [|discriminate].
  destruct (e_val e) eqn:Ev; try discriminate.
  inversion H; subst. exists e. auto.
Qed.

Lemma lookup_alive now d k e : lookup now d k = Some e -> alive now (e_exp e) = true.
Proof.
  unfold lookup, expired, alive. destruct (aget (d_map d) k) as [e0|]; [|discriminate].
  destruct (e_exp e0) as [t|] eqn:Et.
  - destruct (t <? now) eqn:Elt; [discriminate|]. intro H; inversion H; subst. rewrite Et, Elt. reflexivity.
  - intro H; inversion H; subst. rewrite Et. reflexivity.
Qed.

Lemma get_list_alive now d k l exp :
  get_list now d k = Some (Some (l, exp)) -> alive now exp = true.
Proof.
  intro H. apply get_list_inv in H as (e & Hl & _ & He). subst exp. eapply lookup_alive; eauto.
Qed.

Lemma get_list_missing now d k : get_list now d k = Some None <-> lookup now d k = None.
Proof.
  unfold get_list. destruct (lookup now d k) as [e|].
  - destruct (list_of e); split; discriminate.
  - tauto.
Qed.

Lemma expired_alive now v exp n : alive now exp = true -> expired now (mkE v exp n) = false.
Proof.
  unfold expired, alive; simpl. destruct exp as [t|]; [|reflexivity].
  destruct (t <? now); [discriminate|reflexivity].
Qed.

(* writing a non-empty list stores it; the deadline is kept *)
Lemma get_list_put_list_same now d k l exp :
  l <> [] -> alive now exp = true ->
  get_list now (put_list d k l exp) k = Some (Some (l, exp)).
Proof.
  intros Hl Ha. unfold put_list, put_or_del, get_list.
  destruct l as [|x r]; [congruence|]. cbn [is_empty_agg].
  rewrite lookup_put_same. cbv zeta. rewrite expired_alive by assumption. reflexivity.
Qed.

(* writing the empty list removes the key *)
Lemma lookup_put_list_nil now d k exp : lookup now (put_list d k [] exp) k = None.
Proof. unfold put_list, put_or_del. cbn [is_empty_agg]. apply lookup_del_same. Qed.

Lemma get_list_put_list_nil now d k exp : get_list now (put_list d k [] exp) k = Some None.
Proof. apply get_list_missing. apply lookup_put_list_nil. Qed.

Lemma lookup_put_list_other now d k k' l exp :
  k' <> k -> lookup now (put_list d k l exp) k' = lookup now d k'.
Proof. intro H. unfold put_list. apply lookup_put_or_del_other. exact H. Qed.

Lemma get_list_put_list_other now d k k' l exp :
  k' <> k -> get_list now (put_list d k l exp) k' = get_list now d k'.
Proof. intro H. unfold get_list. rewrite lookup_put_list_other by exact H. reflexivity. Qed.

(* the general form: what [k] holds after [put_list d k l exp] *)
Definition stored (l : list bytes) (exp : option Z) : option (list bytes * option Z) :=
  match l with [] => None | _ => Some (l, exp) end.

Lemma get_list_put_list now d k l exp :
  alive now exp = true -> get_list now (put_list d k l exp) k = Some (stored l exp).
Proof.
  intro Ha. destruct l as [|x r].
  - apply get_list_put_list_nil.
  - apply get_list_put_list_same; [discriminate|exact Ha].
Qed.

(* ---- list helpers ---- *)
Lemma rev_cons_inv {A} (l : list A) x r : rev l = x :: r -> l = rev r ++ [x].
Proof. intro H. rewrite <- (rev_involutive l), H. reflexivity. Qed.

Lemma rev_nil_inv {A} (l : list A) : rev l = [] -> l = [].
Proof. intro H. rewrite <- (rev_involutive l), H. reflexivity. Qed.

Lemma Zlen_app {A} (a b : list A) : Zlen (a ++ b) = Zlen a + Zlen b.
Proof. unfold Zlen. rewrite app_length. lia. Qed.

Lemma Zlen_nonneg {A} (l : list A) : 0 <= Zlen l.
Proof. unfold Zlen. lia. Qed.

(* ====================================================================== *)
(* 3. LMOVE                                                                *)
(* ====================================================================== *)

(* the element LMOVE takes from [l] and what it leaves, as Redis prescribes *)
Definition lm_elem (sl : bool) (l : list bytes) : bytes := if sl then hd [] l else last l [].
Definition lm_rest (sl : bool) (l : list bytes) : list bytes := if sl then tl l else removelast l.
Definition lm_add (dl : bool) (x : bytes) (l : list bytes) : list bytes := if dl then x :: l else l ++ [x].

(* Redis: LMOVE k k LEFT RIGHT = rotate left, RIGHT LEFT = rotate right, else no change *)
Definition lm_rotate (sl dl : bool) (l : list bytes) : list bytes :=
  match sl, dl with
  | true, false => tl l ++ [hd [] l]
  | false, true => last l [] :: removelast l
  | _, _ => l
  end.

Lemma lm_split (sl : bool) (l : list bytes) : l <> [] -> l = (if sl then lm_elem sl l :: lm_rest sl l else lm_rest sl l ++ [lm_elem sl l]).
Proof.
  intro H. destruct sl; unfold lm_elem, lm_rest.
  - destruct l; [congruence|reflexivity].
  - apply app_removelast_last. exact H.
Qed.

Lemma lm_rotate_add sl dl (l : list bytes) : l <> [] -> lm_rotate sl dl l = lm_add dl (lm_elem sl l) (lm_rest sl l).
Proof.
  intro H. pose proof (lm_split sl l H) as E.
  destruct sl, dl; unfold lm_rotate, lm_add, lm_elem, lm_rest in *; try reflexivity; exact E.
Qed.

Lemma lm_rotate_perm sl dl (l : list bytes) : l <> [] -> Permutation l (lm_rotate sl dl l).
Proof.
  intro H. rewrite lm_rotate_add by exact H.
  pose proof (lm_split sl l H) as E. rewrite E at 1.
  destruct sl, dl; unfold lm_add; try apply Permutation_refl.
  - apply Permutation_cons_append.
  - apply Permutation_sym, Permutation_cons_append.
Qed.

Lemma lm_rotate_length sl dl (l : list bytes) : l <> [] -> length (lm_rotate sl dl l) = length l.
Proof. intro H. symmetry. apply Permutation_length, lm_rotate_perm, H. Qed.

Lemma lm_rotate_nonnil sl dl (l : list bytes) : l <> [] -> lm_rotate sl dl l <> [].
Proof.
  intros H E. apply (f_equal (@length bytes)) in E. rewrite lm_rotate_length in E by exact H.
  destruct l; [congruence|discriminate].
Qed.

(* the model's "popped" computation is the Redis pop *)
Lemma lm_popped (sl : bool) (l : list bytes) :
  l <> [] ->
  (if sl then match l with x :: r => Some (x, r) | [] => None end
   else match rev l with x :: r => Some (x, rev r) | [] => None end)
  = Some (lm_elem sl l, lm_rest sl l).
Proof.
  intro H. destruct sl; unfold lm_elem, lm_rest.
  - destruct l; [congruence|reflexivity].
  - destruct (rev l) as [|x r] eqn:E.
    + apply rev_nil_inv in E. congruence.
    + apply rev_cons_inv in E. subst l. rewrite last_last, removelast_last. reflexivity.
Qed.

(* LMOVE k k a b on a non-empty list *)
Theorem lmove_same_rotate now d k l exp sl dl :
  get_list now d k = Some (Some (l, exp)) -> l <> [] ->
  let l' := lm_rotate sl dl l in
  let r := lmove_core now d k k sl dl in
  r = (put_list d k l' exp, RBulk (lm_elem sl l)) /\
  get_list now (fst r) k = Some (Some (l', exp)) /\        (* key still exists, same deadline *)
  Permutation l l' /\ length l' = length l /\
  (forall k', k' <> k -> lookup now (fst r) k' = lookup now d k').
Proof.
  intros Hg Hl l' r.
  assert (Er : r = (put_list d k l' exp, RBulk (lm_elem sl l))).
  { subst r l'. unfold lmove_core. rewrite Hg. rewrite (lm_popped sl l Hl).
    rewrite bytes_eqb_refl. rewrite lm_rotate_add by exact Hl. reflexivity. }
  split; [exact Er|]. rewrite Er. cbn [fst]. repeat split.
  - apply get_list_put_list_same; [apply lm_rotate_nonnil; exact Hl | eapply get_list_alive; eauto].
  - apply lm_rotate_perm; exact Hl.
  - apply lm_rotate_length; exact Hl.
  - intros k' Hk. apply lookup_put_list_other; exact Hk.
Qed.
Print Assumptions lmove_same_rotate.

(* the four Redis cases spelled out *)
Corollary lmove_same_cases l :
  lm_rotate true false l = tl l ++ [hd [] l] /\
  lm_rotate false true l = last l [] :: removelast l /\
  lm_rotate true true l = l /\ lm_rotate false false l = l.
Proof. repeat split. Qed.

Example lmove_same_ex :
  let d := fst (cmd_push false false 0 empty_db [[1%N]; [10%N]; [20%N]; [30%N]]) in
  (lmove_core 5 d [1%N] [1%N] true false = (put_list d [1%N] [[20%N]; [30%N]; [10%N]] None, RBulk [10%N])) /\
  (lmove_core 5 d [1%N] [1%N] false true = (put_list d [1%N] [[30%N]; [10%N]; [20%N]] None, RBulk [30%N])) /\
  get_list 5 d [1%N] = Some (Some ([[10%N]; [20%N]; [30%N]], None)).
Proof. vm_compute. repeat split. Qed.

(* LMOVE src dst a b with src <> dst; dst holds a list or is missing *)
Theorem lmove_distinct now d src dst ls exps dstv sl dl :
  src <> dst ->
  get_list now d src = Some (Some (ls, exps)) -> ls <> [] ->
  get_list now d dst = Some dstv ->
  let ld := match dstv with Some (l2, _) => l2 | None => [] end in
  let dexp := match dstv with Some (_, e2) => e2 | None => None end in
  let x := lm_elem sl ls in
  let ls' := lm_rest sl ls in
  let ld' := lm_add dl x ld in
  let r := lmove_core now d src dst sl dl in
  snd r = RBulk x /\
  ls = (if sl then x :: ls' else ls' ++ [x]) /\            (* x is exactly what left src ... *)
  ld' = (if dl then x :: ld else ld ++ [x]) /\             (* ... and what entered dst *)
  get_list now (fst r) src = Some (stored ls' exps) /\
  (ls' = [] -> lookup now (fst r) src = None) /\           (* emptied source disappears *)
  get_list now (fst r) dst = Some (Some (ld', dexp)) /\
  Permutation (ls ++ ld) (ls' ++ ld') /\
  (forall k, k <> src -> k <> dst -> lookup now (fst r) k = lookup now d k).
Proof.
  intros Hne Hs Hl Hd ld dexp x ls' ld' r.
  assert (Hnb : bytes_eqb src dst = false) by (apply bytes_eqb_neq; exact Hne).
  assert (Er : r = (put_list (put_list d src ls' exps) dst ld' dexp, RBulk x)).
  { subst r. unfold lmove_core. rewrite Hs, Hd. rewrite (lm_popped sl ls Hl). rewrite Hnb.
    subst ld dexp ld' x ls'. destruct dstv as [[l2 e2]|]; reflexivity. }
  assert (Has : alive now exps = true) by (eapply get_list_alive; eauto).
  assert (Had : alive now dexp = true).
  { subst dexp. destruct dstv as [[l2 e2]|]; [eapply get_list_alive; eauto | reflexivity]. }
  assert (Hsplit := lm_split sl ls Hl). fold x ls' in Hsplit.
  rewrite Er. cbn [fst snd]. repeat split.
  - exact Hsplit.
  - rewrite get_list_put_list_other by congruence. apply get_list_put_list; exact Has.
  - intro E. rewrite lookup_put_list_other by congruence. rewrite E. apply lookup_put_list_nil.
  - apply get_list_put_list_same; [|exact Had].
    subst ld'. unfold lm_add. destruct dl; [discriminate|]. destruct ld; discriminate.
  - rewrite Hsplit at 1. subst ld'. unfold lm_add. destruct sl, dl.
    + cbn [app]. apply Permutation_middle.
    + cbn [app]. rewrite app_assoc. apply Permutation_cons_append.
    + rewrite <- app_assoc. cbn [app]. apply Permutation_refl.
    + rewrite <- app_assoc. cbn [app]. apply Permutation_app_head.
      apply Permutation_cons_append.
  - intros k Hk1 Hk2. rewrite !lookup_put_list_other by assumption. reflexivity.
Qed.
Print Assumptions lmove_distinct.

Example lmove_distinct_ex :
  let d0 := fst (cmd_push false false 0 empty_db [[1%N]; [10%N]]) in
  let d := fst (cmd_push false false 0 d0 [[2%N]; [7%N]; [8%N]]) in
  let r := cmd_lmove 5 d [[1%N]; [2%N]; Kw.LEFT; Kw.RIGHT] in
  snd r = RBulk [10%N] /\ lookup 5 (fst r) [1%N] = None /\
  get_list 5 (fst r) [2%N] = Some (Some ([[7%N]; [8%N]; [10%N]], None)).
Proof. vm_compute. repeat split. Qed.

(* the command wrappers are lmove_core *)
Lemma cmd_rpoplpush_core now d s t : cmd_rpoplpush now d [s; t] = lmove_core now d s t false true.
Proof. reflexivity. Qed.

Lemma cmd_lmove_core now d s t a b sl dl :
  side a = Some sl -> side b = Some dl -> cmd_lmove now d [s; t; a; b] = lmove_core now d s t sl dl.
Proof. intros Ha Hb. unfold cmd_lmove. rewrite Ha, Hb. reflexivity. Qed.

(* ====================================================================== *)
(* 1. Index normalisation against an independent Redis-style spec          *)
(* ====================================================================== *)

(* Redis: a negative index counts from the tail *)
Definition redis_norm (n i : Z) : Z := if i <? 0 then n + i else i.

Lemma nth_error_skipn_c03 {A} n (l : list A) i : nth_error (skipn n l) i = nth_error l (n + i).
Proof.
  revert l; induction n as [|n IH]; intro l; [reflexivity|].
  destruct l as [|y r]; [destruct i; reflexivity|]. simpl. apply IH.
Qed.

Lemma nth_error_firstn_c03 {A} n (l : list A) i : (i < n)%nat -> nth_error (firstn n l) i = nth_error l i.
Proof.
  revert l i; induction n as [|n IH]; intros l i H; [lia|].
  destruct l as [|y r]; [reflexivity|]. destruct i as [|i]; [reflexivity|]. simpl. apply IH. lia.
Qed.

Lemma slice_empty {A} (l : list A) a b : b < a -> slice l a b = [].
Proof. intro H. unfold slice. replace (Z.to_nat (b - a + 1)) with O by lia. reflexivity. Qed.

Lemma slice_length {A} (l : list A) a b :
  0 <= a -> a <= b -> b < Zlen l -> length (slice l a b) = Z.to_nat (b - a + 1).
Proof. unfold slice, Zlen. intros H1 H2 H3. rewrite firstn_length, skipn_length. lia. Qed.

Lemma slice_nth {A} (l : list A) a b j :
  (j < Z.to_nat (b - a + 1))%nat -> nth_error (slice l a b) j = nth_error l (Z.to_nat a + j).
Proof. intro H. unfold slice. rewrite nth_error_firstn_c03 by exact H. apply nth_error_skipn_c03. Qed.

Lemma slice_contig {A} (l : list A) a b : exists pre post, l = pre ++ slice l a b ++ post.
Proof.
  exists (firstn (Z.to_nat a) l), (skipn (Z.to_nat (b - a + 1)) (skipn (Z.to_nat a) l)).
  unfold slice. rewrite firstn_skipn, firstn_skipn. reflexivity.
Qed.

(* the Redis range rule: positions p with max 0 (norm s) <= p <= min (n-1) (norm e) *)
Definition range_of (l : list bytes) (s e : Z) : list bytes :=
  let n := Zlen l in
  let a := Z.max 0 (redis_norm n s) in
  let b := Z.min (n - 1) (redis_norm n e) in
  if a <=? b then slice l a b else [].

Ltac split_ifs :=
  repeat match goal with
         | |- context [if ?c then _ else _] =>
           lazymatch c with
           | context [if _ then _ else _] => fail
           | _ => destruct c eqn:?
           end
         end.

Ltac bool2prop :=
  repeat match goal with
         | H : (_ <? _) = true |- _ => apply Z.ltb_lt in H
         | H : (_ <? _) = false |- _ => apply Z.ltb_ge in H
         | H : (_ <=? _) = true |- _ => apply Z.leb_le in H
         | H : (_ <=? _) = false |- _ => apply Z.leb_gt in H
         | H : (_ =? _) = true |- _ => apply Z.eqb_eq in H
         | H : (_ =? _) = false |- _ => apply Z.eqb_neq in H
         | H : (_ || _) = true |- _ => apply orb_true_iff in H
         | H : (_ || _) = false |- _ => apply orb_false_iff in H; destruct H
         | H : (_ && _) = true |- _ => apply andb_true_iff in H; destruct H
         | H : (_ && _) = false |- _ => apply andb_false_iff in H
         end.

Theorem lrange_list_spec l s e : lrange_list l s e = range_of l s e.
Proof.
  unfold lrange_list, range_of, redis_norm. cbv zeta.
  pose proof (Zlen_nonneg l) as Hn.
  split_ifs; bool2prop; try reflexivity;
    try (symmetry; apply slice_empty; lia);
    try (apply slice_empty; lia);
    try (f_equal; lia).
Qed.
Print Assumptions lrange_list_spec.

Theorem ltrim_list_spec l s e : ltrim_list l s e = range_of l s e.
Proof.
  unfold ltrim_list, range_of, redis_norm. cbv zeta.
  pose proof (Zlen_nonneg l) as Hn.
  split_ifs; bool2prop; try reflexivity;
    try (symmetry; apply slice_empty; lia);
    try (apply slice_empty; lia);
    try (f_equal; lia);
    try (repeat match goal with H : _ \/ _ |- _ => destruct H end; bool2prop;
         first [lia | symmetry; apply slice_empty; lia | apply slice_empty; lia | f_equal; lia]).
Qed.
Print Assumptions ltrim_list_spec.

(* start beyond the end trims everything *)
Corollary ltrim_list_start_beyond l s e : Zlen l <= redis_norm (Zlen l) s -> ltrim_list l s e = [].
Proof.
  intro H. rewrite ltrim_list_spec. unfold range_of. cbv zeta.
  destruct (_ <=? _) eqn:E; [|reflexivity]. apply Z.leb_le in E. apply slice_empty. lia.
Qed.

Corollary lrange_ltrim_agree l s e : lrange_list l s e = ltrim_list l s e.
Proof. rewrite lrange_list_spec, ltrim_list_spec. reflexivity. Qed.

(* length, pointwise content and contiguity of the Redis range *)
Theorem range_of_facts l s e :
  let n := Zlen l in
  let a := Z.max 0 (redis_norm n s) in
  let b := Z.min (n - 1) (redis_norm n e) in
  length (range_of l s e) = Z.to_nat (b - a + 1) /\
  (forall j, (j < length (range_of l s e))%nat ->
             nth_error (range_of l s e) j = nth_error l (Z.to_nat a + j)) /\
  (exists pre post, l = pre ++ range_of l s e ++ post).
Proof.
  intros n a b. unfold range_of. cbv zeta. fold n. fold a. fold b.
  destruct (a <=? b) eqn:E.
  - apply Z.leb_le in E.
    assert (Hlen : length (slice l a b) = Z.to_nat (b - a + 1)) by (apply slice_length; fold n; lia).
    split; [exact Hlen|]. split.
    + intros j Hj. apply slice_nth. lia.
    + apply slice_contig.
  - apply Z.leb_gt in E. split; [simpl; lia|]. split.
    + intros j Hj. simpl in Hj. lia.
    + exists [], l. reflexivity.
Qed.
Print Assumptions range_of_facts.

Corollary lrange_list_facts l s e :
  let n := Zlen l in
  let a := Z.max 0 (redis_norm n s) in
  let b := Z.min (n - 1) (redis_norm n e) in
  lrange_list l s e = (if a <=? b then slice l a b else []) /\
  length (lrange_list l s e) = Z.to_nat (b - a + 1) /\
  (forall j, (j < length (lrange_list l s e))%nat ->
             nth_error (lrange_list l s e) j = nth_error l (Z.to_nat a + j)) /\
  (exists pre post, l = pre ++ lrange_list l s e ++ post).
Proof. intros n a b. rewrite lrange_list_spec. split; [reflexivity|]. apply range_of_facts. Qed.

Corollary ltrim_list_facts l s e :
  let n := Zlen l in
  let a := Z.max 0 (redis_norm n s) in
  let b := Z.min (n - 1) (redis_norm n e) in
  ltrim_list l s e = (if a <=? b then slice l a b else []) /\
  length (ltrim_list l s e) = Z.to_nat (b - a + 1) /\
  (forall j, (j < length (ltrim_list l s e))%nat ->
             nth_error (ltrim_list l s e) j = nth_error l (Z.to_nat a + j)) /\
  (exists pre post, l = pre ++ ltrim_list l s e ++ post).
Proof. intros n a b. rewrite ltrim_list_spec. split; [reflexivity|]. apply range_of_facts. Qed.

Example lrange_ex :
  lrange_list [[1%N]; [2%N]; [3%N]; [4%N]; [5%N]] (-3) 100 = [[3%N]; [4%N]; [5%N]] /\
  lrange_list [[1%N]; [2%N]; [3%N]; [4%N]; [5%N]] (-100) (-4) = [[1%N]; [2%N]] /\
  ltrim_list [[1%N]; [2%N]; [3%N]; [4%N]; [5%N]] 1 (-2) = [[2%N]; [3%N]; [4%N]] /\
  ltrim_list [[1%N]; [2%N]; [3%N]] 3 5 = [] /\ lrange_list [[1%N]; [2%N]; [3%N]] 2 1 = [].
Proof. vm_compute. repeat split. Qed.

(* the commands use these functions *)
Theorem cmd_lrange_spec now d k s e sz ez l exp :
  parse_i64 s = Some sz -> parse_i64 e = Some ez -> get_list now d k = Some (Some (l, exp)) ->
  cmd_lrange now d [k; s; e] = (d, RArr (bulks (range_of l sz ez))).
Proof. intros Hs He Hg. unfold cmd_lrange. rewrite Hs, He, Hg, lrange_list_spec. reflexivity. Qed.

Theorem cmd_ltrim_spec now d k s e sz ez l exp :
  parse_i64 s = Some sz -> parse_i64 e = Some ez -> get_list now d k = Some (Some (l, exp)) ->
  l <> [] ->
  let l' := range_of l sz ez in
  snd (cmd_ltrim now d [k; s; e]) = ok /\
  get_list now (fst (cmd_ltrim now d [k; s; e])) k = Some (stored l' exp) /\
  (forall k', k' <> k -> lookup now (fst (cmd_ltrim now d [k; s; e])) k' = lookup now d k').
Proof.
  intros Hs He Hg Hne l'. unfold cmd_ltrim. rewrite Hs, He, Hg, ltrim_list_spec. cbv zeta. fold l'.
  destruct (Nat.eqb (length l') (length l)) eqn:E; cbn [fst snd].
  - apply Nat.eqb_eq in E. split; [reflexivity|]. split; [|reflexivity].
    (* nothing trimmed: l' = l *)
    destruct (range_of_facts l sz ez) as (_ & _ & pre & post & Hc). fold l' in Hc.
    assert (Hl : length l = (length pre + length l' + length post)%nat)
      by (rewrite Hc at 1; rewrite !app_length; lia).
    assert (pre = []) by (destruct pre; [reflexivity | simpl in Hl; lia]).
    assert (post = []) by (destruct post; [reflexivity | simpl in Hl; lia]).
    subst pre post. rewrite app_nil_r in Hc. simpl in Hc. rewrite <- Hc, Hg.
    destruct l; [congruence|reflexivity].
  - split; [reflexivity|]. split.
    + apply get_list_put_list. eapply get_list_alive; eauto.
    + intros k' Hk. apply lookup_put_list_other; exact Hk.
Qed.
Print Assumptions cmd_ltrim_spec.

Example cmd_ltrim_ex :
  let d := fst (cmd_push false false 0 empty_db [[1%N]; [10%N]; [20%N]; [30%N]]) in
  let r := cmd_ltrim 5 d [[1%N]; Kw.num (-2); Kw.num 7] in
  snd r = ok /\ get_list 5 (fst r) [1%N] = Some (Some ([[20%N]; [30%N]], None)) /\
  lookup 5 (fst (cmd_ltrim 5 d [[1%N]; Kw.num 3; Kw.num 7])) [1%N] = None.
Proof. vm_compute. repeat split. Qed.

(* ---- LINDEX ---- *)
Theorem cmd_lindex_spec now d k i iz l exp :
  parse_i64 i = Some iz -> get_list now d k = Some (Some (l, exp)) ->
  let n := Zlen l in
  let j := redis_norm n iz in
  fst (cmd_lindex now d [k; i]) = d /\
  (forall x, snd (cmd_lindex now d [k; i]) = RBulk x <->
             (0 <= j < n /\ nth_error l (Z.to_nat j) = Some x)) /\
  (~ (0 <= j < n) -> snd (cmd_lindex now d [k; i]) = RNil) /\
  (0 <= j < n -> exists x, snd (cmd_lindex now d [k; i]) = RBulk x).
Proof.
  intros Hp Hg n j. unfold cmd_lindex. rewrite Hp, Hg. cbv zeta.
  change (if iz <? 0 then Zlen l + iz else iz) with j. unfold nthZ. fold n.
  destruct ((j <? 0) || (n <=? j)) eqn:E; bool2prop.
  - cbn [fst snd]. split; [reflexivity|]. split; [|split].
    + intro x. split; [discriminate|]. intros [Hx _]. lia.
    + reflexivity.
    + intro Hx. lia.
  - assert (Hlt : (Z.to_nat j < length l)%nat) by (unfold n, Zlen in *; lia).
    destruct (nth_error l (Z.to_nat j)) as [x|] eqn:En.
    + cbn [fst snd]. split; [reflexivity|]. split; [|split].
      * intro y. split; [intro Hy; inversion Hy; subst; split; [lia|reflexivity] | intros [_ Hy]; congruence].
      * intro Hy. lia.
      * intros _. exists x. reflexivity.
    + apply nth_error_None in En. lia.
Qed.
Print Assumptions cmd_lindex_spec.

Example cmd_lindex_ex :
  let d := fst (cmd_push false false 0 empty_db [[1%N]; [10%N]; [20%N]; [30%N]]) in
  snd (cmd_lindex 5 d [[1%N]; Kw.num (-1)]) = RBulk [30%N] /\
  snd (cmd_lindex 5 d [[1%N]; Kw.num 1]) = RBulk [20%N] /\
  snd (cmd_lindex 5 d [[1%N]; Kw.num 3]) = RNil /\
  snd (cmd_lindex 5 d [[1%N]; Kw.num (-4)]) = RNil.
Proof. vm_compute. repeat split. Qed.

(* ---- LSET ---- *)
Lemma replace_nth_length {A} (l : list A) n x : length (replace_nth l n x) = length l.
Proof.
  revert n; induction l as [|y r IH]; intro n; [reflexivity|].
  destruct n; simpl; [reflexivity|]. rewrite IH. reflexivity.
Qed.

Lemma replace_nth_same {A} (l : list A) n x : (n < length l)%nat -> nth_error (replace_nth l n x) n = Some x.
Proof.
  revert n; induction l as [|y r IH]; intros n H; [simpl in H; lia|].
  destruct n; simpl; [reflexivity|]. apply IH. simpl in H. lia.
Qed.

Lemma replace_nth_other {A} (l : list A) n p x : p <> n -> nth_error (replace_nth l n x) p = nth_error l p.
Proof.
  revert n p; induction l as [|y r IH]; intros n p H; [reflexivity|].
  destruct n, p; simpl; try reflexivity; try congruence. apply IH. congruence.
Qed.

Theorem cmd_lset_spec now d k i iz v l exp :
  parse_i64 i = Some iz -> get_list now d k = Some (Some (l, exp)) ->
  let n := Zlen l in
  let j := redis_norm n iz in
  let r := cmd_lset now d [k; i; v] in
  (snd r = ok <-> 0 <= j < n) /\
  (0 <= j < n ->
     let l' := replace_nth l (Z.to_nat j) v in
     r = (put_list d k l' exp, ok) /\
     get_list now (fst r) k = Some (Some (l', exp)) /\
     length l' = length l /\
     nth_error l' (Z.to_nat j) = Some v /\
     (forall p, p <> Z.to_nat j -> nth_error l' p = nth_error l p) /\
     (forall k', k' <> k -> lookup now (fst r) k' = lookup now d k')) /\
  (~ (0 <= j < n) -> exists s, r = (d, RErr s)).
Proof.
  intros Hp Hg n j r. subst r. unfold cmd_lset. rewrite Hp, Hg. cbv zeta.
  change (if iz <? 0 then Zlen l + iz else iz) with j. fold n.
  destruct ((j <? 0) || (n <=? j)) eqn:E; bool2prop.
  - split; [|split].
    + cbn [snd]. split; [discriminate | lia].
    + lia.
    + intros _. eexists. reflexivity.
  - assert (Hlt : (Z.to_nat j < length l)%nat) by (unfold n, Zlen in *; lia).
    split; [|split].
    + cbn [snd]. split; [lia | reflexivity].
    + intros _. set (l' := replace_nth l (Z.to_nat j) v). cbn [fst]. split; [reflexivity|]. repeat split.
      * apply get_list_put_list_same; [|eapply get_list_alive; eauto].
        intro E. apply (f_equal (@length bytes)) in E. subst l'.
        rewrite replace_nth_length in E. simpl in E. lia.
      * apply replace_nth_length.
      * apply replace_nth_same; exact Hlt.
      * intros p Hp'. apply replace_nth_other; exact Hp'.
      * intros k' Hk. apply lookup_put_list_other; exact Hk.
    + lia.
Qed.
Print Assumptions cmd_lset_spec.

Example cmd_lset_ex :
  let d := fst (cmd_push false false 0 empty_db [[1%N]; [10%N]; [20%N]; [30%N]]) in
  get_list 5 (fst (cmd_lset 5 d [[1%N]; Kw.num (-3); [99%N]])) [1%N]
    = Some (Some ([[99%N]; [20%N]; [30%N]], None)) /\
  cmd_lset 5 d [[1%N]; Kw.num 3; [99%N]] = (d, Kw.e_range) /\
  cmd_lset 5 d [[1%N]; Kw.num (-4); [99%N]] = (d, Kw.e_range).
Proof. vm_compute. repeat split. Qed.

(* ====================================================================== *)
(* 2. Push / pop equations                                                 *)
(* ====================================================================== *)

Theorem cmd_push_spec (lft : bool) xonly now d k v vs l exp :
  get_list now d k = Some (Some (l, exp)) ->
  let l' := if lft then rev (v :: vs) ++ l else l ++ (v :: vs) in
  let r := cmd_push lft xonly now d (k :: v :: vs) in
  r = (put_list d k l' exp, RInt (Zlen l')) /\
  Zlen l' = Zlen l + Zlen (v :: vs) /\
  get_list now (fst r) k = Some (Some (l', exp)) /\
  (forall k', k' <> k -> lookup now (fst r) k' = lookup now d k').
Proof.
  intros Hg l' r. subst r. unfold cmd_push. rewrite Hg. fold l'. cbn [fst].
  split; [reflexivity|]. split; [|split].
  - subst l'. destruct lft; rewrite Zlen_app; unfold Zlen; rewrite ?rev_length; lia.
  - apply get_list_put_list_same; [|eapply get_list_alive; eauto].
    subst l'. destruct lft.
    + simpl. intro E. apply app_eq_nil in E as [E _]. apply app_eq_nil in E as [_ E]. discriminate.
    + intro E. apply app_eq_nil in E as [_ E]. discriminate.
  - intros k' Hk. apply lookup_put_list_other; exact Hk.
Qed.
Print Assumptions cmd_push_spec.

(* on a missing key: LPUSH/RPUSH create, LPUSHX/RPUSHX do nothing *)
Theorem cmd_push_missing (lft xonly : bool) now d k v vs :
  get_list now d k = Some None ->
  let l' := if lft then rev (v :: vs) else v :: vs in
  let r := cmd_push lft xonly now d (k :: v :: vs) in
  if xonly then r = (d, RInt 0)
  else r = (put_list d k l' None, RInt (Zlen (v :: vs))) /\
       get_list now (fst r) k = Some (Some (l', None)).
Proof.
  intros Hg l' r. subst r. unfold cmd_push. rewrite Hg. destruct xonly; [reflexivity|].
  fold l'. cbn [fst]. split.
  - f_equal. f_equal. subst l'. unfold Zlen. destruct lft; [rewrite rev_length|]; reflexivity.
  - apply get_list_put_list_same; [|reflexivity]. subst l'. destruct lft; [|discriminate].
    simpl. intro E. apply app_eq_nil in E as [_ E]. discriminate.
Qed.

Example cmd_push_ex :
  let d := fst (cmd_push false false 0 empty_db [[1%N]; [10%N]]) in
  get_list 5 (fst (cmd_push true false 5 d [[1%N]; [7%N]; [8%N]; [9%N]])) [1%N]
    = Some (Some ([[9%N]; [8%N]; [7%N]; [10%N]], None)) /\
  snd (cmd_push false true 5 d [[1%N]; [7%N]; [8%N]]) = RInt 3 /\
  cmd_push false true 5 d [[2%N]; [7%N]] = (d, RInt 0).
Proof. vm_compute. repeat split. Qed.

(* LPOP k / RPOP k *)
Theorem cmd_pop1_spec (lft : bool) now d k l exp :
  get_list now d k = Some (Some (l, exp)) -> l <> [] ->
  let x := if lft then hd [] l else last l [] in
  let l' := if lft then tl l else removelast l in
  let r := cmd_pop lft now d [k] in
  r = (put_list d k l' exp, RBulk x) /\
  l = (if lft then x :: l' else l' ++ [x]) /\
  get_list now (fst r) k = Some (stored l' exp) /\
  (l' = [] -> lookup now (fst r) k = None) /\
  (forall k', k' <> k -> lookup now (fst r) k' = lookup now d k').
Proof.
  intros Hg Hl x l' r.
  assert (Er : r = (put_list d k l' exp, RBulk x)).
  { subst r x l'. unfold cmd_pop. rewrite Hg. destruct lft.
    - destruct l; [congruence|reflexivity].
    - destruct (rev l) as [|y t] eqn:E.
      + apply rev_nil_inv in E. congruence.
      + apply rev_cons_inv in E. subst l. rewrite last_last, removelast_last. reflexivity. }
  split; [exact Er|]. rewrite Er. cbn [fst]. split; [|split; [|split]].
  - exact (lm_split lft l Hl).
  - apply get_list_put_list. eapply get_list_alive; eauto.
  - intro E. rewrite E. apply lookup_put_list_nil.
  - intros k' Hk. apply lookup_put_list_other; exact Hk.
Qed.
Print Assumptions cmd_pop1_spec.

(* LPOP k 0 / RPOP k 0 on a list: nothing is taken and nothing is modified *)
Theorem cmd_pop0_spec (lft : bool) now d k c l exp :
  parse_i64 c = Some 0 -> get_list now d k = Some (Some (l, exp)) ->
  cmd_pop lft now d [k; c] = (d, RArr []).
Proof.
  intros Hp Hg. unfold cmd_pop. rewrite Hp. cbn [Z.ltb Z.compare]. rewrite Hg. reflexivity.
Qed.
Print Assumptions cmd_pop0_spec.

(* LPOP k c / RPOP k c with c > 0; the spec has no clamp *)
Theorem cmd_popn_spec (lft : bool) now d k c cz l exp :
  parse_i64 c = Some cz -> 0 < cz -> get_list now d k = Some (Some (l, exp)) ->
  let m := Z.to_nat cz in
  let out := if lft then firstn m l else firstn m (rev l) in
  let l' := if lft then skipn m l else firstn (length l - m) l in
  let r := cmd_pop lft now d [k; c] in
  r = (put_list d k l' exp, RArr (bulks out)) /\
  l = (if lft then out ++ l' else l' ++ rev out) /\
  get_list now (fst r) k = Some (stored l' exp) /\
  (Zlen l <= cz -> l' = [] /\ lookup now (fst r) k = None) /\
  (forall k', k' <> k -> lookup now (fst r) k' = lookup now d k').
Proof.
  intros Hp Hc Hg m out l' r.
  assert (Er : r = (put_list d k l' exp, RArr (bulks out))).
  { subst r out l'. unfold cmd_pop. rewrite Hp. destruct (cz <? 0) eqn:E; [bool2prop; lia|].
    rewrite Hg. cbv zeta.
    destruct (cz =? 0) eqn:E0; [apply Z.eqb_eq in E0; lia|].
    destruct (Z.le_gt_cases cz (Zlen l)) as [Hle|Hgt].
    - replace (Z.to_nat (Z.min cz (Zlen l))) with m by (subst m; lia). destruct lft; reflexivity.
    - replace (Z.to_nat (Z.min cz (Zlen l))) with (length l) by (unfold Zlen in *; lia).
      assert (Hm : (length l <= m)%nat) by (unfold Zlen in *; lia).
      destruct lft.
      + rewrite !skipn_all2, !firstn_all2 by lia. reflexivity.
      + rewrite (firstn_all2 (rev l)) by (rewrite rev_length; lia).
        rewrite (firstn_all2 (n:=m) (rev l)) by (rewrite rev_length; lia).
        replace (length l - m)%nat with (length l - length l)%nat by lia. reflexivity. }
  split; [exact Er|]. rewrite Er. cbn [fst]. split; [|split; [|split]].
  - subst out l'. destruct lft.
    + symmetry. apply firstn_skipn.
    + rewrite firstn_rev, rev_involutive. symmetry. apply firstn_skipn.
  - apply get_list_put_list. eapply get_list_alive; eauto.
  - intro Hall. assert (E : l' = []).
    { subst l'. assert (Hm : (length l <= m)%nat) by (unfold Zlen in *; lia). destruct lft.
      - apply skipn_all2; exact Hm.
      - replace (length l - m)%nat with O by lia. reflexivity. }
    split; [exact E|]. rewrite E. apply lookup_put_list_nil.
  - intros k' Hk. apply lookup_put_list_other; exact Hk.
Qed.
Print Assumptions cmd_popn_spec.

Example cmd_pop_ex :
  let d := fst (cmd_push false false 0 empty_db [[1%N]; [10%N]; [20%N]; [30%N]]) in
  cmd_pop false 5 d [[1%N]] = (put_list d [1%N] [[10%N]; [20%N]] None, RBulk [30%N]) /\
  cmd_pop false 5 d [[1%N]; Kw.num 2] = (put_list d [1%N] [[10%N]] None, RArr [RBulk [30%N]; RBulk [20%N]]) /\
  snd (cmd_pop true 5 d [[1%N]; Kw.num 9]) = RArr [RBulk [10%N]; RBulk [20%N]; RBulk [30%N]] /\
  lookup 5 (fst (cmd_pop true 5 d [[1%N]; Kw.num 9])) [1%N] = None.
Proof. vm_compute. repeat split. Qed.

(* ====================================================================== *)
(* 7. Error inertness: a command that answers with an error changed nothing *)
(* ====================================================================== *)

Ltac case_all :=
  repeat (match goal with
          | |- context [match ?x with _ => _ end] =>
            lazymatch x with
            | context [match _ with _ => _ end] => fail
            | _ => destruct x eqn:?
            end
          end; cbn [fst snd]; try (intros; discriminate); try (intros; reflexivity)).

Definition err_inert (f : Z -> db -> list bytes -> res) : Prop :=
  forall now d args s, snd (f now d args) = RErr s -> fst (f now d args) = d.

Lemma inert_push b1 b2 : err_inert (cmd_push b1 b2).
Proof. intros now d args s. unfold cmd_push. case_all. Qed.
Lemma inert_pop b : err_inert (cmd_pop b).
Proof. intros now d args s. unfold cmd_pop. case_all. Qed.
Lemma inert_llen : err_inert cmd_llen.
Proof. intros now d args s. unfold cmd_llen. case_all. Qed.
Lemma inert_lindex : err_inert cmd_lindex.
Proof. intros now d args s. unfold cmd_lindex. case_all. Qed.
Lemma inert_lrange : err_inert cmd_lrange.
Proof. intros now d args s. unfold cmd_lrange. case_all. Qed.
Lemma inert_lset : err_inert cmd_lset.
Proof. intros now d args s. unfold cmd_lset. case_all. Qed.
Lemma inert_linsert : err_inert cmd_linsert.
Proof. intros now d args s. unfold cmd_linsert. case_all. Qed.
Lemma inert_lrem : err_inert cmd_lrem.
Proof. intros now d args s. unfold cmd_lrem. case_all. Qed.
Lemma inert_ltrim : err_inert cmd_ltrim.
Proof. intros now d args s. unfold cmd_ltrim. case_all. Qed.
Lemma inert_lpos : err_inert cmd_lpos.
Proof. intros now d args s. unfold cmd_lpos. case_all. Qed.

Lemma inert_lmove_core now d src dst sl dl s :
  snd (lmove_core now d src dst sl dl) = RErr s -> fst (lmove_core now d src dst sl dl) = d.
Proof. unfold lmove_core. case_all. Qed.

Lemma inert_lmove : err_inert cmd_lmove.
Proof.
  intros now d args s. unfold cmd_lmove.
  repeat (match goal with
          | |- context [match ?x with _ => _ end] =>
            lazymatch x with
            | context [match _ with _ => _ end] => fail
            | context [lmove_core] => fail
            | _ => destruct x eqn:?
            end
          end; cbn [fst snd]; try (intros; discriminate); try (intros; reflexivity)).
  apply inert_lmove_core.
Qed.

Lemma inert_rpoplpush : err_inert cmd_rpoplpush.
Proof.
  intros now d args s. unfold cmd_rpoplpush.
  destruct args as [|a [|b [|c r]]]; cbn [fst snd]; try (intros; reflexivity).
  apply inert_lmove_core.
Qed.

Lemma inert_lmpop_keys now d keys lft count s :
  snd (lmpop_keys now d keys lft count) = RErr s -> fst (lmpop_keys now d keys lft count) = d.
Proof.
  induction keys as [|k r IH]; cbn [lmpop_keys]; [intros; reflexivity|].
  destruct (get_list now d k) as [[[l exp]|]|]; cbn [fst snd].
  - cbv zeta. destruct lft; cbn [fst snd]; intros; discriminate.
  - exact IH.
  - intros; reflexivity.
Qed.

Lemma inert_lmpop : err_inert cmd_lmpop.
Proof.
  intros now d args s. unfold cmd_lmpop.
  repeat (match goal with
          | |- context [match ?x with _ => _ end] =>
            lazymatch x with
            | context [match _ with _ => _ end] => fail
            | context [lmpop_keys] => fail
            | _ => destruct x eqn:?
            end
          end; cbn [fst snd]; try (intros; discriminate); try (intros; reflexivity);
          try apply inert_lmpop_keys).
Qed.

Definition list_family : list (Z -> db -> list bytes -> res) :=
  [ cmd_push true true; cmd_push true false; cmd_push false true; cmd_push false false;
    cmd_pop true; cmd_pop false; cmd_llen; cmd_lindex; cmd_lrange; cmd_lset; cmd_linsert;
    cmd_lrem; cmd_ltrim; cmd_lpos; cmd_lmove; cmd_rpoplpush; cmd_lmpop ].

Theorem list_family_err_inert :
  forall f, In f list_family ->
  forall now d args s, snd (f now d args) = RErr s -> fst (f now d args) = d.
Proof.
  intros f Hin. unfold list_family in Hin. simpl in Hin.
  repeat (destruct Hin as [Hin|Hin]; [subst f|]); try contradiction;
    first [ apply inert_push | apply inert_pop | apply inert_llen | apply inert_lindex
          | apply inert_lrange | apply inert_lset | apply inert_linsert | apply inert_lrem
          | apply inert_ltrim | apply inert_lpos | apply inert_lmove | apply inert_rpoplpush
          | apply inert_lmpop ].
Qed.
Print Assumptions list_family_err_inert.

(* the hypothesis is met: e.g. WRONGTYPE and range errors *)
Example err_inert_ex :
  let d := fst (cmd_set 0 empty_db [[1%N]; [65%N]]) in
  let d2 := fst (cmd_push false false 0 d [[2%N]; [10%N]]) in
  (exists s, snd (cmd_push true false 5 d [[1%N]; [7%N]]) = RErr s) /\
  (exists s, snd (cmd_lmove 5 d2 [[2%N]; [1%N]; Kw.LEFT; Kw.LEFT]) = RErr s) /\
  (exists s, snd (cmd_lset 5 d2 [[2%N]; Kw.num 1; [7%N]]) = RErr s) /\
  (exists s, snd (cmd_lmpop 5 d2 [Kw.num 2; [3%N]; [1%N]; Kw.LEFT]) = RErr s).
Proof. vm_compute. repeat split; eexists; reflexivity. Qed.

(* ====================================================================== *)
(* 4. LREM                                                                 *)
(* ====================================================================== *)

Definition occ (x : bytes) (l : list bytes) : nat := count_occ bytes_eq_dec l x.
Definition not_x (x : bytes) : bytes -> bool := fun y => negb (bytes_eqb y x).

(* spec: cut [l] right after the n-th occurrence of x (the whole list if there are fewer) *)
Fixpoint split_occ (n : nat) (x : bytes) (l : list bytes) : list bytes * list bytes :=
  match l with
  | [] => ([], [])
  | y :: r =>
    match n with
    | O => ([], l)
    | S n' => let '(a, b) := split_occ (if bytes_eqb y x then n' else n) x r in (y :: a, b)
    end
  end.

(* spec: drop the first n occurrences of x *)
Definition remove_first (n : nat) (x : bytes) (l : list bytes) : list bytes :=
  filter (not_x x) (fst (split_occ n x l)) ++ snd (split_occ n x l).

Lemma occ_cons x y l : occ x (y :: l) = ((if bytes_eqb y x then 1 else 0) + occ x l)%nat.
Proof.
  unfold occ. simpl. destruct (bytes_eq_dec y x) as [E|E].
  - apply bytes_eqb_eq in E. rewrite E. reflexivity.
  - apply bytes_eqb_neq in E. rewrite E. reflexivity.
Qed.

(* split_occ really is "cut after the n-th occurrence" *)
Lemma split_occ_spec n x l :
  let a := fst (split_occ n x l) in
  let b := snd (split_occ n x l) in
  l = a ++ b /\
  occ x a = Nat.min n (occ x l) /\
  (n = O -> a = []) /\
  ((0 < n <= occ x l)%nat -> exists a0, a = a0 ++ [x]) /\
  ((occ x l < n)%nat -> b = []).
Proof.
  revert n; induction l as [|y r IH]; intro n.
  - simpl. repeat split; auto; try lia.
  - destruct n as [|n'].
    + simpl. repeat split; auto; try lia.
    + cbn [split_occ]. rewrite occ_cons.
      destruct (bytes_eqb y x) eqn:E.
      * specialize (IH n'). destruct (split_occ n' x r) as [a b]. cbn [fst snd] in *.
        destruct IH as (I1 & I2 & I3 & I4 & I5). apply bytes_eqb_eq in E. subst y.
        split; [simpl; congruence|]. split; [rewrite occ_cons, bytes_eqb_refl; lia|].
        split; [lia|]. split.
        -- intro H. destruct n' as [|n''].
           ++ rewrite (I3 eq_refl). exists []. reflexivity.
           ++ destruct I4 as [a0 Ha0]; [lia|]. exists (x :: a0). rewrite Ha0. reflexivity.
        -- intro H. apply I5. lia.
      * specialize (IH (S n')). destruct (split_occ (S n') x r) as [a b]. cbn [fst snd] in *.
        destruct IH as (I1 & I2 & I3 & I4 & I5).
        split; [simpl; congruence|]. split; [rewrite occ_cons, E; lia|].
        split; [lia|]. split.
        -- intro H. destruct I4 as [a0 Ha0]; [lia|]. exists (y :: a0). rewrite Ha0. reflexivity.
        -- intro H. apply I5. lia.
Qed.

Lemma lrem_head_spec n x l :
  lrem_head n x l = (remove_first n x l, Z.of_nat (Nat.min n (occ x l))).
Proof.
  unfold remove_first. revert n; induction l as [|y r IH]; intro n.
  - simpl. f_equal. unfold occ. simpl. lia.
  - destruct n as [|n'].
    + reflexivity.
    + cbn [lrem_head split_occ]. rewrite occ_cons. destruct (bytes_eqb y x) eqn:E.
      * rewrite IH. destruct (split_occ n' x r) as [a b]. cbn [fst snd filter].
        unfold not_x. rewrite E. cbn [negb]. f_equal. lia.
      * rewrite IH. destruct (split_occ (S n') x r) as [a b]. cbn [fst snd filter].
        unfold not_x. rewrite E. cbn [negb]. f_equal.
Qed.

Lemma filter_idem {A} (f : A -> bool) l : filter f (filter f l) = filter f l.
Proof.
  induction l as [|y r IH]; [reflexivity|]. simpl. destruct (f y) eqn:E; [|exact IH].
  simpl. rewrite E, IH. reflexivity.
Qed.

Lemma filter_not_x_length x l : (length (filter (not_x x) l) + occ x l = length l)%nat.
Proof.
  induction l as [|y r IH]; [reflexivity|]. rewrite occ_cons. cbn [filter]. unfold not_x at 1.
  destruct (bytes_eqb y x); cbn [negb length]; lia.
Qed.

Lemma occ_filter_not_x x l : occ x (filter (not_x x) l) = O.
Proof.
  induction l as [|y r IH]; [reflexivity|]. cbn [filter]. unfold not_x at 1.
  destruct (bytes_eqb y x) eqn:E; cbn [negb]; [exact IH|]. rewrite occ_cons, E, IH. reflexivity.
Qed.

Lemma filter_noocc x l : occ x l = O -> filter (not_x x) l = l.
Proof.
  induction l as [|y r IH]; [reflexivity|]. rewrite occ_cons. cbn [filter]. unfold not_x at 1.
  destruct (bytes_eqb y x); cbn [negb]; [lia|]. intro H. rewrite IH by exact H. reflexivity.
Qed.

Lemma occ_app x a b : occ x (a ++ b) = (occ x a + occ x b)%nat.
Proof. apply count_occ_app. Qed.

Lemma occ_rev x l : occ x (rev l) = occ x l.
Proof.
  induction l as [|y r IH]; [reflexivity|]. cbn [rev]. rewrite occ_app, IH, !occ_cons.
  change (occ x []) with O. lia.
Qed.

Theorem lrem_head_props n x l l' c :
  lrem_head n x l = (l', c) ->
  let a := fst (split_occ n x l) in
  let b := snd (split_occ n x l) in
  c = Z.of_nat (Nat.min n (occ x l)) /\
  l = a ++ b /\ l' = filter (not_x x) a ++ b /\       (* only the prefix up to the n-th x is touched *)
  filter (not_x x) l' = filter (not_x x) l /\         (* the other elements keep their order *)
  Z.of_nat (length l') + c = Z.of_nat (length l) /\
  occ x l' = (occ x l - n)%nat.
Proof.
  intros H a b. rewrite lrem_head_spec in H. inversion H as [[H1 H2]]. clear H H2.
  destruct (split_occ_spec n x l) as (S1 & S2 & _). fold a in S1, S2. fold b in S1.
  unfold remove_first. fold a. fold b.
  split; [reflexivity|]. split; [exact S1|]. split; [reflexivity|]. split; [|split].
  - pose proof (f_equal (filter (not_x x)) S1) as F1. rewrite filter_app in F1.
    rewrite F1, !filter_app, filter_idem. reflexivity.
  - rewrite app_length. pose proof (filter_not_x_length x a) as L.
    pose proof (f_equal (@length bytes) S1) as L1. rewrite app_length in L1. lia.
  - rewrite occ_app, occ_filter_not_x.
    pose proof (f_equal (occ x) S1) as E. rewrite occ_app in E. lia.
Qed.
Print Assumptions lrem_head_props.

Example lrem_head_ex :
  lrem_head 2 [1%N] [[1%N]; [2%N]; [1%N]; [3%N]; [1%N]] = ([[2%N]; [3%N]; [1%N]], 2) /\
  split_occ 2 [1%N] [[1%N]; [2%N]; [1%N]; [3%N]; [1%N]] = ([[1%N]; [2%N]; [1%N]], [[3%N]; [1%N]]).
Proof. vm_compute. split; reflexivity. Qed.

Lemma not_x_of x y b : bytes_eqb y x = b -> not_x x y = negb b.
Proof. unfold not_x. intros ->. reflexivity. Qed.

Lemma remove_first_ge n x l : (occ x l <= n)%nat -> remove_first n x l = filter (not_x x) l.
Proof.
  unfold remove_first. revert n; induction l as [|y r IH]; intros n H; [reflexivity|].
  rewrite occ_cons in H. destruct n as [|n'].
  - symmetry. change (filter (not_x x) (y :: r) = y :: r). apply filter_noocc. rewrite occ_cons. lia.
  - cbn [split_occ]. destruct (bytes_eqb y x) eqn:E.
    + specialize (IH n'). destruct (split_occ n' x r) as [a b]. cbn [fst snd filter] in *.
      rewrite !(not_x_of x y _ E). cbn [negb]. apply IH. lia.
    + specialize (IH (S n')). destruct (split_occ (S n') x r) as [a b]. cbn [fst snd filter] in *.
      rewrite !(not_x_of x y _ E). cbn [negb app]. f_equal. apply IH. lia.
Qed.

Lemma remove_first_clamp n1 n2 x l :
  Nat.min n1 (occ x l) = Nat.min n2 (occ x l) -> remove_first n1 x l = remove_first n2 x l.
Proof.
  intro H. destruct (Nat.lt_ge_cases n1 (occ x l)) as [Hlt|Hge].
  - assert (n2 = n1) by lia. subst; reflexivity.
  - rewrite !remove_first_ge by lia. reflexivity.
Qed.

(* LREM k c x: c > 0 removes the first c, c < 0 the last |c|, c = 0 all occurrences *)
Theorem cmd_lrem_spec now d k c cz x l exp :
  parse_i64 c = Some cz -> get_list now d k = Some (Some (l, exp)) ->
  let want := if cz =? 0 then occ x l else Z.to_nat (Z.abs cz) in
  let m := Nat.min want (occ x l) in
  let l' := if 0 <=? cz then remove_first want x l else rev (remove_first want x (rev l)) in
  let r := cmd_lrem now d [k; c; x] in
  r = (if Nat.eqb m 0 then d else put_list d k l' exp, RInt (Z.of_nat m)) /\
  (l <> [] -> get_list now (fst r) k = Some (stored l' exp)) /\
  (forall k', k' <> k -> lookup now (fst r) k' = lookup now d k').
Proof.
  intros Hp Hg want m l' r.
  set (lim := if cz =? 0 then length l else clamp (Z.abs cz) (length l)).
  assert (Hocc : (occ x l <= length l)%nat) by (pose proof (filter_not_x_length x l); lia).
  assert (Hmin : Nat.min lim (occ x l) = Nat.min want (occ x l)).
  { subst lim want. unfold clamp. destruct (cz =? 0); lia. }
  assert (Er : r = (if Nat.eqb m 0 then d else put_list d k l' exp, RInt (Z.of_nat m))).
  { subst r. unfold cmd_lrem. rewrite Hp, Hg. cbv zeta. fold lim. subst l'.
    destruct (0 <=? cz) eqn:Ec.
    - rewrite lrem_head_spec. rewrite Hmin. fold m.
      rewrite (remove_first_clamp lim want) by exact Hmin.
      destruct (Nat.eqb m 0) eqn:Em.
      + apply Nat.eqb_eq in Em. rewrite Em. reflexivity.
      + apply Nat.eqb_neq in Em. destruct (Z.of_nat m =? 0) eqn:Ez; [bool2prop; lia|reflexivity].
    - rewrite lrem_head_spec. rewrite occ_rev. rewrite Hmin. fold m.
      rewrite (remove_first_clamp lim want) by (rewrite occ_rev; exact Hmin).
      destruct (Nat.eqb m 0) eqn:Em.
      + apply Nat.eqb_eq in Em. rewrite Em. reflexivity.
      + apply Nat.eqb_neq in Em. destruct (Z.of_nat m =? 0) eqn:Ez; [bool2prop; lia|reflexivity]. }
  split; [exact Er|]. rewrite Er. cbn [fst]. split.
  - intro Hne. destruct (Nat.eqb m 0) eqn:Em.
    + apply Nat.eqb_eq in Em.
      assert (H0 : occ x l = O \/ want = O) by lia.
      assert (El : l' = l).
      { subst l'. destruct H0 as [H0|H0].
        - destruct (0 <=? cz).
          + rewrite remove_first_ge by lia. apply filter_noocc; exact H0.
          + rewrite remove_first_ge by (rewrite occ_rev; lia).
            rewrite filter_noocc by (rewrite occ_rev; exact H0). apply rev_involutive.
        - rewrite H0. unfold remove_first.
          destruct (0 <=? cz).
          + destruct l; reflexivity.
          + replace (filter (not_x x) (fst (split_occ 0 x (rev l))) ++ snd (split_occ 0 x (rev l)))
              with (rev l) by (destruct (rev l); reflexivity).
            apply rev_involutive. }
      rewrite El, Hg. destruct l; [congruence|reflexivity].
    + apply get_list_put_list. eapply get_list_alive; eauto.
  - intros k' Hk. destruct (Nat.eqb m 0); [reflexivity|]. apply lookup_put_list_other; exact Hk.
Qed.
Print Assumptions cmd_lrem_spec.

Example cmd_lrem_ex :
  let d := fst (cmd_push false false 0 empty_db [[1%N]; [1%N]; [2%N]; [1%N]; [3%N]; [1%N]]) in
  get_list 5 (fst (cmd_lrem 5 d [[1%N]; Kw.num (-2); [1%N]])) [1%N] = Some (Some ([[1%N]; [2%N]; [3%N]], None)) /\
  get_list 5 (fst (cmd_lrem 5 d [[1%N]; Kw.num 2; [1%N]])) [1%N] = Some (Some ([[2%N]; [3%N]; [1%N]], None)) /\
  cmd_lrem 5 d [[1%N]; Kw.num 0; [1%N]] = (put_list d [1%N] [[2%N]; [3%N]] None, RInt 3) /\
  cmd_lrem 5 d [[1%N]; Kw.num 0; [9%N]] = (d, RInt 0).
Proof. vm_compute. repeat split. Qed.

(* ====================================================================== *)
(* 5. LINSERT                                                              *)
(* ====================================================================== *)

Lemma insert_at_app (before : bool) p x a b :
  ~ In p a ->
  insert_at before p x (a ++ p :: b) = Some (if before then a ++ x :: p :: b else a ++ p :: x :: b).
Proof.
  induction a as [|y a IH]; intro Hn.
  - cbn [app insert_at]. rewrite bytes_eqb_refl. destruct before; reflexivity.
  - cbn [app insert_at]. destruct (bytes_eqb y p) eqn:E.
    + apply bytes_eqb_eq in E. subst y. exfalso. apply Hn. left. reflexivity.
    + rewrite IH by (intro Hi; apply Hn; right; exact Hi). destruct before; reflexivity.
Qed.

Theorem insert_at_some (before : bool) p x l l' :
  insert_at before p x l = Some l' <->
  exists a b, l = a ++ p :: b /\ ~ In p a /\
              l' = (if before then a ++ x :: p :: b else a ++ p :: x :: b).
Proof.
  split.
  - revert l'; induction l as [|y r IH]; intros l' H; [discriminate|].
    cbn [insert_at] in H. destruct (bytes_eqb y p) eqn:E.
    + apply bytes_eqb_eq in E. subst y. exists [], r. inversion H; subst.
      split; [reflexivity|]. split; [intros []|]. destruct before; reflexivity.
    + destruct (insert_at before p x r) as [r'|] eqn:Er; [|discriminate].
      destruct (IH r' eq_refl) as (a & b & H1 & H2 & H3). inversion H; subst.
      exists (y :: a), b. split; [reflexivity|]. split.
      * intros [Hy|Hi]; [apply bytes_eqb_neq in E; congruence | exact (H2 Hi)].
      * destruct before; reflexivity.
  - intros (a & b & H1 & H2 & H3). subst l l'. apply insert_at_app. exact H2.
Qed.
Print Assumptions insert_at_some.

Theorem insert_at_none (before : bool) p x l : insert_at before p x l = None <-> ~ In p l.
Proof.
  induction l as [|y r IH]; cbn [insert_at].
  - split; [intros _ []|reflexivity].
  - destruct (bytes_eqb y p) eqn:E.
    + apply bytes_eqb_eq in E. subst y. split; [discriminate|]. intro H. exfalso. apply H. left. reflexivity.
    + apply bytes_eqb_neq in E. destruct (insert_at before p x r) as [r'|].
      * split; [discriminate|]. intro H. exfalso.
        assert (Hr : ~ In p r) by (intro Hi; apply H; right; exact Hi).
        apply IH in Hr. discriminate.
      * split; [|reflexivity]. intros _ [Hy|Hi]; [congruence|]. destruct IH as [IH1 _]. exact (IH1 eq_refl Hi).
Qed.
Print Assumptions insert_at_none.

Example insert_at_ex :
  insert_at true [2%N] [9%N] [[1%N]; [2%N]; [3%N]; [2%N]] = Some [[1%N]; [9%N]; [2%N]; [3%N]; [2%N]] /\
  insert_at false [2%N] [9%N] [[1%N]; [2%N]; [3%N]; [2%N]] = Some [[1%N]; [2%N]; [9%N]; [3%N]; [2%N]] /\
  insert_at false [7%N] [9%N] [[1%N]; [2%N]] = None.
Proof. vm_compute. repeat split. Qed.

(* LINSERT k BEFORE|AFTER p x on a list key *)
Theorem cmd_linsert_spec now d k (before : bool) p x l exp :
  get_list now d k = Some (Some (l, exp)) ->
  let w := if before then Kw.BEFORE else Kw.AFTER in
  let r := cmd_linsert now d [k; w; p; x] in
  (~ In p l -> r = (d, RInt (-1))) /\
  (forall a b, l = a ++ p :: b -> ~ In p a ->
     let l' := if before then a ++ x :: p :: b else a ++ p :: x :: b in
     r = (put_list d k l' exp, RInt (Zlen l + 1)) /\
     get_list now (fst r) k = Some (Some (l', exp))).
Proof.
  intros Hg w r.
  assert (Er : r = match insert_at before p x l with
                   | Some l' => (put_list d k l' exp, RInt (Zlen l'))
                   | None => (d, RInt (-1)) end).
  { subst r w. unfold cmd_linsert. destruct before.
    - rewrite Kw.kw_before. rewrite Hg. reflexivity.
    - rewrite (proj1 Kw.kw_after), (proj2 Kw.kw_after). rewrite Hg. reflexivity. }
  split.
  - intro Hn. apply (insert_at_none before p x) in Hn. rewrite Er, Hn. reflexivity.
  - intros a b Hl Hn l'. rewrite Er. subst l. rewrite insert_at_app by exact Hn. fold l'.
    cbn [fst]. split.
    + f_equal. f_equal. subst l'. unfold Zlen. destruct before; rewrite !app_length; simpl; lia.
    + apply get_list_put_list_same; [|eapply get_list_alive; eauto].
      subst l'. destruct before; intro E; apply app_eq_nil in E as [_ E]; discriminate.
Qed.
Print Assumptions cmd_linsert_spec.

Example cmd_linsert_ex :
  let d := fst (cmd_push false false 0 empty_db [[1%N]; [10%N]; [20%N]; [10%N]]) in
  cmd_linsert 5 d [[1%N]; Kw.AFTER; [10%N]; [7%N]] = (put_list d [1%N] [[10%N]; [7%N]; [20%N]; [10%N]] None, RInt 4) /\
  cmd_linsert 5 d [[1%N]; Kw.BEFORE; [33%N]; [7%N]] = (d, RInt (-1)).
Proof. vm_compute. repeat split. Qed.

(* ====================================================================== *)
(* 6. LPOS                                                                 *)
(* ====================================================================== *)

(* spec: the labels p, p+step, p+2*step, ... of the elements equal to x *)
Fixpoint positions_from (x : bytes) (l : list bytes) (p step : Z) : list Z :=
  match l with
  | [] => []
  | y :: r => if bytes_eqb y x then p :: positions_from x r (p + step) step
              else positions_from x r (p + step) step
  end.

(* spec: 0-based positions of x in l, ascending *)
Definition positions (x : bytes) (l : list bytes) : list Z := positions_from x l 0 1.

(* [positions_from] is characterised by membership ... *)
Lemma positions_from_In x l p step q :
  In q (positions_from x l p step) <->
  exists i : nat, q = p + step * Z.of_nat i /\ nth_error l i = Some x.
Proof.
  revert p; induction l as [|y r IH]; intro p; cbn [positions_from].
  - split; [intros [] | intros (i & _ & H); destruct i; discriminate].
  - destruct (bytes_eqb y x) eqn:E.
    + apply bytes_eqb_eq in E. subst y. split.
      * intros [H|H].
        -- exists O. split; [lia|reflexivity].
        -- apply IH in H as (i & H1 & H2). exists (S i). split; [lia|exact H2].
      * intros (i & H1 & H2). destruct i as [|i].
        -- left. lia.
        -- right. apply IH. exists i. split; [lia|exact H2].
    + apply bytes_eqb_neq in E. rewrite IH. split.
      * intros (i & H1 & H2). exists (S i). split; [lia|exact H2].
      * intros (i & H1 & H2). destruct i as [|i].
        -- simpl in H2. congruence.
        -- exists i. split; [lia|exact H2].
Qed.

(* ... and order: ascending for a positive step, descending for a negative one *)
Lemma positions_from_lower x l p step q : 0 < step -> In q (positions_from x l p step) -> p <= q.
Proof. intros Hs H. apply positions_from_In in H as (i & H1 & _). nia. Qed.

Lemma positions_from_upper x l p step q : step < 0 -> In q (positions_from x l p step) -> q <= p.
Proof. intros Hs H. apply positions_from_In in H as (i & H1 & _). nia. Qed.

Lemma positions_from_sorted_up x l p step :
  0 < step -> StronglySorted Z.lt (positions_from x l p step).
Proof.
  intro Hs. revert p; induction l as [|y r IH]; intro p; cbn [positions_from]; [constructor|].
  destruct (bytes_eqb y x); [|apply IH]. constructor; [apply IH|].
  apply Forall_forall. intros q Hq. apply positions_from_lower in Hq; lia.
Qed.

Lemma positions_from_sorted_down x l p step :
  step < 0 -> StronglySorted Z.gt (positions_from x l p step).
Proof.
  intro Hs. revert p; induction l as [|y r IH]; intro p; cbn [positions_from]; [constructor|].
  destruct (bytes_eqb y x); [|apply IH]. constructor; [apply IH|].
  apply Forall_forall. intros q Hq. apply positions_from_upper in Hq; lia.
Qed.

(* the scan = skip [rank] matches, keep [count], look at [maxlen] elements only *)
Theorem lpos_scan_spec l x p step rank count maxlen :
  lpos_scan l x p step rank count maxlen =
  firstn count (skipn rank (positions_from x (firstn maxlen l) p step)).
Proof.
  revert p rank count maxlen; induction l as [|y r IH]; intros p rank count maxlen.
  - cbn [lpos_scan]. rewrite firstn_nil. cbn [positions_from]. rewrite skipn_nil, firstn_nil. reflexivity.
  - cbn [lpos_scan]. destruct maxlen as [|ml].
    + cbn [firstn positions_from]. rewrite skipn_nil, firstn_nil. reflexivity.
    + destruct count as [|cn]; [reflexivity|].
      cbn [firstn positions_from]. destruct (bytes_eqb y x).
      * destruct rank as [|rk].
        -- cbn [skipn firstn]. f_equal. rewrite IH. reflexivity.
        -- cbn [skipn]. apply IH.
      * apply IH.
Qed.
Print Assumptions lpos_scan_spec.

Lemma In_firstn_c03 {A} n (l : list A) x : In x (firstn n l) -> In x l.
Proof. intro H. rewrite <- (firstn_skipn n l). apply in_or_app. left. exact H. Qed.

Lemma In_skipn_c03 {A} n (l : list A) x : In x (skipn n l) -> In x l.
Proof. intro H. rewrite <- (firstn_skipn n l). apply in_or_app. right. exact H. Qed.

Lemma SSorted_skipn {A} (R : A -> A -> Prop) n l : StronglySorted R l -> StronglySorted R (skipn n l).
Proof.
  revert l; induction n as [|n IH]; intros l H; [exact H|].
  destruct l as [|y r]; [constructor|]. cbn [skipn]. apply IH. inversion H; assumption.
Qed.

Lemma SSorted_firstn {A} (R : A -> A -> Prop) n l : StronglySorted R l -> StronglySorted R (firstn n l).
Proof.
  revert l; induction n as [|n IH]; intros l H; [constructor|].
  destruct l as [|y r]; [constructor|]. cbn [firstn]. inversion H as [|? ? H1 H2]; subst.
  constructor; [apply IH; exact H1|]. apply Forall_forall. intros z Hz.
  apply In_firstn_c03 in Hz. rewrite Forall_forall in H2. apply H2. exact Hz.
Qed.

Lemma nth_error_firstn_some {A} n (l : list A) i x :
  nth_error (firstn n l) i = Some x -> (i < n)%nat /\ nth_error l i = Some x.
Proof.
  intro H. destruct (Nat.lt_ge_cases i n) as [Hlt|Hge].
  - split; [exact Hlt|]. rewrite nth_error_firstn_c03 in H by exact Hlt. exact H.
  - assert (Hn : nth_error (firstn n l) i = None).
    { apply nth_error_None. rewrite firstn_length. lia. }
    congruence.
Qed.

(* LPOS forward scan (RANK > 0): Redis semantics *)
Theorem lpos_forward l x rank count maxlen :
  let res := lpos_scan l x 0 1 rank count maxlen in
  res = firstn count (skipn rank (positions x (firstn maxlen l))) /\
  (forall q, In q res -> 0 <= q < Z.of_nat maxlen /\ nth_error l (Z.to_nat q) = Some x) /\
  StronglySorted Z.lt res /\
  (length res <= count)%nat.
Proof.
  intro res. assert (E : res = firstn count (skipn rank (positions x (firstn maxlen l))))
    by (subst res; apply lpos_scan_spec).
  split; [exact E|]. rewrite E. split; [|split].
  - intros q Hq. apply In_firstn_c03, In_skipn_c03 in Hq. unfold positions in Hq.
    apply positions_from_In in Hq as (i & H1 & H2). apply nth_error_firstn_some in H2 as [H2 H3].
    replace (Z.to_nat q) with i by lia. split; [lia|exact H3].
  - apply SSorted_firstn, SSorted_skipn. apply positions_from_sorted_up. lia.
  - rewrite firstn_length. lia.
Qed.
Print Assumptions lpos_forward.

(* completeness of the spec: every occurrence is listed *)
Lemma positions_complete x l i : nth_error l i = Some x -> In (Z.of_nat i) (positions x l).
Proof. intro H. unfold positions. apply positions_from_In. exists i. split; [lia|exact H]. Qed.

Lemma nth_error_rev_c03 {A} (l : list A) i :
  (i < length l)%nat -> nth_error (rev l) i = nth_error l (length l - 1 - i).
Proof.
  intro H. destruct l as [|d0 l0] eqn:El; [simpl in H; lia|]. rewrite <- El in *.
  assert (Hl : length l = S (length l0)) by (subst l; reflexivity).
  rewrite (nth_error_nth' (rev l) d0) by (rewrite rev_length; exact H).
  rewrite (nth_error_nth' l d0) by lia.
  rewrite rev_nth by exact H. f_equal. f_equal. lia.
Qed.

(* LPOS backward scan (RANK < 0): positions are real positions of x, descending *)
Theorem lpos_backward l x rank count maxlen :
  let res := lpos_scan (rev l) x (Zlen l - 1) (-1) rank count maxlen in
  res = firstn count (skipn rank (positions_from x (firstn maxlen (rev l)) (Zlen l - 1) (-1))) /\
  (forall q, In q res -> Zlen l - Z.of_nat maxlen <= q < Zlen l /\ 0 <= q /\
                         nth_error l (Z.to_nat q) = Some x) /\
  StronglySorted Z.gt res /\
  (length res <= count)%nat.
Proof.
  intro res. assert (E : res = firstn count (skipn rank (positions_from x (firstn maxlen (rev l)) (Zlen l - 1) (-1))))
    by (subst res; apply lpos_scan_spec).
  split; [exact E|]. rewrite E. split; [|split].
  - intros q Hq. apply In_firstn_c03, In_skipn_c03 in Hq.
    apply positions_from_In in Hq as (i & H1 & H2). apply nth_error_firstn_some in H2 as [H2 H3].
    assert (Hi : (i < length l)%nat).
    { rewrite <- (rev_length l). apply nth_error_Some. congruence. }
    rewrite nth_error_rev_c03 in H3 by exact Hi. unfold Zlen in *.
    replace (Z.to_nat q) with (length l - 1 - i)%nat by lia. repeat split; try lia. exact H3.
  - apply SSorted_firstn, SSorted_skipn. apply positions_from_sorted_down. lia.
  - rewrite firstn_length. lia.
Qed.
Print Assumptions lpos_backward.

Example lpos_ex :
  let l := [[1%N]; [2%N]; [1%N]; [3%N]; [1%N]; [1%N]] in
  positions [1%N] l = [0; 2; 4; 5] /\
  lpos_scan l [1%N] 0 1 1 2 6 = [2; 4] /\
  lpos_scan l [1%N] 0 1 0 6 4 = [0; 2] /\
  lpos_scan (rev l) [1%N] (Zlen l - 1) (-1) 1 2 6 = [4; 2].
Proof. vm_compute. repeat split. Qed.

(* ====================================================================== *)
(* 8. A list never exists empty                                            *)
(* ====================================================================== *)

(* no stored entry (visible or expired) holds the empty list *)
Definition no_empty_list (d : db) : Prop :=
  forall k e, In (k, e) (d_map d) -> e_val e <> VList [].

Lemma In_aset {V} (m : list (bytes * V)) k v k' v' :
  In (k', v') (aset m k v) -> (k', v') = (k, v) \/ In (k', v') m.
Proof.
  induction m as [|[k0 v0] m IH]; simpl.
  - intros [H|[]]. left. congruence.
  - destruct (bytes_eqb k k0); simpl.
    + intros [H|H]; [left; congruence | right; right; exact H].
    + intros [H|H]; [right; left; exact H|]. destruct (IH H) as [H1|H1]; [left; exact H1 | right; right; exact H1].
Qed.

Lemma In_adel {V} (m : list (bytes * V)) k k' v' : In (k', v') (adel m k) -> In (k', v') m.
Proof.
  induction m as [|[k0 v0] m IH]; simpl; [tauto|].
  destruct (bytes_eqb k k0); simpl.
  - intro H. right. apply IH. exact H.
  - intros [H|H]; [left; exact H | right; apply IH; exact H].
Qed.

Lemma put_list_no_empty d k l exp : no_empty_list d -> no_empty_list (put_list d k l exp).
Proof.
  intros Hd k' e' Hin. unfold put_list, put_or_del in Hin. destruct l as [|x r]; cbn [is_empty_agg] in Hin.
  - unfold del in Hin. cbn [d_map] in Hin. apply In_adel in Hin. exact (Hd k' e' Hin).
  - unfold put in Hin. cbn [d_map] in Hin. apply In_aset in Hin as [H|H].
    + inversion H; subst. cbn [e_val]. discriminate.
    + exact (Hd k' e' H).
Qed.

Definition keeps_no_empty (f : Z -> db -> list bytes -> res) : Prop :=
  forall now d args, no_empty_list d -> no_empty_list (fst (f now d args)).

Ltac ne_all :=
  repeat (match goal with
          | |- context [match ?x with _ => _ end] =>
            lazymatch x with
            | context [match _ with _ => _ end] => fail
            | _ => destruct x eqn:?
            end
          end; cbn [fst snd];
          try (intros; first [assumption | repeat apply put_list_no_empty; assumption])).

Lemma ne_push b1 b2 : keeps_no_empty (cmd_push b1 b2).
Proof. intros now d args. unfold cmd_push. ne_all. Qed.
Lemma ne_pop b : keeps_no_empty (cmd_pop b).
Proof. intros now d args. unfold cmd_pop. ne_all. Qed.
Lemma ne_lset : keeps_no_empty cmd_lset.
Proof. intros now d args. unfold cmd_lset. ne_all. Qed.
Lemma ne_linsert : keeps_no_empty cmd_linsert.
Proof. intros now d args. unfold cmd_linsert. ne_all. Qed.
Lemma ne_lrem : keeps_no_empty cmd_lrem.
Proof. intros now d args. unfold cmd_lrem. ne_all. Qed.
Lemma ne_ltrim : keeps_no_empty cmd_ltrim.
Proof. intros now d args. unfold cmd_ltrim. ne_all. Qed.
Lemma ne_llen : keeps_no_empty cmd_llen.
Proof. intros now d args. unfold cmd_llen. ne_all. Qed.
Lemma ne_lindex : keeps_no_empty cmd_lindex.
Proof. intros now d args. unfold cmd_lindex. ne_all. Qed.
Lemma ne_lrange : keeps_no_empty cmd_lrange.
Proof. intros now d args. unfold cmd_lrange. ne_all. Qed.
Lemma ne_lpos : keeps_no_empty cmd_lpos.
Proof. intros now d args. unfold cmd_lpos. ne_all. Qed.

Lemma ne_lmove_core now d src dst sl dl :
  no_empty_list d -> no_empty_list (fst (lmove_core now d src dst sl dl)).
Proof. unfold lmove_core. ne_all. Qed.

Lemma ne_lmove : keeps_no_empty cmd_lmove.
Proof.
  intros now d args. unfold cmd_lmove.
  repeat (match goal with
          | |- context [match ?x with _ => _ end] =>
            lazymatch x with
            | context [match _ with _ => _ end] => fail
            | context [lmove_core] => fail
            | _ => destruct x eqn:?
            end
          end; cbn [fst snd]; try (intros; assumption)).
  apply ne_lmove_core.
Qed.

Lemma ne_rpoplpush : keeps_no_empty cmd_rpoplpush.
Proof.
  intros now d args. unfold cmd_rpoplpush.
  destruct args as [|a [|b [|c r]]]; cbn [fst snd]; try (intros; assumption).
  apply ne_lmove_core.
Qed.

Lemma ne_lmpop_keys now d keys lft count :
  no_empty_list d -> no_empty_list (fst (lmpop_keys now d keys lft count)).
Proof.
  intro Hd. induction keys as [|k r IH]; cbn [lmpop_keys]; [exact Hd|].
  destruct (get_list now d k) as [[[l exp]|]|]; cbn [fst snd].
  - cbv zeta. destruct lft; cbn [fst snd]; apply put_list_no_empty; exact Hd.
  - exact IH.
  - exact Hd.
Qed.

Lemma ne_lmpop : keeps_no_empty cmd_lmpop.
Proof.
  intros now d args. unfold cmd_lmpop.
  repeat (match goal with
          | |- context [match ?x with _ => _ end] =>
            lazymatch x with
            | context [match _ with _ => _ end] => fail
            | context [lmpop_keys] => fail
            | _ => destruct x eqn:?
            end
          end; cbn [fst snd]; try (intros; assumption); try apply ne_lmpop_keys).
Qed.

Theorem list_family_never_empty :
  forall f, In f list_family ->
  forall now d args, no_empty_list d -> no_empty_list (fst (f now d args)).
Proof.
  intros f Hin. unfold list_family in Hin. simpl in Hin.
  repeat (destruct Hin as [Hin|Hin]; [subst f|]); try contradiction;
    first [ apply ne_push | apply ne_pop | apply ne_llen | apply ne_lindex
          | apply ne_lrange | apply ne_lset | apply ne_linsert | apply ne_lrem
          | apply ne_ltrim | apply ne_lpos | apply ne_lmove | apply ne_rpoplpush
          | apply ne_lmpop ].
Qed.
Print Assumptions list_family_never_empty.

Lemma no_empty_list_empty_db : no_empty_list empty_db.
Proof. intros k e []. Qed.

(* hence: along any run of list commands from the empty db no key ever holds [] *)
Fixpoint run_family (now : Z) (d : db) (cs : list ((Z -> db -> list bytes -> res) * list bytes)) : db :=
  match cs with
  | [] => d
  | (f, args) :: r => run_family now (fst (f now d args)) r
  end.

Theorem run_family_never_empty now cs :
  Forall (fun c => In (fst c) list_family) cs ->
  forall d, no_empty_list d ->
  forall k l exp, get_list now (run_family now d cs) k = Some (Some (l, exp)) -> l <> [].
Proof.
  induction 1 as [|[f args] r Hf Hr IH]; intros d Hd k l exp Hg.
  - cbn [run_family] in Hg. apply get_list_inv in Hg as (e & Hl & Hv & _).
    unfold lookup in Hl. destruct (aget (d_map d) k) as [e0|] eqn:Ea; [|discriminate].
    destruct (expired now e0); [discriminate|]. inversion Hl; subst e0.
    intro El. subst l. revert Hv. apply (Hd k e).
    clear - Ea. induction (d_map d) as [|[k0 e0] m IHm]; [discriminate|].
    simpl in Ea. destruct (bytes_eqb k k0) eqn:E.
    + apply bytes_eqb_eq in E. subst k0. inversion Ea; subst. left. reflexivity.
    + right. apply IHm. exact Ea.
  - cbn [run_family] in Hg. eapply IH; [|exact Hg].
    apply list_family_never_empty; [exact Hf | exact Hd].
Qed.
Print Assumptions run_family_never_empty.

Example never_empty_ex :
  let d := run_family 5 empty_db
     [(cmd_push false false, [[1%N]; [10%N]; [20%N]]); (cmd_pop true, [[1%N]; Kw.num 2])] in
  d_map d = [] /\ get_list 5 d [1%N] = Some None.
Proof. vm_compute. split; reflexivity. Qed.

(* ====================================================================== *)
(* 9. Remaining commands at command level: LLEN, LMPOP, LPOS               *)
(* ====================================================================== *)

Theorem cmd_llen_spec now d k :
  cmd_llen now d [k] =
  (d, match get_list now d k with
      | Some (Some (l, _)) => RInt (Zlen l)
      | Some None => RInt 0
      | None => wrongtype end).
Proof. unfold cmd_llen. destruct (get_list now d k) as [[[l e]|]|]; reflexivity. Qed.

(* the clamp of a count to the length is invisible *)
Lemma pop_clamp (l : list bytes) cz :
  0 <= cz ->
  let n := Z.to_nat (Z.min cz (Zlen l)) in
  let m := Z.to_nat cz in
  firstn n l = firstn m l /\ skipn n l = skipn m l /\
  firstn (length l - n) l = firstn (length l - m) l /\
  firstn n (rev l) = firstn m (rev l).
Proof.
  intros Hc n m. destruct (Z.le_gt_cases cz (Zlen l)) as [Hle|Hgt].
  - replace n with m by (subst n m; lia). repeat split.
  - assert (Hn : n = length l) by (subst n; unfold Zlen in *; lia).
    assert (Hm : (length l <= m)%nat) by (subst m; unfold Zlen in *; lia).
    rewrite Hn. repeat split.
    + rewrite !firstn_all2 by lia. reflexivity.
    + rewrite !skipn_all2 by lia. reflexivity.
    + replace (length l - m)%nat with (length l - length l)%nat by lia. reflexivity.
    + rewrite !firstn_all2 by (rewrite rev_length; lia). reflexivity.
Qed.

(* LMPOP: the first key that exists is popped [count] times; missing keys are skipped *)
Theorem lmpop_keys_spec now d pre k post (lft : bool) count l exp :
  Forall (fun k' => get_list now d k' = Some None) pre ->
  get_list now d k = Some (Some (l, exp)) -> 0 <= count ->
  let m := Z.to_nat count in
  let out := if lft then firstn m l else firstn m (rev l) in
  let l' := if lft then skipn m l else firstn (length l - m) l in
  let r := lmpop_keys now d (pre ++ k :: post) lft count in
  r = (put_list d k l' exp, RArr [RBulk k; RArr (bulks out)]) /\
  l = (if lft then out ++ l' else l' ++ rev out) /\
  get_list now (fst r) k = Some (stored l' exp) /\
  (forall k', k' <> k -> lookup now (fst r) k' = lookup now d k').
Proof.
  intros Hpre Hg Hc m out l' r.
  assert (Er : r = (put_list d k l' exp, RArr [RBulk k; RArr (bulks out)])).
  { subst r. induction Hpre as [|k0 pre H0 Hpre IH].
    - cbn [app lmpop_keys]. rewrite Hg. cbv zeta.
      destruct (pop_clamp l count Hc) as (P1 & P2 & P3 & P4).
      subst out l' m. destruct lft.
      + rewrite P1, P2. reflexivity.
      + rewrite P3, P4. reflexivity.
    - cbn [app lmpop_keys]. rewrite H0. exact IH. }
  split; [exact Er|]. rewrite Er. cbn [fst]. split; [|split].
  - subst out l'. destruct lft.
    + symmetry. apply firstn_skipn.
    + rewrite firstn_rev, rev_involutive. symmetry. apply firstn_skipn.
  - apply get_list_put_list. eapply get_list_alive; eauto.
  - intros k' Hk. apply lookup_put_list_other; exact Hk.
Qed.
Print Assumptions lmpop_keys_spec.

Theorem lmpop_keys_none now d keys lft count :
  Forall (fun k' => get_list now d k' = Some None) keys ->
  lmpop_keys now d keys lft count = (d, RNil).
Proof.
  induction 1 as [|k0 r H0 Hr IH]; cbn [lmpop_keys]; [reflexivity|]. rewrite H0. exact IH.
Qed.

Example cmd_lmpop_ex :
  let d := fst (cmd_push false false 0 empty_db [[2%N]; [10%N]; [20%N]; [30%N]]) in
  cmd_lmpop 5 d [Kw.num 2; [1%N]; [2%N]; Kw.RIGHT; Kw.COUNT; Kw.num 2]
  = (put_list d [2%N] [[10%N]] None, RArr [RBulk [2%N]; RArr [RBulk [30%N]; RBulk [20%N]]]) /\
  cmd_lmpop 5 d [Kw.num 2; [1%N]; [3%N]; Kw.LEFT] = (d, RNil).
Proof. vm_compute. split; reflexivity. Qed.

(* ---- LPOS at command level ---- *)
Lemma positions_from_length x l p step : (length (positions_from x l p step) <= length l)%nat.
Proof.
  revert p; induction l as [|y r IH]; intro p; cbn [positions_from]; [cbn [length]; lia|].
  destruct (bytes_eqb y x); cbn [length]; specialize (IH (p + step)); lia.
Qed.

Lemma firstn_clamp {A} z n (l : list A) : 0 <= z -> (length l <= n)%nat -> firstn (clamp z n) l = firstn (Z.to_nat z) l.
Proof.
  intros Hz Hl. unfold clamp. destruct (Z.le_gt_cases z (Z.of_nat n)).
  - f_equal. lia.
  - rewrite !firstn_all2 by lia. reflexivity.
Qed.

Lemma skipn_clamp {A} z n (l : list A) : 0 <= z -> (length l <= n)%nat -> skipn (clamp z n) l = skipn (Z.to_nat z) l.
Proof.
  intros Hz Hl. unfold clamp. destruct (Z.le_gt_cases z (Z.of_nat n)).
  - f_equal. lia.
  - rewrite !skipn_all2 by lia. reflexivity.
Qed.

(* LPOS k x RANK r COUNT c MAXLEN m with r > 0: no clamps in the spec;
   COUNT 0 = all matches, MAXLEN 0 = whole list *)
Theorem cmd_lpos_forward_spec now d k x r c m rz cz mz l exp :
  parse_i64 r = Some rz -> parse_i64 c = Some cz -> parse_i64 m = Some mz ->
  0 < rz -> 0 <= cz -> 0 <= mz ->
  get_list now d k = Some (Some (l, exp)) ->
  let scanned := if mz =? 0 then l else firstn (Z.to_nat mz) l in
  let matches := skipn (Z.to_nat (rz - 1)) (positions x scanned) in
  let res := if cz =? 0 then matches else firstn (Z.to_nat cz) matches in
  cmd_lpos now d [k; x; Kw.RANK; r; Kw.COUNT; c; Kw.MAXLEN; m] = (d, RArr (map RInt res)).
Proof.
  intros Hr Hc Hm Hrz Hcz Hmz Hg scanned matches res.
  destruct Kw.kw_lpos as (K1 & K2 & K3 & K4 & K5 & K6).
  unfold cmd_lpos. cbn [length scan_lpos lp_rank lp_count lp_maxlen].
  rewrite Hr, K1. cbn [lp_rank lp_count lp_maxlen]. rewrite Hc, K2, K3. cbn [lp_rank lp_count lp_maxlen].
  rewrite Hm, K4, K5, K6. cbn [lp_rank lp_count lp_maxlen]. cbv zeta.
  destruct (rz =? 0) eqn:E1; [bool2prop; lia|].
  destruct (rz =? min_i64) eqn:E2; [bool2prop; unfold min_i64 in *; lia|].
  destruct (cz <? 0) eqn:E3; [bool2prop; lia|].
  destruct (mz <? 0) eqn:E4; [bool2prop; lia|].
  rewrite Hg. destruct (0 <? rz) eqn:E5; [|bool2prop; lia].
  rewrite lpos_scan_spec. f_equal. f_equal. f_equal.
  replace (Z.abs rz - 1) with (rz - 1) by lia.
  assert (Escan : firstn (if mz =? 0 then length l else clamp mz (length l)) l = scanned).
  { subst scanned. destruct (mz =? 0); [apply firstn_all|]. apply firstn_clamp; [exact Hmz|lia]. }
  rewrite Escan. fold (positions x scanned).
  assert (Hlen : (length (positions x scanned) <= length l)%nat).
  { unfold positions. pose proof (positions_from_length x scanned 0 1) as H1.
    assert (length scanned <= length l)%nat; [|lia].
    subst scanned. destruct (mz =? 0); [lia|]. rewrite firstn_length. lia. }
  rewrite skipn_clamp by (try lia; exact Hlen). fold matches.
  assert (Hlen2 : (length matches <= length l)%nat) by (subst matches; rewrite skipn_length; lia).
  subst res. destruct (cz =? 0).
  - apply firstn_all2. exact Hlen2.
  - apply firstn_clamp; [exact Hcz | exact Hlen2].
Qed.
Print Assumptions cmd_lpos_forward_spec.

(* LPOS k x : position of the first occurrence, nil when there is none *)
Theorem cmd_lpos_default_spec now d k x l exp :
  get_list now d k = Some (Some (l, exp)) ->
  cmd_lpos now d [k; x] = (d, match positions x l with q :: _ => RInt q | [] => RNil end).
Proof.
  intro Hg. unfold cmd_lpos. cbn [length scan_lpos lp_rank lp_count lp_maxlen]. cbv zeta.
  change (1 =? 0) with false. change (1 =? min_i64) with false. change (1 <? 0) with false.
  change (0 <? 0) with false. change (0 =? 0) with true. change (0 <? 1) with true.
  cbn match. rewrite Hg. rewrite lpos_scan_spec. rewrite firstn_all.
  change (clamp (Z.abs 1 - 1) (length l)) with (Z.to_nat (Z.min 0 (Z.of_nat (length l)))).
  replace (Z.to_nat (Z.min 0 (Z.of_nat (length l)))) with O by lia. cbn [skipn].
  fold (positions x l). destruct (positions x l) as [|q t] eqn:Ep.
  - rewrite firstn_nil. reflexivity.
  - destruct l as [|y r]; [discriminate|].
    replace (clamp 1 (length (y :: r))) with 1%nat by (unfold clamp; cbn [length]; lia).
    reflexivity.
Qed.
Print Assumptions cmd_lpos_default_spec.

Example cmd_lpos_ex :
  let d := fst (cmd_push false false 0 empty_db [[1%N]; [1%N]; [2%N]; [1%N]; [3%N]; [1%N]; [1%N]]) in
  snd (cmd_lpos 5 d [[1%N]; [1%N]; Kw.RANK; Kw.num 2; Kw.COUNT; Kw.num 0; Kw.MAXLEN; Kw.num 5]) = RArr [RInt 2; RInt 4] /\
  snd (cmd_lpos 5 d [[1%N]; [3%N]]) = RInt 3 /\ snd (cmd_lpos 5 d [[1%N]; [9%N]]) = RNil /\
  snd (cmd_lpos 5 d [[1%N]; [1%N]; Kw.RANK; Kw.num (-1); Kw.COUNT; Kw.num 2]) = RArr [RInt 5; RInt 4].
Proof. vm_compute. repeat split. Qed.

(* ---- audit: everything above is axiom-free ---- *)
Print Assumptions cmd_lrange_spec.
Print Assumptions lrange_list_facts.
Print Assumptions ltrim_list_facts.
Print Assumptions ltrim_list_start_beyond.
Print Assumptions cmd_push_missing.
Print Assumptions split_occ_spec.
Print Assumptions lrem_head_spec.
Print Assumptions cmd_llen_spec.
Print Assumptions lmpop_keys_none.
Print Assumptions positions_from_In.
Print Assumptions positions_complete.
Print Assumptions positions_from_sorted_up.
