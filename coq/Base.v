(* Base.v — bytes, decimal text, int64 helpers, association lists.
   Stdlib only; everything here is computable and extracted. *)
From Coq Require Export List NArith ZArith Bool Lia.
From Coq Require Import DecimalN DecimalZ DecimalFacts.
Export ListNotations.
Open Scope Z_scope.

(* A byte is an N below 256; byte strings are lists of bytes. *)
Definition byte := N.
Definition bytes := list N.

Definition byte_eqb (a b : byte) : bool := N.eqb a b.

Fixpoint bytes_eqb (a b : bytes) : bool :=
  match a, b with
  | [], [] => true
  | x :: a', y :: b' => N.eqb x y && bytes_eqb a' b'
  | _, _ => false
  end.

Lemma bytes_eqb_eq a b : bytes_eqb a b = true <-> a = b.
Proof.
  revert b; induction a as [|x a IH]; intros [|y b]; simpl; split; intro H;
    try reflexivity; try discriminate.
  - apply andb_true_iff in H as [H1 H2]. apply N.eqb_eq in H1. apply IH in H2. congruence.
  - inversion H; subst. rewrite N.eqb_refl. simpl. apply IH. reflexivity.
Qed.

Lemma bytes_eqb_refl a : bytes_eqb a a = true.
Proof. apply bytes_eqb_eq. reflexivity. Qed.

Lemma bytes_eqb_neq a b : bytes_eqb a b = false <-> a <> b.
Proof.
  split; intro H.
  - intro E. apply bytes_eqb_eq in E. congruence.
  - destruct (bytes_eqb a b) eqn:E; [apply bytes_eqb_eq in E; contradiction | reflexivity].
Qed.

Definition bytes_eq_dec (a b : bytes) : {a = b} + {a <> b}.
Proof. apply list_eq_dec. apply N.eq_dec. Defined.

(* lexicographic order on byte strings, used to canonicalise unordered output *)
Fixpoint bytes_ltb (a b : bytes) : bool :=
  match a, b with
  | _, [] => false
  | [], _ :: _ => true
  | x :: a', y :: b' => if N.ltb x y then true else if N.eqb x y then bytes_ltb a' b' else false
  end.

(* ---------- ASCII helpers ---------- *)
Definition is_digit (c : byte) : bool := (48 <=? c)%N && (c <=? 57)%N.
Definition lower_byte (c : byte) : byte :=
  if ((65 <=? c)%N && (c <=? 90)%N) then (c + 32)%N else c.
Definition lower (b : bytes) : bytes := map lower_byte b.
Definition ieq (a b : bytes) : bool := bytes_eqb (lower a) (lower b).

(* ---------- decimal text ---------- *)
Definition digit_cons (d : N) (u : Decimal.uint) : Decimal.uint :=
  match d with
  | 0%N => Decimal.D0 u | 1%N => Decimal.D1 u | 2%N => Decimal.D2 u | 3%N => Decimal.D3 u
  | 4%N => Decimal.D4 u | 5%N => Decimal.D5 u | 6%N => Decimal.D6 u | 7%N => Decimal.D7 u
  | 8%N => Decimal.D8 u | _ => Decimal.D9 u
  end.

Fixpoint uint_bytes (u : Decimal.uint) : bytes :=
  match u with
  | Decimal.Nil => []
  | Decimal.D0 u => 48%N :: uint_bytes u | Decimal.D1 u => 49%N :: uint_bytes u
  | Decimal.D2 u => 50%N :: uint_bytes u | Decimal.D3 u => 51%N :: uint_bytes u
  | Decimal.D4 u => 52%N :: uint_bytes u | Decimal.D5 u => 53%N :: uint_bytes u
  | Decimal.D6 u => 54%N :: uint_bytes u | Decimal.D7 u => 55%N :: uint_bytes u
  | Decimal.D8 u => 56%N :: uint_bytes u | Decimal.D9 u => 57%N :: uint_bytes u
  end.

(* all bytes must be digits *)
Fixpoint bytes_uint (b : bytes) : option Decimal.uint :=
  match b with
  | [] => Some Decimal.Nil
  | c :: r =>
      if is_digit c then
        match bytes_uint r with
        | Some u => Some (digit_cons (c - 48)%N u)
        | None => None
        end
      else None
  end.

Lemma bytes_uint_uint_bytes u : bytes_uint (uint_bytes u) = Some u.
Proof. induction u; simpl; try reflexivity; rewrite IHu; reflexivity. Qed.

(* decimal text of a natural / an integer, as Go's %d prints it *)
Definition N_to_bytes (n : N) : bytes := uint_bytes (N.to_uint n).
Definition Z_to_bytes (z : Z) : bytes :=
  match z with
  | Z0 => [48%N]
  | Zpos p => uint_bytes (Pos.to_uint p)
  | Zneg p => 45%N :: uint_bytes (Pos.to_uint p)
  end.

(* digits only, at least one; leading zeros accepted (strconv.ParseUint base 10) *)
Definition parse_udec (b : bytes) : option N :=
  match b with
  | [] => None
  | _ => match bytes_uint b with
         | Some u => Some (N.of_uint u)
         | None => None
         end
  end.

Definition min_i64 : Z := - 9223372036854775808.
Definition max_i64 : Z := 9223372036854775807.
Definition in_i64 (z : Z) : bool := (min_i64 <=? z) && (z <=? max_i64).

(* strconv.ParseInt(s, 10, 64): optional sign, at least one digit, range checked *)
Definition parse_i64 (b : bytes) : option Z :=
  let '(neg, ds) :=
    match b with
    | 45%N :: r => (true, r)
    | 43%N :: r => (false, r)
    | _ => (false, b)
    end in
  match parse_udec ds with
  | Some n => let z := if neg then - Z.of_N n else Z.of_N n in
              if in_i64 z then Some z else None
  | None => None
  end.

(* two's-complement wrap to int64 *)
Definition wrap64 (z : Z) : Z :=
  let m := z mod 18446744073709551616 in
  if m <? 9223372036854775808 then m else m - 18446744073709551616.

(* ---------- association lists keyed by bytes ---------- *)
Section Assoc.
  Variable V : Type.
  Fixpoint aget (m : list (bytes * V)) (k : bytes) : option V :=
    match m with
    | [] => None
    | (k', v) :: r => if bytes_eqb k k' then Some v else aget r k
    end.
  Fixpoint adel (m : list (bytes * V)) (k : bytes) : list (bytes * V) :=
    match m with
    | [] => []
    | (k', v) :: r => if bytes_eqb k k' then adel r k else (k', v) :: adel r k
    end.
  (* replace in place when present (keeps position), append otherwise *)
  Fixpoint aset (m : list (bytes * V)) (k : bytes) (v : V) : list (bytes * V) :=
    match m with
    | [] => [(k, v)]
    | (k', v') :: r => if bytes_eqb k k' then (k, v) :: r else (k', v') :: aset r k v
    end.
  Definition amem (m : list (bytes * V)) (k : bytes) : bool :=
    match aget m k with Some _ => true | None => false end.
End Assoc.
Arguments aget {V}. Arguments adel {V}. Arguments aset {V}. Arguments amem {V}.

Fixpoint mem_bytes (x : bytes) (l : list bytes) : bool :=
  match l with [] => false | y :: r => bytes_eqb x y || mem_bytes x r end.

Fixpoint remove_bytes (x : bytes) (l : list bytes) : list bytes :=
  match l with [] => [] | y :: r => if bytes_eqb x y then remove_bytes x r else y :: remove_bytes x r end.

Fixpoint dedup_bytes (l : list bytes) : list bytes :=
  match l with [] => [] | y :: r => if mem_bytes y r then dedup_bytes r else y :: dedup_bytes r end.

Definition ascii (s : list N) : bytes := s.

Fixpoint repeatN {A} (x : A) (n : nat) : list A :=
  match n with O => [] | S n' => x :: repeatN x n' end.

Definition Zlen {A} (l : list A) : Z := Z.of_nat (length l).

(* string literals as bytes *)
From Coq Require Import String Ascii.
Definition s2b (s : string) : bytes := map N_of_ascii (list_ascii_of_string s).
