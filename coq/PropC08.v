(* PropC08.v — linearizability of the concurrent machine of Atomic.v.

   "For any number of clients issuing commands concurrently, the replies they receive and the
    final database contents are those of some sequential execution of the same commands that
    respects each connection's own order and real-time precedence between connections."

   [step] is used as an opaque total function; nothing here unfolds it (except the vm_compute example). *)
From RE Require Import Base Resp State Exec Exec2 Bits Dispatch Atomic.
From Coq Require Import String.
From Coq Require Import List Lia Arith.
Import ListNotations.
Open Scope list_scope.
Open Scope nat_scope.

(* ---------- finite maps ---------- *)
Lemma nget_nset_same {A} (m : list (N * A)) k v : nget (nset m k v) k = Some v.
Proof.
  induction m as [|[k' v'] m IH]; simpl.
  - rewrite N.eqb_refl; reflexivity.
  - destruct (N.eqb k k') eqn:E; simpl.
    + rewrite N.eqb_refl; reflexivity.
    + rewrite E; exact IH.
Qed.

Lemma nget_nset_other {A} (m : list (N * A)) k k' v : k' <> k -> nget (nset m k v) k' = nget m k'.
Proof.
  intro H. induction m as [|[k0 v0] m IH]; simpl.
  - destruct (N.eqb k' k) eqn:E; auto. apply N.eqb_eq in E; congruence.
  - destruct (N.eqb k k0) eqn:E; simpl.
    + apply N.eqb_eq in E; subst k0. destruct (N.eqb k' k) eqn:E2; auto.
      apply N.eqb_eq in E2; congruence.
    + destruct (N.eqb k' k0); auto.
Qed.

Lemma cst_of_set_same m st c x d : cst_of (mkM st (nset (m_conns m) c x) d) c = x.
Proof. unfold cst_of; simpl. rewrite nget_nset_same; reflexivity. Qed.

Lemma cst_of_set_other m st c c' x d : c' <> c -> cst_of (mkM st (nset (m_conns m) c x) d) c' = cst_of m c'.
Proof. intro H. unfold cst_of; simpl. rewrite nget_nset_other by exact H; reflexivity. Qed.

(* ---------- the linearization order ---------- *)
(* [pend] remembers the last command invoked on each connection; every EExec is paired with it.
   The definition does not mention [step] or the machine. *)
Fixpoint exec_order (pend : list (N * list bytes)) (es : list ev) : list (N * Z * list bytes) :=
  match es with
  | [] => []
  | EInvoke c cmd :: r => exec_order (nset pend c cmd) r
  | EExec c now :: r =>
    match nget pend c with
    | Some cmd => (c, now, cmd) :: exec_order pend r
    | None => exec_order pend r
    end
  | ERespond _ :: r => exec_order pend r
  end.

Definition op_key (x : N * Z * list bytes) : N * list bytes := let '(c, _, cmd) := x in (c, cmd).

(* pend agrees with the machine on every connection that waits for the lock *)
Definition pend_ok (pend : list (N * list bytes)) (m : mach) : Prop :=
  forall c cmd, cst_of m c = CInvoked cmd -> nget pend c = Some cmd.

Lemma pend_ok0 : pend_ok [] mach0.
Proof. intros c cmd H. unfold cst_of, mach0 in H; simpl in H. discriminate. Qed.

(* inversion of one machine step *)
Lemma mstep_invoke m c cmd m' :
  mstep m (EInvoke c cmd) = Some m' ->
  cst_of m c = CIdle /\ m' = mkM (m_st m) (nset (m_conns m) c (CInvoked cmd)) (m_done m).
Proof. simpl. destruct (cst_of m c); intro H; inversion H; auto. Qed.

Lemma mstep_exec m c now m' :
  mstep m (EExec c now) = Some m' ->
  exists cmd, cst_of m c = CInvoked cmd /\
    m' = mkM (o_st (step now (m_st m) c cmd))
             (nset (m_conns m) c (CExecuted cmd (o_reply (step now (m_st m) c cmd))))
             (m_done m ++ [(c, cmd, o_reply (step now (m_st m) c cmd))]).
Proof. simpl. destruct (cst_of m c) as [|cmd|]; intro H; inversion H. exists cmd; auto. Qed.

Lemma mstep_respond m c m' :
  mstep m (ERespond c) = Some m' ->
  (exists cmd r, cst_of m c = CExecuted cmd r) /\ m' = mkM (m_st m) (nset (m_conns m) c CIdle) (m_done m).
Proof. simpl. destruct (cst_of m c) as [| |cmd r]; intro H; inversion H. split; eauto. Qed.

Lemma mrun_cons m e es m' :
  mrun m (e :: es) = Some m' -> exists m1, mstep m e = Some m1 /\ mrun m1 es = Some m'.
Proof. simpl. destruct (mstep m e) as [m1|]; intro H; [eauto | discriminate]. Qed.

(* ---------- 1. linearizability ---------- *)
Lemma linearizable_gen es : forall pend m m',
  pend_ok pend m -> mrun m es = Some m' ->
  exists d, m_done m' = m_done m ++ d /\
            seq_run (m_st m) (exec_order pend es) = (m_st m', map (fun x => snd x) d) /\
            map fst d = map op_key (exec_order pend es).
Proof.
  induction es as [|e es IH]; intros pend m m' Hp Hr.
  - simpl in Hr. inversion Hr; subst m'. exists []. rewrite app_nil_r. auto.
  - apply mrun_cons in Hr as (m1 & Hs & Hr). destruct e as [c cmd|c now|c].
    + apply mstep_invoke in Hs as [Hi ->].
      assert (Hp' : pend_ok (nset pend c cmd) (mkM (m_st m) (nset (m_conns m) c (CInvoked cmd)) (m_done m))).
      { intros c' cmd' H'. destruct (N.eq_dec c' c) as [->|Hn].
        - rewrite cst_of_set_same in H'. inversion H'; subst. apply nget_nset_same.
        - rewrite cst_of_set_other in H' by exact Hn. rewrite nget_nset_other by exact Hn. apply Hp; exact H'. }
      destruct (IH _ _ _ Hp' Hr) as (d & Hd & Hq & Hk).
      exists d. simpl in *. auto.
    + apply mstep_exec in Hs as (cmd & Hi & ->).
      assert (Hp' : pend_ok pend (mkM (o_st (step now (m_st m) c cmd))
             (nset (m_conns m) c (CExecuted cmd (o_reply (step now (m_st m) c cmd))))
             (m_done m ++ [(c, cmd, o_reply (step now (m_st m) c cmd))]))).
      { intros c' cmd' H'. destruct (N.eq_dec c' c) as [->|Hn].
        - rewrite cst_of_set_same in H'. discriminate.
        - rewrite cst_of_set_other in H' by exact Hn. apply Hp; exact H'. }
      destruct (IH pend _ _ Hp' Hr) as (d & Hd & Hq & Hk).
      exists ((c, cmd, o_reply (step now (m_st m) c cmd)) :: d).
      simpl in Hd, Hq. simpl exec_order. rewrite (Hp _ _ Hi).
      split; [|split].
      * rewrite Hd, <- app_assoc. reflexivity.
      * simpl. rewrite Hq. reflexivity.
      * simpl. rewrite Hk. reflexivity.
    + apply mstep_respond in Hs as [_ ->].
      assert (Hp' : pend_ok pend (mkM (m_st m) (nset (m_conns m) c CIdle) (m_done m))).
      { intros c' cmd' H'. destruct (N.eq_dec c' c) as [->|Hn].
        - rewrite cst_of_set_same in H'. discriminate.
        - rewrite cst_of_set_other in H' by exact Hn. apply Hp; exact H'. }
      destruct (IH _ _ _ Hp' Hr) as (d & Hd & Hq & Hk).
      exists d. simpl in *. auto.
Qed.

(* The replies every client received and the final state are exactly those of the sequential
   execution of the same commands in the order of their EExec events. *)
Theorem C08_linearizable es m :
  mrun mach0 es = Some m ->
  let ops := exec_order [] es in
  seq_run state0 ops = (m_st m, map (fun x => snd x) (m_done m)) /\
  map fst (m_done m) = map (fun '(c, _, cmd) => (c, cmd)) ops.
Proof.
  intros Hr ops. destruct (linearizable_gen es [] mach0 m pend_ok0 Hr) as (d & Hd & Hq & Hk).
  simpl in Hd. subst d. split; [exact Hq|]. rewrite Hk. apply map_ext. intros [[c n] cmd]; reflexivity.
Qed.
Print Assumptions C08_linearizable.

(* ---------- 2. program order ---------- *)
(* the commands connection c put on the wire, in order *)
Fixpoint invoked_by (c : N) (es : list ev) : list (list bytes) :=
  match es with
  | [] => []
  | EInvoke c' cmd :: r => if N.eqb c' c then cmd :: invoked_by c r else invoked_by c r
  | _ :: r => invoked_by c r
  end.

(* the commands of connection c in the completed-operation list, in linearization order *)
Fixpoint done_by (c : N) (d : list (N * list bytes * resp)) : list (list bytes) :=
  match d with
  | [] => []
  | (c', cmd, _) :: r => if N.eqb c' c then cmd :: done_by c r else done_by c r
  end.

Lemma done_by_app c d1 d2 : done_by c (d1 ++ d2) = done_by c d1 ++ done_by c d2.
Proof.
  induction d1 as [|[[c' cmd] r] d1 IH]; simpl; auto.
  destruct (N.eqb c' c); simpl; rewrite IH; reflexivity.
Qed.

(* the command of c that waits for the lock, if any *)
Definition waiting (m : mach) (c : N) : list (list bytes) :=
  match cst_of m c with CInvoked cmd => [cmd] | _ => [] end.

Lemma program_order_gen c es : forall m m',
  mrun m es = Some m' ->
  exists d, m_done m' = m_done m ++ d /\
            waiting m c ++ invoked_by c es = done_by c d ++ waiting m' c.
Proof.
  induction es as [|e es IH]; intros m m' Hr.
  - simpl in Hr. inversion Hr; subst m'. exists []. rewrite !app_nil_r. simpl. auto.
  - apply mrun_cons in Hr as (m1 & Hs & Hr). destruct (IH _ _ Hr) as (d & Hd & Hq).
    destruct e as [c0 cmd|c0 now|c0].
    + apply mstep_invoke in Hs as [Hi ->]. exists d. split; [exact Hd|].
      rewrite <- Hq. simpl. unfold waiting.
      destruct (N.eqb c0 c) eqn:E.
      * apply N.eqb_eq in E; subst c0. rewrite Hi, cst_of_set_same. reflexivity.
      * apply N.eqb_neq in E. rewrite cst_of_set_other by congruence. reflexivity.
    + apply mstep_exec in Hs as (cmd & Hi & ->).
      exists ((c0, cmd, o_reply (step now (m_st m) c0 cmd)) :: d). simpl in Hd. split.
      * rewrite Hd, <- app_assoc. reflexivity.
      * simpl. unfold waiting in *. destruct (N.eqb c0 c) eqn:E.
        -- apply N.eqb_eq in E; subst c0. rewrite Hi. rewrite cst_of_set_same in Hq.
           simpl in *. rewrite Hq. reflexivity.
        -- apply N.eqb_neq in E. rewrite cst_of_set_other in Hq by congruence. exact Hq.
    + apply mstep_respond in Hs as [(cmd & r & Hi) ->]. exists d. split; [exact Hd|].
      rewrite <- Hq. simpl. unfold waiting. destruct (N.eq_dec c c0) as [->|Hn].
      * rewrite Hi, cst_of_set_same. reflexivity.
      * rewrite cst_of_set_other by exact Hn. reflexivity.
Qed.

(* For each connection c, the operations of c in the linearization are exactly the commands c
   invoked, in the order c invoked them (only the command still waiting for the lock is missing). *)
Theorem C08_program_order es m c :
  mrun mach0 es = Some m ->
  invoked_by c es = done_by c (m_done m) ++ waiting m c.
Proof.
  intro Hr. destruct (program_order_gen c es mach0 m Hr) as (d & Hd & Hq).
  simpl in Hd. subst d. exact Hq.
Qed.
Print Assumptions C08_program_order.

(* one command in flight per connection: a second EInvoke on c is refused until c responded *)
Theorem C08_one_in_flight m c cmd :
  cst_of m c <> CIdle -> mstep m (EInvoke c cmd) = None.
Proof. intro H. simpl. destruct (cst_of m c); congruence. Qed.
Print Assumptions C08_one_in_flight.

(* ---------- 4. no lost and no duplicated operations ---------- *)
Definition is_exec (e : ev) : bool := match e with EExec _ _ => true | _ => false end.
Definition nexec (es : list ev) : nat := length (filter is_exec es).

Lemma nexec_app a b : nexec (a ++ b) = nexec a + nexec b.
Proof. unfold nexec. rewrite filter_app, app_length. reflexivity. Qed.

(* each EExec extends m_done by exactly one entry, the other events leave it unchanged *)
Theorem C08_step_done m e m' :
  mstep m e = Some m' ->
  match e with
  | EExec c now => exists cmd, cst_of m c = CInvoked cmd /\
                     m_st m' = o_st (step now (m_st m) c cmd) /\
                     m_done m' = m_done m ++ [(c, cmd, o_reply (step now (m_st m) c cmd))]
  | _ => m_done m' = m_done m /\ m_st m' = m_st m
  end.
Proof.
  destruct e as [c cmd|c now|c]; intro H.
  - apply mstep_invoke in H as [_ ->]. auto.
  - apply mstep_exec in H as (cmd & Hi & ->). exists cmd. auto.
  - apply mstep_respond in H as [_ ->]. auto.
Qed.
Print Assumptions C08_step_done.

Lemma mrun_done_len es : forall m m',
  mrun m es = Some m' -> exists d, m_done m' = m_done m ++ d /\ length d = nexec es.
Proof.
  induction es as [|e es IH]; intros m m' Hr.
  - simpl in Hr. inversion Hr; subst. exists []. rewrite app_nil_r. auto.
  - apply mrun_cons in Hr as (m1 & Hs & Hr). destruct (IH _ _ Hr) as (d & Hd & Hl).
    pose proof (C08_step_done _ _ _ Hs) as H1. destruct e as [c cmd|c now|c].
    + destruct H1 as [H1 _]. exists d. rewrite Hd, H1. auto.
    + destruct H1 as (cmd & _ & _ & H1). exists ((c, cmd, o_reply (step now (m_st m) c cmd)) :: d).
      rewrite Hd, H1, <- app_assoc. split; [reflexivity|]. unfold nexec in *. simpl. lia.
    + destruct H1 as [H1 _]. exists d. rewrite Hd, H1. auto.
Qed.

(* per-connection event counts *)
Definition ev_conn (e : ev) : N := match e with EInvoke c _ | EExec c _ | ERespond c => c end.
Definition count_inv (c : N) (es : list ev) : nat :=
  length (filter (fun e => match e with EInvoke c' _ => N.eqb c' c | _ => false end) es).
Definition count_exec (c : N) (es : list ev) : nat :=
  length (filter (fun e => match e with EExec c' _ => N.eqb c' c | _ => false end) es).
Definition count_resp (c : N) (es : list ev) : nat :=
  length (filter (fun e => match e with ERespond c' => N.eqb c' c | _ => false end) es).
Definition n_waiting (m : mach) (c : N) : nat := match cst_of m c with CInvoked _ => 1 | _ => 0 end.
Definition n_unanswered (m : mach) (c : N) : nat := match cst_of m c with CExecuted _ _ => 1 | _ => 0 end.

Lemma counts_gen c es : forall m m',
  mrun m es = Some m' ->
  n_waiting m c + count_inv c es = count_exec c es + n_waiting m' c /\
  n_unanswered m c + count_exec c es = count_resp c es + n_unanswered m' c.
Proof.
  induction es as [|e es IH]; intros m m' Hr.
  - simpl in Hr. inversion Hr; subst. unfold count_inv, count_exec, count_resp; simpl. lia.
  - apply mrun_cons in Hr as (m1 & Hs & Hr). destruct (IH _ _ Hr) as [H1 H2]. clear IH.
    unfold count_inv, count_exec, count_resp, n_waiting, n_unanswered in *.
    destruct e as [c0 cmd|c0 now|c0]; simpl filter.
    + apply mstep_invoke in Hs as [Hi ->]. destruct (N.eqb c0 c) eqn:E.
      * apply N.eqb_eq in E; subst c0. rewrite Hi. rewrite cst_of_set_same in H1, H2. simpl in *. lia.
      * apply N.eqb_neq in E. rewrite cst_of_set_other in H1, H2 by congruence. lia.
    + apply mstep_exec in Hs as (cmd & Hi & ->). destruct (N.eqb c0 c) eqn:E.
      * apply N.eqb_eq in E; subst c0. rewrite Hi. rewrite cst_of_set_same in H1, H2. simpl in *. lia.
      * apply N.eqb_neq in E. rewrite cst_of_set_other in H1, H2 by congruence. lia.
    + apply mstep_respond in Hs as [(cmd & r & Hi) ->]. destruct (N.eqb c0 c) eqn:E.
      * apply N.eqb_eq in E; subst c0. rewrite Hi. rewrite cst_of_set_same in H1, H2. simpl in *. lia.
      * apply N.eqb_neq in E. rewrite cst_of_set_other in H1, H2 by congruence. lia.
Qed.

Lemma done_by_length_gen c es : forall m m',
  mrun m es = Some m' -> exists d, m_done m' = m_done m ++ d /\ length (done_by c d) = count_exec c es.
Proof.
  induction es as [|e es IH]; intros m m' Hr.
  - simpl in Hr. inversion Hr; subst. exists []. rewrite app_nil_r. auto.
  - apply mrun_cons in Hr as (m1 & Hs & Hr). destruct (IH _ _ Hr) as (d & Hd & Hl).
    pose proof (C08_step_done _ _ _ Hs) as H1. unfold count_exec in *. destruct e as [c0 cmd|c0 now|c0].
    + destruct H1 as [H1 _]. exists d. rewrite Hd, H1. auto.
    + destruct H1 as (cmd & _ & _ & H1). exists ((c0, cmd, o_reply (step now (m_st m) c0 cmd)) :: d).
      rewrite Hd, H1, <- app_assoc. split; [reflexivity|]. simpl.
      destruct (N.eqb c0 c); simpl; lia.
    + destruct H1 as [H1 _]. exists d. rewrite Hd, H1. auto.
Qed.

(* No lost update, no duplicate execution: the completed operations are in one-to-one
   correspondence with the EExec events; on every connection each invoked command is executed
   exactly once (except the one still waiting for the lock) and each executed command is answered
   exactly once (except the one whose reply is not yet delivered). *)
Theorem C08_complete_ops es m :
  mrun mach0 es = Some m ->
  length (m_done m) = nexec es /\
  forall c,
    length (done_by c (m_done m)) = count_exec c es /\
    count_inv c es = count_exec c es + n_waiting m c /\
    count_exec c es = count_resp c es + n_unanswered m c.
Proof.
  intro Hr. split.
  - destruct (mrun_done_len es _ _ Hr) as (d & Hd & Hl). simpl in Hd. subst d. exact Hl.
  - intro c. destruct (done_by_length_gen c es _ _ Hr) as (d & Hd & Hl). simpl in Hd. subst d.
    destruct (counts_gen c es _ _ Hr) as [H1 H2].
    unfold n_waiting at 1 in H1. unfold n_unanswered at 1 in H2.
    unfold cst_of, mach0 in H1, H2; simpl in H1, H2. auto.
Qed.
Print Assumptions C08_complete_ops.

(* ---------- 3. real-time order ---------- *)
Lemma mrun_app es1 : forall es2 m m',
  mrun m (es1 ++ es2) = Some m' -> exists mid, mrun m es1 = Some mid /\ mrun mid es2 = Some m'.
Proof.
  induction es1 as [|e es1 IH]; intros es2 m m' Hr.
  - exists m. auto.
  - simpl in Hr |- *. destruct (mstep m e) as [m1|]; [|discriminate]. apply IH; exact Hr.
Qed.

Lemma mstep_other m e m' c : mstep m e = Some m' -> ev_conn e <> c -> cst_of m' c = cst_of m c.
Proof.
  intros Hs Hn. destruct e as [c0 cmd|c0 now|c0]; simpl in Hn.
  - apply mstep_invoke in Hs as [_ ->]. apply cst_of_set_other; congruence.
  - apply mstep_exec in Hs as (cmd & _ & ->). apply cst_of_set_other; congruence.
  - apply mstep_respond in Hs as [_ ->]. apply cst_of_set_other; congruence.
Qed.

Lemma mrun_other c es : forall m m',
  mrun m es = Some m' -> (forall e, In e es -> ev_conn e <> c) -> cst_of m' c = cst_of m c.
Proof.
  induction es as [|e es IH]; intros m m' Hr Hn.
  - simpl in Hr. inversion Hr; reflexivity.
  - apply mrun_cons in Hr as (m1 & Hs & Hr).
    rewrite (IH _ _ Hr) by (intros e' He'; apply Hn; right; exact He').
    eapply mstep_other; [exact Hs | apply Hn; left; reflexivity].
Qed.

(* no event of connection c strictly between positions a and b *)
Definition quiet (c : N) (es : list ev) (a b : nat) : Prop :=
  forall k e, a < k < b -> nth_error es k = Some e -> ev_conn e <> c.

Lemma split_at {A} (l : list A) i x :
  nth_error l i = Some x -> l = firstn i l ++ x :: skipn (S i) l /\ length (firstn i l) = i.
Proof.
  revert i; induction l as [|y l IH]; intros [|i] H; simpl in *; try discriminate.
  - inversion H; auto.
  - destruct (IH _ H) as [H1 H2]. split; [f_equal; exact H1 | f_equal; exact H2].
Qed.

(* The EExec at position q of a run appends to the completed list, at index (number of EExec
   events before q), the command that waited on that connection together with the reply computed
   on the state at that moment; the entry stays there. *)
Theorem C08_exec_entry es m q c now :
  mrun mach0 es = Some m -> nth_error es q = Some (EExec c now) ->
  exists mq cmd, mrun mach0 (firstn q es) = Some mq /\ cst_of mq c = CInvoked cmd /\
     nth_error (m_done m) (nexec (firstn q es)) = Some (c, cmd, o_reply (step now (m_st mq) c cmd)).
Proof.
  intros Hr Hq. destruct (split_at _ _ _ Hq) as [Hs _]. rewrite Hs in Hr.
  apply mrun_app in Hr as (mq & Hr1 & Hr2). apply mrun_cons in Hr2 as (m1 & Hs1 & Hr2).
  apply mstep_exec in Hs1 as (cmd & Hi & ->). exists mq, cmd. split; [exact Hr1|]. split; [exact Hi|].
  destruct (mrun_done_len _ _ _ Hr1) as (d1 & Hd1 & Hl1). simpl in Hd1. subst d1.
  destruct (mrun_done_len _ _ _ Hr2) as (d2 & Hd2 & _). simpl in Hd2.
  rewrite Hd2, <- app_assoc, <- Hl1, nth_error_app2 by lia. rewrite Nat.sub_diag. reflexivity.
Qed.
Print Assumptions C08_exec_entry.

(* an unanswered executed command was executed by an EExec after which the connection was quiet *)
Lemma executed_has_exec c es : forall m m' cmd r,
  mrun m es = Some m' -> cst_of m' c = CExecuted cmd r ->
  (cst_of m c = CExecuted cmd r /\ forall e, In e es -> ev_conn e <> c) \/
  (exists p now, nth_error es p = Some (EExec c now) /\ quiet c es p (length es)).
Proof.
  induction es as [|e es IH]; intros m m' cmd r Hr Hx.
  - simpl in Hr. inversion Hr; subst. left. split; [exact Hx | intros e []].
  - apply mrun_cons in Hr as (m1 & Hs & Hr). destruct (IH _ _ _ _ Hr Hx) as [[H1 H2]|(p & now & Hp & Hq)].
    + destruct (N.eq_dec (ev_conn e) c) as [He|He].
      * right. destruct e as [c0 cmd0|c0 now|c0]; simpl in He; subst c0.
        -- apply mstep_invoke in Hs as [_ ->]. rewrite cst_of_set_same in H1. discriminate.
        -- exists 0, now. split; [reflexivity|]. intros k e' Hk He'.
           destruct k as [|k]; [lia|]. simpl in He'. apply H2. eapply nth_error_In; exact He'.
        -- apply mstep_respond in Hs as [_ ->]. rewrite cst_of_set_same in H1. discriminate.
      * left. split.
        -- rewrite <- H1. symmetry. eapply mstep_other; eauto.
        -- intros e' [<-|He']; auto.
    + right. exists (S p), now. split; [exact Hp|]. intros k e' Hk He'.
      destruct k as [|k]; [lia|]. simpl in He', Hk. eapply (Hq k); [lia | exact He'].
Qed.

Lemma nth_error_firstn_lt {A} (l : list A) : forall i p, p < i -> nth_error (firstn i l) p = nth_error l p.
Proof.
  induction l as [|x l IH]; intros i p H.
  - rewrite firstn_nil. reflexivity.
  - destruct i as [|i]; [lia|]. destruct p as [|p]; simpl; [reflexivity|]. apply IH. lia.
Qed.

Lemma quiet_firstn c es p i : quiet c (firstn i es) p i -> quiet c es p i.
Proof.
  intros Hq k e Hk He. apply (Hq k e Hk).
  rewrite nth_error_firstn_lt by lia. exact He.
Qed.

Lemma firstn_lt_exec es p q e :
  p < q -> nth_error es p = Some e -> is_exec e = true -> nexec (firstn p es) < nexec (firstn q es).
Proof.
  intros Hpq Hp He. destruct (split_at _ _ _ Hp) as [Hs Hl].
  assert (Hq : firstn q es = firstn p es ++ e :: firstn (q - S p) (skipn (S p) es)).
  { rewrite Hs at 1. rewrite firstn_app, Hl.
    rewrite firstn_all2 by (rewrite Hl; lia).
    replace (q - p) with (S (q - S p)) by lia. reflexivity. }
  rewrite Hq, nexec_app. unfold nexec at 3. simpl. rewrite He. simpl. lia.
Qed.

(* Real-time precedence.  If an operation a (connection ca) was answered at position i and an
   operation b (connection cb, command cmdb) was invoked at a later position j, then
   - a was executed by an EExec at some position p < i after which ca stayed quiet until i,
     and a sits in the completed list at index nexec (firstn p es);
   - whenever b is executed (the first event of cb after j, at position q), it sits in the
     completed list at a strictly larger index, with the command invoked at j. *)
Theorem C08_real_time es m i j ca cb cmdb :
  mrun mach0 es = Some m -> i < j ->
  nth_error es i = Some (ERespond ca) -> nth_error es j = Some (EInvoke cb cmdb) ->
  exists p nowa cmda ra,
    p < i /\ nth_error es p = Some (EExec ca nowa) /\ quiet ca es p i /\
    nth_error (m_done m) (nexec (firstn p es)) = Some (ca, cmda, ra) /\
    forall q nowb, j < q -> nth_error es q = Some (EExec cb nowb) -> quiet cb es j q ->
      exists rb, nth_error (m_done m) (nexec (firstn q es)) = Some (cb, cmdb, rb) /\
                 nexec (firstn p es) < nexec (firstn q es).
Proof.
  intros Hr Hij Hi Hj.
  (* the exec of a *)
  destruct (split_at _ _ _ Hi) as [Hsi Hli].
  assert (Hr' := Hr). rewrite Hsi in Hr'.
  apply mrun_app in Hr' as (mi & Hri & Hri2). apply mrun_cons in Hri2 as (mi' & Hsi' & _).
  apply mstep_respond in Hsi' as [(cmda & ra & Hxa) _].
  destruct (executed_has_exec ca _ _ _ _ _ Hri Hxa) as [[H0 _]|(p & nowa & Hp & Hq)].
  { unfold cst_of, mach0 in H0; simpl in H0. discriminate. }
  assert (Hpi : p < i).
  { rewrite <- Hli. apply nth_error_Some. rewrite Hp. discriminate. }
  rewrite nth_error_firstn_lt in Hp by exact Hpi. rewrite Hli in Hq.
  apply quiet_firstn in Hq.
  destruct (C08_exec_entry _ _ _ _ _ Hr Hp) as (mp & cmdp & _ & _ & Hentry).
  exists p, nowa, cmdp, (o_reply (step nowa (m_st mp) ca cmdp)).
  split; [exact Hpi|]. split; [exact Hp|]. split; [exact Hq|]. split; [exact Hentry|].
  (* the exec of b *)
  intros q nowb Hjq Hqe Hqq.
  destruct (C08_exec_entry _ _ _ _ _ Hr Hqe) as (mq & cmdq & Hrq & Hiq & Hentq).
  assert (Hcmd : cmdq = cmdb).
  { assert (Hjf : nth_error (firstn q es) j = Some (EInvoke cb cmdb))
      by (rewrite nth_error_firstn_lt by exact Hjq; exact Hj).
    destruct (split_at _ _ _ Hjf) as [Hsj Hlj]. rewrite Hsj in Hrq.
    apply mrun_app in Hrq as (mj & _ & Hrq). apply mrun_cons in Hrq as (mj' & Hsj' & Hrq).
    apply mstep_invoke in Hsj' as [_ ->].
    rewrite (mrun_other cb _ _ _ Hrq) in Hiq.
    - rewrite cst_of_set_same in Hiq. inversion Hiq; reflexivity.
    - intros e He. apply In_nth_error in He as [k Hk].
      assert (Hkq : nth_error (firstn q es) (S j + k) = Some e).
      { rewrite Hsj at 1. rewrite nth_error_app2 by lia. rewrite Hlj.
        replace (S j + k - j) with (S k) by lia. exact Hk. }
      assert (Hlt : S j + k < q).
      { assert (Hlen : S j + k < length (firstn q es)) by (apply nth_error_Some; rewrite Hkq; discriminate).
        rewrite firstn_length in Hlen. lia. }
      rewrite nth_error_firstn_lt in Hkq by exact Hlt.
      apply (Hqq (S j + k) e); [lia | exact Hkq]. }
  subst cmdq. eexists. split; [exact Hentq|].
  apply (firstn_lt_exec es p q (EExec ca nowa)); [lia | exact Hp | reflexivity].
Qed.
Print Assumptions C08_real_time.

(* the response at position i really belongs to the operation found by C08_real_time: a respond
   is only enabled for an executed, unanswered command, and the first event of a connection after
   its EInvoke can only be its EExec (so "the first cb-event after j" is b's execution). *)
Theorem C08_enabledness m c :
  (forall cmd, mstep m (EInvoke c cmd) <> None <-> cst_of m c = CIdle) /\
  (forall now, mstep m (EExec c now) <> None <-> exists cmd, cst_of m c = CInvoked cmd) /\
  (mstep m (ERespond c) <> None <-> exists cmd r, cst_of m c = CExecuted cmd r).
Proof.
  repeat split; simpl; destruct (cst_of m c) eqn:E; try congruence; eauto;
    try (intros (? & ?); congruence); try (intros (? & ? & ?); congruence).
Qed.
Print Assumptions C08_enabledness.

(* ---------- example: two connections incrementing the same counter concurrently ---------- *)
Definition incr_k : list bytes := [s2b "incr"; s2b "k"].
Definition ex_events : list ev :=
  [ EInvoke 1 incr_k; EInvoke 2 incr_k;      (* both requests are on the wire *)
    EExec 2 100%Z; EExec 1 101%Z;            (* connection 2 wins the lock *)
    ERespond 1; ERespond 2;
    EInvoke 1 [s2b "get"; s2b "k"]; EExec 1 102%Z; ERespond 1 ].

Example C08_example_run :
  match mrun mach0 ex_events with
  | Some m => map (fun x => snd x) (m_done m) = [RInt 1; RInt 2; RBulk (s2b "2")] /\
              map fst (m_done m) = [(2%N, incr_k); (1%N, incr_k); (1%N, [s2b "get"; s2b "k"])] /\
              exec_order [] ex_events = [(2%N, 100%Z, incr_k); (1%N, 101%Z, incr_k); (1%N, 102%Z, [s2b "get"; s2b "k"])] /\
              seq_run state0 (exec_order [] ex_events) = (m_st m, map (fun x => snd x) (m_done m)) /\
              invoked_by 1 ex_events = done_by 1 (m_done m) ++ waiting m 1
  | None => False
  end.
Proof. vm_compute. repeat split. Qed.

(* no lost update: both increments are visible, whatever the interleaving chosen above *)
Example C08_example_invalid : mrun mach0 [EInvoke 1 incr_k; EInvoke 1 incr_k] = None.
Proof. reflexivity. Qed.

(* real-time order on the example: connection 2's INCR is answered at position 5, connection 1's
   GET is invoked at position 6; the INCR was executed at position 2 (index 0 of the completed
   list), the GET at position 7 (index 2) *)
Example C08_example_real_time :
  nth_error ex_events 5 = Some (ERespond 2) /\ nth_error ex_events 6 = Some (EInvoke 1 [s2b "get"; s2b "k"]) /\
  nth_error ex_events 2 = Some (EExec 2 100%Z) /\ nexec (firstn 2 ex_events) = 0 /\
  nth_error ex_events 7 = Some (EExec 1 102%Z) /\ nexec (firstn 7 ex_events) = 2.
Proof. vm_compute. repeat split. Qed.

Example C08_example_counts :
  nexec ex_events = 3 /\ count_inv 1 ex_events = 2 /\ count_exec 1 ex_events = 2 /\ count_resp 1 ex_events = 2 /\
  count_inv 2 ex_events = 1 /\ count_exec 2 ex_events = 1 /\ count_resp 2 ex_events = 1.
Proof. vm_compute. repeat split. Qed.
