(* Exec2.v — generic key commands and expiry (redisCore.go, dataStoreCommands.go) *)
From RE Require Import Base Resp State Exec.
From Coq Require Import String.
From Coq Require Import List.
Open Scope string_scope.
Open Scope list_scope.
Open Scope Z_scope.

(* ---------- glob (Redis stringmatchlen, bytes) ---------- *)
(* class body: returns (matched, rest-of-pattern-after-']') *)
Fixpoint glob_class (fuel : nat) (p : bytes) (c : byte) (acc : bool) : bool * bytes :=
  match fuel with
  | O => (acc, [])
  | S f =>
    match p with
    | [] => (acc, [])
    | 93%N :: r => (acc, r)                                   (* ']' *)
    | 92%N :: x :: r => glob_class f r c (acc || N.eqb x c)   (* '\\' x *)
    | a :: 45%N :: b :: r =>                                   (* a-b *)
      if N.eqb b 93%N then
        (* "a-]" : '-' is literal only when it is last; Redis treats a '-' followed by ']' as a range to ']' *)
        let lo := N.min a b in let hi := N.max a b in
        glob_class f r c (acc || ((lo <=? c)%N && (c <=? hi)%N))
      else
        let lo := N.min a b in let hi := N.max a b in
        glob_class f r c (acc || ((lo <=? c)%N && (c <=? hi)%N))
    | a :: r => glob_class f r c (acc || N.eqb a c)
    end
  end.

Fixpoint drop_stars (p : bytes) : bytes :=
  match p with 42%N :: r => drop_stars r | _ => p end.

Fixpoint glob (fuel : nat) (p s : bytes) : bool :=
  match fuel with
  | O => false
  | S f =>
    match p, s with
    | [], [] => true
    | [], _ :: _ => false
    | 42%N :: _, _ =>
      let p' := drop_stars p in
      match p' with
      | [] => true
      | _ =>
        (fix try (g : nat) (s : bytes) : bool :=
           match g with
           | O => false
           | S g' =>
             if glob f p' s then true else
             match s with [] => false | _ :: s' => try g' s' end
           end) (S (length s)) s
      end
    | _, [] => false
    | 63%N :: pr, _ :: sr => glob f pr sr
    | 91%N :: pr, c :: sr =>
      let '(neg, body) := match pr with 94%N :: b => (true, b) | _ => (false, pr) end in
      let '(m, rest) := glob_class (S (length body)) body c false in
      if xorb neg m then glob f rest sr else false
    | 92%N :: x :: pr, c :: sr => if N.eqb x c then glob f pr sr else false
    | x :: pr, c :: sr => if N.eqb x c then glob f pr sr else false
    end
  end.

Definition glob_match (p s : bytes) : bool := glob (S (length p + length s)) p s.

(* ---------- keyspace commands ---------- *)
Definition cmd_del (now : Z) (d : db) (args : list bytes) : res :=
  match args with
  | _ :: _ =>
    fold_left (fun acc k => let '(d, r) := acc in
                 match r with
                 | RInt n =>
                   match lookup now d k with
                   | Some _ => (del d k, RInt (n + 1))
                   | None => (d, RInt n)
                   end
                 | _ => acc
                 end) args (d, RInt 0)
  | _ => (d, argerr)
  end.

Definition cmd_exists (now : Z) (d : db) (args : list bytes) : res :=
  match args with
  | _ :: _ => (d, RInt (Zlen (filter (fun k => match lookup now d k with Some _ => true | None => false end) args)))
  | _ => (d, argerr)
  end.

Definition type_name (v : value) : bytes :=
  match v with
  | VStr _ => s2b "string" | VList _ => s2b "list" | VHash _ => s2b "hash" | VSet _ => s2b "set"
  end.

Definition cmd_type (now : Z) (d : db) (args : list bytes) : res :=
  match args with
  | [k] => (d, RSimple (match lookup now d k with Some e => type_name (e_val e) | None => s2b "none" end))
  | _ => (d, argerr)
  end.

Definition cmd_rename (nx : bool) (now : Z) (d : db) (args : list bytes) : res :=
  match args with
  | [src; dst] =>
    match lookup now d src with
    | None => (d, err "ERR no such key")
    | Some e =>
      if nx && (match lookup now d dst with Some _ => true | None => false end) then (d, RInt 0) else
      if bytes_eqb src dst then (d, if nx then RInt 0 else ok) else
      let d1 := del d src in
      (put d1 dst (e_val e) (e_exp e), if nx then RInt 1 else ok)
    end
  | _ => (d, argerr)
  end.

Definition cmd_copy (now : Z) (d : db) (args : list bytes) : res :=
  match args with
  | src :: dst :: opts =>
    let repl := match opts with
                | [] => Some false
                | [r] => if is_kw r "REPLACE" then Some true else None
                | _ => None
                end in
    match repl with
    | None => (d, argerr)
    | Some repl =>
      match lookup now d src with
      | None => (d, RInt 0)
      | Some e =>
        if negb repl && (match lookup now d dst with Some _ => true | None => false end) then (d, RInt 0)
        else (put d dst (e_val e) (e_exp e), RInt 1)
      end
    end
  | _ => (d, argerr)
  end.

Definition cmd_keys (now : Z) (d : db) (args : list bytes) : res :=
  match args with
  | [p] => (d, RArrU (bulks (filter (glob_match p) (keys_live now d))))
  | _ => (d, argerr)
  end.

Definition cmd_randomkey (now : Z) (d : db) (args : list bytes) : res :=
  match args with
  | [] => match keys_live now d with
          | [] => (d, RNil)
          | ks => (d, RPick (bulks ks) 1 true false)
          end
  | _ => (d, argerr)
  end.

Definition cmd_dbsize (now : Z) (d : db) (args : list bytes) : res :=
  match args with
  | [] => (d, RInt (Zlen (keys_live now d)))
  | _ => (d, argerr)
  end.

(* ---------- expiry ---------- *)
Inductive expcond := CNone | CNX | CXX | CGT | CLT.
Definition parse_cond (opts : list bytes) : option expcond :=
  match opts with
  | [] => Some CNone
  | [c] => if is_kw c "NX" then Some CNX else if is_kw c "XX" then Some CXX else
           if is_kw c "GT" then Some CGT else if is_kw c "LT" then Some CLT else None
  | _ => None
  end.

(* dataStoreCommand.expire *)
Definition expire_core (now : Z) (d : db) (k : bytes) (t : Z) (c : expcond) : res :=
  match lookup now d k with
  | None => (d, RInt 0)
  | Some e =>
    let okc := match c, e_exp e with
               | CNone, _ => true
               | CNX, Some _ => false | CNX, None => true
               | CXX, Some _ => true | CXX, None => false
               | CGT, Some cur => cur <? t | CGT, None => false
               | CLT, Some cur => t <? cur | CLT, None => true
               end in
    if okc then (set_exp d k e (Some t), RInt 1) else (d, RInt 0)
  end.

Definition cmd_expire (unit : Z) (rel : bool) (now : Z) (d : db) (args : list bytes) : res :=
  match args with
  | k :: n :: opts =>
    match parse_i64 n, parse_cond opts with
    | Some n, Some c => expire_core now d k (if rel then now + n * unit else n * unit) c
    | _, _ => (d, argerr)
    end
  | _ => (d, argerr)
  end.

(* TTL / PTTL / EXPIRETIME / PEXPIRETIME *)
Definition cmd_ttl (unit : Z) (rel : bool) (now : Z) (d : db) (args : list bytes) : res :=
  match args with
  | [k] =>
    match lookup now d k with
    | None => (d, RInt (-2))
    | Some e =>
      match e_exp e with
      | None => (d, RInt (-1))
      | Some t => (d, RApprox (if rel then t / unit - now / unit else t / unit) (unit / msec))
      end
    end
  | _ => (d, argerr)
  end.

Definition cmd_persist (now : Z) (d : db) (args : list bytes) : res :=
  match args with
  | [k] =>
    match lookup now d k with
    | None => (d, RInt 0)
    | Some e => match e_exp e with
                | None => (d, RInt 0)
                | Some _ => (set_exp d k e None, RInt 1)
                end
    end
  | _ => (d, argerr)
  end.

Definition cmd_touch (now : Z) (d : db) (args : list bytes) : res := cmd_exists now d args.

(* SCAN cursor [MATCH p] [COUNT n] [TYPE t]: reply shape only here; C17 has the cursor walk *)
Fixpoint scan_opts (fuel : nat) (args : list bytes) (allow_type : bool) (m : option bytes) (c : option Z) (t : option bytes)
  : option (option bytes * option Z * option bytes) :=
  match fuel with
  | O => None
  | S f =>
    match args with
    | [] => Some (m, c, t)
    | a :: v :: r =>
      if is_kw a "MATCH" then match m with Some _ => None | None => scan_opts f r allow_type (Some v) c t end
      else if is_kw a "COUNT" then
        match c, parse_i64 v with None, Some n => scan_opts f r allow_type m (Some n) t | _, _ => None end
      else if allow_type && is_kw a "TYPE" then match t with Some _ => None | None => scan_opts f r allow_type m c (Some v) end
      else None
    | _ => None
    end
  end.

Definition type_kw (t : bytes) : option vtype :=
  if is_kw t "string" then Some TStr else if is_kw t "list" then Some TList else
  if is_kw t "hash" then Some THash else if is_kw t "set" then Some TSet else None.

Definition cmd_scan (now : Z) (d : db) (args : list bytes) : res :=
  match args with
  | cur :: opts =>
    match parse_i64 cur, scan_opts (S (length opts)) opts true None None None with
    | Some cur, Some (m, c, t) =>
      if match c with Some n => n <? 1 | None => false end then (d, syntaxerr) else
      let ks := filter (fun ke =>
                  (match m with Some p => glob_match p (fst ke) | None => true end) &&
                  (match t with
                   | Some tn => match type_kw tn with
                                | Some ty => vtype_eqb ty (type_of (e_val (snd ke)))
                                | None => false end
                   | None => true end)) (live now d) in
      (d, RScan (bulks (map fst ks)) false)
    | _, _ => (d, argerr)
    end
  | _ => (d, argerr)
  end.

Definition cmd_hscan (now : Z) (d : db) (args : list bytes) : res :=
  match args with
  | k :: cur :: opts =>
    match parse_i64 cur, scan_opts (S (length opts)) opts false None None None with
    | Some cur, Some (m, c, _) =>
      if match c with Some n => n <? 1 | None => false end then (d, syntaxerr) else
      match get_hash now d k with
      | None => (d, wrongtype)
      | Some None => (d, RArr [RBulk (s2b "0"); RArr []])
      | Some (Some (h, _)) =>
        let fs := filter (fun fv => match m with Some p => glob_match p (fst fv) | None => true end) h in
        (d, RScan (map (fun fv => RArr [RBulk (fst fv); RBulk (snd fv)]) fs) true)
      end
    | _, _ => (d, argerr)
    end
  | _ => (d, argerr)
  end.

Definition cmd_sscan (now : Z) (d : db) (args : list bytes) : res :=
  match args with
  | k :: cur :: opts =>
    match parse_i64 cur, scan_opts (S (length opts)) opts false None None None with
    | Some cur, Some (m, c, _) =>
      if match c with Some n => n <? 1 | None => false end then (d, syntaxerr) else
      match get_set now d k with
      | None => (d, wrongtype)
      | Some None => (d, RArr [RBulk (s2b "0"); RArr []])
      | Some (Some (s, _)) =>
        (d, RScan (bulks (filter (fun x => match m with Some p => glob_match p x | None => true end) s)) false)
      end
    | _, _ => (d, argerr)
    end
  | _ => (d, argerr)
  end.
