(* PropC06Sort.v — theorems about the SORT model of Sort.v (all closed under the global context).

   1. ORDER FACTS
      bytes_cmp_refl / _eq / _antisym / _opp / _lt_trans / _total   bytes_cmp is a total order
      score_cmp_Qcompare   score_cmp a b = (sval a ?= sval b), sval s = sc_m s / 10^sc_k s in Q
      score_cmp_lt / _eq / _gt / _cross / _refl / _opp / _lt_trans / _eq_trans / _eq_compat /
      _le_trans            score_cmp is a total preorder (comparison of the rational values)
      parse_score_sound / _complete / _iff, score_of_value
                           parse_score accepts exactly [+-]? digits* [. digits*]? with a digit
   2. SORTING  (item_le desc is a total preorder on ALL keys: no homogeneity hypothesis needed)
      item_le_flip / _refl / _total / _trans / _antisym / _antisym_elem, item_le_asc_num / _str
      sort_items_perm, sort_items_sorted, sort_items_id
      sorted_perm_unique, sorted_perm_unique_elems, sort_items_unique, sort_items_perm_invariant
      sort_items_desc_rev  map snd (sort true l) = rev (map snd (sort false l)), for EVERY l
      desc_rev_items_counterexample, sort_items_desc_rev_items_partial, keyed_desc_rev
                           on the items themselves "DESC = rev ASC for NoDup lists" is false
      keyed_some_iff, keyed_none_iff, key_of_none, keyed_shape, keyed_sort_perm_invariant
   3. LIMIT
      limit_window_none / _some / _bounds / _cases, window_length, window_nth, window_all,
      limit_window_window
   4. PATTERNS
      pattern_get_self / _nostar / _string / _field, pattern_cases (exhaustive),
      split_arrow_none_iff / _first / _some_inv, lookup_none_iff
   5. COMMAND LEVEL
      cmd_sort_run, sort_run_wrongtype / _list / _set / _missing   full characterisation by source
      sort_nostore_db, sort_error_inert                             (a)
      sort_store, sort_store_list, sort_reply_list                  (b)
      sort_wrongtype, sort_missing                                  (c)
      sort_numeric_list (with uniqueness), sort_numeric_list_bad    (d)
      sort_by_nosort_list, sort_by_nosort_list_gen                  (e)
   6. EXAMPLES (module Ex6) by vm_compute: BY weights, GET # and hash field, LIMIT, DESC, ALPHA,
      STORE, sets, errors.                                                                     *)
From RE Require Import Base Resp State Exec Sort Lemmas.
From Coq Require Import String List ZArith NArith Lia Bool Permutation Sorted QArith.
Import ListNotations.
Open Scope string_scope.
Open Scope list_scope.
Open Scope Z_scope.

(* ================================================================== *)
(* 1. ORDER FACTS                                                      *)
(* ================================================================== *)

(* ---------- bytes_ltb : strict lexicographic order ---------- *)
Lemma bytes_ltb_irrefl a : bytes_ltb a a = false.
Proof.
  induction a as [|x a IH]; simpl; [reflexivity|].
  rewrite N.ltb_irrefl, N.eqb_refl. exact IH.
Qed.

Lemma bytes_ltb_trans a b c :
  bytes_ltb a b = true -> bytes_ltb b c = true -> bytes_ltb a c = true.
Proof.
  revert b c; induction a as [|x a IH]; intros [|y b] [|z c]; simpl; try congruence.
  intros H1 H2.
  destruct (N.ltb_spec x y) as [Lxy|Lxy]; destruct (N.ltb_spec y z) as [Lyz|Lyz];
    destruct (N.ltb_spec x z) as [Lxz|Lxz]; try reflexivity;
    destruct (N.eqb_spec x y) as [Exy|Exy]; destruct (N.eqb_spec y z) as [Eyz|Eyz];
    destruct (N.eqb_spec x z) as [Exz|Exz]; subst; try lia; try discriminate.
  eapply IH; eassumption.
Qed.

Lemma bytes_ltb_tricho a b : bytes_ltb a b = false -> bytes_ltb b a = false -> a = b.
Proof.
  revert b; induction a as [|x a IH]; intros [|y b]; simpl; try congruence.
  intros H1 H2.
  destruct (N.ltb_spec x y) as [Lxy|Lxy]; [discriminate|].
  destruct (N.ltb_spec y x) as [Lyx|Lyx]; [discriminate|].
  assert (x = y) by lia. subst y. rewrite N.eqb_refl in H1, H2.
  f_equal. apply IH; assumption.
Qed.

Lemma bytes_ltb_asym a b : bytes_ltb a b = true -> bytes_ltb b a = false.
Proof.
  intro H. destruct (bytes_ltb b a) eqn:E; [|reflexivity].
  pose proof (bytes_ltb_trans _ _ _ H E) as T. rewrite bytes_ltb_irrefl in T. discriminate.
Qed.

(* ---------- bytes_cmp ---------- *)
Theorem bytes_cmp_refl a : bytes_cmp a a = Eq.
Proof. unfold bytes_cmp. rewrite bytes_eqb_refl. reflexivity. Qed.

Theorem bytes_cmp_eq a b : bytes_cmp a b = Eq <-> a = b.
Proof.
  unfold bytes_cmp. destruct (bytes_eqb a b) eqn:E.
  - apply bytes_eqb_eq in E. tauto.
  - apply bytes_eqb_neq in E. destruct (bytes_ltb a b); split; intro H; try discriminate; contradiction.
Qed.

Lemma bytes_cmp_lt a b : bytes_cmp a b = Lt <-> bytes_ltb a b = true.
Proof.
  unfold bytes_cmp. destruct (bytes_eqb a b) eqn:E.
  - apply bytes_eqb_eq in E. subst b. rewrite bytes_ltb_irrefl. split; discriminate.
  - destruct (bytes_ltb a b); split; intro H; try reflexivity; discriminate.
Qed.

Lemma bytes_cmp_gt a b : bytes_cmp a b = Gt <-> bytes_ltb b a = true.
Proof.
  unfold bytes_cmp. destruct (bytes_eqb a b) eqn:E.
  - apply bytes_eqb_eq in E. subst b. rewrite bytes_ltb_irrefl. split; discriminate.
  - apply bytes_eqb_neq in E. destruct (bytes_ltb a b) eqn:L.
    + rewrite (bytes_ltb_asym _ _ L). split; discriminate.
    + destruct (bytes_ltb b a) eqn:L'; [tauto|].
      exfalso. apply E. apply bytes_ltb_tricho; assumption.
Qed.

Theorem bytes_cmp_antisym a b : bytes_cmp a b = Lt <-> bytes_cmp b a = Gt.
Proof. rewrite bytes_cmp_lt, bytes_cmp_gt. tauto. Qed.

Theorem bytes_cmp_opp a b : bytes_cmp b a = CompOpp (bytes_cmp a b).
Proof.
  destruct (bytes_cmp a b) eqn:E; simpl.
  - apply bytes_cmp_eq in E. subst. apply bytes_cmp_refl.
  - apply bytes_cmp_antisym. exact E.
  - apply bytes_cmp_gt in E. apply bytes_cmp_lt. exact E.
Qed.

Theorem bytes_cmp_lt_trans a b c :
  bytes_cmp a b = Lt -> bytes_cmp b c = Lt -> bytes_cmp a c = Lt.
Proof. rewrite !bytes_cmp_lt. apply bytes_ltb_trans. Qed.

(* exactly one of the three cases: totality *)
Theorem bytes_cmp_total a b : bytes_cmp a b = Lt \/ a = b \/ bytes_cmp b a = Lt.
Proof.
  destruct (bytes_cmp a b) eqn:E.
  - right; left. apply bytes_cmp_eq. exact E.
  - left; reflexivity.
  - right; right. apply bytes_cmp_antisym. exact E.
Qed.

Example bytes_cmp_ex :
  bytes_cmp (s2b "abc") (s2b "abd") = Lt /\ bytes_cmp (s2b "ab") (s2b "abc") = Lt /\
  bytes_cmp (s2b "b") (s2b "abc") = Gt /\ bytes_cmp (s2b "10") (s2b "9") = Lt.
Proof. vm_compute. repeat split. Qed.

Print Assumptions bytes_cmp_opp.
Print Assumptions bytes_cmp_lt_trans.

(* ---------- score_cmp : comparison of the rational values ---------- *)
Definition sval (s : score) : Q := Qmake (sc_m s) (Z.to_pos (10 ^ Z.of_nat (sc_k s))).

Lemma pow10_pos k : 0 < 10 ^ Z.of_nat k.
Proof. apply Z.pow_pos_nonneg; lia. Qed.

(* sval s is the quotient sc_m s / 10^sc_k s *)
Lemma sval_div s : (sval s == inject_Z (sc_m s) / inject_Z (10 ^ Z.of_nat (sc_k s)))%Q.
Proof.
  unfold sval. rewrite Qmake_Qdiv. rewrite Z2Pos.id by apply pow10_pos. reflexivity.
Qed.

Theorem score_cmp_Qcompare a b : score_cmp a b = (sval a ?= sval b)%Q.
Proof.
  unfold score_cmp, Qcompare, sval; simpl.
  rewrite !Z2Pos.id by apply pow10_pos. reflexivity.
Qed.

Theorem score_cmp_lt a b : score_cmp a b = Lt <-> (sval a < sval b)%Q.
Proof. rewrite score_cmp_Qcompare. symmetry. apply Qlt_alt. Qed.

Theorem score_cmp_eq a b : score_cmp a b = Eq <-> (sval a == sval b)%Q.
Proof. rewrite score_cmp_Qcompare. symmetry. apply Qeq_alt. Qed.

Theorem score_cmp_gt a b : score_cmp a b = Gt <-> (sval b < sval a)%Q.
Proof. rewrite score_cmp_Qcompare. symmetry. apply Qgt_alt. Qed.

(* the same by cross-multiplication on Z *)
Theorem score_cmp_cross a b :
  (score_cmp a b = Lt <-> sc_m a * 10 ^ Z.of_nat (sc_k b) < sc_m b * 10 ^ Z.of_nat (sc_k a)) /\
  (score_cmp a b = Eq <-> sc_m a * 10 ^ Z.of_nat (sc_k b) = sc_m b * 10 ^ Z.of_nat (sc_k a)) /\
  (score_cmp a b = Gt <-> sc_m a * 10 ^ Z.of_nat (sc_k b) > sc_m b * 10 ^ Z.of_nat (sc_k a)).
Proof.
  unfold score_cmp. repeat split; intro H;
    try (apply Z.compare_lt_iff; assumption); try (apply Z.compare_eq_iff; assumption);
    try (apply Z.compare_gt_iff; lia).
  apply Z.compare_gt_iff in H. lia.
Qed.

Theorem score_cmp_refl a : score_cmp a a = Eq.
Proof. apply score_cmp_eq. reflexivity. Qed.

Theorem score_cmp_opp a b : score_cmp b a = CompOpp (score_cmp a b).
Proof. rewrite !score_cmp_Qcompare. symmetry. apply Qcompare_antisym. Qed.

Theorem score_cmp_lt_trans a b c :
  score_cmp a b = Lt -> score_cmp b c = Lt -> score_cmp a c = Lt.
Proof. rewrite !score_cmp_lt. apply Qlt_trans. Qed.

Theorem score_cmp_eq_trans a b c :
  score_cmp a b = Eq -> score_cmp b c = Eq -> score_cmp a c = Eq.
Proof. rewrite !score_cmp_eq. apply Qeq_trans. Qed.

(* equal scores compare alike with everything *)
Theorem score_cmp_eq_compat a b x : score_cmp a b = Eq -> score_cmp a x = score_cmp b x.
Proof.
  rewrite score_cmp_eq, !score_cmp_Qcompare. intro H. rewrite H. reflexivity.
Qed.

(* "less or equal" is transitive: a total preorder *)
Theorem score_cmp_le_trans a b c :
  score_cmp a b <> Gt -> score_cmp b c <> Gt -> score_cmp a c <> Gt.
Proof.
  rewrite !score_cmp_Qcompare. intros H1 H2. change (sval a <= sval c)%Q.
  apply Qle_trans with (sval b); assumption.
Qed.

Example score_cmp_ex :
  score_cmp (mkSc 15 1) (mkSc 150 2) = Eq /\ score_cmp (mkSc (-3) 0) (mkSc 25 2) = Lt /\
  score_cmp (mkSc 1 0) (mkSc 999 3) = Gt.
Proof. vm_compute. repeat split. Qed.

Print Assumptions score_cmp_Qcompare.
Print Assumptions score_cmp_le_trans.

(* ---------- parse_score : [+-]? digits* [. digits*]?, at least one digit ---------- *)
Definition dstep (a : Z) (c : N) : Z := a * 10 + Z.of_N (c - 48).
(* the number a digit string denotes (leading zeros allowed, "" is 0) *)
Definition dec_val (l : list N) : Z := fold_left dstep l 0.
Definition all_digits (l : list N) : Prop := Forall (fun c => sdigit c = true) l.

Lemma digits_val_some l acc : all_digits l -> digits_val l acc = Some (fold_left dstep l acc).
Proof.
  revert acc; induction l as [|c l IH]; intros acc H; simpl; [reflexivity|].
  inversion H as [|? ? Hc Hl]; subst. rewrite Hc. apply IH. exact Hl.
Qed.

Lemma digits_val_inv l acc z :
  digits_val l acc = Some z -> all_digits l /\ z = fold_left dstep l acc.
Proof.
  revert acc; induction l as [|c l IH]; intros acc H; simpl in H.
  - inversion H. split; [constructor | reflexivity].
  - destruct (sdigit c) eqn:Hc; [|discriminate].
    apply IH in H as [H1 H2]. split; [constructor; assumption | exact H2].
Qed.

Lemma fold_dstep l acc : fold_left dstep l acc = acc * 10 ^ Z.of_nat (length l) + dec_val l.
Proof.
  unfold dec_val. revert acc; induction l as [|c l IH]; intro acc.
  - simpl. lia.
  - cbn [fold_left length]. rewrite IH, (IH (dstep 0 c)). unfold dstep.
    rewrite Nat2Z.inj_succ, Z.pow_succ_r by lia. lia.
Qed.

(* integer part and fraction part: value = ip + fp / 10^|fp| *)
Lemma dec_val_app a b : dec_val (a ++ b) = dec_val a * 10 ^ Z.of_nat (length b) + dec_val b.
Proof. unfold dec_val at 1. rewrite fold_left_app. rewrite fold_dstep. reflexivity. Qed.

Lemma dec_val_nonneg l : 0 <= dec_val l.
Proof.
  assert (G : forall acc, 0 <= acc -> 0 <= fold_left dstep l acc).
  { induction l as [|c l IH]; intros acc H; simpl; [exact H|]. apply IH. unfold dstep. lia. }
  apply G. lia.
Qed.

Definition strip_sign (b : bytes) : bool * bytes :=
  match b with
  | 45%N :: r => (true, r)
  | 43%N :: r => (false, r)
  | _ => (false, b)
  end.

Lemma strip_sign_eq b :
  strip_sign b = match b with
                 | [] => (false, [])
                 | c :: r => if N.eqb c 45 then (true, r) else if N.eqb c 43 then (false, r) else (false, c :: r)
                 end.
Proof.
  destruct b as [|c r]; [reflexivity|]. destruct c as [|p]; [reflexivity|].
  do 6 (destruct p as [p|p|]; try reflexivity).
Qed.

Lemma parse_score_unfold b :
  parse_score b =
  let '(neg, body) := strip_sign b in
  let '(ip, fp) := split_dot body in
  let fpd := match fp with Some f => f | None => [] end in
  match ip, fpd with
  | [], [] => None
  | _, _ => match digits_val (ip ++ fpd) 0 with
            | Some m => Some (mkSc (if neg then - m else m) (length fpd))
            | None => None
            end
  end.
Proof. reflexivity. Qed.

Lemma split_dot_inv l a fp :
  split_dot l = (a, fp) ->
  ~ In 46%N a /\ l = a ++ match fp with Some f => 46%N :: f | None => [] end.
Proof.
  revert a fp; induction l as [|c l IH]; intros a fp H; simpl in H.
  - inversion H; subst. split; [intros []|reflexivity].
  - destruct (N.eqb_spec c 46) as [E|E].
    + inversion H; subst. split; [intros []|reflexivity].
    + destruct (split_dot l) as [a' b'] eqn:S. inversion H; subst.
      destruct (IH a' fp eq_refl) as [H1 H2]. split.
      * intros [X|X]; [congruence|contradiction].
      * simpl. f_equal. exact H2.
Qed.

Lemma split_dot_app a fp :
  ~ In 46%N a -> split_dot (a ++ match fp with Some f => 46%N :: f | None => [] end) = (a, fp).
Proof.
  induction a as [|c a IH]; intro H; simpl.
  - destruct fp; reflexivity.
  - destruct (N.eqb_spec c 46) as [E|E]; [exfalso; apply H; left; auto|].
    rewrite IH; [reflexivity|]. intro X. apply H. right. exact X.
Qed.

Lemma digits_no_dot l : all_digits l -> ~ In 46%N l.
Proof.
  intros H X. unfold all_digits in H. rewrite Forall_forall in H. apply H in X. discriminate.
Qed.

(* sg is the sign text, neg its meaning *)
Definition sign_ok (sg : bytes) (neg : bool) : Prop :=
  (sg = [] /\ neg = false) \/ (sg = [43%N] /\ neg = false) \/ (sg = [45%N] /\ neg = true).

Definition frac_text (fp : option bytes) : bytes := match fp with Some f => 46%N :: f | None => [] end.
Definition frac_digits (fp : option bytes) : bytes := match fp with Some f => f | None => [] end.

(* the score denoted by sign, integer digits ip, optional fraction digits fp *)
Definition score_of (neg : bool) (ip : bytes) (fp : option bytes) : score :=
  let m := dec_val (ip ++ frac_digits fp) in
  mkSc (if neg then - m else m) (length (frac_digits fp)).

(* accepted strings have the shape, and the result is the denoted value *)
Theorem parse_score_sound b s :
  parse_score b = Some s ->
  exists sg neg ip fp,
    sign_ok sg neg /\ b = sg ++ ip ++ frac_text fp /\
    all_digits ip /\ all_digits (frac_digits fp) /\ ip ++ frac_digits fp <> [] /\
    s = score_of neg ip fp.
Proof.
  rewrite parse_score_unfold. intro H.
  destruct (strip_sign b) as [neg body] eqn:SS.
  destruct (split_dot body) as [ip fp] eqn:SD.
  apply split_dot_inv in SD as [_ SD].
  change (match fp with Some f => f | None => [] end) with (frac_digits fp) in H.
  assert (Hne : ip ++ frac_digits fp <> []).
  { intro X. apply app_eq_nil in X as [X1 X2]. rewrite X1, X2 in H. discriminate H. }
  assert (H' : match digits_val (ip ++ frac_digits fp) 0 with
               | Some m => Some (mkSc (if neg then - m else m) (length (frac_digits fp)))
               | None => None
               end = Some s).
  { destruct ip as [|i0 ip']; [|exact H].
    destruct (frac_digits fp) as [|f0 f]; [exfalso; apply Hne; reflexivity | exact H]. }
  assert (Hd : exists m, digits_val (ip ++ frac_digits fp) 0 = Some m /\
                         s = mkSc (if neg then - m else m) (length (frac_digits fp))).
  { destruct (digits_val (ip ++ frac_digits fp) 0) as [m|]; [|discriminate].
    inversion H'. eauto. }
  destruct Hd as [m [Hm Hs]]. apply digits_val_inv in Hm as [Hall Hm].
  assert (Hip : all_digits ip /\ all_digits (frac_digits fp)).
  { unfold all_digits in *. apply Forall_app in Hall. exact Hall. }
  destruct Hip as [Hip Hfp].
  assert (Hval : s = score_of neg ip fp).
  { unfold score_of. rewrite Hs, Hm. reflexivity. }
  rewrite strip_sign_eq in SS.
  destruct b as [|c r].
  - inversion SS; subst. exists [], false, ip, fp. repeat split; auto. left; auto.
  - destruct (N.eqb_spec c 45) as [E|E].
    + inversion SS; subst. exists [45%N], true, ip, fp. repeat split; auto. right; right; auto.
    + destruct (N.eqb_spec c 43) as [E'|E'].
      * inversion SS; subst. exists [43%N], false, ip, fp. repeat split; auto. right; left; auto.
      * inversion SS; subst. exists [], false, ip, fp. repeat split; auto. left; auto.
Qed.

(* every string of the shape is accepted *)
Theorem parse_score_complete sg neg ip fp :
  sign_ok sg neg -> all_digits ip -> all_digits (frac_digits fp) -> ip ++ frac_digits fp <> [] ->
  parse_score (sg ++ ip ++ frac_text fp) = Some (score_of neg ip fp).
Proof.
  intros Hs Hip Hfp Hne.
  assert (Hbody : strip_sign (ip ++ frac_text fp) = (false, ip ++ frac_text fp)).
  { rewrite strip_sign_eq. destruct (ip ++ frac_text fp) as [|c r] eqn:E; [reflexivity|].
    assert (Hc : sdigit c = true \/ c = 46%N).
    { destruct ip as [|i0 ip'].
      - destruct fp as [f|]; simpl in E; inversion E. right; reflexivity.
      - inversion E; subst. inversion Hip; subst. left; assumption. }
    destruct (N.eqb_spec c 45) as [E1|E1]; [subst c; destruct Hc; discriminate|].
    destruct (N.eqb_spec c 43) as [E2|E2]; [subst c; destruct Hc; discriminate|]. reflexivity. }
  assert (SS : strip_sign (sg ++ ip ++ frac_text fp) = (neg, ip ++ frac_text fp)).
  { destruct Hs as [[-> ->]|[[-> ->]|[-> ->]]]; simpl app.
    - apply Hbody.
    - rewrite strip_sign_eq. reflexivity.
    - rewrite strip_sign_eq. reflexivity. }
  rewrite parse_score_unfold, SS.
  unfold frac_text. rewrite split_dot_app by (apply digits_no_dot; exact Hip).
  cbv beta iota zeta.
  change (match fp with Some f => f | None => [] end) with (frac_digits fp).
  rewrite (digits_val_some _ 0) by (apply Forall_app; split; assumption).
  unfold score_of, dec_val, frac_digits in *.
  destruct ip as [|i0 ip']; [|reflexivity].
  destruct fp as [[|f0 f]|]; try reflexivity; exfalso; apply Hne; reflexivity.
Qed.

(* consequently: parse_score is None exactly outside the shape *)
Corollary parse_score_iff b s :
  parse_score b = Some s <->
  exists sg neg ip fp,
    sign_ok sg neg /\ b = sg ++ ip ++ frac_text fp /\
    all_digits ip /\ all_digits (frac_digits fp) /\ ip ++ frac_digits fp <> [] /\
    s = score_of neg ip fp.
Proof.
  split; [apply parse_score_sound|].
  intros (sg & neg & ip & fp & H1 & -> & H3 & H4 & H5 & ->).
  apply parse_score_complete; assumption.
Qed.

(* the value of sign ip . fp is +-(ip + fp / 10^|fp|) *)
Theorem score_of_value neg ip fp :
  (sval (score_of neg ip fp) ==
   (if neg then -1 else 1) *
   (inject_Z (dec_val ip) + inject_Z (dec_val (frac_digits fp)) / inject_Z (10 ^ Z.of_nat (length (frac_digits fp)))))%Q.
Proof.
  rewrite sval_div. unfold score_of. cbn [sc_m sc_k]. rewrite dec_val_app.
  set (p := 10 ^ Z.of_nat (length (frac_digits fp))).
  assert (Hp : ~ (inject_Z p == 0)%Q).
  { unfold p. intro X. pose proof (pow10_pos (length (frac_digits fp))) as P.
    unfold Qeq in X; simpl in X. lia. }
  destruct neg.
  - rewrite inject_Z_opp, inject_Z_plus, inject_Z_mult. field. exact Hp.
  - rewrite inject_Z_plus, inject_Z_mult. field. exact Hp.
Qed.

Example parse_score_ex :
  parse_score (s2b "12.50") = Some (mkSc 1250 2) /\ parse_score (s2b "-.5") = Some (mkSc (-5) 1) /\
  parse_score (s2b "+7.") = Some (mkSc 7 0) /\ parse_score (s2b "007") = Some (mkSc 7 0) /\
  parse_score (s2b "") = None /\ parse_score (s2b "-") = None /\ parse_score (s2b ".") = None /\
  parse_score (s2b "+-1") = None /\ parse_score (s2b "1.2.3") = None /\ parse_score (s2b "1e3") = None /\
  parse_score (s2b " 1") = None /\ parse_score (s2b "inf") = None.
Proof. vm_compute. repeat split. Qed.

Example parse_score_complete_ex :
  parse_score ([45%N] ++ s2b "3" ++ frac_text (Some (s2b "25"))) = Some (score_of true (s2b "3") (Some (s2b "25"))).
Proof. vm_compute. reflexivity. Qed.

Print Assumptions parse_score_iff.
Print Assumptions score_of_value.

(* ================================================================== *)
(* 2. SORTING                                                          *)
(* ================================================================== *)

(* the three-way comparison behind item_le: key first, then the element *)
Definition icmp (a b : skey * bytes) : comparison :=
  match skey_cmp (fst a) (fst b) with
  | Eq => bytes_cmp (snd a) (snd b)
  | c => c
  end.

Lemma item_le_icmp desc a b :
  item_le desc a b = match icmp a b with Lt => negb desc | Eq => true | Gt => desc end.
Proof. reflexivity. Qed.

(* ---------- skey_cmp is a total preorder on ALL keys (KNum below KStr) ---------- *)
Lemma skey_cmp_refl k : skey_cmp k k = Eq.
Proof. destruct k as [s|[w|]]; simpl; [apply score_cmp_refl | apply bytes_cmp_refl | reflexivity]. Qed.

Lemma skey_cmp_opp a b : skey_cmp b a = CompOpp (skey_cmp a b).
Proof.
  destruct a as [x|[x|]], b as [y|[y|]]; simpl; try reflexivity;
    [apply score_cmp_opp | apply bytes_cmp_opp].
Qed.

Lemma skey_cmp_lt_trans a b c : skey_cmp a b = Lt -> skey_cmp b c = Lt -> skey_cmp a c = Lt.
Proof.
  destruct a as [x|[x|]], b as [y|[y|]], c as [z|[z|]]; simpl; try congruence;
    [apply score_cmp_lt_trans | apply bytes_cmp_lt_trans].
Qed.

Lemma skey_cmp_eq_compat a b x : skey_cmp a b = Eq -> skey_cmp a x = skey_cmp b x.
Proof.
  destruct a as [a|[a|]], b as [b|[b|]], x as [x|[x|]]; simpl; try congruence.
  - apply score_cmp_eq_compat.
  - intro H. apply bytes_cmp_eq in H. subst. reflexivity.
Qed.

Lemma skey_cmp_eq_compat_r a b x : skey_cmp a b = Eq -> skey_cmp x a = skey_cmp x b.
Proof.
  intro H. rewrite (skey_cmp_opp a x), (skey_cmp_opp b x), (skey_cmp_eq_compat _ _ x H). reflexivity.
Qed.

(* ---------- icmp ---------- *)
Lemma icmp_refl a : icmp a a = Eq.
Proof. unfold icmp. rewrite skey_cmp_refl. apply bytes_cmp_refl. Qed.

Lemma icmp_opp a b : icmp b a = CompOpp (icmp a b).
Proof.
  unfold icmp. rewrite (skey_cmp_opp (fst a) (fst b)).
  destruct (skey_cmp (fst a) (fst b)); simpl; [apply bytes_cmp_opp | reflexivity | reflexivity].
Qed.

(* ties are equal elements *)
Lemma icmp_eq a b : icmp a b = Eq <-> skey_cmp (fst a) (fst b) = Eq /\ snd a = snd b.
Proof.
  unfold icmp. destruct (skey_cmp (fst a) (fst b)).
  - rewrite bytes_cmp_eq. tauto.
  - split; [discriminate | intros [H _]; discriminate].
  - split; [discriminate | intros [H _]; discriminate].
Qed.

Lemma icmp_eq_compat a b x : icmp a b = Eq -> icmp a x = icmp b x.
Proof.
  intro H. apply icmp_eq in H as [H1 H2]. unfold icmp.
  rewrite (skey_cmp_eq_compat _ _ (fst x) H1), H2. reflexivity.
Qed.

Lemma icmp_eq_compat_r a b x : icmp a b = Eq -> icmp x a = icmp x b.
Proof. intro H. rewrite (icmp_opp a x), (icmp_opp b x), (icmp_eq_compat _ _ x H). reflexivity. Qed.

Lemma icmp_lt_trans a b c : icmp a b = Lt -> icmp b c = Lt -> icmp a c = Lt.
Proof.
  unfold icmp. intros H1 H2.
  destruct (skey_cmp (fst a) (fst b)) eqn:E1; try discriminate;
    destruct (skey_cmp (fst b) (fst c)) eqn:E2; try discriminate.
  - rewrite (skey_cmp_eq_compat _ _ (fst c) E1), E2. eapply bytes_cmp_lt_trans; eassumption.
  - rewrite (skey_cmp_eq_compat _ _ (fst c) E1), E2. reflexivity.
  - rewrite <- (skey_cmp_eq_compat_r _ _ (fst a) E2), E1. reflexivity.
  - rewrite (skey_cmp_lt_trans _ _ _ E1 E2). reflexivity.
Qed.

Lemma icmp_le_trans a b c : icmp a b <> Gt -> icmp b c <> Gt -> icmp a c <> Gt.
Proof.
  intros H1 H2.
  destruct (icmp a b) eqn:E1; [| |congruence]; destruct (icmp b c) eqn:E2; try congruence.
  - rewrite (icmp_eq_compat _ _ c E1), E2. discriminate.
  - rewrite (icmp_eq_compat _ _ c E1), E2. discriminate.
  - rewrite <- (icmp_eq_compat_r _ _ a E2), E1. discriminate.
  - rewrite (icmp_lt_trans _ _ _ E1 E2). discriminate.
Qed.

(* ---------- item_le desc : a total preorder whose ties are equal elements ---------- *)
Theorem item_le_flip x y : item_le true x y = item_le false y x.
Proof. rewrite !item_le_icmp, (icmp_opp x y). destruct (icmp x y); reflexivity. Qed.

Lemma item_le_false_iff a b : item_le false a b = true <-> icmp a b <> Gt.
Proof. rewrite item_le_icmp. destruct (icmp a b); simpl; split; congruence. Qed.

Theorem item_le_refl desc a : item_le desc a a = true.
Proof. rewrite item_le_icmp, icmp_refl. reflexivity. Qed.

Theorem item_le_total desc a b : item_le desc a b = false -> item_le desc b a = true.
Proof.
  rewrite !item_le_icmp, (icmp_opp a b). destruct (icmp a b), desc; simpl; congruence.
Qed.

Theorem item_le_trans desc a b c :
  item_le desc a b = true -> item_le desc b c = true -> item_le desc a c = true.
Proof.
  destruct desc.
  - rewrite !item_le_flip, !item_le_false_iff. intros H1 H2. eapply icmp_le_trans; eassumption.
  - rewrite !item_le_false_iff. apply icmp_le_trans.
Qed.

Theorem item_le_antisym desc a b :
  item_le desc a b = true -> item_le desc b a = true -> icmp a b = Eq.
Proof.
  rewrite !item_le_icmp, (icmp_opp a b). destruct (icmp a b), desc; simpl; congruence.
Qed.

(* so: mutually ordered items carry the same element *)
Corollary item_le_antisym_elem desc a b :
  item_le desc a b = true -> item_le desc b a = true -> snd a = snd b.
Proof. intros H1 H2. apply (item_le_antisym _ _ _ H1) in H2. apply icmp_eq in H2. tauto. Qed.

Lemma item_le_eqv_r desc x y1 y2 : icmp y1 y2 = Eq -> item_le desc x y1 = item_le desc x y2.
Proof. intro H. rewrite !item_le_icmp, (icmp_eq_compat_r _ _ x H). reflexivity. Qed.

(* what ASC order means on numeric and on text keys *)
Lemma item_le_asc_num a x b y :
  item_le false (KNum a, x) (KNum b, y) = true <->
  score_cmp a b = Lt \/ (score_cmp a b = Eq /\ bytes_cmp x y <> Gt).
Proof.
  rewrite item_le_icmp. unfold icmp; simpl.
  destruct (score_cmp a b); [destruct (bytes_cmp x y)| |]; simpl; split; intro H;
    try reflexivity; try discriminate; try (right; split; congruence); try (left; reflexivity);
    destruct H as [H|[H1 H2]]; congruence.
Qed.

Lemma item_le_asc_str a x b y :
  item_le false (KStr (Some a), x) (KStr (Some b), y) = true <->
  bytes_cmp a b = Lt \/ (a = b /\ bytes_cmp x y <> Gt).
Proof.
  rewrite item_le_icmp. unfold icmp; simpl. rewrite <- (bytes_cmp_eq a b).
  destruct (bytes_cmp a b); [destruct (bytes_cmp x y)| |]; simpl; split; intro H;
    try reflexivity; try discriminate; try (right; split; congruence); try (left; reflexivity);
    destruct H as [H|[H1 H2]]; congruence.
Qed.

Print Assumptions item_le_trans.
Print Assumptions item_le_total.

(* ---------- insertion sort ---------- *)
Definition sorted_by (desc : bool) (l : list (skey * bytes)) : Prop :=
  StronglySorted (fun x y => item_le desc x y = true) l.

Lemma insert_item_perm desc x l : Permutation (insert_item desc x l) (x :: l).
Proof.
  induction l as [|y l IH]; simpl; [apply Permutation_refl|].
  destruct (item_le desc x y); [apply Permutation_refl|].
  eapply perm_trans; [apply perm_skip; exact IH | apply perm_swap].
Qed.

Theorem sort_items_perm desc l : Permutation (sort_items desc l) l.
Proof.
  induction l as [|x l IH]; simpl; [constructor|].
  eapply perm_trans; [apply insert_item_perm | apply perm_skip; exact IH].
Qed.

Lemma insert_item_sorted desc x l : sorted_by desc l -> sorted_by desc (insert_item desc x l).
Proof.
  unfold sorted_by. induction l as [|y l IH]; intro H; simpl.
  - constructor; constructor.
  - inversion H as [|? ? Hs Hf]; subst.
    destruct (item_le desc x y) eqn:E.
    + constructor; [exact H|]. constructor; [exact E|].
      rewrite Forall_forall in *. intros z Hz. eapply item_le_trans; [exact E | apply Hf; exact Hz].
    + constructor; [apply IH; exact Hs|].
      eapply Permutation_Forall; [apply Permutation_sym; apply insert_item_perm|].
      constructor; [apply item_le_total; exact E | exact Hf].
Qed.

Theorem sort_items_sorted desc l : sorted_by desc (sort_items desc l).
Proof.
  induction l as [|x l IH]; simpl; [constructor|]. apply insert_item_sorted. exact IH.
Qed.

(* a sorted list is a fixpoint of the sort *)
Lemma sort_items_id desc l : sorted_by desc l -> sort_items desc l = l.
Proof.
  unfold sorted_by. induction l as [|x l IH]; intro H; simpl; [reflexivity|].
  inversion H as [|? ? Hs Hf]; subst. rewrite (IH Hs).
  destruct l as [|y l]; [reflexivity|]. simpl.
  inversion Hf as [|? ? Hxy _]; subst. rewrite Hxy. reflexivity.
Qed.

(* ---------- uniqueness: the order of the input does not matter ---------- *)
Definition ieqv (a b : skey * bytes) : Prop := icmp a b = Eq.

Lemma ieqv_all_refl l : Forall2 ieqv l l.
Proof. induction l; constructor; [apply icmp_refl | assumption]. Qed.

Lemma ieqv_all_trans l1 l2 l3 : Forall2 ieqv l1 l2 -> Forall2 ieqv l2 l3 -> Forall2 ieqv l1 l3.
Proof.
  intro H; revert l3; induction H as [|a b l1 l2 Hab H IH]; intros l3 H3; inversion H3; subst; constructor.
  - unfold ieqv in *. rewrite (icmp_eq_compat _ _ _ Hab). assumption.
  - apply IH. assumption.
Qed.

Lemma ieqv_all_snd l1 l2 : Forall2 ieqv l1 l2 -> map snd l1 = map snd l2.
Proof.
  induction 1 as [|a b l1 l2 Hab H IH]; simpl; [reflexivity|].
  apply icmp_eq in Hab as [_ Hab]. rewrite Hab, IH. reflexivity.
Qed.

Lemma insert_item_eqv desc x l1 l2 :
  Forall2 ieqv l1 l2 -> Forall2 ieqv (insert_item desc x l1) (insert_item desc x l2).
Proof.
  induction 1 as [|a b l1 l2 Hab H IH]; simpl.
  - constructor; [apply icmp_refl | constructor].
  - rewrite <- (item_le_eqv_r desc x _ _ Hab). destruct (item_le desc x a).
    + constructor; [apply icmp_refl|]. constructor; assumption.
    + constructor; assumption.
Qed.

Lemma insert_item_swap desc x y l :
  Forall2 ieqv (insert_item desc x (insert_item desc y l)) (insert_item desc y (insert_item desc x l)).
Proof.
  induction l as [|z l IH].
  - cbn [insert_item].
    destruct (item_le desc x y) eqn:A; destruct (item_le desc y x) eqn:B.
    + pose proof (item_le_antisym _ _ _ A B) as E.
      constructor; [exact E|]. constructor; [|constructor].
      unfold ieqv. rewrite icmp_opp, E. reflexivity.
    + apply ieqv_all_refl.
    + apply ieqv_all_refl.
    + apply item_le_total in A. congruence.
  - cbn [insert_item].
    destruct (item_le desc y z) eqn:Yz; destruct (item_le desc x z) eqn:Xz; cbn [insert_item].
    + destruct (item_le desc x y) eqn:A; destruct (item_le desc y x) eqn:B; rewrite ?Xz, ?Yz.
      * pose proof (item_le_antisym _ _ _ A B) as E.
        constructor; [exact E|]. constructor; [|apply ieqv_all_refl].
        unfold ieqv. rewrite icmp_opp, E. reflexivity.
      * apply ieqv_all_refl.
      * apply ieqv_all_refl.
      * apply item_le_total in A. congruence.
    + destruct (item_le desc x y) eqn:A.
      * rewrite (item_le_trans _ _ _ _ A Yz) in Xz. discriminate.
      * rewrite Xz, Yz. apply ieqv_all_refl.
    + destruct (item_le desc y x) eqn:B.
      * rewrite (item_le_trans _ _ _ _ B Xz) in Yz. discriminate.
      * rewrite Xz, Yz. apply ieqv_all_refl.
    + rewrite Xz, Yz. constructor; [apply icmp_refl | exact IH].
Qed.

Lemma sort_items_perm_eqv desc l1 l2 :
  Permutation l1 l2 -> Forall2 ieqv (sort_items desc l1) (sort_items desc l2).
Proof.
  induction 1 as [|x l1 l2 H IH|x y l|l1 l2 l3 H1 IH1 H2 IH2]; simpl.
  - constructor.
  - apply insert_item_eqv. exact IH.
  - apply insert_item_swap.
  - eapply ieqv_all_trans; eassumption.
Qed.

(* any two sorted arrangements of the same items agree item by item up to ties... *)
Theorem sorted_perm_unique desc l1 l2 :
  sorted_by desc l1 -> sorted_by desc l2 -> Permutation l1 l2 -> Forall2 ieqv l1 l2.
Proof.
  intros S1 S2 P. rewrite <- (sort_items_id desc l1 S1), <- (sort_items_id desc l2 S2).
  apply sort_items_perm_eqv. exact P.
Qed.

(* ... and ties are equal elements: the element sequence is unique *)
Theorem sorted_perm_unique_elems desc l1 l2 :
  sorted_by desc l1 -> sorted_by desc l2 -> Permutation l1 l2 -> map snd l1 = map snd l2.
Proof. intros S1 S2 P. apply ieqv_all_snd. eapply sorted_perm_unique; eassumption. Qed.

(* sort_items is THE sorted permutation, as far as the reply is concerned *)
Corollary sort_items_unique desc l l' :
  Permutation l' l -> sorted_by desc l' -> map snd l' = map snd (sort_items desc l).
Proof.
  intros P S. apply (sorted_perm_unique_elems desc); [exact S | apply sort_items_sorted|].
  eapply perm_trans; [exact P | apply Permutation_sym, sort_items_perm].
Qed.

Corollary sort_items_perm_invariant desc l1 l2 :
  Permutation l1 l2 -> map snd (sort_items desc l1) = map snd (sort_items desc l2).
Proof. intro P. apply ieqv_all_snd, sort_items_perm_eqv. exact P. Qed.

(* ---------- DESC is the reverse of ASC ---------- *)
Lemma StronglySorted_app {A} (R : A -> A -> Prop) l1 l2 :
  StronglySorted R l1 -> StronglySorted R l2 ->
  (forall x y, In x l1 -> In y l2 -> R x y) -> StronglySorted R (l1 ++ l2).
Proof.
  induction l1 as [|a l1 IH]; intros S1 S2 H; simpl; [exact S2|].
  inversion S1 as [|? ? Hs Hf]; subst. constructor.
  - apply IH; [exact Hs | exact S2 | intros x y Hx Hy; apply H; [right; exact Hx | exact Hy]].
  - apply Forall_app. split; [exact Hf|].
    apply Forall_forall. intros y Hy. apply H; [left; reflexivity | exact Hy].
Qed.

Lemma StronglySorted_rev {A} (R R' : A -> A -> Prop) l :
  (forall x y, R x y -> R' y x) -> StronglySorted R l -> StronglySorted R' (rev l).
Proof.
  intros HR. induction 1 as [|a l Hs IH Hf]; simpl; [constructor|].
  apply StronglySorted_app; [exact IH | constructor; constructor|].
  intros x y Hx [<-|[]]. apply HR. rewrite Forall_forall in Hf. apply Hf. apply in_rev. exact Hx.
Qed.

Lemma sorted_by_rev desc l : sorted_by desc l -> sorted_by (negb desc) (rev l).
Proof.
  apply StronglySorted_rev. intros x y H.
  destruct desc; simpl; [rewrite <- item_le_flip | rewrite item_le_flip]; exact H.
Qed.

(* for every list, duplicates or not: the DESC reply is the ASC reply reversed *)
Theorem sort_items_desc_rev l :
  map snd (sort_items true l) = rev (map snd (sort_items false l)).
Proof.
  rewrite <- map_rev. apply (sorted_perm_unique_elems true).
  - apply sort_items_sorted.
  - apply (sorted_by_rev false). apply sort_items_sorted.
  - eapply perm_trans; [apply sort_items_perm|].
    eapply perm_trans; [apply Permutation_sym, (sort_items_perm false) | apply Permutation_rev].
Qed.

Example sort_items_ex :
  map snd (sort_items false [(KNum (mkSc 30 1), s2b "c"); (KNum (mkSc 1 0), s2b "b");
                             (KNum (mkSc 100 2), s2b "a"); (KNum (mkSc (-2) 0), s2b "z")])
  = [s2b "z"; s2b "a"; s2b "b"; s2b "c"] /\
  map snd (sort_items true [(KNum (mkSc 30 1), s2b "c"); (KNum (mkSc 1 0), s2b "b");
                            (KNum (mkSc 100 2), s2b "a"); (KNum (mkSc (-2) 0), s2b "z")])
  = [s2b "c"; s2b "b"; s2b "a"; s2b "z"].
Proof. vm_compute. split; reflexivity. Qed.

Print Assumptions sort_items_perm.
Print Assumptions sort_items_sorted.
Print Assumptions sorted_perm_unique_elems.
Print Assumptions sort_items_desc_rev.

(* ---------- keyed: the key of every element ---------- *)
Definition weight_of (now : Z) (d : db) (by_ : option bytes) (x : bytes) : option bytes :=
  match by_ with Some p => pattern_get now d p x | None => Some x end.

(* None = the weight is not a number (only without ALPHA) *)
Definition key_of (now : Z) (d : db) (by_ : option bytes) (alpha : bool) (x : bytes) : option skey :=
  if alpha then Some (KStr (weight_of now d by_ x))
  else match weight_of now d by_ x with
       | None => Some (KNum (mkSc 0 0))
       | Some wb => match parse_score wb with Some s => Some (KNum s) | None => None end
       end.

Definition key_or (now : Z) (d : db) (by_ : option bytes) (alpha : bool) (x : bytes) : skey :=
  match key_of now d by_ alpha x with Some k => k | None => KStr None end.

Lemma keyed_cons now d by_ alpha x r :
  keyed now d by_ alpha (x :: r) =
  match key_of now d by_ alpha x, keyed now d by_ alpha r with
  | Some k', Some rest => Some ((k', x) :: rest)
  | _, _ => None
  end.
Proof. reflexivity. Qed.

(* keyed succeeds iff every element has a key, and then pairs each element with its key *)
Theorem keyed_some_iff now d by_ alpha l ks :
  keyed now d by_ alpha l = Some ks <->
  Forall (fun x => key_of now d by_ alpha x <> None) l /\
  ks = map (fun x => (key_or now d by_ alpha x, x)) l.
Proof.
  revert ks; induction l as [|x l IH]; intro ks.
  - simpl. split; [intro H; inversion H; split; [constructor|reflexivity] | intros [_ ->]; reflexivity].
  - rewrite keyed_cons. cbn [map]. unfold key_or at 1.
    destruct (key_of now d by_ alpha x) as [k|] eqn:K.
    + destruct (keyed now d by_ alpha l) as [rest|] eqn:R.
      * destruct (IH rest) as [IH1 _]. destruct (IH1 eq_refl) as [F E]. split.
        -- intro H. inversion H; subst. split; [constructor; [congruence | exact F] | reflexivity].
        -- intros [_ ->]. rewrite <- E. reflexivity.
      * split; [discriminate|]. intros [F _]. inversion F as [|? ? _ F']; subst.
        destruct (IH (map (fun x => (key_or now d by_ alpha x, x)) l)) as [_ IH2].
        discriminate (IH2 (conj F' eq_refl)).
    + split; [discriminate|]. intros [F _]. inversion F; subst. congruence.
Qed.

Theorem keyed_none_iff now d by_ alpha l :
  keyed now d by_ alpha l = None <-> exists x, In x l /\ key_of now d by_ alpha x = None.
Proof.
  induction l as [|x l IH].
  - simpl. split; [discriminate | intros [x [[] _]]].
  - rewrite keyed_cons. destruct (key_of now d by_ alpha x) as [k|] eqn:K.
    + destruct (keyed now d by_ alpha l) as [rest|] eqn:R.
      * split; [discriminate|]. intros [y [[<-|Hy] Ky]]; [congruence|].
        destruct IH as [_ IH]. discriminate IH. eauto.
      * split; [|reflexivity]. intros _. destruct IH as [IH _].
        destruct (IH eq_refl) as [y [Hy Ky]]. exists y. split; [right; exact Hy | exact Ky].
    + split; [|reflexivity]. intros _. exists x. split; [left; reflexivity | exact K].
Qed.

(* an element has no key exactly when ALPHA is off and its weight is not a number *)
Lemma key_of_none now d by_ alpha x :
  key_of now d by_ alpha x = None <->
  alpha = false /\ exists wb, weight_of now d by_ x = Some wb /\ parse_score wb = None.
Proof.
  unfold key_of. destruct alpha.
  - split; [discriminate | intros [H _]; discriminate].
  - destruct (weight_of now d by_ x) as [wb|].
    + destruct (parse_score wb) eqn:P.
      * split; [discriminate|]. intros [_ [wb' [E P']]]. inversion E; subst. congruence.
      * split; [|reflexivity]. intros _. split; [reflexivity|]. eauto.
    + split; [discriminate|]. intros [_ [wb' [E _]]]. discriminate.
Qed.

(* the elements are kept, in order; keys are homogeneous: all text with ALPHA, all numeric without *)
Theorem keyed_shape now d by_ alpha l ks :
  keyed now d by_ alpha l = Some ks ->
  map snd ks = l /\
  (if alpha then Forall (fun p => exists w, fst p = KStr w) ks
   else Forall (fun p => exists s, fst p = KNum s) ks) /\
  Forall (fun p => key_of now d by_ alpha (snd p) = Some (fst p)) ks.
Proof.
  intro H. apply keyed_some_iff in H as [F ->]. repeat split.
  - rewrite map_map. simpl. apply map_id.
  - assert (G : forall x, In x l ->
                 if alpha then exists w, key_or now d by_ alpha x = KStr w
                 else exists s, key_or now d by_ alpha x = KNum s).
    { intros x Hx. rewrite Forall_forall in F. specialize (F x Hx). unfold key_or.
      unfold key_of in *. destruct alpha; [eauto|].
      destruct (weight_of now d by_ x) as [wb|]; [|eauto].
      destruct (parse_score wb); [eauto | congruence]. }
    destruct alpha; apply Forall_forall; intros p Hp; apply in_map_iff in Hp as [x [<- Hx]];
      apply (G x Hx).
  - apply Forall_forall. intros p Hp. apply in_map_iff in Hp as [x [<- Hx]]. simpl.
    rewrite Forall_forall in F. specialize (F x Hx). unfold key_or.
    destruct (key_of now d by_ alpha x); [reflexivity | congruence].
Qed.

(* the sorted element sequence depends only on the multiset of elements: the iteration
   order of a set (or the order of a list) does not influence the reply *)
Theorem keyed_sort_perm_invariant now d by_ alpha desc l1 l2 ks1 :
  keyed now d by_ alpha l1 = Some ks1 -> Permutation l1 l2 ->
  exists ks2, keyed now d by_ alpha l2 = Some ks2 /\
              map snd (sort_items desc ks1) = map snd (sort_items desc ks2).
Proof.
  intros H P. apply keyed_some_iff in H as [F ->].
  exists (map (fun x => (key_or now d by_ alpha x, x)) l2). split.
  - apply keyed_some_iff. split; [|reflexivity]. eapply Permutation_Forall; eassumption.
  - apply sort_items_perm_invariant. apply Permutation_map. exact P.
Qed.

Corollary keyed_none_perm now d by_ alpha l1 l2 :
  keyed now d by_ alpha l1 = None -> Permutation l1 l2 -> keyed now d by_ alpha l2 = None.
Proof.
  intros H P. apply keyed_none_iff in H as [x [Hx K]]. apply keyed_none_iff.
  exists x. split; [eapply Permutation_in; eassumption | exact K].
Qed.

Print Assumptions keyed_some_iff.
Print Assumptions keyed_shape.
Print Assumptions keyed_sort_perm_invariant.

(* ================================================================== *)
(* 3. LIMIT                                                            *)
(* ================================================================== *)

Theorem limit_window_none n : limit_window n None = (0, n).
Proof. reflexivity. Qed.

(* Redis' rule *)
Theorem limit_window_some n off cnt :
  limit_window n (Some (off, cnt)) =
  let start := Z.max 0 off in
  if n <=? start then (0, 0)
  else (start, if cnt <? 0 then n - start else Z.min cnt (n - start)).
Proof.
  unfold limit_window. cbv zeta.
  destruct (Z.ltb_spec off 0) as [H1|H1].
  - replace (Z.max 0 off) with 0 by lia.
    destruct (Z.leb_spec n 0) as [H2|H2]; [reflexivity|].
    destruct (Z.ltb_spec cnt 0) as [H3|H3].
    + destruct (Z.leb_spec n (n - 1)); [lia|]. destruct (Z.ltb_spec (n - 1) 0); [lia|]. f_equal. lia.
    + destruct (Z.leb_spec n (0 + cnt - 1)).
      * destruct (Z.ltb_spec (n - 1) 0); [lia|]. f_equal. lia.
      * destruct (Z.ltb_spec (0 + cnt - 1) 0); f_equal; lia.
  - replace (Z.max 0 off) with off by lia.
    destruct (Z.leb_spec n off) as [H2|H2]; [reflexivity|].
    destruct (Z.ltb_spec cnt 0) as [H3|H3].
    + destruct (Z.leb_spec n (n - 1)); [lia|]. destruct (Z.ltb_spec (n - 1) off); [lia|]. f_equal. lia.
    + destruct (Z.leb_spec n (off + cnt - 1)).
      * destruct (Z.ltb_spec (n - 1) off); [lia|]. f_equal. lia.
      * destruct (Z.ltb_spec (off + cnt - 1) off); f_equal; lia.
Qed.

Theorem limit_window_bounds n lim start len :
  0 <= n -> limit_window n lim = (start, len) -> 0 <= start /\ 0 <= len /\ start + len <= n.
Proof.
  intros Hn H. destruct lim as [[off cnt]|].
  - rewrite limit_window_some in H. cbv zeta in H.
    destruct (Z.leb_spec n (Z.max 0 off)); [inversion H; lia|].
    destruct (Z.ltb_spec cnt 0); inversion H; lia.
  - inversion H. lia.
Qed.

(* the cases spelled out *)
Corollary limit_window_cases n off cnt start len :
  0 <= n -> limit_window n (Some (off, cnt)) = (start, len) ->
  (n <= Z.max 0 off -> len = 0) /\
  (Z.max 0 off < n ->
     start = Z.max 0 off /\
     (cnt < 0 -> len = n - start) /\
     (0 <= cnt -> len = Z.min cnt (n - start)) /\
     (cnt = 0 -> len = 0)).
Proof.
  intros Hn H. rewrite limit_window_some in H. cbv zeta in H.
  destruct (Z.leb_spec n (Z.max 0 off)).
  - inversion H. split; [reflexivity | lia].
  - split; [lia|]. intros _.
    destruct (Z.ltb_spec cnt 0); inversion H; subst; repeat split; lia.
Qed.

Lemma nth_error_skipn_plus {A} (l : list A) s i : nth_error (skipn s l) i = nth_error l (s + i).
Proof.
  revert l; induction s as [|s IH]; intro l; [reflexivity|].
  destruct l as [|a l]; simpl; [destruct i; reflexivity | apply IH].
Qed.

Lemma nth_error_firstn_lt {A} (l : list A) n i : (i < n)%nat -> nth_error (firstn n l) i = nth_error l i.
Proof.
  revert l i; induction n as [|n IH]; intros l i H; [lia|].
  destruct l as [|a l]; [destruct i; reflexivity|].
  destruct i as [|i]; [reflexivity|]. simpl. apply IH. lia.
Qed.

(* window l (start, len) is the len elements from position start *)
Theorem window_length {A} (l : list A) start len :
  0 <= start -> 0 <= len -> start + len <= Zlen l ->
  length (window l (start, len)) = Z.to_nat len.
Proof.
  intros H1 H2 H3. unfold window, Zlen in *. cbn [fst snd].
  rewrite firstn_length, skipn_length. lia.
Qed.

Theorem window_nth {A} (l : list A) start len i :
  (i < Z.to_nat len)%nat ->
  nth_error (window l (start, len)) i = nth_error l (Z.to_nat start + i).
Proof.
  intro H. unfold window. cbn [fst snd].
  rewrite nth_error_firstn_lt by exact H. apply nth_error_skipn_plus.
Qed.

Lemma window_all {A} (l : list A) : window l (0, Zlen l) = l.
Proof.
  unfold window, Zlen. cbn [fst snd]. rewrite Nat2Z.id. simpl. apply firstn_all.
Qed.

Lemma window_empty {A} (l : list A) start : window l (start, 0) = [].
Proof. reflexivity. Qed.

(* LIMIT applied to a list: a contiguous, in-range segment *)
Theorem limit_window_window {A} (l : list A) lim :
  let w := limit_window (Zlen l) lim in
  0 <= fst w /\ 0 <= snd w /\ fst w + snd w <= Zlen l /\
  length (window l w) = Z.to_nat (snd w) /\
  forall i, (i < Z.to_nat (snd w))%nat ->
            nth_error (window l w) i = nth_error l (Z.to_nat (fst w) + i).
Proof.
  intro w. destruct w as [start len] eqn:W. cbn [fst snd].
  assert (Hn : 0 <= Zlen l) by (unfold Zlen; lia).
  destruct (limit_window_bounds _ _ _ _ Hn W) as [H1 [H2 H3]].
  repeat split; try assumption.
  - apply window_length; assumption.
  - intros i Hi. apply window_nth. exact Hi.
Qed.

Example limit_window_ex :
  limit_window 5 (Some (1, 2)) = (1, 2) /\ limit_window 5 (Some (-3, 2)) = (0, 2) /\
  limit_window 5 (Some (3, 10)) = (3, 2) /\ limit_window 5 (Some (3, -1)) = (3, 2) /\
  limit_window 5 (Some (5, 1)) = (0, 0) /\ limit_window 5 (Some (2, 0)) = (2, 0) /\
  limit_window 0 (Some (0, 3)) = (0, 0) /\
  window [s2b "a"; s2b "b"; s2b "c"; s2b "d"; s2b "e"] (limit_window 5 (Some (1, 2))) = [s2b "b"; s2b "c"].
Proof. vm_compute. repeat split. Qed.

Print Assumptions limit_window_some.
Print Assumptions limit_window_bounds.
Print Assumptions limit_window_window.

(* ================================================================== *)
(* 4. PATTERNS                                                         *)
(* ================================================================== *)

Lemma split_star_none p : ~ In 42%N p -> split_star p = None.
Proof.
  induction p as [|c p IH]; intro H; simpl; [reflexivity|].
  destruct (N.eqb_spec c 42) as [E|E]; [exfalso; apply H; left; auto|].
  rewrite IH; [reflexivity|]. intro X. apply H. right. exact X.
Qed.

Lemma split_star_app pre post : ~ In 42%N pre -> split_star (pre ++ 42%N :: post) = Some (pre, post).
Proof.
  induction pre as [|c p IH]; intro H; simpl; [reflexivity|].
  destruct (N.eqb_spec c 42) as [E|E]; [exfalso; apply H; left; auto|].
  rewrite IH; [reflexivity|]. intro X. apply H. right. exact X.
Qed.

(* the first star is the one that is replaced *)
Lemma split_star_inv p pre post :
  split_star p = Some (pre, post) -> p = pre ++ 42%N :: post /\ ~ In 42%N pre.
Proof.
  revert pre; induction p as [|c p IH]; intros pre H; simpl in H; [discriminate|].
  destruct (N.eqb_spec c 42) as [E|E].
  - inversion H; subst. split; [reflexivity | intros []].
  - destruct (split_star p) as [[a b]|] eqn:S; [|discriminate]. inversion H; subst.
    destruct (IH a eq_refl) as [H1 H2]. split; [simpl; f_equal; exact H1|].
    intros [X|X]; [congruence | contradiction].
Qed.

(* "->" at the head of c :: r, followed by at least one byte *)
Definition arrow_at (c : N) (r : list N) : bool :=
  N.eqb c 45 && match r with c2 :: _ :: _ => N.eqb c2 62 | _ => false end.

Lemma arrow_at_true c r : arrow_at c r = true <-> exists f0 fr, c = 45%N /\ r = 62%N :: f0 :: fr.
Proof.
  unfold arrow_at. split.
  - intro H. apply andb_true_iff in H as [H1 H2]. apply N.eqb_eq in H1.
    destruct r as [|c2 [|f0 fr]]; try discriminate. apply N.eqb_eq in H2. subst. eauto.
  - intros [f0 [fr [-> ->]]]. reflexivity.
Qed.

Lemma split_arrow_eq c r :
  split_arrow (c :: r) =
  if arrow_at c r then Some ([], tl r)
  else match split_arrow r with Some (a, f) => Some (c :: a, f) | None => None end.
Proof.
  unfold arrow_at.
  destruct c as [|p]; [reflexivity|].
  do 6 (destruct p as [p|p|]; try reflexivity).
  destruct r as [|c2 [|f0 fr]]; try reflexivity.
  all: destruct c2 as [|q]; [reflexivity|];
    do 6 (destruct q as [q|q|]; try reflexivity).
Qed.

(* l contains no "->" that is followed by a byte *)
Definition no_arrow (l : list N) : Prop :=
  forall a f, f <> [] -> l <> a ++ 45%N :: 62%N :: f.

(* a ++ "->" ++ f is the FIRST such arrow: "->" does not occur in a ++ "-" *)
Definition first_arrow (a : list N) : Prop :=
  forall u v, a ++ [45%N] <> u ++ 45%N :: 62%N :: v.

Theorem split_arrow_none_iff l : split_arrow l = None <-> no_arrow l.
Proof.
  induction l as [|c r IH].
  - split; [|reflexivity]. intros _ a f _ X. destruct a; discriminate.
  - rewrite split_arrow_eq. destruct (arrow_at c r) eqn:A.
    + split; [discriminate|]. intro H. apply arrow_at_true in A as [f0 [fr [-> ->]]].
      exfalso. apply (H [] (f0 :: fr)); [discriminate | reflexivity].
    + split.
      * intro H. destruct (split_arrow r) as [[a f]|] eqn:S; [discriminate|].
        destruct IH as [IH _]. specialize (IH eq_refl).
        intros a f Hf X. destruct a as [|a0 a].
        -- simpl in X. inversion X; subst. destruct f as [|f0 fr]; [congruence|].
           rewrite (proj2 (arrow_at_true 45 (62%N :: f0 :: fr))) in A; [discriminate | eauto].
        -- simpl in X. inversion X; subst. apply (IH a f Hf). reflexivity.
      * intro H. destruct IH as [_ IH]. rewrite IH; [reflexivity|].
        intros a f Hf X. apply (H (c :: a) f Hf). simpl. rewrite X. reflexivity.
Qed.

Theorem split_arrow_first a f :
  first_arrow a -> f <> [] -> split_arrow (a ++ 45%N :: 62%N :: f) = Some (a, f).
Proof.
  intros Ha Hf. induction a as [|c a IH].
  - simpl app. rewrite split_arrow_eq.
    rewrite (proj2 (arrow_at_true 45 (62%N :: f))); [reflexivity|].
    destruct f as [|f0 fr]; [congruence | eauto].
  - simpl app. rewrite split_arrow_eq. destruct (arrow_at c (a ++ 45%N :: 62%N :: f)) eqn:A.
    + exfalso. apply arrow_at_true in A as [f0 [fr [-> E]]].
      destruct a as [|a0 a]; [simpl in E; discriminate|].
      simpl in E. inversion E; subst. apply (Ha [] (a ++ [45%N])). reflexivity.
    + rewrite IH; [reflexivity|]. intros u v X. apply (Ha (c :: u) v). simpl. rewrite X. reflexivity.
Qed.

Theorem split_arrow_some_inv l a f :
  split_arrow l = Some (a, f) -> l = a ++ 45%N :: 62%N :: f /\ f <> [] /\ first_arrow a.
Proof.
  revert a; induction l as [|c r IH]; intros a H; [discriminate|].
  rewrite split_arrow_eq in H. destruct (arrow_at c r) eqn:A.
  - apply arrow_at_true in A as [f0 [fr [-> ->]]]. inversion H; subst. simpl.
    repeat split; [discriminate|]. intros u v X. simpl in X.
    destruct u as [|u0 [|u1 u]]; simpl in X; discriminate.
  - destruct (split_arrow r) as [[a' f']|] eqn:S; [|discriminate]. inversion H; subst.
    destruct (IH a' eq_refl) as [H1 [H2 H3]]. repeat split; [simpl; f_equal; exact H1 | exact H2|].
    intros u v X. destruct u as [|u0 u].
    + simpl in X. inversion X as [[Hc X']]. subst c.
      assert (A' : arrow_at 45 r = true).
      { apply arrow_at_true. rewrite H1. destruct a' as [|a0 a'].
        - simpl in X'. discriminate.
        - simpl in X'. inversion X'; subst. destruct a' as [|a1 a']; simpl; eauto. }
      congruence.
    + simpl in X. inversion X; subst. apply (H3 u v). assumption.
Qed.

Lemma star_not_hash pre post : bytes_eqb (pre ++ 42%N :: post) [35%N] = false.
Proof.
  apply bytes_eqb_neq. destruct pre as [|c [|c2 pre]]; simpl; intro X; inversion X.
Qed.

(* "#" is the element itself *)
Theorem pattern_get_self now d x : pattern_get now d [35%N] x = Some x.
Proof. reflexivity. Qed.

(* no star (and not "#"): nothing *)
Theorem pattern_get_nostar now d pat x :
  ~ In 42%N pat -> pat <> [35%N] -> pattern_get now d pat x = None.
Proof.
  intros H1 H2. unfold pattern_get. apply bytes_eqb_neq in H2. rewrite H2.
  rewrite split_star_none by exact H1. reflexivity.
Qed.

(* pre*post without a field arrow: the string at key pre ++ x ++ post;
   nothing if the key is missing, expired (lookup = None) or not a string *)
Theorem pattern_get_string now d pre post x :
  ~ In 42%N pre -> no_arrow post ->
  pattern_get now d (pre ++ 42%N :: post) x =
  match lookup now d (pre ++ x ++ post) with
  | Some e => match e_val e with VStr v => Some v | _ => None end
  | None => None
  end.
Proof.
  intros H1 H2. unfold pattern_get. rewrite star_not_hash, split_star_app by exact H1.
  rewrite (proj2 (split_arrow_none_iff post) H2). reflexivity.
Qed.

(* pre*post'->fld: field fld of the hash at key pre ++ x ++ post';
   nothing if the key is missing, expired, not a hash, or has no such field *)
Theorem pattern_get_field now d pre post' fld x :
  ~ In 42%N pre -> first_arrow post' -> fld <> [] ->
  pattern_get now d (pre ++ 42%N :: post' ++ 45%N :: 62%N :: fld) x =
  match lookup now d (pre ++ x ++ post') with
  | Some e => match e_val e with VHash h => aget h fld | _ => None end
  | None => None
  end.
Proof.
  intros H1 H2 H3. unfold pattern_get. rewrite star_not_hash, split_star_app by exact H1.
  rewrite split_arrow_first by assumption.
  destruct (lookup now d (pre ++ x ++ post')) as [e|]; [|reflexivity].
  unfold hash_of. destruct (e_val e); reflexivity.
Qed.

(* the three cases are exhaustive: every pattern is "#", star-less, or pre*post with post
   either arrow-free or split at its first arrow *)
Theorem pattern_cases pat :
  pat = [35%N] \/ (~ In 42%N pat /\ pat <> [35%N]) \/
  exists pre post, pat = pre ++ 42%N :: post /\ ~ In 42%N pre /\
    (no_arrow post \/
     exists post' fld, post = post' ++ 45%N :: 62%N :: fld /\ first_arrow post' /\ fld <> []).
Proof.
  destruct (bytes_eq_dec pat [35%N]) as [E|E]; [left; exact E|]. right.
  destruct (split_star pat) as [[pre post]|] eqn:S.
  - right. apply split_star_inv in S as [S1 S2]. exists pre, post. repeat split; try assumption.
    destruct (split_arrow post) as [[a f]|] eqn:A.
    + right. apply split_arrow_some_inv in A as [A1 [A2 A3]]. exists a, f. auto.
    + left. apply split_arrow_none_iff. exact A.
  - left. split; [|exact E]. intro X.
    apply in_split in X as [l1 [l2 ->]].
    assert (G : forall l1, split_star (l1 ++ 42%N :: l2) <> None).
    { clear. induction l1 as [|c l1 IH]; simpl; [discriminate|].
      destruct (N.eqb c 42); [discriminate|].
      destruct (split_star (l1 ++ 42%N :: l2)) as [[a b]|]; [discriminate | exact IH]. }
    apply (G l1 S).
Qed.

(* lookup = None means missing or expired *)
Lemma lookup_none_iff now d k :
  lookup now d k = None <->
  aget (d_map d) k = None \/ exists e, aget (d_map d) k = Some e /\ expired now e = true.
Proof.
  unfold lookup. destruct (aget (d_map d) k) as [e|].
  - destruct (expired now e) eqn:X; split.
    + intros _. right. eauto.
    + reflexivity.
    + discriminate.
    + intros [H|[e' [H1 H2]]]; [discriminate|]. inversion H1; subst. congruence.
  - split; [left; reflexivity | reflexivity].
Qed.

Definition ex_db : db :=
  put (put (put (put (put empty_db (s2b "w_a") (VStr (s2b "3")) None)
                          (s2b "w_b") (VStr (s2b "1.5")) None)
                     (s2b "w_c") (VStr (s2b "-2")) None)
                (s2b "o_a") (VHash [(s2b "name", s2b "Ann"); (s2b "age", s2b "30")]) None)
           (s2b "l") (VList [s2b "a"; s2b "b"; s2b "c"]) None.

Example pattern_get_ex :
  pattern_get 0 ex_db (s2b "#") (s2b "a") = Some (s2b "a") /\
  pattern_get 0 ex_db (s2b "w_*") (s2b "b") = Some (s2b "1.5") /\
  pattern_get 0 ex_db (s2b "w_*") (s2b "zz") = None /\
  pattern_get 0 ex_db (s2b "o_*->name") (s2b "a") = Some (s2b "Ann") /\
  pattern_get 0 ex_db (s2b "o_*->nope") (s2b "a") = None /\
  pattern_get 0 ex_db (s2b "o_*") (s2b "a") = None /\          (* a hash is not a string *)
  pattern_get 0 ex_db (s2b "w_*->f") (s2b "a") = None /\       (* a string is not a hash *)
  pattern_get 0 ex_db (s2b "nostar") (s2b "a") = None /\
  split_arrow (s2b "->->x") = Some ([], s2b "->x") /\ split_arrow (s2b "k->") = None.
Proof. vm_compute. repeat split. Qed.

Print Assumptions pattern_get_string.
Print Assumptions pattern_get_field.
Print Assumptions pattern_cases.

(* ================================================================== *)
(* 5. COMMAND LEVEL                                                    *)
(* ================================================================== *)

Definition conv_err : resp := err "ERR One or more scores can't be converted into double".

(* what cmd_sort does once the options are scanned (the same text as in Sort.v; the lemma
   cmd_sort_run below checks, by conversion, that it IS the body of cmd_sort) *)
Definition sort_run (now : Z) (d : db) (k : bytes) (o : sortopts) : res :=
  let src := sort_source now d k in
  match src with
  | SrcWrong => (d, wrongtype)
  | _ =>
    let elems := match src with SrcList l => l | SrcSet s => s | _ => [] end in
    let is_set := match src with SrcSet _ => true | _ => false end in
    let nosort := match st_by o with Some p => negb (has_star p) | None => false end in
    let force := nosort && is_set && (match st_store o with Some _ => true | None => false end) in
    let by_ := if force then None else st_by o in
    let alpha := if force then true else st_alpha o in
    let nosort := if force then false else nosort in
    let ordered : option (list bytes) :=
      if nosort then Some elems
      else match keyed now d by_ alpha elems with
           | Some ks => Some (map snd (sort_items (st_desc o) ks))
           | None => None
           end in
    match ordered with
    | None => (d, conv_err)
    | Some l =>
      let sel := window l (limit_window (Zlen l) (st_limit o)) in
      let out := out_elems now d (st_gets o) sel in
      match st_store o with
      | Some dst => (put_list d dst (map opt_bytes out) None, RInt (Zlen out))
      | None =>
        if nosort && is_set then
          match st_limit o, st_gets o with
          | None, [] => (d, RArrU (map opt_resp out))
          | _, _ => (d, RAny)
          end
        else (d, RArr (map opt_resp out))
      end
    end
  end.

Lemma cmd_sort_run now d k opts :
  cmd_sort now d (k :: opts) =
  match scan_sort opts st0 with
  | SSyntax => (d, syntaxerr)
  | SNotInt => (d, notint)
  | SOk o => sort_run now d k o
  end.
Proof. reflexivity. Qed.

Lemma cmd_sort_noargs now d : cmd_sort now d [] = (d, argerr).
Proof. reflexivity. Qed.

(* BY with a star-less pattern: no sorting *)
Definition is_nosort (o : sortopts) : bool :=
  match st_by o with Some p => negb (has_star p) | None => false end.

Lemma has_star_false_iff p : has_star p = false <-> ~ In 42%N p.
Proof.
  unfold has_star. split.
  - intros H X. apply in_split in X as [l1 [l2 ->]].
    assert (G : forall l1, split_star (l1 ++ 42%N :: l2) <> None).
    { clear. induction l1 as [|c l1 IH]; simpl; [discriminate|].
      destruct (N.eqb c 42); [discriminate|].
      destruct (split_star (l1 ++ 42%N :: l2)) as [[a b]|]; [discriminate | exact IH]. }
    destruct (split_star (l1 ++ 42%N :: l2)) eqn:S; [discriminate | apply (G l1 S)].
  - intro H. rewrite split_star_none by exact H. reflexivity.
Qed.

(* the sorted element sequence (None: some weight is not a number) *)
Definition ordered_of (now : Z) (d : db) (by_ : option bytes) (alpha desc : bool) (elems : list bytes)
  : option (list bytes) :=
  match keyed now d by_ alpha elems with
  | Some ks => Some (map snd (sort_items desc ks))
  | None => None
  end.

(* LIMIT, then GET *)
Definition sort_out (now : Z) (d : db) (o : sortopts) (l : list bytes) : list (option bytes) :=
  out_elems now d (st_gets o) (window l (limit_window (Zlen l) (st_limit o))).

(* reply, or store *)
Definition finish (now : Z) (d : db) (o : sortopts) (l : list bytes) : res :=
  match st_store o with
  | Some dst => (put_list d dst (map opt_bytes (sort_out now d o l)) None, RInt (Zlen (sort_out now d o l)))
  | None => (d, RArr (map opt_resp (sort_out now d o l)))
  end.

(* ---------- full characterisation by kind of source ---------- *)
Theorem sort_run_wrongtype now d k o e :
  lookup now d k = Some e -> (forall l, e_val e <> VList l) -> (forall s, e_val e <> VSet s) ->
  sort_run now d k o = (d, wrongtype).
Proof.
  intros H Hl Hs. unfold sort_run, sort_source. rewrite H.
  destruct (e_val e) as [b|l|h|s]; try reflexivity; [destruct (Hl l) | destruct (Hs s)]; reflexivity.
Qed.

Theorem sort_run_list now d k o e l :
  lookup now d k = Some e -> e_val e = VList l ->
  sort_run now d k o =
  match (if is_nosort o then Some l
         else ordered_of now d (st_by o) (st_alpha o) (st_desc o) l) with
  | None => (d, conv_err)
  | Some l' => finish now d o l'
  end.
Proof.
  intros H Hl. unfold sort_run, sort_source. rewrite H, Hl. cbv zeta. fold (is_nosort o).
  rewrite andb_false_r. cbn [andb]. unfold ordered_of, finish, sort_out.
  destruct (is_nosort o).
  - destruct (st_store o); reflexivity.
  - destruct (keyed now d (st_by o) (st_alpha o) l); [|reflexivity].
    destruct (st_store o); reflexivity.
Qed.

(* a missing (or expired) source is an empty list: empty reply; STORE removes the destination *)
Theorem sort_run_missing now d k o :
  lookup now d k = None ->
  sort_run now d k o =
  match st_store o with
  | Some dst => (del d dst, RInt 0)
  | None => (d, RArr [])
  end.
Proof.
  intro H. unfold sort_run, sort_source. rewrite H. cbv zeta. fold (is_nosort o).
  rewrite andb_false_r. cbn [andb].
  assert (W : forall lim, window (@nil bytes) (limit_window (Zlen (@nil bytes)) lim) = []).
  { intro lim. unfold window. rewrite skipn_nil. apply firstn_nil. }
  assert (O : out_elems now d (st_gets o) [] = []).
  { unfold out_elems. destruct (st_gets o); reflexivity. }
  destruct (is_nosort o).
  - rewrite W, O. destruct (st_store o); reflexivity.
  - cbn [keyed sort_items fold_right map]. rewrite W, O. destruct (st_store o); reflexivity.
Qed.

(* ALPHA keys never fail *)
Lemma keyed_alpha now d by_ l :
  keyed now d by_ true l = Some (map (fun x => (KStr (weight_of now d by_ x), x)) l).
Proof.
  apply keyed_some_iff. split.
  - apply Forall_forall. intros x _. discriminate.
  - reflexivity.
Qed.

Theorem sort_run_set now d k o e s :
  lookup now d k = Some e -> e_val e = VSet s ->
  sort_run now d k o =
  if is_nosort o then
    match st_store o with
    | Some dst =>
      (* stored: the members are sorted as text, whatever BY/ALPHA say *)
      finish now d o (map snd (sort_items (st_desc o) (map (fun x => (KStr (Some x), x)) s)))
    | None =>
      (* table order: unspecified *)
      match st_limit o, st_gets o with
      | None, [] => (d, RArrU (map RBulk s))
      | _, _ => (d, RAny)
      end
    end
  else
    match ordered_of now d (st_by o) (st_alpha o) (st_desc o) s with
    | None => (d, conv_err)
    | Some l' => finish now d o l'
    end.
Proof.
  intros H Hs. unfold sort_run, sort_source. rewrite H, Hs. cbv zeta. fold (is_nosort o).
  rewrite andb_true_r. unfold ordered_of, finish, sort_out.
  destruct (is_nosort o).
  - destruct (st_store o) as [dst|] eqn:St; cbn [andb].
    + rewrite keyed_alpha. reflexivity.
    + destruct (st_limit o); [reflexivity|]. destruct (st_gets o) eqn:G; [|reflexivity].
      unfold out_elems. rewrite limit_window_none, window_all, map_map. reflexivity.
  - cbn [andb]. destruct (keyed now d (st_by o) (st_alpha o) s); [|reflexivity].
    destruct (st_store o); reflexivity.
Qed.

Print Assumptions sort_run_list.
Print Assumptions sort_run_set.
Print Assumptions sort_run_missing.

(* ---------- (a) no STORE: the database is unchanged; errors are inert ---------- *)
Lemma sort_run_nostore_db now d k o : st_store o = None -> fst (sort_run now d k o) = d.
Proof.
  intro H. unfold sort_run. rewrite H. cbv zeta.
  destruct (sort_source now d k); try reflexivity;
    repeat match goal with
           | |- fst (match ?x with _ => _ end) = _ => destruct x; try reflexivity
           end.
Qed.

Lemma sort_run_store_cases now d k o dst :
  st_store o = Some dst ->
  (exists s, sort_run now d k o = (d, RErr s)) \/
  (exists outs, sort_run now d k o = (put_list d dst (map opt_bytes outs) None, RInt (Zlen outs))).
Proof.
  intro H. unfold sort_run. rewrite H. cbv zeta.
  destruct (sort_source now d k);
    try (left; eexists; reflexivity);
    match goal with
    | |- (exists s, match ?x with _ => _ end = _) \/ _ =>
      destruct x; [right; eexists; reflexivity | left; eexists; reflexivity]
    end.
Qed.

Theorem sort_nostore_db now d k opts o :
  scan_sort opts st0 = SOk o -> st_store o = None -> fst (cmd_sort now d (k :: opts)) = d.
Proof. intros H1 H2. rewrite cmd_sort_run, H1. apply sort_run_nostore_db. exact H2. Qed.

Theorem sort_error_inert now d args s :
  snd (cmd_sort now d args) = RErr s -> fst (cmd_sort now d args) = d.
Proof.
  destruct args as [|k opts]; [reflexivity|]. rewrite cmd_sort_run.
  destruct (scan_sort opts st0) as [o| |]; try reflexivity.
  destruct (st_store o) as [dst|] eqn:St.
  - destruct (sort_run_store_cases now d k o dst St) as [[s' ->]|[outs ->]]; [reflexivity | discriminate].
  - intros _. apply sort_run_nostore_db. exact St.
Qed.

(* ---------- (b) STORE ---------- *)
Lemma lookup_put_list_same now d dst out :
  lookup now (put_list d dst out None) dst =
  match out with
  | [] => None
  | _ => Some (mkE (VList out) None (d_next d + 1)%N)
  end.
Proof.
  unfold put_list, put_or_del. destruct out as [|x out]; cbn [is_empty_agg].
  - apply lookup_del_same.
  - rewrite lookup_put_same. reflexivity.
Qed.

Lemma lookup_put_list_other now d dst out k' :
  k' <> dst -> lookup now (put_list d dst out None) k' = lookup now d k'.
Proof. intro H. unfold put_list. apply lookup_put_or_del_other. exact H. Qed.

Lemma Zlen_map {A B} (f : A -> B) l : Zlen (map f l) = Zlen l.
Proof. unfold Zlen. rewrite map_length. reflexivity. Qed.

(* a successful SORT ... STORE dst: the destination becomes the list out (no deadline; removed
   when out is empty), nothing else changes, the reply is the length of out *)
Theorem sort_store now d k opts o dst :
  scan_sort opts st0 = SOk o -> st_store o = Some dst ->
  (forall s, snd (cmd_sort now d (k :: opts)) <> RErr s) ->
  exists out,
    cmd_sort now d (k :: opts) = (put_list d dst out None, RInt (Zlen out)) /\
    lookup now (fst (cmd_sort now d (k :: opts))) dst =
      match out with [] => None | _ => Some (mkE (VList out) None (d_next d + 1)%N) end /\
    (forall k', k' <> dst ->
       lookup now (fst (cmd_sort now d (k :: opts))) k' = lookup now d k').
Proof.
  intros H1 H2 H3. rewrite cmd_sort_run, H1 in *.
  destruct (sort_run_store_cases now d k o dst H2) as [[s E]|[outs E]].
  - exfalso. apply (H3 s). rewrite E. reflexivity.
  - exists (map opt_bytes outs). rewrite E, Zlen_map. cbn [fst]. repeat split.
    + apply lookup_put_list_same.
    + intros k' Hk. apply lookup_put_list_other. exact Hk.
Qed.

(* ... and for a list source the stored list is exactly what the same SORT would reply
   (finish, above: the same sort_out in both cases), a missing GET value being stored as "" *)
Theorem sort_store_list now d k opts o dst e l l' :
  scan_sort opts st0 = SOk o -> st_store o = Some dst ->
  lookup now d k = Some e -> e_val e = VList l ->
  (if is_nosort o then Some l else ordered_of now d (st_by o) (st_alpha o) (st_desc o) l) = Some l' ->
  let out := map opt_bytes (sort_out now d o l') in
  cmd_sort now d (k :: opts) = (put_list d dst out None, RInt (Zlen out)) /\
  lookup now (put_list d dst out None) dst =
    match out with [] => None | _ => Some (mkE (VList out) None (d_next d + 1)%N) end /\
  (forall k', k' <> dst -> lookup now (put_list d dst out None) k' = lookup now d k').
Proof.
  intros H1 H2 H3 H4 H5. cbv zeta.
  rewrite cmd_sort_run, H1, (sort_run_list now d k o e l H3 H4), H5.
  unfold finish. rewrite H2, Zlen_map. repeat split.
  - apply lookup_put_list_same.
  - intros k' Hk. apply lookup_put_list_other. exact Hk.
Qed.

Theorem sort_reply_list now d k opts o e l l' :
  scan_sort opts st0 = SOk o -> st_store o = None ->
  lookup now d k = Some e -> e_val e = VList l ->
  (if is_nosort o then Some l else ordered_of now d (st_by o) (st_alpha o) (st_desc o) l) = Some l' ->
  cmd_sort now d (k :: opts) = (d, RArr (map opt_resp (sort_out now d o l'))).
Proof.
  intros H1 H2 H3 H4 H5. rewrite cmd_sort_run, H1, (sort_run_list now d k o e l H3 H4), H5.
  unfold finish. rewrite H2. reflexivity.
Qed.

(* ---------- (c) wrong type, missing source ---------- *)
Theorem sort_wrongtype now d k opts o e :
  scan_sort opts st0 = SOk o -> lookup now d k = Some e ->
  ((exists b, e_val e = VStr b) \/ (exists h, e_val e = VHash h)) ->
  cmd_sort now d (k :: opts) = (d, wrongtype).
Proof.
  intros H1 H2 H3. rewrite cmd_sort_run, H1. apply (sort_run_wrongtype now d k o e H2).
  - intros l X. destruct H3 as [[b Y]|[h Y]]; congruence.
  - intros s X. destruct H3 as [[b Y]|[h Y]]; congruence.
Qed.

Theorem sort_missing now d k opts o :
  scan_sort opts st0 = SOk o -> lookup now d k = None ->
  cmd_sort now d (k :: opts) =
  match st_store o with
  | Some dst => (del d dst, RInt 0)
  | None => (d, RArr [])
  end.
Proof. intros H1 H2. rewrite cmd_sort_run, H1. apply sort_run_missing. exact H2. Qed.

(* ---------- (d) plain numeric sort of a list ---------- *)
(* x may stand before y: both are numbers, ordered by value, equal values by bytes *)
Definition num_le (desc : bool) (x y : bytes) : Prop :=
  exists a b, parse_score x = Some a /\ parse_score y = Some b /\
              item_le desc (KNum a, x) (KNum b, y) = true.

Lemma num_le_asc x y :
  num_le false x y <->
  exists a b, parse_score x = Some a /\ parse_score y = Some b /\
              ((sval a < sval b)%Q \/ ((sval a == sval b)%Q /\ bytes_cmp x y <> Gt)).
Proof.
  unfold num_le. split; intros (a & b & Ha & Hb & H); exists a, b; repeat split; try assumption.
  - apply item_le_asc_num in H. rewrite score_cmp_lt, score_cmp_eq in H. exact H.
  - apply item_le_asc_num. rewrite score_cmp_lt, score_cmp_eq. exact H.
Qed.

Lemma StronglySorted_map {A B} (R : A -> A -> Prop) (R' : B -> B -> Prop) (f : A -> B) l :
  (forall x y, In x l -> In y l -> R x y -> R' (f x) (f y)) ->
  StronglySorted R l -> StronglySorted R' (map f l).
Proof.
  intros H S. induction S as [|a l S IH Hf]; simpl; [constructor|]. constructor.
  - apply IH. intros x y Hx Hy. apply H; right; assumption.
  - rewrite Forall_forall in *. intros b Hb. apply in_map_iff in Hb as [y [<- Hy]].
    apply H; [left; reflexivity | right; exact Hy | apply Hf; exact Hy].
Qed.

Lemma key_or_num now d x a :
  parse_score x = Some a -> key_or now d None false x = KNum a.
Proof. intro H. unfold key_or, key_of, weight_of. rewrite H. reflexivity. Qed.

Theorem sort_numeric_list now d k opts o e l :
  scan_sort opts st0 = SOk o ->
  st_by o = None -> st_limit o = None -> st_gets o = [] -> st_alpha o = false -> st_store o = None ->
  lookup now d k = Some e -> e_val e = VList l ->
  Forall (fun x => parse_score x <> None) l ->
  exists l',
    cmd_sort now d (k :: opts) = (d, RArr (map RBulk l')) /\
    Permutation l' l /\ StronglySorted (num_le (st_desc o)) l' /\
    (* and l' is the only such list *)
    (forall l'', Permutation l'' l -> StronglySorted (num_le (st_desc o)) l'' -> l'' = l').
Proof.
  intros Hscan Hby Hlim Hget Halpha Hst Hk Hl Hnum.
  set (kf := fun x : bytes => (key_or now d None false x, x)).
  assert (Hkeyed : keyed now d None false l = Some (map kf l)).
  { apply keyed_some_iff. split; [|reflexivity].
    eapply Forall_impl; [|exact Hnum]. intros x Hx. cbv beta in Hx. unfold key_of, weight_of.
    destruct (parse_score x); [discriminate | exfalso; apply Hx; reflexivity]. }
  assert (Hsnd : forall m, map snd (map kf m) = m).
  { intro m. rewrite map_map. apply map_id. }
  set (l' := map snd (sort_items (st_desc o) (map kf l))).
  assert (Hperm : Permutation l' l).
  { unfold l'. rewrite <- (Hsnd l) at 2. apply Permutation_map. apply sort_items_perm. }
  exists l'. repeat split.
  - rewrite (sort_reply_list now d k opts o e l l' Hscan Hst Hk Hl).
    + unfold sort_out, out_elems. rewrite Hget, Hlim, limit_window_none, window_all, map_map. reflexivity.
    + unfold is_nosort, ordered_of. rewrite Hby, Halpha, Hkeyed. reflexivity.
  - exact Hperm.
  - unfold l'. eapply StronglySorted_map; [|apply sort_items_sorted].
    intros p q Hp Hq Hpq.
    assert (G : forall p, In p (sort_items (st_desc o) (map kf l)) ->
                          exists a, parse_score (snd p) = Some a /\ p = (KNum a, snd p)).
    { intros r Hr. eapply Permutation_in in Hr; [|apply sort_items_perm].
      apply in_map_iff in Hr as [x [<- Hx]]. rewrite Forall_forall in Hnum. specialize (Hnum x Hx).
      destruct (parse_score x) as [a|] eqn:P; [|congruence].
      exists a. unfold kf. simpl. rewrite (key_or_num now d x a P). split; [exact P | reflexivity]. }
    destruct (G p Hp) as [a [Pa Ea]]. destruct (G q Hq) as [b [Pb Eb]].
    exists a, b. repeat split; try assumption. rewrite <- Ea, <- Eb. exact Hpq.
  - intros l'' P'' S''. unfold l'. rewrite <- (Hsnd l'').
    apply sort_items_unique; [apply Permutation_map; exact P''|].
    unfold sorted_by. eapply StronglySorted_map; [|exact S''].
    intros x y _ _ (a & b & Pa & Pb & Hle). unfold kf.
    rewrite (key_or_num now d x a Pa), (key_or_num now d y b Pb). exact Hle.
Qed.

(* one element that is not a number: the error, and nothing changes *)
Theorem sort_numeric_list_bad now d k opts o e l x :
  scan_sort opts st0 = SOk o -> st_by o = None -> st_alpha o = false ->
  lookup now d k = Some e -> e_val e = VList l ->
  In x l -> parse_score x = None ->
  cmd_sort now d (k :: opts) = (d, conv_err).
Proof.
  intros Hscan Hby Halpha Hk Hl Hx Px.
  rewrite cmd_sort_run, Hscan, (sort_run_list now d k o e l Hk Hl).
  unfold is_nosort, ordered_of. rewrite Hby, Halpha.
  assert (K : keyed now d None false l = None).
  { apply keyed_none_iff. exists x. split; [exact Hx|]. unfold key_of, weight_of. rewrite Px. reflexivity. }
  rewrite K. reflexivity.
Qed.

(* ---------- (e) BY nosort ---------- *)
Theorem sort_by_nosort_list now d k opts o p e l :
  scan_sort opts st0 = SOk o ->
  st_by o = Some p -> ~ In 42%N p -> st_limit o = None -> st_gets o = [] -> st_store o = None ->
  lookup now d k = Some e -> e_val e = VList l ->
  cmd_sort now d (k :: opts) = (d, RArr (map RBulk l)).
Proof.
  intros Hscan Hby Hp Hlim Hget Hst Hk Hl.
  rewrite (sort_reply_list now d k opts o e l l Hscan Hst Hk Hl).
  - unfold sort_out, out_elems. rewrite Hget, Hlim, limit_window_none, window_all, map_map. reflexivity.
  - unfold is_nosort. rewrite Hby, (proj2 (has_star_false_iff p) Hp). reflexivity.
Qed.

(* the same with LIMIT and GET: the window of the list, in the list's own order *)
Theorem sort_by_nosort_list_gen now d k opts o p e l :
  scan_sort opts st0 = SOk o ->
  st_by o = Some p -> ~ In 42%N p -> st_store o = None ->
  lookup now d k = Some e -> e_val e = VList l ->
  cmd_sort now d (k :: opts) =
  (d, RArr (map opt_resp (out_elems now d (st_gets o) (window l (limit_window (Zlen l) (st_limit o)))))).
Proof.
  intros Hscan Hby Hp Hst Hk Hl.
  rewrite (sort_reply_list now d k opts o e l l Hscan Hst Hk Hl); [reflexivity|].
  unfold is_nosort. rewrite Hby, (proj2 (has_star_false_iff p) Hp). reflexivity.
Qed.

Print Assumptions sort_nostore_db.
Print Assumptions sort_error_inert.
Print Assumptions sort_store.
Print Assumptions sort_store_list.
Print Assumptions sort_wrongtype.
Print Assumptions sort_missing.
Print Assumptions sort_numeric_list.
Print Assumptions sort_numeric_list_bad.
Print Assumptions sort_by_nosort_list.

(* ---------- DESC vs ASC on the items themselves ---------- *)
(* The requested "DESC is the exact reverse of ASC on lists without duplicate (key, element)
   pairs" is FALSE for item lists: two different keys of equal value (1.0 and 1) attached to the
   same element tie, and insertion keeps their input order in both directions. *)
Example desc_rev_items_counterexample :
  let l := [(KNum (mkSc 10 1), s2b "x"); (KNum (mkSc 1 0), s2b "x")] in
  NoDup l /\ sort_items true l <> rev (sort_items false l).
Proof.
  split.
  - constructor; [intros [X|[]]; discriminate X | constructor; [intros [] | constructor]].
  - vm_compute. discriminate.
Qed.

Lemma ieqv_all_eq l1 l2 :
  (forall a b, In a l1 -> In b l2 -> ieqv a b -> a = b) -> Forall2 ieqv l1 l2 -> l1 = l2.
Proof.
  intros H F. induction F as [|a b l1 l2 Hab F IH]; [reflexivity|]. f_equal.
  - apply H; [left; reflexivity | left; reflexivity | exact Hab].
  - apply IH. intros x y Hx Hy. apply H; right; assumption.
Qed.

(* strongest true variant: ties inside l are identical pairs (always so for the output of keyed,
   where the key is a function of the element) *)
Theorem sort_items_desc_rev_items_partial l :
  (forall a b, In a l -> In b l -> icmp a b = Eq -> a = b) ->
  sort_items true l = rev (sort_items false l).
Proof.
  intro H. apply ieqv_all_eq.
  - intros a b Ha Hb. apply H.
    + eapply Permutation_in; [apply sort_items_perm | exact Ha].
    + apply in_rev in Hb. eapply Permutation_in; [apply sort_items_perm | exact Hb].
  - apply (sorted_perm_unique true).
    + apply sort_items_sorted.
    + apply (sorted_by_rev false). apply sort_items_sorted.
    + eapply perm_trans; [apply sort_items_perm|].
      eapply perm_trans; [apply Permutation_sym, (sort_items_perm false) | apply Permutation_rev].
Qed.

Corollary keyed_desc_rev now d by_ alpha l ks :
  keyed now d by_ alpha l = Some ks -> sort_items true ks = rev (sort_items false ks).
Proof.
  intro H. apply keyed_some_iff in H as [_ ->]. apply sort_items_desc_rev_items_partial.
  intros a b Ha Hb E. apply in_map_iff in Ha as [x [<- _]]. apply in_map_iff in Hb as [y [<- _]].
  apply icmp_eq in E as [_ E]. simpl in E. subst y. reflexivity.
Qed.

Print Assumptions sort_items_desc_rev_items_partial.
Print Assumptions keyed_desc_rev.

(* ================================================================== *)
(* 6. EXAMPLES                                                         *)
(* ================================================================== *)

Module Ex6.
Definition B := s2b.
Definition db6 : db :=
  let d := empty_db in
  let d := put d (B "nums") (VList [B "10"; B "3"; B "-2"; B "1.5"; B "3.0"]) None in
  let d := put d (B "l") (VList [B "a"; B "b"; B "c"]) None in
  let d := put d (B "w_a") (VStr (B "3")) None in
  let d := put d (B "w_b") (VStr (B "1.5")) None in
  let d := put d (B "w_c") (VStr (B "-2")) None in
  let d := put d (B "o_a") (VHash [(B "name", B "Ann"); (B "age", B "30")]) None in
  let d := put d (B "o_b") (VHash [(B "name", B "Bob")]) None in
  let d := put d (B "names") (VList [B "pear"; B "Apple"; B "fig"; B "apple"]) None in
  let d := put d (B "s") (VSet [B "q"; B "p"; B "r"]) None in
  let d := put d (B "str") (VStr (B "v")) None in
  let d := put d (B "old") (VStr (B "gone")) (Some 5) in
  d.

Definition run (args : list string) : res := cmd_sort 100 db6 (map B args).
Definition reply (args : list string) : resp := snd (run args).
Definition bulks6 (l : list string) : resp := RArr (map (fun s => RBulk (B s)) l).

(* plain numeric sort; 3 and 3.0 tie on value and are ordered by bytes *)
Example ex_numeric : reply ["nums"] = bulks6 ["-2"; "1.5"; "3"; "3.0"; "10"].
Proof. vm_compute. reflexivity. Qed.

Example ex_desc_limit : reply ["nums"; "DESC"; "LIMIT"; "1"; "2"] = bulks6 ["3.0"; "3"].
Proof. vm_compute. reflexivity. Qed.

Example ex_limit_cases :
  reply ["nums"; "LIMIT"; "-5"; "2"] = bulks6 ["-2"; "1.5"] /\
  reply ["nums"; "LIMIT"; "3"; "-1"] = bulks6 ["3.0"; "10"] /\
  reply ["nums"; "LIMIT"; "3"; "100"] = bulks6 ["3.0"; "10"] /\
  reply ["nums"; "LIMIT"; "5"; "1"] = bulks6 [] /\
  reply ["nums"; "LIMIT"; "2"; "0"] = bulks6 [].
Proof. vm_compute. repeat split. Qed.

(* ALPHA: byte order, not numeric, not case folded *)
Example ex_alpha :
  reply ["nums"; "ALPHA"] = bulks6 ["-2"; "1.5"; "10"; "3"; "3.0"] /\
  reply ["names"; "ALPHA"] = bulks6 ["Apple"; "apple"; "fig"; "pear"] /\
  reply ["names"; "alpha"; "desc"] = bulks6 ["pear"; "fig"; "apple"; "Apple"].
Proof. vm_compute. repeat split. Qed.

(* BY with weights in other keys: c (-2) < b (1.5) < a (3) *)
Example ex_by : reply ["l"; "BY"; "w_*"] = bulks6 ["c"; "b"; "a"].
Proof. vm_compute. reflexivity. Qed.

(* GET with "#" and a hash field; o_c does not exist: nil *)
Example ex_by_get :
  reply ["l"; "BY"; "w_*"; "DESC"; "GET"; "#"; "GET"; "o_*->name"] =
  RArr [RBulk (B "a"); RBulk (B "Ann"); RBulk (B "b"); RBulk (B "Bob"); RBulk (B "c"); RNil].
Proof. vm_compute. reflexivity. Qed.

(* BY a hash field, missing weights count 0: b and c (no age: 0, tie, by bytes) then a (30) *)
Example ex_by_field : reply ["l"; "BY"; "o_*->age"] = bulks6 ["b"; "c"; "a"].
Proof. vm_compute. reflexivity. Qed.

(* BY nosort: the list's own order; GET still applies *)
Example ex_nosort :
  reply ["l"; "BY"; "nosort"] = bulks6 ["a"; "b"; "c"] /\
  reply ["l"; "BY"; "nosort"; "GET"; "w_*"; "LIMIT"; "1"; "2"] = bulks6 ["1.5"; "-2"].
Proof. vm_compute. repeat split. Qed.

(* STORE: reply is the length, dst holds the result without deadline, a nil GET is stored as "" *)
Example ex_store :
  snd (run ["l"; "BY"; "w_*"; "GET"; "o_*->name"; "STORE"; "old"]) = RInt 3 /\
  option_map (fun e => (e_val e, e_exp e)) (lookup 100 (fst (run ["l"; "BY"; "w_*"; "GET"; "o_*->name"; "STORE"; "old"])) (B "old"))
    = Some (VList [[]; B "Bob"; B "Ann"], None) /\
  lookup 100 (fst (run ["l"; "BY"; "w_*"; "STORE"; "old"])) (B "l") = lookup 100 db6 (B "l").
Proof. vm_compute. repeat split. Qed.

(* an empty result (or a missing source) with STORE removes the destination *)
Example ex_store_empty :
  run ["nosuch"; "STORE"; "l"] = (del db6 (B "l"), RInt 0) /\
  lookup 100 (fst (run ["nosuch"; "STORE"; "l"])) (B "l") = None /\
  snd (run ["nums"; "LIMIT"; "9"; "9"; "STORE"; "l"]) = RInt 0 /\
  reply ["nosuch"] = RArr [] /\
  reply ["old"] = RArr [].          (* "old" expired at 5 < now = 100 *)
Proof. vm_compute. repeat split. Qed.

(* sets: sorted like lists; BY nosort is table order (unspecified), but sorted as text when stored *)
Example ex_set :
  reply ["s"; "ALPHA"] = bulks6 ["p"; "q"; "r"] /\
  reply ["s"; "BY"; "nosort"] = RArrU [RBulk (B "q"); RBulk (B "p"); RBulk (B "r")] /\
  reply ["s"; "BY"; "nosort"; "LIMIT"; "0"; "1"] = RAny /\
  option_map e_val (lookup 100 (fst (run ["s"; "BY"; "nosort"; "DESC"; "STORE"; "dst"])) (B "dst"))
    = Some (VList [B "r"; B "q"; B "p"]).
Proof. vm_compute. repeat split. Qed.

(* errors: all inert *)
Example ex_errors :
  run ["str"] = (db6, wrongtype) /\
  run ["l"] = (db6, conv_err) /\                      (* a, b, c are not numbers *)
  run ["l"; "STORE"; "dst"] = (db6, conv_err) /\
  run ["l"; "LIMIT"; "0"] = (db6, syntaxerr) /\
  run ["l"; "LIMIT"; "0"; "x"] = (db6, notint) /\
  run ["l"; "BOGUS"] = (db6, syntaxerr) /\
  run ["str"; "BOGUS"] = (db6, syntaxerr) /\          (* options are checked before the type *)
  run [] = (db6, argerr).
Proof. vm_compute. repeat split. Qed.

(* instances of the hypotheses of the main theorems *)
Example ex_hyp_numeric :
  exists e, scan_sort (map B ["DESC"]) st0 = SOk (mkSoO None None [] true false None) /\
            lookup 100 db6 (B "nums") = Some e /\
            e_val e = VList [B "10"; B "3"; B "-2"; B "1.5"; B "3.0"] /\
            forallb (fun x => match parse_score x with Some _ => true | None => false end)
                    [B "10"; B "3"; B "-2"; B "1.5"; B "3.0"] = true.
Proof. eexists. vm_compute. repeat split. Qed.

Example ex_hyp_patterns :
  first_arrow (B "") /\ no_arrow (B "") /\ ~ In 42%N (B "o_") /\
  B "o_*->name" = B "o_" ++ 42%N :: B "" ++ 45%N :: 62%N :: B "name".
Proof.
  repeat split.
  - intros u v X. destruct u as [|u0 [|u1 u]]; discriminate X.
  - intros a f _ X. destruct a; discriminate X.
  - vm_compute. intros [X|[X|[]]]; discriminate X.
Qed.

(* NOTE (model vs emulator, not a theorem about the model): the model computes the window in Z,
   as Redis does in 64-bit longs without overflow for these values; a huge count is just "all" *)
Example ex_limit_huge : limit_window 5 (Some (1, max_i64)) = (1, 4).
Proof. vm_compute. reflexivity. Qed.
End Ex6.
