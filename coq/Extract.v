(* Extract.v — extraction of the executable model to OCaml.
   ExtrOcamlBasic only (bool, option, list, pair, unit, sumbool -> OCaml's);
   N, Z, positive, nat stay inductive. No Extract Constant / Extract Inductive of our own. *)
From RE Require Import Base Resp State Exec Exec2 Bits Dispatch.
Require Import ExtrOcamlBasic.
Extraction "model.ml" step wire close_conn state0 ser to2 o_st o_reply o_block get_db get_conn.
