(* Extract.v — extraction of the executable model to OCaml.
   ExtrOcamlBasic only (bool, option, list, pair, unit, sumbool -> OCaml's);
   N, Z, positive, nat stay inductive. No Extract Constant / Extract Inductive of our own. *)
From RE Require Import Base Resp State Exec Exec2 Bits Dispatch RespParse Dict.
From RE Require Wait.
From RE Require Import Persist PersistDir.
From RE Require Cxn.
Definition c0 := Cxn.c0.
Definition cstep := Cxn.cstep.
Require Import ExtrOcamlBasic.
Definition dict_unit := dict unit.
Definition dict_empty : dict unit := empty_dict.
Definition dict_store (d : dict unit) (k : bytes) (h : N) : outcome (dict unit) := store d k h tt.
Definition dict_remove (d : dict unit) (k : bytes) (h : N) : dict unit * bool := remove d k h.
Definition dict_scan (d : dict unit) (cursor : N) (count : nat) : N * list (item unit) := scan_call d (fun _ => true) cursor count.
(* the block/wake protocol (Wait.v), stepped label by label against the emulator *)
Definition w_cfg0 : Wait.cfg := Wait.cfg0.
Definition w_step : Wait.cfg -> Wait.label -> option Wait.cfg := Wait.wstep.
Extraction "model.ml" w_cfg0 w_step step wire close_conn state0 ser to2 o_st o_reply o_block get_db get_conn
  parse conn_run enc_cmd dict_empty dict_store dict_remove dict_scan d_log d_slots d_count d_removals it_key it_hash load_plan file_index c0 cstep.
