(* Exec.v — the data commands, one function per handler of cmdDispatcher.go's
   handlerTable, written from the Go handlers (redisKeys.go, redisList.go,
   redisHashTable.go, redisSet.go, redisCore.go) and the store methods they
   call (dataStoreCommands.go).  [now] is the server clock in ns. *)
From RE Require Import Base Resp State.
From Coq Require Import String.
From Coq Require Import List.
Open Scope string_scope.
Open Scope list_scope.
Open Scope Z_scope.

Definition err (s : string) : resp := RErr (s2b s).
Definition wrongtype : resp :=
  err "WRONGTYPE Operation against a key holding the wrong kind of value".
Definition argerr : resp := err "ERR Incorrect or wrong number of arguments".
Definition notint : resp := err "ERR value is not an integer or out of range".
Definition syntaxerr : resp := err "ERR Syntax error".
Definition ok : resp := RSimple (s2b "OK").
Definition bulks (l : list bytes) : list resp := map RBulk l.

Definition res := (db * resp)%type.

(* ---------- generic argument helpers ---------- *)
Definition is_kw (a : bytes) (kw : string) : bool := ieq a (s2b kw).

Definition sec : Z := 1000000000.
Definition msec : Z := 1000000.

(* floor division towards -inf is what UnixMilli/Unix do for post-1970 times *)
Definition unix_ms (t : Z) : Z := t / msec.
Definition unix_s (t : Z) : Z := t / sec.

(* ================= strings (redisKeys.go) ================= *)

Record setopts := mkSO { so_nx : bool; so_xx : bool; so_get : bool; so_keep : bool;
                         so_exp : option Z; so_bad : bool }.
Definition so0 := mkSO false false false false None false.

(* SET option scanner: [NX|XX] [GET] [EX s|PX ms|EXAT s|PXAT ms|KEEPTTL], any order,
   each group at most once.  so_bad = syntax error; an expire value <= 0 is reported
   separately as "invalid expire time". *)
Inductive scanres := ScanOk (o : setopts) | ScanSyntax | ScanBadExpire.

Fixpoint scan_set (now : Z) (fuel : nat) (args : list bytes) (o : setopts) (hascond hasexp hasget : bool)
  : scanres :=
  match fuel with
  | O => ScanSyntax
  | S fuel' =>
    match args with
    | [] => ScanOk o
    | a :: r =>
      if is_kw a "NX" then
        if hascond then ScanSyntax else
        scan_set now fuel' r (mkSO true (so_xx o) (so_get o) (so_keep o) (so_exp o) false) true hasexp hasget
      else if is_kw a "XX" then
        if hascond then ScanSyntax else
        scan_set now fuel' r (mkSO (so_nx o) true (so_get o) (so_keep o) (so_exp o) false) true hasexp hasget
      else if is_kw a "GET" then
        if hasget then ScanSyntax else
        scan_set now fuel' r (mkSO (so_nx o) (so_xx o) true (so_keep o) (so_exp o) false) hascond hasexp true
      else if is_kw a "KEEPTTL" then
        if hasexp then ScanSyntax else
        scan_set now fuel' r (mkSO (so_nx o) (so_xx o) (so_get o) true (so_exp o) false) hascond true hasget
      else
        let unit :=
          if is_kw a "EX" then Some (sec, true) else
          if is_kw a "PX" then Some (msec, true) else
          if is_kw a "EXAT" then Some (sec, false) else
          if is_kw a "PXAT" then Some (msec, false) else None in
        match unit, r with
        | Some (u, rel), v :: r' =>
          if hasexp then ScanSyntax else
          match parse_i64 v with
          | Some n =>
            if n <=? 0 then ScanBadExpire else
            let t := if rel then now + n * u else n * u in
            scan_set now fuel' r' (mkSO (so_nx o) (so_xx o) (so_get o) (so_keep o) (Some t) false) hascond true hasget
          | None => ScanSyntax
          end
        | _, _ => ScanSyntax
        end
    end
  end.

Definition str_of (e : entry) : option bytes :=
  match e_val e with VStr b => Some b | _ => None end.

(* setKey (dataStoreCommands.go) *)
Definition set_core (now : Z) (d : db) (k v : bytes) (o : setopts) : res :=
  match lookup now d k with
  | Some e =>
    let getval := match str_of e with Some b => Some (RBulk b) | None => None end in
    if so_get o && (match getval with None => true | _ => false end) then (d, wrongtype) else
    if so_nx o then (d, if so_get o then match getval with Some r => r | None => RNil end else RNil) else
    let exp := if so_keep o then e_exp e else so_exp o in
    (put d k (VStr v) exp,
     if so_get o then match getval with Some r => r | None => RNil end else ok)
  | None =>
    if so_xx o then (d, RNil) else
    (put d k (VStr v) (so_exp o), if so_get o then RNil else ok)
  end.

Definition cmd_set (now : Z) (d : db) (args : list bytes) : res :=
  match args with
  | k :: v :: opts =>
    match scan_set now (S (length opts)) opts so0 false false false with
    | ScanOk o => set_core now d k v o
    | ScanSyntax => (d, argerr)
    | ScanBadExpire => (d, err "ERR invalid expire time in 'set' command")
    end
  | _ => (d, argerr)
  end.

Definition cmd_setnx (now : Z) (d : db) (args : list bytes) : res :=
  match args with
  | [k; v] =>
    match lookup now d k with
    | Some _ => (d, RInt 0)
    | None => (put d k (VStr v) None, RInt 1)
    end
  | _ => (d, argerr)
  end.

Definition cmd_setex (unit : Z) (now : Z) (d : db) (args : list bytes) : res :=
  match args with
  | [k; n; v] =>
    match parse_i64 n with
    | Some n => if n <=? 0 then (d, err "ERR invalid expire time in 'setex' command")
                else (put d k (VStr v) (Some (now + n * unit)), ok)
    | None => (d, argerr)
    end
  | _ => (d, argerr)
  end.

Definition cmd_get (now : Z) (d : db) (args : list bytes) : res :=
  match args with
  | [k] => match lookup now d k with
           | Some e => match str_of e with Some b => (d, RBulk b) | None => (d, wrongtype) end
           | None => (d, RNil)
           end
  | _ => (d, argerr)
  end.

Definition cmd_getset (now : Z) (d : db) (args : list bytes) : res :=
  match args with
  | [k; v] => set_core now d k v (mkSO false false true false None false)
  | _ => (d, argerr)
  end.

Definition cmd_getdel (now : Z) (d : db) (args : list bytes) : res :=
  match args with
  | [k] => match lookup now d k with
           | Some e => match str_of e with Some b => (del d k, RBulk b) | None => (d, wrongtype) end
           | None => (d, RNil)
           end
  | _ => (d, argerr)
  end.

(* GETEX key [EX s|PX ms|EXAT s|PXAT ms|PERSIST] *)
Definition cmd_getex (now : Z) (d : db) (args : list bytes) : res :=
  match args with
  | k :: opts =>
    let act : option (option (option Z)) :=     (* None = syntax error; Some None = leave; Some (Some x) = set x *)
      match opts with
      | [] => Some None
      | [p] => if is_kw p "PERSIST" then Some (Some None) else None
      | [u; n] =>
        let unit :=
          if is_kw u "EX" then Some (sec, true) else
          if is_kw u "PX" then Some (msec, true) else
          if is_kw u "EXAT" then Some (sec, false) else
          if is_kw u "PXAT" then Some (msec, false) else None in
        match unit, parse_i64 n with
        | Some (un, rel), Some n => if n <=? 0 then Some (Some (Some (-1))) (* flagged below *)
                                    else Some (Some (Some (if rel then now + n * un else n * un)))
        | _, _ => None
        end
      | _ => None
      end in
    match act with
    | None => (d, argerr)
    | Some (Some (Some (-1))) => (d, err "ERR invalid expire time in 'getex' command")
    | Some a =>
      match lookup now d k with
      | Some e =>
        match str_of e with
        | Some b => (match a with
                     | None => d
                     | Some x => set_exp d k e x
                     end, RBulk b)
        | None => (d, wrongtype)
        end
      | None => (d, RNil)
      end
    end
  | _ => (d, argerr)
  end.

Definition cmd_append (now : Z) (d : db) (args : list bytes) : res :=
  match args with
  | [k; v] =>
    match lookup now d k with
    | Some e => match str_of e with
                | Some b => (put d k (VStr (b ++ v)) (e_exp e), RInt (Zlen (b ++ v)))
                | None => (d, wrongtype)
                end
    | None => (put d k (VStr v) None, RInt (Zlen v))
    end
  | _ => (d, argerr)
  end.

Definition cmd_strlen (now : Z) (d : db) (args : list bytes) : res :=
  match args with
  | [k] => match lookup now d k with
           | Some e => match str_of e with Some b => (d, RInt (Zlen b)) | None => (d, wrongtype) end
           | None => (d, RInt 0)
           end
  | _ => (d, argerr)
  end.

(* fnGetRange: index normalisation (Redis 7 getrangeCommand) then a slice *)
Definition getrange_bounds (n start stop : Z) : option (Z * Z) :=
  if (start <? 0) && (stop <? 0) && (stop <? start) then None else
  let start := if start <? 0 then n + start else start in
  let stop := if stop <? 0 then n + stop else stop in
  let start := if start <? 0 then 0 else start in
  let stop := if stop <? 0 then 0 else stop in
  let stop := if n <=? stop then n - 1 else stop in
  if (stop <? start) || (n =? 0) then None else Some (start, stop).

Definition slice {A} (l : list A) (start stop : Z) : list A :=   (* inclusive bounds *)
  firstn (Z.to_nat (stop - start + 1)) (skipn (Z.to_nat start) l).

Definition cmd_getrange (now : Z) (d : db) (args : list bytes) : res :=
  match args with
  | [k; s; e] =>
    match parse_i64 s, parse_i64 e with
    | Some s, Some e =>
      match lookup now d k with
      | Some en =>
        match str_of en with
        | Some b => match getrange_bounds (Zlen b) s e with
                    | Some (a, z) => (d, RBulk (slice b a z))
                    | None => (d, RBulk [])
                    end
        | None => (d, wrongtype)
        end
      | None => (d, RBulk [])
      end
    | _, _ => (d, argerr)
    end
  | _ => (d, argerr)
  end.

Definition max_str : Z := 536870912.  (* proto-max-bulk-len, 512 MB *)

(* setRange *)
Definition setrange_bytes (old : bytes) (off : nat) (v : bytes) : bytes :=
  let padded := old ++ repeatN 0%N (off - length old) in
  firstn off padded ++ v ++ skipn (off + length v) old.

Definition cmd_setrange (now : Z) (d : db) (args : list bytes) : res :=
  match args with
  | [k; o; v] =>
    match parse_i64 o with
    | Some off =>
      if off <? 0 then (d, err "ERR offset is out of range") else
      match lookup now d k with
      | Some e =>
        match str_of e with
        | Some b =>
          if match v with [] => true | _ => false end then (d, RInt (Zlen b)) else
          if max_str <? off + Zlen v then (d, err "ERR string exceeds maximum allowed size (proto-max-bulk-len)") else
          let nb := setrange_bytes b (Z.to_nat off) v in
          (put d k (VStr nb) (e_exp e), RInt (Zlen nb))
        | None => (d, wrongtype)
        end
      | None =>
        if match v with [] => true | _ => false end then (d, RInt 0) else
        if max_str <? off + Zlen v then (d, err "ERR string exceeds maximum allowed size (proto-max-bulk-len)") else
        let nb := setrange_bytes [] (Z.to_nat off) v in
        (put d k (VStr nb) None, RInt (Zlen nb))
      end
    | None => (d, argerr)
    end
  | _ => (d, argerr)
  end.

(* addInt: the Go overflow test, in int64 arithmetic *)
Definition add_overflows (value delta : Z) : bool :=
  let nv := wrap64 (value + delta) in
  negb (Bool.eqb (value <? nv) (0 <? delta)).

(* Redis string2ll: no leading '+', no leading zeros, no empty string; Go's ParseInt
   accepts them, the fixed code uses the strict form *)
Definition strict_i64 (b : bytes) : option Z :=
  match parse_i64 b with
  | Some z => if bytes_eqb (Z_to_bytes z) b then Some z else None
  | None => None
  end.

Definition incr_core (now : Z) (d : db) (k : bytes) (delta : Z) : res :=
  match lookup now d k with
  | Some e =>
    match str_of e with
    | Some b =>
      match strict_i64 b with
      | Some v =>
        if add_overflows v delta then (d, notint)
        else (put d k (VStr (Z_to_bytes (v + delta))) (e_exp e), RInt (v + delta))
      | None => (d, notint)
      end
    | None => (d, wrongtype)
    end
  | None => (put d k (VStr (Z_to_bytes delta)) None, RInt delta)
  end.

Definition cmd_incrby (sign : Z) (now : Z) (d : db) (args : list bytes) : res :=
  match args with
  | [k; n] => match parse_i64 n with
              | Some n =>
                (* DECRBY of the most negative number cannot be negated *)
                if (sign =? -1) && (n =? min_i64) then (d, err "ERR decrement would overflow")
                else incr_core now d k (if sign =? 1 then n else - n)
              | None => (d, argerr)
              end
  | _ => (d, argerr)
  end.

Definition cmd_incr (delta : Z) (now : Z) (d : db) (args : list bytes) : res :=
  match args with
  | [k] => incr_core now d k delta
  | _ => (d, argerr)
  end.

Definition cmd_mget (now : Z) (d : db) (args : list bytes) : res :=
  match args with
  | [] => (d, argerr)
  | _ => (d, RArr (map (fun k => match lookup now d k with
                                 | Some e => match str_of e with Some b => RBulk b | None => RNil end
                                 | None => RNil end) args))
  end.

Fixpoint pairs_of (l : list bytes) : option (list (bytes * bytes)) :=
  match l with
  | [] => Some []
  | k :: v :: r => match pairs_of r with Some p => Some ((k, v) :: p) | None => None end
  | _ => None
  end.

Definition cmd_mset (now : Z) (d : db) (args : list bytes) : res :=
  match args, pairs_of args with
  | _ :: _, Some ps => (fold_left (fun d kv => put d (fst kv) (VStr (snd kv)) None) ps d, ok)
  | _, _ => (d, argerr)
  end.

Definition cmd_msetnx (now : Z) (d : db) (args : list bytes) : res :=
  match args, pairs_of args with
  | _ :: _, Some ps =>
    if existsb (fun kv => match lookup now d (fst kv) with Some _ => true | None => false end) ps
    then (d, RInt 0)
    else (fold_left (fun d kv => put d (fst kv) (VStr (snd kv)) None) ps d, RInt 1)
  | _, _ => (d, argerr)
  end.

(* ================= lists (redisList.go) ================= *)
Definition list_of (e : entry) : option (list bytes) :=
  match e_val e with VList l => Some l | _ => None end.

(* None = wrong type; Some None = missing *)
Definition get_list (now : Z) (d : db) (k : bytes) : option (option (list bytes * option Z)) :=
  match lookup now d k with
  | Some e => match list_of e with Some l => Some (Some (l, e_exp e)) | None => None end
  | None => Some None
  end.

Definition put_list (d : db) (k : bytes) (l : list bytes) (exp : option Z) : db :=
  put_or_del d k (VList l) exp.

Definition cmd_push (lft xonly : bool) (now : Z) (d : db) (args : list bytes) : res :=
  match args with
  | k :: (_ :: _) as vs =>
    match get_list now d k with
    | None => (d, wrongtype)
    | Some None => if xonly then (d, RInt 0)
                   else let l := if lft then rev vs else vs in
                        (put_list d k l None, RInt (Zlen l))
    | Some (Some (l, exp)) =>
      let l' := if lft then rev vs ++ l else l ++ vs in
      (put_list d k l' exp, RInt (Zlen l'))
    end
  | _ => (d, argerr)
  end.

(* LPOP/RPOP key [count] *)
Definition cmd_pop (lft : bool) (now : Z) (d : db) (args : list bytes) : res :=
  match args with
  | [k] =>
    match get_list now d k with
    | None => (d, wrongtype)
    | Some None => (d, RNil)
    | Some (Some (l, exp)) =>
      if lft then
        match l with
        | x :: r => (put_list d k r exp, RBulk x)
        | [] => (d, RNil)
        end
      else
        match rev l with
        | x :: r => (put_list d k (rev r) exp, RBulk x)
        | [] => (d, RNil)
        end
    end
  | [k; c] =>
    match parse_i64 c with
    | Some c =>
      if c <? 0 then (d, err "ERR value is out of range, must be positive") else
      match get_list now d k with
      | None => (d, wrongtype)
      | Some None => (d, RNil)
      | Some (Some (l, exp)) =>
        let n := Z.to_nat (Z.min c (Zlen l)) in
        if c =? 0 then (d, RArr []) else   (* nothing is taken: not a modification *)
        if lft then (put_list d k (skipn n l) exp, RArr (bulks (firstn n l)))
        else (put_list d k (firstn (length l - n) l) exp, RArr (bulks (firstn n (rev l))))
      end
    | None => (d, argerr)
    end
  | _ => (d, argerr)
  end.

Definition cmd_llen (now : Z) (d : db) (args : list bytes) : res :=
  match args with
  | [k] => match get_list now d k with
           | None => (d, wrongtype)
           | Some None => (d, RInt 0)
           | Some (Some (l, _)) => (d, RInt (Zlen l))
           end
  | _ => (d, argerr)
  end.

Definition nthZ {A} (l : list A) (i : Z) : option A :=
  if (i <? 0) || (Zlen l <=? i) then None else nth_error l (Z.to_nat i).

(* a non-negative count, clamped to a length before it becomes a nat *)
Definition clamp (z : Z) (n : nat) : nat := Z.to_nat (Z.min z (Z.of_nat n)).

Definition cmd_lindex (now : Z) (d : db) (args : list bytes) : res :=
  match args with
  | [k; i] =>
    match parse_i64 i with
    | Some i =>
      match get_list now d k with
      | None => (d, wrongtype)
      | Some None => (d, RNil)
      | Some (Some (l, _)) =>
        let j := if i <? 0 then Zlen l + i else i in
        match nthZ l j with Some x => (d, RBulk x) | None => (d, RNil) end
      end
    | None => (d, argerr)
    end
  | _ => (d, argerr)
  end.

(* lrange: Go's normalisation *)
Definition lrange_list (l : list bytes) (start stop : Z) : list bytes :=
  let n := Zlen l in
  let start := if start <? 0 then n + start else start in
  let stop := if stop <? 0 then n + stop else stop in
  let start := if start <? 0 then 0 else start in
  if (stop <? start) || (n <=? start) then [] else slice l start (Z.min stop (n - 1)).

Definition cmd_lrange (now : Z) (d : db) (args : list bytes) : res :=
  match args with
  | [k; s; e] =>
    match parse_i64 s, parse_i64 e with
    | Some s, Some e =>
      match get_list now d k with
      | None => (d, wrongtype)
      | Some None => (d, RArr [])
      | Some (Some (l, _)) => (d, RArr (bulks (lrange_list l s e)))
      end
    | _, _ => (d, argerr)
    end
  | _ => (d, argerr)
  end.

Fixpoint replace_nth {A} (l : list A) (n : nat) (x : A) : list A :=
  match l, n with
  | [], _ => []
  | _ :: r, O => x :: r
  | y :: r, S n' => y :: replace_nth r n' x
  end.

Definition cmd_lset (now : Z) (d : db) (args : list bytes) : res :=
  match args with
  | [k; i; v] =>
    match parse_i64 i with
    | Some i =>
      match get_list now d k with
      | None => (d, wrongtype)
      | Some None => (d, err "ERR no such key")
      | Some (Some (l, exp)) =>
        let j := if i <? 0 then Zlen l + i else i in
        if (j <? 0) || (Zlen l <=? j) then (d, err "ERR index out of range")
        else (put_list d k (replace_nth l (Z.to_nat j) v) exp, ok)
      end
    | None => (d, argerr)
    end
  | _ => (d, argerr)
  end.

Fixpoint insert_at (before : bool) (pivot x : bytes) (l : list bytes) : option (list bytes) :=
  match l with
  | [] => None
  | y :: r => if bytes_eqb y pivot then Some (if before then x :: y :: r else y :: x :: r)
              else match insert_at before pivot x r with Some r' => Some (y :: r') | None => None end
  end.

Definition cmd_linsert (now : Z) (d : db) (args : list bytes) : res :=
  match args with
  | [k; w; p; x] =>
    let where_ := if is_kw w "BEFORE" then Some true else if is_kw w "AFTER" then Some false else None in
    match where_ with
    | None => (d, argerr)
    | Some before =>
      match get_list now d k with
      | None => (d, wrongtype)
      | Some None => (d, RInt 0)
      | Some (Some (l, exp)) =>
        match insert_at before p x l with
        | Some l' => (put_list d k l' exp, RInt (Zlen l'))
        | None => (d, RInt (-1))
        end
      end
    end
  | _ => (d, argerr)
  end.

(* remove up to n occurrences of x scanning from the head *)
Fixpoint lrem_head (n : nat) (x : bytes) (l : list bytes) : list bytes * Z :=
  match l with
  | [] => ([], 0)
  | y :: r =>
    match n with
    | O => (l, 0)
    | S n' => if bytes_eqb y x then let '(r', c) := lrem_head n' x r in (r', c + 1)
              else let '(r', c) := lrem_head n x r in (y :: r', c)
    end
  end.

Definition cmd_lrem (now : Z) (d : db) (args : list bytes) : res :=
  match args with
  | [k; c; x] =>
    match parse_i64 c with
    | Some c =>
      match get_list now d k with
      | None => (d, wrongtype)
      | Some None => (d, RInt 0)
      | Some (Some (l, exp)) =>
        let lim := if c =? 0 then length l else clamp (Z.abs c) (length l) in
        if 0 <=? c then
          let '(l', n) := lrem_head lim x l in
          (if n =? 0 then d else put_list d k l' exp, RInt n)
        else
          let '(l', n) := lrem_head lim x (rev l) in
          (if n =? 0 then d else put_list d k (rev l') exp, RInt n)
      end
    | None => (d, argerr)
    end
  | _ => (d, argerr)
  end.

Definition ltrim_list (l : list bytes) (start stop : Z) : list bytes :=
  let n := Zlen l in
  let start := if start <? 0 then n + start else start in
  let stop := if stop <? 0 then n + stop else stop in
  let start := if start <? 0 then 0 else start in
  if (stop <? start) || (n <=? start) then [] else slice l start (Z.min stop (n - 1)).

Definition cmd_ltrim (now : Z) (d : db) (args : list bytes) : res :=
  match args with
  | [k; s; e] =>
    match parse_i64 s, parse_i64 e with
    | Some s, Some e =>
      match get_list now d k with
      | None => (d, wrongtype)
      | Some None => (d, ok)
      | Some (Some (l, exp)) =>
        let l' := ltrim_list l s e in
        (if Nat.eqb (length l') (length l) then d else put_list d k l' exp, ok)
      end
    | _, _ => (d, argerr)
    end
  | _ => (d, argerr)
  end.

(* lpos: scan with rank / count / maxlen exactly as the Go loop *)
Fixpoint lpos_scan (l : list bytes) (x : bytes) (pos step : Z) (rank count maxlen : nat) : list Z :=
  match l with
  | [] => []
  | y :: r =>
    match maxlen, count with
    | O, _ => []
    | _, O => []
    | S ml, S cn =>
      if bytes_eqb y x then
        match rank with
        | S rk => lpos_scan r x (pos + step) step rk count ml
        | O => pos :: lpos_scan r x (pos + step) step O cn ml
        end
      else lpos_scan r x (pos + step) step rank count ml
    end
  end.

Record lposopts := mkLP { lp_rank : option Z; lp_count : option Z; lp_maxlen : option Z }.

Fixpoint scan_lpos (fuel : nat) (args : list bytes) (o : lposopts) : option lposopts :=
  match fuel with
  | O => None
  | S f =>
    match args with
    | [] => Some o
    | a :: v :: r =>
      match parse_i64 v with
      | Some n =>
        if is_kw a "RANK" then match lp_rank o with Some _ => None | None => scan_lpos f r (mkLP (Some n) (lp_count o) (lp_maxlen o)) end
        else if is_kw a "COUNT" then match lp_count o with Some _ => None | None => scan_lpos f r (mkLP (lp_rank o) (Some n) (lp_maxlen o)) end
        else if is_kw a "MAXLEN" then match lp_maxlen o with Some _ => None | None => scan_lpos f r (mkLP (lp_rank o) (lp_count o) (Some n)) end
        else None
      | None => None
      end
    | _ => None
    end
  end.

Definition cmd_lpos (now : Z) (d : db) (args : list bytes) : res :=
  match args with
  | k :: x :: opts =>
    match scan_lpos (S (length opts)) opts (mkLP None None None) with
    | None => (d, argerr)
    | Some o =>
      let rank := match lp_rank o with Some r => r | None => 1 end in
      if rank =? 0 then (d, err "ERR RANK can't be zero") else
      if rank =? min_i64 then (d, err "ERR value is out of range") else
      let hascount := match lp_count o with Some _ => true | None => false end in
      let count := match lp_count o with Some c => c | None => 1 end in
      if count <? 0 then (d, err "ERR COUNT can't be negative") else
      let maxlen := match lp_maxlen o with Some m => m | None => 0 end in
      if maxlen <? 0 then (d, err "ERR MAXLEN can't be negative") else
      match get_list now d k with
      | None => (d, wrongtype)
      | Some None => (d, if hascount then RArr [] else RNil)
      | Some (Some (l, _)) =>
        let n := length l in
        let cn := if count =? 0 then n else clamp count n in
        let ml := if maxlen =? 0 then n else clamp maxlen n in
        let rk := clamp (Z.abs rank - 1) n in
        let ms := if 0 <? rank then lpos_scan l x 0 1 rk cn ml
                  else lpos_scan (rev l) x (Zlen l - 1) (-1) rk cn ml in
        if hascount then (d, RArr (map RInt ms))
        else match ms with m :: _ => (d, RInt m) | [] => (d, RNil) end
      end
    end
  | _ => (d, argerr)
  end.

(* lmove: pop from one end of src, push to one end of dst; src = dst rotates *)
Definition lmove_core (now : Z) (d : db) (src dst : bytes) (sl dl : bool) : res :=
  match get_list now d src with
  | None => (d, wrongtype)
  | Some None => (d, RNil)
  | Some (Some (l, exp)) =>
    match get_list now d dst with
    | None => (d, wrongtype)
    | Some dstv =>
      let popped := if sl then match l with x :: r => Some (x, r) | [] => None end
                    else match rev l with x :: r => Some (x, rev r) | [] => None end in
      match popped with
      | None => (d, RNil)
      | Some (x, rest) =>
        if bytes_eqb src dst then
          (put_list d src (if dl then x :: rest else rest ++ [x]) exp, RBulk x)
        else
          let d1 := put_list d src rest exp in
          let '(dl0, dexp) := match dstv with Some (l2, e2) => (l2, e2) | None => ([], None) end in
          (put_list d1 dst (if dl then x :: dl0 else dl0 ++ [x]) dexp, RBulk x)
      end
    end
  end.

Definition side (a : bytes) : option bool :=
  if is_kw a "LEFT" then Some true else if is_kw a "RIGHT" then Some false else None.

Definition cmd_lmove (now : Z) (d : db) (args : list bytes) : res :=
  match args with
  | [s; t; a; b] =>
    match side a, side b with
    | Some sl, Some dl => lmove_core now d s t sl dl
    | _, _ => (d, argerr)
    end
  | _ => (d, argerr)
  end.

Definition cmd_rpoplpush (now : Z) (d : db) (args : list bytes) : res :=
  match args with
  | [s; t] => lmove_core now d s t false true
  | _ => (d, argerr)
  end.

(* LMPOP numkeys key... LEFT|RIGHT [COUNT n] *)
Fixpoint lmpop_keys (now : Z) (d : db) (keys : list bytes) (lft : bool) (count : Z) : res :=
  match keys with
  | [] => (d, RNil)
  | k :: r =>
    match get_list now d k with
    | None => (d, wrongtype)
    | Some None => lmpop_keys now d r lft count
    | Some (Some (l, exp)) =>
      let n := Z.to_nat (Z.min count (Zlen l)) in
      if lft then (put_list d k (skipn n l) exp, RArr [RBulk k; RArr (bulks (firstn n l))])
      else (put_list d k (firstn (length l - n) l) exp, RArr [RBulk k; RArr (bulks (firstn n (rev l)))])
    end
  end.

Definition cmd_lmpop (now : Z) (d : db) (args : list bytes) : res :=
  match args with
  | nk :: rest =>
    match parse_i64 nk with
    | Some nk =>
      if (nk <=? 0) || (Zlen rest <? nk) then (d, argerr) else
      let n := Z.to_nat nk in
      let keys := firstn n rest in
      let tail := skipn n rest in
      if negb (Nat.eqb (length keys) n) then (d, argerr) else
      match tail with
      | [w] => match side w with Some lft => lmpop_keys now d keys lft 1 | None => (d, argerr) end
      | [w; c; cnt] =>
        match side w, is_kw c "COUNT", parse_i64 cnt with
        | Some lft, true, Some cnt => if cnt <? 1 then (d, syntaxerr) else lmpop_keys now d keys lft cnt
        | _, _, _ => (d, argerr)
        end
      | _ => (d, argerr)
      end
    | None => (d, argerr)
    end
  | _ => (d, argerr)
  end.

(* ================= hashes (redisHashTable.go) ================= *)
Definition hash_of (e : entry) : option (list (bytes * bytes)) :=
  match e_val e with VHash h => Some h | _ => None end.

Definition get_hash (now : Z) (d : db) (k : bytes) : option (option (list (bytes * bytes) * option Z)) :=
  match lookup now d k with
  | Some e => match hash_of e with Some h => Some (Some (h, e_exp e)) | None => None end
  | None => Some None
  end.

Definition put_hash (d : db) (k : bytes) (h : list (bytes * bytes)) (exp : option Z) : db :=
  put_or_del d k (VHash h) exp.

Fixpoint hset_all (h : list (bytes * bytes)) (ps : list (bytes * bytes)) (nx : bool) : list (bytes * bytes) * Z :=
  match ps with
  | [] => (h, 0)
  | (f, v) :: r =>
    if amem h f then
      let '(h', n) := hset_all (if nx then h else aset h f v) r nx in (h', n)
    else
      let '(h', n) := hset_all (aset h f v) r nx in (h', n + 1)
  end.

Definition cmd_hset (mode : N) (now : Z) (d : db) (args : list bytes) : res :=
  (* mode 0 = HSET, 1 = HMSET, 2 = HSETNX *)
  match args with
  | k :: (_ :: _) as fv =>
    match pairs_of fv with
    | Some ps =>
      if (N.eqb mode 2) && negb (Nat.eqb (length ps) 1) then (d, argerr) else
      match get_hash now d k with
      | None => (d, wrongtype)
      | Some cur =>
        let '(h0, exp) := match cur with Some (h, e) => (h, e) | None => ([], None) end in
        let '(h', n) := hset_all h0 ps (N.eqb mode 2) in
        let d' := if (N.eqb mode 2) && (n =? 0) then d else put_hash d k h' exp in
        (d', if N.eqb mode 1 then ok else RInt n)
      end
    | None => (d, argerr)
    end
  | _ => (d, argerr)
  end.

Definition cmd_hget (now : Z) (d : db) (args : list bytes) : res :=
  match args with
  | [k; f] =>
    match get_hash now d k with
    | None => (d, wrongtype)
    | Some None => (d, RNil)
    | Some (Some (h, _)) => (d, match aget h f with Some v => RBulk v | None => RNil end)
    end
  | _ => (d, argerr)
  end.

Definition cmd_hmget (now : Z) (d : db) (args : list bytes) : res :=
  match args with
  | k :: (_ :: _) as fs =>
    match get_hash now d k with
    | None => (d, wrongtype)
    | Some None => (d, RArr (map (fun _ => RNil) fs))
    | Some (Some (h, _)) => (d, RArr (map (fun f => match aget h f with Some v => RBulk v | None => RNil end) fs))
    end
  | _ => (d, argerr)
  end.

Definition cmd_hgetall (now : Z) (d : db) (args : list bytes) : res :=
  match args with
  | [k] =>
    match get_hash now d k with
    | None => (d, wrongtype)
    | Some None => (d, RMap [])
    | Some (Some (h, _)) => (d, RMap (map (fun fv => (RBulk (fst fv), RBulk (snd fv))) h))
    end
  | _ => (d, argerr)
  end.

Definition cmd_hkeys (vals : bool) (now : Z) (d : db) (args : list bytes) : res :=
  match args with
  | [k] =>
    match get_hash now d k with
    | None => (d, wrongtype)
    | Some None => (d, RArrU [])
    | Some (Some (h, _)) => (d, RArrU (bulks (map (if vals then snd else fst) h)))
    end
  | _ => (d, argerr)
  end.

Definition cmd_hlen (now : Z) (d : db) (args : list bytes) : res :=
  match args with
  | [k] =>
    match get_hash now d k with
    | None => (d, wrongtype)
    | Some None => (d, RInt 0)
    | Some (Some (h, _)) => (d, RInt (Zlen h))
    end
  | _ => (d, argerr)
  end.

Definition cmd_hexists (strlen : bool) (now : Z) (d : db) (args : list bytes) : res :=
  match args with
  | [k; f] =>
    match get_hash now d k with
    | None => (d, wrongtype)
    | Some None => (d, RInt 0)
    | Some (Some (h, _)) =>
      (d, match aget h f with
          | Some v => RInt (if strlen then Zlen v else 1)
          | None => RInt 0 end)
    end
  | _ => (d, argerr)
  end.

Definition cmd_hdel (now : Z) (d : db) (args : list bytes) : res :=
  match args with
  | k :: (_ :: _) as fs =>
    match get_hash now d k with
    | None => (d, wrongtype)
    | Some None => (d, RInt 0)
    | Some (Some (h, exp)) =>
      let '(h', n) := fold_left (fun acc f => let '(h, n) := acc in
                                  if amem h f then (adel h f, n + 1) else (h, n)) fs (h, 0) in
      (if n =? 0 then d else put_hash d k h' exp, RInt n)
    end
  | _ => (d, argerr)
  end.

Definition cmd_hincrby (now : Z) (d : db) (args : list bytes) : res :=
  match args with
  | [k; f; n] =>
    match parse_i64 n with
    | Some delta =>
      match get_hash now d k with
      | None => (d, wrongtype)
      | Some cur =>
        let '(h0, exp) := match cur with Some (h, e) => (h, e) | None => ([], None) end in
        match aget h0 f with
        | Some old =>
          match strict_i64 old with
          | Some v =>
            if in_i64 (v + delta) then (put_hash d k (aset h0 f (Z_to_bytes (v + delta))) exp, RInt (v + delta))
            else (d, err "ERR increment or decrement would overflow")
          | None => (d, err "ERR hash value is not an integer")
          end
        | None => (put_hash d k (aset h0 f (Z_to_bytes delta)) exp, RInt delta)
        end
      end
    | None => (d, argerr)
    end
  | _ => (d, argerr)
  end.

Definition hrand_cands (h : list (bytes * bytes)) : list resp := bulks (map fst h).

Definition cmd_hrandfield (now : Z) (d : db) (args : list bytes) : res :=
  match args with
  | [k] =>
    match get_hash now d k with
    | None => (d, wrongtype)
    | Some None => (d, RNil)
    | Some (Some (h, _)) => (d, RPick (hrand_cands h) 1 true false)
    end
  | k :: c :: wv =>
    match parse_i64 c with
    | Some c =>
      let withv := match wv with [w] => Some (is_kw w "WITHVALUES") | [] => Some false | _ => None end in
      match withv with
      | Some true | Some false =>
        let wvb := match withv with Some b => b | None => false end in
        if (match wv with [w] => negb (is_kw w "WITHVALUES") | _ => false end) then (d, argerr) else
        match get_hash now d k with
        | None => (d, wrongtype)
        | Some None => (d, if wvb then RPairs [] else RArr [])
        | Some (Some (h, _)) =>
          (d, RPick (if wvb then map (fun fv => RArr [RBulk (fst fv); RBulk (snd fv)]) h else hrand_cands h) c false wvb)
        end
      | None => (d, argerr)
      end
    | None => (d, argerr)
    end
  | _ => (d, argerr)
  end.

(* ================= sets (redisSet.go) ================= *)
Definition set_of (e : entry) : option (list bytes) :=
  match e_val e with VSet s => Some s | _ => None end.

Definition get_set (now : Z) (d : db) (k : bytes) : option (option (list bytes * option Z)) :=
  match lookup now d k with
  | Some e => match set_of e with Some s => Some (Some (s, e_exp e)) | None => None end
  | None => Some None
  end.

Definition put_set (d : db) (k : bytes) (s : list bytes) (exp : option Z) : db :=
  put_or_del d k (VSet s) exp.

Definition sadd_all (s : list bytes) (ms : list bytes) : list bytes * Z :=
  fold_left (fun acc m => let '(s, n) := acc in
                          if mem_bytes m s then (s, n) else (s ++ [m], n + 1)) ms (s, 0).

Definition cmd_sadd (now : Z) (d : db) (args : list bytes) : res :=
  match args with
  | k :: (_ :: _) as ms =>
    match get_set now d k with
    | None => (d, wrongtype)
    | Some cur =>
      let '(s0, exp) := match cur with Some (s, e) => (s, e) | None => ([], None) end in
      let '(s', n) := sadd_all s0 ms in
      (if n =? 0 then d else put_set d k s' exp, RInt n)
    end
  | _ => (d, argerr)
  end.

Definition cmd_srem (now : Z) (d : db) (args : list bytes) : res :=
  match args with
  | k :: (_ :: _) as ms =>
    match get_set now d k with
    | None => (d, wrongtype)
    | Some None => (d, RInt 0)
    | Some (Some (s, exp)) =>
      let '(s', n) := fold_left (fun acc m => let '(s, n) := acc in
                                  if mem_bytes m s then (remove_bytes m s, n + 1) else (s, n)) ms (s, 0) in
      (if n =? 0 then d else put_set d k s' exp, RInt n)
    end
  | _ => (d, argerr)
  end.

Definition cmd_scard (now : Z) (d : db) (args : list bytes) : res :=
  match args with
  | [k] =>
    match get_set now d k with
    | None => (d, wrongtype)
    | Some None => (d, RInt 0)
    | Some (Some (s, _)) => (d, RInt (Zlen s))
    end
  | _ => (d, argerr)
  end.

Definition cmd_sismember (now : Z) (d : db) (args : list bytes) : res :=
  match args with
  | [k; m] =>
    match get_set now d k with
    | None => (d, wrongtype)
    | Some None => (d, RInt 0)
    | Some (Some (s, _)) => (d, RInt (if mem_bytes m s then 1 else 0))
    end
  | _ => (d, argerr)
  end.

Definition cmd_smismember (now : Z) (d : db) (args : list bytes) : res :=
  match args with
  | k :: (_ :: _) as ms =>
    match get_set now d k with
    | None => (d, wrongtype)
    | Some None => (d, RArr (map (fun _ => RInt 0) ms))
    | Some (Some (s, _)) => (d, RArr (map (fun m => RInt (if mem_bytes m s then 1 else 0)) ms))
    end
  | _ => (d, argerr)
  end.

Definition cmd_smembers (now : Z) (d : db) (args : list bytes) : res :=
  match args with
  | [k] =>
    match get_set now d k with
    | None => (d, wrongtype)
    | Some None => (d, RArrU [])
    | Some (Some (s, _)) => (d, RArrU (bulks s))
    end
  | _ => (d, argerr)
  end.

Definition cmd_smove (now : Z) (d : db) (args : list bytes) : res :=
  match args with
  | [src; dst; m] =>
    match get_set now d src with
    | None => (d, wrongtype)
    | Some None => (d, RInt 0)
    | Some (Some (s, exp)) =>
      match get_set now d dst with
      | None => (d, wrongtype)
      | Some dcur =>
        if negb (mem_bytes m s) then (d, RInt 0) else
        if bytes_eqb src dst then (d, RInt 1) else
        let d1 := put_set d src (remove_bytes m s) exp in
        let '(s2, e2) := match dcur with Some (s2, e2) => (s2, e2) | None => ([], None) end in
        (if mem_bytes m s2 then d1 else put_set d1 dst (s2 ++ [m]) e2, RInt 1)
      end
    end
  | _ => (d, argerr)
  end.

Definition cmd_srandmember (now : Z) (d : db) (args : list bytes) : res :=
  match args with
  | [k] =>
    match get_set now d k with
    | None => (d, wrongtype)
    | Some None => (d, RNil)
    | Some (Some (s, _)) => (d, RPick (bulks s) 1 true false)
    end
  | [k; c] =>
    match parse_i64 c with
    | Some c =>
      match get_set now d k with
      | None => (d, wrongtype)
      | Some None => (d, RArr [])
      | Some (Some (s, _)) => (d, RPick (bulks s) c false false)
      end
    | None => (d, argerr)
    end
  | _ => (d, argerr)
  end.

(* operands of the set algebra: None = some operand has the wrong type *)
Fixpoint set_operands (now : Z) (d : db) (ks : list bytes) : option (list (list bytes)) :=
  match ks with
  | [] => Some []
  | k :: r =>
    match get_set now d k, set_operands now d r with
    | Some cur, Some rest => Some (match cur with Some (s, _) => s | None => [] end :: rest)
    | _, _ => None
    end
  end.

(* Go checks operands in order and stops at the first missing one for SINTER/SINTERCARD,
   and at a missing first operand for SDIFF: later operands are then not type-checked *)
Fixpoint set_operands_until_missing (now : Z) (d : db) (ks : list bytes) : option (list (list bytes)) :=
  match ks with
  | [] => Some []
  | k :: r =>
    match get_set now d k with
    | None => None
    | Some None => Some [[]]
    | Some (Some (s, _)) =>
      match set_operands_until_missing now d r with
      | Some rest => Some (s :: rest)
      | None => None
      end
    end
  end.

Definition sinter_l (ops : list (list bytes)) : list bytes :=
  match ops with
  | [] => []
  | s :: r => filter (fun x => forallb (mem_bytes x) r) s
  end.
Definition sunion_l (ops : list (list bytes)) : list bytes := dedup_bytes (rev (dedup_bytes (rev (concat ops)))).
Definition sdiff_l (ops : list (list bytes)) : list bytes :=
  match ops with
  | [] => []
  | s :: r => filter (fun x => negb (existsb (mem_bytes x) r)) s
  end.

Inductive setop := OpInter | OpUnion | OpDiff.
Definition setop_fn (o : setop) : list (list bytes) -> list bytes :=
  match o with OpInter => sinter_l | OpUnion => sunion_l | OpDiff => sdiff_l end.
Definition setop_operands (o : setop) (now : Z) (d : db) (ks : list bytes) : option (list (list bytes)) :=
  match o with
  | OpInter => set_operands_until_missing now d ks
  | OpUnion => set_operands now d ks
  | OpDiff =>
    match ks with
    | k :: _ => match get_set now d k with
                | Some None => Some [[]]
                | _ => set_operands now d ks
                end
    | [] => Some []
    end
  end.

Definition cmd_setop (o : setop) (now : Z) (d : db) (args : list bytes) : res :=
  let f := setop_fn o in
  match args with
  | _ :: _ =>
    match setop_operands o now d args with
    | Some ops => (d, RArrU (bulks (f ops)))
    | None => (d, wrongtype)
    end
  | _ => (d, argerr)
  end.

Definition cmd_setop_store (o : setop) (now : Z) (d : db) (args : list bytes) : res :=
  let f := setop_fn o in
  match args with
  | dst :: (_ :: _) as ks =>
    match setop_operands o now d ks with
    | Some ops => let r := f ops in
                  (match r with
                   | [] => match aget (d_map d) dst with Some _ => del d dst | None => d end
                   | _ => put d dst (VSet r) None
                   end, RInt (Zlen r))
    | None => (d, wrongtype)
    end
  | _ => (d, argerr)
  end.

Definition cmd_sintercard (now : Z) (d : db) (args : list bytes) : res :=
  match args with
  | nk :: rest =>
    match parse_i64 nk with
    | Some nk =>
      if nk <=? 0 then (d, argerr) else
      if Zlen rest <? nk then (d, err "ERR Number of keys can't be greater than number of args") else
      let n := Z.to_nat nk in
      let keys := firstn n rest in
      let tail := skipn n rest in
      let lim : option Z :=
        match tail with
        | [] => Some 0
        | [l; v] => if is_kw l "LIMIT" then parse_i64 v else None
        | _ => None
        end in
      match lim with
      | Some lim =>
        if lim <? 0 then (d, err "ERR LIMIT can't be negative") else
        match set_operands_until_missing now d keys with
        | Some ops => let c := Zlen (sinter_l ops) in
                      (d, RInt (if (0 <? lim) && (lim <? c) then lim else c))
        | None => (d, wrongtype)
        end
      | None => (d, syntaxerr)
      end
    | None => (d, argerr)
    end
  | _ => (d, argerr)
  end.
