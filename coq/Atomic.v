(* Atomic.v — concurrent clients over the sequential emulator: every command runs in one
   lock section (dataStoreCommands.go: lock()/defer unlock() around each store method; EXEC holds
   the database exclusively), so a concurrent history is an interleaving of invoke / execute /
   respond events in which "execute" is one atomic [step]. *)
From RE Require Import Base Resp State Exec Exec2 Bits Dispatch.
From Coq Require Import List.
Open Scope list_scope.

Inductive ev :=
| EInvoke (c : N) (cmd : list bytes)     (* the request is on the wire *)
| EExec (c : N) (now : Z)                (* the command takes the lock, runs, releases *)
| ERespond (c : N).                      (* the reply is on the wire *)

(* per connection: nothing in flight / invoked, waiting for the lock / executed, reply not yet delivered *)
Inductive cst := CIdle | CInvoked (cmd : list bytes) | CExecuted (cmd : list bytes) (r : resp).

Record mach := mkM {
  m_st : state;
  m_conns : list (N * cst);
  m_done : list (N * list bytes * resp)    (* completed operations in the order of their EXECUTE events *)
}.
Definition mach0 : mach := mkM state0 [] [].

Definition cst_of (m : mach) (c : N) : cst := match nget (m_conns m) c with Some x => x | None => CIdle end.

Definition mstep (m : mach) (e : ev) : option mach :=
  match e with
  | EInvoke c cmd =>
    match cst_of m c with
    | CIdle => Some (mkM (m_st m) (nset (m_conns m) c (CInvoked cmd)) (m_done m))   (* one command in flight per connection *)
    | _ => None
    end
  | EExec c now =>
    match cst_of m c with
    | CInvoked cmd =>
      let o := step now (m_st m) c cmd in
      Some (mkM (o_st o) (nset (m_conns m) c (CExecuted cmd (o_reply o))) (m_done m ++ [(c, cmd, o_reply o)]))
    | _ => None
    end
  | ERespond c =>
    match cst_of m c with
    | CExecuted _ _ => Some (mkM (m_st m) (nset (m_conns m) c CIdle) (m_done m))
    | _ => None
    end
  end.

Fixpoint mrun (m : mach) (es : list ev) : option mach :=
  match es with [] => Some m | e :: r => match mstep m e with Some m' => mrun m' r | None => None end end.

(* the sequential execution of a list of (connection, time, command) *)
Fixpoint seq_run (st : state) (ops : list (N * Z * list bytes)) : state * list resp :=
  match ops with
  | [] => (st, [])
  | (c, now, cmd) :: r =>
    let o := step now st c cmd in
    let '(st', rs) := seq_run (o_st o) r in (st', o_reply o :: rs)
  end.
